/-
  C15: assembly.  `validate ps = .ok ps'` is taken apart into the checks of every partition, the per-check lemmas of
  YkProofs/Conf.lean and YkProofs/ConfLimits.lean are put together, and the propositional statements are turned into the
  executable clauses of YkModel/ConfSpec.lean (the ones the driver evaluates on the implementation's output).
-/
import YkProofs.ConfLimits
namespace Yk.Conf
open Yk Yk.Res

/-- everything `validatePart` checked, for the root it wrote back -/
structure Accepted (p p' : Part) (root : QC) : Prop where
  out : p' = { p with queues := some [root] }
  struct : ∃ r0, checkQueuesStructure p.queues = .ok r0 ∧ checkLimitsStructure p.limits r0 = .ok root
  queues : checkQueues root = .ok ()
  res : ∃ g, checkQueueResource root none = .ok g
  rules : checkPlacementRules p.rules [root] = .ok ()
  nsp : checkNodeSortingPolicy p.nsp p.weights = .ok ()
  apps : checkQueueMaxApps root = .ok ()
  limRes : checkLimitResource root = .ok ()
  limApps : checkLimitMaxApps root = .ok ()

theorem validatePart_ok {p p' : Part} (h : validatePart p = .ok p') : ∃ root, Accepted p p' root := by
  unfold validatePart at h
  simp only [bind_ok, pure_ok] at h
  obtain ⟨r0, h0, root, h1, _, h2, g, h3, _, h4, _, h5, _, h6, _, h7, _, h8, h9⟩ := h
  exact ⟨root, ⟨h9.symm, ⟨r0, h0, h1⟩, h2, ⟨g, h3⟩, h4, h5, h6, h7, h8⟩⟩

theorem validateL_ok : ∀ (ps : List Part) (seen : List String) (ps' : List Part), validateL ps seen = .ok ps' →
    ∀ p' ∈ ps', ∃ p ∈ ps, validatePart { p with name := partName p } = .ok p'
  | [], _, ps', h => by simp [validateL] at h; subst h; intro p' hp'; cases hp'
  | p :: t, seen, ps', h => by
    unfold validateL at h
    simp only at h
    split at h
    · cases h
    · simp only [bind_ok, pure_ok] at h
      obtain ⟨p1, h1, rest, h2, h3⟩ := h
      subst h3
      intro p' hp'
      cases hp' with
      | head => exact ⟨p, List.mem_cons_self, h1⟩
      | tail _ hp' =>
        obtain ⟨q, hq, hv⟩ := validateL_ok t _ rest h2 p' hp'
        exact ⟨q, List.mem_cons_of_mem _ hq, hv⟩

/-- every partition of an accepted configuration went through `validatePart` -/
theorem validate_ok {ps ps' : List Part} (h : validate ps = .ok ps') :
    ∀ p' ∈ ps', ∃ p ∈ ps, ∃ root, Accepted { p with name := partName p } p' root := by
  intro p' hp'
  obtain ⟨p, hp, hv⟩ := validateL_ok ps [] ps' h p' hp'
  obtain ⟨root, ha⟩ := validatePart_ok hv
  exact ⟨p, hp, root, ha⟩

/-! ### S1 -/

theorem toLower_root : toLower "root" = "root" := by decide

theorem topRoot_ok (qs : List QC) : toLower (topRoot qs).d.name = "root" ∧ (topRoot qs).d.parent = true := by
  unfold topRoot
  split
  · split
    · rename_i hn; exact ⟨by simpa [QC.d] using hn, rfl⟩
    · exact ⟨toLower_root, rfl⟩
  · exact ⟨toLower_root, rfl⟩

theorem checkQueuesStructure_ok {qs : Option (List QC)} {root : QC} (h : checkQueuesStructure qs = .ok root) :
    toLower root.d.name = "root" ∧ root.d.parent = true ∧ root.d.g = none ∧ root.d.m = none := by
  unfold checkQueuesStructure at h
  cases qs with
  | none => cases h
  | some l =>
    simp only at h
    split at h
    · cases h
    · rename_i hres
      injection h with h
      simp only [Bool.or_eq_true, not_or, Bool.not_eq_true, Option.isSome_eq_false_iff, Option.isNone_iff_eq_none] at hres
      subst h
      exact ⟨(topRoot_ok l).1, (topRoot_ok l).2, hres.1, hres.2⟩

theorem checkLimitsStructure_ok {pl : List Limit} {r0 root : QC} (h : checkLimitsStructure pl r0 = .ok root) :
    root.d.name = r0.d.name ∧ root.d.parent = r0.d.parent ∧ root.d.g = r0.d.g ∧ root.d.m = r0.d.m := by
  unfold checkLimitsStructure at h
  split at h
  · cases h
  · split at h
    · cases h
    · split at h
      · injection h with h; subst h; exact ⟨rfl, rfl, rfl, rfl⟩
      · injection h with h; subst h; exact ⟨rfl, rfl, rfl, rfl⟩

theorem accepted_singleRoot {p p' : Part} {root : QC} (h : Accepted p p' root) : okSingleRoot p' = true := by
  obtain ⟨r0, h0, h1⟩ := h.struct
  obtain ⟨a1, a2, a3, a4⟩ := checkQueuesStructure_ok h0
  obtain ⟨b1, b2, b3, b4⟩ := checkLimitsStructure_ok h1
  rw [h.out]
  simp only [okSingleRoot, b1, b2, b3, b4, a1, a2, a3, a4]
  rfl

/-! ### parents in `walk` -/

mutual
theorem walk_parent : ∀ (q : QC) (anc : List QD) (e : Entry), e ∈ walk anc q →
    e = (anc, q) ∨ ∃ p ancp, (ancp, p) ∈ walk anc q ∧ e.2 ∈ p.qs ∧ e.1 = p.d :: ancp
  | .mk d qs, anc, e, he => by
    unfold walk at he
    cases he with
    | head => exact Or.inl rfl
    | tail _ he =>
      refine Or.inr ?_
      rcases walkL_parent qs (d :: anc) e he with ⟨c, hc, rfl⟩ | ⟨p, ancp, hp, h1, h2⟩
      · exact ⟨.mk d qs, anc, by unfold walk; exact List.mem_cons_self, hc, rfl⟩
      · exact ⟨p, ancp, by unfold walk; exact List.mem_cons_of_mem _ hp, h1, h2⟩
theorem walkL_parent : ∀ (qs : List QC) (anc : List QD) (e : Entry), e ∈ walkL anc qs →
    (∃ c ∈ qs, e = (anc, c)) ∨ ∃ p ancp, (ancp, p) ∈ walkL anc qs ∧ e.2 ∈ p.qs ∧ e.1 = p.d :: ancp
  | [], _, e, he => by simp [walkL] at he
  | q :: t, anc, e, he => by
    unfold walkL at he
    rcases List.mem_append.mp he with he | he
    · rcases walk_parent q anc e he with rfl | ⟨p, ancp, hp, h1, h2⟩
      · exact Or.inl ⟨q, List.mem_cons_self, rfl⟩
      · exact Or.inr ⟨p, ancp, by unfold walkL; exact List.mem_append_left _ hp, h1, h2⟩
    · rcases walkL_parent t anc e he with ⟨c, hc, rfl⟩ | ⟨p, ancp, hp, h1, h2⟩
      · exact Or.inl ⟨c, List.mem_cons_of_mem _ hc, rfl⟩
      · exact Or.inr ⟨p, ancp, by unfold walkL; exact List.mem_append_right _ hp, h1, h2⟩
end

theorem ownG_le_sum : ∀ (qs : List QC) (c : QC) (t : String), c ∈ qs → ownG c t ≤ sumGuaranteed qs t
  | [], _, _, h => by cases h
  | q :: tl, c, t, h => by
    rw [sumGuaranteed_cons]
    cases h with
    | head => have := sumGuaranteed_nonneg tl t; omega
    | tail _ h => have := ownG_le_sum tl c t h; have := (ownG_nonneg q t).1; omega

/-- Q2 towards the ancestors: the guaranteed quantity of a queue is within the maximum of every ancestor -/
theorem guaranteed_within_ancestors (root : QC) (hres : ∀ e ∈ walk [] root, ResOK e) :
    ∀ e ∈ walk [] root, ∀ a ∈ e.1, ∀ t x v, qty e.2.d.g t = some x → qty a.m t = some v → x ≤ v := by
  intro e he a ha t x v hx hv
  rcases walk_parent root [] e he with rfl | ⟨p, ancp, hp, h1, h2⟩
  · cases ha
  · have h4 := (hres (ancp, p) hp).q4 a (by rw [h2] at ha; exact ha) t v hv
    have hle := ownG_le_sum p.qs e.2 t h1
    have hown : ownG e.2 t = x := by simp [ownG, hx]
    have := (qty_nonneg hx).2
    simp only at h4
    omega

/-! ### from propositions to the executable clauses -/

theorem leDef_of {a b : Option Int} (h : ∀ x v, a = some x → b = some v → x ≤ v) : leDef a b = true := by
  cases a with
  | none => rfl
  | some x =>
    cases b with
    | none => rfl
    | some v => simpa [leDef] using h x v rfl rfl

theorem okMax_of (e : Entry) (h : ResOK e) : okMaxWithinAncestors e = true := by
  unfold okMaxWithinAncestors
  simp only [List.all_eq_true]
  intro a ha t _
  exact leDef_of (fun x v hx hv => h.q1 a ha t x v hx hv)

theorem okGuaranteed_of (e : Entry) (h : ResOK e)
    (hanc : ∀ a ∈ e.1, ∀ t x v, qty e.2.d.g t = some x → qty a.m t = some v → x ≤ v) : okGuaranteedWithinMax e = true := by
  unfold okGuaranteedWithinMax
  simp only [List.all_eq_true]
  intro a ha t _
  cases ha with
  | head => exact leDef_of (fun x v hx hv => h.q2 t x v hx hv)
  | tail _ ha => exact leDef_of (fun x v hx hv => hanc a ha t x v hx hv)

theorem okSumG_of (e : Entry) (h : ResOK e) : okChildrenSumG true e = true := by
  unfold okChildrenSumG
  simp only [List.all_eq_true, if_true]
  intro t _
  exact leDef_of (fun x v hx hv => by injection hx with hx; subst hx; exact h.q3 t v hv)

theorem okSumMax_of (e : Entry) (h : ResOK e) : okChildrenSumMax true e = true := by
  unfold okChildrenSumMax
  simp only [List.all_eq_true, if_true]
  intro a ha t _
  exact leDef_of (fun x v hx hv => by injection hx with hx; subst hx; exact h.q4 a ha t v hv)

theorem okMaxApps_of (e : Entry) (h : AppsOK e) : okMaxApps e = true := by
  unfold okMaxApps
  simp only [List.all_eq_true, Bool.or_eq_true, beq_iff_eq, Bool.and_eq_true, bne_iff_ne, ne_eq, decide_eq_true_eq]
  intro a ha
  by_cases h0 : a.maxApps = 0
  · exact Or.inl h0
  · exact Or.inr (h a ha h0)

theorem okLimitQueueMax_of (e : Entry) (h : LimOK e.2.d) : okLimitWithinQueueMaxV e = true := by
  unfold okLimitWithinQueueMaxV
  simp only [Bool.or_eq_true, beq_iff_eq, List.all_eq_true]
  by_cases hn : e.2.d.name = "root"
  · exact Or.inl hn
  · refine Or.inr ?_
    intro l hl t _
    exact leDef_of (fun x v hx hv => (h l hl).2.1 hn t x v hx hv)

theorem okLimitApps_of (e : Entry) (h : LimOK e.2.d) (ha : AppsOK e) : okLimitApps e = true := by
  unfold okLimitApps
  simp only [List.all_eq_true, Bool.or_eq_true, beq_iff_eq, decide_eq_true_eq]
  intro l hl a hmem
  by_cases h0 : a.maxApps = 0
  · exact Or.inl h0
  · refine Or.inr ?_
    cases hmem with
    | head => exact (h l hl).1 h0
    | tail _ hmem =>
      obtain ⟨h1, h2⟩ := ha a hmem h0
      have := (h l hl).1 h1
      omega

/-! ### the theorem: every clause holds for every queue of every accepted partition -/

theorem accepted_root {p p' : Part} {root : QC} (h : Accepted p p' root) : rootOf p' = some root := by
  rw [h.out]; rfl

theorem accepted_entries {p p' : Part} {root : QC} (h : Accepted p p' root) :
    ∀ e ∈ walk [] root, ∀ c ∈ clauseList true, c.2 e = true := by
  obtain ⟨g, hg⟩ := h.res
  have hres := (cqr_spec root none g [] hg rfl (by intro a ha; cases ha)).1
  have hq2 := guaranteed_within_ancestors root hres
  have happs := cqma_spec root [] h.apps (by intro a ha; cases ha)
  have hloc := cq_spec root [] h.queues
  have hlr := checkLim_spec resDom resOK root [] [] [] h.limRes (inv_nil _ _ _) (inv_nil _ _ _) hloc
  have hla := checkLim_spec appsDom appsOK root [] [] [] h.limApps (inv_nil _ _ _) (inv_nil _ _ _) hloc
  intro e he c hc
  simp only [clauseList, List.mem_cons, List.not_mem_nil, or_false] at hc
  rcases hc with rfl | rfl | rfl | rfl | rfl | rfl | rfl | rfl | rfl | rfl | rfl | rfl
  · exact (hloc e he).names
  · exact okMax_of e (hres e he)
  · exact okGuaranteed_of e (hres e he) (hq2 e he)
  · exact okSumG_of e (hres e he)
  · exact okSumMax_of e (hres e he)
  · exact okMaxApps_of e (happs e he)
  · exact okLimitQueueMax_of e (hloc e he).lim
  · exact okLimitApps_of e (hloc e he).lim (happs e he)
  · exact okLimitAncestors_res false e (hlr e he).1
  · exact okLimitAncestors_res true e (hlr e he).2
  · exact okLimitAncestors_apps false e (hla e he).1
  · exact okLimitAncestors_apps true e (hla e he).2

/-- the propositional facts about every queue of an accepted partition -/
structure EntryFacts (e : Entry) : Prop where
  res : ResOK e
  gAnc : ∀ a ∈ e.1, ∀ t x v, qty e.2.d.g t = some x → qty a.m t = some v → x ≤ v
  apps : AppsOK e
  loc : LocalOK e
  limRes : LimAncOK resDom resOK false e ∧ LimAncOK resDom resOK true e
  limApps : LimAncOK appsDom appsOK false e ∧ LimAncOK appsDom appsOK true e

theorem accepted_facts {p p' : Part} {root : QC} (h : Accepted p p' root) : ∀ e ∈ walk [] root, EntryFacts e := by
  obtain ⟨g, hg⟩ := h.res
  have hres := (cqr_spec root none g [] hg rfl (by intro a ha; cases ha)).1
  have hq2 := guaranteed_within_ancestors root hres
  have happs := cqma_spec root [] h.apps (by intro a ha; cases ha)
  have hloc := cq_spec root [] h.queues
  have hlr := checkLim_spec resDom resOK root [] [] [] h.limRes (inv_nil _ _ _) (inv_nil _ _ _) hloc
  have hla := checkLim_spec appsDom appsOK root [] [] [] h.limApps (inv_nil _ _ _) (inv_nil _ _ _) hloc
  intro e he
  exact ⟨hres e he, hq2 e he, happs e he, hloc e he, hlr e he, hla e he⟩

/-- the queues of a validated partition, each with its ancestors (nearest first) -/
def queuesOf (p : Part) : List Entry := match rootOf p with | some r => walk [] r | none => []

theorem queuesOf_accepted {p p' : Part} {root : QC} (h : Accepted p p' root) : queuesOf p' = walk [] root := by
  simp [queuesOf, accepted_root h]

/-! ### loading what was accepted -/

/-- what a queue needs in order to be loaded (applyConf) -/
structure QLoadOK (q : QC) : Prop where
  acl : aclLoads q.d.submitACL = true ∧ aclLoads q.d.adminACL = true
  tmpl : isLeafLoaded q = true ∨ tmplEmpty q.d.tmpl = true ∨
    ((∃ r, parseConf q.d.tmpl.m = .ok r) ∧ ∃ r, parseConf q.d.tmpl.g = .ok r)
  parses : ∃ g m, parseConf q.d.g = .ok g ∧ parseConf q.d.m = .ok m

theorem parses2_ok {a b : Option SMap} {e : LErr} {ra rb : Res} (ha : parseConf a = .ok ra) (hb : parseConf b = .ok rb) :
    parses2 a b e = .ok () := by
  unfold parses2; rw [ha, hb]

theorem loadQueueD_ok {d : QD} {qs : List QC} (isRoot : Bool) (h : QLoadOK (.mk d qs)) :
    loadQueueD d (!qs.isEmpty) isRoot = .ok () := by
  obtain ⟨⟨a1, a2⟩, ht, ⟨g, m, hg, hm⟩⟩ := h
  simp only [QC.d] at a1 a2 ht hg hm
  have h1 : loadAcl d = .ok () := by simp [loadAcl, a1, a2]
  have h2 : loadTmpl d (!d.parent && !(!qs.isEmpty)) = .ok () := by
    unfold loadTmpl
    rcases ht with h1 | h1 | ⟨⟨r1, h1⟩, ⟨r2, h2⟩⟩
    · simp only [isLeafLoaded, QC.d, QC.qs] at h1; simp [h1]
    · simp [h1]
    · rw [parses2_ok h1 h2]; split <;> rfl
  have h3 : loadRes d isRoot = .ok () := by
    unfold loadRes; rw [parses2_ok hm hg]; split <;> rfl
  unfold loadQueueD
  simp only [bind, Except.bind, h1, h2, h3]

mutual
theorem loadQueue_ok : ∀ (q : QC) (isRoot : Bool) (anc : List QD), (∀ e ∈ walk anc q, QLoadOK e.2) → loadQueue q isRoot = .ok ()
  | .mk d qs, isRoot, anc, h => by
    unfold loadQueue
    have h0 := loadQueueD_ok isRoot (h (anc, .mk d qs) (by unfold walk; exact List.mem_cons_self))
    simp only [bind, Except.bind, h0]
    exact loadQueueL_ok qs (d :: anc) (fun e he => h e (by unfold walk; exact List.mem_cons_of_mem _ he))
theorem loadQueueL_ok : ∀ (qs : List QC) (anc : List QD), (∀ e ∈ walkL anc qs, QLoadOK e.2) → loadQueueL qs = .ok ()
  | [], _, _ => rfl
  | q :: t, anc, h => by
    unfold loadQueueL
    have h0 := loadQueue_ok q false anc (fun e he => h e (by unfold walkL; exact List.mem_append_left _ he))
    simp only [bind, Except.bind, h0]
    exact loadQueueL_ok t anc (fun e he => h e (by unfold walkL; exact List.mem_append_right _ he))
end

mutual
theorem loadLimits_ok : ∀ (q : QC) (anc : List QD), (∀ e ∈ walk anc q, LimOK e.2.d) → loadLimits q = .ok ()
  | .mk d qs, anc, h => by
    unfold loadLimits
    have h0 := h (anc, .mk d qs) (by unfold walk; exact List.mem_cons_self)
    have : d.limits.all limitParses = true := by
      rw [List.all_eq_true]
      intro l hl
      obtain ⟨lr, hlr⟩ := (h0 l hl).2.2
      simp [limitParses, hlr]
    simp only [this, Bool.not_true, Bool.false_eq_true, if_false]
    exact loadLimitsL_ok qs (d :: anc) (fun e he => h e (by unfold walk; exact List.mem_cons_of_mem _ he))
theorem loadLimitsL_ok : ∀ (qs : List QC) (anc : List QD), (∀ e ∈ walkL anc qs, LimOK e.2.d) → loadLimitsL qs = .ok ()
  | [], _, _ => rfl
  | q :: t, anc, h => by
    unfold loadLimitsL
    have h0 := loadLimits_ok q anc (fun e he => h e (by unfold walkL; exact List.mem_append_left _ he))
    simp only [bind, Except.bind, h0]
    exact loadLimitsL_ok t anc (fun e he => h e (by unfold walkL; exact List.mem_append_right _ he))
end

/-- the hypotheses under which an accepted partition loads: each one excludes a class of documents that validation lets
    through (see the refutations in YkProps/C15.lean) -/
structure LoadHyp (root : QC) : Prop where
  rootName : root.d.name = "root"
  acl : ∀ e ∈ walk [] root, aclLoads e.2.d.submitACL = true ∧ aclLoads e.2.d.adminACL = true
  tmpl : ∀ e ∈ walk [] root, isLeafLoaded e.2 = true ∨ tmplEmpty e.2.d.tmpl = true ∨
    ((∃ r, parseConf e.2.d.tmpl.m = .ok r) ∧ ∃ r, parseConf e.2.d.tmpl.g = .ok r)

theorem accepted_loads {p p' : Part} {root : QC} (h : Accepted p p' root) (hl : LoadHyp root) :
    loadNew p' = .ok () ∧ (loadRules p'.rules = .ok () → loadRunning p' = .ok ()) := by
  obtain ⟨g, hg⟩ := h.res
  have hres := (cqr_spec root none g [] hg rfl (by intro a ha; cases ha)).1
  have hloc := cq_spec root [] h.queues
  have hq : loadQueue root true = .ok () :=
    loadQueue_ok root true [] (fun e he => ⟨hl.acl e he, hl.tmpl e he, (hres e he).parses⟩)
  have hlim : loadLimits root = .ok () := loadLimits_ok root [] (fun e he => (hloc e he).lim)
  have hqs : loadQueues p' = .ok () := by
    rw [h.out]; simp only [loadQueues]
    rw [if_neg (by simp [hl.rootName])]; exact hq
  refine ⟨?_, ?_⟩
  · unfold loadNew
    simp only [bind, Except.bind, hqs]
    rw [h.out]; exact hlim
  · intro hr
    unfold loadRunning
    simp only [bind, Except.bind, hqs, hr]
    rw [h.out]; exact hlim

/-- a load result that is fine or fails for one of the two queue-level reasons validation does not cover -/
def Benign (r : Except LErr Unit) : Prop := r = .ok () ∨ r = .error .acl ∨ r = .error .tmplParse

theorem loadQueueD_benign {d : QD} (hc isRoot : Bool) (hp : ∃ g m, parseConf d.g = .ok g ∧ parseConf d.m = .ok m) :
    Benign (loadQueueD d hc isRoot) := by
  obtain ⟨g, m, hg, hm⟩ := hp
  have h3 : loadRes d isRoot = .ok () := by
    unfold loadRes; rw [parses2_ok hm hg]; split <;> rfl
  have h1 : loadAcl d = .ok () ∨ loadAcl d = .error .acl := by
    unfold loadAcl; split
    · exact Or.inr rfl
    · split
      · exact Or.inr rfl
      · exact Or.inl rfl
  have h2 : loadTmpl d (!d.parent && !hc) = .ok () ∨ loadTmpl d (!d.parent && !hc) = .error .tmplParse := by
    unfold loadTmpl; split
    · unfold parses2; split
      · exact Or.inr rfl
      · split
        · exact Or.inr rfl
        · exact Or.inl rfl
    · exact Or.inl rfl
  unfold loadQueueD Benign
  rcases h1 with h1 | h1 <;> rcases h2 with h2 | h2 <;> simp [bind, Except.bind, h1, h2, h3]

mutual
theorem loadQueue_benign : ∀ (q : QC) (isRoot : Bool) (anc : List QD),
    (∀ e ∈ walk anc q, ∃ g m, parseConf e.2.d.g = .ok g ∧ parseConf e.2.d.m = .ok m) → Benign (loadQueue q isRoot)
  | .mk d qs, isRoot, anc, h => by
    unfold loadQueue
    have h0 := loadQueueD_benign (d := d) (!qs.isEmpty) isRoot (h (anc, .mk d qs) (by unfold walk; exact List.mem_cons_self))
    have ht := loadQueueL_benign qs (d :: anc) (fun e he => h e (by unfold walk; exact List.mem_cons_of_mem _ he))
    rcases h0 with h0 | h0 | h0
    · simp only [bind, Except.bind, h0]; exact ht
    · simp only [bind, Except.bind, h0]; exact Or.inr (Or.inl rfl)
    · simp only [bind, Except.bind, h0]; exact Or.inr (Or.inr rfl)
theorem loadQueueL_benign : ∀ (qs : List QC) (anc : List QD),
    (∀ e ∈ walkL anc qs, ∃ g m, parseConf e.2.d.g = .ok g ∧ parseConf e.2.d.m = .ok m) → Benign (loadQueueL qs)
  | [], _, _ => Or.inl rfl
  | q :: t, anc, h => by
    unfold loadQueueL
    have h0 := loadQueue_benign q false anc (fun e he => h e (by unfold walkL; exact List.mem_append_left _ he))
    have ht := loadQueueL_benign t anc (fun e he => h e (by unfold walkL; exact List.mem_append_right _ he))
    rcases h0 with h0 | h0 | h0
    · simp only [bind, Except.bind, h0]; exact ht
    · simp only [bind, Except.bind, h0]; exact Or.inr (Or.inl rfl)
    · simp only [bind, Except.bind, h0]; exact Or.inr (Or.inr rfl)
end

/-- what validation does guarantee about loading: the resources it parsed parse again (queues: "this should not
    happen"; limits: ugm), so a load can only fail for the root name, an ACL, a child template — or, into a running
    context, a placement rule -/
theorem accepted_load_failures {p p' : Part} {root : QC} (h : Accepted p p' root) :
    (loadNew p' = .ok () ∨ loadNew p' = .error .rootName ∨ loadNew p' = .error .acl ∨ loadNew p' = .error .tmplParse) ∧
    (loadRunning p' = .ok () ∨ loadRunning p' = .error .rootName ∨ loadRunning p' = .error .acl ∨
      loadRunning p' = .error .tmplParse ∨ ∃ e, loadRules p'.rules = .error e ∧ loadRunning p' = .error e) := by
  obtain ⟨g, hg⟩ := h.res
  have hres := (cqr_spec root none g [] hg rfl (by intro a ha; cases ha)).1
  have hloc := cq_spec root [] h.queues
  have hlim : loadLimits root = .ok () := loadLimits_ok root [] (fun e he => (hloc e he).lim)
  have hb := loadQueue_benign root true [] (fun e he => (hres e he).parses)
  have hqs : loadQueues p' = .error .rootName ∨ Benign (loadQueues p') := by
    rw [h.out]; simp only [loadQueues]
    split
    · exact Or.inl rfl
    · exact Or.inr hb
  have hr : p'.rules = p.rules := by rw [h.out]
  refine ⟨?_, ?_⟩
  · unfold loadNew
    rcases hqs with hq | hq | hq | hq
    · simp [bind, Except.bind, hq]
    · simp only [bind, Except.bind, hq]; rw [h.out]; exact Or.inl hlim
    · simp [bind, Except.bind, hq]
    · simp [bind, Except.bind, hq]
  · unfold loadRunning
    rcases hqs with hq | hq | hq | hq
    · simp [bind, Except.bind, hq]
    · cases hrl : loadRules p'.rules with
      | ok u =>
        simp only [bind, Except.bind, hq, hrl]; rw [h.out]; exact Or.inl hlim
      | error e =>
        simp [bind, Except.bind, hq, hrl]
    · simp [bind, Except.bind, hq]
    · simp [bind, Except.bind, hq]

end Yk.Conf
