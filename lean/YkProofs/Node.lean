/-
  Proofs for YkProps/C01: the node ledger (allocated = Σ non-foreign allocations, available = total −
  allocated − occupied, pointwise on sparse vectors) is preserved by every node operation.
-/
import YkModel.Node
import YkProofs.Res
namespace Yk
open Res

/-! ### the pointwise sum over the non-foreign allocations -/

/-- what an allocation contributes to `allocated` for type `k` -/
def NAlloc.val (a : NAlloc) (k : String) : Int := if a.foreign then 0 else a.res.getD k

/-- Σ over the non-foreign allocations `a` of `a.res.getD k` -/
def nfSum (l : List NAlloc) (k : String) : Int :=
  ((l.filter (fun a => !a.foreign)).map (fun a => a.res.getD k)).sum

@[simp] theorem nfSum_nil (k : String) : nfSum [] k = 0 := rfl

theorem nfSum_cons (a : NAlloc) (l : List NAlloc) (k : String) : nfSum (a :: l) k = a.val k + nfSum l k := by
  unfold nfSum NAlloc.val
  rw [List.filter_cons]
  cases h : a.foreign <;> simp

theorem nfSum_append (l1 l2 : List NAlloc) (k : String) : nfSum (l1 ++ l2) k = nfSum l1 k + nfSum l2 k := by
  induction l1 with
  | nil => simp
  | cons a t ih => rw [List.cons_append, nfSum_cons, nfSum_cons, ih]; omega

theorem nfSum_single (a : NAlloc) (k : String) : nfSum [a] k = a.val k := by
  rw [nfSum_cons, nfSum_nil]; omega

/-- allocation keys pairwise distinct -/
abbrev KeysDistinct (l : List NAlloc) : Prop := l.Pairwise (fun a b => a.key ≠ b.key)

theorem filter_key_ne_self (l : List NAlloc) (k : String) (h : ∀ x ∈ l, x.key ≠ k) :
    l.filter (fun a => a.key != k) = l := by
  rw [List.filter_eq_self]
  intro x hx; simpa using h x hx

theorem find_none_forall {l : List NAlloc} {k : String} (h : l.find? (fun a => a.key == k) = none) :
    ∀ x ∈ l, x.key ≠ k := by
  intro x hx
  have := List.find?_eq_none.mp h x hx
  simpa using this

theorem find_some_mem {l : List NAlloc} {k : String} {a : NAlloc} (h : l.find? (fun a => a.key == k) = some a) :
    a ∈ l ∧ a.key = k := by
  refine ⟨List.mem_of_find?_eq_some h, ?_⟩
  have := List.find?_some h
  simpa using this

/-- removing the (unique) allocation with key `k` removes its contribution -/
theorem nfSum_erase (l : List NAlloc) (hk : KeysDistinct l) (k : String) (a : NAlloc)
    (h : l.find? (fun a => a.key == k) = some a) (kk : String) :
    nfSum (l.filter (fun a => a.key != k)) kk = nfSum l kk - a.val kk := by
  induction l with
  | nil => cases h
  | cons b t ih =>
    have hk := List.pairwise_cons.mp hk
    rw [List.find?_cons] at h
    rw [List.filter_cons]
    by_cases hb : b.key = k
    · have hb' : (b.key == k) = true := by simp [hb]
      rw [hb'] at h
      simp only [Option.some.injEq] at h
      subst h
      have : (b.key != k) = false := by simp [hb]
      rw [this]
      simp only [Bool.false_eq_true, if_false]
      rw [filter_key_ne_self t k (fun x hx => by rw [← hb]; exact fun e => hk.1 x hx e.symm), nfSum_cons]
      omega
    · have hb' : (b.key == k) = false := by simp [hb]
      rw [hb'] at h
      have : (b.key != k) = true := by simp [hb]
      rw [this]
      simp only [if_true]
      rw [nfSum_cons, nfSum_cons, ih hk.2 h]
      omega

theorem map_update_self (t : List NAlloc) (k : String) (r : Res) (h : ∀ x ∈ t, x.key ≠ k) :
    t.map (fun x => if x.key == k then { x with res := r } else x) = t := by
  induction t with
  | nil => rfl
  | cons x t ih =>
    have hx : (x.key == k) = false := by simpa using h x List.mem_cons_self
    rw [List.map_cons, hx, ih (fun y hy => h y (List.mem_cons_of_mem _ hy))]
    simp

/-- the in-place update of the (unique) allocation with key `k` -/
theorem nfSum_update (l : List NAlloc) (hk : KeysDistinct l) (k : String) (a : NAlloc) (r : Res)
    (h : l.find? (fun a => a.key == k) = some a) (kk : String) :
    nfSum (l.map (fun b => if b.key == k then { b with res := r } else b)) kk =
      nfSum l kk - a.val kk + (if a.foreign then 0 else r.getD kk) := by
  induction l with
  | nil => cases h
  | cons b t ih =>
    have hk := List.pairwise_cons.mp hk
    rw [List.find?_cons] at h
    rw [List.map_cons]
    by_cases hb : b.key = k
    · have hb' : (b.key == k) = true := by simp [hb]
      rw [hb'] at h
      simp only [Option.some.injEq] at h
      subst h
      rw [hb']
      simp only [if_true]
      have hmap : t.map (fun x => if x.key == k then { x with res := r } else x) = t := by
        apply map_update_self
        intro x hx
        rw [← hb]; exact fun e => hk.1 x hx e.symm
      rw [hmap, nfSum_cons, nfSum_cons]
      simp only [NAlloc.val]
      omega
    · have hb' : (b.key == k) = false := by simp [hb]
      rw [hb'] at h
      rw [hb']
      simp only [Bool.false_eq_true, if_false]
      rw [nfSum_cons, nfSum_cons, ih hk.2 h]
      omega

theorem keysDistinct_filter (l : List NAlloc) (hk : KeysDistinct l) (p : NAlloc → Bool) : KeysDistinct (l.filter p) :=
  List.Pairwise.filter p hk

theorem keysDistinct_put (l : List NAlloc) (hk : KeysDistinct l) (a : NAlloc) :
    KeysDistinct (l.filter (fun b => b.key != a.key) ++ [a]) := by
  unfold KeysDistinct
  rw [List.pairwise_append]
  refine ⟨List.Pairwise.filter _ hk, List.pairwise_singleton _ _, ?_⟩
  intro x hx y hy
  rw [List.mem_singleton] at hy; subst hy
  have := (List.mem_filter.mp hx).2
  simpa using this

/-! ### well-formedness and the ledger -/

/-- every vector of the node is a map (unique keys) and the allocation keys are pairwise distinct -/
structure NodeWF (n : Node) : Prop where
  total : wf n.total = true
  occupied : wf n.occupied = true
  allocated : wf n.allocated = true
  available : wf n.available = true
  allocRes : ∀ a ∈ n.allocs, wf a.res = true
  keys : KeysDistinct n.allocs

/-- allocated = Σ non-foreign allocations and available = total − allocated − occupied, for every type -/
def Ledger (n : Node) : Prop :=
  ∀ k : String, n.allocated.getD k = nfSum n.allocs k ∧
    n.available.getD k = n.total.getD k - n.allocated.getD k - n.occupied.getD k

theorem addX_wf (l r : Res) (h : wf l = true) : wf (addX l r) = true := zipFold_wf _ _ _ h
theorem subX_wf (l r : Res) (h : wf l = true) : wf (subX l r) = true := zipFold_wf _ _ _ h

/-- getD of `prune (subX a b)` -/
theorem prune_subX_getD (a b : Res) (ha : wf a = true) (hb : wf b = true) (k : String) :
    (prune (subX a b)).getD k = a.getD k - b.getD k := by
  rw [prune_getD _ (subX_wf _ _ ha), subX_getD _ _ hb]

theorem prune_addX_getD (a b : Res) (ha : wf a = true) (hb : wf b = true) (k : String) :
    (prune (addX a b)).getD k = a.getD k + b.getD k := by
  rw [prune_getD _ (addX_wf _ _ ha), addX_getD _ _ hb]

theorem refresh_ok (n : Node) (ht : wf n.total = true) (ho : wf n.occupied = true) (ha : wf n.allocated = true)
    (hr : ∀ a ∈ n.allocs, wf a.res = true) (hk : KeysDistinct n.allocs)
    (hs : ∀ k, n.allocated.getD k = nfSum n.allocs k) : NodeWF n.refresh ∧ Ledger n.refresh := by
  have hw : wf (subX (subX n.total n.allocated) n.occupied) = true := subX_wf _ _ (subX_wf _ _ ht)
  refine ⟨⟨ht, ho, ha, prune_wf _ hw, hr, hk⟩, fun k => ⟨hs k, ?_⟩⟩
  show (prune (subX (subX n.total n.allocated) n.occupied)).getD k = _
  rw [prune_getD _ hw, subX_getD _ _ ho, subX_getD _ _ ha]
  rfl

theorem putAlloc_fresh (n : Node) (a : NAlloc) (hf : n.findAlloc a.key = none) : n.putAlloc a = n.allocs ++ [a] := by
  unfold Node.putAlloc Node.eraseAlloc
  rw [filter_key_ne_self _ _ (find_none_forall hf)]

theorem putAlloc_allocRes (n : Node) (a : NAlloc) (hr : ∀ b ∈ n.allocs, wf b.res = true) (ha : wf a.res = true) :
    ∀ b ∈ n.putAlloc a, wf b.res = true := by
  intro b hb
  unfold Node.putAlloc Node.eraseAlloc at hb
  rcases List.mem_append.mp hb with h | h
  · exact hr b (List.mem_filter.mp h).1
  · rw [List.mem_singleton] at h; subst h; exact ha

theorem putAlloc_keys (n : Node) (a : NAlloc) (hk : KeysDistinct n.allocs) : KeysDistinct (n.putAlloc a) :=
  keysDistinct_put _ hk a

/-- overwriting / inserting: the sum loses the old entry with that key (if any) and gains the new one -/
theorem nfSum_putAlloc_some (n : Node) (a e : NAlloc) (hk : KeysDistinct n.allocs)
    (hf : n.findAlloc a.key = some e) (k : String) :
    nfSum (n.putAlloc a) k = nfSum n.allocs k - e.val k + a.val k := by
  unfold Node.putAlloc Node.eraseAlloc
  rw [nfSum_append, nfSum_single, nfSum_erase _ hk _ _ hf]

theorem nfSum_putAlloc_none (n : Node) (a : NAlloc) (hf : n.findAlloc a.key = none) (k : String) :
    nfSum (n.putAlloc a) k = nfSum n.allocs k + a.val k := by
  rw [putAlloc_fresh n a hf, nfSum_append, nfSum_single]

/-! ### one lemma per operation -/

theorem step_setCapacity (n : Node) (c : Res) (hw : NodeWF n) (hl : Ledger n) (hc : wf c = true) :
    NodeWF (n.step (.setCapacity c)).1 ∧ Ledger (n.step (.setCapacity c)).1 := by
  simp only [Node.step]
  split
  · exact ⟨hw, hl⟩
  · exact refresh_ok _ (prune_wf c hc) hw.occupied hw.allocated hw.allocRes hw.keys (fun k => (hl k).1)

theorem step_setOccupied (n : Node) (o : Res) (hw : NodeWF n) (hl : Ledger n) (ho : wf o = true) :
    NodeWF (n.step (.setOccupied o)).1 ∧ Ledger (n.step (.setOccupied o)).1 := by
  simp only [Node.step]
  split
  · exact ⟨hw, hl⟩
  · exact refresh_ok _ hw.total ho hw.allocated hw.allocRes hw.keys (fun k => (hl k).1)

theorem upd_key (b : NAlloc) (k : String) (r : Res) : (if b.key == k then { b with res := r } else b).key = b.key := by
  split <;> rfl

theorem step_updateAllocated (n : Node) (key : String) (r : Res) (hw : NodeWF n) (hl : Ledger n)
    (hr : wf r = true) (hnf : ∀ a, n.findAlloc key = some a → a.foreign = false) :
    NodeWF (n.step (.updateAllocated key r)).1 ∧ Ledger (n.step (.updateAllocated key r)).1 := by
  simp only [Node.step]
  split
  · exact ⟨hw, hl⟩
  · rename_i a hf
    have hfor := hnf a hf
    obtain ⟨ham, _⟩ := find_some_mem hf
    have har := hw.allocRes a ham
    have hd : wf (prune (subX r a.res)) = true := prune_wf _ (subX_wf _ _ hr)
    refine refresh_ok _ hw.total hw.occupied (prune_wf _ (addX_wf _ _ hw.allocated)) ?_ ?_ ?_
    · intro b hb
      obtain ⟨x, hx, rfl⟩ := List.mem_map.mp hb
      split
      · exact hr
      · exact hw.allocRes x hx
    · show KeysDistinct (List.map _ _)
      unfold KeysDistinct
      rw [List.pairwise_map]
      refine List.Pairwise.imp ?_ hw.keys
      intro x y hxy
      rw [upd_key, upd_key]; exact hxy
    · intro k
      show (prune (addX n.allocated (prune (subX r a.res)))).getD k = nfSum (List.map _ n.allocs) k
      rw [prune_addX_getD _ _ hw.allocated hd, prune_subX_getD _ _ hr har, nfSum_update _ hw.keys _ _ _ hf,
        (hl k).1]
      simp only [NAlloc.val, hfor, Bool.false_eq_true, if_false]
      omega

theorem addInternal_ok (n : Node) (a : NAlloc) (force : Bool) (hw : NodeWF n) (hl : Ledger n)
    (ha : wf a.res = true) (hf : n.findAlloc a.key = none) :
    NodeWF (n.addInternal a force).1 ∧ Ledger (n.addInternal a force).1 := by
  unfold Node.addInternal
  split
  · have hput := nfSum_putAlloc_none n a hf
    have hres := putAlloc_allocRes n a hw.allocRes ha
    have hkeys := putAlloc_keys n a hw.keys
    cases hfor : a.foreign
    · simp only [Bool.false_eq_true, if_false]
      refine ⟨⟨hw.total, hw.occupied, addX_wf _ _ hw.allocated, prune_wf _ (subX_wf _ _ hw.available), hres, hkeys⟩, ?_⟩
      intro k
      show (addX n.allocated a.res).getD k = nfSum (n.putAlloc a) k ∧
        (prune (subX n.available a.res)).getD k = n.total.getD k - (addX n.allocated a.res).getD k - n.occupied.getD k
      rw [hput, prune_subX_getD _ _ hw.available ha, addX_getD _ _ ha, (hl k).2, (hl k).1]
      simp only [NAlloc.val, hfor, Bool.false_eq_true, if_false]
      refine ⟨trivial, ?_⟩; omega
    · simp only [if_true]
      refine ⟨⟨hw.total, addX_wf _ _ hw.occupied, hw.allocated, prune_wf _ (subX_wf _ _ hw.available), hres, hkeys⟩, ?_⟩
      intro k
      show n.allocated.getD k = nfSum (n.putAlloc a) k ∧
        (prune (subX n.available a.res)).getD k = n.total.getD k - n.allocated.getD k - (addX n.occupied a.res).getD k
      rw [hput, prune_subX_getD _ _ hw.available ha, addX_getD _ _ ha, (hl k).2, (hl k).1]
      simp only [NAlloc.val, hfor, if_true]
      omega
  · exact ⟨hw, hl⟩

theorem step_remove (n : Node) (key : String) (hw : NodeWF n) (hl : Ledger n) :
    NodeWF (n.step (.remove key)).1 ∧ Ledger (n.step (.remove key)).1 := by
  simp only [Node.step]
  split
  · exact ⟨hw, hl⟩
  · rename_i a hf
    obtain ⟨ham, _⟩ := find_some_mem hf
    have ha := hw.allocRes a ham
    have hsum := nfSum_erase _ hw.keys _ _ hf
    have hres : ∀ b ∈ n.eraseAlloc key, wf b.res = true := fun b hb => hw.allocRes b (List.mem_filter.mp hb).1
    have hkeys : KeysDistinct (n.eraseAlloc key) := keysDistinct_filter _ hw.keys _
    cases hfor : a.foreign
    · simp only [Bool.false_eq_true, if_false]
      refine ⟨⟨hw.total, hw.occupied, prune_wf _ (subX_wf _ _ hw.allocated), addX_wf _ _ hw.available, hres, hkeys⟩, ?_⟩
      intro k
      show (prune (subX n.allocated a.res)).getD k = nfSum (n.eraseAlloc key) k ∧
        (addX n.available a.res).getD k = n.total.getD k - (prune (subX n.allocated a.res)).getD k - n.occupied.getD k
      unfold Node.eraseAlloc
      rw [hsum, prune_subX_getD _ _ hw.allocated ha, addX_getD _ _ ha, (hl k).2, (hl k).1]
      simp only [NAlloc.val, hfor, Bool.false_eq_true, if_false]
      refine ⟨trivial, ?_⟩; omega
    · simp only [if_true]
      refine ⟨⟨hw.total, subX_wf _ _ hw.occupied, hw.allocated, addX_wf _ _ hw.available, hres, hkeys⟩, ?_⟩
      intro k
      show n.allocated.getD k = nfSum (n.eraseAlloc key) k ∧
        (addX n.available a.res).getD k = n.total.getD k - n.allocated.getD k - (subX n.occupied a.res).getD k
      unfold Node.eraseAlloc
      rw [hsum, subX_getD _ _ ha, addX_getD _ _ ha, (hl k).2, (hl k).1]
      simp only [NAlloc.val, hfor, if_true]
      omega

theorem step_updateForeign (n : Node) (a : NAlloc) (hw : NodeWF n) (hl : Ledger n)
    (ha : wf a.res = true) (hfor : a.foreign = true) (hex : ∀ e, n.findAlloc a.key = some e → e.foreign = true) :
    NodeWF (n.step (.updateForeign a)).1 ∧ Ledger (n.step (.updateForeign a)).1 := by
  have hres := putAlloc_allocRes n a hw.allocRes ha
  have hkeys := putAlloc_keys n a hw.keys
  simp only [Node.step]
  split
  · rename_i hf
    refine ⟨⟨hw.total, hw.occupied, hw.allocated, hw.available, hres, hkeys⟩, ?_⟩
    intro k
    show n.allocated.getD k = nfSum (n.putAlloc a) k ∧ _
    refine ⟨?_, (hl k).2⟩
    rw [nfSum_putAlloc_none n a hf, (hl k).1]
    simp [NAlloc.val, hfor]
  · rename_i e hf
    have he := hex e hf
    refine refresh_ok _ hw.total (prune_wf _ (addX_wf _ _ hw.occupied)) hw.allocated hres hkeys ?_
    intro k
    show n.allocated.getD k = nfSum (n.putAlloc a) k
    rw [nfSum_putAlloc_some n a e hw.keys hf, (hl k).1]
    simp [NAlloc.val, hfor, he]

theorem step_replace (n : Node) (old : String) (a : NAlloc) (delta : Res) (hw : NodeWF n) (hl : Ledger n)
    (ha : wf a.res = true) (hd : wf delta = true) (hfor : a.foreign = false)
    (hex : ∃ e, n.findAlloc old = some e ∧ e.foreign = false ∧ ∀ k, delta.getD k = a.res.getD k - e.res.getD k)
    (hkey : a.key = old ∨ n.findAlloc a.key = none) :
    NodeWF (n.step (.replace old a delta)).1 ∧ Ledger (n.step (.replace old a delta)).1 := by
  obtain ⟨e, hf, hefor, hdelta⟩ := hex
  let n0 : Node := { n with allocs := n.eraseAlloc old }
  have hn0 : ∀ x ∈ n0.allocs, x.key ≠ a.key := by
    intro x hx
    have hx' := List.mem_filter.mp hx
    rcases hkey with h | h
    · rw [h]; simpa using hx'.2
    · exact find_none_forall h x hx'.1
  have hn0f : n0.findAlloc a.key = none := by
    unfold Node.findAlloc
    rw [List.find?_eq_none]
    intro x hx; simpa using hn0 x hx
  have hres0 : ∀ b ∈ n0.allocs, wf b.res = true := fun b hb => hw.allocRes b (List.mem_filter.mp hb).1
  have hkeys0 : KeysDistinct n0.allocs := keysDistinct_filter _ hw.keys _
  have hres := putAlloc_allocRes n0 a hres0 ha
  have hkeys := putAlloc_keys n0 a hkeys0
  have hsum : ∀ k, nfSum (n0.putAlloc a) k = nfSum n.allocs k - e.val k + a.val k := by
    intro k
    rw [nfSum_putAlloc_none n0 a hn0f]
    show nfSum (n.eraseAlloc old) k + a.val k = _
    unfold Node.eraseAlloc
    rw [nfSum_erase _ hw.keys _ _ hf]
  simp only [Node.step]
  refine ⟨⟨hw.total, hw.occupied, addX_wf _ _ hw.allocated, prune_wf _ (subX_wf _ _ hw.available), hres, hkeys⟩, ?_⟩
  intro k
  show (addX n.allocated delta).getD k = nfSum (n0.putAlloc a) k ∧
    (prune (subX n.available delta)).getD k = n.total.getD k - (addX n.allocated delta).getD k - n.occupied.getD k
  rw [hsum, prune_subX_getD _ _ hw.available hd, addX_getD _ _ hd, (hl k).2, (hl k).1, hdelta]
  simp only [NAlloc.val, hfor, hefor, Bool.false_eq_true, if_false]
  omega

/-! ### the caller contract (restated in YkProps/C01 as `Pre`/`PreAll`; definitionally the same) -/

def NodePre (n : Node) : NodeOp → Prop
  | .setCapacity c => wf c = true
  | .setOccupied o => wf o = true
  | .updateAllocated k r => wf r = true ∧ (∀ a, n.findAlloc k = some a → a.foreign = false)
  | .tryAdd a => wf a.res = true ∧ n.findAlloc a.key = none
  | .forceAdd a => wf a.res = true ∧ n.findAlloc a.key = none
  | .remove _ => True
  | .updateForeign a => wf a.res = true ∧ a.foreign = true ∧ (∀ e, n.findAlloc a.key = some e → e.foreign = true)
  | .replace old a delta =>
      wf a.res = true ∧ wf delta = true ∧ a.foreign = false ∧
      (∃ e, n.findAlloc old = some e ∧ e.foreign = false ∧ ∀ k, delta.getD k = a.res.getD k - e.res.getD k) ∧
      (a.key = old ∨ n.findAlloc a.key = none)
  | .setSchedulable _ => True

def NodePreAll : Node → List NodeOp → Prop
  | _, [] => True
  | n, op :: ops => NodePre n op ∧ NodePreAll (n.step op).1 ops

theorem node_ledger_step (n : Node) (op : NodeOp) (hw : NodeWF n) (hl : Ledger n) (hp : NodePre n op) :
    NodeWF (n.step op).1 ∧ Ledger (n.step op).1 := by
  cases op with
  | setCapacity c => exact step_setCapacity n c hw hl hp
  | setOccupied o => exact step_setOccupied n o hw hl hp
  | updateAllocated k r => exact step_updateAllocated n k r hw hl hp.1 hp.2
  | tryAdd a => exact addInternal_ok n a false hw hl hp.1 hp.2
  | forceAdd a => exact addInternal_ok n a true hw hl hp.1 hp.2
  | remove k => exact step_remove n k hw hl
  | updateForeign a => exact step_updateForeign n a hw hl hp.1 hp.2.1 hp.2.2
  | replace old a delta => exact step_replace n old a delta hw hl hp.1 hp.2.1 hp.2.2.1 hp.2.2.2.1 hp.2.2.2.2
  | setSchedulable b => exact ⟨⟨hw.total, hw.occupied, hw.allocated, hw.available, hw.allocRes, hw.keys⟩, hl⟩

theorem node_new_ok (total : Res) (ht : wf total = true) : NodeWF (Node.new total) ∧ Ledger (Node.new total) := by
  have hp := prune_wf total ht
  refine ⟨⟨hp, rfl, rfl, hp, (fun a ha => by cases ha), List.Pairwise.nil⟩, fun k => ⟨rfl, ?_⟩⟩
  show (prune total).getD k = (prune total).getD k - getD [] k - getD [] k
  simp

/-- histories: `PA` is any predicate on (state, remaining history) that unfolds like `PreAll`
    (`PA n (op :: ops)` gives the contract of `op` in `n` and `PA` for the rest in the next state). -/
theorem node_run_ok (PA : Node → List NodeOp → Prop)
    (hcons : ∀ n op ops, PA n (op :: ops) → NodePre n op ∧ PA (n.step op).1 ops)
    (n : Node) (ops : List NodeOp) (hw : NodeWF n) (hl : Ledger n) (hp : PA n ops) :
    NodeWF (ops.foldl (fun s op => (s.step op).1) n) ∧ Ledger (ops.foldl (fun s op => (s.step op).1) n) := by
  induction ops generalizing n with
  | nil => exact ⟨hw, hl⟩
  | cons op ops ih =>
    obtain ⟨h1, h2⟩ := hcons n op ops hp
    obtain ⟨hw', hl'⟩ := node_ledger_step n op hw hl h1
    exact ih _ hw' hl' h2

/-- `YkProps/C01` defines `PreAll` itself (after this file), by structural recursion, so it cannot be named
    here and is not unfolded by the unifier against `NodePreAll`; the theorem is therefore stated for any
    predicate `PA` with the unfolding property `hcons`, which for `PreAll` (and `NodePreAll`) holds by `id`
    (definitional unfolding of the `cons` equation) and is discharged at the use site. -/
theorem node_ledger_run (total : Res) (ht : wf total = true) (ops : List NodeOp)
    {PA : Node → List NodeOp → Prop} (hp : PA (Node.new total) ops)
    (hcons : ∀ n op ops, PA n (op :: ops) → NodePre n op ∧ PA (n.step op).1 ops := by exact fun _ _ _ h => h) :
    Ledger (ops.foldl (fun s op => (s.step op).1) (Node.new total)) :=
  (node_run_ok PA hcons _ ops (node_new_ok total ht).1 (node_new_ok total ht).2 hp).2

/-- the instance for the `PreAll` restated here -/
theorem node_ledger_run' (total : Res) (ht : wf total = true) (ops : List NodeOp) (hp : NodePreAll (Node.new total) ops) :
    Ledger (ops.foldl (fun s op => (s.step op).1) (Node.new total)) :=
  node_ledger_run total ht ops hp

/-! ### the scheduler path -/

theorem fitInStd_le (avail r : Res) (h : fitInStd (some avail) (some r) = true) :
    ∀ p ∈ r, p.2 ≤ max 0 (avail.getD p.1) := by
  intro p hp
  unfold fitInStd fitIn orZero at h
  simp only [Option.getD_some] at h
  have := List.all_eq_true.mp h p hp
  rw [getD_eq_get?]
  cases hg : get? avail p.1 with
  | none => rw [hg] at this; simpa using this
  | some lv => rw [hg] at this; simpa using this

theorem node_tryAdd_fits (n : Node) (a : NAlloc) (h : (n.step (.tryAdd a)).2 = true) :
    ∀ p ∈ a.res, p.2 ≤ max 0 (n.available.getD p.1) := by
  simp only [Node.step, Node.addInternal, Bool.false_or] at h
  split at h
  · rename_i hfit; exact fitInStd_le _ _ hfit
  · cases h

theorem node_tryAdd_refused (n : Node) (a : NAlloc) (h : (n.step (.tryAdd a)).2 = false) :
    (n.step (.tryAdd a)).1 = n := by
  simp only [Node.step, Node.addInternal, Bool.false_or] at h ⊢
  split at h
  · cases h
  · rename_i hfit; rw [if_neg hfit]

theorem addInternal_available (n : Node) (a : NAlloc) (force : Bool)
    (h : (force || fitInStd (some n.available) (some a.res)) = true) :
    (n.addInternal a force).1.available = prune (subX n.available a.res) := by
  unfold Node.addInternal
  rw [if_pos h]
  cases a.foreign <;> rfl

theorem node_sched_nonneg (n : Node) (hw : NodeWF n) (h0 : ∀ k, 0 ≤ n.available.getD k) :
    (∀ a, NodePre n (.tryAdd a) → ∀ k, 0 ≤ (n.step (.tryAdd a)).1.available.getD k) ∧
    (∀ key, (∀ a, n.findAlloc key = some a → ∀ k, 0 ≤ a.res.getD k) → ∀ k, 0 ≤ (n.step (.remove key)).1.available.getD k) ∧
    (∀ old a delta, NodePre n (.replace old a delta) → (∀ k, delta.getD k ≤ 0) →
        ∀ k, 0 ≤ (n.step (.replace old a delta)).1.available.getD k) := by
  refine ⟨?_, ?_, ?_⟩
  · intro a hp k
    have ha : wf a.res = true := hp.1
    show 0 ≤ (n.addInternal a false).1.available.getD k
    by_cases hfit : fitInStd (some n.available) (some a.res) = true
    · rw [addInternal_available n a false (by simp [hfit]), prune_subX_getD _ _ hw.available ha]
      have hk := h0 k
      cases hg : get? a.res k with
      | none => rw [getD_eq_get? a.res, hg]; simpa using hk
      | some v =>
        have := fitInStd_le _ _ hfit (k, v) (mem_of_get? hg)
        rw [getD_eq_get? a.res, hg]
        simp only [Option.getD_some] at this ⊢
        omega
    · have : (n.addInternal a false).1 = n := by
        unfold Node.addInternal
        rw [if_neg (by simpa using hfit)]
      rw [this]; exact h0 k
  · intro key hnn k
    simp only [Node.step]
    split
    · exact h0 k
    · rename_i a hf
      obtain ⟨ham, _⟩ := find_some_mem hf
      have ha := hw.allocRes a ham
      have h1 := hnn a hf k
      have h2 := h0 k
      have : ∀ (m : Node), m.available = n.available → 0 ≤ (addX m.available a.res).getD k := by
        intro m hm; rw [hm, addX_getD _ _ ha]; omega
      cases a.foreign
      · exact this _ rfl
      · exact this _ rfl
  · intro old a delta hp hd k
    have hdw : wf delta = true := hp.2.1
    show 0 ≤ (prune (subX n.available delta)).getD k
    rw [prune_subX_getD _ _ hw.available hdw]
    have := hd k; have := h0 k; omega

/-! ### the executable clauses are exactly `Ledger` -/

theorem foldl_addX_getD (l : List NAlloc) (hr : ∀ a ∈ l, wf a.res = true) (acc : Res) (k : String) :
    (l.foldl (fun acc a => addX acc a.res) acc).getD k = acc.getD k + (l.map (fun a => a.res.getD k)).sum := by
  induction l generalizing acc with
  | nil => simp
  | cons a t ih =>
    rw [List.foldl_cons, ih (fun x hx => hr x (List.mem_cons_of_mem _ hx)), addX_getD _ _ (hr a List.mem_cons_self),
      List.map_cons, List.sum_cons]
    omega

theorem sumAllocs_getD (n : Node) (hr : ∀ a ∈ n.allocs, wf a.res = true) (k : String) :
    (Node.sumAllocs n).getD k = nfSum n.allocs k := by
  unfold Node.sumAllocs nfSum
  rw [foldl_addX_getD _ (fun a ha => hr a (List.mem_filter.mp ha).1)]
  simp

theorem getD_of_not_mem_keys {r : Res} {k : String} (h : k ∉ keys r) : getD r k = 0 := by
  apply getD_of_not_has
  rw [Bool.eq_false_iff]
  intro hc; exact h ((has_iff_mem_keys r k).mp hc)

theorem nfSum_zero (l : List NAlloc) (k : String) (h : ∀ a ∈ l, a.res.getD k = 0) : nfSum l k = 0 := by
  induction l with
  | nil => rfl
  | cons a t ih =>
    rw [nfSum_cons, ih (fun x hx => h x (List.mem_cons_of_mem _ hx))]
    have := h a List.mem_cons_self
    unfold NAlloc.val
    split <;> omega

theorem node_ledger_exec_iff (n : Node) (hw : NodeWF n) :
    (n.ledgerAllocated = true ∧ n.ledgerAvailable = true) ↔ Ledger n := by
  constructor
  · intro ⟨h1, h2⟩ k
    by_cases hk : k ∈ Node.allKeys n
    · have e1 := List.all_eq_true.mp h1 k hk
      have e2 := List.all_eq_true.mp h2 k hk
      rw [sumAllocs_getD n hw.allocRes] at e1
      exact ⟨by simpa using e1, by simpa using e2⟩
    · unfold Node.allKeys at hk
      simp only [List.mem_append, not_or, List.mem_flatten, List.mem_map, not_exists, not_and] at hk
      obtain ⟨⟨⟨⟨ht, ho⟩, ha⟩, hv⟩, hr⟩ := hk
      rw [getD_of_not_mem_keys ht, getD_of_not_mem_keys ho, getD_of_not_mem_keys ha, getD_of_not_mem_keys hv]
      refine ⟨?_, by omega⟩
      rw [nfSum_zero]
      intro a ham
      exact getD_of_not_mem_keys (fun hc => hr _ ⟨a, ham, rfl⟩ hc)
  · intro hl
    constructor
    · unfold Node.ledgerAllocated
      rw [List.all_eq_true]
      intro k _
      rw [sumAllocs_getD n hw.allocRes, (hl k).1]
      simp
    · unfold Node.ledgerAvailable
      rw [List.all_eq_true]
      intro k _
      rw [(hl k).2]
      simp

end Yk
