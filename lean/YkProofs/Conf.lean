/-
  Lemmas for property C15: what `Yk.Conf.validate` accepts satisfies the clauses of YkModel/ConfSpec.lean.
  All proofs are structural inductions over the configuration tree (mutual: a queue / its list of children).
-/
import YkModel.ConfSpec
import YkProofs.Res
import YkProps.C18
namespace Yk.Conf
open Yk Yk.Res

/-! ### the Except monad of the validator -/

theorem bind_ok {ε α β : Type} {x : Except ε α} {f : α → Except ε β} {b : β} :
    (x >>= f) = .ok b ↔ ∃ a, x = .ok a ∧ f a = .ok b := by
  cases x <;> simp [bind, Except.bind]

theorem pure_ok {ε α : Type} {a b : α} : (pure a : Except ε α) = .ok b ↔ a = b := by
  simp [pure, Except.pure]

theorem throw_ok {ε α : Type} {e : ε} {b : α} : (throw e : Except ε α) = .ok b ↔ False := by
  simp [throw, throwThe, MonadExceptOf.throw]

@[simp] theorem throw_bind {ε α β : Type} (e : ε) (f : α → Except ε β) : ((throw e : Except ε α) >>= f) = .error e := rfl
@[simp] theorem throw_map {ε α β : Type} (e : ε) (f : α → β) : (f <$> (throw e : Except ε α)) = .error e := rfl
@[simp] theorem throw_eq {ε α : Type} (e : ε) : (throw e : Except ε α) = .error e := rfl

theorem ite_err_ok {ε α : Type} {c : Prop} [Decidable c] {e : ε} {x : Except ε α} {b : α} :
    (if c then Except.error e else x) = .ok b ↔ ¬ c ∧ x = .ok b := by
  by_cases h : c <;> simp [h]

theorem ite_not_err_ok {ε α : Type} {c : Bool} {e : ε} {x : Except ε α} {b : α} :
    (if (!c) = true then Except.error e else x) = .ok b ↔ c = true ∧ x = .ok b := by
  cases c <;> simp

/-! ### resources parsed from the configuration -/

theorem parseConfL_wf : ∀ (m : SMap) (acc r : Res), wf acc = true → parseConfL m acc = .ok r → wf r = true
  | [], acc, r, hw, h => by simp [parseConfL] at h; subst h; exact hw
  | (k, s) :: t, acc, r, hw, h => by
    unfold parseConfL at h
    split at h
    · exact parseConfL_wf t _ r (set_wf acc hw k _) h
    · cases h

theorem parseConf_wf {m : Option SMap} {r : Res} (h : parseConf m = .ok r) : wf r = true :=
  parseConfL_wf _ [] r rfl h

def NonNeg (r : Res) : Prop := ∀ k v, r.get? k = some v → 0 ≤ v ∧ v ≤ maxI

theorem nonNeg_set {r : Res} (hr : NonNeg r) (k : String) (v : Int) (hv : 0 ≤ v ∧ v ≤ maxI) : NonNeg (r.set k v) := by
  intro k' v' h
  rw [get?_set] at h
  split at h
  · injection h with h; subst h; exact hv
  · exact hr k' v' h

theorem parseConfL_nonNeg : ∀ (m : SMap) (acc r : Res), NonNeg acc → parseConfL m acc = .ok r → NonNeg r
  | [], acc, r, hn, h => by simp [parseConfL] at h; subst h; exact hn
  | (k, s) :: t, acc, r, hn, h => by
    unfold parseConfL at h
    split at h
    · rename_i v hv
      obtain ⟨_, _, _, _, _, _, h0, hr⟩ := Yk.C18.parse_exact s _ v hv
      exact parseConfL_nonNeg t _ r (nonNeg_set hn k v ⟨h0, hr.2⟩) h
    · cases h

theorem parseConf_nonNeg {m : Option SMap} {r : Res} (h : parseConf m = .ok r) : NonNeg r :=
  parseConfL_nonNeg _ [] r (by intro k v h; simp [get?] at h) h

theorem qty_of_parse {m : Option SMap} {r : Res} (h : parseConf m = .ok r) (t : String) : qty m t = r.get? t := by
  simp [qty, h]

theorem qty_nonneg {m : Option SMap} {t : String} {v : Int} (h : qty m t = some v) : 0 ≤ v ∧ v ≤ maxI := by
  unfold qty at h
  split at h
  · rename_i r hr; exact parseConf_nonNeg hr t v h
  · cases h

/-! ### FitInMaxUndef and ComponentWiseMin, pointwise -/

/-- the quantity an optional resource gives to a type -/
def oget (r : ORes) (t : String) : Option Int := (orZero r).get? t

theorem fit_spec {p : ORes} {c : Res} (h : fitInMaxUndef p (some c) = true) {t : String} {x pv : Int}
    (hx : c.get? t = some x) (hp : oget p t = some pv) : x ≤ max 0 pv := by
  unfold fitInMaxUndef fitIn at h
  simp only [List.all_eq_true] at h
  have := h (t, x) (mem_of_get? hx)
  unfold oget at hp
  simp only [hp] at this
  simpa using this

theorem fit_of {p : ORes} {c : Res}
    (h : ∀ t x, (t, x) ∈ c → ∀ pv, oget p t = some pv → x ≤ max 0 pv) : fitInMaxUndef p (some c) = true := by
  unfold fitInMaxUndef fitIn
  simp only [List.all_eq_true]
  intro ⟨t, x⟩ hm
  cases hp : (orZero p).get? t with
  | none => simp
  | some pv => simpa using h t x hm pv hp

theorem foldl_set_get? (g : String × Int → Int) (r : Res) (hw : wf r = true) (acc : Res) (k : String) :
    (r.foldl (fun (out : Res) p => out.set p.1 (g p)) acc).get? k =
      match r.get? k with
      | some b => some (g (k, b))
      | none => acc.get? k := by
  induction r generalizing acc with
  | nil => simp
  | cons p t ih =>
    obtain ⟨a, b⟩ := p
    rw [wf_cons] at hw
    simp only [Bool.and_eq_true, Bool.not_eq_true'] at hw
    rw [List.foldl_cons, ih hw.2, get?_cons]
    by_cases h : k = a
    · subst h
      have : get? t k = none := by
        have := hw.1; rw [has_eq_get?] at this
        cases hg : get? t k with
        | none => rfl
        | some _ => rw [hg] at this; cases this
      simp [this, get?_set]
    · simp only [h, if_false]
      cases get? t k with
      | none => simp [get?_set, h]
      | some _ => rfl

theorem foldl_set_get?' (f : Res → String × Int → Res) (g : String × Int → Int) (hf : ∀ out p, f out p = out.set p.1 (g p))
    (r : Res) (hw : wf r = true) (acc : Res) (k : String) :
    (r.foldl f acc).get? k =
      match r.get? k with
      | some b => some (g (k, b))
      | none => acc.get? k := by
  have : f = fun out p => out.set p.1 (g p) := by funext out p; exact hf out p
  subst this; exact foldl_set_get? g r hw acc k

/-- `a` is at least as tight as `b`: every type `b` defines is defined by `a` with a quantity that is not larger -/
def Tighter (a b : ORes) : Prop := ∀ t v, oget b t = some v → ∃ v', oget a t = some v' ∧ v' ≤ v

theorem Tighter.refl (a : ORes) : Tighter a a := fun _ v h => ⟨v, h, Int.le_refl _⟩

theorem Tighter.trans {a b c : ORes} (h1 : Tighter a b) (h2 : Tighter b c) : Tighter a c := by
  intro t v h
  obtain ⟨v', h', hle⟩ := h2 t v h
  obtain ⟨v'', h'', hle'⟩ := h1 t v' h'
  exact ⟨v'', h'', Int.le_trans hle' hle⟩

theorem tighter_none (a : ORes) : Tighter a none := by
  intro t v h; simp [oget, orZero] at h

theorem cwMin_get? (l r : Res) (hl : wf l = true) (hr : wf r = true) (k : String) :
    oget (componentWiseMin (some l) (some r)) k =
      match l.get? k, r.get? k with
      | some a, some b => some (min a b)
      | some a, none => some a
      | none, some b => some b
      | none, none => none := by
  unfold componentWiseMin oget orZero
  simp only [Option.getD_some]
  rw [foldl_set_get?' _ (fun q : String × Int => match l.get? q.1 with | some v => min q.2 v | none => q.2)
        (by intro out p; cases h : l.get? p.1 <;> simp only [h]) r hr,
      foldl_set_get?' _ (fun q : String × Int => match r.get? q.1 with | some v => min q.2 v | none => q.2)
        (by intro out p; cases h : r.get? p.1 <;> simp only [h]) l hl]
  cases hlk : l.get? k <;> cases hrk : r.get? k <;> simp [hlk, hrk, Int.min_comm]

theorem cwMin_tighter (l : Res) (r : ORes) (hl : wf l = true) (hr : wf (orZero r) = true) :
    Tighter (componentWiseMin (some l) r) (some l) ∧ Tighter (componentWiseMin (some l) r) r := by
  cases r with
  | none =>
    have : componentWiseMin (some l) none = some l := rfl
    rw [this]; exact ⟨Tighter.refl _, tighter_none _⟩
  | some r =>
    simp only [orZero, Option.getD_some] at hr
    constructor
    · intro t v h
      simp only [oget, orZero, Option.getD_some] at h
      rw [cwMin_get? l r hl hr, h]
      cases r.get? t with
      | none => exact ⟨v, rfl, Int.le_refl _⟩
      | some b => exact ⟨min v b, rfl, Int.min_le_left _ _⟩
    · intro t v h
      simp only [oget, orZero, Option.getD_some] at h
      rw [cwMin_get? l r hl hr, h]
      cases l.get? t with
      | none => exact ⟨v, rfl, Int.le_refl _⟩
      | some a => exact ⟨min a v, rfl, Int.min_le_right _ _⟩

theorem cwMin_wf (l : Res) (r : ORes) (hl : wf l = true) (hr : wf (orZero r) = true) :
    wf (orZero (componentWiseMin (some l) r)) = true := by
  cases r with
  | none => exact hl
  | some r =>
    unfold componentWiseMin orZero
    simp only [Option.getD_some]
    have hstep : ∀ (f : Res → String × Int → Res), (∀ out p, wf out = true → wf (f out p) = true) →
        ∀ (xs : Res) (acc : Res), wf acc = true → wf (xs.foldl f acc) = true := by
      intro f hf xs
      induction xs with
      | nil => intro acc h; exact h
      | cons x t ih => intro acc h; exact ih _ (hf acc x h)
    apply hstep
    · intro out p ho; cases l.get? p.1 <;> exact set_wf out ho _ _
    · apply hstep
      · intro out p ho; cases r.get? p.1 <;> exact set_wf out ho _ _
      · rfl

/-! ### checkQueueResource -/

theorem checkResourceConfig_ok {d : QD} {g m : Res} (h : checkResourceConfig d = .ok (g, m)) :
    parseConf d.g = .ok g ∧ parseConf d.m = .ok m ∧ fitInMaxUndef (some m) (some g) = true := by
  unfold checkResourceConfig at h
  simp only [bind_ok, throw_bind, ite_not_err_ok, pure_ok, Prod.mk.injEq] at h
  obtain ⟨g', hg, m', hm, hf, h1, h2⟩ := h
  subst h1; subst h2
  exact ⟨hg, hm, hf⟩

theorem checkQueueResource_ok {d : QD} {qs : List QC} {pm : ORes} {res : Res}
    (h : checkQueueResource (.mk d qs) pm = .ok res) :
    ∃ g m0 sumG, parseConf d.g = .ok g ∧ parseConf d.m = .ok m0 ∧ fitInMaxUndef (some m0) (some g) = true ∧
      fitInMaxUndef pm (some m0) = true ∧
      checkQueueResourceL qs (componentWiseMin (some m0) pm) [] = .ok sumG ∧
      fitInMaxUndef (some g) (some sumG) = true ∧
      fitInMaxUndef (componentWiseMin (some m0) pm) (some sumG) = true ∧
      res = (if isZero (some g) then sumG else g) := by
  unfold checkQueueResource at h
  simp only [bind_ok, throw_bind, ite_not_err_ok] at h
  obtain ⟨⟨g, m0⟩, hrc, hfp, sumG, hl, hfg, hfm, h⟩ := h
  obtain ⟨hg, hm, hgm⟩ := checkResourceConfig_ok hrc
  refine ⟨g, m0, sumG, hg, hm, hgm, hfp, hl, hfg, hfm, ?_⟩
  simp only at h
  by_cases hz : isZero (some g) = true
  · rw [if_pos hz] at h ⊢; exact (pure_ok.mp h).symm
  · rw [if_neg hz] at h ⊢; exact (pure_ok.mp h).symm

theorem checkQueueResourceL_cons {q : QC} {t : List QC} {pm : ORes} {acc sumG : Res}
    (h : checkQueueResourceL (q :: t) pm acc = .ok sumG) :
    ∃ childG, checkQueueResource q pm = .ok childG ∧ checkQueueResourceL t pm (add (some acc) (some childG)) = .ok sumG := by
  unfold checkQueueResourceL at h
  simpa only [bind_ok] using h

/-- the guaranteed quantity a queue itself gives to a type (0 when it does not mention it) -/
def ownG (c : QC) (t : String) : Int := (qty c.d.g t).getD 0

theorem sumGuaranteed_cons (c : QC) (qs : List QC) (t : String) :
    sumGuaranteed (c :: qs) t = ownG c t + sumGuaranteed qs t := by
  simp [sumGuaranteed, ownG]

theorem ownG_nonneg (c : QC) (t : String) : 0 ≤ ownG c t ∧ ownG c t ≤ maxI := by
  unfold ownG
  cases h : qty c.d.g t with
  | none => simp [maxI]
  | some v => simpa using qty_nonneg h

theorem sumGuaranteed_nonneg (qs : List QC) (t : String) : 0 ≤ sumGuaranteed qs t := by
  induction qs with
  | nil => simp [sumGuaranteed]
  | cons c qs ih => rw [sumGuaranteed_cons]; have := (ownG_nonneg c t).1; omega

theorem getD_of_get? {r : Res} {k : String} {v : Int} (h : r.get? k = some v) : r.getD k = v := by
  rw [getD_eq_get?, h]; rfl

theorem nonNeg_getD {r : Res} (h : NonNeg r) (k : String) : 0 ≤ r.getD k ∧ r.getD k ≤ maxI := by
  rw [getD_eq_get?]
  cases hg : r.get? k with
  | none => simp [maxI]
  | some v => simpa using h k v hg

/-- AddTo on non-negative int64 quantities: the sum, capped at MaxInt64 -/
theorem add_getD_sat {l r : Res} (hl : NonNeg l) (hr : NonNeg r) (hw : wf r = true) (k : String) :
    (add (some l) (some r)).getD k = min (l.getD k + r.getD k) maxI := by
  rw [add_getD l r hw k]
  have ⟨l0, l1⟩ := nonNeg_getD hl k
  have ⟨r0, r1⟩ := nonNeg_getD hr k
  have hM : maxI = 9223372036854775807 := rfl
  by_cases hh : has r k = true
  · have ha : inR (l.getD k) := by unfold inR minI; omega
    have hb : inR (r.getD k) := by unfold inR minI; omega
    rw [if_pos hh, goAddVal_spec ha hb]
    unfold clamp minI; omega
  · rw [if_neg hh]
    have : r.getD k = 0 := getD_of_not_has (by simpa using hh)
    rw [this]; omega

theorem add_nonNeg {l r : Res} (hl : NonNeg l) (hr : NonNeg r) (hw : wf r = true) : NonNeg (add (some l) (some r)) := by
  intro k v h
  have := add_getD_sat hl hr hw k
  rw [getD_of_get? h] at this
  have ⟨l0, _⟩ := nonNeg_getD hl k
  have ⟨r0, _⟩ := nonNeg_getD hr k
  unfold maxI at *; omega

theorem add_wf {l r : Res} (hl : wf l = true) : wf (add (some l) (some r)) = true := by
  unfold add orZero; exact zipFold_wf _ _ _ hl

theorem isZero_getD {g : Res} (h : isZero (some g) = true) (k : String) : g.getD k = 0 := by
  unfold isZero at h
  simp only [List.all_eq_true] at h
  rw [getD_eq_get?]
  cases hg : g.get? k with
  | none => rfl
  | some v => have := h (k, v) (mem_of_get? hg); simpa using this

/-- an ancestor list is dominated by the effective maximum handed down to a queue -/
def BoundsM (pm : ORes) (anc : List QD) : Prop :=
  ∀ a ∈ anc, ∀ t v, qty a.m t = some v → ∃ v', oget pm t = some v' ∧ v' ≤ v

/-- the resource clauses of one entry, as propositions (Q1, Q2 for the own maximum, Q3, Q4) -/
structure ResOK (e : Entry) : Prop where
  q1 : ∀ a ∈ e.1, ∀ t x v, qty e.2.d.m t = some x → qty a.m t = some v → x ≤ v
  q2 : ∀ t x v, qty e.2.d.g t = some x → qty e.2.d.m t = some v → x ≤ v
  q3 : ∀ t v, qty e.2.d.g t = some v → min (sumGuaranteed e.2.qs t) maxI ≤ v
  q4 : ∀ a ∈ e.2.d :: e.1, ∀ t v, qty a.m t = some v → min (sumGuaranteed e.2.qs t) maxI ≤ v
  parses : ∃ g m, parseConf e.2.d.g = .ok g ∧ parseConf e.2.d.m = .ok m

mutual
theorem cqr_spec : ∀ (q : QC) (pm : ORes) (res : Res) (anc : List QD),
    checkQueueResource q pm = .ok res → wf (orZero pm) = true → BoundsM pm anc →
    (∀ e ∈ walk anc q, ResOK e) ∧ wf res = true ∧ NonNeg res ∧ (∀ t, ownG q t ≤ res.getD t)
  | .mk d qs, pm, res, anc, h, hwp, hb => by
    obtain ⟨g, m0, sumG, hg, hm, hgm, hfp, hl, hfg, hfm, hres⟩ := checkQueueResource_ok h
    have hwm := parseConf_wf hm
    have hwg := parseConf_wf hg
    have hng := parseConf_nonNeg hg
    obtain ⟨ht1, ht2⟩ := cwMin_tighter m0 pm hwm hwp
    have hwc := cwMin_wf m0 pm hwm hwp
    -- the effective maximum dominates the queue and all its ancestors
    have hb' : BoundsM (componentWiseMin (some m0) pm) (d :: anc) := by
      intro a ha t v hv
      cases ha with
      | head =>
        rw [qty_of_parse hm] at hv
        exact ht1 t v (by simpa [oget, orZero] using hv)
      | tail _ ha =>
        obtain ⟨v', hv', hle⟩ := hb a ha t v hv
        obtain ⟨v'', hv'', hle'⟩ := ht2 t v' hv'
        exact ⟨v'', hv'', Int.le_trans hle' hle⟩
    obtain ⟨hch, hws, hns, hlb⟩ := cqrL_spec qs _ [] sumG (d :: anc) hl hwc hb' rfl (by intro k v h; simp at h)
    have hsum : ∀ t, min (sumGuaranteed qs t) maxI ≤ sumG.getD t := by
      intro t; have := hlb t; simpa using this
    refine ⟨?_, ?_, ?_, ?_⟩
    · intro e he
      unfold walk at he
      cases he with
      | tail _ he => exact hch e he
      | head =>
        refine ⟨?_, ?_, ?_, ?_, ⟨g, m0, hg, hm⟩⟩
        · intro a ha t x v hx hv
          simp only [QC.d] at hx
          rw [qty_of_parse hm] at hx
          obtain ⟨v', hv', hle⟩ := hb a ha t v hv
          have := fit_spec hfp hx hv'
          have := (qty_nonneg hv).1
          omega
        · intro t x v hx hv
          simp only [QC.d] at hx hv
          rw [qty_of_parse hg] at hx
          rw [qty_of_parse hm] at hv
          have := fit_spec hgm hx (by simpa [oget, orZero] using hv)
          have := (parseConf_nonNeg hm t v hv).1
          omega
        · intro t v hv
          simp only [QC.d] at hv
          simp only [QC.qs]
          rw [qty_of_parse hg] at hv
          have h0 := (hng t v hv).1
          have hs := hsum t
          rw [getD_eq_get?] at hs
          cases hx : sumG.get? t with
          | none => rw [hx] at hs; simp at hs; omega
          | some x =>
            rw [hx] at hs; simp at hs
            have := fit_spec hfg hx (by simpa [oget, orZero] using hv)
            omega
        · intro a ha t v hv
          simp only [QC.qs]
          simp only [QC.d] at ha
          obtain ⟨v', hv', hle⟩ := hb' a ha t v hv
          have h0 := (qty_nonneg hv).1
          have hs := hsum t
          rw [getD_eq_get?] at hs
          cases hx : sumG.get? t with
          | none => rw [hx] at hs; simp at hs; omega
          | some x =>
            rw [hx] at hs; simp at hs
            have := fit_spec hfm hx hv'
            omega
    · rw [hres]; split
      · exact hws
      · exact hwg
    · rw [hres]; split
      · exact hns
      · exact hng
    · intro t
      rw [hres]
      have hown : ownG (.mk d qs) t = g.getD t := by
        simp only [ownG, QC.d]; rw [qty_of_parse hg, getD_eq_get?]
      rw [hown]
      split
      · rename_i hz
        rw [isZero_getD hz t]
        exact (nonNeg_getD hns t).1
      · exact Int.le_refl _
theorem cqrL_spec : ∀ (qs : List QC) (pm : ORes) (acc sumG : Res) (anc : List QD),
    checkQueueResourceL qs pm acc = .ok sumG → wf (orZero pm) = true → BoundsM pm anc →
    wf acc = true → NonNeg acc →
    (∀ e ∈ walkL anc qs, ResOK e) ∧ wf sumG = true ∧ NonNeg sumG ∧
      (∀ t, min (acc.getD t + sumGuaranteed qs t) maxI ≤ sumG.getD t)
  | [], pm, acc, sumG, anc, h, _, _, hwa, hna => by
    unfold checkQueueResourceL at h
    injection h with h; subst h
    refine ⟨by intro e he; simp [walkL] at he, hwa, hna, ?_⟩
    intro t; simp [sumGuaranteed]; exact Int.min_le_left _ _
  | q :: tl, pm, acc, sumG, anc, h, hwp, hb, hwa, hna => by
    obtain ⟨childG, hq, ht⟩ := checkQueueResourceL_cons h
    obtain ⟨hqe, hwc, hnc, hown⟩ := cqr_spec q pm childG anc hq hwp hb
    obtain ⟨hte, hws, hns, hlb⟩ := cqrL_spec tl pm _ sumG anc ht hwp hb (add_wf hwa) (add_nonNeg hna hnc hwc)
    refine ⟨?_, hws, hns, ?_⟩
    · intro e he
      unfold walkL at he
      rcases List.mem_append.mp he with he | he
      · exact hqe e he
      · exact hte e he
    · intro t
      have h1 := hlb t
      rw [add_getD_sat hna hnc hwc t] at h1
      rw [sumGuaranteed_cons]
      have := hown t
      have := sumGuaranteed_nonneg tl t
      have := (nonNeg_getD hna t).1
      omega
end

/-! ### checkQueueMaxApplications -/

/-- A1 for one entry -/
def AppsOK (e : Entry) : Prop := ∀ a ∈ e.1, a.maxApps ≠ 0 → e.2.d.maxApps ≠ 0 ∧ e.2.d.maxApps ≤ a.maxApps

mutual
theorem cqma_spec : ∀ (q : QC) (anc : List QD), checkQueueMaxApps q = .ok () →
    (∀ a ∈ anc, a.maxApps ≠ 0 → q.d.maxApps ≠ 0 ∧ q.d.maxApps ≤ a.maxApps) → ∀ e ∈ walk anc q, AppsOK e
  | .mk d qs, anc, h, hpre => by
    unfold checkQueueMaxApps at h
    intro e he
    unfold walk at he
    cases he with
    | head => exact hpre
    | tail _ he =>
      refine cqmaL_spec qs d.maxApps (d :: anc) h ?_ e he
      intro a ha hne
      cases ha with
      | head => exact ⟨hne, Nat.le_refl _⟩
      | tail _ ha => exact hpre a ha hne
theorem cqmaL_spec : ∀ (qs : List QC) (cur : Nat) (anc : List QD), checkQueueMaxAppsL qs cur = .ok () →
    (∀ a ∈ anc, a.maxApps ≠ 0 → cur ≠ 0 ∧ cur ≤ a.maxApps) → ∀ e ∈ walkL anc qs, AppsOK e
  | [], _, _, _, _ => by intro e he; simp [walkL] at he
  | c :: t, cur, anc, h, hpre => by
    unfold checkQueueMaxAppsL at h
    split at h
    · cases h
    · rename_i h1
      split at h
      · cases h
      · rename_i h2
        simp only [bind_ok] at h
        obtain ⟨_, hc, ht⟩ := h
        simp only [Bool.and_eq_true, bne_iff_ne, ne_eq, decide_eq_true_eq, beq_iff_eq, not_and] at h1 h2
        intro e he
        unfold walkL at he
        rcases List.mem_append.mp he with he | he
        · refine cqma_spec c anc hc ?_ e he
          intro a ha hne
          obtain ⟨hc0, hle⟩ := hpre a ha hne
          have := h1 hc0
          have := h2 hc0
          exact ⟨by omega, by omega⟩
        · exact cqmaL_spec t cur anc ht hpre e he
end

/-! ### checkQueues: names and the limits of a queue against the queue itself -/

theorem mapLen_zero_qty {m : Option SMap} (h : mapLen m = 0) (t : String) : qty m t = none := by
  unfold mapLen at h
  have : m.getD [] = [] := List.eq_nil_of_length_eq_zero h
  unfold qty parseConf; rw [this]; rfl

theorem checkLimit_ok {l : Limit} {su sg : List String} {q : QD} {r : List String × List String}
    (h : checkLimit l su sg q = .ok r) :
    (q.maxApps ≠ 0 → l.maxApps ≤ q.maxApps) ∧
    (q.name ≠ "root" → ∀ t x v, qty l.maxRes t = some x → qty q.m t = some v → x ≤ v) ∧
    (∃ lr, parseConf l.maxRes = .ok lr) := by
  unfold checkLimit at h
  simp only [bind_ok, throw_bind, ite_err_ok] at h
  obtain ⟨_, su', _, sg', _, _, lr, hlr, _, happs, hfin⟩ := h
  unfold limitResOf at hlr
  simp only [throw_bind] at hlr
  have hparse : ∃ lr, parseConf l.maxRes = .ok lr := by
    by_cases hm : (mapLen l.maxRes != 0) = true
    · rw [if_pos hm] at hlr
      simp only [bind_ok] at hlr
      obtain ⟨r', hr', _⟩ := hlr
      exact ⟨r', hr'⟩
    · have : mapLen l.maxRes = 0 := by simpa using hm
      have : l.maxRes.getD [] = [] := List.eq_nil_of_length_eq_zero this
      exact ⟨[], by unfold parseConf; rw [this]; rfl⟩
  refine ⟨?_, ?_, hparse⟩
  · intro hne
    simp only [Bool.and_eq_true, bne_iff_ne, ne_eq, decide_eq_true_eq, not_and] at happs
    have := happs hne; omega
  · intro hne t x v hx hv
    have hc : (q.name != "root") = true := by simpa using hne
    rw [if_pos hc] at hfin
    cases hq : parseConf q.m with
    | error e => rw [hq] at hfin; cases hfin
    | ok qm =>
      rw [hq] at hfin
      simp only [ite_not_err_ok] at hfin
      have hfit := hfin.1
      rw [qty_of_parse hq] at hv
      by_cases hm : (mapLen l.maxRes != 0) = true
      · rw [if_pos hm] at hlr
        simp only [bind_ok, ite_not_err_ok, pure_ok] at hlr
        obtain ⟨r', hr', _, hrr⟩ := hlr
        subst hrr
        rw [qty_of_parse hr'] at hx
        have := fit_spec hfit hx (by simpa [oget, orZero] using hv)
        have := (parseConf_nonNeg hq t v hv).1
        omega
      · have : mapLen l.maxRes = 0 := by simpa using hm
        rw [mapLen_zero_qty this] at hx; cases hx

/-- what checkLimit establishes for every limit entry of a queue -/
def LimOK (d : QD) : Prop := ∀ l ∈ d.limits,
  (d.maxApps ≠ 0 → l.maxApps ≤ d.maxApps) ∧
  (d.name ≠ "root" → ∀ t x v, qty l.maxRes t = some x → qty d.m t = some v → x ≤ v) ∧
  (∃ lr, parseConf l.maxRes = .ok lr)

theorem checkLimitsL_ok : ∀ (ls : List Limit) (su sg : List String) (q : QD), checkLimitsL ls su sg q = .ok () →
    ∀ l ∈ ls, (q.maxApps ≠ 0 → l.maxApps ≤ q.maxApps) ∧
      (q.name ≠ "root" → ∀ t x v, qty l.maxRes t = some x → qty q.m t = some v → x ≤ v) ∧
      (∃ lr, parseConf l.maxRes = .ok lr)
  | [], _, _, _, _ => by intro l hl; cases hl
  | l0 :: t, su, sg, q, h => by
    unfold checkLimitsL at h
    simp only [bind_ok] at h
    obtain ⟨⟨su', sg'⟩, h0, ht⟩ := h
    intro l hl
    cases hl with
    | head => exact checkLimit_ok h0
    | tail _ hl => exact checkLimitsL_ok t su' sg' q ht l hl

theorem checkNames_ok : ∀ (qs : List QC) (seen : List String), checkNames qs seen = .ok () →
    (∀ c ∈ qs, validQueueName c.d.name = true) ∧ distinctL (qs.map (fun c => toLower c.d.name)) = true ∧
    (∀ c ∈ qs, toLower c.d.name ∉ seen)
  | [], _, _ => by simp [distinctL]
  | c :: t, seen, h => by
    unfold checkNames at h
    split at h
    · cases h
    · rename_i hv
      split at h
      · cases h
      · rename_i hs
        obtain ⟨h1, h2, h3⟩ := checkNames_ok t _ h
        simp only [Bool.not_eq_true, Bool.not_eq_false'] at hv
        refine ⟨?_, ?_, ?_⟩
        · intro c' hc'
          cases hc' with
          | head => simpa using hv
          | tail _ hc' => exact h1 c' hc'
        · simp only [List.map_cons, distinctL, Bool.and_eq_true, Bool.not_eq_true']
          refine ⟨?_, h2⟩
          cases hcon : (List.map (fun c => toLower c.d.name) t).contains (toLower c.d.name) with
          | false => rfl
          | true =>
            rw [List.contains_iff_mem] at hcon
            obtain ⟨c', hc', he⟩ := List.mem_map.mp hcon
            have := h3 c' hc'
            rw [he] at this
            exact absurd List.mem_cons_self this
        · intro c' hc'
          cases hc' with
          | head => simpa using hs
          | tail _ hc' => intro hm; exact h3 c' hc' (List.mem_cons_of_mem _ hm)


theorem checkLimitUsers_ok : ∀ (names seen seen' : List String), checkLimitUsers names seen = .ok seen' →
    seen' = names.reverse ++ seen ∧ (∀ n ∈ names, n ∉ seen) ∧ names.Nodup
  | [], seen, seen', h => by simp [checkLimitUsers] at h; simp [h]
  | name :: t, seen, seen', h => by
    unfold checkLimitUsers at h
    split at h
    · cases h
    · split at h
      · cases h
      · rename_i hs
        simp only at h
        split at h
        · cases h
        · obtain ⟨h1, h2, h3⟩ := checkLimitUsers_ok t _ seen' h
          have hs' : name ∉ seen := by simpa using hs
          refine ⟨by simp [h1], ?_, ?_⟩
          · intro n hn
            cases hn with
            | head => exact hs'
            | tail _ hn => intro hm; exact h2 n hn (List.mem_cons_of_mem _ hm)
          · refine List.nodup_cons.mpr ⟨?_, h3⟩
            intro hm; exact h2 name hm List.mem_cons_self

theorem checkLimitGroups_ok : ∀ (names seen seen' : List String), checkLimitGroups names seen = .ok seen' →
    seen' = names.reverse ++ seen ∧ (∀ n ∈ names, n ∉ seen) ∧ names.Nodup
  | [], seen, seen', h => by simp [checkLimitGroups] at h; simp [h]
  | name :: t, seen, seen', h => by
    unfold checkLimitGroups at h
    split at h
    · cases h
    · split at h
      · cases h
      · rename_i hs
        simp only at h
        split at h
        · cases h
        · obtain ⟨h1, h2, h3⟩ := checkLimitGroups_ok t _ seen' h
          have hs' : name ∉ seen := by simpa using hs
          refine ⟨by simp [h1], ?_, ?_⟩
          · intro n hn
            cases hn with
            | head => exact hs'
            | tail _ hn => intro hm; exact h2 n hn (List.mem_cons_of_mem _ hm)
          · refine List.nodup_cons.mpr ⟨?_, h3⟩
            intro hm; exact h2 name hm List.mem_cons_self

theorem checkLimit_names {l : Limit} {su sg : List String} {q : QD} {r : List String × List String}
    (h : checkLimit l su sg q = .ok r) :
    r.1 = (namesOf false l).reverse ++ su ∧ (∀ n ∈ namesOf false l, n ∉ su) ∧ (namesOf false l).Nodup ∧
    r.2 = (namesOf true l).reverse ++ sg ∧ (∀ n ∈ namesOf true l, n ∉ sg) ∧ (namesOf true l).Nodup := by
  unfold checkLimit at h
  simp only [bind_ok, throw_bind, ite_err_ok] at h
  obtain ⟨_, su', hu, sg', hg, _, lr, hlr, _, happs, hfin⟩ := h
  have hr : r = (su', sg') := by
    split at hfin
    · split at hfin
      · cases hfin
      · simp only [ite_not_err_ok, pure_ok] at hfin; exact hfin.2.symm
    · exact (pure_ok.mp hfin).symm
  obtain ⟨a1, a2, a3⟩ := checkLimitUsers_ok _ _ _ hu
  obtain ⟨b1, b2, b3⟩ := checkLimitGroups_ok _ _ _ hg
  subst hr
  exact ⟨a1, a2, a3, b1, b2, b3⟩

theorem checkLimitsL_names : ∀ (ls : List Limit) (su sg : List String) (q : QD), checkLimitsL ls su sg q = .ok () →
    ((ls.flatMap (namesOf false)).Nodup ∧ ∀ n ∈ ls.flatMap (namesOf false), n ∉ su) ∧
    ((ls.flatMap (namesOf true)).Nodup ∧ ∀ n ∈ ls.flatMap (namesOf true), n ∉ sg)
  | [], _, _, _, _ => by simp
  | l0 :: t, su, sg, q, h => by
    unfold checkLimitsL at h
    simp only [bind_ok] at h
    obtain ⟨⟨su', sg'⟩, h0, ht⟩ := h
    obtain ⟨a1, a2, a3, b1, b2, b3⟩ := checkLimit_names h0
    simp only at a1 b1
    obtain ⟨⟨u1, u2⟩, ⟨g1, g2⟩⟩ := checkLimitsL_names t su' sg' q ht
    subst a1; subst b1
    refine ⟨⟨?_, ?_⟩, ⟨?_, ?_⟩⟩
    · simp only [List.flatMap_cons]
      refine List.nodup_append.mpr ⟨a3, u1, ?_⟩
      intro x hx y hy hxy; subst hxy
      exact u2 x hy (by simp [hx])
    · intro n hn
      simp only [List.flatMap_cons, List.mem_append] at hn
      rcases hn with hn | hn
      · exact a2 n hn
      · intro hm; exact u2 n hn (by simp [hm])
    · simp only [List.flatMap_cons]
      refine List.nodup_append.mpr ⟨b3, g1, ?_⟩
      intro x hx y hy hxy; subst hxy
      exact g2 x hy (by simp [hx])
    · intro n hn
      simp only [List.flatMap_cons, List.mem_append] at hn
      rcases hn with hn | hn
      · exact b2 n hn
      · intro hm; exact g2 n hn (by simp [hm])

/-- a name is listed by at most one limit entry of the queue -/
def UniqueNames (g : Bool) (ls : List Limit) : Prop :=
  ∀ l1 ∈ ls, ∀ l2 ∈ ls, ∀ n, n ∈ namesOf g l1 → n ∈ namesOf g l2 → l1 = l2

theorem unique_of_nodup (g : Bool) : ∀ (ls : List Limit), (ls.flatMap (namesOf g)).Nodup → UniqueNames g ls
  | [], _ => by intro l1 h1; cases h1
  | l :: t, h => by
    simp only [List.flatMap_cons] at h
    obtain ⟨_, h2, h3⟩ := List.nodup_append.mp h
    have ih := unique_of_nodup g t h2
    intro l1 h1 l2 hl2 n n1 n2
    cases h1 with
    | head =>
      cases hl2 with
      | head => rfl
      | tail _ hl2 => exact absurd rfl (h3 n n1 n (List.mem_flatMap.mpr ⟨l2, hl2, n2⟩))
    | tail _ h1 =>
      cases hl2 with
      | head => exact absurd rfl (h3 n n2 n (List.mem_flatMap.mpr ⟨l1, h1, n1⟩))
      | tail _ hl2 => exact ih l1 h1 l2 hl2 n n1 n2

/-- S2 and the queue-local limit clauses of one entry -/
structure LocalOK (e : Entry) : Prop where
  names : okNames e = true
  lim : LimOK e.2.d
  uniqU : UniqueNames false e.2.d.limits
  uniqG : UniqueNames true e.2.d.limits

mutual
theorem cq_spec : ∀ (q : QC) (anc : List QD), checkQueues q = .ok () → ∀ e ∈ walk anc q, LocalOK e
  | .mk d qs, anc, h => by
    unfold checkQueues at h
    simp only [bind_ok] at h
    obtain ⟨_, _, _, _, _, hlim, _, hn, hq⟩ := h
    intro e he
    unfold walk at he
    cases he with
    | tail _ he => exact cqL_spec qs (d :: anc) hq e he
    | head =>
      obtain ⟨h1, h2, _⟩ := checkNames_ok qs [] hn
      obtain ⟨⟨u1, _⟩, ⟨g1, _⟩⟩ := checkLimitsL_names d.limits [] [] d hlim
      refine ⟨?_, ?_, unique_of_nodup false _ u1, unique_of_nodup true _ g1⟩
      · simp only [okNames, QC.qs, Bool.and_eq_true, List.all_eq_true]
        exact ⟨h1, h2⟩
      · exact checkLimitsL_ok d.limits [] [] d hlim
theorem cqL_spec : ∀ (qs : List QC) (anc : List QD), checkQueuesL qs = .ok () → ∀ e ∈ walkL anc qs, LocalOK e
  | [], _, _ => by intro e he; simp [walkL] at he
  | q :: t, anc, h => by
    unfold checkQueuesL at h
    simp only [bind_ok] at h
    obtain ⟨_, hq, ht⟩ := h
    intro e he
    unfold walkL at he
    rcases List.mem_append.mp he with he | he
    · exact cq_spec q anc hq e he
    · exact cqL_spec t anc ht e he
end

end Yk.Conf
