/-
  `replApp` (Application.ReplaceAllocation): the placeholder leaves application.allocations, the real allocation enters
  it.  Field lemmas, the application's books and well-formedness afterwards.  Shared by the proofs about `swapConfirm`
  and about `nodeRemove` (a swap confirmed by the removal of the placeholder's node).
-/
import YkProofs.Core2Rel
namespace Yk
open Res Core

/-- what `replApp p r a` needs: `p` is a bound placeholder of `a`; `r` is a real allocation that is allocated and not yet
    bound — an item of `a`, or (its ask was dropped while the swap was in flight) unknown to `a` -/
structure ReplOK (a : CApp) (p r : CItem) : Prop where
  pIn : p ∈ a.items
  pBound : p.bound = true
  pPh : p.ph = true
  rKey : r.key ≠ p.key
  rPh : r.ph = false
  rAllocated : r.allocated = true
  rRes : wf r.res = true ∧ NonNeg r.res
  rIn : (r ∈ a.items ∧ r.bound = false) ∨ ((∀ x ∈ a.items, x.key ≠ r.key) ∧ r.inReq = false)

/-- the item list of `replApp` before a resurrected real allocation is appended -/
def replItems0 (p r : CItem) (l : List CItem) : List CItem :=
  (updItem r.key (fun x => { x with bound := true, release := none })
    (updItem p.key (fun x => { x with bound := false }) l)).filter (fun x => x.bound || x.inReq)

def replItems (p r : CItem) (l : List CItem) : List CItem :=
  if l.any (·.key == r.key) then replItems0 p r l else replItems0 p r l ++ [{ r with bound := true, release := none }]

theorem replApp_items (p r : CItem) (a : CApp) : (replApp p r a).items = replItems p r a.items := by
  unfold replApp replItems replItems0; simp
theorem replApp_queue (p r : CItem) (a : CApp) : (replApp p r a).queue = a.queue := by unfold replApp; simp
theorem replApp_id (p r : CItem) (a : CApp) : (replApp p r a).id = a.id := by unfold replApp; simp
theorem replApp_pending (p r : CItem) (a : CApp) : (replApp p r a).pending = a.pending := by unfold replApp; simp
theorem replApp_allocated (p r : CItem) (a : CApp) : (replApp p r a).allocated = addX a.allocated r.res := by
  unfold replApp; simp
theorem replApp_allocatedPh (p r : CItem) (a : CApp) : (replApp p r a).allocatedPh = prune (subX a.allocatedPh p.res) := by
  unfold replApp; simp

theorem any_key_of_mem {l : List CItem} {r : CItem} (h : r ∈ l) : l.any (·.key == r.key) = true :=
  List.any_eq_true.mpr ⟨r, h, by simp⟩

theorem any_key_false {l : List CItem} {k : String} (h : ∀ x ∈ l, x.key ≠ k) : l.any (·.key == k) = false := by
  rw [List.any_eq_false]; intro x hx; simpa using h x hx

/-- the three sums after the swap -/
theorem itemSum_replItems (a : CApp) (p r : CItem) (hwa : AppWF a) (hok : ReplOK a p r) (k : String) :
    itemSum (replItems p r a.items) (fun i => i.bound && !i.ph) k =
      itemSum a.items (fun i => i.bound && !i.ph) k + r.res.getD k ∧
    itemSum (replItems p r a.items) (fun i => i.bound && i.ph) k =
      itemSum a.items (fun i => i.bound && i.ph) k - p.res.getD k ∧
    itemSum (replItems p r a.items) (fun i => i.inReq && !i.allocated) k =
      itemSum a.items (fun i => i.inReq && !i.allocated) k := by
  have hk := hwa.itemKeys
  have hk1 := pairwise_updItem a.items p.key (fun x => { x with bound := false }) (fun _ => rfl) hk
  have hpb := hok.pBound
  have hpp := hok.pPh
  have hrp := hok.rPh
  rcases hok.rIn with ⟨hrm, hrb⟩ | ⟨hnone, hrq⟩
  · -- the real allocation is an item of the application
    have hr1 : r ∈ updItem p.key (fun x => { x with bound := false }) a.items := mem_updItem_of_ne hrm hok.rKey
    unfold replItems replItems0
    rw [any_key_of_mem hrm]
    simp only [if_true]
    refine ⟨?_, ?_, ?_⟩
    · rw [itemSum_filter_irrel _ _ _ _ (fun x _ hd => by simp only [Bool.or_eq_false_iff] at hd; simp [hd.1]),
        itemSum_updItem _ hk1 r.key _ r hr1 rfl, itemSum_updItem _ hk p.key _ p hok.pIn rfl]
      simp [hpb, hpp, hrb, hrp]
    · rw [itemSum_filter_irrel _ _ _ _ (fun x _ hd => by simp only [Bool.or_eq_false_iff] at hd; simp [hd.1]),
        itemSum_updItem _ hk1 r.key _ r hr1 rfl, itemSum_updItem _ hk p.key _ p hok.pIn rfl]
      simp [hpb, hpp, hrb, hrp]
    · rw [itemSum_filter_irrel _ _ _ _ (fun x _ hd => by simp only [Bool.or_eq_false_iff] at hd; simp [hd.2]),
        itemSum_updItem _ hk1 r.key _ r hr1 rfl, itemSum_updItem _ hk p.key _ p hok.pIn rfl]
      simp
  · -- its ask was dropped: it is resurrected
    have hn1 : ∀ x ∈ updItem p.key (fun x => { x with bound := false }) a.items, x.key ≠ r.key := by
      intro x hx
      obtain ⟨y, hy, h | h⟩ := mem_updItem hx
      · rw [h.2]; exact hnone y hy
      · rw [h.2]; exact hnone y hy
    unfold replItems replItems0
    rw [any_key_false hnone, updItem_none _ _ _ hn1]
    simp only [Bool.false_eq_true, if_false]
    refine ⟨?_, ?_, ?_⟩
    · rw [itemSum_append, itemSum_single,
        itemSum_filter_irrel _ _ _ _ (fun x _ hd => by simp only [Bool.or_eq_false_iff] at hd; simp [hd.1]),
        itemSum_updItem _ hk p.key _ p hok.pIn rfl]
      simp [hpb, hpp, hrp]
    · rw [itemSum_append, itemSum_single,
        itemSum_filter_irrel _ _ _ _ (fun x _ hd => by simp only [Bool.or_eq_false_iff] at hd; simp [hd.1]),
        itemSum_updItem _ hk p.key _ p hok.pIn rfl]
      simp [hpb, hpp, hrp]
    · rw [itemSum_append, itemSum_single,
        itemSum_filter_irrel _ _ _ _ (fun x _ hd => by simp only [Bool.or_eq_false_iff] at hd; simp [hd.2]),
        itemSum_updItem _ hk p.key _ p hok.pIn rfl]
      simp [hrq]

theorem appBooks_replApp (a : CApp) (p r : CItem) (hba : AppBooks a) (hwa : AppWF a) (hok : ReplOK a p r) :
    AppBooks (replApp p r a) := by
  obtain ⟨hwp, hwal, hwh⟩ := hwa.appRes
  obtain ⟨hwpr, _⟩ := hwa.itemRes p hok.pIn
  refine ⟨?_, ?_, ?_⟩ <;> intro k
  · rw [replApp_items, replApp_allocated, (itemSum_replItems a p r hwa hok k).1, addX_getD _ _ hok.rRes.1, hba.allocated k]
  · rw [replApp_items, replApp_allocatedPh, (itemSum_replItems a p r hwa hok k).2.1, prune_subX_getD _ _ hwh hwpr,
      hba.allocatedPh k]
  · rw [replApp_items, replApp_pending, (itemSum_replItems a p r hwa hok k).2.2, hba.pending k]

/-- the members of the item list after the swap -/
theorem mem_replItems {p r : CItem} {l : List CItem} {y : CItem} (hy : y ∈ replItems p r l) :
    (∃ x ∈ l, y.key = x.key ∧ y.res = x.res ∧ y.allocated = x.allocated ∧
      (y.bound = true → x.bound = true ∨ x.key = r.key)) ∨
    (y = { r with bound := true, release := none } ∧ ∀ x ∈ l, x.key ≠ r.key) := by
  unfold replItems at hy
  have h0 : ∀ y ∈ replItems0 p r l, ∃ x ∈ l, y.key = x.key ∧ y.res = x.res ∧ y.allocated = x.allocated ∧
      (y.bound = true → x.bound = true ∨ x.key = r.key) := by
    intro y hy
    unfold replItems0 at hy
    obtain ⟨hm, _⟩ := List.mem_filter.mp hy
    obtain ⟨z, hz, h | h⟩ := mem_updItem hm
    · obtain ⟨hzk, rfl⟩ := h
      obtain ⟨x, hx, h' | h'⟩ := mem_updItem hz
      · obtain ⟨_, rfl⟩ := h'; exact ⟨x, hx, rfl, rfl, rfl, fun _ => Or.inr hzk⟩
      · obtain ⟨_, rfl⟩ := h'; exact ⟨z, hx, rfl, rfl, rfl, fun _ => Or.inr hzk⟩
    · obtain ⟨_, rfl⟩ := h
      obtain ⟨x, hx, h' | h'⟩ := mem_updItem hz
      · obtain ⟨_, rfl⟩ := h'; exact ⟨x, hx, rfl, rfl, rfl, fun hb => by cases hb⟩
      · obtain ⟨_, rfl⟩ := h'; exact ⟨y, hx, rfl, rfl, rfl, fun hb => Or.inl hb⟩
  split at hy
  · exact Or.inl (h0 y hy)
  · rename_i hany
    rcases List.mem_append.mp hy with h | h
    · exact Or.inl (h0 y h)
    · rw [List.mem_singleton] at h
      refine Or.inr ⟨h, ?_⟩
      intro x hx hk
      exact hany (List.any_eq_true.mpr ⟨x, hx, by simp [hk]⟩)

theorem pairwise_replItems0 (p r : CItem) (l : List CItem) (h : l.Pairwise (fun i j => i.key ≠ j.key)) :
    (replItems0 p r l).Pairwise (fun i j => i.key ≠ j.key) := by
  unfold replItems0
  exact (pairwise_updItem _ r.key (fun x => { x with bound := true, release := none }) (fun _ => rfl)
    (pairwise_updItem l p.key (fun x => { x with bound := false }) (fun _ => rfl) h)).filter _

theorem key_of_mem_replItems0 {p r : CItem} {l : List CItem} {y : CItem} (hy : y ∈ replItems0 p r l) :
    ∃ x ∈ l, y.key = x.key := by
  unfold replItems0 at hy
  obtain ⟨hm, _⟩ := List.mem_filter.mp hy
  obtain ⟨z, hz, h | h⟩ := mem_updItem hm
  · obtain ⟨_, rfl⟩ := h
    obtain ⟨x, hx, h' | h'⟩ := mem_updItem hz
    · obtain ⟨_, rfl⟩ := h'; exact ⟨x, hx, rfl⟩
    · obtain ⟨_, rfl⟩ := h'; exact ⟨z, hx, rfl⟩
  · obtain ⟨_, rfl⟩ := h
    obtain ⟨x, hx, h' | h'⟩ := mem_updItem hz
    · obtain ⟨_, rfl⟩ := h'; exact ⟨x, hx, rfl⟩
    · obtain ⟨_, rfl⟩ := h'; exact ⟨y, hx, rfl⟩

theorem appWF_replApp (a : CApp) (p r : CItem) (hwa : AppWF a) (hok : ReplOK a p r) : AppWF (replApp p r a) := by
  obtain ⟨hwp, hwal, hwh⟩ := hwa.appRes
  refine ⟨?_, ?_, ?_, ?_⟩
  · rw [replApp_items]
    unfold replItems
    split
    · exact pairwise_replItems0 p r a.items hwa.itemKeys
    · rename_i hany
      rw [List.pairwise_append]
      refine ⟨pairwise_replItems0 p r a.items hwa.itemKeys, List.pairwise_singleton _ _, ?_⟩
      intro y hy z hz
      rw [List.mem_singleton] at hz
      subst hz
      obtain ⟨x, hx, hk⟩ := key_of_mem_replItems0 hy
      rw [hk]
      intro he
      exact hany (List.any_eq_true.mpr ⟨x, hx, by simpa using he⟩)
  · rw [replApp_pending, replApp_allocated, replApp_allocatedPh]
    exact ⟨hwp, addX_wf _ _ hwal, prune_wf _ (subX_wf _ _ hwh)⟩
  · intro y hy
    rw [replApp_items] at hy
    rcases mem_replItems hy with ⟨x, hx, _, hr, _⟩ | ⟨h, _⟩
    · rw [hr]; exact hwa.itemRes x hx
    · rw [h]; exact hok.rRes
  · intro y hy hb
    rw [replApp_items] at hy
    rcases mem_replItems hy with ⟨x, hx, _, _, hal, hbd⟩ | ⟨h, _⟩
    · rw [hal]
      rcases hbd hb with h | h
      · exact hwa.boundAllocated x hx h
      · -- the item with the key of the real allocation
        rcases hok.rIn with ⟨hrm, _⟩ | ⟨hnone, _⟩
        · have : x = r := itemKeys_eq hwa.itemKeys hx hrm h
          rw [this]; exact hok.rAllocated
        · exact absurd h (hnone x hx)
    · rw [h]; exact hok.rAllocated

/-- After fix 3b9e769 the application can leave the partition in the step that confirms a replacement only by failing
    (Failing → Failed when its last placeholder goes: KNOWN_FINDINGS C03.I7t); it no longer completes there (the former
    I7c variant: Completing → Completed right before the real allocation was added). -/
theorem replApp_leaves_only_failing (p r : CItem) (a : CApp) (h : (replApp p r a).live = false) :
    (a.state = "Failing" ∧ isZero (some a.allocated) = true) ∨ terminated a.state = true := by
  have hl : (replApp p r a).live =
      !(terminated (if (isZero (some (prune (subX a.allocatedPh p.res))) &&
          ((a.state == "Failing" && isZero (some a.allocated)) || a.state == "Resuming")) = true then
        (if (a.state == "Failing") = true then fireState a.state .fail else fireState a.state .run) else a.state)) := by
    unfold replApp; simp
  rw [hl] at h
  by_cases hF : a.state = "Failing" ∧ isZero (some a.allocated) = true
  · exact Or.inl hF
  · right
    split at h
    · rename_i hc
      simp only [Bool.and_eq_true, Bool.or_eq_true, beq_iff_eq] at hc
      rcases hc.2 with hc2 | hc2
      · exact absurd hc2 hF
      · have hne : (a.state == "Failing") = false := by rw [hc2]; decide
        rw [hne] at h
        simp only [Bool.false_eq_true, if_false] at h
        rw [hc2] at h
        have : (!terminated (fireState "Resuming" AppEvent.run)) = true := by decide
        rw [this] at h; cases h
    · simpa using h

end Yk
