/-
  The placeholder swap (application.go tryPlaceholderAllocate, partition.go removeAllocation with
  PLACEHOLDER_REPLACED, node.go ReplaceAllocation): `swapStart` and `swapConfirm` preserve the books and the
  well-formedness of the state; the C06 clause (the placeholder is gone, usage reflects the real allocation and never
  grows); a concrete state that shows that the side condition "the placeholder's node is registered" matters.
-/
import YkProofs.Core2Repl
namespace Yk
open Res Core

/-! ### `swapStart` -/

/-- the application after tryPlaceholderAllocate chose real ask `r` for placeholder `phKey` on `node` -/
def swapStartApp (realKey phKey node : String) (r : CItem) (a : CApp) : CApp :=
  { a with
    items := updItem phKey (fun x => { x with released := true, release := some realKey })
               (updItem realKey (fun x => { x with allocated := true, node := node, release := some phKey }) a.items),
    pending := prune (subX a.pending r.res) }

/-- the node the real half is parked on (cross-node case) -/
def swapStartNode (app realKey : String) (r : CItem) (n : CNode) : CNode :=
  { n with
    allocs := n.allocs ++ [{ key := realKey, app := app, res := r.res, foreign := false, ph := false }],
    allocated := addX n.allocated r.res, available := prune (subX n.available r.res) }

theorem swapStart_lists (s s' : Core) (app realKey phKey node : String) (h : s.swapStart app realKey phKey node = some s') :
    ∃ a r p, s.findApp app = some a ∧
      a.items.find? (fun i => i.key == realKey && i.inReq && !i.allocated) = some r ∧
      a.items.find? (fun i => i.key == phKey && i.bound && i.ph) = some p ∧
      s'.apps = updApps s.apps app (swapStartApp realKey phKey node r) ∧
      s'.queues = updQs s.queues (pathChain s a.queue) (qDecPend r.res) ∧
      s'.nodes = (if (p.node != node) = true then updNs s.nodes node (swapStartNode app realKey r) else s.nodes) := by
  unfold swapStart at h
  split at h
  · cases h
  · rename_i a hfind
    split at h
    · rename_i r p hr hp
      dsimp only at h
      split at h
      · cases h
      · simp only [Option.some.injEq] at h
        subst h
        refine ⟨a, r, p, hfind, hr, hp, ?_, ?_, ?_⟩ <;> cases (p.node != node) <;> rfl
    · cases h

theorem findNode_of_mem {s : Core} (hw : CoreWF s) {n : CNode} (hn : n ∈ s.nodes) : s.findNode n.id = some n := by
  unfold findNode
  cases hf : s.nodes.find? (·.id == n.id) with
  | none =>
    have := List.find?_eq_none.mp hf n hn
    simp at this
  | some m =>
    have hm : m ∈ s.nodes := List.mem_of_find?_eq_some hf
    have hid : m.id = n.id := by simpa using List.find?_some hf
    rw [nodeIds_eq hw hn hm hid]

/-- an item-wise update that keeps key, size and bound and never clears `allocated` keeps the application well-formed -/
theorem appWF_map_items {a b : CApp} (g : CItem → CItem)
    (hg : ∀ x, (g x).key = x.key ∧ (g x).res = x.res ∧ (g x).bound = x.bound ∧ (x.allocated = true → (g x).allocated = true))
    (hi : b.items = a.items.map g)
    (hres : wf b.pending = true ∧ wf b.allocated = true ∧ wf b.allocatedPh = true) (h : AppWF a) : AppWF b := by
  refine ⟨?_, hres, ?_, ?_⟩
  · rw [hi, List.pairwise_map]
    refine List.Pairwise.imp ?_ h.itemKeys
    intro u v huv; rw [(hg u).1, (hg v).1]; exact huv
  · intro i hi'
    rw [hi] at hi'
    obtain ⟨x, hx, rfl⟩ := List.mem_map.mp hi'
    rw [(hg x).2.1]; exact h.itemRes x hx
  · intro i hi' hb
    rw [hi] at hi'
    obtain ⟨x, hx, rfl⟩ := List.mem_map.mp hi'
    rw [(hg x).2.2.1] at hb
    exact (hg x).2.2.2 (h.boundAllocated x hx hb)

theorem swapStartApp_items (realKey phKey node : String) (r : CItem) (a : CApp) :
    (swapStartApp realKey phKey node r a).items = a.items.map (fun x =>
      (fun y : CItem => if (y.key == phKey) = true then { y with released := true, release := some realKey } else y)
        (if (x.key == realKey) = true then { x with allocated := true, node := node, release := some phKey } else x)) := by
  unfold swapStartApp
  simp only [updItem_eq, List.map_map]
  rfl

theorem appWF_swapStartApp (realKey phKey node : String) (r : CItem) (a : CApp) (hwa : AppWF a) :
    AppWF (swapStartApp realKey phKey node r a) := by
  obtain ⟨hwp, hwal, hwh⟩ := hwa.appRes
  refine appWF_map_items _ ?_ (swapStartApp_items realKey phKey node r a) ⟨prune_wf _ (subX_wf _ _ hwp), hwal, hwh⟩ hwa
  intro x
  by_cases h1 : (x.key == realKey) = true
  · by_cases h2 : (x.key == phKey) = true <;> simp [h1, h2]
  · by_cases h2 : (x.key == phKey) = true <;> simp [h1, h2]

theorem appBooks_swapStartApp (realKey phKey node : String) (r : CItem) (a : CApp) (hba : AppBooks a) (hwa : AppWF a)
    (hrm : r ∈ a.items) (hrk : r.key = realKey) (hreq : r.inReq = true) (hnal : r.allocated = false) :
    AppBooks (swapStartApp realKey phKey node r a) := by
  obtain ⟨hwp, _, _⟩ := hwa.appRes
  obtain ⟨hwr, _⟩ := hwa.itemRes r hrm
  have hnb : r.bound = false := by
    cases hbd : r.bound with
    | false => rfl
    | true => rw [hwa.boundAllocated r hrm hbd] at hnal; cases hnal
  refine ⟨?_, ?_, ?_⟩ <;> intro k
  · show a.allocated.getD k = itemSum (updItem phKey _ (updItem realKey _ a.items)) _ k
    rw [itemSum_updItem_irrel, itemSum_updItem _ hwa.itemKeys realKey _ r hrm hrk, hba.allocated k]
    · simp [hnb]
    · intro x _; exact ⟨rfl, rfl⟩
  · show a.allocatedPh.getD k = itemSum (updItem phKey _ (updItem realKey _ a.items)) _ k
    rw [itemSum_updItem_irrel, itemSum_updItem _ hwa.itemKeys realKey _ r hrm hrk, hba.allocatedPh k]
    · simp [hnb]
    · intro x _; exact ⟨rfl, rfl⟩
  · show (prune (subX a.pending r.res)).getD k = itemSum (updItem phKey _ (updItem realKey _ a.items)) _ k
    rw [itemSum_updItem_irrel, itemSum_updItem _ hwa.itemKeys realKey _ r hrm hrk,
      prune_subX_getD _ _ hwp hwr, hba.pending k]
    · simp [hreq, hnal]
    · intro x _; exact ⟨rfl, rfl⟩

theorem swapStartNode_books (app realKey : String) (r : CItem) (m : CNode) (hm : NWF m) (hmb : NodeBooks m)
    (hwr : wf r.res = true) : NodeBooks (swapStartNode app realKey r m) := by
  obtain ⟨_, ho, ha, hv⟩ := hm.nodeRes
  constructor
  · intro k
    show (addX m.allocated r.res).getD k = allocSum (m.allocs ++ [_]) k
    rw [addX_getD _ _ hwr, allocSum_append, ← hmb.allocated k]; simp [allocSum, sumIf_single]
  · intro k
    show (prune (subX m.available r.res)).getD k = m.total.getD k - (addX m.allocated r.res).getD k - m.occupied.getD k
    rw [prune_subX_getD _ _ hv hwr, addX_getD _ _ hwr, hmb.available k]; omega

theorem swapStartNode_wf (app realKey : String) (r : CItem) (m : CNode) (hm : NWF m) (hwr : wf r.res = true)
    (hfresh : ∀ x ∈ m.allocs, x.key ≠ realKey) : NWF (swapStartNode app realKey r m) := by
  obtain ⟨ht, ho, ha, hv⟩ := hm.nodeRes
  refine ⟨?_, ⟨ht, ho, addX_wf _ _ ha, prune_wf _ (subX_wf _ _ hv)⟩, ?_⟩
  · show (m.allocs ++ [_]).Pairwise _
    rw [List.pairwise_append]
    refine ⟨hm.allocKeys, List.pairwise_singleton _ _, ?_⟩
    intro x hx y hy
    rw [List.mem_singleton] at hy
    subst hy
    exact hfresh x hx
  · intro x hx
    rcases List.mem_append.mp hx with h | h
    · exact hm.allocRes x h
    · rw [List.mem_singleton] at h; subst h; exact hwr

/-- what `swapStart` found: the outstanding real ask and the bound placeholder -/
theorem swapStart_found {a : CApp} {realKey : String} {r : CItem}
    (hr : a.items.find? (fun i => i.key == realKey && i.inReq && !i.allocated) = some r) :
    r ∈ a.items ∧ r.key = realKey ∧ r.inReq = true ∧ r.allocated = false := by
  have hp := List.find?_some hr
  simp only [Bool.and_eq_true, beq_iff_eq, Bool.not_eq_true'] at hp
  exact ⟨List.mem_of_find?_eq_some hr, hp.1.1, hp.1.2, hp.2⟩

theorem books_swapStart (s s' : Core) (app realKey phKey node : String) (hw : CoreWF s) (hb : Books s)
    (h : s.swapStart app realKey phKey node = some s') : Books s' := by
  obtain ⟨a, r, p, hfind, hr, _, hta, htq, htn⟩ := swapStart_lists s s' app realKey phKey node h
  obtain ⟨ham, hl, hid⟩ := findApp_some hfind
  obtain ⟨hrm, hrk, hreq, hnal⟩ := swapStart_found hr
  have hwa := hw.app ham hl
  obtain ⟨hwp, _, _⟩ := hwa.appRes
  obtain ⟨hwr, _⟩ := hwa.itemRes r hrm
  have hnodes : ∀ m ∈ s'.nodes, NodeBooks m := by
    rw [htn]
    split
    · apply books_upd_nodes _ _ _ hb.nodes
      intro m hm _ hmb
      exact swapStartNode_books app realKey r m (hw.node hm) hmb hwr
    · exact hb.nodes
  refine books_upd s s' app a _ (pathChain s a.queue) _ hta htq hnodes hw.appIds ham hl hid hb.apps hb.queues rfl
    (fun _ => appBooks_swapStartApp realKey phKey node r a (hb.apps a ham hl) hwa hrm hrk hreq hnal)
    (chain_iff s a.queue) (fun _ => rfl) ?_
  intro q hq hun k
  have hge := fun k' => pending_ge s.apps (fun y hy hyl j hj => (hw.itemRes y hy hyl j hj).2) hb.apps a ham hl r hrm
    (by simp [hreq, hnal]) q (hb.queues q hq) hun k'
  constructor
  · show q.allocated.getD k = q.allocated.getD k - (a.allocated.getD k + a.allocatedPh.getD k) +
      (if a.live = true then a.allocated.getD k + a.allocatedPh.getD k else 0)
    simp only [hl, if_true]; omega
  · rw [qDecPend_pending _ _ (hw.queue hq) hwr (fun k' => by have := hge k'; omega)]
    show _ = q.pending.getD k - a.pending.getD k + (if a.live = true then (prune (subX a.pending r.res)).getD k else 0)
    simp only [hl, if_true, prune_subX_getD _ _ hwp hwr]; omega

theorem wf_swapStart (s s' : Core) (app realKey phKey node : String) (hw : CoreWF s)
    (h : s.swapStart app realKey phKey node = some s')
    (hfresh : ∀ n, s.findNode node = some n → ∀ x ∈ n.allocs, x.key ≠ realKey) : CoreWF s' := by
  obtain ⟨a, r, p, hfind, hr, _, hta, htq, htn⟩ := swapStart_lists s s' app realKey phKey node h
  obtain ⟨ham, hl, hid⟩ := findApp_some hfind
  obtain ⟨hrm, _, _, _⟩ := swapStart_found hr
  have hwa := hw.app ham hl
  obtain ⟨hwr, _⟩ := hwa.itemRes r hrm
  obtain ⟨h1, h2⟩ := wf_updApps s.apps app (swapStartApp realKey phKey node r) a hw.appIds ham hl hid
    (fun x hx hxl => hw.app hx hxl) (fun _ _ => rfl) (fun _ => appWF_swapStartApp realKey phKey node r a hwa)
  have h3 := wf_updQs s.queues (pathChain s a.queue) (qDecPend r.res) (fun q hq => hw.queue hq)
    (fun q hq _ => qDecPend_wf _ _ (hw.queue hq))
  obtain ⟨h4, h5⟩ := wf_updNs s.nodes node (swapStartNode app realKey r) hw.nodeIds (fun n hn => hw.node hn) (fun _ => rfl)
    (fun n hn hnid => swapStartNode_wf app realKey r n (hw.node hn) hwr
      (hfresh n (by rw [← hnid]; exact findNode_of_mem hw hn)))
  refine CoreWF.of_parts (by rw [hta]; exact h1) ?_ (by rw [hta]; exact h2) (by rw [htq]; exact h3) ?_
  · rw [htn]; split
    · exact h4
    · exact hw.nodeIds
  · rw [htn]; split
    · exact h5
    · exact fun n hn => hw.node hn

/-- `swapStart` (tryPlaceholderAllocate decided a replacement) keeps the books and the well-formedness.  `hfresh`: the
    node the real half is parked on does not list an allocation with the key of the real ask yet (node.allocations is a
    map: needed for `NWF.allocKeys` only). -/
theorem swapStart_props (s s' : Core) (app realKey phKey node : String) (hw : CoreWF s) (hb : Books s)
    (h : s.swapStart app realKey phKey node = some s')
    (hfresh : ∀ n, s.findNode node = some n → ∀ x ∈ n.allocs, x.key ≠ realKey) : Books s' ∧ CoreWF s' :=
  ⟨books_swapStart s s' app realKey phKey node hw hb h, wf_swapStart s s' app realKey phKey node hw h hfresh⟩

/-! ### `swapConfirm`: the arithmetic of the size difference -/

theorem nonNeg_of_getD {r : Res} (hw : wf r = true) (h : ∀ k, 0 ≤ r.getD k) : NonNeg r := by
  intro p hp
  have := h p.1
  rw [mem_getD hw hp] at this
  exact this

theorem swapTotal_wf (p r : CItem) : wf (swapTotal p r) = true := by
  unfold swapTotal
  dsimp only
  split
  · exact subX_wf _ _ rfl
  · rfl

/-- when the real allocation is not larger than the placeholder, what the queue gives back is exactly the difference -/
theorem swapTotal_getD (p r : CItem) (hp : wf p.res = true) (hr : wf r.res = true)
    (hle : ∀ k, r.res.getD k ≤ p.res.getD k) (k : String) :
    (swapTotal p r).getD k = p.res.getD k - r.res.getD k := by
  have hd : wf (subX r.res p.res) = true := subX_wf _ _ hr
  have hg : (subX r.res p.res).getD k = r.res.getD k - p.res.getD k := subX_getD _ _ hp k
  have := hle k
  unfold swapTotal
  dsimp only
  cases hn : hasNegativeValue (some (subX r.res p.res)) with
  | true =>
    simp only [if_true]
    rw [subX_getD _ _ hd, hg]; simp; omega
  | false =>
    simp only [Bool.false_eq_true, if_false]
    have h0 := hasNeg_false_getD hn k
    rw [hg] at h0
    simp; omega

/-! ### the queue chain after the confirmed swap -/

/-- the queue before the application possibly leaves it -/
def swapQ0 (p r : CItem) (b : Bool) (q : CQueue) : CQueue :=
  let total := swapTotal p r
  let q1 := if b && strictlyGreaterThanZero (some total) then qDecAlloc total q else q
  if b && p.preempted && strictlyGreaterThanZero (some p.res) then qDecPreempting p.res q1 else q1

theorem swapQ_eq (p r : CItem) (a' : CApp) (b : Bool) (q : CQueue) :
    swapQ p r a' b q = if a'.live = true then swapQ0 p r b q else qLeave a' (swapQ0 p r b q) := rfl

theorem swapQ0_path (p r : CItem) (b : Bool) (q : CQueue) : (swapQ0 p r b q).path = q.path := by
  unfold swapQ0 qDecPreempting qDecAlloc
  dsimp only
  split <;> (try split) <;> rfl

theorem swapQ_path (p r : CItem) (a' : CApp) (b : Bool) (q : CQueue) : (swapQ p r a' b q).path = q.path := by
  rw [swapQ_eq]
  split
  · exact swapQ0_path p r b q
  · exact swapQ0_path p r b q

theorem swapQ0_pending (p r : CItem) (b : Bool) (q : CQueue) : (swapQ0 p r b q).pending = q.pending := by
  unfold swapQ0 qDecPreempting qDecAlloc
  dsimp only
  split <;> (try split) <;> rfl

theorem swapQ0_wf (p r : CItem) (b : Bool) (q : CQueue) (hq : QWF q) : QWF (swapQ0 p r b q) := by
  unfold swapQ0
  dsimp only
  split <;> split <;>
    first
    | exact hq
    | exact qDecAlloc_wf _ _ hq
    | exact qDecPreempting_wf _ _ (qDecAlloc_wf _ _ hq)
    | exact qDecPreempting_wf _ _ hq

theorem swapQ_wf (p r : CItem) (a' : CApp) (b : Bool) (q : CQueue) (hq : QWF q) : QWF (swapQ p r a' b q) := by
  rw [swapQ_eq]
  split
  · exact swapQ0_wf p r b q hq
  · exact qLeave_wf _ _ (swapQ0_wf p r b q hq)

/-- on a registered node the queue gives back the size difference placeholder − real -/
theorem swapQ0_allocated (p r : CItem) (q : CQueue) (hq : QWF q) (hp : wf p.res = true) (hr : wf r.res = true)
    (hle : ∀ k, r.res.getD k ≤ p.res.getD k) (k : String) :
    (swapQ0 p r true q).allocated.getD k = q.allocated.getD k - (p.res.getD k - r.res.getD k) := by
  have ht := swapTotal_getD p r hp hr hle
  have hwt := swapTotal_wf p r
  have key : (if (true && strictlyGreaterThanZero (some (swapTotal p r))) = true then qDecAlloc (swapTotal p r) q
      else q).allocated.getD k = q.allocated.getD k - (p.res.getD k - r.res.getD k) := by
    cases hz : strictlyGreaterThanZero (some (swapTotal p r)) with
    | true =>
      show (qDecAlloc (swapTotal p r) q).allocated.getD k = _
      rw [qDecAlloc_allocated _ _ hq hwt k, ht k]
    | false =>
      have hnn : NonNeg (swapTotal p r) := nonNeg_of_getD hwt (fun k' => by rw [ht k']; have := hle k'; omega)
      have h0 := zero_of_not_sgtz hnn hz k
      rw [ht k] at h0
      show q.allocated.getD k = _
      omega
  unfold swapQ0
  dsimp only
  split
  · exact key
  · exact key

/-- the chain queue after the confirmed swap, pointwise (`a'` = the application afterwards) -/
theorem swapQ_getD (p r : CItem) (a' : CApp) (q : CQueue) (hq : QWF q) (hwp : wf p.res = true) (hwr : wf r.res = true)
    (hle : ∀ k, r.res.getD k ≤ p.res.getD k)
    (ha : wf a'.allocated = true) (hh : wf a'.allocatedPh = true) (hp : wf a'.pending = true)
    (hge : ∀ k, 0 ≤ a'.pending.getD k ∧ a'.pending.getD k ≤ q.pending.getD k) (k : String) :
    (swapQ p r a' true q).allocated.getD k =
      q.allocated.getD k - (p.res.getD k - r.res.getD k) -
        (if a'.live = true then 0 else a'.allocated.getD k + a'.allocatedPh.getD k) ∧
    (swapQ p r a' true q).pending.getD k = q.pending.getD k - (if a'.live = true then 0 else a'.pending.getD k) := by
  rw [swapQ_eq]
  have h0 := swapQ0_wf p r true q hq
  cases hlv : a'.live with
  | true =>
    simp only [if_true]
    rw [swapQ0_allocated p r q hq hwp hwr hle k, swapQ0_pending]; constructor <;> omega
  | false =>
    simp only [Bool.false_eq_true, if_false]
    rw [qLeave_allocated _ _ h0 ha hh k, swapQ0_allocated p r q hq hwp hwr hle k,
      qLeave_pending _ _ h0 hp (by rw [swapQ0_pending]; exact hge) k, swapQ0_pending]
    constructor <;> omega

/-! ### the placeholder's node after the confirmed swap -/

theorem nodeSwap_id (app : String) (p r : CItem) (n : CNode) : (nodeSwap app p r n).id = n.id := rfl

/-- node.ReplaceAllocation on the node that lists the placeholder -/
theorem nodeSwap_books (app : String) (p r : CItem) (m : CNode) (hm : NWF m) (hmb : NodeBooks m)
    (hwp : wf p.res = true) (hwr : wf r.res = true)
    (x : CNodeAlloc) (hx : x ∈ m.allocs) (hxk : x.key = p.key) (hxf : x.foreign = false)
    (hxr : ∀ k, x.res.getD k = p.res.getD k) : NodeBooks (nodeSwap app p r m) := by
  obtain ⟨_, ho, hma, hv⟩ := hm.nodeRes
  have hd : wf (subX r.res p.res) = true := subX_wf _ _ hwr
  constructor
  · intro k
    show (addX m.allocated (subX r.res p.res)).getD k = allocSum (m.allocs.filter (fun (y : CNodeAlloc) => y.key != p.key) ++ [_]) k
    rw [addX_getD _ _ hd, subX_getD _ _ hwp, allocSum_append, allocSum_rm _ hm.allocKeys p.key x hx hxk, hmb.allocated k, hxr k]
    simp [hxf, allocSum, sumIf_single]; omega
  · intro k
    show (prune (subX m.available (subX r.res p.res))).getD k =
      m.total.getD k - (addX m.allocated (subX r.res p.res)).getD k - m.occupied.getD k
    rw [prune_subX_getD _ _ hv hd, addX_getD _ _ hd, subX_getD _ _ hwp, hmb.available k]; omega

theorem nodeSwap_wf (app : String) (p r : CItem) (m : CNode) (hm : NWF m) (hwr : wf r.res = true)
    (hfresh : ∀ x ∈ m.allocs, x.key ≠ r.key) : NWF (nodeSwap app p r m) := by
  obtain ⟨ht, ho, hma, hv⟩ := hm.nodeRes
  refine ⟨?_, ⟨ht, ho, addX_wf _ _ hma, prune_wf _ (subX_wf _ _ hv)⟩, ?_⟩
  · show (m.allocs.filter (fun (y : CNodeAlloc) => y.key != p.key) ++ [_]).Pairwise _
    rw [List.pairwise_append]
    refine ⟨hm.allocKeys.filter _, List.pairwise_singleton _ _, ?_⟩
    intro x hx y hy
    rw [List.mem_singleton] at hy
    subst hy
    exact hfresh x (List.mem_filter.mp hx).1
  · intro x hx
    rcases List.mem_append.mp hx with h | h
    · exact hm.allocRes x (List.mem_filter.mp h).1
    · rw [List.mem_singleton] at h; subst h; exact hwr

/-! ### `swapConfirm` -/

/-- the state after the confirmed swap (application, node, queue chain, counter), before the placeholder's ask is
    removed -/
def swapMain (s : Core) (app phKey : String) (a : CApp) (p r : CItem) : Core :=
  let a' := replApp p r a
  let onNode := (s.findNode p.node).isSome
  let sA := updApp s app (fun _ => a')
  let sN := if r.node == p.node then updNode sA p.node (nodeSwap app p r) else updNode sA p.node (nodeRm phKey p.res)
  let sQ := updQueues sN (pathChain s a.queue) (swapQ p r a' onNode)
  { sQ with phAllocations := sQ.phAllocations - 1 }

/-- the main path of `swapConfirm`: `p` is the bound placeholder `phKey` of the live application `a`, linked to the real
    allocation `r` -/
structure SwapCase (s : Core) (app phKey : String) (a : CApp) (p r : CItem) : Prop where
  app : s.findApp app = some a
  item : a.items.find? (·.key == phKey) = some p
  isPh : (p.bound && p.ph) = true
  real : p.release.bind (findReal s a) = some r

theorem swapConfirm_main (s : Core) (app phKey : String) (a : CApp) (p r : CItem) (hc : SwapCase s app phKey a p r) :
    s.swapConfirm app phKey = askRemoveT (swapMain s app phKey a p r) app phKey (pathChain s a.queue) := by
  unfold swapConfirm
  simp only [hc.app, hc.item, hc.isPh, if_true, hc.real]
  rfl

theorem swapMain_lists (s : Core) (app phKey : String) (a : CApp) (p r : CItem) :
    (swapMain s app phKey a p r).apps = updApps s.apps app (fun _ => replApp p r a) ∧
    (swapMain s app phKey a p r).nodes =
      updNs s.nodes p.node (if (r.node == p.node) = true then nodeSwap app p r else nodeRm phKey p.res) ∧
    (swapMain s app phKey a p r).queues =
      updQs s.queues (pathChain s a.queue) (swapQ p r (replApp p r a) (s.findNode p.node).isSome) := by
  unfold swapMain
  refine ⟨?_, ?_, ?_⟩ <;> cases (r.node == p.node) <;> rfl

/-- The side conditions under which `swapConfirm` is the modelled confirmation of a placeholder swap. -/
structure SwapOK (s : Core) (app phKey : String) : Prop where
  /-- the placeholder is where the application says it is: if the item `phKey` names is a bound allocation, its node is
      registered and lists it (non-foreign, same size).  Needed on both paths: the fallback path is a plain release
      (`releaseKeyT_props`), on the main path node.ReplaceAllocation / node.RemoveAllocation and the queue update are
      skipped by the implementation when the node is unknown (`swapConfirm_books_refuted_without_node`). -/
  rel : ReleaseOK s app phKey
  /-- the linked real allocation can enter application.allocations: it is another item than the placeholder, not a
      placeholder itself, allocated (by `swapStart`) and not bound yet; it is an item of the application or (its ask was
      dropped while the swap was in flight) unknown to it -/
  repl : ∀ a p r, SwapCase s app phKey a p r → ReplOK a p r
  /-- the real allocation is not larger than the placeholder — the guard of tryPlaceholderAllocate (`swap_guard_iff` in
      YkProofs/Reserve.lean).  The queue is only ever given back the difference, it is never charged one. -/
  notLarger : ∀ a p r, SwapCase s app phKey a p r → ∀ k, r.res.getD k ≤ p.res.getD k
  /-- same-node swap: the node does not list the real allocation yet (node.allocations is a map) -/
  fresh : ∀ a p r, SwapCase s app phKey a p r → r.node = p.node →
    ∀ n, s.findNode p.node = some n → ∀ x ∈ n.allocs, x.key ≠ r.key

theorem books_swapMain (s : Core) (app phKey : String) (a : CApp) (p r : CItem) (hw : CoreWF s) (hb : Books s)
    (hok : SwapOK s app phKey) (hc : SwapCase s app phKey a p r) : Books (swapMain s app phKey a p r) := by
  obtain ⟨ham, hl, hid⟩ := findApp_some hc.app
  obtain ⟨him, hkey⟩ := find_key_some hc.item
  have hbp := hc.isPh
  simp only [Bool.and_eq_true] at hbp
  obtain ⟨n, hn, x, hxm, hxk, hxf, hxr⟩ := hok.rel.onNode a p hc.app hc.item hbp.1
  obtain ⟨hnm, hnid⟩ := findNode_some hn
  have hrepl := hok.repl a p r hc
  have hle := hok.notLarger a p r hc
  have hwa := hw.app ham hl
  obtain ⟨hwp, hwal, hwh⟩ := hwa.appRes
  obtain ⟨hwpr, hnnp⟩ := hwa.itemRes p him
  obtain ⟨hwrr, hnnr⟩ := hrepl.rRes
  have hba := hb.apps a ham hl
  obtain ⟨hta, htn, htq⟩ := swapMain_lists s app phKey a p r
  rw [hn] at htq
  have hnodes : ∀ m ∈ (swapMain s app phKey a p r).nodes, NodeBooks m := by
    rw [htn]
    apply books_upd_nodes _ _ _ hb.nodes
    intro m hm hmid hmb
    have : m = n := nodeIds_eq hw hnm hm (hmid.trans hnid.symm)
    subst this
    split
    · exact nodeSwap_books app p r m (hw.node hm) hmb hwpr hwrr x hxm (hxk.trans hkey.symm) hxf hxr
    · exact nodeRm_books phKey p.res m (hw.node hm) hmb hwpr x hxm hxk hxf hxr
  have hwa' := appWF_replApp a p r hwa hrepl
  obtain ⟨hwp', hwal', hwh'⟩ := hwa'.appRes
  refine books_upd s _ app a _ (pathChain s a.queue) _ hta htq hnodes hw.appIds ham hl hid hb.apps hb.queues
    (replApp_queue p r a) (fun _ => appBooks_replApp a p r hba hwa hrepl) (chain_iff s a.queue) (swapQ_path p r _ true) ?_
  intro q hq hun k
  have hge := fun k' => app_pending_ge s.apps (fun y hy hyl j hj => (hw.itemRes y hy hyl j hj).2) hb.apps a ham hl q
    (hb.queues q hq) hun k'
  obtain ⟨e1, e2⟩ := swapQ_getD p r (replApp p r a) q (hw.queue hq) hwpr hwrr hle hwal' hwh' hwp'
    (by rw [replApp_pending]; exact hge) k
  show (swapQ p r (replApp p r a) true q).allocated.getD k = _ ∧ (swapQ p r (replApp p r a) true q).pending.getD k = _
  rw [e1, e2]
  show _ = q.allocated.getD k - (a.allocated.getD k + a.allocatedPh.getD k)
      + (if (replApp p r a).live = true then (replApp p r a).allocated.getD k + (replApp p r a).allocatedPh.getD k else 0) ∧
    _ = q.pending.getD k - a.pending.getD k + (if (replApp p r a).live = true then (replApp p r a).pending.getD k else 0)
  rw [replApp_allocated, replApp_allocatedPh, replApp_pending]
  cases hlv : (replApp p r a).live <;>
    simp only [Bool.false_eq_true, if_false, if_true, prune_subX_getD _ _ hwh hwpr, addX_getD _ _ hwrr] <;> omega

theorem wf_swapMain (s : Core) (app phKey : String) (a : CApp) (p r : CItem) (hw : CoreWF s)
    (hok : SwapOK s app phKey) (hc : SwapCase s app phKey a p r) : CoreWF (swapMain s app phKey a p r) := by
  obtain ⟨ham, hl, hid⟩ := findApp_some hc.app
  have hrepl := hok.repl a p r hc
  obtain ⟨hta, htn, htq⟩ := swapMain_lists s app phKey a p r
  obtain ⟨h1, h2⟩ := wf_updApps s.apps app (fun _ => replApp p r a) a hw.appIds ham hl hid (fun x hx hxl => hw.app hx hxl)
    (const_id (by rw [replApp_id, hid])) (fun _ => appWF_replApp a p r (hw.app ham hl) hrepl)
  have h3 := wf_updQs s.queues (pathChain s a.queue) (swapQ p r (replApp p r a) (s.findNode p.node).isSome)
    (fun q hq => hw.queue hq) (fun q hq _ => swapQ_wf _ _ _ _ q (hw.queue hq))
  obtain ⟨h4, h5⟩ := wf_updNs s.nodes p.node (if (r.node == p.node) = true then nodeSwap app p r else nodeRm phKey p.res)
    hw.nodeIds (fun n hn => hw.node hn) (fun n => by split <;> rfl)
    (fun n hn hnid => by
      split
      · rename_i hsame
        exact nodeSwap_wf app p r n (hw.node hn) hrepl.rRes.1
          (hok.fresh a p r hc (by simpa using hsame) n (by rw [← hnid]; exact findNode_of_mem hw hn))
      · exact nodeRm_wf phKey p.res n (hw.node hn))
  exact CoreWF.of_parts (by rw [hta]; exact h1) (by rw [htn]; exact h4) (by rw [hta]; exact h2) (by rw [htq]; exact h3)
    (by rw [htn]; exact h5)

/-- partition.removeAllocation(app, phKey, PLACEHOLDER_REPLACED) keeps the books and the well-formedness of the state.
    The application may leave the partition in this step (Failing → Failed). -/
theorem swapConfirm_props (s : Core) (app phKey : String) (hw : CoreWF s) (hb : Books s) (hok : SwapOK s app phKey) :
    Books (s.swapConfirm app phKey) ∧ CoreWF (s.swapConfirm app phKey) := by
  cases hfind : s.findApp app with
  | none => unfold swapConfirm; simp only [hfind]; exact ⟨hb, hw⟩
  | some a =>
    cases hitem : a.items.find? (·.key == phKey) with
    | none => unfold swapConfirm; simp only [hfind, hitem]; exact ⟨hb, hw⟩
    | some p =>
      cases hreal : (if (p.bound && p.ph) = true then p.release else none).bind (findReal s a) with
      | none =>
        have : s.swapConfirm app phKey = releaseKeyT s .replaced app phKey := by
          unfold swapConfirm; simp only [hfind, hitem, hreal]
        rw [this]
        exact releaseKeyT_props s .replaced app phKey hw hb hok.rel
      | some r =>
        have hbp : (p.bound && p.ph) = true := by
          cases h : (p.bound && p.ph) with
          | true => rfl
          | false => rw [h] at hreal; simp at hreal
        rw [hbp] at hreal
        simp only [if_true] at hreal
        have hc : SwapCase s app phKey a p r := ⟨hfind, hitem, hbp, hreal⟩
        rw [swapConfirm_main s app phKey a p r hc]
        obtain ⟨hta, _, htq⟩ := swapMain_lists s app phKey a p r
        exact askRemoveT_props _ app phKey _ (wf_swapMain s app phKey a p r hw hok hc)
          (books_swapMain s app phKey a p r hw hb hok hc)
          (chain_after s _ app a _ _ _ hw hfind hta htq (replApp_queue p r a) (swapQ_path p r _ _))

/-! ### the shape of the state after `askRemoveT` and after the confirmed swap -/

theorem updApps_self (apps : List CApp) (id : String) : updApps apps id (fun a => a) = apps := by
  unfold updApps; simp

/-- updating the application twice, the first time by a constant -/
theorem updApps_const_comp (apps : List CApp) (id : String) (a' : CApp) (g : CApp → CApp) :
    updApps (updApps apps id (fun _ => a')) id g =
      updApps apps id (fun _ => if (a'.live && a'.id == id) = true then g a' else a') := by
  unfold updApps
  rw [List.map_map]
  apply List.map_congr_left
  intro y _
  by_cases hc : (y.live && y.id == id) = true
  · simp only [Function.comp, if_pos hc]
  · simp only [Function.comp, if_neg hc]

theorem askRemoveCore_lists (s1 : Core) (app key : String) (chain : List String) (x : CItem) :
    (askRemoveCore s1 app key chain x).apps = updApps s1.apps app (askAppT key x) ∧
    (askRemoveCore s1 app key chain x).nodes = s1.nodes ∧
    (askRemoveCore s1 app key chain x).queues =
      updQs s1.queues chain (fun q => if x.allocated = true then q else qDecPend x.res q) := by
  unfold askRemoveCore
  cases x.allocated with
  | true =>
    simp only [if_true]
    exact ⟨rfl, rfl, (updQs_id _ _).symm⟩
  | false => exact ⟨rfl, rfl, rfl⟩

/-- `askRemoveT` replaces the application by itself or by `askAppT key x` of it, maps the queues by a function that keeps
    path and allocated total, and the nodes by a function that keeps everything but the reservations -/
theorem askRemoveT_shape (s1 : Core) (app key : String) (chain : List String) :
    ∃ (fa : CApp → CApp) (gq : CQueue → CQueue) (gn : CNode → CNode),
      (fa = (fun a => a) ∨ ∃ x, fa = askAppT key x) ∧
      (∀ q, (gq q).path = q.path ∧ (gq q).allocated = q.allocated) ∧ NodeIrrel gn ∧
      (askRemoveT s1 app key chain).apps = updApps s1.apps app fa ∧
      (askRemoveT s1 app key chain).queues = s1.queues.map gq ∧
      (askRemoveT s1 app key chain).nodes = s1.nodes.map gn := by
  have hid : ∀ t : Core, t = s1 → ∃ (fa : CApp → CApp) (gq : CQueue → CQueue) (gn : CNode → CNode),
      (fa = (fun a => a) ∨ ∃ x, fa = askAppT key x) ∧
      (∀ q, (gq q).path = q.path ∧ (gq q).allocated = q.allocated) ∧ NodeIrrel gn ∧
      t.apps = updApps s1.apps app fa ∧ t.queues = s1.queues.map gq ∧ t.nodes = s1.nodes.map gn := by
    intro t ht
    subst ht
    exact ⟨fun a => a, fun q => q, fun n => n, Or.inl rfl, fun _ => ⟨rfl, rfl⟩, fun _ => ⟨rfl, rfl, rfl, rfl, rfl, rfl⟩,
      (updApps_self _ _).symm, by simp, by simp⟩
  cases hfind : s1.findApp app with
  | none => exact hid _ (by unfold askRemoveT; simp only [hfind])
  | some a1 =>
    cases hitem : a1.items.find? (fun x => x.key == key && x.inReq) with
    | none => exact hid _ (by unfold askRemoveT; simp only [hfind, hitem])
    | some x =>
      obtain ⟨gq, gn, hgq, hgn, e1, e2, e3⟩ := askRemoveT_eq s1 app key chain a1 x hfind hitem
      obtain ⟨c1, c2, c3⟩ := askRemoveCore_lists s1 app key chain x
      refine ⟨askAppT key x, fun q => gq (if chain.contains q.path = true then (if x.allocated = true then q else qDecPend x.res q) else q),
        gn, Or.inr ⟨x, rfl⟩, ?_, hgn, by rw [e1, c1], ?_, by rw [e3, c2]⟩
      · intro q
        obtain ⟨h1, h2, _⟩ := hgq (if chain.contains q.path = true then (if x.allocated = true then q else qDecPend x.res q) else q)
        rw [h1, h2]
        split
        · split <;> exact ⟨rfl, rfl⟩
        · exact ⟨rfl, rfl⟩
      · rw [e2, c3]
        unfold updQs
        rw [List.map_map]
        rfl

/-- the three lists after `swapConfirm` on its main path -/
theorem swapConfirm_shape (s : Core) (app phKey : String) (a : CApp) (p r : CItem) (hc : SwapCase s app phKey a p r) :
    ∃ (a1 : CApp) (gq : CQueue → CQueue) (gn : CNode → CNode),
      (a1 = replApp p r a ∨ ∃ x, a1 = askAppT phKey x (replApp p r a)) ∧
      (∀ q, (gq q).path = q.path ∧ (gq q).allocated = q.allocated) ∧ NodeIrrel gn ∧
      (s.swapConfirm app phKey).apps = updApps s.apps app (fun _ => a1) ∧
      (s.swapConfirm app phKey).queues = (swapMain s app phKey a p r).queues.map gq ∧
      (s.swapConfirm app phKey).nodes = (swapMain s app phKey a p r).nodes.map gn := by
  rw [swapConfirm_main s app phKey a p r hc]
  obtain ⟨fa, gq, gn, hfa, hgq, hgn, e1, e2, e3⟩ := askRemoveT_shape (swapMain s app phKey a p r) app phKey (pathChain s a.queue)
  obtain ⟨hta, _, _⟩ := swapMain_lists s app phKey a p r
  rw [hta, updApps_const_comp] at e1
  refine ⟨_, gq, gn, ?_, hgq, hgn, e1, e2, e3⟩
  split
  · rcases hfa with h | ⟨x, h⟩
    · left; rw [h]
    · right; exact ⟨x, by rw [h]⟩
  · left; rfl

/-! ### C06: after the confirmed swap the placeholder is gone and usage reflects the real allocation -/

/-- no item with the placeholder's key is bound after `replApp` -/
theorem replItems_unbound {p r : CItem} {l : List CItem} (hk : r.key ≠ p.key) {y : CItem} (hy : y ∈ replItems p r l)
    (hyk : y.key = p.key) : y.bound = false := by
  have h0 : ∀ y ∈ replItems0 p r l, y.key = p.key → y.bound = false := by
    intro y hy hyk
    unfold replItems0 at hy
    obtain ⟨hm, _⟩ := List.mem_filter.mp hy
    obtain ⟨z, hz, h | h⟩ := mem_updItem hm
    · obtain ⟨hzk, rfl⟩ := h
      exact absurd (hzk.symm.trans hyk) hk
    · obtain ⟨_, rfl⟩ := h
      obtain ⟨x, hx, h' | h'⟩ := mem_updItem hz
      · obtain ⟨_, rfl⟩ := h'; rfl
      · obtain ⟨hxk, rfl⟩ := h'; exact absurd hyk hxk
  unfold replItems at hy
  split at hy
  · exact h0 y hy hyk
  · rcases List.mem_append.mp hy with h | h
    · exact h0 y h hyk
    · rw [List.mem_singleton] at h
      rw [h] at hyk
      exact absurd hyk hk

/-- C06 (a): after the confirmed swap the record of the application lists no bound item with the placeholder's key, and
    the placeholder's node no longer lists the placeholder.  (About the state after `swapConfirm`, including the removal of
    the placeholder's ask.) -/
theorem swapConfirm_placeholder_gone (s : Core) (app phKey : String) (a : CApp) (p r : CItem)
    (hok : SwapOK s app phKey) (hc : SwapCase s app phKey a p r) :
    (∃ a1, (s.swapConfirm app phKey).apps = updApps s.apps app (fun _ => a1) ∧
      ∀ x ∈ a1.items, x.key = phKey → x.bound = false) ∧
    (∀ n', (s.swapConfirm app phKey).findNode p.node = some n' → ∀ x ∈ n'.allocs, x.key ≠ phKey) := by
  obtain ⟨_, hkey⟩ := find_key_some hc.item
  have hrk := (hok.repl a p r hc).rKey
  obtain ⟨a1, gq, gn, ha1, _, hgn, e1, _, e3⟩ := swapConfirm_shape s app phKey a p r hc
  have hrepl : ∀ x ∈ (replApp p r a).items, x.key = phKey → x.bound = false := by
    intro x hx hxk
    rw [replApp_items] at hx
    exact replItems_unbound hrk hx (hxk.trans hkey.symm)
  constructor
  · refine ⟨a1, e1, ?_⟩
    rcases ha1 with h | ⟨x, h⟩
    · rw [h]; exact hrepl
    · rw [h]
      intro y hy hyk
      rw [askAppT_items] at hy
      obtain ⟨z, hz, hk, _, _, hbd⟩ := mem_askItems hy
      rw [hbd]; exact hrepl z hz (hk ▸ hyk)
  · intro n' hn' x hx
    obtain ⟨hn'm, hn'id⟩ := findNode_some hn'
    rw [e3, (swapMain_lists s app phKey a p r).2.1] at hn'm
    obtain ⟨m, hm, rfl⟩ := List.mem_map.mp hn'm
    obtain ⟨n0, hn0, rfl⟩ := List.mem_map.mp hm
    obtain ⟨hgid, hgal, _⟩ := hgn (if (n0.id == p.node) = true then (if (r.node == p.node) = true then nodeSwap app p r else nodeRm phKey p.res) n0 else n0)
    rw [hgal] at hx
    rw [hgid] at hn'id
    by_cases hd : (n0.id == p.node) = true
    · rw [if_pos hd] at hx
      split at hx
      · rcases List.mem_append.mp hx with h | h
        · have := (List.mem_filter.mp h).2
          rw [hkey] at this
          simpa using this
        · rw [List.mem_singleton] at h
          rw [h, ← hkey]; exact hrk
      · have := (List.mem_filter.mp hx).2
        simpa using this
    · rw [if_neg hd] at hn'id
      exact absurd (by simpa using hn'id) hd

/-- … in particular: while the application is in the partition none of its items with the placeholder's key is bound -/
theorem swapConfirm_placeholder_unbound (s : Core) (app phKey : String) (a : CApp) (p r : CItem) (hw : CoreWF s)
    (hok : SwapOK s app phKey) (hc : SwapCase s app phKey a p r) :
    ∀ a1, (s.swapConfirm app phKey).findApp app = some a1 → ∀ x ∈ a1.items, x.key = phKey → x.bound = false := by
  obtain ⟨ham, hl, hid⟩ := findApp_some hc.app
  obtain ⟨⟨a2, e1, h2⟩, _⟩ := swapConfirm_placeholder_gone s app phKey a p r hok hc
  intro a1 h1
  obtain ⟨h1m, h1l, h1id⟩ := findApp_some h1
  rw [e1] at h1m
  rcases mem_updApps hw.appIds ham hl hid h1m with h | ⟨_, hnd⟩
  · rw [h]; exact h2
  · exact absurd (by simp [h1l, h1id]) hnd

/-- C06 (b), node: the placeholder's node is charged the real allocation instead of the placeholder (same node) or no
    longer charged the placeholder (the real allocation lives on another node); never more than before.  (About the state
    after `swapConfirm`.) -/
theorem swapConfirm_node_usage (s : Core) (app phKey : String) (a : CApp) (p r : CItem) (hw : CoreWF s)
    (hok : SwapOK s app phKey) (hc : SwapCase s app phKey a p r) (n n' : CNode)
    (hn : s.findNode p.node = some n) (hn' : (s.swapConfirm app phKey).findNode p.node = some n') (k : String) :
    n'.allocated.getD k = n.allocated.getD k - p.res.getD k + (if r.node = p.node then r.res.getD k else 0) ∧
    n'.allocated.getD k ≤ n.allocated.getD k := by
  obtain ⟨ham, hl, _⟩ := findApp_some hc.app
  obtain ⟨him, _⟩ := find_key_some hc.item
  obtain ⟨hnm, hnid⟩ := findNode_some hn
  obtain ⟨hwpr, hnnp⟩ := (hw.app ham hl).itemRes p him
  obtain ⟨hwrr, _⟩ := (hok.repl a p r hc).rRes
  have hle := hok.notLarger a p r hc k
  have hp0 := nonNeg_getD hnnp k
  obtain ⟨_, _, hma, _⟩ := (hw.node hnm).nodeRes
  obtain ⟨_, _, gn, _, _, hgn, _, _, e3⟩ := swapConfirm_shape s app phKey a p r hc
  obtain ⟨hn'm, hn'id⟩ := findNode_some hn'
  rw [e3, (swapMain_lists s app phKey a p r).2.1] at hn'm
  obtain ⟨m, hm, rfl⟩ := List.mem_map.mp hn'm
  obtain ⟨n0, hn0, rfl⟩ := List.mem_map.mp hm
  obtain ⟨hgid, _, _, _, hgalloc, _⟩ := hgn (if (n0.id == p.node) = true then (if (r.node == p.node) = true then nodeSwap app p r else nodeRm phKey p.res) n0 else n0)
  rw [hgid] at hn'id
  rw [hgalloc]
  by_cases hd : (n0.id == p.node) = true
  · have : n0 = n := nodeIds_eq hw hnm hn0 ((by simpa using hd : n0.id = p.node).trans hnid.symm)
    subst this
    rw [if_pos hd]
    by_cases hsame : r.node = p.node
    · have hs : (r.node == p.node) = true := by simpa using hsame
      rw [if_pos hs, if_pos hsame]
      show (addX n0.allocated (subX r.res p.res)).getD k = _ ∧ (addX n0.allocated (subX r.res p.res)).getD k ≤ _
      rw [addX_getD _ _ (subX_wf _ _ hwrr), subX_getD _ _ hwpr]
      constructor <;> omega
    · have hs : ¬ (r.node == p.node) = true := by simpa using hsame
      rw [if_neg hs, if_neg hsame]
      show (prune (subX n0.allocated p.res)).getD k = _ ∧ (prune (subX n0.allocated p.res)).getD k ≤ _
      rw [prune_subX_getD _ _ hma hwpr]
      constructor <;> omega
  · rw [if_neg hd] at hn'id
    exact absurd (by simpa using hn'id) hd

/-- C06 (b), queues: while the application stays in the partition every queue on its chain is given back the size
    difference placeholder − real (nothing when they are equal), never charged; the other queues keep their totals.
    (About the state after `swapConfirm`; queue paths are not assumed unique, hence the statement about the list.) -/
theorem swapConfirm_queue_usage (s : Core) (app phKey : String) (a : CApp) (p r : CItem) (hw : CoreWF s)
    (hok : SwapOK s app phKey) (hc : SwapCase s app phKey a p r) (hlive : (replApp p r a).live = true) :
    ∃ F : CQueue → CQueue, (s.swapConfirm app phKey).queues = s.queues.map F ∧ ∀ q ∈ s.queues,
      (F q).path = q.path ∧
      (under a.queue q.path = true → ∀ k,
        (F q).allocated.getD k = q.allocated.getD k - (p.res.getD k - r.res.getD k) ∧
        (F q).allocated.getD k ≤ q.allocated.getD k) ∧
      (under a.queue q.path = false → (F q).allocated = q.allocated) := by
  obtain ⟨ham, hl, _⟩ := findApp_some hc.app
  obtain ⟨him, _⟩ := find_key_some hc.item
  have hbp := hc.isPh
  simp only [Bool.and_eq_true] at hbp
  obtain ⟨n, hn, _⟩ := hok.rel.onNode a p hc.app hc.item hbp.1
  obtain ⟨hwpr, _⟩ := (hw.app ham hl).itemRes p him
  obtain ⟨hwrr, _⟩ := (hok.repl a p r hc).rRes
  have hle := hok.notLarger a p r hc
  obtain ⟨_, gq, _, _, hgq, _, _, e2, _⟩ := swapConfirm_shape s app phKey a p r hc
  rw [(swapMain_lists s app phKey a p r).2.2, hn] at e2
  refine ⟨fun q => gq (if (pathChain s a.queue).contains q.path = true then swapQ p r (replApp p r a) true q else q), ?_, ?_⟩
  · rw [e2]; unfold updQs; rw [List.map_map]; rfl
  · intro q hq
    obtain ⟨h1, h2⟩ := hgq (if (pathChain s a.queue).contains q.path = true then swapQ p r (replApp p r a) true q else q)
    dsimp only
    rw [h1, h2]
    refine ⟨?_, ?_, ?_⟩
    · split
      · exact swapQ_path _ _ _ _ _
      · rfl
    · intro hun k
      rw [if_pos ((chain_iff s a.queue q hq).mpr hun), swapQ_eq, if_pos hlive, swapQ0_allocated p r q (hw.queue hq) hwpr hwrr hle k]
      have := hle k
      constructor <;> omega
    · intro hun
      have : ¬ (pathChain s a.queue).contains q.path = true := by
        intro h; rw [(chain_iff s a.queue q hq).mp h] at hun; cases hun
      rw [if_neg this]

/-! ### the placeholder's node must be registered: a concrete witness -/

/-- the bound placeholder (cpu 4); the node it names, `n0`, is not registered -/
def swapWPh : CItem :=
  { key := "ph", res := [("cpu", 4)], ph := true, tg := "tg", allocated := true, node := "n0", bound := true,
    inReq := true, released := true, preempted := false, release := some "real", reqNode := "" }

/-- the real ask it is linked to (cpu 2, same node), allocated by `swapStart` -/
def swapWReal : CItem :=
  { key := "real", res := [("cpu", 2)], ph := false, tg := "tg", allocated := true, node := "n0",
    bound := false, inReq := true, released := false, preempted := false, release := some "ph", reqNode := "" }

def swapWApp : CApp :=
  { id := "app", live := true, queue := "root", state := "Running", user := "u", pending := [], allocated := [],
    allocatedPh := [("cpu", 4)], phAsk := [("cpu", 4)], items := [swapWPh, swapWReal],
    reservations := [], phData := [("tg", 1, 0, 0)], log := ["Running"] }

/-- One node, the root queue, one application with a bound placeholder `ph` (cpu 4) linked to the allocated real ask
    `real` (cpu 2, same node).  The books balance — but the placeholder names a node (`n0`) the partition does not know. -/
def swapW : Core :=
  { nodes := [{ id := "n1", total := [("cpu", 10)], occupied := [], allocated := [("cpu", 4)], available := [("cpu", 6)],
                schedulable := true,
                allocs := [{ key := "ph", app := "app", res := [("cpu", 4)], foreign := false, ph := true }],
                reservations := [] }],
    queues := [{ path := "root", parent := none, leaf := true, managed := true, max := none, guaranteed := none,
                 allocated := [("cpu", 4)], pending := [], preempting := [], maxApps := 0, running := 1, allocating := [],
                 apps := ["app"], reserved := [] }],
    apps := [swapWApp],
    total := [("cpu", 10)], allocations := 1, phAllocations := 1, reservations := 0, foreign := [], users := [], groups := [] }

theorem getD_single (n : String) (v : Int) (k : String) : Res.getD [(n, v)] k = if k = n then v else 0 := by
  rw [getD_cons]; simp

theorem books_swapW : Books swapW := by
  refine ⟨?_, ?_, ?_⟩
  · intro a ha _
    simp only [swapW, List.mem_singleton] at ha
    subst ha
    refine ⟨?_, ?_, ?_⟩ <;> intro k <;> simp [swapWApp, swapWPh, swapWReal, itemSum, sumIf, getD_single]
  · intro q hq
    simp only [swapW, List.mem_singleton] at hq
    subst hq
    refine ⟨?_, ?_⟩ <;> intro k <;> simp [swapW, swapWApp, qsum, sumIf, under, getD_single]
  · intro n hn
    simp only [swapW, List.mem_singleton] at hn
    subst hn
    refine ⟨?_, ?_⟩ <;> intro k <;> simp [allocSum, sumIf, getD_single]
    split <;> omega

theorem wf_swapW : CoreWF swapW := by
  have hpp : ∀ p ∈ [("cpu", (4 : Int))], (0 : Int) ≤ p.2 := by
    intro p hp; simp only [List.mem_singleton] at hp; subst hp; decide
  have hpr : ∀ p ∈ [("cpu", (2 : Int))], (0 : Int) ≤ p.2 := by
    intro p hp; simp only [List.mem_singleton] at hp; subst hp; decide
  refine CoreWF.of_parts (List.pairwise_singleton _ _) (List.pairwise_singleton _ _) ?_ ?_ ?_
  · intro a ha _
    simp only [swapW, List.mem_singleton] at ha
    subst ha
    refine ⟨by decide, ⟨by decide, by decide, by decide⟩, ?_, ?_⟩
    · intro i hi
      simp only [swapWApp, List.mem_cons, List.not_mem_nil, or_false] at hi
      rcases hi with rfl | rfl
      · exact ⟨by decide, hpp⟩
      · exact ⟨by decide, hpr⟩
    · intro i hi
      simp only [swapWApp, List.mem_cons, List.not_mem_nil, or_false] at hi
      rcases hi with rfl | rfl <;> decide
  · intro q hq
    simp only [swapW, List.mem_singleton] at hq
    subst hq
    exact ⟨by decide, by decide, fun p hp => by cases hp⟩
  · intro n hn
    simp only [swapW, List.mem_singleton] at hn
    subst hn
    refine ⟨List.pairwise_singleton _ _, ⟨by decide, by decide, by decide, by decide⟩, ?_⟩
    intro x hx
    simp only [List.mem_singleton] at hx
    subst hx
    decide

/-- Without "the placeholder's node is registered" (`SwapOK.rel`) the confirmed swap breaks the books: in `swapW` the
    books balance, the placeholder `ph` is bound and linked to `real`, but its node `n0` is unknown; the implementation
    skips node.ReplaceAllocation and the queue update, the application is charged the real allocation (cpu 2) while the
    root queue still carries the placeholder (cpu 4).  The state is well-formed and every other condition of `SwapOK`
    holds (`ReplOK`, real ≤ placeholder; `fresh` is vacuous as the node is unknown): only `SwapOK.rel` fails. -/
theorem swapConfirm_books_refuted_without_node :
    CoreWF swapW ∧ Books swapW ∧
    (∃ a p r, SwapCase swapW "app" "ph" a p r ∧ swapW.findNode p.node = none ∧
      r.node = p.node ∧ (∀ k, r.res.getD k ≤ p.res.getD k) ∧ ReplOK a p r) ∧
    ¬ Books (swapW.swapConfirm "app" "ph") := by
  refine ⟨wf_swapW, books_swapW, ?_, ?_⟩
  · refine ⟨swapWApp, swapWPh, swapWReal, ⟨by decide, by decide, by decide, by decide⟩, by decide, by decide, ?_, ?_⟩
    · intro k; simp only [swapWPh, swapWReal, getD_single]; split <;> omega
    · exact ⟨by decide, by decide, by decide, by decide, by decide, by decide,
        ⟨by decide, fun x hx => by simp only [swapWReal, List.mem_singleton] at hx; subst hx; decide⟩, Or.inl ⟨by decide, by decide⟩⟩
  · intro hb
    have hq : ∀ q ∈ (swapW.swapConfirm "app" "ph").queues, q.allocated.getD "cpu" =
        qsum (swapW.swapConfirm "app" "ph").apps q.path (fun a => a.allocated.getD "cpu" + a.allocatedPh.getD "cpu") :=
      fun q hq => (hb.queues q hq).allocated "cpu"
    revert hq
    decide

end Yk
