/-
  Proofs for C19, node score: the usage shares of a node (a missing available entry = fully used), the score as the
  weighted mean of the shares (stated over `Rat`), and the order of the sorted node tree.
-/
import YkProofs.SortChildren
namespace Yk
open Res

/-- the value of a fraction -/
def Share.toRat (s : Share) : Rat := (s.num : Rat) / (s.den : Rat)

/-! ### usage shares -/

theorem usageShare_missing (avail : Res) (k : String) (t : Int) (h : get? avail k = none) :
    usageShare avail k t = ⟨t, t⟩ := by
  unfold usageShare; rw [getD_eq_get?, h]; simp

theorem usageShare_present (avail : Res) (k : String) (t v : Int) (h : get? avail k = some v) :
    usageShare avail k t = ⟨t - v, t⟩ := by
  unfold usageShare; rw [getD_eq_get?, h]; simp

/-- an explicit zero entry and a pruned entry give the same share -/
theorem usageShare_prune (avail : Res) (hw : wf avail = true) (k : String) (t : Int) :
    usageShare (prune avail) k t = usageShare avail k t := by
  unfold usageShare; rw [prune_getD avail hw k]

/-! ### the weighted sum as a rational number -/

theorem intCast_ne_zero_of_pos {d : Int} (h : 0 < d) : (d : Rat) ≠ 0 := by
  have : d ≠ 0 := by omega
  exact_mod_cast this

theorem fracAdd_toRat (acc : Share) (w t a : Int) (hd : 0 < acc.den) (ht : 0 < t) :
    (fracAdd acc ⟨w * (t - a), t⟩).toRat = acc.toRat + (w : Rat) * (1 - (a : Rat) / (t : Rat)) ∧
    0 < (fracAdd acc ⟨w * (t - a), t⟩).den := by
  have h1 := intCast_ne_zero_of_pos hd
  have h2 := intCast_ne_zero_of_pos ht
  refine ⟨?_, Int.mul_pos hd ht⟩
  unfold fracAdd Share.toRat
  simp only [Rat.intCast_add, Rat.intCast_mul, Rat.intCast_sub]
  grind

/-- Σ weight · (1 - available/total) over the weighted types -/
def ratUsageSum (avail : Res) (terms : List (Int × String × Int)) (init : Rat) : Rat :=
  terms.foldl (fun acc t => acc + (t.1 : Rat) * (1 - ((avail.getD t.2.1 : Int) : Rat) / (t.2.2 : Rat))) init

theorem weightedUsageSum_foldl (avail : Res) (terms : List (Int × String × Int)) (hpos : ∀ t ∈ terms, 0 < t.2.2)
    (acc : Share) (hd : 0 < acc.den) :
    (terms.foldl (fun (acc : Share) (t : Int × String × Int) =>
        fracAdd acc ⟨t.1 * (usageShare avail t.2.1 t.2.2).num, (usageShare avail t.2.1 t.2.2).den⟩) acc).toRat =
      ratUsageSum avail terms acc.toRat ∧
    0 < (terms.foldl (fun (acc : Share) (t : Int × String × Int) =>
        fracAdd acc ⟨t.1 * (usageShare avail t.2.1 t.2.2).num, (usageShare avail t.2.1 t.2.2).den⟩) acc).den := by
  induction terms generalizing acc with
  | nil => exact ⟨rfl, hd⟩
  | cons t rest ih =>
    simp only [List.foldl_cons, ratUsageSum]
    have ht := hpos t List.mem_cons_self
    obtain ⟨e, p⟩ := fracAdd_toRat acc t.1 t.2.2 (avail.getD t.2.1) hd ht
    have := ih (fun u hu => hpos u (List.mem_cons_of_mem _ hu)) _ p
    simp only [usageShare] at this ⊢
    rw [e] at this
    exact this

theorem sum_nonneg (l : List Int) (h : ∀ x ∈ l, 0 < x) (acc : Int) (ha : 0 ≤ acc) : 0 ≤ l.foldl (· + ·) acc ∧
    (l ≠ [] → 0 < l.foldl (· + ·) acc) := by
  induction l generalizing acc with
  | nil => exact ⟨ha, fun h => absurd rfl h⟩
  | cons x t ih =>
    simp only [List.foldl_cons]
    have hx := h x List.mem_cons_self
    have := ih (fun y hy => h y (List.mem_cons_of_mem _ hy)) (acc + x) (by omega)
    refine ⟨this.1, fun _ => ?_⟩
    by_cases ht : t = []
    · subst ht; simp; omega
    · exact this.2 ht

theorem nodeModelled_iff (weights : Res) (n : NodeKey) :
    nodeModelled weights n = true ↔ ∀ t ∈ weightedTypes weights n.cap, 0 < t.1 ∧ 0 < t.2.2 := by
  simp [nodeModelled]

/-- the total weight of a modelled node is positive unless it has no weighted type -/
theorem totalWeight_pos (weights : Res) (n : NodeKey) (hm : nodeModelled weights n = true)
    (h : ((weightedTypes weights n.cap).map (·.1)).foldl (· + ·) 0 ≠ 0) :
    0 < ((weightedTypes weights n.cap).map (·.1)).foldl (· + ·) 0 := by
  rw [nodeModelled_iff] at hm
  have hp : ∀ x ∈ (weightedTypes weights n.cap).map (·.1), 0 < x := by
    intro x hx
    obtain ⟨t, ht, rfl⟩ := List.mem_map.mp hx
    exact (hm t ht).1
  have := sum_nonneg _ hp 0 (Int.le_refl 0)
  by_cases he : (weightedTypes weights n.cap).map (·.1) = []
  · rw [he] at h; simp at h
  · exact this.2 he

theorem nodeUsage_den_pos (weights : Res) (n : NodeKey) (hm : nodeModelled weights n = true) :
    0 < (nodeUsage weights n).den := by
  unfold nodeUsage
  simp only
  split
  · decide
  next h =>
    have htw := totalWeight_pos weights n hm (by simpa using h)
    have hp : ∀ t ∈ weightedTypes weights n.cap, 0 < t.2.2 := fun t ht => ((nodeModelled_iff weights n).mp hm t ht).2
    have := (weightedUsageSum_foldl (nodeAvail n) _ hp ⟨0, 1⟩ (by decide)).2
    exact Int.mul_pos this htw

theorem nodeScore_den_pos (bin : Bool) (weights : Res) (n : NodeKey) (hm : nodeModelled weights n = true) :
    0 < (nodeScore bin weights n).den := by
  unfold nodeScore
  simp only
  split <;> exact nodeUsage_den_pos weights n hm

/-- the usage of a node is the weighted mean of its usage shares -/
theorem nodeUsage_toRat (weights : Res) (n : NodeKey) (hm : nodeModelled weights n = true)
    (h : ((weightedTypes weights n.cap).map (·.1)).foldl (· + ·) 0 ≠ 0) :
    (nodeUsage weights n).toRat =
      ratUsageSum (nodeAvail n) (weightedTypes weights n.cap) 0 /
        ((((weightedTypes weights n.cap).map (·.1)).foldl (· + ·) 0 : Int) : Rat) := by
  have htw := totalWeight_pos weights n hm h
  have hp : ∀ t ∈ weightedTypes weights n.cap, 0 < t.2.2 := fun t ht => ((nodeModelled_iff weights n).mp hm t ht).2
  obtain ⟨e, p⟩ := weightedUsageSum_foldl (nodeAvail n) _ hp ⟨0, 1⟩ (by decide)
  have h0 : (⟨0, 1⟩ : Share).toRat = 0 := by simp only [Share.toRat]; grind
  rw [h0] at e
  unfold nodeUsage
  simp only
  have hne : (((weightedTypes weights n.cap).map (·.1)).foldl (· + ·) 0 == 0) = false := by simpa using h
  rw [hne]
  simp only [Bool.false_eq_true, if_false]
  rw [← e]
  unfold weightedUsageSum Share.toRat
  simp only [Rat.intCast_mul]
  have h1 := intCast_ne_zero_of_pos p
  have h2 := intCast_ne_zero_of_pos htw
  unfold weightedUsageSum at h1
  grind

/-! ### the order of the node tree -/

/-- binpacking sorts by 1 - usage: ascending score is descending usage -/
theorem binpacking_score_lt (weights : Res) (a b : NodeKey) :
    shareLt (nodeScore true weights a) (nodeScore true weights b) = shareLt (nodeUsage weights b) (nodeUsage weights a) := by
  rw [Bool.eq_iff_iff, shareLt_iff, shareLt_iff]
  simp only [nodeScore, if_true]
  constructor <;> intro h <;> grind

theorem nodeBefore_iff (bin : Bool) (weights : Res) (a b : NodeKey) :
    nodeBefore bin weights a b = true ↔
      (shareLt (nodeScore bin weights a) (nodeScore bin weights b) = true ∨
       (shareEq (nodeScore bin weights a) (nodeScore bin weights b) = true ∧ a.id < b.id)) := by
  simp [nodeBefore]

theorem nodeBefore_order_on (bin : Bool) (weights : Res) (L : List NodeKey) (hm : ∀ n ∈ L, nodeModelled weights n = true) :
    (∀ a ∈ L, nodeBefore bin weights a a = false) ∧
    (∀ a ∈ L, ∀ b ∈ L, ∀ c ∈ L, nodeBefore bin weights a b = true → nodeBefore bin weights b c = true →
      nodeBefore bin weights a c = true) := by
  refine ⟨fun a _ => ?_, fun a ha b hb c hc h1 h2 => ?_⟩
  · rw [← Bool.not_eq_true, nodeBefore_iff]
    simp [shareLt_irrefl, String.lt_irrefl]
  · have da := nodeScore_den_pos bin weights a (hm a ha)
    have db := nodeScore_den_pos bin weights b (hm b hb)
    have dc := nodeScore_den_pos bin weights c (hm c hc)
    rw [nodeBefore_iff] at *
    exact lex_trans_at
      (fun x y => shareLt (nodeScore bin weights x) (nodeScore bin weights y) = true)
      (fun x y => shareEq (nodeScore bin weights x) (nodeScore bin weights y) = true)
      (fun x y => x.id < y.id) a b c
      (shareLt_trans da db dc) (shareLt_of_lt_eq da db dc) (shareLt_of_eq_lt da db dc) (shareEq_trans da db dc)
      (fun _ _ => String.lt_trans) h1 h2

end Yk
