/-
  The life-cycle theorems on the concrete example histories (non-vacuity of YkProps/C06.lean, YkProps/C10.lean).
-/
import YkProofs.Core2LifeRun
import YkProofs.Core2LifeE
namespace Yk
open Res Core

/-- executable form of `Op.okLife` -/
def Op.okLifeb : Op → Bool
  | .appAdd a _ => match a with | none => true | some x => !(terminated x.state)
  | .phTimeout _ ev => ev == none || ev == some "Failing" || ev == some "Resuming"
  | _ => true

theorem okLife_of_b (op : Op) (h : op.okLifeb = true) : op.okLife := by
  cases op with
  | appAdd a nq =>
    intro x hx
    subst hx
    simpa [Op.okLifeb] using h
  | phTimeout app ev =>
    simp only [Op.okLifeb, Bool.or_eq_true, beq_iff_eq] at h
    rcases h with (h | h) | h
    · exact Or.inl h
    · exact Or.inr (Or.inl h)
    · exact Or.inr (Or.inr h)
  | _ => trivial

/-- `Op.okLife` does not depend on the state: a history that meets `RunOK2` and whose operations all meet it -/
theorem runLifeOK_of (s : Core) (ops : List Op) (h2 : RunOK2 s ops) (hl : ops.all Op.okLifeb = true) : RunLifeOK s ops := by
  induction ops generalizing s with
  | nil => trivial
  | cons op t ih =>
    simp only [List.all_cons, Bool.and_eq_true] at hl
    exact ⟨⟨h2.1, okLife_of_b op hl.1⟩, ih (op.apply s) h2.2 hl.2⟩

namespace Example

theorem coreInv_ex0 : CoreInv ex0 := ⟨wf_ex0, books_ex0, linked_ex0, lifeInv_ex0⟩

theorem exOps_life : RunLifeOK ex0 exOps := runLifeOK_of _ _ exOps_ok2 (by decide)
theorem exOps2_life : RunLifeOK ex0 exOps2 := runLifeOK_of _ _ exOps2_ok2 (by decide)
theorem exOps3_life : RunLifeOK ex0 exOps3 := runLifeOK_of _ _ exOps3_ok2 (by decide)
theorem exOpsC10b_life : RunLifeOK ex0 exOpsC10b := runLifeOK_of _ _ exOpsC10b_ok2 (by decide)

/-- no node removal of `exOps` rolls back a swap (its only removal hits an empty node) -/
theorem exOps_noRollback : RunNoRollback ex0 exOps := by
  refine ⟨trivial, trivial, trivial, trivial, trivial, trivial, trivial, trivial, ?_, trivial⟩
  intro n hn p hp
  have hnn : n.allocs = [] ∧ n.reservations = [] := by
    have h : (run ex0 (exOps.take 8)).findNode "n1" = some n := hn
    have e : ((run ex0 (exOps.take 8)).findNode "n1").map (fun n => (n.allocs, n.reservations)) = some ([], []) := by
      decide +kernel
    rw [h] at e
    simp only [Option.map_some, Option.some.injEq, Prod.mk.injEq] at e
    exact e
  simp only [nodeRest, hnn.1, List.filter_nil, List.map_nil, List.nil_append, List.not_mem_nil] at hp

end Example
end Yk
