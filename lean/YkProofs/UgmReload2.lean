/- Reload, continued: internalProcessConfig on both sides of the manager; the resets of clearEarlierSetLimits. -/
import YkProofs.UgmReload
namespace Yk.Ugm
open Yk Yk.Res Yk.QTree

def utree (m : Mgr) (u : String) : Option Tree := (aget m.users u).map (·.qt)
def gtree (m : Mgr) (g : String) : Option Tree := (aget m.groups g).map (·.qt)

theorem utree_setUserLimits (m : Mgr) (u : String) (lc : Limit) (p : Path) (u' : String) :
    utree (setUserLimits m u lc p) u' =
      if u = u' then some (setLimit m.userWild true ((utree m u').getD (newTree m.userWild true)) p lc.maxRes lc.maxApps false false)
      else utree m u' := by
  unfold utree setUserLimits
  rw [aget_updUser, aget_ensureUser]
  by_cases e : u = u'
  · subst e
    cases aget m.users u with
    | none => simp [newUT]
    | some ut => simp
  · cases hh : aget m.users u' <;> simp [e]

theorem gtree_setGroupLimits (m : Mgr) (g : String) (lc : Limit) (p : Path) (g' : String) :
    gtree (setGroupLimits m g lc p) g' =
      if g = g' then some (setLimit [] false ((gtree m g').getD (newTree [] false)) p lc.maxRes lc.maxApps false false)
      else gtree m g' := by
  unfold gtree
  rw [aget_setGroupLimits]
  by_cases e : g = g'
  · subst e
    cases aget m.groups g with
    | none => simp [newGT]
    | some gt => simp
  · simp [e]

theorem utree_setGroupLimits (m : Mgr) (g : String) (lc : Limit) (p : Path) (u : String) :
    utree (setGroupLimits m g lc p) u = utree m u := by unfold utree; rw [users_setGroupLimits]

theorem groups_setUserLimits (m : Mgr) (u : String) (lc : Limit) (p : Path) : (setUserLimits m u lc p).groups = m.groups := by
  unfold setUserLimits updUser ensureUser; split <;> rfl

theorem gtree_setUserLimits (m : Mgr) (u : String) (lc : Limit) (p : Path) (g : String) :
    gtree (setUserLimits m u lc p) g = gtree m g := by unfold gtree; rw [groups_setUserLimits]

/-- the trackers are in step with the active configuration: every queue tracker holds no limit, the wildcard limit of
    its queue or the limit its user / group is named with there; named queues are reachable from the root -/
structure Synced (m : Mgr) : Prop where
  us : Side m.userWild true m.userLimits (utree m) []
  gs : Side [] false m.groupLimits (gtree m) []
  wne : ∀ e ∈ m.userWild, e.1 ≠ []

/-- both sides while the new configuration is parsed -/
structure P1 (m0 : Mgr) (s : Mgr × NewCfg) : Prop where
  w : s.1.userWild = m0.userWild
  ul : s.1.userLimits = m0.userLimits
  gl : s.1.groupLimits = m0.groupLimits
  us : Side m0.userWild true m0.userLimits (utree s.1) s.2.userLimits
  gs : Side [] false m0.groupLimits (gtree s.1) s.2.groupLimits

theorem P1_init {m0 : Mgr} (h : Synced m0) : P1 m0 (m0, ({} : NewCfg)) := ⟨rfl, rfl, rfl, h.us, h.gs⟩

theorem cfg_setUserLimits (m : Mgr) (u : String) (lc : Limit) (p : Path) :
    (setUserLimits m u lc p).userWild = m.userWild ∧ (setUserLimits m u lc p).userLimits = m.userLimits ∧
    (setUserLimits m u lc p).groupLimits = m.groupLimits := by
  unfold setUserLimits updUser ensureUser; split <;> exact ⟨rfl, rfl, rfl⟩

theorem cfg_setGroupLimits (m : Mgr) (g : String) (lc : Limit) (p : Path) :
    (setGroupLimits m g lc p).userWild = m.userWild ∧ (setGroupLimits m g lc p).userLimits = m.userLimits ∧
    (setGroupLimits m g lc p).groupLimits = m.groupLimits := by
  unfold setGroupLimits updGroup ensureGroupT; split <;> exact ⟨rfl, rfl, rfl⟩

theorem P1_procUser {m0 : Mgr} {s : Mgr × NewCfg} (h : P1 m0 s) {p : Path} (hp : p ≠ []) (lc : Limit) (u : String) :
    P1 m0 (procUser p lc s u) := by
  unfold procUser
  split
  · exact h
  · split
    · exact ⟨h.w, h.ul, h.gl, h.us, h.gs⟩
    · obtain ⟨c1, c2, c3⟩ := cfg_setUserLimits s.1 u lc p
      refine ⟨by rw [c1]; exact h.w, by rw [c2]; exact h.ul, by rw [c3]; exact h.gl, ?_, ?_⟩
      · apply Side_congr (Side_set h.us u hp lc)
        intro u'
        show utree (setUserLimits s.1 u lc p) u' = _
        rw [utree_setUserLimits, h.w]
      · exact Side_congr h.gs (fun g => gtree_setUserLimits s.1 u lc p g)

theorem P1_procGroup {m0 : Mgr} {s : Mgr × NewCfg} (h : P1 m0 s) {p : Path} (hp : p ≠ []) (lc : Limit) (g : String) :
    P1 m0 (procGroup p lc s g) := by
  unfold procGroup
  split
  · exact h
  · simp only
    obtain ⟨c1, c2, c3⟩ := cfg_setGroupLimits s.1 g lc p
    have hfields : ∀ b : Bool,
        (if b = true then ({ s.2 with groupLimits := aset2 s.2.groupLimits p g lc, groupWild := aset s.2.groupWild p lc } : NewCfg)
          else { s.2 with groupLimits := aset2 s.2.groupLimits p g lc,
                          confGroups := aset s.2.confGroups p ((aget s.2.confGroups p).getD [] ++ [g]) }).groupLimits
          = aset2 s.2.groupLimits p g lc ∧
        (if b = true then ({ s.2 with groupLimits := aset2 s.2.groupLimits p g lc, groupWild := aset s.2.groupWild p lc } : NewCfg)
          else { s.2 with groupLimits := aset2 s.2.groupLimits p g lc,
                          confGroups := aset s.2.confGroups p ((aget s.2.confGroups p).getD [] ++ [g]) }).userLimits
          = s.2.userLimits := by
      intro b; cases b <;> exact ⟨rfl, rfl⟩
    obtain ⟨f1, f2⟩ := hfields (g == "*")
    refine ⟨by rw [c1]; exact h.w, by rw [c2]; exact h.ul, by rw [c3]; exact h.gl, ?_, ?_⟩
    · simp only; rw [f2]
      exact Side_congr h.us (fun u => utree_setGroupLimits s.1 g lc p u)
    · simp only; rw [f1]
      apply Side_congr (Side_set h.gs g hp lc)
      intro g'
      show gtree (setGroupLimits s.1 g lc p) g' = _
      rw [gtree_setGroupLimits]

theorem P1_processConfig {m0 : Mgr} (h : Synced m0) (c : Cfg) (hc : ∀ q ∈ c, q.1 ≠ []) : P1 m0 (processConfig m0 c) := by
  unfold processConfig
  apply foldl_preserves _ (P1 m0) c _ _ (P1_init h)
  intro s q hq hs
  apply foldl_preserves _ (P1 m0) _ _ _ hs
  intro s l _ hs
  unfold procEntry
  apply foldl_preserves _ (P1 m0) _ (fun s g _ hs => P1_procGroup hs (hc q hq) _ g)
  exact foldl_preserves _ (P1 m0) _ (fun s u _ hs => P1_procUser hs (hc q hq) _ u) _ hs

/-! ### clearEarlierSetLimits: one reset, seen on the tracker tree -/

/-- a change of the tree that keeps queues and limits (decreaseTrackedResourceUsageDownwards; or nothing) -/
structure PreOK (pre : Tree → Tree) : Prop where
  nd : ∀ t, KeysNodup t → KeysNodup (pre t)
  get : ∀ t p, (aget (pre t) p).map triple = (aget t p).map triple

theorem PreOK_id : PreOK id := ⟨fun _ h => h, fun _ _ => rfl⟩

theorem PreOK.ahas {pre : Tree → Tree} (h : PreOK pre) (t : Tree) (p : Path) : ahas (pre t) p = ahas t p := by
  have := h.get t p
  rw [ahas_eq, ahas_eq]
  cases h1 : aget (pre t) p <;> cases h2 : aget t p <;> simp [h1, h2] at this ⊢

theorem PreOK.some {pre : Tree → Tree} (h : PreOK pre) {t : Tree} {p : Path} {n : Node} (hn : aget t p = some n) :
    ∃ n', aget (pre t) p = some n' ∧ triple n' = triple n := by
  have := h.get t p
  rw [hn] at this
  cases h1 : aget (pre t) p with
  | none => rw [h1] at this; cases this
  | some n' => rw [h1] at this; exact ⟨n', rfl, by simpa using this⟩

theorem PreOK.QA {pre : Tree → Tree} (h : PreOK pre) {t : Tree} {sv : Path → Triple → Prop} (hq : QA t sv) : QA (pre t) sv := by
  intro p n' hn'
  have := h.get t p
  rw [hn'] at this
  cases h2 : aget t p with
  | none => rw [h2] at this; cases this
  | some n => rw [h2] at this; simp only [Option.map_some, Option.some.injEq] at this; rw [this]; exact hq p n h2

/-- resetUserEarlierUsage / resetGroupEarlierUsage on the tree of the tracker: none = the tracker is removed -/
def resetTree (w : List (Path × Limit)) (b : Bool) (pre : Tree → Tree) (t : Tree) (pd : Path) : Option Tree :=
  if !tracked t pd then some t else
  if canBeRemoved (if unlinkRequired (setLimit w b (pre t) pd none 0 false false) pd
                   then unlink (setLimit w b (pre t) pd none 0 false false) pd else setLimit w b (pre t) pd none 0 false false)
  then none
  else some (if unlinkRequired (setLimit w b (pre t) pd none 0 false false) pd
             then unlink (setLimit w b (pre t) pd none 0 false false) pd else setLimit w b (pre t) pd none 0 false false)

theorem resetTree_cases {w : List (Path × Limit)} {b : Bool} {pre : Tree → Tree} {t t' : Tree} {pd : Path}
    (h : resetTree w b pre t pd = some t') :
    (tracked t pd = false ∧ t' = t) ∨
    (tracked t pd = true ∧ (t' = unlink (setLimit w b (pre t) pd none 0 false false) pd ∨ t' = setLimit w b (pre t) pd none 0 false false)) := by
  unfold resetTree at h
  by_cases htr : tracked t pd = true
  · right
    refine ⟨htr, ?_⟩
    simp only [htr, Bool.not_true, Bool.false_eq_true, if_false] at h
    by_cases hu : unlinkRequired (setLimit w b (pre t) pd none 0 false false) pd = true
    · simp only [hu, if_true] at h
      by_cases hc : canBeRemoved (unlink (setLimit w b (pre t) pd none 0 false false) pd) = true
      · simp [hc] at h
      · simp only [hc, Bool.false_eq_true, if_false, Option.some.injEq] at h; left; exact h.symm
    · simp only [hu, Bool.false_eq_true, if_false] at h
      by_cases hc : canBeRemoved (setLimit w b (pre t) pd none 0 false false) = true
      · simp [hc] at h
      · simp only [hc, Bool.false_eq_true, if_false, Option.some.injEq] at h; right; exact h.symm
  · left
    have htr' : tracked t pd = false := by simpa using htr
    simp only [htr', Bool.not_false, if_true, Option.some.injEq] at h
    exact ⟨htr', h.symm⟩

theorem limitedL_limited {lc : Limit} (h : (lc.maxApps == 0 && isZero lc.maxRes) = false) {n : Node} (ht : triple n = t3 lc) :
    limited n = true := by
  simp only [triple, t3, Prod.mk.injEq] at ht
  unfold limited; rw [ht.1, ht.2.1, h]; rfl

theorem not_canBeRemoved {t : Tree} {p : Path} {n : Node} (hn : aget t p = some n) (hl : limited n = true) (hr : p.take 1 = rootPath)
    (hp : ∀ p' ∈ prefixes p, ahas t p' = true) : canBeRemoved t = false := by
  unfold canBeRemoved
  have hroot := hp rootPath (rootPath_mem_prefixes hr)
  rw [ahas_eq] at hroot
  cases hh : aget t rootPath with
  | none => rw [hh] at hroot; cases hroot
  | some nr => exact not_removable_of_prot ⟨⟨n, hn, hl⟩, hp⟩ (rootPath_mem_prefixes hr) hh

theorem tracked_of_prefixes {t : Tree} {pd : Path} (h0 : pd ≠ []) (h : ∀ p' ∈ prefixes pd, ahas t p' = true) : tracked t pd = true := by
  unfold tracked
  have : pd.isEmpty = false := by cases pd with | nil => exact absurd rfl h0 | cons a b => rfl
  rw [this]
  simp only [Bool.not_false, Bool.true_and, List.all_eq_true]
  exact h

/-- the resets still to come -/
structure Side2 (w : List (Path × Limit)) (b : Bool) (Lold Lnew : List (Path × List (String × Limit))) (T : String → Option Tree)
    (todo : List (Path × String)) : Prop where
  nd : ∀ x t, T x = some t → KeysNodup t
  allow : ∀ x t, T x = some t →
    QA t (fun p τ => (aget2 Lnew p x).isSome = true ∨ τ = dflt ∨ WildT w p τ ∨ (NamedT Lold p x τ ∧ (p, x) ∈ todo))
  exact : ∀ x p lc, aget2 Lnew p x = some lc → ∃ t n, T x = some t ∧ aget t p = some n ∧ triple n = t3 lc ∧ ∀ p' ∈ prefixes p, ahas t p' = true
  pre : ∀ pd x, (pd, x) ∈ todo → ∀ t, T x = some t → ahas t pd = true → ∀ p' ∈ prefixes pd, ahas t p' = true
  ne : ∀ x t, T x = some t → ahas t [] = false

theorem mem_dropped {old new : List (Path × List (String × Limit))} {p : Path} {x : String} {lc : Limit}
    (h1 : aget2 old p x = some lc) (h2 : aget2 new p x = none) : (p, x) ∈ dropped old new := by
  unfold aget2 at h1
  cases ho : aget old p with
  | none => rw [ho] at h1; cases h1
  | some us =>
    rw [ho] at h1
    simp only at h1
    unfold dropped
    rw [List.mem_flatMap]
    refine ⟨(p, us), aget_mem ho, ?_⟩
    rw [List.mem_map]
    refine ⟨(x, lc), ?_, rfl⟩
    rw [List.mem_filter]
    exact ⟨aget_mem h1, by simp [h2]⟩

theorem Side2_init {w : List (Path × Limit)} {b : Bool} {Lold Lnew : List (Path × List (String × Limit))} {T : String → Option Tree}
    (h : Side w b Lold T Lnew) : Side2 w b Lold Lnew T (dropped Lold Lnew) := by
  have hold : ∀ pd x, (pd, x) ∈ dropped Lold Lnew → InOld Lold pd x := by
    intro pd x hm
    unfold dropped at hm
    rw [List.mem_flatMap] at hm
    obtain ⟨e, he, hm⟩ := hm
    rw [List.mem_map] at hm
    obtain ⟨ul, hul, heq⟩ := hm
    rw [List.mem_filter] at hul
    obtain ⟨e1, e2⟩ := e
    obtain ⟨u1, u2⟩ := ul
    simp only [Prod.mk.injEq] at heq
    obtain ⟨h1, h2⟩ := heq
    subst h1; subst h2
    exact ⟨e2, u2, he, hul.1⟩
  refine ⟨h.nd, ?_, h.exact, ?_, h.ne⟩
  · intro x t ht p n hn
    rcases h.allow x t ht p n hn with h1 | h1 | h1 | ⟨lc, h1, h2⟩
    · exact Or.inl h1
    · exact Or.inr (Or.inl h1)
    · exact Or.inr (Or.inr (Or.inl h1))
    · cases hnew : aget2 Lnew p x with
      | some l => left; rfl
      | none => right; right; right; exact ⟨⟨lc, h1, h2⟩, mem_dropped h1 hnew⟩
  · intro pd x hm t ht ha
    exact h.pre x t pd ht (hold pd x hm) ha

theorem ahas_ne_setLimit {t : Tree} (w : List (Path × Limit)) (b : Bool) (q : Path) (mr : ORes) (ma : Nat) (uw ck : Bool)
    (h : ahas t [] = false) : ahas (setLimit w b t q mr ma uw ck) [] = false := by
  rw [setLimit_ahas, ahas_eq, aget_ensurePath]
  rw [ahas_eq] at h
  cases hh : aget t [] with
  | some n => rw [hh] at h; cases h
  | none =>
    have : ([] : Path) ∉ prefixes q := by rw [mem_prefixes_iff]; exact fun x => x.1 rfl
    simp [this]

/-- one reset -/
theorem Side2_step {w : List (Path × Limit)} {b : Bool} {Lold Lnew : List (Path × List (String × Limit))} {T : String → Option Tree}
    {pd : Path} {x : String} {todo : List (Path × String)} (h : Side2 w b Lold Lnew T ((pd, x) :: todo))
    {pre : Tree → Tree} (hpre : PreOK pre)
    (hfresh : ∀ pd', (pd', x) ∉ todo)
    (hkeep : ∀ p lc, aget2 Lnew p x = some lc → pd.isPrefixOf p = false)
    (hproper : ∀ p lc, aget2 Lnew p x = some lc → p.take 1 = rootPath ∧ (lc.maxApps == 0 && isZero lc.maxRes) = false) :
    Side2 w b Lold Lnew (fun x' => if x = x' then (T x').bind (fun t => resetTree w b pre t pd) else T x') todo := by
  -- weakening of the allowed limits for the trackers of other names
  have hother : ∀ x', x ≠ x' → ∀ p τ,
      ((aget2 Lnew p x').isSome = true ∨ τ = dflt ∨ WildT w p τ ∨ (NamedT Lold p x' τ ∧ (p, x') ∈ (pd, x) :: todo)) →
      ((aget2 Lnew p x').isSome = true ∨ τ = dflt ∨ WildT w p τ ∨ (NamedT Lold p x' τ ∧ (p, x') ∈ todo)) := by
    intro x' hx p τ hs
    rcases hs with h1 | h1 | h1 | ⟨h1, h2⟩
    · exact Or.inl h1
    · exact Or.inr (Or.inl h1)
    · exact Or.inr (Or.inr (Or.inl h1))
    · rcases List.mem_cons.mp h2 with h2 | h2
      · exact absurd (Prod.mk.inj h2).2.symm hx
      · exact Or.inr (Or.inr (Or.inr ⟨h1, h2⟩))
  refine ⟨?_, ?_, ?_, ?_, ?_⟩
  · intro x' t' ht'
    by_cases e : x = x'
    · subst e
      simp only [if_true] at ht'
      cases hT : T x with
      | none => rw [hT] at ht'; cases ht'
      | some t =>
        rw [hT] at ht'
        simp only [Option.bind_some] at ht'
        have hnd1 := keysNodup_setLimit (hpre.nd t (h.nd x t hT)) w b pd none 0 false false
        rcases resetTree_cases ht' with ⟨_, e1⟩ | ⟨_, e1 | e1⟩
        · rw [e1]; exact h.nd x t hT
        · rw [e1]; exact keysNodup_unlink hnd1 pd
        · rw [e1]; exact hnd1
    · simp only [e, if_false] at ht'; exact h.nd x' t' ht'
  · intro x' t' ht'
    by_cases e : x = x'
    · subst e
      simp only [if_true] at ht'
      cases hT : T x with
      | none => rw [hT] at ht'; cases ht'
      | some t =>
        rw [hT] at ht'
        simp only [Option.bind_some] at ht'
        have hall := h.allow x t hT
        by_cases htr : tracked t pd = true
        · -- the limit of pd is cleared; what is left of the old named limits belongs to later resets
          have hq1 : QA (setLimit w b (pre t) pd none 0 false false)
              (fun p τ => (aget2 Lnew p x).isSome = true ∨ τ = dflt ∨ WildT w p τ ∨ (NamedT Lold p x τ ∧ (p, x) ∈ todo)) := by
            intro p n hn
            by_cases ep : pd = p
            · subst ep
              have hpd0 : pd ≠ [] := by
                intro e0; subst e0; unfold tracked at htr; simp at htr
              obtain ⟨n0, hn0, ht0⟩ := aget_setLimit_self (pre t) w b hpd0 none 0 false
              rw [hn0] at hn; cases hn
              right; left; exact ht0
            · unfold setLimit at hn
              rw [aget_amod] at hn
              simp only [ep, if_false] at hn
              rw [aget_ensurePath] at hn
              cases hh : aget (pre t) p with
              | some n0 =>
                rw [hh] at hn; cases hn
                rcases hpre.QA hall p n hh with h1 | h1 | h1 | ⟨h1, h2⟩
                · exact Or.inl h1
                · exact Or.inr (Or.inl h1)
                · exact Or.inr (Or.inr (Or.inl h1))
                · rcases List.mem_cons.mp h2 with h2 | h2
                  · exact absurd (Prod.mk.inj h2).1.symm ep
                  · exact Or.inr (Or.inr (Or.inr ⟨h1, h2⟩))
              | none =>
                rw [hh] at hn
                by_cases hm : p ∈ prefixes pd
                · simp only [hm, if_true, Option.some.injEq] at hn; subst hn
                  rcases newNode_triple w b p with h1 | h1
                  · exact Or.inr (Or.inl h1)
                  · exact Or.inr (Or.inr (Or.inl h1))
                · simp [hm] at hn
          have hnd1 := keysNodup_setLimit (hpre.nd t (h.nd x t hT)) w b pd none 0 false false
          rcases resetTree_cases ht' with ⟨e0, _⟩ | ⟨_, e1 | e1⟩
          · rw [htr] at e0; cases e0
          · rw [e1]; exact QA_unlink hq1 hnd1 pd
          · rw [e1]; exact hq1
        · -- not tracked: the queue has no tracker, nothing of the old limit is there
          have e1 : t' = t := by
            rcases resetTree_cases ht' with ⟨_, e1⟩ | ⟨e0, _⟩
            · exact e1
            · exact absurd e0 htr
          subst e1
          intro p n hn
          rcases hall p n hn with h1 | h1 | h1 | ⟨h1, h2⟩
          · exact Or.inl h1
          · exact Or.inr (Or.inl h1)
          · exact Or.inr (Or.inr (Or.inl h1))
          · rcases List.mem_cons.mp h2 with h2 | h2
            · exfalso
              have ep : p = pd := (Prod.mk.inj h2).1
              subst ep
              have hex : ahas t' p = true := by rw [ahas_eq, hn]; rfl
              have hp0 : p ≠ [] := by intro e0; subst e0; rw [h.ne x t' hT] at hex; cases hex
              exact htr (tracked_of_prefixes hp0 (h.pre p x List.mem_cons_self t' hT hex))
            · exact Or.inr (Or.inr (Or.inr ⟨h1, h2⟩))
    · simp only [e, if_false] at ht'
      exact QA_mono (h.allow x' t' ht') (hother x' e)
  · intro x' p lc hl
    obtain ⟨t, n, hT, hn, htn, hpp⟩ := h.exact x' p lc hl
    by_cases e : x = x'
    · subst e
      simp only [if_true, hT, Option.bind_some, resetTree]
      by_cases htr : tracked t pd = true
      · simp only [htr, Bool.not_true, Bool.false_eq_true, if_false]
        have hnotbelow := hkeep p lc hl
        have hne : pd ≠ p := by intro e0; subst e0; rw [isPrefixOf_refl] at hnotbelow; cases hnotbelow
        obtain ⟨n', hn', htn'⟩ := hpre.some hn
        have h1 : aget (setLimit w b (pre t) pd none 0 false false) p = some n' := aget_setLimit_other w b _ _ _ _ hne hn'
        have hp1 : ∀ p' ∈ prefixes p, ahas (setLimit w b (pre t) pd none 0 false false) p' = true := by
          intro p' hp'; apply ahas_setLimit_mono; rw [hpre.ahas]; exact hpp p' hp'
        -- after the possible unlink
        have h2 : ∃ t2, (if unlinkRequired (setLimit w b (pre t) pd none 0 false false) pd = true
              then unlink (setLimit w b (pre t) pd none 0 false false) pd else setLimit w b (pre t) pd none 0 false false) = t2 ∧
            aget t2 p = some n' ∧ ∀ p' ∈ prefixes p, ahas t2 p' = true := by
          split
          · refine ⟨_, rfl, aget_unlink_keep h1 hnotbelow, ?_⟩
            intro p' hp'
            have := hp1 p' hp'
            rw [ahas_eq] at this
            cases hx : aget (setLimit w b (pre t) pd none 0 false false) p' with
            | none => rw [hx] at this; cases this
            | some nx => rw [ahas_eq, aget_unlink_keep hx (not_below_of_prefix hnotbelow hp')]; rfl
          · exact ⟨_, rfl, h1, hp1⟩
        obtain ⟨t2, ht2, hg2, hp2⟩ := h2
        rw [ht2]
        have hlim : limited n' = true := limitedL_limited (hproper p lc hl).2 (htn'.trans htn)
        rw [not_canBeRemoved hg2 hlim (hproper p lc hl).1 hp2]
        simp only [Bool.false_eq_true, if_false]
        exact ⟨t2, n', rfl, hg2, htn'.trans htn, hp2⟩
      · simp only [htr, Bool.not_false, if_true]
        exact ⟨t, n, rfl, hn, htn, hpp⟩
    · exact ⟨t, n, by simp [e, hT], hn, htn, hpp⟩
  · intro pd' x' hm t' ht' ha
    have e : x ≠ x' := by intro e0; subst e0; exact hfresh pd' hm
    simp only [e, if_false] at ht'
    exact h.pre pd' x' (List.mem_cons_of_mem _ hm) t' ht' ha
  · intro x' t' ht'
    by_cases e : x = x'
    · subst e
      simp only [if_true] at ht'
      cases hT : T x with
      | none => rw [hT] at ht'; cases ht'
      | some t =>
        rw [hT] at ht'
        simp only [Option.bind_some] at ht'
        have hne1 : ahas (setLimit w b (pre t) pd none 0 false false) [] = false :=
          ahas_ne_setLimit w b pd none 0 false false (by rw [hpre.ahas]; exact h.ne x t hT)
        rcases resetTree_cases ht' with ⟨_, e1⟩ | ⟨_, e1 | e1⟩
        · rw [e1]; exact h.ne x t hT
        · rw [e1]
          cases hh : ahas (unlink (setLimit w b (pre t) pd none 0 false false) pd) [] with
          | false => rfl
          | true =>
            exfalso
            rw [ahas_eq] at hh
            cases hx : aget (unlink (setLimit w b (pre t) pd none 0 false false) pd) [] with
            | none => rw [hx] at hh; cases hh
            | some nx =>
              have := aget_unlink_sub (keysNodup_setLimit (hpre.nd t (h.nd x t hT)) w b pd none 0 false false) hx
              rw [ahas_eq, this] at hne1; cases hne1
        · rw [e1]; exact hne1
    · simp only [e, if_false] at ht'; exact h.ne x' t' ht'

theorem Side2_congr {w : List (Path × Limit)} {b : Bool} {Lold Lnew : List (Path × List (String × Limit))} {T T' : String → Option Tree}
    {todo : List (Path × String)} (h : Side2 w b Lold Lnew T todo) (e : ∀ x, T' x = T x) : Side2 w b Lold Lnew T' todo :=
  ⟨fun x t ht => h.nd x t (by rw [← e]; exact ht), fun x t ht => h.allow x t (by rw [← e]; exact ht),
   fun x p lc hl => by obtain ⟨t, n, h1, h2⟩ := h.exact x p lc hl; exact ⟨t, n, by rw [e]; exact h1, h2⟩,
   fun pd x hm t ht => h.pre pd x hm t (by rw [← e]; exact ht), fun x t ht => h.ne x t (by rw [← e]; exact ht)⟩

/-- all the resets of one side, for any state type whose step acts on the trackers as `resetTree` does -/
theorem Side2_fold {σ : Type} (T : σ → String → Option Tree) (stepσ : σ → Path × String → σ)
    {w : List (Path × Limit)} {b : Bool} {Lold Lnew : List (Path × List (String × Limit))} (pre : Path → Tree → Tree)
    (hpre : ∀ pd, PreOK (pre pd)) (I : σ → Prop) (hI : ∀ s d, I s → I (stepσ s d))
    (hstep : ∀ s pd x x', I s → T (stepσ s (pd, x)) x' = if x = x' then (T s x').bind (fun t => resetTree w b (pre pd) t pd) else T s x')
    (hproper : ∀ x p lc, aget2 Lnew p x = some lc → p.take 1 = rootPath ∧ (lc.maxApps == 0 && isZero lc.maxRes) = false) :
    ∀ (todo : List (Path × String)) (s : σ), I s → Side2 w b Lold Lnew (T s) todo → (todo.map (·.2)).Nodup →
      (∀ d ∈ todo, ∀ p lc, aget2 Lnew p d.2 = some lc → d.1.isPrefixOf p = false) →
      Side2 w b Lold Lnew (T (todo.foldl stepσ s)) [] := by
  intro todo
  induction todo with
  | nil => intro s _ h _ _; exact h
  | cons d todo ih =>
    intro s hs h hnd hkeep
    obtain ⟨pd, x⟩ := d
    rw [List.foldl_cons]
    rw [List.map_cons, List.nodup_cons] at hnd
    apply ih _ (hI s (pd, x) hs) _ hnd.2 (fun d hd => hkeep d (List.mem_cons_of_mem _ hd))
    apply Side2_congr (Side2_step h (hpre pd) ?_ (hkeep (pd, x) List.mem_cons_self) (hproper x))
    · intro x'; exact hstep s pd x x' hs
    · intro pd' hm
      exact hnd.1 (List.mem_map.mpr ⟨(pd', x), hm, rfl⟩)

/-! ### decreaseTrackedResourceUsageDownwards keeps queues and limits -/

theorem triple_resetNode (n : Node) : triple (resetNode n) = triple n := by
  unfold resetNode; split <;> rfl

theorem aget_map_keyfn (t : Tree) (F : Path → Node → Node) (p : Path) :
    aget (t.map (fun e => (e.1, F e.1 e.2))) p = (aget t p).map (F p) := by
  induction t with
  | nil => rfl
  | cons a t ih =>
    obtain ⟨a1, a2⟩ := a
    by_cases h : a1 = p
    · subst h; simp [aget]
    · simp [aget, h, ih]

def ddFn (t : Tree) (h : Path) (p : Path) (n : Node) : Node :=
  if p.isPrefixOf h then resetNode n else if h.isPrefixOf p && activeChain t h p then resetNode n else n

theorem decreaseDownwards_eq (t : Tree) (h : Path) :
    (decreaseDownwards t h).1 = t.map (fun e => (e.1, ddFn t h e.1 e.2)) := by
  unfold decreaseDownwards ddFn
  simp only
  apply List.map_congr_left
  intro e _
  split
  · rfl
  · split <;> rfl

theorem PreOK_decreaseDownwards (h : Path) : PreOK (fun t => (decreaseDownwards t h).1) := by
  constructor
  · intro t hk
    show KeysNodup (decreaseDownwards t h).1
    rw [decreaseDownwards_eq]
    unfold KeysNodup keys at hk ⊢
    have : (t.map (fun e => (e.1, ddFn t h e.1 e.2))).map Prod.fst = t.map Prod.fst := by
      rw [List.map_map]; apply List.map_congr_left; intro e _; rfl
    rw [this]; exact hk
  · intro t p
    show (aget (decreaseDownwards t h).1 p).map triple = (aget t p).map triple
    rw [decreaseDownwards_eq, aget_map_keyfn t (ddFn t h) p]
    cases aget t p with
    | none => rfl
    | some n =>
      simp only [Option.map_some, Option.some.injEq]
      unfold ddFn
      split
      · exact triple_resetNode n
      · split
        · exact triple_resetNode n
        · rfl

end Yk.Ugm
