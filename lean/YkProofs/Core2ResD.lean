/-
  C09 on the stepped Core model: the reservation invariant `ResInv` (YkProofs/Core2Res.lean) is preserved by the removal
  of a node (`nodeRemove`).  Between the fold that cancels the reservations on the node and the final drop of the node
  the node still lists its original reservations while the applications have forgotten them, so the invariant of the
  steps in between is `ResInv` "away from the node": `ResMid id l c` (the keys `l` of the node are still to be cancelled),
  `ResOff id c = ResMid id [] c`.
-/
import YkProofs.Core2Res
namespace Yk
open Res Core

namespace ResD

/-! ### lists -/

theorem lookup_of_mem {l : List (String × Nat)} (hn : (l.map (·.1)).Nodup) {k : String} {v : Nat} (h : (k, v) ∈ l) :
    l.lookup k = some v := by
  induction l with
  | nil => cases h
  | cons e t ih =>
    obtain ⟨j, w⟩ := e
    rw [List.map_cons, List.nodup_cons] at hn
    rcases List.mem_cons.mp h with he | ht
    · cases he
      simp
    · have hne : k ≠ j := by
        intro e; subst e
        exact hn.1 (List.mem_map.mpr ⟨(k, v), ht, rfl⟩)
      have hb : (k == j) = false := by simpa using hne
      rw [List.lookup_cons, hb]
      exact ih hn.2 ht

/-- queue.UnReserve: the count of application `i` goes down by one, the entry disappears at zero -/
abbrev decE (i : String) : String × Nat → Option (String × Nat) :=
  fun e => if e.1 == i then (if e.2 ≤ 1 then none else some (e.1, e.2 - 1)) else some e

theorem dec_cons_le (i : String) (w : Nat) (t : List (String × Nat)) (hw : w ≤ 1) :
    ((i, w) :: t).filterMap (decE i) = t.filterMap (decE i) := by
  rw [List.filterMap_cons]
  have : decE i (i, w) = none := by simp [decE, hw]
  rw [this]

theorem dec_cons_gt (i : String) (w : Nat) (t : List (String × Nat)) (hw : ¬ w ≤ 1) :
    ((i, w) :: t).filterMap (decE i) = (i, w - 1) :: t.filterMap (decE i) := by
  rw [List.filterMap_cons]
  have : decE i (i, w) = some (i, w - 1) := by simp [decE, hw]
  rw [this]

theorem dec_cons_ne (i a : String) (w : Nat) (t : List (String × Nat)) (ha : a ≠ i) :
    ((a, w) :: t).filterMap (decE i) = (a, w) :: t.filterMap (decE i) := by
  rw [List.filterMap_cons]
  have : decE i (a, w) = some (a, w) := by simp [decE, ha]
  rw [this]

theorem lookup_dec_ne (l : List (String × Nat)) (i j : String) (h : j ≠ i) :
    (l.filterMap (decE i)).lookup j = l.lookup j := by
  induction l with
  | nil => rfl
  | cons e t ih =>
    obtain ⟨a, w⟩ := e
    by_cases ha : a = i
    · subst ha
      have hja : (j == a) = false := by simpa using h
      by_cases hw : w ≤ 1
      · rw [dec_cons_le a w t hw, List.lookup_cons, hja]; exact ih
      · rw [dec_cons_gt a w t hw, List.lookup_cons, List.lookup_cons, hja]; exact ih
    · rw [dec_cons_ne i a w t ha, List.lookup_cons, List.lookup_cons, ih]

theorem dec_none_of_not_mem (l : List (String × Nat)) (i : String) (h : i ∉ l.map (·.1)) :
    (l.filterMap (decE i)).lookup i = none := by
  induction l with
  | nil => rfl
  | cons e t ih =>
    obtain ⟨a, w⟩ := e
    rw [List.map_cons, List.mem_cons, not_or] at h
    have hia : (i == a) = false := by simpa using h.1
    rw [dec_cons_ne i a w t (Ne.symm h.1), List.lookup_cons, hia]
    exact ih h.2

theorem lookup_dec_self (l : List (String × Nat)) (i : String) (hn : (l.map (·.1)).Nodup) :
    ((l.filterMap (decE i)).lookup i).getD 0 = (l.lookup i).getD 0 - 1 := by
  induction l with
  | nil => rfl
  | cons e t ih =>
    obtain ⟨a, w⟩ := e
    rw [List.map_cons, List.nodup_cons] at hn
    by_cases ha : a = i
    · subst ha
      have hia : (a == a) = true := by simp
      rw [List.lookup_cons, hia]
      by_cases hw : w ≤ 1
      · rw [dec_cons_le a w t hw, dec_none_of_not_mem t a hn.1]
        simp only [Option.getD_none, Option.getD_some]; omega
      · rw [dec_cons_gt a w t hw, List.lookup_cons, hia]
        simp only [Option.getD_some]
    · have hia : (i == a) = false := by simpa using (Ne.symm ha)
      rw [dec_cons_ne i a w t ha, List.lookup_cons, List.lookup_cons, hia]
      exact ih hn.2

theorem mem_dec {l : List (String × Nat)} {i : String} {r : String × Nat} (h : r ∈ l.filterMap (decE i)) :
    r ∈ l ∨ ∃ e ∈ l, e.1 = i ∧ r = (e.1, e.2 - 1) := by
  obtain ⟨e, he, hr⟩ := List.mem_filterMap.mp h
  by_cases ha : (e.1 == i) = true
  · by_cases hw : e.2 ≤ 1
    · simp [decE, ha, hw] at hr
    · simp only [decE, ha, if_true, hw, if_false] at hr
      right; exact ⟨e, he, by simpa using ha, (Option.some.inj hr).symm⟩
  · simp only [decE, ha, Bool.false_eq_true, if_false] at hr
    left; rw [← Option.some.inj hr]; exact he

theorem keys_dec_sublist (l : List (String × Nat)) (i : String) :
    ((l.filterMap (decE i)).map (·.1)).Sublist (l.map (·.1)) := by
  induction l with
  | nil => exact List.Sublist.slnil
  | cons e t ih =>
    obtain ⟨a, w⟩ := e
    by_cases ha : a = i
    · subst ha
      by_cases hw : w ≤ 1
      · rw [dec_cons_le a w t hw]; exact List.Sublist.cons _ ih
      · rw [dec_cons_gt a w t hw, List.map_cons, List.map_cons]; exact List.Sublist.cons_cons _ ih
    · rw [dec_cons_ne i a w t ha, List.map_cons, List.map_cons]; exact List.Sublist.cons_cons _ ih

theorem nodup_of_map {α β : Type} (f : α → β) {l : List α} (h : (l.map f).Nodup) : l.Nodup := by
  unfold List.Nodup at h ⊢
  rw [List.pairwise_map] at h
  exact h.imp (fun hne e => hne (congrArg f e))

theorem length_filter_ne (l : List (String × String)) (r : String × String) (hn : l.Nodup) (h : r ∈ l) :
    (l.filter (· != r)).length + 1 = l.length := by
  induction l with
  | nil => cases h
  | cons e t ih =>
    rw [List.nodup_cons] at hn
    rw [List.filter_cons]
    by_cases he : e = r
    · subst he
      have : (e != e) = false := by simp
      rw [this]
      simp only [Bool.false_eq_true, if_false, List.length_cons]
      have : t.filter (· != e) = t := by
        rw [List.filter_eq_self]
        intro x hx
        have : x ≠ e := fun hxe => hn.1 (hxe ▸ hx)
        simpa using this
      rw [this]
    · have hne : (e != r) = true := by simpa using he
      rw [hne]
      simp only [if_true, List.length_cons]
      rcases List.mem_cons.mp h with h1 | h1
      · exact absurd h1.symm he
      · rw [ih hn.2 h1]

/-! ### the invariant away from the node that is being removed -/

/-- the states in which an application holds no reservation (`ResInv.quiet`) -/
def Bad (st : String) : Prop := st = "Failing" ∨ st = "Completing" ∨ terminated st = true

/-- `ResInv` while node `id` is being removed and the reservations `l` of the node are still to be cancelled: the
    node-side clauses only speak about the other nodes; a reservation of an application on node `id` is one of `l`, and
    every key of `l` is still reserved by some application (`todo`).  (`queueNone` / `queueCount` are the two halves of
    `ResInv.queueCount`.) -/
structure ResMid (id : String) (l : List String) (c : Core) : Prop where
  appNode : ∀ a ∈ c.apps, a.live = true → ∀ r ∈ a.reservations,
    (r.2 = id → r.1 ∈ l) ∧ (r.2 ≠ id → ∃ n, c.findNode r.2 = some n ∧ r.1 ∈ n.reservations)
  todo : ∀ k ∈ l, ∃ a ∈ c.apps, a.live = true ∧ (k, id) ∈ a.reservations
  todoKeys : l.Nodup
  outstanding : ∀ a ∈ c.apps, a.live = true → ∀ r ∈ a.reservations, ∃ i ∈ a.items, i.key = r.1 ∧ i.outstanding = true
  onePerAsk : ∀ a ∈ c.apps, a.live = true → (a.reservations.map (·.1)).Nodup
  nodeApp : ∀ n ∈ c.nodes, n.id ≠ id → ∀ k ∈ n.reservations, ∃ a ∈ c.apps, a.live = true ∧ (k, n.id) ∈ a.reservations
  nodeKeys : ∀ n ∈ c.nodes, n.id ≠ id → n.reservations.Nodup
  owner : ∀ a ∈ c.apps, ∀ b ∈ c.apps, a.live = true → b.live = true → ∀ r, r ∈ a.reservations → r ∈ b.reservations → a.id = b.id
  queueNone : ∀ a ∈ c.apps, a.live = true → (∀ q ∈ c.queues, q.path ≠ a.queue) → a.reservations = []
  queueCount : ∀ a ∈ c.apps, a.live = true → ∀ q ∈ c.queues, q.path = a.queue →
    (q.reserved.lookup a.id).getD 0 = a.reservations.length
  queueKeys : ∀ q ∈ c.queues, (q.reserved.map (·.1)).Nodup
  queueApp : ∀ q ∈ c.queues, ∀ r ∈ q.reserved, r.2 = 0 ∨ ∃ a ∈ c.apps, a.live = true ∧ a.id = r.1 ∧ a.queue = q.path
  counter : resvTotal c ≤ c.reservations
  nodeExcl : ∀ n ∈ c.nodes, n.id ≠ id → (n.reservations.length ≤ 1 ∨
    ∀ k ∈ n.reservations, ∃ a ∈ c.apps, a.live = true ∧ (k, n.id) ∈ a.reservations ∧ ∃ i ∈ a.items, i.key = k ∧ i.reqNode = n.id)
  quiet : ∀ a ∈ c.apps, a.live = true → Bad a.state → a.reservations = []

end ResD

/-- `ResInv` away from node `id`: what holds from the end of the reservation fold of `nodeRemove` until the node is
    dropped.  No live application holds a reservation on `id` any more (`ResOff.noneOn`). -/
def ResOff (id : String) (c : Core) : Prop := ResD.ResMid id [] c

theorem ResOff.noneOn {id : String} {c : Core} (h : ResOff id c) :
    ∀ a ∈ c.apps, a.live = true → ∀ r ∈ a.reservations, r.2 ≠ id := by
  intro a ha hl r hr he
  cases (h.appNode a ha hl r hr).1 he

namespace ResD

/-- the two halves of `ResInv.queueCount` -/
theorem queueCount_split (s : Core) (a : CApp) :
    (match s.findQueue a.queue with
     | none => a.reservations = []
     | some _ => ∀ q ∈ s.queues, q.path = a.queue → (q.reserved.lookup a.id).getD 0 = a.reservations.length) ↔
    (((∀ q ∈ s.queues, q.path ≠ a.queue) → a.reservations = []) ∧
     ∀ q ∈ s.queues, q.path = a.queue → (q.reserved.lookup a.id).getD 0 = a.reservations.length) := by
  cases h : s.findQueue a.queue with
  | none =>
    have hno : ∀ q ∈ s.queues, q.path ≠ a.queue := by
      intro q hq
      unfold findQueue at h
      simpa using List.find?_eq_none.mp h q hq
    constructor
    · intro h1; exact ⟨fun _ => h1, fun q hq he => absurd he (hno q hq)⟩
    · intro h1; exact h1.1 hno
  | some q0 =>
    have hq0 : q0 ∈ s.queues ∧ q0.path = a.queue := by
      unfold findQueue at h
      exact ⟨List.mem_of_find?_eq_some h, by simpa using List.find?_some h⟩
    constructor
    · intro h1; exact ⟨fun hno => absurd hq0.2 (hno q0 hq0.1), h1⟩
    · intro h1; exact h1.2

/-! ### the number of reservations -/

theorem sum_live_map_le (l : List CApp) (h : CApp → CApp)
    (hh : ∀ x ∈ l, (h x).live = true → x.live = true ∧ (h x).reservations.length ≤ x.reservations.length) :
    (((l.map h).filter (·.live)).map (·.reservations.length)).sum ≤
      ((l.filter (·.live)).map (·.reservations.length)).sum := by
  induction l with
  | nil => simp
  | cons a t ih =>
    have iht := ih (fun x hx => hh x (List.mem_cons_of_mem _ hx))
    have ha := hh a List.mem_cons_self
    rw [List.map_cons, List.filter_cons, List.filter_cons]
    cases hl : (h a).live with
    | true =>
      obtain ⟨h1, h2⟩ := ha hl
      simp only [h1, if_true, List.map_cons, List.sum_cons]; omega
    | false =>
      simp only [Bool.false_eq_true, if_false]
      cases a.live with
      | true => simp only [if_true, List.map_cons, List.sum_cons]; omega
      | false => simp only [Bool.false_eq_true, if_false]; exact iht

theorem resvTotal_map_le {c t : Core} (h : CApp → CApp) (hta : t.apps = c.apps.map h)
    (hh : ∀ x ∈ c.apps, (h x).live = true → x.live = true ∧ (h x).reservations.length ≤ x.reservations.length) :
    resvTotal t ≤ resvTotal c := by
  unfold resvTotal liveApps
  rw [hta]
  exact sum_live_map_le c.apps h hh

/-! ### transport: the applications keep their reservations, the nodes and the queue counts are untouched -/

/-- the record `y` that replaces the application `x`: same id, queue and reservations; it stays in the partition unless
    it holds no reservation; its outstanding items survive; it only becomes quiet when it holds no reservation -/
structure AppKeep (x y : CApp) : Prop where
  id : y.id = x.id
  queue : y.queue = x.queue
  resv : y.reservations = x.reservations
  live : y.live = true → x.live = true
  stays : x.live = true → y.live = true ∨ x.reservations = []
  items : y.live = true → ∀ i ∈ x.items, i.outstanding = true →
    ∃ j ∈ y.items, j.key = i.key ∧ j.reqNode = i.reqNode ∧ j.outstanding = true
  quiet : y.live = true → Bad y.state → Bad x.state ∨ x.reservations = []

theorem AppKeep.refl (x : CApp) : AppKeep x x :=
  ⟨rfl, rfl, rfl, fun h => h, Or.inl, fun _ i hi ho => ⟨i, hi, rfl, rfl, ho⟩, fun _ h => Or.inl h⟩

theorem resMid_map {id : String} {l : List String} {c t : Core} (hw : CoreWF c) (h : CApp → CApp) (g : CQueue → CQueue)
    (hta : t.apps = c.apps.map h) (htq : t.queues = c.queues.map g) (htn : t.nodes = c.nodes)
    (htr : c.reservations ≤ t.reservations) (hh : ∀ x ∈ c.apps, AppKeep x (h x))
    (hg : ∀ q, (g q).path = q.path ∧ (g q).reserved = q.reserved) (hr : ResMid id l c) : ResMid id l t := by
  have hfn : ∀ k, t.findNode k = c.findNode k := by intro k; unfold findNode; rw [htn]
  -- a live application of `t` comes from a live application of `c`
  have hsrc : ∀ y ∈ t.apps, y.live = true → ∃ x ∈ c.apps, x.live = true ∧ y = h x := by
    intro y hy hl
    rw [hta] at hy
    obtain ⟨x, hx, rfl⟩ := List.mem_map.mp hy
    exact ⟨x, hx, (hh x hx).live hl, rfl⟩
  -- an application of `c` that holds a reservation is still there
  have hwit : ∀ b ∈ c.apps, b.live = true → ∀ r ∈ b.reservations,
      h b ∈ t.apps ∧ (h b).live = true ∧ r ∈ (h b).reservations := by
    intro b hb hl r hrb
    refine ⟨by rw [hta]; exact List.mem_map.mpr ⟨b, hb, rfl⟩, ?_, by rw [(hh b hb).resv]; exact hrb⟩
    rcases (hh b hb).stays hl with h1 | h1
    · exact h1
    · rw [h1] at hrb; cases hrb
  have hqsrc : ∀ q' ∈ t.queues, ∃ q ∈ c.queues, q' = g q := by
    intro q' hq'
    rw [htq] at hq'
    obtain ⟨q, hq, rfl⟩ := List.mem_map.mp hq'
    exact ⟨q, hq, rfl⟩
  refine ⟨?_, ?_, hr.todoKeys, ?_, ?_, ?_, ?_, ?_, ?_, ?_, ?_, ?_, ?_, ?_, ?_⟩
  · intro y hy hl r hry
    obtain ⟨x, hx, hxl, rfl⟩ := hsrc y hy hl
    rw [(hh x hx).resv] at hry
    obtain ⟨h1, h2⟩ := hr.appNode x hx hxl r hry
    exact ⟨h1, fun hne => by rw [hfn]; exact h2 hne⟩
  · intro k hk
    obtain ⟨b, hb, hbl, hbr⟩ := hr.todo k hk
    obtain ⟨w1, w2, w3⟩ := hwit b hb hbl _ hbr
    exact ⟨h b, w1, w2, w3⟩
  · intro y hy hl r hry
    obtain ⟨x, hx, hxl, rfl⟩ := hsrc y hy hl
    rw [(hh x hx).resv] at hry
    obtain ⟨i, hi, hik, hio⟩ := hr.outstanding x hx hxl r hry
    obtain ⟨j, hj, hjk, _, hjo⟩ := (hh x hx).items hl i hi hio
    exact ⟨j, hj, hjk.trans hik, hjo⟩
  · intro y hy hl
    obtain ⟨x, hx, hxl, rfl⟩ := hsrc y hy hl
    rw [(hh x hx).resv]; exact hr.onePerAsk x hx hxl
  · intro n hn hne k hk
    rw [htn] at hn
    obtain ⟨b, hb, hbl, hbr⟩ := hr.nodeApp n hn hne k hk
    obtain ⟨w1, w2, w3⟩ := hwit b hb hbl _ hbr
    exact ⟨h b, w1, w2, w3⟩
  · intro n hn hne
    rw [htn] at hn
    exact hr.nodeKeys n hn hne
  · intro y1 hy1 y2 hy2 hl1 hl2 r hr1 hr2
    obtain ⟨x1, hx1, hxl1, rfl⟩ := hsrc y1 hy1 hl1
    obtain ⟨x2, hx2, hxl2, rfl⟩ := hsrc y2 hy2 hl2
    rw [(hh x1 hx1).resv] at hr1
    rw [(hh x2 hx2).resv] at hr2
    rw [(hh x1 hx1).id, (hh x2 hx2).id]
    exact hr.owner x1 hx1 x2 hx2 hxl1 hxl2 r hr1 hr2
  · intro y hy hl hno
    obtain ⟨x, hx, hxl, rfl⟩ := hsrc y hy hl
    rw [(hh x hx).resv]
    apply hr.queueNone x hx hxl
    intro q hq he
    have hgq : g q ∈ t.queues := by rw [htq]; exact List.mem_map.mpr ⟨q, hq, rfl⟩
    exact hno (g q) hgq (by rw [(hg q).1, (hh x hx).queue]; exact he)
  · intro y hy hl q' hq' hp
    obtain ⟨x, hx, hxl, rfl⟩ := hsrc y hy hl
    obtain ⟨q, hq, rfl⟩ := hqsrc q' hq'
    rw [(hg q).1, (hh x hx).queue] at hp
    rw [(hg q).2, (hh x hx).id, (hh x hx).resv]
    exact hr.queueCount x hx hxl q hq hp
  · intro q' hq'
    obtain ⟨q, hq, rfl⟩ := hqsrc q' hq'
    rw [(hg q).2]; exact hr.queueKeys q hq
  · intro q' hq' r hrq
    obtain ⟨q, hq, rfl⟩ := hqsrc q' hq'
    rw [(hg q).2] at hrq
    rcases hr.queueApp q hq r hrq with h0 | ⟨b, hb, hbl, hbi, hbq⟩
    · exact Or.inl h0
    · rcases (hh b hb).stays hbl with h1 | h1
      · right
        refine ⟨h b, by rw [hta]; exact List.mem_map.mpr ⟨b, hb, rfl⟩, h1, by rw [(hh b hb).id]; exact hbi, ?_⟩
        rw [(hh b hb).queue, (hg q).1]; exact hbq
      · left
        have hc := hr.queueCount b hb hbl q hq hbq.symm
        have hlk : q.reserved.lookup r.1 = some r.2 := lookup_of_mem (hr.queueKeys q hq) (by exact hrq)
        rw [hbi, hlk, h1] at hc
        simpa using hc
  · have h1 : resvTotal t ≤ resvTotal c := by
      refine resvTotal_map_le h hta ?_
      intro x hx hl
      exact ⟨(hh x hx).live hl, by rw [(hh x hx).resv]; exact Nat.le_refl _⟩
    exact Nat.le_trans h1 (Nat.le_trans hr.counter htr)
  · intro n hn hne
    rw [htn] at hn
    rcases hr.nodeExcl n hn hne with h1 | h1
    · exact Or.inl h1
    · right
      intro k hk
      obtain ⟨b, hb, hbl, hbr, i, hi, hik, hin⟩ := h1 k hk
      obtain ⟨w1, w2, w3⟩ := hwit b hb hbl _ hbr
      obtain ⟨i', hi', hik', hio'⟩ := hr.outstanding b hb hbl _ hbr
      have hii : i' = i := itemKeys_eq (hw.itemKeys b hb hbl) hi' hi (hik'.trans hik.symm)
      subst hii
      obtain ⟨j, hj, hjk, hjn, _⟩ := (hh b hb).items w2 i' hi' hio'
      exact ⟨h b, w1, w2, w3, j, hj, hjk.trans hik, hjn.trans hin⟩
  · intro y hy hl hbad
    obtain ⟨x, hx, hxl, rfl⟩ := hsrc y hy hl
    rw [(hh x hx).resv]
    rcases (hh x hx).quiet hl hbad with h1 | h1
    · exact hr.quiet x hx hxl h1
    · exact h1

/-- one live application gets a new record, queues are mapped -/
theorem resMid_setApp {id : String} {l : List String} {c t : Core} (hw : CoreWF c) {app : String} {a : CApp}
    (hfind : c.findApp app = some a) (f : CApp → CApp) (g : CQueue → CQueue)
    (hta : t.apps = updApps c.apps app f) (htq : t.queues = c.queues.map g) (htn : t.nodes = c.nodes)
    (htr : c.reservations ≤ t.reservations) (hf : AppKeep a (f a))
    (hg : ∀ q, (g q).path = q.path ∧ (g q).reserved = q.reserved) (hr : ResMid id l c) : ResMid id l t := by
  obtain ⟨ham, hl, hid⟩ := findApp_some hfind
  refine resMid_map hw _ g hta htq htn htr ?_ hg hr
  intro x hx
  by_cases hd : (x.live && x.id == app) = true
  · have : x = a := (appIds_atMostOne app hw.appIds).eq hx ham hd (by simp [hl, hid])
    rw [if_pos hd, this]; exact hf
  · rw [if_neg hd]; exact AppKeep.refl x

/-- `updApp` with a function that keeps every application -/
theorem resMid_updApp {id : String} {l : List String} {c t : Core} (hw : CoreWF c) (app : String)
    (f : CApp → CApp) (g : CQueue → CQueue)
    (hta : t.apps = updApps c.apps app f) (htq : t.queues = c.queues.map g) (htn : t.nodes = c.nodes)
    (htr : c.reservations ≤ t.reservations) (hf : ∀ x, AppKeep x (f x))
    (hg : ∀ q, (g q).path = q.path ∧ (g q).reserved = q.reserved) (hr : ResMid id l c) : ResMid id l t := by
  refine resMid_map hw _ g hta htq htn htr ?_ hg hr
  intro x _
  by_cases hd : (x.live && x.id == app) = true
  · rw [if_pos hd]; exact hf x
  · rw [if_neg hd]; exact AppKeep.refl x

theorem upd_hg (chain : List String) (fq : CQueue → CQueue)
    (h : ∀ q, (fq q).path = q.path ∧ (fq q).reserved = q.reserved) :
    ∀ q, ((fun q : CQueue => if chain.contains q.path = true then fq q else q) q).path = q.path ∧
      ((fun q : CQueue => if chain.contains q.path = true then fq q else q) q).reserved = q.reserved := by
  intro q
  dsimp only
  split
  · exact h q
  · exact ⟨rfl, rfl⟩

/-! ### the item lists of the rounds: an outstanding item stays outstanding -/

theorem outstanding_inReq {i : CItem} (h : i.outstanding = true) : i.inReq = true := by
  unfold CItem.outstanding at h
  simp only [Bool.and_eq_true] at h
  exact h.1

theorem keep_updItem {k : String} {g : CItem → CItem} {l : List CItem} {x : CItem} (hx : x ∈ l)
    (hg : ∀ z, (g z).key = z.key ∧ (g z).reqNode = z.reqNode ∧ (z.outstanding = true → (g z).outstanding = true))
    (ho : x.outstanding = true) :
    ∃ y ∈ updItem k g l, y.key = x.key ∧ y.reqNode = x.reqNode ∧ y.outstanding = true := by
  by_cases hk : x.key = k
  · exact ⟨g x, mem_updItem_of_eq hx hk, (hg x).1, (hg x).2.1, (hg x).2.2 ho⟩
  · exact ⟨x, mem_updItem_of_ne hx hk, rfl, rfl, ho⟩

theorem keep_unbound {key : String} {l : List CItem} {x : CItem} (hx : x ∈ l) (ho : x.outstanding = true) :
    ∃ y ∈ unbound key l, y.key = x.key ∧ y.reqNode = x.reqNode ∧ y.outstanding = true := by
  obtain ⟨y, hy, h1, h2, h3⟩ := keep_updItem (k := key) (g := fun z => { z with bound := false }) hx
    (fun z => ⟨rfl, rfl, fun h => h⟩) ho
  exact ⟨y, List.mem_filter.mpr ⟨hy, by rw [outstanding_inReq h3]; simp⟩, h1, h2, h3⟩

theorem keep_replItems {p r : CItem} {l : List CItem} {x : CItem} (hx : x ∈ l) (ho : x.outstanding = true) :
    ∃ y ∈ replItems p r l, y.key = x.key ∧ y.reqNode = x.reqNode ∧ y.outstanding = true := by
  obtain ⟨z, hz, a1, a2, a3⟩ := keep_updItem (k := p.key) (g := fun z => { z with bound := false }) hx
    (fun z => ⟨rfl, rfl, fun h => h⟩) ho
  obtain ⟨y, hy, b1, b2, b3⟩ := keep_updItem (k := r.key) (g := fun z => { z with bound := true, release := none }) hz
    (fun z => ⟨rfl, rfl, fun h => h⟩) a3
  have hy0 : y ∈ replItems0 p r l := List.mem_filter.mpr ⟨hy, by rw [outstanding_inReq b3]; simp⟩
  refine ⟨y, ?_, b1.trans a1, b2.trans a2, b3⟩
  unfold replItems
  split
  · exact hy0
  · exact List.mem_append.mpr (Or.inl hy0)

theorem keep_deallocItems {key other : String} {l : List CItem} {x : CItem} (hx : x ∈ l) (ho : x.outstanding = true) :
    ∃ y ∈ deallocItems key other l, y.key = x.key ∧ y.reqNode = x.reqNode ∧ y.outstanding = true := by
  obtain ⟨z, hz, a1, a2, a3⟩ := keep_updItem (k := key) (g := fun z => { z with allocated := false, release := none }) hx
    (fun z => ⟨rfl, rfl, fun h => by
      have := outstanding_inReq h
      show (z.inReq && !false) = true
      simp [this]⟩) ho
  obtain ⟨y, hy, b1, b2, b3⟩ := keep_updItem (k := other) (g := fun z => { z with release := none }) hz
    (fun z => ⟨rfl, rfl, fun h => h⟩) a3
  exact ⟨y, hy, b1.trans a1, b2.trans a2, b3⟩

theorem keep_unlinkItems {k1 k2 : String} {l : List CItem} {x : CItem} (hx : x ∈ l) (ho : x.outstanding = true) :
    ∃ y ∈ updItem k2 (fun x => { x with release := none }) (updItem k1 (fun x => { x with release := none }) l),
      y.key = x.key ∧ y.reqNode = x.reqNode ∧ y.outstanding = true := by
  obtain ⟨z, hz, a1, a2, a3⟩ := keep_updItem (k := k1) (g := fun z => { z with release := none }) hx
    (fun z => ⟨rfl, rfl, fun h => h⟩) ho
  obtain ⟨y, hy, b1, b2, b3⟩ := keep_updItem (k := k2) (g := fun z => { z with release := none }) hz
    (fun z => ⟨rfl, rfl, fun h => h⟩) a3
  exact ⟨y, hy, b1.trans a1, b2.trans a2, b3⟩

/-! ### the states of the rounds: quiet only without reservations -/

theorem relAppT_reservations (tt : TermType) (key : String) (i : CItem) (a : CApp) :
    (relAppT tt key i a).reservations = a.reservations := by
  unfold relAppT; cases i.ph <;> simp

theorem replApp_reservations (p r : CItem) (a : CApp) : (replApp p r a).reservations = a.reservations := by
  unfold replApp; simp

/-- a release (termination type UNKNOWN) makes an application quiet only when it was quiet or its pending total is zero -/
theorem relAppT_bad (key : String) (i : CItem) (a : CApp) (h : Bad (relAppT .unknown key i a).state) :
    Bad a.state ∨ isZero (some a.pending) = true := by
  rcases LifeD.relAppT_state_cases key i a with h0 | ⟨_, _, h1⟩ | ⟨_, hp, _, _⟩
  · rw [h0] at h; exact Or.inl h
  · rcases h1 with ⟨hF, _, _⟩ | ⟨hR, hs⟩ | ⟨hc, _⟩
    · exact Or.inl (Or.inl hF)
    · exfalso
      rw [hR] at hs
      have : fireState "Resuming" .run = "Accepted" := by decide
      rw [this] at hs
      rw [hs] at h
      rcases h with h | h | h
      · exact absurd h (by decide)
      · exact absurd h (by decide)
      · exact absurd h (by decide)
    · rcases hc with hc | hc
      · exact Or.inl (Or.inr (Or.inl hc))
      · exact Or.inr hc.1
  · exact Or.inr hp

theorem bad_fire_run {st : String} (h : Bad (fireState st .run)) : Bad st := by
  rcases LifeD.fire_run st with e | e | e
  · rw [e] at h
    rcases h with h | h | h
    · exact absurd h (by decide)
    · exact absurd h (by decide)
    · exact absurd h (by decide)
  · rw [e] at h
    rcases h with h | h | h
    · exact absurd h (by decide)
    · exact absurd h (by decide)
    · exact absurd h (by decide)
  · rw [e] at h; exact h

theorem replSt1_bad (p : CItem) (a : CApp) (h : Bad (LifeD.replSt1 p a)) : Bad a.state := by
  unfold LifeD.replSt1 at h
  split at h
  · rename_i hc
    simp only [Bool.and_eq_true, Bool.or_eq_true, beq_iff_eq] at hc
    rcases hc.2 with hc | hc
    · exact Or.inl hc.1
    · have hF : (a.state == "Failing") = false := by rw [hc]; decide
      rw [hF] at h
      simp only [Bool.false_eq_true, if_false] at h
      exact bad_fire_run h
  · exact h

/-- a confirmed swap never makes an application quiet -/
theorem replApp_bad (p r : CItem) (a : CApp) (h : Bad (replApp p r a).state) : Bad a.state := by
  rw [LifeD.replApp_state] at h
  split at h
  · exact replSt1_bad p a (bad_fire_run h)
  · exact replSt1_bad p a h

/-! ### the application records of the rounds -/

theorem no_resv_of_zero {a : CApp} (hba : AppBooks a) (hwa : AppWF a) (hpos : ∀ j ∈ a.items, PosRes j.res)
    (hout : ∀ r ∈ a.reservations, ∃ j ∈ a.items, j.key = r.1 ∧ j.outstanding = true)
    (hz : isZero (some a.pending) = true) : a.reservations = [] := by
  obtain ⟨_, _, z3⟩ := AppBooks.none_of_zero hba hwa hpos
  apply List.eq_nil_iff_forall_not_mem.mpr
  intro r hr
  obtain ⟨j, hj, _, ho⟩ := hout r hr
  rw [z3 hz j hj] at ho
  cases ho

theorem appKeep_nodeRmApp (key : String) (i : CItem) (a : CApp) (hl : a.live = true) (hba : AppBooks a) (hwa : AppWF a)
    (hpos : ∀ j ∈ a.items, PosRes j.res)
    (hout : ∀ r ∈ a.reservations, ∃ j ∈ a.items, j.key = r.1 ∧ j.outstanding = true) :
    AppKeep a (nodeRmApp key i a) := by
  refine ⟨nodeRmApp_id key i a, relAppT_queue .unknown key i a, relAppT_reservations .unknown key i a,
    fun _ => hl, fun _ => Or.inl rfl, ?_, ?_⟩
  · intro _ j hj ho
    rw [nodeRmApp_items]
    exact keep_unbound hj ho
  · intro _ hbad
    have hbad' : Bad (relAppT .unknown key i a).state := hbad
    rcases relAppT_bad key i a hbad' with h1 | h1
    · exact Or.inl h1
    · exact Or.inr (no_resv_of_zero hba hwa hpos hout h1)

theorem appKeep_confirmApp (i r : CItem) (a : CApp) (hl : a.live = true) : AppKeep a (confirmApp i r a) := by
  refine ⟨replApp_id i r a, replApp_queue i r a, replApp_reservations i r a, fun _ => hl, fun _ => Or.inl rfl, ?_, ?_⟩
  · intro _ j hj ho
    have : (confirmApp i r a).items = replItems i r a.items := replApp_items i r a
    rw [this]
    exact keep_replItems hj ho
  · intro _ hbad
    have hbad' : Bad (replApp i r a).state := hbad
    exact Or.inl (replApp_bad i r a hbad')

theorem appKeep_deallocApp (key other : String) (r : CItem) (a : CApp) : AppKeep a (deallocApp key other r a) := by
  refine ⟨rfl, rfl, rfl, fun h => h, fun h => Or.inl h, ?_, fun _ h => Or.inl h⟩
  intro _ j hj ho
  rw [deallocApp_items]
  exact keep_deallocItems hj ho

/-- the Completing application runs again: from a state without reservations to Running, nothing else changes -/
theorem appKeep_deallocAppRun (key other : String) (r : CItem) (a : CApp) : AppKeep a (deallocAppRun key other r a) := by
  have hk := appKeep_deallocApp key other r a
  refine ⟨(runAgain_id _).trans hk.id, (runAgain_queue _).trans hk.queue, (runAgain_reservations _).trans hk.resv,
    fun h => hk.live ((runAgain_live _).symm.trans h), fun h => (hk.stays h).imp (fun h' => (runAgain_live _).trans h') id, ?_, ?_⟩
  · intro hl j hj ho
    have := hk.items ((runAgain_live _).symm.trans hl) j hj ho
    unfold deallocAppRun; rw [runAgain_items]; exact this
  · intro hl hbad
    by_cases hs : (deallocApp key other r a).state = "Completing"
    · exact Or.inl (Or.inr (Or.inl hs))
    · unfold deallocAppRun at hbad
      rw [runAgain_of_ne _ hs] at hbad
      exact Or.inl hbad

theorem appKeep_unlinkApp (k1 k2 : String) (a : CApp) : AppKeep a (unlinkApp k1 k2 a) := by
  refine ⟨rfl, rfl, rfl, fun h => h, fun h => Or.inl h, ?_, fun _ h => Or.inl h⟩
  intro _ j hj ho
  exact keep_unlinkItems hj ho

/-! ### one round of the loop of removeNodeAllocations -/

theorem nodeRmQ_keeps (i : CItem) (q : CQueue) : (nodeRmQ i q).path = q.path ∧ (nodeRmQ i q).reserved = q.reserved := by
  unfold nodeRmQ qDecPreempting qDecAlloc; cases i.preempted <;> exact ⟨rfl, rfl⟩

theorem nodeConfirmQ_keeps (d : Res) (q : CQueue) :
    (nodeConfirmQ d q).path = q.path ∧ (nodeConfirmQ d q).reserved = q.reserved := by
  unfold nodeConfirmQ; split <;> exact ⟨rfl, rfl⟩

theorem nodeRmBound_resv (c : Core) (app key : String) : (nodeRmBound c app key).reservations = c.reservations := by
  unfold nodeRmBound
  split
  · rfl
  · split
    · rfl
    · split <;> rfl

theorem resMid_nodeRmBound {id : String} {l : List String} (c : Core) (app key : String) (hw : CoreWF c) (hb : Books c)
    (hL : LifeCore c) (hr : ResMid id l c) : ResMid id l (nodeRmBound c app key) := by
  cases hfind : c.findApp app with
  | none => unfold nodeRmBound; simp only [hfind]; exact hr
  | some a =>
    cases hitem : a.items.find? (·.key == key) with
    | none => unfold nodeRmBound; simp only [hfind, hitem]; exact hr
    | some i =>
      cases hbd : i.bound with
      | false =>
        unfold nodeRmBound
        simp only [hfind, hitem, hbd, Bool.not_false, if_true]
        exact hr
      | true =>
        obtain ⟨ham, hl, _⟩ := findApp_some hfind
        obtain ⟨hta, htq, htn⟩ := nodeRmBound_lists c app key a i hfind hitem hbd
        exact resMid_setApp hw hfind _ _ hta htq htn (Nat.le_of_eq (nodeRmBound_resv c app key).symm)
          (appKeep_nodeRmApp key i a hl (hb.apps a ham hl) (hw.app ham hl) (hL.pos a ham hl) (hr.outstanding a ham hl))
          (upd_hg _ _ (nodeRmQ_keeps i)) hr

theorem resMid_unlink {id : String} {l : List String} (c : Core) (app k1 k2 : String) (hw : CoreWF c)
    (hr : ResMid id l c) : ResMid id l (updApp c app (unlinkApp k1 k2)) :=
  resMid_updApp hw app (unlinkApp k1 k2) (fun q => q) rfl (by simp) rfl (Nat.le_refl _)
    (appKeep_unlinkApp k1 k2) (fun _ => ⟨rfl, rfl⟩) hr

theorem resMid_dealloc {id : String} {l : List String} (c : Core) (app key other : String) (r : CItem) (chain : List String)
    (hw : CoreWF c) (hr : ResMid id l c) :
    ResMid id l (updQueues (updApp c app (deallocAppRun key other r)) chain (qIncPend r.res)) :=
  resMid_updApp hw app (deallocAppRun key other r) _ rfl rfl rfl (Nat.le_refl _)
    (appKeep_deallocAppRun key other r) (upd_hg chain _ (fun _ => ⟨rfl, rfl⟩)) hr

theorem resMid_confirm {id : String} {l : List String} (c : Core) (app : String) (a : CApp) (i r : CItem) (chain : List String)
    (d : Res) (hw : CoreWF c) (hfind : c.findApp app = some a) (hr : ResMid id l c) :
    ResMid id l (updQueues (updApp c app (fun _ => { replApp i r a with live := true })) chain (nodeConfirmQ d)) :=
  resMid_setApp hw hfind (fun _ => confirmApp i r a) _ rfl rfl rfl (Nat.le_refl _)
    (appKeep_confirmApp i r a (findApp_some hfind).2.1) (upd_hg chain _ (nodeConfirmQ_keeps d)) hr

end ResD

open ResD in
/-- one round of the loop keeps the reservation invariant away from the node -/
theorem resMid_nodeRmAlloc {id : String} {l : List String} (c : Core) (nodeId app key : String) (hw : CoreWF c)
    (hb : Books c) (hL : LifeCore c) (hok : NodeRmOK c nodeId app key) (hr : ResMid id l c) :
    ResMid id l (nodeRmAlloc c nodeId app key) := by
  cases hfind : c.findApp app with
  | none => unfold nodeRmAlloc; simp only [hfind]; exact hr
  | some a =>
    cases hitem : a.items.find? (·.key == key) with
    | none => unfold nodeRmAlloc; simp only [hfind, hitem]; exact hr
    | some i =>
      obtain ⟨ham, hl, _⟩ := findApp_some hfind
      obtain ⟨him, hkey⟩ := find_key_some hitem
      cases hrel : i.release with
      | none =>
        rw [nodeRmAlloc_plain c nodeId app key a i hfind hitem hrel]
        exact resMid_nodeRmBound c app key hw hb hL hr
      | some rk =>
        cases hph : i.ph with
        | true =>
          cases hreal : findReal c a rk with
          | none =>
            rw [nodeRmAlloc_noReal c nodeId app key a i rk hfind hitem hrel hph hreal]
            obtain ⟨hb1, hw1⟩ := unlink_props c app rk key hw hb
            exact resMid_nodeRmBound _ app key hw1 hb1 (LifeD.lifeCore_unlink c app rk key hL)
              (resMid_unlink c app rk key hw hr)
          | some r =>
            cases hnode : (r.node != nodeId) with
            | true =>
              rw [nodeRmAlloc_other c nodeId app key a i rk r hfind hitem hrel hph hreal hnode]
              cases hbd : i.bound with
              | false => simp only [Bool.not_false, if_true]; exact hr
              | true =>
                simp only [Bool.not_true, Bool.false_eq_true, if_false]
                exact resMid_confirm c app a i r _ _ hw hfind hr
            | false =>
              rw [nodeRmAlloc_same c nodeId app key a i rk r hfind hitem hrel hph hreal hnode]
              cases hc : (r.inReq && r.allocated) with
              | true =>
                simp only [if_true]
                simp only [Bool.and_eq_true] at hc
                obtain ⟨hrm, hrk⟩ := find_key_some (findReal_inReq hreal hc.1)
                obtain ⟨hnb, hsat⟩ := hok.sameNode a i rk r hfind hitem hrel hph hreal (by simpa using hnode) hc.1 hc.2
                obtain ⟨hb1, hw1⟩ := dealloc_props c app rk key a r hw hb hfind hrm hrk hc.1 hc.2 hnb hsat
                exact resMid_nodeRmBound _ app key hw1 hb1 (LifeD.lifeCore_dealloc c app rk key r _ _ hL)
                  (resMid_dealloc c app rk key r _ hw hr)
              | false =>
                simp only [Bool.false_eq_true, if_false]
                obtain ⟨hb1, hw1⟩ := unlink_props c app rk key hw hb
                exact resMid_nodeRmBound _ app key hw1 hb1 (LifeD.lifeCore_unlink c app rk key hL)
                  (resMid_unlink c app rk key hw hr)
        | false =>
          rw [nodeRmAlloc_parked c nodeId app key a i rk hfind hitem hrel hph]
          cases hc : (i.inReq && i.allocated) with
          | true =>
            simp only [if_true]
            simp only [Bool.and_eq_true] at hc
            obtain ⟨hnb, hsat⟩ := hok.parked a i rk hfind hitem hrel hph hc.1 hc.2
            obtain ⟨hb1, hw1⟩ := dealloc_props c app key rk a i hw hb hfind him hkey hc.1 hc.2 hnb hsat
            exact resMid_nodeRmBound _ app key hw1 hb1 (LifeD.lifeCore_dealloc c app key rk i _ _ hL)
              (resMid_dealloc c app key rk i _ hw hr)
          | false =>
            simp only [Bool.false_eq_true, if_false]
            obtain ⟨hb1, hw1⟩ := unlink_props c app rk key hw hb
            exact resMid_nodeRmBound _ app key hw1 hb1 (LifeD.lifeCore_unlink c app rk key hL)
              (resMid_unlink c app rk key hw hr)

open ResD in
/-- the loop over the allocations of the node -/
theorem resMid_nodeLoop {id : String} {l : List String} (nodeId : String) (ps : List (String × String)) (c : Core)
    (hw : CoreWF c) (hb : Books c) (hL : LifeCore c) (hok : NodeLoopOK nodeId c ps) (hr : ResMid id l c) :
    ResMid id l (ps.foldl (fun c p => nodeRmAlloc c nodeId p.1 p.2) c) := by
  induction ps generalizing c with
  | nil => exact hr
  | cons p t ih =>
    obtain ⟨h1, h2⟩ := hok
    obtain ⟨hb1, hw1⟩ := nodeRmAlloc_props c nodeId p.1 p.2 hw hb h1
    exact ih (nodeRmAlloc c nodeId p.1 p.2) hw1 hb1 (lifeCore_nodeRmAlloc c nodeId p.1 p.2 hw hb hL h1) h2
      (resMid_nodeRmAlloc c nodeId p.1 p.2 hw hb hL h1 hr)

namespace ResD

/-! ### the reservations on the node are cancelled one by one (`unreserveOn`) -/

/-- the application records after the reservation `r` of application `a` was cancelled -/
def unresA (a : CApp) (r : String × String) (x : CApp) : CApp :=
  if (x.live && x.id == a.id) = true then { x with reservations := x.reservations.filter (· != r) } else x

/-- … and the queues -/
def unresQ (a : CApp) (q : CQueue) : CQueue :=
  if (q.path == a.queue) = true then { q with reserved := q.reserved.filterMap (decE a.id) } else q

theorem unreserveOn_eq (c : Core) (id k : String) (a : CApp)
    (hf : c.liveApps.find? (fun a => a.reservations.contains (k, id)) = some a) :
    unreserveOn c id k = { c with apps := c.apps.map (unresA a (k, id)), queues := c.queues.map (unresQ a),
                                  reservations := c.reservations - 1 } := by
  unfold unreserveOn
  simp only [hf]
  rfl

theorem unresA_fields (a : CApp) (r : String × String) (x : CApp) :
    (unresA a r x).live = x.live ∧ (unresA a r x).id = x.id ∧ (unresA a r x).queue = x.queue ∧
    (unresA a r x).items = x.items ∧ (unresA a r x).state = x.state ∧
    (unresA a r x).reservations.Sublist x.reservations := by
  unfold unresA
  split
  · exact ⟨rfl, rfl, rfl, rfl, rfl, List.filter_sublist⟩
  · exact ⟨rfl, rfl, rfl, rfl, rfl, List.Sublist.refl _⟩

theorem unresA_keep (a : CApp) (r : String × String) (x : CApp) {r' : String × String} (h : r' ∈ x.reservations)
    (hne : r' ≠ r) : r' ∈ (unresA a r x).reservations := by
  unfold unresA
  split
  · exact List.mem_filter.mpr ⟨h, by simpa using hne⟩
  · exact h

theorem unresQ_path (a : CApp) (q : CQueue) : (unresQ a q).path = q.path := by
  unfold unresQ; split <;> rfl

theorem sum_live_dec (l : List CApp) (a : CApp) (f : CApp → CApp)
    (hu : l.Pairwise (fun a b => a.live = true → b.live = true → a.id ≠ b.id)) (ha : a ∈ l) (hl : a.live = true)
    (hfl : (f a).live = true) (hfa : (f a).reservations.length + 1 = a.reservations.length) :
    (((l.map (fun x => if (x.live && x.id == a.id) = true then f x else x)).filter (·.live)).map
        (·.reservations.length)).sum + 1 =
      ((l.filter (·.live)).map (·.reservations.length)).sum := by
  induction l with
  | nil => cases ha
  | cons b t ih =>
    have hp := List.pairwise_cons.mp hu
    rw [List.map_cons]
    rcases List.mem_cons.mp ha with hab | hat
    · subst hab
      have hca : (a.live && a.id == a.id) = true := by simp [hl]
      have e : t.map (fun x => if (x.live && x.id == a.id) = true then f x else x) = t :=
        map_upd_none t (fun x => x.live && x.id == a.id) f (fun x hx => by
          cases hc : (x.live && x.id == a.id) with
          | false => rfl
          | true =>
            simp only [Bool.and_eq_true, beq_iff_eq] at hc
            exact absurd hc.2.symm (hp.1 x hx hl hc.1))
      rw [e, if_pos hca, List.filter_cons, List.filter_cons]
      simp only [hfl, hl, if_true, List.map_cons, List.sum_cons]
      omega
    · have hcb : ¬ (b.live && b.id == a.id) = true := by
        intro hc
        simp only [Bool.and_eq_true, beq_iff_eq] at hc
        exact hp.1 a hat hc.1 hl hc.2
      rw [if_neg hcb, List.filter_cons, List.filter_cons]
      have iht := ih hp.2 hat
      cases b.live with
      | true => simp only [if_true, List.map_cons, List.sum_cons]; omega
      | false => simp only [Bool.false_eq_true, if_false]; exact iht

/-- one reservation of the node is cancelled: the application `a` that holds it forgets it, its queue and the partition
    count one less -/
theorem resMid_unres {id k : String} {t : List String} {c T : Core} (hw : CoreWF c) (a : CApp) (ha : a ∈ c.apps)
    (hl : a.live = true) (hres : (k, id) ∈ a.reservations)
    (hta : T.apps = c.apps.map (unresA a (k, id))) (htq : T.queues = c.queues.map (unresQ a)) (htn : T.nodes = c.nodes)
    (htr : T.reservations = c.reservations - 1) (hr : ResMid id (k :: t) c) : ResMid id t T := by
  have hfn : ∀ j, T.findNode j = c.findNode j := by intro j; unfold findNode; rw [htn]
  have hsrc : ∀ y ∈ T.apps, y.live = true → ∃ x ∈ c.apps, x.live = true ∧ y = unresA a (k, id) x := by
    intro y hy hyl
    rw [hta] at hy
    obtain ⟨x, hx, rfl⟩ := List.mem_map.mp hy
    exact ⟨x, hx, by rw [← (unresA_fields a (k, id) x).1]; exact hyl, rfl⟩
  have hqsrc : ∀ q' ∈ T.queues, ∃ q ∈ c.queues, q' = unresQ a q := by
    intro q' hq'
    rw [htq] at hq'
    obtain ⟨q, hq, rfl⟩ := List.mem_map.mp hq'
    exact ⟨q, hq, rfl⟩
  have hmem : ∀ x ∈ c.apps, unresA a (k, id) x ∈ T.apps := by
    intro x hx; rw [hta]; exact List.mem_map.mpr ⟨x, hx, rfl⟩
  have hsub : ∀ x r, r ∈ (unresA a (k, id) x).reservations → r ∈ x.reservations :=
    fun x r h => (unresA_fields a (k, id) x).2.2.2.2.2.subset h
  have hnil : ∀ x, x.reservations = [] → (unresA a (k, id) x).reservations = [] := by
    intro x hx
    apply List.eq_nil_iff_forall_not_mem.mpr
    intro r h
    have := hsub x r h
    rw [hx] at this; cases this
  -- the application that matches the update is `a`
  have hone : ∀ x ∈ c.apps, (x.live && x.id == a.id) = true → x = a :=
    fun x hx hd => (appIds_atMostOne a.id hw.appIds).eq hx ha hd (by simp [hl])
  -- nobody holds the cancelled reservation any more
  have hgone : ∀ x ∈ c.apps, x.live = true → (k, id) ∉ (unresA a (k, id) x).reservations := by
    intro x hx hxl hin
    by_cases hd : (x.live && x.id == a.id) = true
    · unfold unresA at hin
      rw [if_pos hd] at hin
      have := (List.mem_filter.mp hin).2
      simp at this
    · have hxr := hsub x _ hin
      have := hr.owner x hx a ha hxl hl _ hxr hres
      exact hd (by simp [hxl, this])
  have hkeys : k ∉ t ∧ t.Nodup := List.nodup_cons.mp hr.todoKeys
  -- a witness of the old state that holds another reservation is still a witness
  have hwit : ∀ b ∈ c.apps, b.live = true → ∀ r ∈ b.reservations, r ≠ (k, id) →
      unresA a (k, id) b ∈ T.apps ∧ (unresA a (k, id) b).live = true ∧ r ∈ (unresA a (k, id) b).reservations :=
    fun b hb hbl r hrb hne => ⟨hmem b hb, by rw [(unresA_fields a (k, id) b).1]; exact hbl, unresA_keep a (k, id) b hrb hne⟩
  refine ⟨?_, ?_, hkeys.2, ?_, ?_, ?_, ?_, ?_, ?_, ?_, ?_, ?_, ?_, ?_, ?_⟩
  · intro y hy hyl r hry
    obtain ⟨x, hx, hxl, rfl⟩ := hsrc y hy hyl
    obtain ⟨h1, h2⟩ := hr.appNode x hx hxl r (hsub x r hry)
    refine ⟨?_, fun hne => by rw [hfn]; exact h2 hne⟩
    intro he
    rcases List.mem_cons.mp (h1 he) with hk | ht
    · exfalso
      have : r = (k, id) := Prod.ext hk he
      rw [this] at hry
      exact hgone x hx hxl hry
    · exact ht
  · intro k' hk'
    obtain ⟨b, hb, hbl, hbr⟩ := hr.todo k' (List.mem_cons_of_mem _ hk')
    have hne : (k', id) ≠ (k, id) := by
      intro e
      have : k' = k := congrArg Prod.fst e
      rw [this] at hk'
      exact hkeys.1 hk'
    obtain ⟨w1, w2, w3⟩ := hwit b hb hbl _ hbr hne
    exact ⟨_, w1, w2, w3⟩
  · intro y hy hyl r hry
    obtain ⟨x, hx, hxl, rfl⟩ := hsrc y hy hyl
    rw [(unresA_fields a (k, id) x).2.2.2.1]
    exact hr.outstanding x hx hxl r (hsub x r hry)
  · intro y hy hyl
    obtain ⟨x, hx, hxl, rfl⟩ := hsrc y hy hyl
    exact List.Nodup.sublist ((unresA_fields a (k, id) x).2.2.2.2.2.map _) (hr.onePerAsk x hx hxl)
  · intro n hn hne k' hk'
    rw [htn] at hn
    obtain ⟨b, hb, hbl, hbr⟩ := hr.nodeApp n hn hne k' hk'
    have hne' : (k', n.id) ≠ (k, id) := fun e => hne (congrArg Prod.snd e)
    obtain ⟨w1, w2, w3⟩ := hwit b hb hbl _ hbr hne'
    exact ⟨_, w1, w2, w3⟩
  · intro n hn hne
    rw [htn] at hn
    exact hr.nodeKeys n hn hne
  · intro y1 hy1 y2 hy2 hl1 hl2 r hr1 hr2
    obtain ⟨x1, hx1, hxl1, rfl⟩ := hsrc y1 hy1 hl1
    obtain ⟨x2, hx2, hxl2, rfl⟩ := hsrc y2 hy2 hl2
    rw [(unresA_fields a (k, id) x1).2.1, (unresA_fields a (k, id) x2).2.1]
    exact hr.owner x1 hx1 x2 hx2 hxl1 hxl2 r (hsub x1 r hr1) (hsub x2 r hr2)
  · intro y hy hyl hno
    obtain ⟨x, hx, hxl, rfl⟩ := hsrc y hy hyl
    apply hnil
    apply hr.queueNone x hx hxl
    intro q hq he
    have hgq : unresQ a q ∈ T.queues := by rw [htq]; exact List.mem_map.mpr ⟨q, hq, rfl⟩
    exact hno _ hgq (by rw [unresQ_path, (unresA_fields a (k, id) x).2.2.1]; exact he)
  · intro y hy hyl q' hq' hp
    obtain ⟨x, hx, hxl, rfl⟩ := hsrc y hy hyl
    obtain ⟨q, hq, rfl⟩ := hqsrc q' hq'
    rw [unresQ_path, (unresA_fields a (k, id) x).2.2.1] at hp
    rw [(unresA_fields a (k, id) x).2.1]
    have hold := hr.queueCount x hx hxl q hq hp
    by_cases hd : (x.live && x.id == a.id) = true
    · have hxa : x = a := hone x hx hd
      subst hxa
      have hqa : (q.path == x.queue) = true := by simp [hp]
      have e1 : (unresQ x q).reserved = q.reserved.filterMap (decE x.id) := by unfold unresQ; rw [if_pos hqa]
      have e2 : (unresA x (k, id) x).reservations = x.reservations.filter (· != (k, id)) := by
        unfold unresA; rw [if_pos hd]
      rw [e1, e2, lookup_dec_self _ _ (hr.queueKeys q hq), hold]
      have := length_filter_ne x.reservations (k, id) (nodup_of_map _ (hr.onePerAsk x hx hxl)) hres
      omega
    · have e2 : unresA a (k, id) x = x := by unfold unresA; rw [if_neg hd]
      have hne : x.id ≠ a.id := fun e => hd (by simp [hxl, e])
      rw [e2, ← hold]
      unfold unresQ
      split
      · show ((q.reserved.filterMap (decE a.id)).lookup x.id).getD 0 = _
        rw [lookup_dec_ne _ _ _ hne]
      · rfl
  · intro q' hq'
    obtain ⟨q, hq, rfl⟩ := hqsrc q' hq'
    unfold unresQ
    split
    · exact List.Nodup.sublist (keys_dec_sublist q.reserved a.id) (hr.queueKeys q hq)
    · exact hr.queueKeys q hq
  · intro q' hq' r hrq
    obtain ⟨q, hq, rfl⟩ := hqsrc q' hq'
    rw [unresQ_path]
    have hlift : ∀ e ∈ q.reserved, (e.2 = 0 ∨ ∃ b ∈ c.apps, b.live = true ∧ b.id = e.1 ∧ b.queue = q.path) →
        (e.2 = 0 ∨ ∃ b ∈ T.apps, b.live = true ∧ b.id = e.1 ∧ b.queue = q.path) := by
      intro e _ h
      rcases h with h | ⟨b, hb, hbl, hbi, hbq⟩
      · exact Or.inl h
      · exact Or.inr ⟨_, hmem b hb, by rw [(unresA_fields a (k, id) b).1]; exact hbl,
          by rw [(unresA_fields a (k, id) b).2.1]; exact hbi, by rw [(unresA_fields a (k, id) b).2.2.1]; exact hbq⟩
    unfold unresQ at hrq
    split at hrq
    · rcases mem_dec hrq with h | ⟨e, he, _, rfl⟩
      · exact hlift r h (hr.queueApp q hq r h)
      · rcases hlift e he (hr.queueApp q hq e he) with h | h
        · left; show e.2 - 1 = 0; omega
        · exact Or.inr h
    · exact hlift r hrq (hr.queueApp q hq r hrq)
  · have h1 : resvTotal T + 1 = resvTotal c := by
      unfold resvTotal liveApps
      rw [hta]
      have hca : (a.live && a.id == a.id) = true := by simp [hl]
      refine sum_live_dec c.apps a (fun x => { x with reservations := x.reservations.filter (· != (k, id)) })
        hw.appIds ha hl hl ?_
      show (a.reservations.filter (· != (k, id))).length + 1 = a.reservations.length
      exact length_filter_ne a.reservations (k, id) (nodup_of_map _ (hr.onePerAsk a ha hl)) hres
    have := hr.counter
    rw [htr]; omega
  · intro n hn hne
    rw [htn] at hn
    rcases hr.nodeExcl n hn hne with h1 | h1
    · exact Or.inl h1
    · right
      intro k' hk'
      obtain ⟨b, hb, hbl, hbr, i, hi, hik, hin⟩ := h1 k' hk'
      have hne' : (k', n.id) ≠ (k, id) := fun e => hne (congrArg Prod.snd e)
      obtain ⟨w1, w2, w3⟩ := hwit b hb hbl _ hbr hne'
      exact ⟨_, w1, w2, w3, i, by rw [(unresA_fields a (k, id) b).2.2.2.1]; exact hi, hik, hin⟩
  · intro y hy hyl hbad
    obtain ⟨x, hx, hxl, rfl⟩ := hsrc y hy hyl
    apply hnil
    rw [(unresA_fields a (k, id) x).2.2.2.2.1] at hbad
    exact hr.quiet x hx hxl hbad

theorem resMid_unreserveOn {id k : String} {t : List String} (c : Core) (hw : CoreWF c) (hr : ResMid id (k :: t) c) :
    ResMid id t (unreserveOn c id k) := by
  cases hf : c.liveApps.find? (fun a => a.reservations.contains (k, id)) with
  | none =>
    exfalso
    obtain ⟨b, hb, hbl, hbr⟩ := hr.todo k List.mem_cons_self
    have := List.find?_eq_none.mp hf b (mem_liveApps.mpr ⟨hb, hbl⟩)
    simp at this
    exact this hbr
  | some a =>
    have ham := mem_liveApps.mp (List.mem_of_find?_eq_some hf)
    have hres : (k, id) ∈ a.reservations := by
      have := List.find?_some hf
      simpa using this
    rw [unreserveOn_eq c id k a hf]
    exact resMid_unres hw a ham.1 ham.2 hres rfl rfl rfl rfl hr

end ResD

open ResD in
/-- the fold of `nodeRemove` over the reservations of the node: every key is cancelled -/
theorem resMid_unreserveFold {id : String} (l : List String) (c : Core) (hw : CoreWF c) (hb : Books c)
    (hr : ResMid id l c) : ResOff id (l.foldl (fun c k => unreserveOn c id k) c) := by
  induction l generalizing c with
  | nil => exact hr
  | cons k t ih =>
    obtain ⟨hb1, hw1⟩ := unreserveOn_props c id k hw hb
    exact ih (unreserveOn c id k) hw1 hb1 (resMid_unreserveOn c hw hr)

namespace ResD

/-! ### the terminated applications leave (`leaveApp`, `sweepTerminated`) -/

theorem appKeep_leftApp (a : CApp) (hnil : a.reservations = []) : AppKeep a (LifeC.leftApp a) := by
  have hlive : (LifeC.leftApp a).live = false := rfl
  refine ⟨rfl, rfl, rfl, ?_, fun _ => Or.inr hnil, ?_, ?_⟩
  · intro h; rw [hlive] at h; cases h
  · intro h; rw [hlive] at h; cases h
  · intro h; rw [hlive] at h; cases h

end ResD

open ResD in
/-- moveTerminatedApp for an application that has terminated: it holds no reservation (`quiet`) -/
theorem resMid_leaveApp {id : String} {l : List String} (c : Core) (app : String) (hw : CoreWF c)
    (hterm : ∀ a, c.findApp app = some a → terminated a.state = true) (hr : ResMid id l c) :
    ResMid id l (c.leaveApp app) := by
  cases hfind : c.findApp app with
  | none =>
    have : c.leaveApp app = c := by unfold leaveApp; simp only [hfind]
    rw [this]; exact hr
  | some a =>
    obtain ⟨ham, hl, _⟩ := findApp_some hfind
    have hnil : a.reservations = [] := hr.quiet a ham hl (Or.inr (Or.inr (hterm a hfind)))
    have e : c.leaveApp app =
        updQueues (updApp c app (fun _ => LifeC.leftApp a)) (pathChain c a.queue) (qLeave (LifeC.leftApp a)) := by
      unfold leaveApp; simp only [hfind]; rfl
    rw [e]
    exact resMid_setApp hw hfind (fun _ => LifeC.leftApp a) _ rfl rfl rfl (Nat.le_refl _) (appKeep_leftApp a hnil)
      (upd_hg _ _ (fun _ => ⟨rfl, rfl⟩)) hr

open ResD in
/-- the loop of `sweepTerminated` over any list `apps` of application records whose live terminated elements name
    terminated applications of the current state -/
theorem resMid_sweepFold {id : String} {l : List String} (apps : List CApp) : ∀ (c : Core), CoreWF c → Books c →
    (∀ a ∈ apps, (a.live && terminated a.state) = true →
      ∀ b ∈ c.apps, b.live = true → b.id = a.id → terminated b.state = true) →
    ResMid id l c →
    ResMid id l (apps.foldl (fun c a => if a.live && terminated a.state then leaveApp c a.id else c) c) := by
  induction apps with
  | nil => intro c _ _ _ hr; exact hr
  | cons a t ih =>
    intro c hw hb h1 hr
    rw [List.foldl_cons]
    by_cases hc : (a.live && terminated a.state) = true
    · rw [if_pos hc]
      obtain ⟨hb1, hw1⟩ := leaveApp_props c a.id hw hb
      refine ih _ hw1 hb1 ?_ (resMid_leaveApp c a.id hw (fun a2 hf => by
        obtain ⟨m, lv, i⟩ := findApp_some hf
        exact h1 a List.mem_cons_self hc a2 m lv i) hr)
      intro a' ha' hc' b hbm hbl hbid
      exact h1 a' (List.mem_cons_of_mem _ ha') hc' b (LifeC.leaveApp_live_mem c a.id hw b hbm hbl).1 hbl hbid
    · rw [if_neg hc]
      exact ih c hw hb (fun a' ha' hc' b hbm hbl hbid => h1 a' (List.mem_cons_of_mem _ ha') hc' b hbm hbl hbid) hr

open ResD in
theorem resMid_sweepTerminated {id : String} {l : List String} (c : Core) (hw : CoreWF c) (hb : Books c)
    (hr : ResMid id l c) : ResMid id l c.sweepTerminated := by
  refine resMid_sweepFold c.apps c hw hb ?_ hr
  intro a ha hc b hbm hbl hid
  simp only [Bool.and_eq_true] at hc
  have : b = a := (appIds_atMostOne a.id hw.appIds).eq hbm ha (by simp [hbl, hid]) (by simp [hc.1])
  rw [this]; exact hc.2

theorem resOff_leaveApp {id : String} (c : Core) (app : String) (hw : CoreWF c)
    (hterm : ∀ a, c.findApp app = some a → terminated a.state = true) (hr : ResOff id c) : ResOff id (c.leaveApp app) :=
  resMid_leaveApp c app hw hterm hr

theorem resOff_sweepTerminated {id : String} (c : Core) (hw : CoreWF c) (hb : Books c) (hr : ResOff id c) :
    ResOff id c.sweepTerminated := resMid_sweepTerminated c hw hb hr

/-! ### before the fold, after the drop -/

open ResD in
/-- the reservation invariant, seen from the node `id` that is about to be removed -/
theorem ResInv.resMid {s : Core} (h : ResInv s) {id : String} {n : CNode} (hn : s.findNode id = some n) :
    ResMid id n.reservations s := by
  obtain ⟨hnm, hnid⟩ := findNode_some hn
  refine ⟨?_, ?_, h.nodeKeys n hnm, h.outstanding, h.onePerAsk, fun n' hn' _ => h.nodeApp n' hn',
    fun n' hn' _ => h.nodeKeys n' hn', h.owner, ?_, ?_, h.queueKeys, h.queueApp, h.counter,
    fun n' hn' _ => h.nodeExcl n' hn', h.quiet⟩
  · intro a ha hl r hr
    obtain ⟨n', hn', hk⟩ := h.appNode a ha hl r hr
    refine ⟨?_, fun _ => ⟨n', hn', hk⟩⟩
    intro he
    rw [he, hn] at hn'
    rw [Option.some.inj hn']; exact hk
  · intro k hk
    have := h.nodeApp n hnm k hk
    rw [hnid] at this; exact this
  · intro a ha hl
    exact ((queueCount_split s a).mp (h.queueCount a ha hl)).1
  · intro a ha hl
    exact ((queueCount_split s a).mp (h.queueCount a ha hl)).2

open ResD in
/-- the node is dropped: away from it the invariant held all the time -/
theorem res_dropNode (c : Core) (id : String) (t t' : Res) (hr : ResOff id c) :
    ResInv (setRootMax { c with nodes := c.nodes.filter (·.id != id), total := t } t') := by
  have hnode : ∀ n ∈ (setRootMax { c with nodes := c.nodes.filter (·.id != id), total := t } t').nodes,
      n ∈ c.nodes ∧ n.id ≠ id := by
    intro n hn
    have hn' : n ∈ c.nodes.filter (·.id != id) := hn
    obtain ⟨h1, h2⟩ := List.mem_filter.mp hn'
    exact ⟨h1, by simpa using h2⟩
  have hqsrc : ∀ q' ∈ (setRootMax { c with nodes := c.nodes.filter (·.id != id), total := t } t').queues,
      ∃ q ∈ c.queues, q'.path = q.path ∧ q'.reserved = q.reserved := by
    intro q' hq'
    obtain ⟨q, hq, rfl⟩ := List.mem_map.mp hq'
    refine ⟨q, hq, ?_⟩
    split <;> exact ⟨rfl, rfl⟩
  have hqdst : ∀ q ∈ c.queues, ∃ q' ∈ (setRootMax { c with nodes := c.nodes.filter (·.id != id), total := t } t').queues,
      q'.path = q.path := by
    intro q hq
    refine ⟨_, List.mem_map.mpr ⟨q, hq, rfl⟩, ?_⟩
    split <;> rfl
  refine ⟨?_, hr.outstanding, hr.onePerAsk, ?_, ?_, hr.owner, ?_, ?_, ?_, hr.counter, ?_, hr.quiet⟩
  · intro a ha hl r hrr
    obtain ⟨h1, h2⟩ := hr.appNode a ha hl r hrr
    have hne : r.2 ≠ id := fun he => by cases h1 he
    obtain ⟨n, hn, hk⟩ := h2 hne
    exact ⟨n, (findNode_filter_ne c id r.2 t hne).trans hn, hk⟩
  · intro n hn k hk
    obtain ⟨h1, h2⟩ := hnode n hn
    exact hr.nodeApp n h1 h2 k hk
  · intro n hn
    obtain ⟨h1, h2⟩ := hnode n hn
    exact hr.nodeKeys n h1 h2
  · intro a ha hl
    refine (queueCount_split _ a).mpr ⟨?_, ?_⟩
    · intro hno
      apply hr.queueNone a ha hl
      intro q hq he
      obtain ⟨q', hq', hp⟩ := hqdst q hq
      exact hno q' hq' (hp.trans he)
    · intro q' hq' hp
      obtain ⟨q, hq, h1, h2⟩ := hqsrc q' hq'
      rw [h2]
      exact hr.queueCount a ha hl q hq (h1.symm.trans hp)
  · intro q' hq'
    obtain ⟨q, hq, _, h2⟩ := hqsrc q' hq'
    rw [h2]; exact hr.queueKeys q hq
  · intro q' hq' r hrq
    obtain ⟨q, hq, h1, h2⟩ := hqsrc q' hq'
    rw [h2] at hrq
    rw [h1]
    exact hr.queueApp q hq r hrq
  · intro n hn
    obtain ⟨h1, h2⟩ := hnode n hn
    exact hr.nodeExcl n h1 h2

/-! ### `nodeRemove` -/

/-- partition.removeNode keeps the reservation invariant -/
theorem res_nodeRemove (s : Core) (id : String) (order : List (String × String)) (hi : CoreInv s) (hr : ResInv s)
    (hok : NodeRemoveOK s id order) : ResInv (s.nodeRemove id order) := by
  unfold nodeRemove
  split
  · exact hr
  · rename_i n hn
    obtain ⟨hb0, hw0, _⟩ := unreserveFold_props id n.reservations s hi.wf hi.books
    have hL0 := lifeCore_unreserveFold id n.reservations s hi.life.toLifeCore
    have hr0 : ResOff id _ := resMid_unreserveFold n.reservations s hi.wf hi.books (hr.resMid hn)
    obtain ⟨hb1, hw1, _⟩ := nodeLoop_props id _ _ hw0 hb0 (hok n hn)
    have hr1 : ResOff id _ := resMid_nodeLoop id _ _ hw0 hb0 hL0 (hok n hn) hr0
    have hr2 : ResOff id _ := resOff_sweepTerminated _ hw1 hb1 hr1
    exact res_dropNode _ id _ _ hr2

end Yk
