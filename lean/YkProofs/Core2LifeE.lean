/-
  Step-level theorems about single operations of the stepped Core model for the properties C06 (placeholder timeout:
  `phTimeout` / `phTimeoutOf`, and what the release of the last placeholder does afterwards) and C10 (life cycle: `ask`,
  `relAppT`, `askAppT`, `stateTimeout`), and two histories from the empty partition in which a node removal rolls back
  an in-flight swap of an application that has just become Completing (`exOpsC10`, `exOpsC10b`: the application runs
  again with the ask outstanding; before the repair 20ee082 of `Application.DeallocateAsk` they were the refutation
  witnesses of the C10 clause about asks, `NoPendInv`: Completing, then Completed, with an outstanding ask).
  Helper lemmas: namespace `Yk.LifeE`; main theorems: `Yk`; histories: `Yk.Example`.
-/
import YkProofs.Core2Life
import YkProofs.Core2Example2
namespace Yk
open Res Core

namespace LifeE

/-! ### the application found after one application was updated -/

/-- the record `findApp` returns after `updApp` (the update keeps the application live and keeps its id) -/
theorem find_updApps (apps : List CApp) (id : String) (f : CApp → CApp) (a : CApp)
    (h : (apps.filter (·.live)).find? (·.id == id) = some a) (hl : (f a).live = true) (hid : (f a).id = id) :
    ((updApps apps id f).filter (·.live)).find? (·.id == id) = some (f a) := by
  induction apps with
  | nil => simp at h
  | cons x t ih =>
    unfold updApps
    rw [List.map_cons]
    by_cases hd : (x.live && x.id == id) = true
    · rw [if_pos hd]
      have hd' := hd
      simp only [Bool.and_eq_true] at hd'
      have hxa : x = a := by
        rw [List.filter_cons, if_pos hd'.1, List.find?_cons, hd'.2] at h
        simpa using h
      rw [hxa, List.filter_cons, if_pos hl, List.find?_cons]
      have : ((f a).id == id) = true := by simpa using hid
      rw [this]
    · rw [if_neg hd]
      cases hxl : x.live with
      | false =>
        rw [List.filter_cons, hxl] at h ⊢
        simp only [Bool.false_eq_true, if_false] at h ⊢
        exact ih h
      | true =>
        have hne : (x.id == id) = false := by
          cases hx : (x.id == id) with
          | false => rfl
          | true => exact absurd (by simp [hxl, hx]) hd
        rw [List.filter_cons, hxl] at h ⊢
        simp only [if_true] at h ⊢
        rw [List.find?_cons, hne] at h ⊢
        exact ih h

/-- `findApp` after an update that keeps the application in the partition -/
theorem findApp_upd {s t : Core} {id : String} {f : CApp → CApp} {a : CApp} (hta : t.apps = updApps s.apps id f)
    (hfind : s.findApp id = some a) (hl : (f a).live = true) (hid : (f a).id = id) : t.findApp id = some (f a) := by
  unfold findApp liveApps at hfind ⊢
  rw [hta]
  exact find_updApps s.apps id f a hfind hl hid

/-- `findApp` after an update that makes the application leave the partition -/
theorem findApp_upd_none {s t : Core} {id : String} {f : CApp → CApp} {a : CApp} (hw : CoreWF s)
    (hta : t.apps = updApps s.apps id f) (hfind : s.findApp id = some a) (hl : (f a).live = false) :
    t.findApp id = none := by
  obtain ⟨ham, hal, hid⟩ := findApp_some hfind
  apply findApp_eq_none
  intro y hy hyl
  rw [hta] at hy
  rcases mem_updApps hw.appIds ham hal hid hy with h | ⟨_, hnd⟩
  · rw [h, hl] at hyl; cases hyl
  · intro he; exact hnd (by simp [hyl, he])

/-- … the record that left is still listed (not live) -/
theorem mem_upd {s t : Core} {id : String} {f : CApp → CApp} {a : CApp} (hta : t.apps = updApps s.apps id f)
    (hfind : s.findApp id = some a) : f a ∈ t.apps := by
  obtain ⟨ham, hal, hid⟩ := findApp_some hfind
  rw [hta]
  refine List.mem_map.mpr ⟨a, ham, ?_⟩
  rw [if_pos (by simp [hal, hid])]

/-! ### `setState` -/

theorem setState_state (a : CApp) (st : String) : (setState a st).state = st := by
  unfold setState
  split
  · rename_i h; exact (by simpa using h : st = a.state).symm
  · rfl

/-! ### facts about the application state machine -/

theorem fire_accepted_fail : fireState "Accepted" .fail = "Failing" := by decide
theorem fire_new_fail : fireState "New" .fail = "Failing" := by decide
theorem fire_accepted_resume : fireState "Accepted" .resume = "Resuming" := by decide
theorem fire_new_resume : fireState "New" .resume = "Resuming" := by decide
theorem fire_resuming_complete : fireState "Resuming" .complete = "Resuming" := by decide
theorem fire_failing_fail : fireState "Failing" .fail = "Failed" := by decide
theorem fire_resuming_run : fireState "Resuming" .run = "Accepted" := by decide
theorem fire_accepted_complete : fireState "Accepted" .complete = "Completing" := by decide
theorem fire_running_complete : fireState "Running" .complete = "Completing" := by decide
theorem fire_completing_run : fireState "Completing" .run = "Running" := by decide
theorem fire_new_run : fireState "New" .run = "Accepted" := by decide
theorem fire_completing_complete : fireState "Completing" .complete = "Completed" := by decide

/-! ### `dropAsksApp`: the state check at the end of removeAsksInternal -/

/-- a Failing / Resuming / Completing application keeps its state when its asks are dropped -/
theorem dropAsksApp_state_keep (b : CApp) (h : b.state = "Failing" ∨ b.state = "Resuming" ∨ b.state = "Completing") :
    (dropAsksApp b).state = b.state := by
  unfold dropAsksApp
  split
  · rfl
  · rw [setState_state]
    rcases h with h | h | h
    · simp [h]
    · rw [h]
      split
      · exact fire_resuming_complete
      · rfl
    · simp [h]

/-- the state after the asks were dropped, in general -/
theorem dropAsksApp_state (b : CApp) :
    (dropAsksApp b).state =
      if (b.items.any (·.inReq) && isZero (some b.allocated) && b.state != "Failing" && b.state != "Completing" &&
          !((Timer.boundOnly b.items).any (fun y => y.ph))) = true
      then fireState b.state .complete else b.state := by
  unfold dropAsksApp Timer.boundOnly
  cases hr : b.items.any (·.inReq) with
  | false => simp
  | true => simp only [Bool.not_true, Bool.false_eq_true, if_false, setState_state, Bool.true_and]

/-! ### `phTimeout` (timeoutPlaceholderProcessing): the two cases and the application afterwards -/

/-- case 1 of timeoutPlaceholderProcessing: a Running / Completing application that still holds placeholders -/
def phCase1 (a : CApp) : Bool := (a.state == "Running" || a.state == "Completing") && !(isZero (some a.allocatedPh))

/-- case 1 on an item: a bound placeholder that is neither being replaced nor preempted is marked released -/
def relFlag1 (x : CItem) : CItem :=
  if (x.bound && x.ph && !x.released && !x.preempted) = true then { x with released := true } else x

/-- the application after `phTimeout` -/
def phAppOf (a : CApp) (ev : Option String) : CApp :=
  if phCase1 a = true then { a with items := a.items.map relFlag1 } else Timer.phApp2 a ev

theorem phTimeout_eq1 (s : Core) (app : String) (ev : Option String) (a : CApp) (hfind : s.findApp app = some a)
    (hc : phCase1 a = true) :
    s.phTimeout app ev = updApp s app (fun a => { a with items := a.items.map relFlag1 }) := by
  unfold phCase1 at hc
  unfold phTimeout; simp only [hfind, hc, if_true]; rfl

theorem phTimeout_eq2 (s : Core) (app : String) (ev : Option String) (a : CApp) (hfind : s.findApp app = some a)
    (hc : phCase1 a = false) :
    s.phTimeout app ev =
      if a.items.any (·.inReq) = true then unreserveApp (Timer.phCore2 s app ev a) a false else Timer.phCore2 s app ev a := by
  unfold phCase1 at hc
  unfold phTimeout; simp only [hfind, hc, Bool.false_eq_true, if_false]; rfl

theorem unreserveApp_apps (s : Core) (a : CApp) (c : Bool) : (unreserveApp s a c).apps = s.apps := by
  unfold unreserveApp; split <;> rfl

theorem unreserveApp_queues (s : Core) (a : CApp) (c : Bool) :
    ∃ g : CQueue → CQueue, (∀ q, (g q).path = q.path ∧ (g q).allocated = q.allocated ∧ (g q).pending = q.pending) ∧
      (unreserveApp s a c).queues = s.queues.map g := by
  unfold unreserveApp
  split
  · exact ⟨fun q => q, fun _ => ⟨rfl, rfl, rfl⟩, by simp⟩
  · refine ⟨_, ?_, rfl⟩
    intro q; split <;> exact ⟨rfl, rfl, rfl⟩

theorem phCore2_apps (s : Core) (app : String) (ev : Option String) (a : CApp) :
    (Timer.phCore2 s app ev a).apps = updApps s.apps app (fun _ => Timer.phApp2 a ev) := by
  unfold Timer.phCore2; dsimp only; split <;> rfl

theorem phTimeout_apps2 (s : Core) (app : String) (ev : Option String) (a : CApp) (hfind : s.findApp app = some a)
    (hc : phCase1 a = false) : (s.phTimeout app ev).apps = updApps s.apps app (fun _ => Timer.phApp2 a ev) := by
  rw [phTimeout_eq2 s app ev a hfind hc]
  split
  · rw [unreserveApp_apps, phCore2_apps]
  · rw [phCore2_apps]

/-- the application stays live in `phTimeout`; the record afterwards -/
theorem phTimeout_findApp (s : Core) (app : String) (ev : Option String) (a : CApp) (hfind : s.findApp app = some a) :
    (s.phTimeout app ev).findApp app = some (phAppOf a ev) := by
  obtain ⟨_, hl, hid⟩ := findApp_some hfind
  unfold phAppOf
  cases hc : phCase1 a with
  | true =>
    rw [if_pos rfl]
    exact findApp_upd (f := fun a => { a with items := a.items.map relFlag1 })
      (by rw [phTimeout_eq1 s app ev a hfind hc]; rfl) hfind hl hid
  | false =>
    rw [if_neg Bool.false_ne_true]
    obtain ⟨f1, _, f3, _⟩ := Timer.phApp2_fields a ev
    exact findApp_upd (f := fun _ => Timer.phApp2 a ev) (phTimeout_apps2 s app ev a hfind hc) hfind (by rw [f3]; exact hl)
      (by rw [f1]; exact hid)

theorem phApp1_state (a : CApp) (ev : Option String) : (Timer.phApp1 a ev).state = ev.getD a.state := by
  unfold Timer.phApp1
  cases ev with
  | none => rfl
  | some st => exact setState_state a st

/-- the items after case 2: every allocation that is not preempted is marked released … -/
def relFlag2 (x : CItem) : CItem := if (x.bound && !x.preempted) = true then { x with released := true } else x

theorem phApp2_items (a : CApp) (ev : Option String) :
    (Timer.phApp2 a ev).items =
      if a.items.any (·.inReq) = true then Timer.boundOnly (a.items.map relFlag2) else a.items.map relFlag2 := by
  unfold Timer.phApp2
  have h1 : (Timer.phApp1 a ev).items = a.items.map relFlag2 := (Timer.phApp1_fields a ev).1
  cases hr : a.items.any (·.inReq) with
  | false =>
    rw [Timer.dropAsksApp_noreq _ (by rw [Timer.phApp1_anyReq]; exact hr), h1]; simp
  | true =>
    rw [(Timer.dropAsksApp_fields _ (by rw [Timer.phApp1_anyReq]; exact hr)).1, h1]; simp

theorem relFlag2_released (x : CItem) (hb : (relFlag2 x).bound = true) (hp : (relFlag2 x).preempted = false) :
    (relFlag2 x).released = true := by
  unfold relFlag2 at hb hp ⊢
  by_cases h : (x.bound && !x.preempted) = true
  · rw [if_pos h]
  · rw [if_neg h] at hb hp
    exact absurd (by simp [hb, hp]) h

theorem relFlag1_released (x : CItem) (hb : (relFlag1 x).bound = true) (hph : (relFlag1 x).ph = true)
    (hp : (relFlag1 x).preempted = false) : (relFlag1 x).released = true := by
  unfold relFlag1 at hb hph hp ⊢
  by_cases h : (x.bound && x.ph && !x.released && !x.preempted) = true
  · rw [if_pos h]
  · rw [if_neg h] at hb hph hp ⊢
    cases hr : x.released with
    | true => rfl
    | false => exact absurd (by simp [hb, hph, hp, hr]) h

/-- the event the application announces: FailApplication (Hard) / ResumeApplication (Soft); an event that is not valid in
    the current state changes nothing -/
def phEv (hard : Bool) (a : CApp) : Option String :=
  let st := fireState a.state (if hard then .fail else .resume)
  if st == a.state then none else some st

/-- case 2 with a Failing / Resuming announcement: that is the state afterwards (the state check at the end of
    removeAsksInternal does not touch it) -/
theorem phAppOf_state2 (a : CApp) (st : String) (hc : phCase1 a = false) (hst : st = "Failing" ∨ st = "Resuming") :
    (phAppOf a (some st)).state = st := by
  unfold phAppOf Timer.phApp2
  rw [if_neg (by rw [hc]; exact Bool.false_ne_true)]
  have h1 : (Timer.phApp1 a (some st)).state = st := phApp1_state a (some st)
  rw [dropAsksApp_state_keep _ (by rw [h1]; rcases hst with h | h <;> simp [h]), h1]

/-! ### the state `relAppT` / `askAppT` compute -/

/-- the state `relAppT` computes, placeholder branch -/
def relStPh (tt : TermType) (i : CItem) (a : CApp) : String :=
  let aph := prune (subX a.allocatedPh i.res)
  let replacing := tt == .replaced && i.release.isSome
  let failed := a.state == "Failing" && isZero (some a.allocated)
  if isZero (some aph) &&
     ((a.state == "Completing" && !a.stateTimer && !replacing) || failed || a.state == "Resuming" ||
      (isZero (some a.pending) && isZero (some a.allocated) && !replacing && a.state != "Failing")) then
    (if a.state == "Failing" then fireState a.state .fail
     else if a.state == "Resuming" then fireState a.state .run
     else fireState a.state .complete)
  else a.state

/-- … real branch -/
def relStReal (i : CItem) (a : CApp) : String :=
  if isZero (some a.pending) && isZero (some (prune (subX a.allocated i.res))) then
    (if a.state == "Failing" then (if isZero (some a.allocatedPh) then fireState a.state .fail else a.state)
     else fireState a.state .complete)
  else a.state

theorem relAppT_ph (tt : TermType) (key : String) (i : CItem) (a : CApp) (hph : i.ph = true) :
    (relAppT tt key i a).state = relStPh tt i a ∧ (relAppT tt key i a).live = !(terminated (relStPh tt i a)) := by
  unfold relAppT relStPh
  simp only [hph, if_true, setState_state]
  exact ⟨trivial, trivial⟩

theorem relAppT_real (tt : TermType) (key : String) (i : CItem) (a : CApp) (hph : i.ph = false) :
    (relAppT tt key i a).state = relStReal i a ∧ (relAppT tt key i a).live = !(terminated (relStReal i a)) := by
  unfold relAppT relStReal
  simp only [hph, Bool.false_eq_true, if_false, setState_state]
  exact ⟨trivial, trivial⟩

theorem isZero_false_of_sgtz {r : Res} (h : strictlyGreaterThanZero (some r) = true) : isZero (some r) = false := by
  unfold strictlyGreaterThanZero at h
  simp only at h
  split at h
  · cases h
  · obtain ⟨p, hp, hpos⟩ := List.any_eq_true.mp h
    cases hz : isZero (some r) with
    | false => rfl
    | true =>
      unfold isZero at hz
      simp only at hz
      have := List.all_eq_true.mp hz p hp
      simp only [beq_iff_eq] at this
      simp only [decide_eq_true_eq] at hpos
      omega

end LifeE

/-! ## A. C06 — timeoutPlaceholderProcessing -/

/-- timeoutPlaceholderProcessing of a Hard (`hard = true`: FailApplication) or Soft (ResumeApplication) gang application:
    the gang style is not part of the model state; an event that is not valid in the current state changes nothing. -/
def phTimeoutOf (hard : Bool) (s : Core) (app : String) : Core :=
  match s.findApp app with
  | none => s
  | some a =>
    let st := fireState a.state (if hard then .fail else .resume)
    s.phTimeout app (if st == a.state then none else some st)

theorem phTimeoutOf_eq (hard : Bool) (s : Core) (app : String) (a : CApp) (hfind : s.findApp app = some a) :
    phTimeoutOf hard s app = s.phTimeout app (LifeE.phEv hard a) := by
  unfold phTimeoutOf LifeE.phEv
  simp only [hfind]

/-- the application stays live in `phTimeout` -/
theorem phTimeout_live (s : Core) (app : String) (ev : Option String) (a : CApp) (hfind : s.findApp app = some a) :
    ∃ a', (s.phTimeout app ev).findApp app = some a' ∧ a'.id = a.id ∧ a'.queue = a.queue ∧ a'.allocated = a.allocated ∧
      a'.allocatedPh = a.allocatedPh := by
  refine ⟨_, LifeE.phTimeout_findApp s app ev a hfind, ?_⟩
  unfold LifeE.phAppOf
  split
  · exact ⟨rfl, rfl, rfl, rfl⟩
  · obtain ⟨f1, f2, _, f4, f5, _⟩ := Timer.phApp2_fields a ev
    exact ⟨f1, f2, f4, f5⟩

theorem phTimeoutOf_live (hard : Bool) (s : Core) (app : String) (a : CApp) (hfind : s.findApp app = some a) :
    ∃ a', (phTimeoutOf hard s app).findApp app = some a' ∧ a'.id = a.id ∧ a'.queue = a.queue ∧ a'.allocated = a.allocated ∧
      a'.allocatedPh = a.allocatedPh := by
  rw [phTimeoutOf_eq hard s app a hfind]; exact phTimeout_live s app _ a hfind

/-- (i) Hard gang style: an Accepted / New application is Failing afterwards -/
theorem phTimeoutOf_hard (s : Core) (app : String) (a : CApp) (hfind : s.findApp app = some a)
    (hst : a.state = "Accepted" ∨ a.state = "New") :
    ∃ a', (phTimeoutOf true s app).findApp app = some a' ∧ a'.state = "Failing" := by
  rw [phTimeoutOf_eq true s app a hfind, LifeE.phTimeout_findApp s app _ a hfind]
  refine ⟨_, rfl, ?_⟩
  have hev : LifeE.phEv true a = some "Failing" := by
    unfold LifeE.phEv
    rcases hst with h | h <;> rw [h] <;> decide
  have hc : LifeE.phCase1 a = false := by
    unfold LifeE.phCase1
    rcases hst with h | h <;> simp [h]
  rw [hev]
  exact LifeE.phAppOf_state2 a "Failing" hc (Or.inl rfl)

/-- (i) Soft gang style: an Accepted / New application is Resuming afterwards -/
theorem phTimeoutOf_soft (s : Core) (app : String) (a : CApp) (hfind : s.findApp app = some a)
    (hst : a.state = "Accepted" ∨ a.state = "New") :
    ∃ a', (phTimeoutOf false s app).findApp app = some a' ∧ a'.state = "Resuming" := by
  rw [phTimeoutOf_eq false s app a hfind, LifeE.phTimeout_findApp s app _ a hfind]
  refine ⟨_, rfl, ?_⟩
  have hev : LifeE.phEv false a = some "Resuming" := by
    unfold LifeE.phEv
    rcases hst with h | h <;> rw [h] <;> decide
  have hc : LifeE.phCase1 a = false := by
    unfold LifeE.phCase1
    rcases hst with h | h <;> simp [h]
  rw [hev]
  exact LifeE.phAppOf_state2 a "Resuming" hc (Or.inr rfl)

/-- (i) case 1 — a Running / Completing application that still holds placeholders: no state change, no ledger change;
    (ii) every bound placeholder that is not preempted is marked released -/
theorem phTimeout_case1 (s : Core) (app : String) (ev : Option String) (a : CApp) (hfind : s.findApp app = some a)
    (hst : a.state = "Running" ∨ a.state = "Completing") (hph : isZero (some a.allocatedPh) = false) :
    ∃ a', (s.phTimeout app ev).findApp app = some a' ∧ a'.state = a.state ∧ a'.pending = a.pending ∧
      a'.items = a.items.map LifeE.relFlag1 ∧
      ∀ i ∈ a'.items, i.bound = true → i.ph = true → i.preempted = false → i.released = true := by
  have hc : LifeE.phCase1 a = true := by
    unfold LifeE.phCase1
    rcases hst with h | h <;> simp [h, hph]
  refine ⟨_, LifeE.phTimeout_findApp s app ev a hfind, ?_⟩
  unfold LifeE.phAppOf
  rw [if_pos hc]
  refine ⟨rfl, rfl, rfl, ?_⟩
  intro i hi
  obtain ⟨x, _, rfl⟩ := List.mem_map.mp hi
  exact LifeE.relFlag1_released x

theorem phTimeoutOf_case1 (hard : Bool) (s : Core) (app : String) (a : CApp) (hfind : s.findApp app = some a)
    (hst : a.state = "Running" ∨ a.state = "Completing") (hph : isZero (some a.allocatedPh) = false) :
    ∃ a', (phTimeoutOf hard s app).findApp app = some a' ∧ a'.state = a.state ∧ a'.pending = a.pending ∧
      a'.items = a.items.map LifeE.relFlag1 ∧
      ∀ i ∈ a'.items, i.bound = true → i.ph = true → i.preempted = false → i.released = true := by
  rw [phTimeoutOf_eq hard s app a hfind]; exact phTimeout_case1 s app _ a hfind hst hph

/-- (ii) case 2 for an application with at least one request: afterwards it lists bound items only (every unallocated
    ask, in particular every unallocated placeholder ask, is gone) and its pending total is empty -/
theorem phTimeout_case2_asks (s : Core) (app : String) (ev : Option String) (a : CApp) (hfind : s.findApp app = some a)
    (hc : LifeE.phCase1 a = false) (hreq : a.items.any (·.inReq) = true) :
    ∃ a', (s.phTimeout app ev).findApp app = some a' ∧
      (∀ i ∈ a'.items, i.bound = true ∧ i.inReq = false ∧ i.outstanding = false) ∧ a'.pending = [] := by
  refine ⟨_, LifeE.phTimeout_findApp s app ev a hfind, ?_⟩
  unfold LifeE.phAppOf
  rw [if_neg (by rw [hc]; exact Bool.false_ne_true)]
  constructor
  · intro i hi
    rw [LifeE.phApp2_items, if_pos hreq] at hi
    obtain ⟨x, _, hxb, rfl⟩ := Timer.mem_boundOnly hi
    exact ⟨hxb, rfl, rfl⟩
  · rw [(Timer.phApp2_fields a ev).2.2.2.2.2, if_pos hreq]

/-- (ii) in both cases every bound placeholder that is not marked preempted is marked released afterwards; in case 2
    every bound item that is not marked preempted -/
theorem phTimeout_released (s : Core) (app : String) (ev : Option String) (a : CApp) (hfind : s.findApp app = some a) :
    ∃ a', (s.phTimeout app ev).findApp app = some a' ∧
      (LifeE.phCase1 a = false → ∀ i ∈ a'.items, i.bound = true → i.preempted = false → i.released = true) ∧
      (∀ i ∈ a'.items, i.bound = true → i.ph = true → i.preempted = false → i.released = true) := by
  refine ⟨_, LifeE.phTimeout_findApp s app ev a hfind, ?_⟩
  have h2 : LifeE.phCase1 a = false →
      ∀ i ∈ (Timer.phApp2 a ev).items, i.bound = true → i.preempted = false → i.released = true := by
    intro _ i hi
    rw [LifeE.phApp2_items] at hi
    split at hi
    · obtain ⟨x, hx, _, rfl⟩ := Timer.mem_boundOnly hi
      obtain ⟨y, _, rfl⟩ := List.mem_map.mp hx
      exact LifeE.relFlag2_released y
    · obtain ⟨y, _, rfl⟩ := List.mem_map.mp hi
      exact LifeE.relFlag2_released y
  unfold LifeE.phAppOf
  cases hc : LifeE.phCase1 a with
  | true =>
    rw [if_pos rfl]
    refine ⟨fun h => (by cases h), ?_⟩
    intro i hi
    obtain ⟨x, _, rfl⟩ := List.mem_map.mp hi
    exact LifeE.relFlag1_released x
  | false =>
    rw [if_neg Bool.false_ne_true]
    exact ⟨fun _ => h2 hc, fun i hi hb _ hp => h2 hc i hi hb hp⟩

/-- (ii) case 2 for an application with at least one request: the application's pending total leaves every queue of its
    chain (decPendingResource down the chain); the other queues and the allocated totals are untouched -/
theorem phTimeout_case2_queues (s : Core) (app : String) (ev : Option String) (a : CApp) (hw : CoreWF s) (hb : Books s)
    (hfind : s.findApp app = some a) (hc : LifeE.phCase1 a = false) (hreq : a.items.any (·.inReq) = true) :
    ∃ F : CQueue → CQueue, (s.phTimeout app ev).queues = s.queues.map F ∧ ∀ q ∈ s.queues,
      (F q).path = q.path ∧ (F q).allocated = q.allocated ∧
      (under a.queue q.path = true → ∀ k, (F q).pending.getD k = q.pending.getD k - a.pending.getD k) ∧
      (under a.queue q.path = false → (F q).pending = q.pending) := by
  obtain ⟨ham, hl, _⟩ := findApp_some hfind
  have hwa := hw.app ham hl
  obtain ⟨g, hg, e⟩ := LifeE.unreserveApp_queues (Timer.phCore2 s app ev a) a false
  have eq : (Timer.phCore2 s app ev a).queues = updQs s.queues (pathChain s a.queue) (qDecPend a.pending) := by
    unfold Timer.phCore2; simp only [hreq, if_true]; rfl
  refine ⟨fun q => g (if (pathChain s a.queue).contains q.path = true then qDecPend a.pending q else q), ?_, ?_⟩
  · rw [LifeE.phTimeout_eq2 s app ev a hfind hc, if_pos hreq, e, eq]
    unfold updQs; rw [List.map_map]; rfl
  · intro q hq
    obtain ⟨h1, h2, h3⟩ := hg (if (pathChain s a.queue).contains q.path = true then qDecPend a.pending q else q)
    dsimp only
    rw [h1, h2, h3]
    refine ⟨?_, ?_, ?_, ?_⟩
    · split <;> rfl
    · split <;> rfl
    · intro hun k
      rw [if_pos ((chain_iff s a.queue q hq).mpr hun)]
      have hge := fun k' => app_pending_ge s.apps (fun y hy hyl j hj => (hw.itemRes y hy hyl j hj).2) hb.apps a ham hl q
        (hb.queues q hq) hun k'
      exact qDecPend_pending _ _ (hw.queue hq) hwa.appRes.1 hge k
    · intro hun
      have : ¬ (pathChain s a.queue).contains q.path = true := by
        intro h; rw [(chain_iff s a.queue q hq).mp h] at hun; cases hun
      rw [if_neg this]

/-- the same facts for `phTimeoutOf` -/
theorem phTimeoutOf_case2_asks (hard : Bool) (s : Core) (app : String) (a : CApp) (hfind : s.findApp app = some a)
    (hc : LifeE.phCase1 a = false) (hreq : a.items.any (·.inReq) = true) :
    ∃ a', (phTimeoutOf hard s app).findApp app = some a' ∧
      (∀ i ∈ a'.items, i.bound = true ∧ i.inReq = false ∧ i.outstanding = false) ∧ a'.pending = [] := by
  rw [phTimeoutOf_eq hard s app a hfind]; exact phTimeout_case2_asks s app _ a hfind hc hreq

theorem phTimeoutOf_released (hard : Bool) (s : Core) (app : String) (a : CApp) (hfind : s.findApp app = some a) :
    ∃ a', (phTimeoutOf hard s app).findApp app = some a' ∧
      (LifeE.phCase1 a = false → ∀ i ∈ a'.items, i.bound = true → i.preempted = false → i.released = true) ∧
      (∀ i ∈ a'.items, i.bound = true → i.ph = true → i.preempted = false → i.released = true) := by
  rw [phTimeoutOf_eq hard s app a hfind]; exact phTimeout_released s app _ a hfind

theorem phTimeoutOf_case2_queues (hard : Bool) (s : Core) (app : String) (a : CApp) (hw : CoreWF s) (hb : Books s)
    (hfind : s.findApp app = some a) (hc : LifeE.phCase1 a = false) (hreq : a.items.any (·.inReq) = true) :
    ∃ F : CQueue → CQueue, (phTimeoutOf hard s app).queues = s.queues.map F ∧ ∀ q ∈ s.queues,
      (F q).path = q.path ∧ (F q).allocated = q.allocated ∧
      (under a.queue q.path = true → ∀ k, (F q).pending.getD k = q.pending.getD k - a.pending.getD k) ∧
      (under a.queue q.path = false → (F q).pending = q.pending) := by
  rw [phTimeoutOf_eq hard s app a hfind]; exact phTimeout_case2_queues s app _ a hw hb hfind hc hreq

/-- the follow-up of a Hard timeout: when the LAST placeholder of a Failing application goes (new placeholder total
    zero) and the application holds no real allocation, the application is Failed and leaves the partition
    (fix 81c5cb7) -/
theorem relAppT_failing_last (tt : TermType) (key : String) (i : CItem) (a : CApp) (hph : i.ph = true)
    (hst : a.state = "Failing") (hz : isZero (some (relAppT tt key i a).allocatedPh) = true)
    (hr : isZero (some a.allocated) = true) :
    (relAppT tt key i a).state = "Failed" ∧ (relAppT tt key i a).live = false := by
  rw [relAppT_allocatedPh, if_pos hph] at hz
  obtain ⟨h1, h2⟩ := LifeE.relAppT_ph tt key i a hph
  have : LifeE.relStPh tt i a = "Failed" := by
    unfold LifeE.relStPh
    simp [hz, hr, hst, LifeE.fire_failing_fail]
  rw [h1, h2, this]
  exact ⟨rfl, by decide⟩

/-- … with a real allocation left the application stays Failing and in the partition: it waits for its real
    allocations (the hypothesis about the new placeholder total is not needed; it is kept for the shape of the case) -/
theorem relAppT_failing_last_keeps (tt : TermType) (key : String) (i : CItem) (a : CApp) (hph : i.ph = true)
    (hst : a.state = "Failing") (_hz : isZero (some (relAppT tt key i a).allocatedPh) = true)
    (hr : isZero (some a.allocated) = false) :
    (relAppT tt key i a).state = "Failing" ∧ (relAppT tt key i a).live = true := by
  obtain ⟨h1, h2⟩ := LifeE.relAppT_ph tt key i a hph
  have : LifeE.relStPh tt i a = "Failing" := by
    unfold LifeE.relStPh
    simp [hr, hst]
  rw [h1, h2, this]
  exact ⟨rfl, by decide⟩

/-- the last real allocation of a Failing application that has neither outstanding asks nor placeholders goes: the
    application is Failed and leaves the partition -/
theorem relAppT_failing_last_real (tt : TermType) (key : String) (i : CItem) (a : CApp) (hph : i.ph = false)
    (hst : a.state = "Failing") (hp : isZero (some a.pending) = true)
    (hz : isZero (some (relAppT tt key i a).allocated) = true) (hzp : isZero (some a.allocatedPh) = true) :
    (relAppT tt key i a).state = "Failed" ∧ (relAppT tt key i a).live = false := by
  rw [relAppT_allocated, if_neg (by rw [hph]; exact Bool.false_ne_true)] at hz
  obtain ⟨h1, h2⟩ := LifeE.relAppT_real tt key i a hph
  have : LifeE.relStReal i a = "Failed" := by
    unfold LifeE.relStReal
    simp [hz, hp, hzp, hst, LifeE.fire_failing_fail]
  rw [h1, h2, this]
  exact ⟨rfl, by decide⟩

/-- … with placeholders left the application stays Failing and in the partition (whatever else it holds) -/
theorem relAppT_failing_real_keeps (tt : TermType) (key : String) (i : CItem) (a : CApp) (hph : i.ph = false)
    (hst : a.state = "Failing") (hzp : isZero (some a.allocatedPh) = false) :
    (relAppT tt key i a).state = "Failing" ∧ (relAppT tt key i a).live = true := by
  obtain ⟨h1, h2⟩ := LifeE.relAppT_real tt key i a hph
  have : LifeE.relStReal i a = "Failing" := by
    unfold LifeE.relStReal
    simp [hzp, hst]
  rw [h1, h2, this]
  exact ⟨rfl, by decide⟩

/-- the follow-up of a Soft timeout: when the last placeholder of a Resuming application goes the application is
    Accepted again and stays in the partition -/
theorem relAppT_resuming_last (tt : TermType) (key : String) (i : CItem) (a : CApp) (hph : i.ph = true)
    (hst : a.state = "Resuming") (hz : isZero (some (relAppT tt key i a).allocatedPh) = true) :
    (relAppT tt key i a).state = "Accepted" ∧ (relAppT tt key i a).live = true := by
  rw [relAppT_allocatedPh, if_pos hph] at hz
  obtain ⟨h1, h2⟩ := LifeE.relAppT_ph tt key i a hph
  have : LifeE.relStPh tt i a = "Accepted" := by
    unfold LifeE.relStPh
    simp [hz, hst, LifeE.fire_resuming_run]
  rw [h1, h2, this]
  exact ⟨rfl, by decide⟩

/-! ## B. C10 — step theorems -/

/-- an ask that is accepted moves a Completing application back to Running -/
theorem ask_completing_runs (s : Core) (app key : String) (res : Res) (ph : Bool) (tg reqNode : String) (a : CApp)
    (hfind : s.findApp app = some a) (hst : a.state = "Completing")
    (hres : strictlyGreaterThanZero (some res) = true) (hnew : a.items.any (fun i => i.key == key && i.inReq) = false) :
    (s.ask app key res ph tg reqNode).2 = true ∧
    ∃ a', (s.ask app key res ph tg reqNode).1.findApp app = some a' ∧ a'.state = "Running" := by
  obtain ⟨_, hl, hid⟩ := findApp_some hfind
  have hz := LifeE.isZero_false_of_sgtz hres
  unfold ask
  simp only [hfind, hz, hres, hnew, Bool.not_true, Bool.or_self, Bool.false_eq_true, if_false]
  refine ⟨trivial, _, LifeE.findApp_upd (s := s) (by rfl) hfind hl hid, ?_⟩
  simp [hst, LifeE.fire_completing_run]

/-- … and a New application to Accepted -/
theorem ask_new_accepted (s : Core) (app key : String) (res : Res) (ph : Bool) (tg reqNode : String) (a : CApp)
    (hfind : s.findApp app = some a) (hst : a.state = "New")
    (hres : strictlyGreaterThanZero (some res) = true) (hnew : a.items.any (fun i => i.key == key && i.inReq) = false) :
    (s.ask app key res ph tg reqNode).2 = true ∧
    ∃ a', (s.ask app key res ph tg reqNode).1.findApp app = some a' ∧ a'.state = "Accepted" := by
  obtain ⟨_, hl, hid⟩ := findApp_some hfind
  have hz := LifeE.isZero_false_of_sgtz hres
  unfold ask
  simp only [hfind, hz, hres, hnew, Bool.not_true, Bool.or_self, Bool.false_eq_true, if_false]
  refine ⟨trivial, _, LifeE.findApp_upd (s := s) (by rfl) hfind hl hid, ?_⟩
  simp [hst, LifeE.fire_new_run]

/-- the last real allocation of an Accepted / Running application without outstanding asks goes: Completing -/
theorem relAppT_idle_real (tt : TermType) (key : String) (i : CItem) (a : CApp) (hph : i.ph = false)
    (hp : isZero (some a.pending) = true) (hz : isZero (some (relAppT tt key i a).allocated) = true)
    (hst : a.state = "Accepted" ∨ a.state = "Running") :
    (relAppT tt key i a).state = "Completing" ∧ (relAppT tt key i a).live = true := by
  rw [relAppT_allocated, if_neg (by rw [hph]; exact Bool.false_ne_true)] at hz
  obtain ⟨h1, h2⟩ := LifeE.relAppT_real tt key i a hph
  have : LifeE.relStReal i a = "Completing" := by
    unfold LifeE.relStReal
    rcases hst with h | h
    · simp [hz, hp, h, LifeE.fire_accepted_complete]
    · simp [hz, hp, h, LifeE.fire_running_complete]
  rw [h1, h2, this]
  exact ⟨rfl, by decide⟩

/-- the last placeholder of an Accepted / Running application that has neither outstanding asks nor real allocations
    goes, and this is not the confirmation of a replacement: Completing -/
theorem relAppT_idle_ph (tt : TermType) (key : String) (i : CItem) (a : CApp) (hph : i.ph = true)
    (hz : isZero (some (relAppT tt key i a).allocatedPh) = true)
    (hp : isZero (some a.pending) = true) (hr : isZero (some a.allocated) = true)
    (hrepl : tt ≠ .replaced ∨ i.release = none)
    (hst : a.state = "Accepted" ∨ a.state = "Running") :
    (relAppT tt key i a).state = "Completing" ∧ (relAppT tt key i a).live = true := by
  rw [relAppT_allocatedPh, if_pos hph] at hz
  obtain ⟨h1, h2⟩ := LifeE.relAppT_ph tt key i a hph
  have hnr : (tt == TermType.replaced && i.release.isSome) = false := by
    rcases hrepl with h | h
    · have : (tt == TermType.replaced) = false := by simpa using h
      rw [this]; rfl
    · rw [h]; simp
  have : LifeE.relStPh tt i a = "Completing" := by
    unfold LifeE.relStPh
    rcases hst with h | h
    · simp [hz, hp, hr, hnr, h, LifeE.fire_accepted_complete]
    · simp [hz, hp, hr, hnr, h, LifeE.fire_running_complete]
  rw [h1, h2, this]
  exact ⟨rfl, by decide⟩

/-- the last ask of an Accepted / Running application that holds nothing leaves: Completing -/
theorem askAppT_idle (key : String) (x : CItem) (a : CApp)
    (hp : isZero (some (askAppT key x a).pending) = true) (hr : isZero (some a.allocated) = true)
    (hnoph : (askAppT key x a).items.any (fun y => y.bound && y.ph) = false)
    (hst : a.state = "Accepted" ∨ a.state = "Running") :
    (askAppT key x a).state = "Completing" ∧ (askAppT key x a).live = a.live := by
  rw [askAppT_pending] at hp
  rw [askAppT_items] at hnoph
  refine ⟨?_, ?_⟩
  · unfold askAppT
    simp only [LifeE.setState_state]
    rcases hst with h | h
    · simp [hp, hr, hnoph, h, LifeE.fire_accepted_complete]
    · simp [hp, hr, hnoph, h, LifeE.fire_running_complete]
  · exact askAppT_live key x a

/-- timeoutStateTimer: a live Completing application without placeholders completes and leaves the partition whatever
    its pending total is; the record that stays behind (not live) is Completed, keeps the pending total and lists
    the bound items only.  (This is the step that turns "Completing with an outstanding ask" into "Completed with a
    pending total that is not zero".) -/
theorem stateTimeout_completes (s : Core) (app : String) (a : CApp) (hw : CoreWF s) (hfind : s.findApp app = some a)
    (hst : a.state = "Completing") (hph : isZero (some a.allocatedPh) = true) :
    (s.stateTimeout app).findApp app = none ∧
    ∃ a' ∈ (s.stateTimeout app).apps, a'.id = app ∧ a'.live = false ∧ a'.state = "Completed" ∧ a'.pending = a.pending ∧
      a'.allocated = a.allocated ∧ a'.items = Timer.boundOnly a.items := by
  obtain ⟨_, _, hid⟩ := findApp_some hfind
  have e : s.stateTimeout app =
      updQueues (updApp s app (fun _ => { setState a "Completed" with live := false, items := Timer.boundOnly a.items }))
        (pathChain s a.queue) (qLeave { setState a "Completed" with live := false, items := Timer.boundOnly a.items }) := by
    unfold stateTimeout
    simp only [hfind, hph, hst, Bool.not_true, Bool.false_eq_true, if_false, Timer.fire_completing]
    rfl
  rw [e]
  refine ⟨LifeE.findApp_upd_none (s := s) hw (by rfl) hfind rfl, _,
    LifeE.mem_upd (s := s) (f := fun _ => { setState a "Completed" with live := false, items := Timer.boundOnly a.items })
      (by rfl) hfind, ?_⟩
  exact ⟨by rw [← hid]; exact setState_id a _, rfl, LifeE.setState_state a _, setState_pending a _, setState_allocated a _, rfl⟩

/-! ## C. histories in which a node removal rolls back an in-flight swap
  (before the repair 20ee082 of `Application.DeallocateAsk` these were the refutation witnesses of the C10 clause about
  asks — the former KNOWN_FINDINGS entry C10.completing-with-pending-ask+swap-rolled-back-by-node-removal: the
  application stayed Completing with the ask outstanding again and then became Completed.  Now `deallocAppRun` moves it
  back to Running.) -/

namespace Example
open Yk.Res

/-- A gang application with one bound placeholder `p1` (cpu 4) and one bound real allocation `rA` (cpu 1) on node `n1`
    asks for the real allocation `r1` (cpu 2); the scheduler starts the swap `r1` for `p1` on the same node (in flight:
    `r1` counts as allocated, the pending total is empty).  Then the node is removed: the real allocation `rA` goes first —
    nothing is pending, the real total is zero: the application becomes Completing —, then the swap is rolled back:
    `r1` is outstanding again and the application runs again.  The state timer then finds nothing to do. -/
def exOpsC10 : List Op :=
  [op1, op2, op3, op4,
   .ask "app" "rA" [("cpu", 1)] false "" "", .schedAlloc "app" "rA" "n1",
   op5, op6,
   .nodeRemove "n1" [("app", "rA"), ("app", "p1")],
   .stateTimeout "app"]

/-- the history meets every side condition of `reachable_linked` -/
theorem exOpsC10_ok2 : RunOK2 ex0 exOpsC10 := runOKb2_sound _ _ (by decide +kernel)

theorem exC10_reachable_linked :
    Books (run ex0 exOpsC10) ∧ CoreWF (run ex0 exOpsC10) ∧ Linked (run ex0 exOpsC10) :=
  reachable_linked ex0 exOpsC10 wf_ex0 books_ex0 linked_ex0 exOpsC10_ok2

/-- no scheduling decision of the history is refused -/
theorem exOpsC10_run : (run? ex0 exOpsC10).isSome = true := by decide +kernel

/-- the empty partition satisfies the invariants (no applications, no nodes) -/
theorem lifeInv_ex0 : LifeInv ex0 :=
  { pos := fun _ ha => by cases ha
    posNode := fun _ hn => by cases hn
    completingNoReal := fun _ ha => by cases ha
    noPhOrphan := fun _ ha => by cases ha
    completedNoReal := fun _ ha => by cases ha
    termGone := fun _ ha => by cases ha }

theorem noPendInv_ex0 : NoPendInv ex0 := ⟨fun _ ha => (by cases ha), fun _ ha => (by cases ha)⟩

/-- before the node removal the application is Running, its pending total is empty, and the swap is in flight: the
    application the removal touches has items with a release link -/
theorem exC10_before : ∃ a, (run ex0 (exOpsC10.take 8)).findApp "app" = some a ∧ a.state = "Running" ∧ a.pending = [] ∧
    ∃ i ∈ a.items, i.release ≠ none := by decide +kernel

/-- after the node removal the application is live and Running again — its state log shows the Completing it passed
    through inside the removal —, the ask `r1` is outstanding and counted as pending -/
theorem exC10_after_removal : ∃ a, (run ex0 (exOpsC10.take 9)).findApp "app" = some a ∧ a.state = "Running" ∧
    a.log = ["Accepted", "Running", "Completing", "Running"] ∧ a.pending = [("cpu", 2)] ∧
    ∃ i ∈ a.items, i.key = "r1" ∧ i.outstanding = true := by decide +kernel

/-- the state timer armed on the way (and cleared by leaving Completing) changes nothing: still live, Running, the ask
    outstanding -/
theorem exC10_end : ∃ a, (run ex0 exOpsC10).findApp "app" = some a ∧ a.state = "Running" ∧ a.pending = [("cpu", 2)] ∧
    ∃ i ∈ a.items, i.key = "r1" ∧ i.outstanding = true := by decide +kernel

/-- A variant with a second placeholder `p2` on another node `n2` (before the repair: after the node removal
    Completing with `r1` outstanding and `p2` still bound; the state timer asked the shim to release `p2`, and the shim's
    TIMEOUT confirmation — the last placeholder of a Completing application whose timer is not armed — completed the
    application with `r1` still listed as outstanding).  Now the application is Running after the node removal, the state
    timer does nothing, and the release of `p2` leaves it Running: pending is not zero. -/
def exOpsC10b : List Op :=
  [op1, .nodeCreate "n2" [("cpu", 10)] true, op2,
   .ask "app" "p1" [("cpu", 2)] true "tg" "", .ask "app" "p2" [("cpu", 2)] true "tg" "",
   .schedAlloc "app" "p1" "n1", .schedAlloc "app" "p2" "n2",
   .ask "app" "rA" [("cpu", 1)] false "" "", .schedAlloc "app" "rA" "n1",
   op5, op6,
   .nodeRemove "n1" [("app", "rA"), ("app", "p1")],
   .stateTimeout "app",
   .release .timeout "app" "p2"]

theorem exOpsC10b_ok2 : RunOK2 ex0 exOpsC10b := runOKb2_sound _ _ (by decide +kernel)

theorem exC10b_reachable_linked :
    Books (run ex0 exOpsC10b) ∧ CoreWF (run ex0 exOpsC10b) ∧ Linked (run ex0 exOpsC10b) :=
  reachable_linked ex0 exOpsC10b wf_ex0 books_ex0 linked_ex0 exOpsC10b_ok2

theorem exOpsC10b_run : (run? ex0 exOpsC10b).isSome = true := by decide +kernel

/-- before the node removal: Running, nothing pending, the swap in flight -/
theorem exC10b_before : ∃ a, (run ex0 (exOpsC10b.take 11)).findApp "app" = some a ∧ a.state = "Running" ∧ a.pending = [] ∧
    ∃ i ∈ a.items, i.release ≠ none := by decide +kernel

/-- after the node removal: live, Running again (through Completing), the ask `r1` outstanding, `p2` still held -/
theorem exC10b_after_removal : ∃ a, (run ex0 (exOpsC10b.take 12)).findApp "app" = some a ∧ a.state = "Running" ∧
    a.log = ["Accepted", "Running", "Completing", "Running"] ∧ a.pending = [("cpu", 2)] ∧ a.allocatedPh = [("cpu", 2)] ∧
    ∃ i ∈ a.items, i.key = "r1" ∧ i.outstanding = true := by decide +kernel

/-- at the end: still live, Running — neither Completing nor Completed —, no placeholder left, the ask outstanding -/
theorem exC10b_end : ∃ a, (run ex0 exOpsC10b).findApp "app" = some a ∧ a.state = "Running" ∧ a.pending = [("cpu", 2)] ∧
    a.allocatedPh = [] ∧ ∃ i ∈ a.items, i.key = "r1" ∧ i.outstanding = true := by decide +kernel

end Example
end Yk
