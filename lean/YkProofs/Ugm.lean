/- Lemmas about the user/group quota model (YkModel/Ugm.lean) behind YkProps/C05. -/
import YkModel.Ugm
import YkProofs.Res
import YkProofs.Queue
namespace Yk.Ugm
open Yk Yk.Res Yk.QTree

/-! ### Go maps -/

section maps
variable {α β : Type} [DecidableEq α]

theorem aget_nil (k : α) : aget ([] : List (α × β)) k = none := rfl

theorem aget_cons (a : α) (b : β) (t : List (α × β)) (k : α) :
    aget ((a, b) :: t) k = if a = k then some b else aget t k := rfl

theorem aget_amod (l : List (α × β)) (k : α) (f : β → β) (k' : α) :
    aget (amod l k f) k' = if k = k' then (aget l k').map f else aget l k' := by
  induction l with
  | nil => simp [amod, aget]
  | cons e t ih =>
    obtain ⟨a, b⟩ := e
    by_cases hak : a = k
    · subst hak
      by_cases hk : a = k'
      · subst hk; simp [amod, aget]
      · simp [amod, aget, hk]
    · by_cases hk : k = k'
      · subst hk; simp [amod, aget, hak, ih]
      · simp [amod, aget, hak, ih, hk]

theorem aget_aset (l : List (α × β)) (k : α) (v : β) (k' : α) :
    aget (aset l k v) k' = if k = k' then some v else aget l k' := by
  induction l with
  | nil => simp [aset, aget]
  | cons e t ih =>
    obtain ⟨a, b⟩ := e
    by_cases hak : a = k
    · subst hak
      by_cases hk : a = k'
      · subst hk; simp [aset, aget]
      · simp [aset, aget, hk]
    · by_cases hk : k = k'
      · subst hk; simp [aset, aget, hak, ih]
      · simp [aset, aget, hak, ih, hk]

theorem aget_adel (l : List (α × β)) (k k' : α) :
    aget (adel l k) k' = if k = k' then none else aget l k' := by
  induction l with
  | nil => simp [adel, aget]
  | cons e t ih =>
    obtain ⟨a, b⟩ := e
    by_cases hak : a = k
    · subst hak
      by_cases hk : a = k'
      · subst hk; simp [adel, aget, ih]
      · simp [adel, aget, hk, ih]
    · by_cases hk : k = k'
      · subst hk; simp [adel, aget, hak, ih]
      · simp [adel, aget, hak, ih, hk]

theorem aget_append_single (l : List (α × β)) (k : α) (v : β) (k' : α) :
    aget (l ++ [(k, v)]) k' = match aget l k' with | some x => some x | none => if k = k' then some v else none := by
  induction l with
  | nil => simp [aget]
  | cons e t ih =>
    obtain ⟨a, b⟩ := e
    by_cases hk : a = k'
    · subst hk; simp [aget]
    · simp [aget, hk, ih]

theorem ahas_eq (l : List (α × β)) (k : α) : ahas l k = (aget l k).isSome := rfl

theorem aget_mem {l : List (α × β)} {k : α} {v : β} (h : aget l k = some v) : (k, v) ∈ l := by
  induction l with
  | nil => simp [aget] at h
  | cons e t ih =>
    obtain ⟨a, b⟩ := e
    by_cases hk : a = k
    · subst hk; simp [aget] at h; subst h; exact List.mem_cons_self
    · simp [aget, hk] at h; exact List.mem_cons_of_mem _ (ih h)

end maps

/-! ### the walk: prefixes of a hierarchy -/

theorem mem_prefixesFrom_length : ∀ (rest : List String) (pre p : Path), p ∈ prefixesFrom pre rest → pre.length < p.length := by
  intro rest
  induction rest with
  | nil => intro pre p h; simp [prefixesFrom] at h
  | cons c rest ih =>
    intro pre p h
    simp only [prefixesFrom, List.mem_cons] at h
    rcases h with h | h
    · subst h; simp
    · have := ih _ _ h; simp at this; omega

theorem prefixesFrom_nodup : ∀ (rest : List String) (pre : Path), (prefixesFrom pre rest).Nodup := by
  intro rest
  induction rest with
  | nil => intro pre; simp [prefixesFrom]
  | cons c rest ih =>
    intro pre
    simp only [prefixesFrom, List.nodup_cons]
    refine ⟨?_, ih _⟩
    intro h
    have := mem_prefixesFrom_length _ _ _ h
    omega

theorem prefixes_nodup (h : Path) : (prefixes h).Nodup := prefixesFrom_nodup h []

/-! ### ensurePath -/

def ensureL (wild : List (Path × Limit)) (isUser : Bool) (t : Tree) (ps : List Path) : Tree :=
  ps.foldl (fun t p => if ahas t p then t else t ++ [(p, newNode wild isUser p)]) t

theorem ensurePath_eq (wild : List (Path × Limit)) (isUser : Bool) (t : Tree) (h : Path) :
    ensurePath wild isUser t h = ensureL wild isUser t (prefixes h) := rfl

theorem aget_ensureL (wild : List (Path × Limit)) (isUser : Bool) : ∀ (ps : List Path) (t : Tree) (p : Path),
    aget (ensureL wild isUser t ps) p =
      match aget t p with | some n => some n | none => if p ∈ ps then some (newNode wild isUser p) else none := by
  intro ps
  induction ps with
  | nil => intro t p; simp [ensureL]; cases aget t p <;> rfl
  | cons a ps ih =>
    intro t p
    simp only [ensureL, List.foldl_cons]
    have ih' := ih (if ahas t a then t else t ++ [(a, newNode wild isUser a)]) p
    simp only [ensureL] at ih'
    rw [ih']
    by_cases ha : ahas t a = true
    · rw [if_pos ha]
      cases hp : aget t p with
      | some n => rfl
      | none =>
        have : a ≠ p := by
          intro e; subst e; rw [ahas_eq, hp] at ha; simp at ha
        simp [Ne.symm this]
    · rw [if_neg ha, aget_append_single]
      cases hp : aget t p with
      | some n => rfl
      | none =>
        by_cases e : a = p
        · subst e; simp
        · simp [e, Ne.symm e]

theorem aget_ensurePath (wild : List (Path × Limit)) (isUser : Bool) (t : Tree) (h p : Path) :
    aget (ensurePath wild isUser t h) p =
      match aget t p with | some n => some n | none => if p ∈ prefixes h then some (newNode wild isUser p) else none :=
  aget_ensureL wild isUser (prefixes h) t p

theorem ensurePath_has (wild : List (Path × Limit)) (isUser : Bool) (t : Tree) (h p : Path) (hp : p ∈ prefixes h) :
    ∃ n, aget (ensurePath wild isUser t h) p = some n := by
  rw [aget_ensurePath]
  cases aget t p with
  | some n => exact ⟨n, rfl⟩
  | none => simp [hp]

/-- ensurePath is idempotent as far as lookups go: the second walk finds everything -/
theorem aget_ensurePath_idem (wild wild' : List (Path × Limit)) (isUser isUser' : Bool) (t : Tree) (h p : Path) :
    aget (ensurePath wild' isUser' (ensurePath wild isUser t h) h) p = aget (ensurePath wild isUser t h) p := by
  rw [aget_ensurePath wild' isUser' _ h p]
  cases hq : aget (ensurePath wild isUser t h) p with
  | some n => rfl
  | none =>
    by_cases hp : p ∈ prefixes h
    · obtain ⟨n, hn⟩ := ensurePath_has wild isUser t h p hp
      rw [hn] at hq; cases hq
    · simp [hp]

/-! ### modifying every tracker of the walk -/

theorem aget_foldl_amod (f : Node → Node) : ∀ (ps : List Path) (t : Tree) (q : Path), ps.Nodup →
    aget (ps.foldl (fun t p => amod t p f) t) q = if q ∈ ps then (aget t q).map f else aget t q := by
  intro ps
  induction ps with
  | nil => intro t q _; simp
  | cons a ps ih =>
    intro t q hnd
    rw [List.nodup_cons] at hnd
    rw [List.foldl_cons, ih _ _ hnd.2, aget_amod]
    by_cases hq : q ∈ ps
    · have : a ≠ q := fun e => hnd.1 (e ▸ hq)
      simp [hq, this]
    · by_cases e : a = q
      · subst e; simp [hq]
      · simp [hq, e, Ne.symm e]

theorem aget_increase (wild : List (Path × Limit)) (isUser : Bool) (t : Tree) (h : Path) (app : String) (r : Res) (q : Path) :
    aget (increase wild isUser t h app r) q =
      if q ∈ prefixes h then (aget (ensurePath wild isUser t h) q).map (incNode app r) else aget (ensurePath wild isUser t h) q := by
  unfold increase
  exact aget_foldl_amod _ _ _ _ (prefixes_nodup h)

/-! ### well-formed trees (resource vectors are Go maps: unique keys) -/

def nodeWf (n : Node) : Bool := oresWf n.usage && oresWf n.maxRes
def TreeWf (t : Tree) : Prop := ∀ p n, aget t p = some n → nodeWf n = true
def WildWf (w : List (Path × Limit)) : Prop := ∀ p l, aget w p = some l → oresWf l.maxRes = true

theorem newNode_wf {w : List (Path × Limit)} (hw : WildWf w) (isUser : Bool) (p : Path) : nodeWf (newNode w isUser p) = true := by
  unfold newNode
  cases isUser with
  | false => rfl
  | true =>
    simp only [if_true]
    cases hl : aget w p with
    | none => rfl
    | some l =>
      have := hw p l hl
      simp only [nodeWf, Bool.and_eq_true]
      exact ⟨rfl, this⟩

theorem ensurePath_wf {w : List (Path × Limit)} (hw : WildWf w) (isUser : Bool) {t : Tree} (ht : TreeWf t) (h : Path) :
    TreeWf (ensurePath w isUser t h) := by
  intro p n hn
  rw [aget_ensurePath] at hn
  cases hp : aget t p with
  | some n' => rw [hp] at hn; cases hn; exact ht p _ hp
  | none =>
    rw [hp] at hn
    by_cases hm : p ∈ prefixes h
    · simp [hm] at hn; subst hn; exact newNode_wf hw isUser p
    · simp [hm] at hn

/-! ### headroom: the answer is at most what every tracker on the path has left -/

/-- `a` is defined and not larger wherever `b` is defined -/
def LeOn (a b : ORes) : Prop :=
  ∀ mb, b = some mb → ∀ k v, get? mb k = some v → ∃ ma va, a = some ma ∧ get? ma k = some va ∧ va ≤ v

theorem LeOn.refl (a : ORes) : LeOn a a := by
  intro mb hb k v hv; exact ⟨mb, v, hb, hv, Int.le_refl _⟩

theorem LeOn.trans {a b c : ORes} (h1 : LeOn a b) (h2 : LeOn b c) : LeOn a c := by
  intro mc hc k v hv
  obtain ⟨mb, vb, hb, hvb, hle⟩ := h2 mc hc k v hv
  obtain ⟨ma, va, ha, hva, hle'⟩ := h1 mb hb k vb hvb
  exact ⟨ma, va, ha, hva, Int.le_trans hle' hle⟩

theorem cwm_le_left {l : Res} (hl : wf l = true) (r : ORes) : LeOn (componentWiseMin (some l) r) (some l) := by
  intro mb hb k v hv
  cases hb
  cases r with
  | none => exact ⟨l, v, rfl, hv, Int.le_refl _⟩
  | some r =>
    obtain ⟨m, hm, _, h1, _⟩ := cwm_spec l r
    obtain ⟨v', hv', hle⟩ := h1 hl (k, v) (mem_of_get? hv)
    exact ⟨m, v', hm, hv', hle⟩

theorem cwm_le_right (l : ORes) {r : Res} (hr : wf r = true) : LeOn (componentWiseMin l (some r)) (some r) := by
  intro mb hb k v hv
  cases hb
  cases l with
  | none => exact ⟨r, v, rfl, hv, Int.le_refl _⟩
  | some l =>
    obtain ⟨m, hm, _, _, h2⟩ := cwm_spec l r
    obtain ⟨v', hv', hle⟩ := h2 hr (k, v) (mem_of_get? hv)
    exact ⟨m, v', hm, hv', hle⟩

theorem cwm_wf {l r : ORes} (hl : oresWf l = true) (hr : oresWf r = true) : oresWf (componentWiseMin l r) = true := by
  cases l with
  | none => cases r with
    | none => rfl
    | some r => exact hr
  | some l => cases r with
    | none => exact hl
    | some r =>
      obtain ⟨m, hm, hw, _, _⟩ := cwm_spec l r
      rw [hm]; exact hw

theorem cwm_le_both (uh gh : ORes) (hu : oresWf uh = true) (hg : oresWf gh = true) :
    LeOn (componentWiseMin uh gh) uh ∧ LeOn (componentWiseMin uh gh) gh := by
  cases uh with
  | none =>
    cases gh with
    | none => exact ⟨fun mb hb => (by cases hb), fun mb hb => (by cases hb)⟩
    | some r => exact ⟨fun mb hb => (by cases hb), LeOn.refl _⟩
  | some l =>
    cases gh with
    | none => exact ⟨LeOn.refl _, fun mb hb => (by cases hb)⟩
    | some r => exact ⟨cwm_le_left hu _, cwm_le_right _ hg⟩

theorem get?_map_val (g : String × Int → Int) (b : Res) (k : String) :
    get? (b.map (fun p => (p.1, g p))) k = (get? b k).map (fun v => g (k, v)) := by
  induction b with
  | nil => rfl
  | cons p t ih =>
    obtain ⟨a, v⟩ := p
    rw [List.map_cons, get?_cons, get?_cons, ih]
    by_cases h : k = a
    · subst h; simp
    · simp [h]

theorem nodeHeadroom_wf {n : Node} (hn : nodeWf n = true) : oresWf (nodeHeadroom n) = true := by
  unfold nodeHeadroom
  split
  · rfl
  · simp only [nodeWf, Bool.and_eq_true] at hn
    unfold subOnlyExistingX
    cases hm : n.maxRes with
    | none => rfl
    | some b =>
      have hb : wf b = true := by have := hn.2; rw [hm] at this; exact this
      cases n.usage with
      | none => exact hb
      | some d => exact map_val_wf _ b hb

/-- what a tracker has left on a type its maximum defines -/
theorem nodeHeadroom_get? {n : Node} {nh : Res} (h : nodeHeadroom n = some nh) (k : String) :
    ∃ mx, n.maxRes = some mx ∧ isZero n.maxRes = false ∧
      get? nh k = (get? mx k).map (fun v => v - (n.usage.getD []).getD k) := by
  unfold nodeHeadroom at h
  split at h
  · cases h
  · rename_i hz
    simp only [Bool.not_eq_true] at hz
    unfold subOnlyExistingX at h
    cases hm : n.maxRes with
    | none => rw [hm] at hz; simp [isZero] at hz
    | some b =>
      refine ⟨b, rfl, by rw [← hm]; exact hz, ?_⟩
      rw [hm] at h
      cases hu : n.usage with
      | none =>
        rw [hu] at h; simp at h; subst h
        cases get? b k with
        | none => rfl
        | some v => simp [Option.getD, getD, List.lookup]
      | some d =>
        rw [hu] at h; simp at h; subst h
        rw [get?_map_val]; rfl

theorem headroomStep_none {t : Tree} {p : Path} (h : aget t p = none) (c : ORes) : headroomStep t p c = c := by
  unfold headroomStep; rw [h]

theorem headroomStep_nolimit {t : Tree} {p : Path} {n : Node} (h : aget t p = some n) (hh : nodeHeadroom n = none) (c : ORes) :
    headroomStep t p c = c := by
  unfold headroomStep; rw [h]; simp only; rw [hh]

theorem headroomStep_limit {t : Tree} {p : Path} {n : Node} {nh : Res} (h : aget t p = some n) (hh : nodeHeadroom n = some nh)
    (c : ORes) : headroomStep t p c = componentWiseMin (some nh) c := by
  unfold headroomStep; rw [h]; simp only; rw [hh]

theorem headroom_fold_wf {t : Tree} (ht : TreeWf t) : ∀ (ps : List Path), oresWf (ps.foldr (headroomStep t) none) = true := by
  intro ps
  induction ps with
  | nil => rfl
  | cons p ps ih =>
    rw [List.foldr_cons]
    generalize ps.foldr (headroomStep t) none = child at ih ⊢
    cases hp : aget t p with
    | none => rw [headroomStep_none hp]; exact ih
    | some n =>
      cases hh : nodeHeadroom n with
      | none => rw [headroomStep_nolimit hp hh]; exact ih
      | some nh =>
        rw [headroomStep_limit hp hh]
        have := nodeHeadroom_wf (ht p n hp)
        rw [hh] at this
        exact cwm_wf this ih

/-- the headroom of the walk is defined and not larger than what every tracker on it has left -/
theorem headroom_fold_le {t : Tree} (ht : TreeWf t) : ∀ (ps : List Path) (p : Path) (n : Node), p ∈ ps → aget t p = some n →
    LeOn (ps.foldr (headroomStep t) none) (nodeHeadroom n) := by
  intro ps
  induction ps with
  | nil => intro p n h; cases h
  | cons a ps ih =>
    intro p n hp hn
    rw [List.foldr_cons]
    have hchild := headroom_fold_wf ht ps
    rcases List.mem_cons.mp hp with e | e
    · subst e
      generalize ps.foldr (headroomStep t) none = child
      cases hh : nodeHeadroom n with
      | none => intro mb hb; cases hb
      | some nh =>
        rw [headroomStep_limit hn hh]
        have hw := nodeHeadroom_wf (ht p n hn)
        rw [hh] at hw
        exact cwm_le_left hw _
    · have ih' := ih p n e hn
      generalize ps.foldr (headroomStep t) none = child at ih' hchild ⊢
      cases ha : aget t a with
      | none => rw [headroomStep_none ha]; exact ih'
      | some na =>
        cases hh : nodeHeadroom na with
        | none => rw [headroomStep_nolimit ha hh]; exact ih'
        | some nh =>
          rw [headroomStep_limit ha hh]
          cases child with
          | none =>
            intro mb hb k v hv
            obtain ⟨ma, _, hma, _, _⟩ := ih' mb hb k v hv
            cases hma
          | some c => exact LeOn.trans (cwm_le_right (some nh) hchild) ih'

theorem headroomOf_le {t : Tree} (ht : TreeWf t) (h p : Path) (n : Node) (hp : p ∈ prefixes h) (hn : aget t p = some n) :
    LeOn (headroomOf t h) (nodeHeadroom n) := headroom_fold_le ht _ p n hp hn

/-- usage of a tracker after `incNode` -/
theorem incNode_usage {n : Node} (hn : nodeWf n = true) {r : Res} (hr : wf r = true) (app : String) (k : String) :
    ((incNode app r n).usage.getD []).getD k = (n.usage.getD []).getD k + r.getD k := by
  have hu : wf (n.usage.getD []) = true := by
    simp only [nodeWf, Bool.and_eq_true] at hn
    cases hh : n.usage with
    | none => rfl
    | some u => have := hn.1; rw [hh] at this; exact this
  show (prune (addX (n.usage.getD []) r)).getD k = (n.usage.getD []).getD k + r.getD k
  have hw2 : wf (addX (n.usage.getD []) r) = true := zipFold_wf _ _ _ hu
  rw [prune_getD _ hw2, addX_getD _ _ hr]

/-- ENFORCEMENT (resources), tree level.  `hr` is an answer not larger than the headroom of the walk (the manager
    hands out the minimum of the user's and the group's); the ask `r` fits in it (FitInMaxUndef, what
    Application.tryAllocate checks).  After the increase, on every tracker of the path and every type of the ask
    that the tracker's maximum defines: the usage is within the maximum, provided it was before. -/
theorem headroom_enforces_tree (w : List (Path × Limit)) (isUser : Bool) (t : Tree) (h : Path) (app : String) (r : Res)
    (hw : WildWf w) (ht : TreeWf t) (hr : wf r = true) (hro : ORes)
    (hle : LeOn hro (headroom w isUser t h).2) (hfit : fitInMaxUndef hro (some r) = true) :
    ∀ p ∈ prefixes h, ∃ n n', aget (headroom w isUser t h).1 p = some n ∧
      aget (increase w isUser (headroom w isUser t h).1 h app r) p = some n' ∧
      n'.maxRes = n.maxRes ∧ n'.maxApps = n.maxApps ∧
      ∀ mx, n.maxRes = some mx → isZero n.maxRes = false → ∀ k, r.has k = true → mx.has k = true →
        (n.usage.getD []).getD k ≤ mx.getD k → (n'.usage.getD []).getD k ≤ mx.getD k := by
  intro p hp
  simp only [headroom] at *
  have ht' := ensurePath_wf hw isUser ht h
  obtain ⟨n, hn⟩ := ensurePath_has w isUser t h p hp
  refine ⟨n, incNode app r n, hn, ?_, rfl, rfl, ?_⟩
  · rw [aget_increase, aget_ensurePath_idem]; simp [hp, hn]
  · intro mx hmx hz k hrk hmk hbefore
    rw [incNode_usage (ht' p n hn) hr]
    -- the ask's entry for k
    have hrk' : ∃ rv, get? r k = some rv := by
      rw [has_eq_get?] at hrk; exact Option.isSome_iff_exists.mp hrk
    obtain ⟨rv, hrv⟩ := hrk'
    have hmk' : ∃ mv, get? mx k = some mv := by
      rw [has_eq_get?] at hmk; exact Option.isSome_iff_exists.mp hmk
    obtain ⟨mv, hmv⟩ := hmk'
    have hrd : r.getD k = rv := by rw [getD_eq_get?, hrv]; rfl
    have hmd : mx.getD k = mv := by rw [getD_eq_get?, hmv]; rfl
    -- the tracker's own headroom on k
    have hnh : ∃ nh, nodeHeadroom n = some nh := by
      unfold nodeHeadroom; rw [hz]; simp only [Bool.false_eq_true, if_false]
      unfold subOnlyExistingX; rw [hmx]; cases n.usage <;> exact ⟨_, rfl⟩
    obtain ⟨nh, hnh⟩ := hnh
    obtain ⟨mx', hmx', _, hget⟩ := nodeHeadroom_get? hnh k
    rw [hmx] at hmx'; cases hmx'
    rw [hmv] at hget
    simp only [Option.map_some] at hget
    -- the answer on k
    obtain ⟨ma, va, hma, hva, hvale⟩ := LeOn.trans hle (headroomOf_le ht' h p n hp hn) nh hnh k _ hget
    have hf := fitIn_mem hfit (mem_of_get? hrv)
    rw [hma] at hf
    simp only [orZero, Option.getD] at hf
    rw [hva] at hf
    simp only [Bool.false_eq_true, if_false, decide_eq_true_eq] at hf
    rw [hrd, hmd]; rw [hmd] at hbefore
    omega

/-! ### canRunApp -/

/-- ENFORCEMENT (applications), tree level: when canRunApp said yes, after the increase every tracker of the path with a
    maximum-applications limit runs at most that many applications, unless the application was already running there
    (then the count did not change). -/
theorem canRun_enforces_tree (w : List (Path × Limit)) (isUser : Bool) (t : Tree) (h : Path) (app : String) (r : Res)
    (hcan : (canRunApp w isUser t h app).2 = true) :
    ∀ p ∈ prefixes h, ∃ n n', aget (canRunApp w isUser t h app).1 p = some n ∧
      aget (increase w isUser (canRunApp w isUser t h app).1 h app r) p = some n' ∧ n'.maxApps = n.maxApps ∧
      (n.apps.contains app = true → n'.apps = n.apps) ∧
      (n.apps.contains app = false → n.maxApps ≠ 0 → n'.apps.length ≤ n.maxApps) := by
  intro p hp
  simp only [canRunApp] at *
  obtain ⟨n, hn⟩ := ensurePath_has w isUser t h p hp
  refine ⟨n, incNode app r n, hn, ?_, rfl, ?_, ?_⟩
  · rw [aget_increase, aget_ensurePath_idem]; simp [hp, hn]
  · intro hc; show (if n.apps.contains app then n.apps else n.apps ++ [app]) = n.apps; rw [if_pos hc]
  · intro hc hm
    have := List.all_eq_true.mp hcan p hp
    rw [hn] at this
    simp only [nodeCanRun, hc, Bool.false_or, Bool.or_eq_true, beq_iff_eq, decide_eq_true_eq] at this
    rcases this with h0 | hle
    · exact absurd h0 hm
    · show (if n.apps.contains app then n.apps else n.apps ++ [app]).length ≤ n.maxApps
      rw [hc]; simp only [Bool.false_eq_true, if_false, List.length_append, List.length_singleton]; exact hle

end Yk.Ugm
