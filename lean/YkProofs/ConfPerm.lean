/-
  C15, map order (whole validator): `validate` gives the same verdict and the same error class for two configurations
  that differ only in the order of the entries of their map-typed fields (resource maps of queues, limits and child
  templates, properties, resource weights).  Part 1: resources that give the same quantity to every type are
  interchangeable in every operation the validator applies to them.
-/
import YkProofs.ConfOrder
import YkProofs.ConfLimits
namespace Yk.Conf
open Yk Yk.Res

/-- two resources that are the same map: well-formed (unique keys) and the same quantity for every type -/
structure REq (r r' : Res) : Prop where
  wl : wf r = true
  wr : wf r' = true
  eq : ∀ k, r.get? k = r'.get? k

theorem REq.refl {r : Res} (h : wf r = true) : REq r r := ⟨h, h, fun _ => rfl⟩
theorem REq.symm {r r' : Res} (h : REq r r') : REq r' r := ⟨h.wr, h.wl, fun k => (h.eq k).symm⟩

/-- the same for optional resources (nil stays nil) -/
def OREq (p p' : ORes) : Prop :=
  match p, p' with
  | none, none => True
  | some r, some r' => REq r r'
  | _, _ => False

theorem OREq.oget {p p' : ORes} (h : OREq p p') (k : String) : oget p k = oget p' k := by
  cases p <;> cases p' <;> simp only [OREq] at h
  · rfl
  · exact h.eq k

theorem OREq.wf {p p' : ORes} (h : OREq p p') : wf (orZero p) = true ∧ wf (orZero p') = true := by
  cases p <;> cases p' <;> simp only [OREq] at h
  · exact ⟨rfl, rfl⟩
  · exact ⟨h.wl, h.wr⟩

theorem getD_of_REq {r r' : Res} (h : REq r r') (k : String) : r.getD k = r'.getD k := by
  rw [getD_eq_get?, getD_eq_get?, h.eq k]
theorem has_of_REq {r r' : Res} (h : REq r r') (k : String) : r.has k = r'.has k := by
  rw [has_eq_get?, has_eq_get?, h.eq k]

/-- `get?` from `has` and `getD` -/
theorem get?_eq_has_getD (r : Res) (k : String) : r.get? k = if r.has k then some (r.getD k) else none := by
  rw [has_eq_get?, getD_eq_get?]; cases r.get? k <;> rfl

theorem fit_congr {p p' : ORes} {c c' : Res} (hp : OREq p p') (hc : REq c c') :
    fitInMaxUndef p (some c) = fitInMaxUndef p' (some c') := by
  have key : ∀ (p p' : ORes) (c c' : Res), REq c c' → (∀ k, oget p k = oget p' k) →
      fitInMaxUndef p (some c) = true → fitInMaxUndef p' (some c') = true := by
    intro p p' c c' hc hp h
    apply fit_of
    intro t x hm pv hpv
    have hx : c.get? t = some x := by rw [hc.eq t]; exact get?_of_mem hc.wr hm
    exact fit_spec h hx (by rw [hp t]; exact hpv)
  cases h : fitInMaxUndef p (some c) with
  | true => exact (key p p' c c' hc hp.oget h).symm
  | false =>
    cases h' : fitInMaxUndef p' (some c') with
    | false => rfl
    | true =>
      have := key p' p c' c hc.symm (fun k => (hp.oget k).symm) h'
      rw [h] at this; cases this

theorem cwMin_some (l : Res) (p : ORes) : ∃ r, componentWiseMin (some l) p = some r := by
  cases p <;> exact ⟨_, rfl⟩

theorem cwMin_congr {l l' : Res} {p p' : ORes} (hl : REq l l') (hp : OREq p p') :
    OREq (componentWiseMin (some l) p) (componentWiseMin (some l') p') := by
  cases p with
  | none =>
    cases p' with
    | none => exact hl
    | some _ => simp [OREq] at hp
  | some r =>
    cases p' with
    | none => simp [OREq] at hp
    | some r' =>
      simp only [OREq] at hp
      obtain ⟨o, ho⟩ := cwMin_some l (some r)
      obtain ⟨o', ho'⟩ := cwMin_some l' (some r')
      have w := cwMin_wf l (some r) hl.wl hp.wl
      have w' := cwMin_wf l' (some r') hl.wr hp.wr
      have g := cwMin_get? l r hl.wl hp.wl
      have g' := cwMin_get? l' r' hl.wr hp.wr
      rw [ho] at w g ⊢; rw [ho'] at w' g' ⊢
      simp only [orZero, Option.getD_some] at w w'
      refine ⟨w, w', ?_⟩
      intro k
      have := g k; have := g' k
      simp only [oget, orZero, Option.getD_some] at *
      rw [g k, g' k, hl.eq k, hp.eq k]

theorem add_congr {a a' c c' : Res} (ha : REq a a') (hc : REq c c') :
    REq (add (some a) (some c)) (add (some a') (some c')) := by
  refine ⟨add_wf ha.wl, add_wf ha.wr, ?_⟩
  intro k
  rw [get?_eq_has_getD, get?_eq_has_getD, add_has, add_has, add_getD a c hc.wl, add_getD a' c' hc.wr,
    has_of_REq ha, has_of_REq hc, getD_of_REq ha, getD_of_REq hc]

theorem all_vals_iff {r : Res} (hw : wf r = true) (P : Int → Bool) :
    r.all (fun p => P p.2) = true ↔ ∀ k v, r.get? k = some v → P v = true := by
  simp only [List.all_eq_true]
  constructor
  · intro h k v hg; exact h (k, v) (mem_of_get? hg)
  · intro h p hp; exact h p.1 p.2 (get?_of_mem hw hp)

theorem all_vals_congr {r r' : Res} (h : REq r r') (P : Int → Bool) :
    r.all (fun p => P p.2) = r'.all (fun p => P p.2) := by
  have e1 := all_vals_iff h.wl P
  have e2 := all_vals_iff h.wr P
  cases h1 : r.all (fun p => P p.2) with
  | true =>
    have := e1.mp h1
    exact (e2.mpr (fun k v hg => this k v (by rw [h.eq k]; exact hg))).symm
  | false =>
    cases h2 : r'.all (fun p => P p.2) with
    | false => rfl
    | true =>
      have := e2.mp h2
      have := e1.mpr (fun k v hg => this k v (by rw [← h.eq k]; exact hg))
      rw [h1] at this; cases this

theorem any_vals_congr {r r' : Res} (h : REq r r') (P : Int → Bool) :
    r.any (fun p => P p.2) = r'.any (fun p => P p.2) := by
  have := all_vals_congr h (fun v => !P v)
  have e : ∀ (l : Res), l.any (fun p => P p.2) = !l.all (fun p => !P p.2) := by
    intro l; induction l with
    | nil => rfl
    | cons x t ih => simp [List.any_cons, List.all_cons, ih]
  rw [e r, e r', this]

theorem isZero_congr {g g' : Res} (h : REq g g') : isZero (some g) = isZero (some g') := by
  unfold isZero; exact all_vals_congr h (fun v => v == 0)

theorem sgtz_congr {r r' : Res} (h : REq r r') :
    strictlyGreaterThanZero (some r) = strictlyGreaterThanZero (some r') := by
  unfold strictlyGreaterThanZero
  simp only
  rw [any_vals_congr h (fun v => decide (v < 0)), any_vals_congr h (fun v => decide (v > 0))]

/-! ### Part 2: configurations that differ in the order of map entries -/

/-- the same map written in two orders (nil stays nil, empty stays empty) -/
def SRel (a b : Option SMap) : Prop := a.isSome = b.isSome ∧ (a.getD []).Perm (b.getD [])

/-- the entries of the map have pairwise different keys (it is a Go map) -/
def KeysOK (a : Option SMap) : Prop := ((a.getD []).map Prod.fst).Nodup

theorem SRel.refl (a : Option SMap) : SRel a a := ⟨rfl, List.Perm.refl _⟩

theorem KeysOK.of_rel {a b : Option SMap} (h : SRel a b) (k : KeysOK a) : KeysOK b :=
  ((h.2.map Prod.fst).nodup_iff).mp k

/-- two results of the validator: the same error, or related values -/
def VRel {α β : Type} (R : α → β → Prop) : V α → V β → Prop
  | .ok a, .ok b => R a b
  | .error e, .error e' => e = e'
  | _, _ => False

theorem VRel.bind {α β γ δ : Type} {R : α → β → Prop} {S : γ → δ → Prop} {x : V α} {y : V β} {f : α → V γ} {g : β → V δ}
    (h : VRel R x y) (hf : ∀ a b, R a b → VRel S (f a) (g b)) : VRel S (x >>= f) (y >>= g) := by
  cases x <;> cases y <;> simp only [VRel] at h
  · subst h; show VRel S (Except.error _) (Except.error _); simp [VRel]
  · exact hf _ _ h

theorem VRel.eq {α : Type} {x y : V α} (h : VRel Eq x y) : x = y := by
  cases x <;> cases y <;> simp only [VRel] at h <;> simp [h]

theorem VRel.of_eq {α : Type} {x y : V α} (h : x = y) : VRel Eq x y := by
  subst h; cases x <;> simp [VRel]

theorem parseConf_getD (a : Option SMap) : parseConf a = parseConf (some (a.getD [])) := by
  cases a <;> rfl

theorem parse_congr {a b : Option SMap} (h : SRel a b) (k : KeysOK a) : VRel REq (parseConf a) (parseConf b) := by
  have := parseConf_perm h.2 k
  rw [parseConf_getD a, parseConf_getD b]
  cases h1 : parseConf (some (a.getD [])) with
  | ok r =>
    cases h2 : parseConf (some (b.getD [])) with
    | ok r' =>
      rw [h1, h2] at this
      exact ⟨parseConf_wf h1, parseConf_wf h2, this⟩
    | error e => rw [h1, h2] at this; exact this
  | error e =>
    cases h2 : parseConf (some (b.getD [])) with
    | ok r' => rw [h1, h2] at this; exact this
    | error e' => rw [h1, h2] at this; exact this

theorem mapLen_congr {a b : Option SMap} (h : SRel a b) : mapLen a = mapLen b := h.2.length_eq

/-- two limit entries that differ in the order of `maxresources` only -/
structure LRel (l l' : Limit) : Prop where
  label : l.label = l'.label
  users : l.users = l'.users
  groups : l.groups = l'.groups
  maxApps : l.maxApps = l'.maxApps
  res : SRel l.maxRes l'.maxRes

def LsRel : List Limit → List Limit → Prop
  | [], [] => True
  | a :: t, b :: u => LRel a b ∧ LsRel t u
  | _, _ => False

def LsKeys (ls : List Limit) : Prop := ∀ l ∈ ls, KeysOK l.maxRes

/-- two queue records that differ in the order of map entries only -/
structure DRel (d d' : QD) : Prop where
  name : d.name = d'.name
  parent : d.parent = d'.parent
  maxApps : d.maxApps = d'.maxApps
  adminACL : d.adminACL = d'.adminACL
  submitACL : d.submitACL = d'.submitACL
  g : SRel d.g d'.g
  m : SRel d.m d'.m
  props : SRel d.props d'.props
  tmplApps : d.tmpl.maxApps = d'.tmpl.maxApps
  tmplProps : SRel d.tmpl.props d'.tmpl.props
  tmplG : SRel d.tmpl.g d'.tmpl.g
  tmplM : SRel d.tmpl.m d'.tmpl.m
  limits : LsRel d.limits d'.limits

structure DKeys (d : QD) : Prop where
  g : KeysOK d.g
  m : KeysOK d.m
  limits : LsKeys d.limits

theorem limitResOf_congr {l l' : Limit} (h : LRel l l') (k : KeysOK l.maxRes) : VRel REq (limitResOf l) (limitResOf l') := by
  unfold limitResOf
  rw [← mapLen_congr h.res]
  split
  · refine VRel.bind (parse_congr h.res k) ?_
    intro r r' hr
    rw [sgtz_congr hr]
    split
    · simp [VRel, bind, Except.bind]
    · simp only [bind, Except.bind, pure, Except.pure, VRel]; exact hr
  · simp only [pure, Except.pure, VRel]; exact REq.refl rfl

theorem checkLimit_congr {l l' : Limit} {q q' : QD} (su sg : List String) (hl : LRel l l') (kl : KeysOK l.maxRes)
    (hn : q.name = q'.name) (ha : q.maxApps = q'.maxApps) (hm : SRel q.m q'.m) (km : KeysOK q.m) :
    checkLimit l su sg q = checkLimit l' su sg q' := by
  unfold checkLimit
  simp only [← hl.users, ← hl.groups, ← hl.maxApps, ← hn, ← ha, ← mapLen_congr hl.res]
  have h1 := limitResOf_congr hl kl
  have h2 := parse_congr hm km
  cases e1 : limitResOf l with
  | error e =>
    cases e1' : limitResOf l' with
    | error e' => rw [e1, e1'] at h1; simp only [VRel] at h1; subst h1; rfl
    | ok r' => rw [e1, e1'] at h1; exact absurd h1 id
  | ok r =>
    cases e1' : limitResOf l' with
    | error e' => rw [e1, e1'] at h1; exact absurd h1 id
    | ok r' =>
      rw [e1, e1'] at h1; simp only [VRel] at h1
      cases e2 : parseConf q.m with
      | error e =>
        cases e2' : parseConf q'.m with
        | error e' => simp [bind, Except.bind]
        | ok m' => rw [e2, e2'] at h2; exact absurd h2 id
      | ok m =>
        cases e2' : parseConf q'.m with
        | error e' => rw [e2, e2'] at h2; exact absurd h2 id
        | ok m' =>
          rw [e2, e2'] at h2; simp only [VRel] at h2
          have := fit_congr (p := some m) (p' := some m') h2 h1
          simp [bind, Except.bind, this]

theorem checkLimitsL_congr : ∀ (ls ls' : List Limit) (su sg : List String) (q q' : QD), LsRel ls ls' → LsKeys ls →
    q.name = q'.name → q.maxApps = q'.maxApps → SRel q.m q'.m → KeysOK q.m →
    checkLimitsL ls su sg q = checkLimitsL ls' su sg q'
  | [], [], _, _, _, _, _, _, _, _, _, _ => rfl
  | [], _ :: _, _, _, _, _, h, _, _, _, _, _ => absurd h id
  | _ :: _, [], _, _, _, _, h, _, _, _, _, _ => absurd h id
  | l :: t, l' :: t', su, sg, q, q', h, k, hn, ha, hm, km => by
    unfold checkLimitsL
    rw [checkLimit_congr su sg h.1 (k l List.mem_cons_self) hn ha hm km]
    cases checkLimit l' su sg q' with
    | error e => rfl
    | ok r =>
      simp only [bind, Except.bind]
      exact checkLimitsL_congr t t' r.1 r.2 q q' h.2 (fun x hx => k x (List.mem_cons_of_mem _ hx)) hn ha hm km

mutual
/-- two queue trees that differ in the order of map entries only -/
def QRel : QC → QC → Prop
  | .mk d qs, .mk d' qs' => DRel d d' ∧ QLRel qs qs'
def QLRel : List QC → List QC → Prop
  | [], [] => True
  | q :: t, q' :: t' => QRel q q' ∧ QLRel t t'
  | [], _ :: _ => False
  | _ :: _, [] => False
end

mutual
/-- every walked map of the tree has unique keys -/
def QKeys : QC → Prop
  | .mk d qs => DKeys d ∧ QLKeys qs
def QLKeys : List QC → Prop
  | [] => True
  | q :: t => QKeys q ∧ QLKeys t
end

theorem QRel.d {q q' : QC} (h : QRel q q') : DRel q.d q'.d := by
  cases q; cases q'; unfold QRel at h; exact h.1
theorem QRel.qs {q q' : QC} (h : QRel q q') : QLRel q.qs q'.qs := by
  cases q; cases q'; unfold QRel at h; exact h.2
theorem QKeys.d {q : QC} (h : QKeys q) : DKeys q.d := by
  cases q; unfold QKeys at h; exact h.1
theorem QKeys.qs {q : QC} (h : QKeys q) : QLKeys q.qs := by
  cases q; unfold QKeys at h; exact h.2

theorem checkNames_congr : ∀ (qs qs' : List QC) (seen : List String), QLRel qs qs' → checkNames qs seen = checkNames qs' seen
  | [], [], _, _ => rfl
  | [], _ :: _, _, h => by unfold QLRel at h; exact absurd h id
  | _ :: _, [], _, h => by unfold QLRel at h; exact absurd h id
  | c :: t, c' :: t', seen, h => by
    unfold QLRel at h
    unfold checkNames
    rw [← h.1.d.name]
    split
    · rfl
    · split
      · rfl
      · exact checkNames_congr t t' _ h.2

mutual
theorem checkQueues_congr : ∀ (q q' : QC), QRel q q' → QKeys q → checkQueues q = checkQueues q'
  | .mk d qs, .mk d' qs', h, k => by
    unfold QRel at h; unfold QKeys at k
    unfold checkQueues checkLimits
    rw [← h.1.adminACL, ← h.1.submitACL,
      checkLimitsL_congr d.limits d'.limits [] [] d d' h.1.limits k.1.limits h.1.name h.1.maxApps h.1.m k.1.m,
      checkNames_congr qs qs' [] h.2, checkQueuesL_congr qs qs' h.2 k.2]
theorem checkQueuesL_congr : ∀ (qs qs' : List QC), QLRel qs qs' → QLKeys qs → checkQueuesL qs = checkQueuesL qs'
  | [], [], _, _ => rfl
  | [], _ :: _, h, _ => by unfold QLRel at h; exact absurd h id
  | _ :: _, [], h, _ => by unfold QLRel at h; exact absurd h id
  | q :: t, q' :: t', h, k => by
    unfold QLRel at h; unfold QLKeys at k
    unfold checkQueuesL
    rw [checkQueues_congr q q' h.1 k.1, checkQueuesL_congr t t' h.2 k.2]
end

theorem VRel.error {α β : Type} {R : α → β → Prop} (e : VErr) : VRel R (Except.error e : V α) (Except.error e : V β) := by
  simp [VRel]

theorem crc_congr {d d' : QD} (h : DRel d d') (k : DKeys d) :
    VRel (fun (a b : Res × Res) => REq a.1 b.1 ∧ REq a.2 b.2) (checkResourceConfig d) (checkResourceConfig d') := by
  unfold checkResourceConfig
  refine VRel.bind (parse_congr h.g k.g) ?_
  intro g g' hg
  refine VRel.bind (parse_congr h.m k.m) ?_
  intro m m' hm
  rw [fit_congr (p := some m) (p' := some m') hm hg]
  cases fitInMaxUndef (some m') (some g') with
  | false => simp only [Bool.not_false, if_true, throw_bind]; exact VRel.error _
  | true =>
    simp only [Bool.not_true, Bool.false_eq_true, if_false, bind, Except.bind, pure, Except.pure, VRel]
    exact ⟨hg, hm⟩

mutual
theorem cqr_congr : ∀ (q q' : QC) (pm pm' : ORes), QRel q q' → QKeys q → OREq pm pm' →
    VRel REq (checkQueueResource q pm) (checkQueueResource q' pm')
  | .mk d qs, .mk d' qs', pm, pm', h, k, hp => by
    unfold QRel at h; unfold QKeys at k
    unfold checkQueueResource
    refine VRel.bind (crc_congr h.1 k.1) ?_
    intro ⟨g, m⟩ ⟨g', m'⟩ ⟨hg, hm⟩
    simp only at hg hm ⊢
    rw [fit_congr hp hm]
    cases fitInMaxUndef pm' (some m') with
    | false => simp only [Bool.not_false, if_true, throw_bind]; exact VRel.error _
    | true =>
      simp only [Bool.not_true, Bool.false_eq_true, if_false]
      have hc := cwMin_congr hm hp
      refine VRel.bind (cqrL_congr qs qs' _ _ [] [] h.2 k.2 hc (REq.refl rfl)) ?_
      intro s s' hs
      rw [fit_congr (p := some g) (p' := some g') hg hs, fit_congr hc hs, isZero_congr hg]
      cases fitInMaxUndef (some g') (some s') with
      | false => simp only [Bool.not_false, if_true, throw_bind]; exact VRel.error _
      | true =>
        simp only [Bool.not_true, Bool.false_eq_true, if_false]
        cases fitInMaxUndef (componentWiseMin (some m') pm') (some s') with
        | false => simp only [Bool.not_false, if_true, throw_bind]; exact VRel.error _
        | true =>
          simp only [Bool.not_true, Bool.false_eq_true, if_false]
          cases isZero (some g') with
          | true => simp only [if_true, pure, Except.pure, VRel]; exact hs
          | false => simp only [Bool.false_eq_true, if_false, pure, Except.pure, VRel]; exact hg
theorem cqrL_congr : ∀ (qs qs' : List QC) (pm pm' : ORes) (acc acc' : Res), QLRel qs qs' → QLKeys qs → OREq pm pm' → REq acc acc' →
    VRel REq (checkQueueResourceL qs pm acc) (checkQueueResourceL qs' pm' acc')
  | [], [], _, _, _, _, _, _, _, ha => by simp only [checkQueueResourceL, VRel]; exact ha
  | [], _ :: _, _, _, _, _, h, _, _, _ => by unfold QLRel at h; exact absurd h id
  | _ :: _, [], _, _, _, _, h, _, _, _ => by unfold QLRel at h; exact absurd h id
  | q :: t, q' :: t', pm, pm', acc, acc', h, k, hp, ha => by
    unfold QLRel at h; unfold QLKeys at k
    unfold checkQueueResourceL
    refine VRel.bind (cqr_congr q q' pm pm' h.1 k.1 hp) ?_
    intro c c' hc
    exact cqrL_congr t t' pm pm' _ _ h.2 k.2 hp (add_congr ha hc)
end

/-! ### placement rules and max applications only look at names, flags and shapes -/

theorem QLRel.isEmpty : ∀ {l l' : List QC}, QLRel l l' → l.isEmpty = l'.isEmpty
  | [], [], _ => rfl
  | [], _ :: _, h => by unfold QLRel at h; exact absurd h id
  | _ :: _, [], h => by unfold QLRel at h; exact absurd h id
  | _ :: _, _ :: _, _ => rfl

theorem find_congr : ∀ (l l' : List QC) (n : String), QLRel l l' →
    match l.find? (fun q => q.d.name == n), l'.find? (fun q => q.d.name == n) with
    | none, none => True
    | some c, some c' => QRel c c'
    | _, _ => False
  | [], [], _, _ => by simp
  | [], _ :: _, _, h => by unfold QLRel at h; exact absurd h id
  | _ :: _, [], _, h => by unfold QLRel at h; exact absurd h id
  | q :: t, q' :: t', n, h => by
    unfold QLRel at h
    simp only [List.find?_cons, ← h.1.d.name]
    cases q.d.name == n with
    | true => exact h.1
    | false => exact find_congr t t' n h.2

theorem hierarchy_congr : ∀ (path : List String) (create dyn : Bool) (conf conf' : List QC) (pd pd' : Option QD),
    QLRel conf conf' → pd.map (·.parent) = pd'.map (·.parent) →
    hierarchy path create dyn conf pd = hierarchy path create dyn conf' pd'
  | [], _, _, _, _, _, _, _, _ => by simp [hierarchy]
  | n :: rest, create, dyn, conf, conf', pd, pd', h, hp => by
    unfold hierarchy
    rw [← h.isEmpty]
    split
    · cases pd <;> cases pd' <;> simp at hp
      · rfl
      · simp [hp]
    · have hf := find_congr conf conf' n h
      cases e1 : conf.find? (fun q => q.d.name == n) with
      | none =>
        cases e2 : conf'.find? (fun q => q.d.name == n) with
        | none => rfl
        | some c' => rw [e1, e2] at hf; exact absurd hf id
      | some c =>
        cases e2 : conf'.find? (fun q => q.d.name == n) with
        | none => rw [e1, e2] at hf; exact absurd hf id
        | some c' =>
          rw [e1, e2] at hf
          simp only [← hf.d.parent]
          split
          · rfl
          · exact hierarchy_congr rest create dyn c.qs c'.qs (some c.d) (some c'.d) hf.qs (by simp [hf.d.parent])

theorem checkStaticPaths_congr : ∀ (paths : List StaticPath) (qs qs' : List QC), QLRel qs qs' →
    checkStaticPaths paths qs = checkStaticPaths paths qs'
  | [], _, _, _ => rfl
  | sp :: t, qs, qs', h => by
    unfold checkStaticPaths
    rw [hierarchy_congr _ sp.create sp.dynamic qs qs' none none h rfl, checkStaticPaths_congr t qs qs' h]

theorem checkPlacementRules_congr (rules : List Rule) (qs qs' : List QC) (h : QLRel qs qs') :
    checkPlacementRules rules qs = checkPlacementRules rules qs' := by
  unfold checkPlacementRules
  split
  · rfl
  · cases checkRulesL rules with
    | error e => rfl
    | ok u =>
      cases longestPaths rules with
      | error e => rfl
      | ok paths => simp only [bind, Except.bind]; exact checkStaticPaths_congr paths qs qs' h

mutual
theorem cqma_congr : ∀ (q q' : QC), QRel q q' → checkQueueMaxApps q = checkQueueMaxApps q'
  | .mk d qs, .mk d' qs', h => by
    unfold QRel at h
    unfold checkQueueMaxApps
    rw [← h.1.maxApps]; exact cqmaL_congr qs qs' d.maxApps h.2
theorem cqmaL_congr : ∀ (qs qs' : List QC) (cur : Nat), QLRel qs qs' → checkQueueMaxAppsL qs cur = checkQueueMaxAppsL qs' cur
  | [], [], _, _ => rfl
  | [], _ :: _, _, h => by unfold QLRel at h; exact absurd h id
  | _ :: _, [], _, h => by unfold QLRel at h; exact absurd h id
  | c :: t, c' :: t', cur, h => by
    unfold QLRel at h
    unfold checkQueueMaxAppsL
    rw [← h.1.d.maxApps, cqma_congr c c' h.1, cqmaL_congr t t' cur h.2]
end

/-! ### the limit loops, for any value domain whose operations respect a relation on the values -/

structure DomCongr {α : Type} (D : LimDom α) where
  VR : α → α → Prop
  val : ∀ l l', LRel l l' → KeysOK l.maxRes → VRel VR (D.val l) (D.val l')
  check : ∀ ex ex' lim lim', VR ex ex' → VR lim lim' → D.check ex lim = D.check ex' lim'
  comb : ∀ lim lim' ex ex', VR lim lim' → VR ex ex' → VR (D.comb lim ex) (D.comb lim' ex')

section limcongr
variable {α : Type} (D : LimDom α) (C : DomCongr D)

/-- two inherited maps with related entries -/
def MRel (m m' : LMap α) : Prop :=
  ∀ n, match m.lookup n, m'.lookup n with
    | none, none => True
    | some a, some b => C.VR a b
    | _, _ => False

theorem MRel.aset {m m' : LMap α} (h : MRel D C m m') (k : String) {v v' : α} (hv : C.VR v v') :
    MRel D C (aset m k v) (aset m' k v') := by
  intro n
  rw [lookup_aset, lookup_aset]
  by_cases hn : n = k
  · simp only [hn, if_true]; exact hv
  · simp only [hn, if_false]; exact h n

theorem limNames_congr (g : Bool) : ∀ (names : List String) (lim lim' : α) (par par' cur cur' : LMap α),
    C.VR lim lim' → MRel D C par par' → MRel D C cur cur' →
    VRel (MRel D C) (limNames D g names lim par cur) (limNames D g names lim' par' cur')
  | [], _, _, _, _, _, _, _, _, hc => by simp only [limNames, VRel]; exact hc
  | name :: t, lim, lim', par, par', cur, cur', hl, hp, hc => by
    unfold limNames
    have h1 := hp name
    cases e1 : par.lookup name with
    | some ex =>
      cases e1' : par'.lookup name with
      | none => rw [e1, e1'] at h1; exact absurd h1 id
      | some ex' =>
        rw [e1, e1'] at h1
        simp only
        rw [C.check ex ex' lim lim' h1 hl]
        split
        · exact VRel.error _
        · exact limNames_congr g t lim lim' par par' _ _ hl hp (hc.aset D C name (C.comb _ _ _ _ hl h1))
    | none =>
      cases e1' : par'.lookup name with
      | some ex' => rw [e1, e1'] at h1; exact absurd h1 id
      | none =>
        simp only
        by_cases hs : (name != "*") = true
        · simp only [hs, if_true]
          have h2 := hp "*"
          cases e2 : par.lookup "*" with
          | some ex =>
            cases e2' : par'.lookup "*" with
            | none => rw [e2, e2'] at h2; exact absurd h2 id
            | some ex' =>
              rw [e2, e2'] at h2
              simp only
              rw [C.check ex ex' lim lim' h2 hl]
              split
              · exact VRel.error _
              · exact limNames_congr g t lim lim' par par' _ _ hl hp (hc.aset D C name hl)
          | none =>
            cases e2' : par'.lookup "*" with
            | some ex' => rw [e2, e2'] at h2; exact absurd h2 id
            | none => exact limNames_congr g t lim lim' par par' _ _ hl hp (hc.aset D C name hl)
        · simp only [hs, Bool.false_eq_true, if_false]
          exact limNames_congr g t lim lim' par par' _ _ hl hp (hc.aset D C name hl)

theorem limLimits_congr : ∀ (ls ls' : List Limit) (pu pu' pg pg' cu cu' cg cg' : LMap α), LsRel ls ls' → LsKeys ls →
    MRel D C pu pu' → MRel D C pg pg' → MRel D C cu cu' → MRel D C cg cg' →
    VRel (fun a b => MRel D C a.1 b.1 ∧ MRel D C a.2 b.2) (limLimits D ls pu pg cu cg) (limLimits D ls' pu' pg' cu' cg')
  | [], [], _, _, _, _, _, _, _, _, _, _, _, _, hcu, hcg => by simp only [limLimits, VRel]; exact ⟨hcu, hcg⟩
  | [], _ :: _, _, _, _, _, _, _, _, _, h, _, _, _, _, _ => absurd h id
  | _ :: _, [], _, _, _, _, _, _, _, _, h, _, _, _, _, _ => absurd h id
  | l :: t, l' :: t', pu, pu', pg, pg', cu, cu', cg, cg', h, k, hpu, hpg, hcu, hcg => by
    unfold limLimits
    refine VRel.bind (C.val l l' h.1 (k l List.mem_cons_self)) ?_
    intro lim lim' hl
    rw [← h.1.users, ← h.1.groups]
    refine VRel.bind (limNames_congr D C false _ lim lim' pu pu' cu cu' hl hpu hcu) ?_
    intro cu1 cu1' hcu1
    refine VRel.bind (limNames_congr D C true _ lim lim' pg pg' cg cg' hl hpg hcg) ?_
    intro cg1 cg1' hcg1
    exact limLimits_congr t t' pu pu' pg pg' cu1 cu1' cg1 cg1' h.2 (fun x hx => k x (List.mem_cons_of_mem _ hx)) hpu hpg hcu1 hcg1

mutual
theorem checkLim_congr : ∀ (q q' : QC) (pu pu' pg pg' : LMap α), QRel q q' → QKeys q → MRel D C pu pu' → MRel D C pg pg' →
    checkLim D q pu pg = checkLim D q' pu' pg'
  | .mk d qs, .mk d' qs', pu, pu', pg, pg', h, k, hu, hg => by
    unfold QRel at h; unfold QKeys at k
    unfold checkLim
    apply VRel.eq
    refine VRel.bind (limLimits_congr D C d.limits d'.limits pu pu' pg pg' pu pu' pg pg' h.1.limits k.1.limits hu hg hu hg) ?_
    intro ⟨cu, cg⟩ ⟨cu', cg'⟩ ⟨hcu, hcg⟩
    exact VRel.of_eq (checkLimL_congr qs qs' cu cu' cg cg' h.2 k.2 hcu hcg)
theorem checkLimL_congr : ∀ (qs qs' : List QC) (cu cu' cg cg' : LMap α), QLRel qs qs' → QLKeys qs → MRel D C cu cu' → MRel D C cg cg' →
    checkLimL D qs cu cg = checkLimL D qs' cu' cg'
  | [], [], _, _, _, _, _, _, _, _ => rfl
  | [], _ :: _, _, _, _, _, h, _, _, _ => by unfold QLRel at h; exact absurd h id
  | _ :: _, [], _, _, _, _, h, _, _, _ => by unfold QLRel at h; exact absurd h id
  | c :: t, c' :: t', cu, cu', cg, cg', h, k, hu, hg => by
    unfold QLRel at h; unfold QLKeys at k
    unfold checkLimL
    rw [checkLim_congr c c' cu cu' cg cg' h.1 k.1 hu hg, checkLimL_congr t t' cu cu' cg cg' h.2 k.2 hu hg]
end

theorem MRel.nil : MRel D C [] [] := by intro n; simp

end limcongr

def resCongr : DomCongr resDom where
  VR := REq
  val := fun l l' h k => parse_congr h.res k
  check := fun ex ex' lim lim' he hl => fit_congr (p := some ex) (p' := some ex') he hl
  comb := by
    intro lim lim' ex ex' hl he
    have := cwMin_congr hl (p := some ex) (p' := some ex') he
    obtain ⟨o, ho⟩ := cwMin_some lim (some ex)
    obtain ⟨o', ho'⟩ := cwMin_some lim' (some ex')
    simp only [resDom]
    rw [ho, ho'] at this ⊢
    exact this

def appsCongr : DomCongr appsDom where
  VR := Eq
  val := fun l l' h _ => by simp only [appsDom, h.maxApps, VRel]
  check := fun _ _ _ _ he hl => by rw [he, hl]
  comb := fun _ _ _ _ hl _ => by simp only [appsDom]; exact hl

/-! ### the structure checks, one partition, the whole configuration -/

theorem lookup_perm {y y' : SMap} (hp : y.Perm y') (hn : (y.map Prod.fst).Nodup) (k : String) : y.lookup k = y'.lookup k := by
  have hn' : (y'.map Prod.fst).Nodup := (hp.map Prod.fst).nodup_iff.mp hn
  cases h1 : y.lookup k with
  | some s => exact ((lookup_iff_mem hn' k s).mpr (hp.mem_iff.mp ((lookup_iff_mem hn k s).mp h1))).symm
  | none =>
    cases h2 : y'.lookup k with
    | none => rfl
    | some s =>
      have := (lookup_iff_mem hn k s).mpr (hp.mem_iff.mpr ((lookup_iff_mem hn' k s).mp h2))
      rw [h1] at this; cases this

theorem smapEq_congr {a a' b b' : Option SMap} (ha : SRel a a') (hb : SRel b b') (kb : KeysOK b) :
    smapEq a b = smapEq a' b' := by
  obtain ⟨ia, pa⟩ := ha
  obtain ⟨ib, pb⟩ := hb
  cases a <;> cases a' <;> simp at ia <;> cases b <;> cases b' <;> simp at ib <;> simp only [smapEq]
  rename_i x x' y y'
  simp only [Option.getD_some] at pa pb
  unfold KeysOK at kb; simp only [Option.getD_some] at kb
  rw [pa.length_eq, pb.length_eq]
  congr 1
  have : (fun (p : String × String) => y.lookup p.1 == some p.2) = (fun p => y'.lookup p.1 == some p.2) := by
    funext p; rw [lookup_perm pb kb]
  rw [this]
  exact pa.all_eq

theorem limitEq_congr {a a' b b' : Limit} (ha : LRel a a') (hb : LRel b b') (kb : KeysOK b.maxRes) :
    limitEq a b = limitEq a' b' := by
  unfold limitEq
  rw [ha.label, ha.users, ha.groups, ha.maxApps, hb.label, hb.users, hb.groups, hb.maxApps, smapEq_congr ha.res hb.res kb]

theorem limitsEq_congr : ∀ (a a' b b' : List Limit), LsRel a a' → LsRel b b' → LsKeys b → limitsEq a b = limitsEq a' b'
  | [], [], [], [], _, _, _ => rfl
  | [], [], _ :: _, _ :: _, _, _, _ => rfl
  | _ :: _, _ :: _, [], [], _, _, _ => rfl
  | x :: t, x' :: t', y :: u, y' :: u', ha, hb, kb => by
    unfold limitsEq
    rw [limitEq_congr ha.1 hb.1 (kb y List.mem_cons_self),
      limitsEq_congr t t' u u' ha.2 hb.2 (fun l hl => kb l (List.mem_cons_of_mem _ hl))]
  | [], _ :: _, _, _, h, _, _ => absurd h id
  | _ :: _, [], _, _, h, _, _ => absurd h id
  | _, _, [], _ :: _, _, h, _ => absurd h id
  | _, _, _ :: _, [], _, h, _ => absurd h id

theorem LsRel.isEmpty : ∀ {a a' : List Limit}, LsRel a a' → a.isEmpty = a'.isEmpty
  | [], [], _ => rfl
  | [], _ :: _, h => absurd h id
  | _ :: _, [], h => absurd h id
  | _ :: _, _ :: _, _ => rfl

theorem LsRel.refl : ∀ (a : List Limit), LsRel a a
  | [] => trivial
  | l :: t => ⟨⟨rfl, rfl, rfl, rfl, SRel.refl _⟩, LsRel.refl t⟩

theorem DRel.refl (d : QD) : DRel d d :=
  ⟨rfl, rfl, rfl, rfl, rfl, SRel.refl _, SRel.refl _, SRel.refl _, rfl, SRel.refl _, SRel.refl _, SRel.refl _, LsRel.refl _⟩

theorem insertedRoot_rel {qs qs' : List QC} (h : QLRel qs qs') : QRel (insertedRoot qs) (insertedRoot qs') := by
  unfold insertedRoot QRel; exact ⟨DRel.refl _, h⟩

theorem insertedRoot_keys {qs : List QC} (k : QLKeys qs) : QKeys (insertedRoot qs) := by
  unfold insertedRoot QKeys
  refine ⟨⟨?_, ?_, ?_⟩, k⟩
  · simp [KeysOK]
  · simp [KeysOK]
  · intro l hl; cases hl

theorem topRoot_rel : ∀ {qs qs' : List QC}, QLRel qs qs' → QRel (topRoot qs) (topRoot qs')
  | [], [], h => insertedRoot_rel h
  | [], _ :: _, h => by unfold QLRel at h; exact absurd h id
  | _ :: _, [], h => by unfold QLRel at h; exact absurd h id
  | [.mk d cs], [.mk d' cs'], h => by
    have h0 := h
    unfold QLRel at h0
    have h1 := h0.1
    unfold QRel at h1
    have hc : (toLower d.name == "root") = (toLower d'.name == "root") := by rw [h1.1.name]
    by_cases hcond : (toLower d'.name == "root") = true
    · have hcond' := hc.trans hcond
      simp only [topRoot, hcond, hcond', if_true]
      unfold QRel
      exact ⟨⟨h1.1.name, rfl, h1.1.maxApps, h1.1.adminACL, h1.1.submitACL, h1.1.g, h1.1.m, h1.1.props, h1.1.tmplApps,
        h1.1.tmplProps, h1.1.tmplG, h1.1.tmplM, h1.1.limits⟩, h1.2⟩
    · have hcond' : ¬ (toLower d.name == "root") = true := by rw [hc]; exact hcond
      simp only [topRoot, hcond, hcond', if_false]
      exact insertedRoot_rel h
  | [_], _ :: _ :: _, h => by unfold QLRel at h; have := h.2; unfold QLRel at this; exact absurd this id
  | _ :: _ :: _, [_], h => by unfold QLRel at h; have := h.2; unfold QLRel at this; exact absurd this id
  | a :: b :: t, a' :: b' :: t', h => by
    cases a; cases a'
    simp only [topRoot]; exact insertedRoot_rel h

theorem topRoot_keys : ∀ {qs : List QC}, QLKeys qs → QKeys (topRoot qs)
  | [], k => insertedRoot_keys k
  | [.mk d cs], k => by
    have k0 := k
    unfold QLKeys at k0
    have k1 := k0.1
    unfold QKeys at k1
    by_cases hcond : (toLower d.name == "root") = true
    · simp only [topRoot, hcond, if_true]
      unfold QKeys; exact ⟨⟨k1.1.g, k1.1.m, k1.1.limits⟩, k1.2⟩
    · simp only [topRoot, hcond, if_false]
      exact insertedRoot_keys k
  | a :: b :: t, k => by
    cases a
    simp only [topRoot]; exact insertedRoot_keys k

def OQLRel : Option (List QC) → Option (List QC) → Prop
  | none, none => True
  | some a, some b => QLRel a b
  | _, _ => False

theorem checkQueuesStructure_congr {qs qs' : Option (List QC)} (h : OQLRel qs qs') :
    VRel QRel (checkQueuesStructure qs) (checkQueuesStructure qs') := by
  cases qs <;> cases qs' <;> simp only [OQLRel] at h
  · exact VRel.error _
  · rename_i l l'
    have hr := topRoot_rel h
    unfold checkQueuesStructure
    simp only
    rw [hr.d.g.1, hr.d.m.1]
    split
    · exact VRel.error _
    · exact hr

theorem checkQueuesStructure_keys {qs : List QC} {r : QC} (h : checkQueuesStructure (some qs) = .ok r) (k : QLKeys qs) : QKeys r := by
  unfold checkQueuesStructure at h
  simp only at h
  split at h
  · cases h
  · injection h with h; subst h; exact topRoot_keys k

theorem checkLimitsStructure_congr {pl pl' : List Limit} {r r' : QC} (hl : LsRel pl pl') (h : QRel r r') (k : QKeys r) :
    VRel QRel (checkLimitsStructure pl r) (checkLimitsStructure pl' r') := by
  unfold checkLimitsStructure
  rw [← h.d.name, ← hl.isEmpty, ← h.d.limits.isEmpty, ← limitsEq_congr pl pl' _ _ hl h.d.limits k.d.limits]
  split
  · exact VRel.error _
  · split
    · exact VRel.error _
    · split
      · cases r; cases r'
        have h0 := h; unfold QRel at h0
        simp only [VRel, QC.d, QC.qs]
        unfold QRel
        exact ⟨⟨h0.1.name, h0.1.parent, h0.1.maxApps, h0.1.adminACL, h0.1.submitACL, h0.1.g, h0.1.m, h0.1.props,
          h0.1.tmplApps, h0.1.tmplProps, h0.1.tmplG, h0.1.tmplM, hl⟩, h0.2⟩
      · exact h

theorem checkLimitsStructure_keys {pl : List Limit} {r r1 : QC} (h : checkLimitsStructure pl r = .ok r1) (k : QKeys r) (kl : LsKeys pl) :
    QKeys r1 := by
  unfold checkLimitsStructure at h
  split at h
  · cases h
  · split at h
    · cases h
    · split at h
      · injection h with h; subst h
        cases r
        have k0 := k; unfold QKeys at k0
        simp only [QC.d, QC.qs]
        unfold QKeys
        exact ⟨⟨k0.1.g, k0.1.m, kl⟩, k0.2⟩
      · injection h with h; subst h; exact k

/-- two partitions that differ in the order of map entries only (queues, limits and rules keep their order) -/
structure PRel (p p' : Part) : Prop where
  name : p.name = p'.name
  queues : OQLRel p.queues p'.queues
  rules : p.rules = p'.rules
  limits : LsRel p.limits p'.limits
  nsp : p.nsp = p'.nsp
  weights : p.weights.Perm p'.weights

structure PKeys (p : Part) : Prop where
  queues : ∀ qs, p.queues = some qs → QLKeys qs
  limits : LsKeys p.limits

theorem VRel.bind' {α β γ δ : Type} {R : α → β → Prop} {S : γ → δ → Prop} {x : V α} {y : V β} {f : α → V γ} {g : β → V δ}
    (h : VRel R x y) (hf : ∀ a b, x = .ok a → y = .ok b → R a b → VRel S (f a) (g b)) : VRel S (x >>= f) (y >>= g) := by
  cases x <;> cases y <;> simp only [VRel] at h
  · subst h; show VRel S (Except.error _) (Except.error _); simp [VRel]
  · exact hf _ _ rfl rfl h

theorem validatePart_congr {p p' : Part} (h : PRel p p') (k : PKeys p) : VRel PRel (validatePart p) (validatePart p') := by
  unfold validatePart
  refine VRel.bind' (checkQueuesStructure_congr h.queues) ?_
  intro r0 r0' e0 _ hr0
  have k0 : QKeys r0 := by
    cases hq : p.queues with
    | none => rw [hq] at e0; cases e0
    | some qs => rw [hq] at e0; exact checkQueuesStructure_keys e0 (k.queues qs hq)
  refine VRel.bind' (checkLimitsStructure_congr h.limits hr0 k0) ?_
  intro r r' e1 _ hr
  have kr : QKeys r := checkLimitsStructure_keys e1 k0 k.limits
  have hl : QLRel [r] [r'] := by unfold QLRel; exact ⟨hr, by unfold QLRel; trivial⟩
  refine VRel.bind (VRel.of_eq (checkQueues_congr r r' hr kr)) ?_
  intro _ _ _
  refine VRel.bind (cqr_congr r r' none none hr kr trivial) ?_
  intro _ _ _
  rw [← h.rules]
  refine VRel.bind (VRel.of_eq (checkPlacementRules_congr p.rules [r] [r'] hl)) ?_
  intro _ _ _
  have hw : checkNodeSortingPolicy p.nsp p.weights = checkNodeSortingPolicy p'.nsp p'.weights := by
    unfold checkNodeSortingPolicy; rw [← h.nsp, h.weights.any_eq]
  refine VRel.bind (VRel.of_eq hw) ?_
  intro _ _ _
  refine VRel.bind (VRel.of_eq (cqma_congr r r' hr)) ?_
  intro _ _ _
  refine VRel.bind (VRel.of_eq (checkLim_congr resDom resCongr r r' [] [] [] [] hr kr (MRel.nil _ _) (MRel.nil _ _))) ?_
  intro _ _ _
  refine VRel.bind (VRel.of_eq (checkLim_congr appsDom appsCongr r r' [] [] [] [] hr kr (MRel.nil _ _) (MRel.nil _ _))) ?_
  intro _ _ _
  simp only [pure, Except.pure, VRel]
  exact ⟨h.name, hl, h.rules ▸ rfl, h.limits, h.nsp, h.weights⟩

def PsRel : List Part → List Part → Prop
  | [], [] => True
  | p :: t, p' :: t' => PRel p p' ∧ PsRel t t'
  | _, _ => False

def PsKeys (ps : List Part) : Prop := ∀ p ∈ ps, PKeys p

theorem validateL_congr : ∀ (ps ps' : List Part) (seen : List String), PsRel ps ps' → PsKeys ps →
    VRel PsRel (validateL ps seen) (validateL ps' seen)
  | [], [], _, _, _ => by simp only [validateL, VRel, PsRel]
  | [], _ :: _, _, h, _ => absurd h id
  | _ :: _, [], _, h, _ => absurd h id
  | p :: t, p' :: t', seen, h, k => by
    unfold validateL
    have hn : partName p = partName p' := by unfold partName; rw [h.1.name]
    simp only [← hn]
    split
    · exact VRel.error _
    · have hp : PRel { p with name := partName p } { p' with name := partName p } :=
        ⟨rfl, h.1.queues, h.1.rules, h.1.limits, h.1.nsp, h.1.weights⟩
      have kp : PKeys { p with name := partName p } := ⟨(k p List.mem_cons_self).queues, (k p List.mem_cons_self).limits⟩
      refine VRel.bind (validatePart_congr hp kp) ?_
      intro a b hab
      refine VRel.bind (validateL_congr t t' _ h.2 (fun x hx => k x (List.mem_cons_of_mem _ hx))) ?_
      intro r r' hr
      simp only [pure, Except.pure, VRel, PsRel]
      exact ⟨hab, hr⟩

/-- `validate` does not depend on the order of the entries of the maps of the configuration -/
theorem validate_congr {ps ps' : List Part} (h : PsRel ps ps') (k : PsKeys ps) : VRel PsRel (validate ps) (validate ps') :=
  validateL_congr ps ps' [] h k

/-! ### every family of permutations gives a related configuration -/

def mapLimit (σ : SMap → SMap) (l : Limit) : Limit := { l with maxRes := l.maxRes.map σ }
def mapTmpl (σ : SMap → SMap) (t : Tmpl) : Tmpl := { t with props := t.props.map σ, g := t.g.map σ, m := t.m.map σ }
def mapQD (σ : SMap → SMap) (d : QD) : QD :=
  { d with g := d.g.map σ, m := d.m.map σ, props := d.props.map σ, tmpl := mapTmpl σ d.tmpl, limits := d.limits.map (mapLimit σ) }

mutual
def mapQC (σ : SMap → SMap) : QC → QC
  | .mk d qs => .mk (mapQD σ d) (mapQCL σ qs)
def mapQCL (σ : SMap → SMap) : List QC → List QC
  | [] => []
  | q :: t => mapQC σ q :: mapQCL σ t
end

/-- re-order the entries of every map-typed field of a partition: `σ` for the string maps (it may treat every map
    differently), `τ` for the resource weights; queues, limits and rules keep their order -/
def mapPart (σ : SMap → SMap) (τ : List (String × Bool) → List (String × Bool)) (p : Part) : Part :=
  { p with queues := p.queues.map (mapQCL σ), limits := p.limits.map (mapLimit σ), weights := τ p.weights }

theorem SRel.map {σ : SMap → SMap} (hσ : ∀ m, (σ m).Perm m) (a : Option SMap) : SRel a (a.map σ) := by
  cases a with
  | none => exact ⟨rfl, List.Perm.refl _⟩
  | some m => exact ⟨rfl, (hσ m).symm⟩

theorem LsRel.map {σ : SMap → SMap} (hσ : ∀ m, (σ m).Perm m) : ∀ (ls : List Limit), LsRel ls (ls.map (mapLimit σ))
  | [] => trivial
  | l :: t => ⟨⟨rfl, rfl, rfl, rfl, SRel.map hσ _⟩, LsRel.map hσ t⟩

mutual
theorem QRel.map {σ : SMap → SMap} (hσ : ∀ m, (σ m).Perm m) : ∀ (q : QC), QRel q (mapQC σ q)
  | .mk d qs => by
    unfold mapQC QRel
    exact ⟨⟨rfl, rfl, rfl, rfl, rfl, SRel.map hσ _, SRel.map hσ _, SRel.map hσ _, rfl, SRel.map hσ _, SRel.map hσ _,
      SRel.map hσ _, LsRel.map hσ _⟩, QLRel.map hσ qs⟩
theorem QLRel.map {σ : SMap → SMap} (hσ : ∀ m, (σ m).Perm m) : ∀ (qs : List QC), QLRel qs (mapQCL σ qs)
  | [] => by unfold mapQCL QLRel; trivial
  | q :: t => by unfold mapQCL QLRel; exact ⟨QRel.map hσ q, QLRel.map hσ t⟩
end

theorem PsRel.map {σ : SMap → SMap} {τ : List (String × Bool) → List (String × Bool)} (hσ : ∀ m, (σ m).Perm m) (hτ : ∀ w, (τ w).Perm w) :
    ∀ (ps : List Part), PsRel ps (ps.map (mapPart σ τ))
  | [] => trivial
  | p :: t => by
    refine ⟨⟨rfl, ?_, rfl, LsRel.map hσ _, rfl, (hτ _).symm⟩, PsRel.map hσ hτ t⟩
    simp only [mapPart]
    cases p.queues with
    | none => trivial
    | some qs => exact QLRel.map hσ qs

/-! ### below the error class: the message of NewResourceFromConf is that of the first offending entry of the walk -/

/-- the error of the first entry of a resource map that does not parse, in the order of the walk -/
def firstParseErr : SMap → Option PErr
  | [] => none
  | (k, s) :: t =>
    match parseQ s (k == "vcore") with
    | .error e => some e
    | .ok _ => firstParseErr t

def errOf (p : String × String) : Option PErr :=
  match parseQ p.2 (p.1 == "vcore") with
  | .error e => some e
  | .ok _ => none

theorem firstParseErr_unique (p : String × String) : ∀ (m : SMap), (∀ q ∈ m, errOf q ≠ none → q = p) →
    firstParseErr m = if p ∈ m then errOf p else none
  | [], _ => by simp [firstParseErr]
  | (k, s) :: t, h => by
    unfold firstParseErr
    cases hq : parseQ s (k == "vcore") with
    | error e =>
      have he : errOf (k, s) = some e := by simp [errOf, hq]
      have := h (k, s) List.mem_cons_self (by rw [he]; simp)
      subst this
      simp [he]
    | ok v =>
      have he : errOf (k, s) = none := by simp [errOf, hq]
      simp only
      rw [firstParseErr_unique p t (fun q hq' => h q (List.mem_cons_of_mem _ hq'))]
      by_cases hp : p = (k, s)
      · subst hp; simp [he]
      · have : (p ∈ (k, s) :: t) = (p ∈ t) := by simp [hp]
        simp only [this]

/-- with at most one offending entry the message does not depend on the order either … -/
theorem firstParseErr_perm {m m' : SMap} (hp : m.Perm m')
    (h1 : ∀ q1 ∈ m, ∀ q2 ∈ m, errOf q1 ≠ none → errOf q2 ≠ none → q1 = q2) : firstParseErr m = firstParseErr m' := by
  by_cases hex : ∃ p, p ∈ m ∧ errOf p ≠ none
  · obtain ⟨p, hpm, hpe⟩ := hex
    rw [firstParseErr_unique p m (fun q hq hqe => h1 q hq p hpm hqe hpe),
      firstParseErr_unique p m' (fun q hq hqe => h1 q (hp.mem_iff.mpr hq) p hpm hqe hpe)]
    simp [hpm, hp.mem_iff.mp hpm]
  · have hn : ∀ q ∈ m, errOf q ≠ none → q = ("", "") := fun q hq hqe => absurd ⟨q, hq, hqe⟩ hex
    have hn' : ∀ q ∈ m', errOf q ≠ none → q = ("", "") := fun q hq hqe => absurd ⟨q, hp.mem_iff.mpr hq, hqe⟩ hex
    rw [firstParseErr_unique _ m hn, firstParseErr_unique _ m' hn']
    by_cases hm : (("", "") : String × String) ∈ m
    · have he : errOf ("", "") = none := by
        cases h : errOf ("", "") with
        | none => rfl
        | some e => exact absurd ⟨_, hm, by rw [h]; simp⟩ hex
      simp [he]
    · have hm' : (("", "") : String × String) ∉ m' := fun h => hm (hp.mem_iff.mpr h)
      simp [hm, hm']

end Yk.Conf
