/-
  Refinement proof: the ring buffer model `Ring` (YkModel/Ring.lean) refines the abstract history `Hist`.
  Lemmas used by YkProps/C20.lean.
-/
import YkModel.Ring
namespace Yk

/-! ### modular arithmetic helpers -/

theorem mod_add_cases {r d c : Nat} (hr : r < c) (hd : d < c) :
    ((r + d) % c = r + d ∧ r + d < c) ∨ ((r + d) % c = r + d - c ∧ c ≤ r + d) := by
  by_cases h : r + d < c
  · exact Or.inl ⟨Nat.mod_eq_of_lt h, h⟩
  · refine Or.inr ⟨?_, by omega⟩
    rw [Nat.mod_eq_sub_mod (by omega)]
    exact Nat.mod_eq_of_lt (by omega)

theorem mod_ne_of_window {a b c : Nat} (h1 : a < b) (h2 : b - a < c) : a % c ≠ b % c := by
  have hc : 0 < c := by omega
  have hb : b = a + (b - a) := by omega
  have hr : a % c < c := Nat.mod_lt _ hc
  have e : b % c = (a % c + (b - a)) % c := by
    rw [Nat.mod_add_mod]; rw [← hb]
  rcases mod_add_cases hr h2 with ⟨h, _⟩ | ⟨h, _⟩ <;> omega

theorem sub_mod_shift {a n c : Nat} (hn : n ≤ a) (hnc : n ≤ c) :
    (a % c + c - n) % c = (a - n) % c := by
  have h1 : a % c + c - n + c * (a / c) = (a - n) + c := by
    have := Nat.mod_add_div a c; omega
  calc (a % c + c - n) % c = (a % c + c - n + c * (a / c)) % c := (Nat.add_mul_mod_self_left _ _ _).symm
    _ = (a - n + c) % c := by rw [h1]
    _ = (a - n) % c := Nat.add_mod_right _ _

/-- consecutive ids occupy consecutive positions modulo the capacity -/
theorem pos_shift {s off c j : Nat} (ho : off ≤ s) :
    (s + j - off) % c = ((s - off) % c + j) % c := by
  rw [Nat.mod_add_mod]; congr 1; omega

/-! ### the refinement invariant -/

structure RingRel (e : Ring) (h : Hist) : Prop where
  id_eq : e.id = h.all.length
  lowest_eq : e.lowestId = h.lowest
  cap_eq : e.capacity = h.cap
  cap_pos : 0 < e.capacity
  len_eq : e.events.length = e.capacity
  lo_le : e.lowestId ≤ e.id
  win : e.id - e.lowestId ≤ e.capacity
  off_le : e.resizeOffset ≤ e.lowestId
  head_eq : e.head = (e.id - e.resizeOffset) % e.capacity
  full_iff : e.full = true ↔ e.id - e.lowestId = e.capacity
  off_eq : e.full = false → e.resizeOffset = e.lowestId
  ev : ∀ i, e.lowestId ≤ i → i < e.id →
    e.events[(i - e.resizeOffset) % e.capacity]? = (h.all[i]?).map some

theorem rel_new (cap : Nat) (hc : 0 < cap) : RingRel (Ring.new cap) (Hist.new cap) := by
  constructor <;> simp [Ring.new, Hist.new, hc]
  omega


theorem add_ev_clause {e : Ring} {h : Hist} (r : RingRel e h) (ev : Ev) (lo' : Nat)
    (hlo : e.lowestId ≤ lo') (hw : e.id - lo' < e.capacity) :
    ∀ i, lo' ≤ i → i < e.id + 1 →
      (e.events.set e.head (some ev))[(i - e.resizeOffset) % e.capacity]? = ((h.all ++ [ev])[i]?).map some := by
  intro i h1 h2
  have hoff := r.off_le
  have hhead : e.head < e.events.length := by
    rw [r.len_eq, r.head_eq]; exact Nat.mod_lt _ r.cap_pos
  by_cases hi : i = e.id
  · subst hi
    rw [← r.head_eq, List.getElem?_set_self hhead, r.id_eq]
    simp
  · have hlt : i < e.id := by omega
    have hne : e.head ≠ (i - e.resizeOffset) % e.capacity := by
      rw [r.head_eq]
      exact Ne.symm (mod_ne_of_window (by omega) (by omega))
    rw [List.getElem?_set_ne hne, List.getElem?_append_left (by rw [← r.id_eq]; exact hlt)]
    exact r.ev i (by omega) hlt

theorem rel_add {e : Ring} {h : Hist} (r : RingRel e h) (ev : Ev) : RingRel (e.add ev) (h.add ev) := by
  have hid := r.id_eq
  have hlo := r.lowest_eq
  have hcap := r.cap_eq
  have hpos := r.cap_pos
  have hle := r.lo_le
  have hwin := r.win
  have hoff := r.off_le
  have hhead := r.head_eq
  have hnext : (e.head + 1) % e.capacity = (e.id + 1 - e.resizeOffset) % e.capacity := by
    rw [hhead, Nat.mod_add_mod]; congr 1; omega
  cases hf : e.full with
  | false =>
    have hoe := r.off_eq hf
    have hlt : e.id - e.lowestId < e.capacity := by
      have : ¬ (e.id - e.lowestId = e.capacity) := fun h' => by
        have := r.full_iff.mpr h'; simp [hf] at this
      omega
    have hh : e.head = e.id - e.lowestId := by
      rw [hhead, hoe]; exact Nat.mod_eq_of_lt hlt
    have hlow : (h.add ev).lowest = h.lowest := by
      simp only [Hist.add]; rw [if_neg]; omega
    constructor
    · simp [Ring.add, Hist.add, hid]
    · rw [hlow]; simp [Ring.add, hf, hlo]
    · simp [Ring.add, Hist.add, hcap]
    · simpa [Ring.add] using hpos
    · simpa [Ring.add] using r.len_eq
    · simp [Ring.add, hf]; omega
    · simp [Ring.add, hf]; omega
    · simpa [Ring.add, hf] using hoff
    · simpa [Ring.add] using hnext
    · simp [Ring.add, hf]; omega
    · intro _; simpa [Ring.add, hf] using hoe
    · have := add_ev_clause r ev e.lowestId (Nat.le_refl _) hlt
      simpa [Ring.add, hf, Hist.add] using this
  | true =>
    have heq : e.id - e.lowestId = e.capacity := r.full_iff.mp hf
    have hlow : (h.add ev).lowest = h.lowest + 1 := by
      simp only [Hist.add]; rw [if_pos]; omega
    constructor
    · simp [Ring.add, Hist.add, hid]
    · rw [hlow]; simp [Ring.add, hf, hlo]
    · simp [Ring.add, Hist.add, hcap]
    · simpa [Ring.add] using hpos
    · simpa [Ring.add] using r.len_eq
    · simp [Ring.add, hf]; omega
    · simp [Ring.add, hf]; omega
    · simp [Ring.add, hf]; omega
    · simpa [Ring.add] using hnext
    · simp [Ring.add, hf]; omega
    · intro hc; simp [Ring.add, hf] at hc
    · have := add_ev_clause r ev (e.lowestId + 1) (by omega) (by omega)
      simpa [Ring.add, hf, Hist.add] using this

/-- the lowest id kept by a resize -/
def newLowest (e : Ring) (n : Nat) : Nat :=
  if e.capacity < n then e.lowestId else if e.id - e.lowestId ≤ n then e.lowestId else e.id - n

theorem newLowest_spec {e : Ring} {n : Nat} (hle : e.lowestId ≤ e.id) (hwin : e.id - e.lowestId ≤ e.capacity) :
    min (e.id - e.lowestId) n = e.id - newLowest e n ∧ e.lowestId ≤ newLowest e n ∧ newLowest e n ≤ e.id ∧
    newLowest e n = max e.lowestId (e.id - n) := by
  unfold newLowest
  split
  · omega
  · split <;> omega

theorem resize_eq {e : Ring} {n : Nat} (hne : n ≠ e.capacity)
    (hle : e.lowestId ≤ e.id) (hwin : e.id - e.lowestId ≤ e.capacity) :
    e.resize n =
      { events := (List.range (e.id - newLowest e n)).map
            (fun i => e.events.getD (((e.head + e.capacity - (e.id - newLowest e n)) % e.capacity + i) % e.capacity) none)
          ++ List.replicate (n - (e.id - newLowest e n)) none
        capacity := n
        head := (e.id - newLowest e n) % n
        full := (e.id - newLowest e n) == n
        id := e.id
        lowestId := newLowest e n
        resizeOffset := newLowest e n } := by
  have hm := (newLowest_spec (n := n) hle hwin).1
  have hb : (n == e.capacity) = false := by simpa using hne
  unfold Ring.resize
  rw [hb]
  simp only [Bool.false_eq_true, if_false]
  rw [hm]
  rfl

theorem rel_resize {e : Ring} {h : Hist} (r : RingRel e h) (n : Nat) (hn : 0 < n) :
    RingRel (e.resize n) (h.resize n) := by
  have hid := r.id_eq
  have hlo := r.lowest_eq
  have hcap := r.cap_eq
  have hpos := r.cap_pos
  have hle := r.lo_le
  have hwin := r.win
  have hoff := r.off_le
  have hhead := r.head_eq
  by_cases hne : n = e.capacity
  · have h1 : e.resize n = e := by simp [Ring.resize, hne]
    have h2 : h.resize n = h := by
      cases h with
      | mk all lowest cap =>
        simp only [Hist.resize] at *
        congr 1
        · omega
        · omega
    rw [h1, h2]; exact r
  · obtain ⟨hm, hl1, hl2, hl3⟩ := newLowest_spec (n := n) hle hwin
    rw [resize_eq hne hle hwin]
    generalize hnl : newLowest e n = nl at *
    have hmn : e.id - nl ≤ n := by omega
    have hmc : e.id - nl ≤ e.capacity := by omega
    constructor
    · simpa [Hist.resize] using hid
    · simp only [Hist.resize]; omega
    · simp [Hist.resize]
    · exact hn
    · simp; omega
    · exact hl2
    · exact hmn
    · exact Nat.le_refl _
    · rfl
    · simp
    · intro _; rfl
    · intro i hi1 hi2
      dsimp only at hi1 hi2 ⊢
      have hj : (i - nl) % n = i - nl := Nat.mod_eq_of_lt (by omega)
      rw [hj, List.getElem?_append_left (by simp; omega)]
      rw [List.getElem?_map, List.getElem?_range (by omega)]
      simp only [Option.map_some, Hist.resize]
      have hpos' : ((e.head + e.capacity - (e.id - nl)) % e.capacity + (i - nl)) % e.capacity
          = (i - e.resizeOffset) % e.capacity := by
        rw [hhead, sub_mod_shift (by omega) hmc, Nat.mod_add_mod]
        congr 1; omega
      rw [hpos']
      have := r.ev i (by omega) hi2
      rw [List.getD_eq_getElem?_getD, this]
      have hi3 : i < h.all.length := by omega
      simp [List.getElem?_eq_getElem hi3]

theorem ring_rel_fold (ops : List RingOp) (hv : ∀ n, RingOp.resize n ∈ ops → 0 < n) :
    ∀ (e : Ring) (h : Hist), RingRel e h → RingRel (ops.foldl Ring.step e) (ops.foldl Hist.step h) := by
  induction ops with
  | nil => intro e h r; exact r
  | cons op ops ih =>
    intro e h r
    simp only [List.foldl_cons]
    apply ih (fun n hn => hv n (List.mem_cons_of_mem _ hn))
    cases op with
    | add ev => exact rel_add r ev
    | resize n => exact rel_resize r n (hv n (List.mem_cons_self ..))

theorem ring_rel_run (cap : Nat) (hc : 0 < cap) (ops : List RingOp)
    (hv : ∀ n, RingOp.resize n ∈ ops → 0 < n) :
    RingRel (ops.foldl Ring.step (Ring.new cap)) (ops.foldl Hist.step (Hist.new cap)) :=
  ring_rel_fold ops hv _ _ (rel_new cap hc)

theorem hist_window (cap : Nat) (hc : 0 < cap) (ops : List RingOp)
    (hv : ∀ n, RingOp.resize n ∈ ops → 0 < n) :
    let h := ops.foldl Hist.step (Hist.new cap)
    h.lowest ≤ h.all.length ∧ h.all.length - h.lowest ≤ h.cap ∧
    (∀ ev, (h.add ev).all.length - (h.add ev).lowest = min (h.all.length - h.lowest + 1) h.cap) ∧
    (∀ n, 0 < n → (h.resize n).all.length - (h.resize n).lowest = min (h.all.length - h.lowest) n) := by
  intro h
  have r := ring_rel_run cap hc ops hv
  have h1 : h.lowest ≤ h.all.length := by
    have := r.lo_le; rw [r.id_eq, r.lowest_eq] at this; exact this
  have h2 : h.all.length - h.lowest ≤ h.cap := by
    have := r.win; rw [r.id_eq, r.lowest_eq, r.cap_eq] at this; exact this
  refine ⟨h1, h2, ?_, ?_⟩
  · intro ev
    simp only [Hist.add, List.length_append, List.length_singleton]
    split <;> omega
  · intro n _
    simp only [Hist.resize]
    omega

/-! ### queries -/

theorem slice_getElem? (l : List (Option Ev)) (a b j : Nat) :
    (Ring.slice l a b)[j]? = if j < b - a then l[a + j]? else none := by
  simp only [Ring.slice, List.getElem?_take, List.getElem?_drop]

theorem slice_length (l : List (Option Ev)) (a b : Nat) :
    (Ring.slice l a b).length = min (b - a) (l.length - a) := by
  simp only [Ring.slice, List.length_take, List.length_drop]

theorem spec_getElem? (all : List Ev) (s k j : Nat) :
    (((all.drop s).take k).map some)[j]? = if j < k then (all[s + j]?).map some else none := by
  rw [List.getElem?_map, List.getElem?_take, List.getElem?_drop]
  split <;> rfl

theorem get_caseB (events : List (Option Ev)) (all : List Ev) (pos head start cnt id : Nat)
    (hph : pos ≤ head) (hd : head - pos = id - start) (hid : id = all.length)
    (hev : ∀ j, pos + j < head → events[pos + j]? = (all[start + j]?).map some) :
    Ring.slice events pos (min (pos + cnt) head) = ((all.drop start).take cnt).map some := by
  apply List.ext_getElem?
  intro j
  rw [slice_getElem?, spec_getElem?]
  by_cases hj : j < min (pos + cnt) head - pos
  · rw [if_pos hj, if_pos (by omega), hev j (by omega)]
  · rw [if_neg hj]
    by_cases hk : j < cnt
    · rw [if_pos hk]
      have : all[start + j]? = none := List.getElem?_eq_none (by omega)
      rw [this]; rfl
    · rw [if_neg hk]

theorem get_caseA (events : List (Option Ev)) (all : List Ev) (pos head start cnt id c : Nat)
    (hlen : events.length = c) (hpc : pos < c)
    (hd : (c - pos) + head = id - start) (hid : id = all.length)
    (hev1 : ∀ j, pos + j < c → events[pos + j]? = (all[start + j]?).map some)
    (hev2 : ∀ j, c ≤ pos + j → pos + j < c + head → events[pos + j - c]? = (all[start + j]?).map some) :
    Ring.slice events pos (min (pos + cnt) c) ++
      (if pos + cnt > c then Ring.slice events 0 (min (pos + cnt - c) head) else [])
      = ((all.drop start).take cnt).map some := by
  apply List.ext_getElem?
  intro j
  rw [List.getElem?_append, slice_length, spec_getElem?, hlen]
  by_cases hj : j < min (min (pos + cnt) c - pos) (c - pos)
  · rw [if_pos hj, slice_getElem?, if_pos (by omega), if_pos (by omega), hev1 j (by omega)]
  · rw [if_neg hj]
    by_cases hw : pos + cnt > c
    · rw [if_pos hw, slice_getElem?]
      by_cases hj2 : j - min (min (pos + cnt) c - pos) (c - pos) < min (pos + cnt - c) head - 0
      · rw [if_pos hj2, if_pos (by omega)]
        have := hev2 j (by omega) (by omega)
        rw [← this]; congr 1; omega
      · rw [if_neg hj2]
        by_cases hk : j < cnt
        · rw [if_pos hk]
          have : all[start + j]? = none := List.getElem?_eq_none (by omega)
          rw [this]; rfl
        · rw [if_neg hk]
    · rw [if_neg hw, if_neg (by omega)]; rfl

theorem pos_facts {e : Ring} {h : Hist} (r : RingRel e h) {start : Nat}
    (h1 : e.lowestId ≤ start) (h2 : start < e.id) :
    (start - e.resizeOffset) % e.capacity < e.capacity ∧ e.head < e.capacity ∧
    ((e.full = true ∧ e.head ≤ (start - e.resizeOffset) % e.capacity) →
      (e.capacity - (start - e.resizeOffset) % e.capacity) + e.head = e.id - start) ∧
    (¬ (e.full = true ∧ e.head ≤ (start - e.resizeOffset) % e.capacity) →
      (start - e.resizeOffset) % e.capacity ≤ e.head ∧
      e.head - (start - e.resizeOffset) % e.capacity = e.id - start) := by
  have hpos := r.cap_pos
  have hle := r.lo_le
  have hwin := r.win
  have hoff := r.off_le
  have hhead := r.head_eq
  have hp : (start - e.resizeOffset) % e.capacity < e.capacity := Nat.mod_lt _ hpos
  have hh : e.head < e.capacity := by rw [hhead]; exact Nat.mod_lt _ hpos
  refine ⟨hp, hh, ?_, ?_⟩
  · rintro ⟨hf, hge⟩
    have heq : e.id - e.lowestId = e.capacity := r.full_iff.mp hf
    have hL : (e.lowestId - e.resizeOffset) % e.capacity < e.capacity := Nat.mod_lt _ hpos
    have hhL : e.head = (e.lowestId - e.resizeOffset) % e.capacity := by
      rw [hhead]
      have : e.id - e.resizeOffset = (e.lowestId - e.resizeOffset) + e.capacity := by omega
      rw [this, Nat.add_mod_right]
    have hpL : (start - e.resizeOffset) % e.capacity =
        ((e.lowestId - e.resizeOffset) % e.capacity + (start - e.lowestId)) % e.capacity := by
      rw [Nat.mod_add_mod]; congr 1; omega
    rcases mod_add_cases hL (show start - e.lowestId < e.capacity by omega) with ⟨hm, hlt⟩ | ⟨hm, hge'⟩
    · rw [hpL, hm] at hge ⊢; omega
    · rw [hpL, hm] at hge ⊢; omega
  · intro hn
    cases hf : e.full with
    | false =>
      have hoe := r.off_eq hf
      have hlt : e.id - e.lowestId < e.capacity := by
        have : ¬ (e.id - e.lowestId = e.capacity) := fun h' => by
          have := r.full_iff.mpr h'; simp [hf] at this
        omega
      have e1 : e.head = e.id - e.lowestId := by
        rw [hhead, hoe]; exact Nat.mod_eq_of_lt hlt
      have e2 : (start - e.resizeOffset) % e.capacity = start - e.lowestId := by
        rw [hoe]; exact Nat.mod_eq_of_lt (by omega)
      rw [e1, e2]; omega
    | true =>
      have hlt : (start - e.resizeOffset) % e.capacity < e.head := by
        have : ¬ (e.head ≤ (start - e.resizeOffset) % e.capacity) := fun h' => hn ⟨hf, h'⟩
        omega
      have heq : e.id - e.lowestId = e.capacity := r.full_iff.mp hf
      have hL : (e.lowestId - e.resizeOffset) % e.capacity < e.capacity := Nat.mod_lt _ hpos
      have hhL : e.head = (e.lowestId - e.resizeOffset) % e.capacity := by
        rw [hhead]
        have : e.id - e.resizeOffset = (e.lowestId - e.resizeOffset) + e.capacity := by omega
        rw [this, Nat.add_mod_right]
      have hpL : (start - e.resizeOffset) % e.capacity =
          ((e.lowestId - e.resizeOffset) % e.capacity + (start - e.lowestId)) % e.capacity := by
        rw [Nat.mod_add_mod]; congr 1; omega
      rcases mod_add_cases hL (show start - e.lowestId < e.capacity by omega) with ⟨hm, hlt'⟩ | ⟨hm, hge'⟩
      · rw [hpL, hm] at hlt ⊢; omega
      · rw [hpL, hm] at hlt ⊢; omega

theorem ev_at {e : Ring} {h : Hist} (r : RingRel e h) {start : Nat} (h1 : e.lowestId ≤ start) (j : Nat)
    (h2 : start + j < e.id) :
    e.events[((start - e.resizeOffset) % e.capacity + j) % e.capacity]? = (h.all[start + j]?).map some := by
  have hoff := r.off_le
  rw [← pos_shift (by omega)]
  exact r.ev (start + j) (by omega) h2

theorem lastId_eq {e : Ring} {h : Hist} (r : RingRel e h) : e.lastId = h.last := by
  simp only [Ring.lastId, Hist.last, r.id_eq]
  split
  · rename_i h0; have : h.all.length = 0 := by simpa using h0
    omega
  · rfl

theorem ring_get_refines {e : Ring} {h : Hist} (r : RingRel e h) (start count : Nat) :
    e.getEventsFromID start count = ((h.get start count).1.map some, (h.get start count).2) := by
  have hlast := lastId_eq r
  have hid := r.id_eq
  have hlo := r.lowest_eq
  have hcap := r.cap_eq
  by_cases hr : start < e.lowestId ∨ start ≥ e.id
  · have p1 : e.id2pos start = none := by
      simp only [Ring.id2pos]; rw [if_pos]; simpa using hr
    have p2 : h.get start count = ([], h.lowest, h.last) := by
      simp only [Hist.get]; rw [if_pos]; rw [← hid, ← hlo]; simpa using hr
    simp only [Ring.getEventsFromID, p1, p2, hlast, hlo, List.map_nil]
  · have h1 : e.lowestId ≤ start := by omega
    have h2 : start < e.id := by omega
    have p1 : e.id2pos start = some ((start - e.resizeOffset) % e.capacity) := by
      simp only [Ring.id2pos]; rw [if_neg]; simpa using hr
    have p2 : h.get start count = ((h.all.drop start).take (min count h.cap), h.lowest, h.last) := by
      simp only [Hist.get]; rw [if_neg]; rw [← hid, ← hlo]; simpa using hr
    obtain ⟨hp, hh, fA, fB⟩ := pos_facts r h1 h2
    simp only [Ring.getEventsFromID, p1, p2, hlast, hlo]
    by_cases hA : e.full = true ∧ e.head ≤ (start - e.resizeOffset) % e.capacity
    · have hd := fA hA
      have hc : (e.full && decide ((start - e.resizeOffset) % e.capacity ≥ e.head)) = true := by
        simp [hA.1, hA.2]
      rw [if_pos hc, ← hcap]
      congr 1
      apply get_caseA _ _ _ _ _ _ e.id e.capacity r.len_eq hp hd hid
      · intro j hj
        have := ev_at r h1 j (by omega)
        rwa [Nat.mod_eq_of_lt hj] at this
      · intro j hj1 hj2
        have := ev_at r h1 j (by omega)
        rw [Nat.mod_eq_sub_mod hj1, Nat.mod_eq_of_lt (by omega)] at this
        exact this
    · obtain ⟨hph, hd⟩ := fB hA
      have hc : ¬ ((e.full && decide ((start - e.resizeOffset) % e.capacity ≥ e.head)) = true) := by
        intro hc; apply hA; simpa using hc
      rw [if_neg hc, ← hcap]
      congr 1
      apply get_caseB _ _ _ _ _ _ e.id hph hd hid
      intro j hj
      have := ev_at r h1 j (by omega)
      rwa [Nat.mod_eq_of_lt (by omega)] at this

theorem hist_get_index (h : Hist) (start count i : Nat) (hi : i < (h.get start count).1.length) :
    (h.get start count).1[i]? = h.all[start + i]? := by
  unfold Hist.get at hi ⊢
  split
  · rename_i hc; rw [if_pos hc] at hi; simp at hi
  · rename_i hc; rw [if_neg hc] at hi
    simp only [List.length_take, List.length_drop] at hi
    simp only [List.getElem?_take, List.getElem?_drop]
    rw [if_pos (by omega)]

theorem ring_recent_refines {e : Ring} {h : Hist} (r : RingRel e h) (hc : 0 < e.capacity) (count : Nat) :
    e.getRecentEvents count =
      (h.all.drop (h.all.length - min count (h.all.length - h.lowest))).map some := by
  have hlast := lastId_eq r
  have hid := r.id_eq
  have hlo := r.lowest_eq
  have hcap := r.cap_eq
  have hle := r.lo_le
  have hwin := r.win
  simp only [Ring.getRecentEvents]
  rw [ring_get_refines r, hlast, hlo]
  dsimp only
  congr 1
  rw [hid, hlo] at hle
  rw [hid, hlo, hcap] at hwin
  have hl : h.last = h.all.length - 1 := rfl
  generalize hs : max (if h.last < count then 0 else h.last - count + 1) h.lowest = s
  have hs' : (count = 0 ∨ h.all.length = 0 ∨ h.lowest = h.all.length) ∧ s ≥ h.all.length ∨
      (0 < count ∧ h.lowest < h.all.length ∧ s = h.all.length - min count (h.all.length - h.lowest)) := by
    rw [← hs]; split <;> omega
  rcases hs' with ⟨h0, hge⟩ | ⟨hcnt, hlt, hs2⟩
  · have p : h.get s count = ([], h.lowest, h.last) := by
      simp only [Hist.get]; rw [if_pos]; simp; omega
    rw [p]
    symm
    apply List.drop_of_length_le
    omega
  · have p : h.get s count = ((h.all.drop s).take (min count h.cap), h.lowest, h.last) := by
      simp only [Hist.get]; rw [if_neg]; simp; omega
    rw [p, ← hs2]
    apply List.take_of_length_le
    rw [List.length_drop]; omega

theorem store_bound_aux (s : Store) (hs : s.idx ≤ s.events.length) (ev : Ev) :
    (s.store ev).idx ≤ (s.store ev).events.length ∧ (s.store ev).events.length = s.events.length ∧
    (s.idx < s.events.length → (s.store ev).idx = s.idx + 1) ∧
    (s.collect.1.length = s.idx) := by
  unfold Store.store
  by_cases hfull : s.idx = s.events.length
  · have hb : (s.idx == s.events.length) = true := by simpa using hfull
    rw [hb]
    simp only [if_true]
    refine ⟨hs, trivial, fun h => by omega, ?_⟩
    simp [Store.collect]; omega
  · have hb : (s.idx == s.events.length) = false := by simpa using hfull
    rw [hb]
    simp only [Bool.false_eq_true, if_false, List.length_set]
    refine ⟨by omega, trivial, fun _ => trivial, ?_⟩
    simp [Store.collect]; omega

end Yk
