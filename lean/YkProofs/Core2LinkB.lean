/-
  `Linked` (I8 of C03: every bound allocation of a live application is listed by its node) is preserved by the release of
  a key (`releaseKeyT`), by the start of a placeholder swap (`swapStart`) and by its confirmation (`swapConfirm`).
  Generic transport lemmas first: the new node list is an id-preserving image of the old one, every bound item of the new
  state corresponds to a bound item of the old state (same key, node, size) whose entry survives.
-/
import YkProofs.Core2Link
namespace Yk
open Res Core

/-! ### lookups in a mapped node list, transport of `OnNode` -/

theorem findNode_of_map {s t : Core} (g : CNode → CNode) (hg : ∀ n, (g n).id = n.id) (hn : t.nodes = s.nodes.map g)
    (id : String) : t.findNode id = (s.findNode id).map g := by
  unfold findNode
  rw [hn]
  induction s.nodes with
  | nil => rfl
  | cons n l ih =>
    simp only [List.map_cons, List.find?_cons]
    rw [hg n]
    cases hm : (n.id == id) with
    | true => rfl
    | false => exact ih

/-- the entry of `i` survives the node map: an item with the same key, node and size is on its node afterwards -/
theorem OnNode.of_map {s t : Core} (g : CNode → CNode) (hg : ∀ n, (g n).id = n.id) (hn : t.nodes = s.nodes.map g)
    {app : String} {i j : CItem} (h : OnNode s app i) (hk : j.key = i.key) (hnode : j.node = i.node) (hr : j.res = i.res)
    (hkeep : ∀ n, s.findNode i.node = some n → ∀ x ∈ n.allocs, x.key = i.key → x ∈ (g n).allocs) : OnNode t app j := by
  obtain ⟨n, hfn, x, hx, hxk, hxa, hxf, hxr⟩ := h
  refine ⟨g n, ?_, x, hkeep n hfn x hx hxk, by rw [hk]; exact hxk, hxa, hxf, by rw [hr]; exact hxr⟩
  rw [hnode, findNode_of_map g hg hn, hfn]; rfl

/-- … or the node map provides the entry -/
theorem OnNode.intro_map {s t : Core} (g : CNode → CNode) (hg : ∀ n, (g n).id = n.id) (hn : t.nodes = s.nodes.map g)
    {app : String} {j : CItem} (n : CNode) (hfn : s.findNode j.node = some n) (x : CNodeAlloc) (hx : x ∈ (g n).allocs)
    (hxk : x.key = j.key) (hxa : x.app = app) (hxf : x.foreign = false) (hxr : ∀ k, x.res.getD k = j.res.getD k) :
    OnNode t app j :=
  ⟨g n, by rw [findNode_of_map g hg hn, hfn]; rfl, x, hx, hxk, hxa, hxf, hxr⟩

/-! ### generic preservation lemmas -/

/-- the nodes are mapped by an id-preserving function; every bound item of a live application of the new state
    corresponds to a bound item of the live application with the same id of the old state whose entry survives -/
theorem linked_of_map {s t : Core} (g : CNode → CNode) (hg : ∀ n, (g n).id = n.id) (hn : t.nodes = s.nodes.map g)
    (h : ∀ b ∈ t.apps, b.live = true → ∃ a ∈ s.apps, a.live = true ∧ a.id = b.id ∧ ∀ j ∈ b.items, j.bound = true →
      ∃ i ∈ a.items, i.bound = true ∧ i.key = j.key ∧ i.node = j.node ∧ i.res = j.res ∧
        ∀ n, s.findNode i.node = some n → ∀ x ∈ n.allocs, x.key = i.key → x ∈ (g n).allocs)
    (hl : Linked s) : Linked t := by
  intro b hb hbl j hj hjb
  obtain ⟨a, ha, hal, hid, hitems⟩ := h b hb hbl
  obtain ⟨i, hi, hib, hk, hnode, hr, hkeep⟩ := hitems j hj hjb
  rw [← hid]
  exact OnNode.of_map g hg hn (hl a ha hal i hi hib) hk.symm hnode.symm hr.symm hkeep

/-- the nodes are untouched, the bound items of the new state are bound items of the old state -/
theorem linked_of_sub {s t : Core} (hn : t.nodes = s.nodes)
    (h : ∀ b ∈ t.apps, b.live = true → ∃ a ∈ s.apps, a.live = true ∧ a.id = b.id ∧ ∀ j ∈ b.items, j.bound = true →
      ∃ i ∈ a.items, i.bound = true ∧ i.key = j.key ∧ i.node = j.node ∧ i.res = j.res)
    (hl : Linked s) : Linked t := by
  refine linked_of_map (fun n => n) (fun _ => rfl) (by rw [hn]; simp) ?_ hl
  intro b hb hbl
  obtain ⟨a, ha, hal, hid, hitems⟩ := h b hb hbl
  refine ⟨a, ha, hal, hid, ?_⟩
  intro j hj hjb
  obtain ⟨i, hi, hib, hk, hnode, hr⟩ := hitems j hj hjb
  exact ⟨i, hi, hib, hk, hnode, hr, fun _ _ x hx _ => hx⟩

/-- one node is updated by `f`, which keeps every entry whose key satisfies `keep`; the bound items of the new state are
    bound items of the old state, those on the updated node have a key that is kept -/
theorem linked_of_sub_updP {s t : Core} (id : String) (keep : String → Prop) (f : CNode → CNode) (hfid : ∀ n, (f n).id = n.id)
    (hf : ∀ n (x : CNodeAlloc), x ∈ n.allocs → keep x.key → x ∈ (f n).allocs)
    (hn : t.nodes = updNs s.nodes id f)
    (h : ∀ b ∈ t.apps, b.live = true → ∃ a ∈ s.apps, a.live = true ∧ a.id = b.id ∧ ∀ j ∈ b.items, j.bound = true →
      ∃ i ∈ a.items, i.bound = true ∧ i.key = j.key ∧ i.node = j.node ∧ i.res = j.res ∧ (i.node = id → keep i.key))
    (hl : Linked s) : Linked t := by
  refine linked_of_map (fun n => if (n.id == id) = true then f n else n) ?_ hn ?_ hl
  · intro n
    split
    · exact hfid n
    · rfl
  · intro b hb hbl
    obtain ⟨a, ha, hal, hid, hitems⟩ := h b hb hbl
    refine ⟨a, ha, hal, hid, ?_⟩
    intro j hj hjb
    obtain ⟨i, hi, hib, hk, hnode, hr, hne⟩ := hitems j hj hjb
    refine ⟨i, hi, hib, hk, hnode, hr, ?_⟩
    intro n hfn x hx hxk
    split
    · rename_i hd
      have h1 : n.id = id := by simpa using hd
      have h2 := (findNode_some hfn).2
      apply hf n x hx
      rw [hxk]
      exact hne (h2.symm.trans h1)
    · exact hx

/-- the variant for a node update that keeps every entry except those with the key `key` (node.RemoveAllocation):
    the bound items of the new state that live on the updated node have another key -/
theorem linked_of_sub_upd {s t : Core} (id key : String) (f : CNode → CNode) (hfid : ∀ n, (f n).id = n.id)
    (hf : ∀ n (x : CNodeAlloc), x ∈ n.allocs → x.key ≠ key → x ∈ (f n).allocs)
    (hn : t.nodes = updNs s.nodes id f)
    (h : ∀ b ∈ t.apps, b.live = true → ∃ a ∈ s.apps, a.live = true ∧ a.id = b.id ∧ ∀ j ∈ b.items, j.bound = true →
      ∃ i ∈ a.items, i.bound = true ∧ i.key = j.key ∧ i.node = j.node ∧ i.res = j.res ∧ (i.node = id → i.key ≠ key))
    (hl : Linked s) : Linked t :=
  linked_of_sub_updP id (fun k => k ≠ key) f hfid hf hn h hl

/-- the variant for a node update that keeps every entry (TryAddAllocation) -/
theorem linked_of_sub_grow {s t : Core} (id : String) (f : CNode → CNode) (hfid : ∀ n, (f n).id = n.id)
    (hf : ∀ n (x : CNodeAlloc), x ∈ n.allocs → x ∈ (f n).allocs)
    (hn : t.nodes = updNs s.nodes id f)
    (h : ∀ b ∈ t.apps, b.live = true → ∃ a ∈ s.apps, a.live = true ∧ a.id = b.id ∧ ∀ j ∈ b.items, j.bound = true →
      ∃ i ∈ a.items, i.bound = true ∧ i.key = j.key ∧ i.node = j.node ∧ i.res = j.res)
    (hl : Linked s) : Linked t := by
  refine linked_of_sub_updP id (fun _ => True) f hfid (fun n x hx _ => hf n x hx) hn ?_ hl
  intro b hb hbl
  obtain ⟨a, ha, hal, hid, hitems⟩ := h b hb hbl
  refine ⟨a, ha, hal, hid, ?_⟩
  intro j hj hjb
  obtain ⟨i, hi, hib, hk, hnode, hr⟩ := hitems j hj hjb
  exact ⟨i, hi, hib, hk, hnode, hr, fun _ => True.intro⟩

/-! ### `relBoundT` -/

theorem nodeRm_keep (key : String) (r : Res) (n : CNode) (x : CNodeAlloc) (hx : x ∈ n.allocs) (hk : x.key ≠ key) :
    x ∈ (nodeRm key r n).allocs := by
  show x ∈ n.allocs.filter (fun y => y.key != key)
  exact List.mem_filter.mpr ⟨hx, by simpa using hk⟩

theorem linked_relBoundT (s : Core) (tt : TermType) (app key : String) (a : CApp) (i : CItem) (hw : CoreWF s) (hl : Linked s)
    (hfind : s.findApp app = some a) (hitem : a.items.find? (·.key == key) = some i) :
    Linked (relBoundT s tt app key a i) := by
  cases hbd : i.bound with
  | false => rw [relBoundT_unbound _ _ _ _ _ _ hbd]; exact hl
  | true =>
    obtain ⟨ham, hal, hid⟩ := findApp_some hfind
    obtain ⟨him, hkey⟩ := find_key_some hitem
    have hon := hl a ham hal i him hbd
    obtain ⟨n, hn, _⟩ := hon
    obtain ⟨hta, htn, _⟩ := relBoundT_lists s tt app key a i hbd n hn
    refine linked_of_sub_upd i.node key (nodeRm key i.res) (nodeRm_id key i.res) (nodeRm_keep key i.res) htn ?_ hl
    intro b hb hbl
    rw [hta] at hb
    rcases mem_updApps hw.appIds ham hal hid hb with h | ⟨hbs, hnd⟩
    · have h' : b = relAppT tt key i a := h
      subst h'
      refine ⟨a, ham, hal, (relAppT_id tt key i a).symm, ?_⟩
      intro j hj hjb
      rw [relAppT_items] at hj
      have hj' : j ∈ unbound key a.items := hj
      obtain ⟨x, hx, _, _, _, _, _, h | h⟩ := mem_unbound hj'
      · rw [h.2] at hjb; cases hjb
      · obtain ⟨hxk, rfl⟩ := h
        exact ⟨j, hx, hjb, rfl, rfl, rfl, fun _ => hxk⟩
    · refine ⟨b, hbs, hbl, rfl, ?_⟩
      intro j hj hjb
      refine ⟨j, hj, hjb, rfl, rfl, rfl, ?_⟩
      intro hnode hjk
      have := linked_same_app hw (hl b hbs hbl j hj hjb) (hl a ham hal i him hbd) hnode (hjk.trans hkey.symm)
      exact hnd (by simp [hbl, this, hid])

/-! ### `askRemoveT` -/

theorem mem_askItems' {key : String} {l : List CItem} {y : CItem}
    (hy : y ∈ (updItem key (fun y => { y with inReq := false }) l).filter (fun y => y.bound || y.inReq)) :
    ∃ x ∈ l, y.key = x.key ∧ y.res = x.res ∧ y.node = x.node ∧ y.bound = x.bound := by
  obtain ⟨hm, _⟩ := List.mem_filter.mp hy
  obtain ⟨x, hx, h | h⟩ := mem_updItem hm
  · obtain ⟨_, rfl⟩ := h; exact ⟨x, hx, rfl, rfl, rfl, rfl⟩
  · obtain ⟨_, rfl⟩ := h; exact ⟨y, hx, rfl, rfl, rfl, rfl⟩

/-- RemoveAllocationAsk: items only lose `inReq` or disappear, nodes only lose a reservation -/
theorem linked_askRemoveT (s1 : Core) (app key : String) (chain : List String) (hl : Linked s1) :
    Linked (askRemoveT s1 app key chain) := by
  obtain ⟨fa, gq, gn, hfa, _, hgn, e1, _, e3⟩ := askRemoveT_shape s1 app key chain
  refine linked_of_map gn (fun n => (hgn n).1) e3 ?_ hl
  have hkeep : ∀ (i : CItem) n, s1.findNode i.node = some n → ∀ x ∈ n.allocs, x.key = i.key → x ∈ (gn n).allocs := by
    intro i n _ x hx _
    rw [(hgn n).2.1]; exact hx
  intro b hb hbl
  rw [e1] at hb
  obtain ⟨z, hz, rfl⟩ := List.mem_map.mp hb
  by_cases hc : (z.live && z.id == app) = true
  · rw [if_pos hc] at hbl ⊢
    rcases hfa with h | ⟨x, h⟩
    · subst h
      exact ⟨z, hz, hbl, rfl, fun j hj hjb => ⟨j, hj, hjb, rfl, rfl, rfl, hkeep j⟩⟩
    · subst h
      rw [askAppT_live] at hbl
      refine ⟨z, hz, hbl, (askAppT_id key x z).symm, ?_⟩
      intro j hj hjb
      rw [askAppT_items] at hj
      obtain ⟨y, hy, hk, hr, hnd, hb'⟩ := mem_askItems' hj
      exact ⟨y, hy, hb'.symm.trans hjb, hk.symm, hnd.symm, hr.symm, hkeep y⟩
  · rw [if_neg hc] at hbl ⊢
    exact ⟨z, hz, hbl, rfl, fun j hj hjb => ⟨j, hj, hjb, rfl, rfl, rfl, hkeep j⟩⟩

/-! ### `releaseKeyT` -/

/-- partition.removeAllocation for a key keeps every remaining allocation on its node -/
theorem linked_releaseKeyT' (s : Core) (tt : TermType) (app key : String) (hw : CoreWF s) (hl : Linked s) :
    Linked (s.releaseKeyT tt app key) := by
  cases hfind : s.findApp app with
  | none => unfold releaseKeyT; simp only [hfind]; exact hl
  | some a =>
    cases hitem : a.items.find? (·.key == key) with
    | none => unfold releaseKeyT; simp only [hfind, hitem]; exact hl
    | some i =>
      have h1 := linked_relBoundT s tt app key a i hw hl hfind hitem
      unfold releaseKeyT
      simp only [hfind, hitem]
      split
      · exact h1
      · exact linked_askRemoveT _ app key _ h1

/-- the form the step theorem uses (`Books s` is available there; it is not needed) -/
theorem linked_releaseKeyT (s : Core) (tt : TermType) (app key : String) (hw : CoreWF s) (_hb : Books s) (hl : Linked s) :
    Linked (s.releaseKeyT tt app key) :=
  linked_releaseKeyT' s tt app key hw hl

/-! ### `swapStart` -/

theorem swapStartNode_id (app realKey : String) (r : CItem) (n : CNode) : (swapStartNode app realKey r n).id = n.id := rfl

theorem swapStartNode_keep (app realKey : String) (r : CItem) (n : CNode) (x : CNodeAlloc) (hx : x ∈ n.allocs) :
    x ∈ (swapStartNode app realKey r n).allocs := by
  show x ∈ n.allocs ++ [_]
  exact List.mem_append_left _ hx

/-- tryPlaceholderAllocate decided a replacement: the bound allocations are the same (the real ask is allocated, gets its
    node, but is not bound), the node the real half is parked on gains an entry -/
theorem linked_swapStart (s s' : Core) (app realKey phKey node : String) (hw : CoreWF s) (hl : Linked s)
    (h : s.swapStart app realKey phKey node = some s') : Linked s' := by
  obtain ⟨a, r, p, hfind, hr, _, hta, _, htn⟩ := swapStart_lists s s' app realKey phKey node h
  obtain ⟨ham, hal, hid⟩ := findApp_some hfind
  obtain ⟨hrm, hrk, _, hnal⟩ := swapStart_found hr
  have hwa := hw.app ham hal
  have happs : ∀ b ∈ s'.apps, b.live = true → ∃ a ∈ s.apps, a.live = true ∧ a.id = b.id ∧ ∀ j ∈ b.items, j.bound = true →
      ∃ i ∈ a.items, i.bound = true ∧ i.key = j.key ∧ i.node = j.node ∧ i.res = j.res := by
    intro b hb hbl
    rw [hta] at hb
    rcases mem_updApps hw.appIds ham hal hid hb with h | ⟨hbs, _⟩
    · have h' : b = swapStartApp realKey phKey node r a := h
      subst h'
      refine ⟨a, ham, hal, rfl, ?_⟩
      intro j hj hjb
      rw [swapStartApp_items] at hj
      obtain ⟨x, hx, rfl⟩ := List.mem_map.mp hj
      dsimp only at hjb ⊢
      have hne : ¬ (x.key == realKey) = true := by
        intro he
        have hxr : x = r := itemKeys_eq hwa.itemKeys hx hrm ((by simpa using he : x.key = realKey).trans hrk.symm)
        rw [if_pos he] at hjb
        have hxb : x.bound = true := by
          split at hjb <;> exact hjb
        rw [hxr] at hxb
        rw [hwa.boundAllocated r hrm hxb] at hnal
        cases hnal
      rw [if_neg hne] at hjb ⊢
      by_cases h2 : (x.key == phKey) = true
      · rw [if_pos h2] at hjb ⊢
        exact ⟨x, hx, hjb, rfl, rfl, rfl⟩
      · rw [if_neg h2] at hjb ⊢
        exact ⟨x, hx, hjb, rfl, rfl, rfl⟩
    · exact ⟨b, hbs, hbl, rfl, fun j hj hjb => ⟨j, hj, hjb, rfl, rfl, rfl⟩⟩
  by_cases hc : (p.node != node) = true
  · rw [if_pos hc] at htn
    exact linked_of_sub_grow node (swapStartNode app realKey r) (swapStartNode_id app realKey r)
      (swapStartNode_keep app realKey r) htn happs hl
  · rw [if_neg hc] at htn
    exact linked_of_sub htn happs hl

/-! ### `swapConfirm` -/

/-- The side conditions of the confirmed swap when the state is `Linked`: those of `SwapOK` except `rel` (which follows
    from `Linked`), plus: in the cross-node case the real half is parked on its node (tryPlaceholderAllocate added it
    there when the swap started) — after the confirmation it is a bound allocation. -/
structure SwapLinkOK (s : Core) (app phKey : String) : Prop where
  repl : ∀ a p r, SwapCase s app phKey a p r → ReplOK a p r
  notLarger : ∀ a p r, SwapCase s app phKey a p r → ∀ k, r.res.getD k ≤ p.res.getD k
  fresh : ∀ a p r, SwapCase s app phKey a p r → r.node = p.node →
    ∀ n, s.findNode p.node = some n → ∀ x ∈ n.allocs, x.key ≠ r.key
  parked : ∀ a p r, SwapCase s app phKey a p r → r.node ≠ p.node → OnNode s app r

theorem SwapLinkOK.swapOK {s : Core} {app phKey : String} (hl : Linked s) (h : SwapLinkOK s app phKey) : SwapOK s app phKey :=
  ⟨hl.releaseOK app phKey, h.repl, h.notLarger, h.fresh⟩

/-- the bound members of the item list after the swap: an old item other than the placeholder, or the item with the key
    of the real allocation, or the resurrected real allocation -/
theorem mem_replItems_bound {p r : CItem} {l : List CItem} {y : CItem} (hy : y ∈ replItems p r l) (hb : y.bound = true) :
    (y ∈ l ∧ y.key ≠ p.key) ∨
    (∃ x ∈ l, x.key = r.key ∧ y.key = x.key ∧ y.res = x.res ∧ y.node = x.node) ∨
    (y.key = r.key ∧ y.res = r.res ∧ y.node = r.node ∧ ∀ x ∈ l, x.key ≠ r.key) := by
  have h0 : ∀ y ∈ replItems0 p r l, y.bound = true →
      (y ∈ l ∧ y.key ≠ p.key) ∨ (∃ x ∈ l, x.key = r.key ∧ y.key = x.key ∧ y.res = x.res ∧ y.node = x.node) := by
    intro y hy hb
    unfold replItems0 at hy
    obtain ⟨hm, _⟩ := List.mem_filter.mp hy
    obtain ⟨z, hz, h | h⟩ := mem_updItem hm
    · obtain ⟨hzk, rfl⟩ := h
      right
      obtain ⟨x, hx, h' | h'⟩ := mem_updItem hz
      · obtain ⟨_, rfl⟩ := h'; exact ⟨x, hx, hzk, rfl, rfl, rfl⟩
      · obtain ⟨_, rfl⟩ := h'; exact ⟨z, hx, hzk, rfl, rfl, rfl⟩
    · obtain ⟨_, rfl⟩ := h
      obtain ⟨x, hx, h' | h'⟩ := mem_updItem hz
      · obtain ⟨_, rfl⟩ := h'; cases hb
      · obtain ⟨hxk, rfl⟩ := h'; exact Or.inl ⟨hx, hxk⟩
  unfold replItems at hy
  split at hy
  · rcases h0 y hy hb with h | h
    · exact Or.inl h
    · exact Or.inr (Or.inl h)
  · rename_i hany
    rcases List.mem_append.mp hy with h | h
    · rcases h0 y h hb with h | h
      · exact Or.inl h
      · exact Or.inr (Or.inl h)
    · rw [List.mem_singleton] at h
      refine Or.inr (Or.inr ⟨by rw [h], by rw [h], by rw [h], ?_⟩)
      intro x hx hk
      exact hany (List.any_eq_true.mpr ⟨x, hx, by simp [hk]⟩)

/-- what the confirmed swap does to the node list, node by node -/
def swapNodeF (app phKey : String) (p r : CItem) (n : CNode) : CNode :=
  if (n.id == p.node) = true then (if (r.node == p.node) = true then nodeSwap app p r else nodeRm phKey p.res) n else n

theorem swapNodeF_id (app phKey : String) (p r : CItem) (n : CNode) : (swapNodeF app phKey p r n).id = n.id := by
  unfold swapNodeF
  split
  · split <;> rfl
  · rfl

theorem swapNodeF_other (app phKey : String) (p r : CItem) (n : CNode) (h : n.id ≠ p.node) : swapNodeF app phKey p r n = n := by
  unfold swapNodeF
  have : ¬ (n.id == p.node) = true := by simpa using h
  rw [if_neg this]

/-- every entry with another key than the placeholder's survives -/
theorem swapNodeF_keep (app phKey : String) (p r : CItem) (hkey : p.key = phKey) (n : CNode) (x : CNodeAlloc)
    (hx : x ∈ n.allocs) (hne : x.key ≠ p.key) : x ∈ (swapNodeF app phKey p r n).allocs := by
  unfold swapNodeF
  split
  · split
    · show x ∈ n.allocs.filter (fun (y : CNodeAlloc) => y.key != p.key) ++ [_]
      exact List.mem_append_left _ (List.mem_filter.mpr ⟨hx, by simpa using hne⟩)
    · exact nodeRm_keep phKey p.res n x hx (by rw [← hkey]; exact hne)
  · exact hx

/-- same-node swap: the placeholder's node lists the real allocation afterwards -/
theorem swapNodeF_same (app phKey : String) (p r : CItem) (n : CNode) (hn : n.id = p.node) (hsame : r.node = p.node) :
    ({ key := r.key, app := app, res := r.res, foreign := false, ph := false } : CNodeAlloc) ∈ (swapNodeF app phKey p r n).allocs := by
  unfold swapNodeF
  have h1 : (n.id == p.node) = true := by simpa using hn
  have h2 : (r.node == p.node) = true := by simpa using hsame
  rw [if_pos h1, if_pos h2]
  show _ ∈ n.allocs.filter (fun (y : CNodeAlloc) => y.key != p.key) ++ [_]
  exact List.mem_append_right _ (List.mem_singleton.mpr rfl)

/-- the main path of the confirmed swap, before the placeholder's ask is removed -/
theorem linked_swapMain (s : Core) (app phKey : String) (a : CApp) (p r : CItem) (hw : CoreWF s) (hl : Linked s)
    (hok : SwapLinkOK s app phKey) (hc : SwapCase s app phKey a p r) : Linked (swapMain s app phKey a p r) := by
  obtain ⟨ham, hal, hid⟩ := findApp_some hc.app
  obtain ⟨him, hkey⟩ := find_key_some hc.item
  have hbp := hc.isPh
  simp only [Bool.and_eq_true] at hbp
  have hrepl := hok.repl a p r hc
  have hwa := hw.app ham hal
  have hpon := hl a ham hal p him hbp.1
  obtain ⟨hta, htn, _⟩ := swapMain_lists s app phKey a p r
  have hg := swapNodeF_id app phKey p r
  have htn' : (swapMain s app phKey a p r).nodes = s.nodes.map (swapNodeF app phKey p r) := htn
  intro b hb hbl j hj hjb
  rw [hta] at hb
  rcases mem_updApps hw.appIds ham hal hid hb with h | ⟨hbs, hnd⟩
  · have h' : b = replApp p r a := h
    subst h'
    rw [replApp_id]
    rw [replApp_items] at hj
    -- an item that carries key, size and node of the real allocation
    have hr_case : j.key = r.key → j.res = r.res → j.node = r.node → OnNode (swapMain s app phKey a p r) a.id j := by
      intro hk hres hnode
      by_cases hsame : r.node = p.node
      · obtain ⟨n, hn, _⟩ := hpon
        have hn' : s.findNode j.node = some n := by rw [hnode, hsame]; exact hn
        exact OnNode.intro_map _ hg htn' n hn' _ (swapNodeF_same app phKey p r n (findNode_some hn).2 hsame)
          hk.symm hid.symm rfl (fun k => by rw [hres])
      · have hpark := hok.parked a p r hc hsame
        rw [hid]
        refine OnNode.of_map _ hg htn' hpark hk hnode hres ?_
        intro n hn x hx _
        rw [swapNodeF_other app phKey p r n (by rw [(findNode_some hn).2]; exact hsame)]
        exact hx
    rcases mem_replItems_bound hj hjb with ⟨hjm, hjk⟩ | ⟨x, hx, hxk, hk, hres, hnode⟩ | ⟨hk, hres, hnode, _⟩
    · -- an old bound allocation other than the placeholder
      exact OnNode.of_map _ hg htn' (hl a ham hal j hjm hjb) rfl rfl rfl
        (fun n _ x hx hxk => swapNodeF_keep app phKey p r hkey n x hx (by rw [hxk]; exact hjk))
    · rcases hrepl.rIn with ⟨hrm, _⟩ | ⟨hnone, _⟩
      · have hxr : x = r := itemKeys_eq hwa.itemKeys hx hrm hxk
        subst hxr
        exact hr_case hk hres hnode
      · exact absurd hxk (hnone x hx)
    · exact hr_case hk hres hnode
  · -- another application
    have hon := hl b hbs hbl j hj hjb
    refine OnNode.of_map _ hg htn' hon rfl rfl rfl ?_
    intro n hn x hx hxk
    by_cases hnode : j.node = p.node
    · apply swapNodeF_keep app phKey p r hkey n x hx
      rw [hxk]
      intro hjk
      have := linked_same_app hw hon hpon hnode hjk
      exact hnd (by simp [hbl, this, hid])
    · rw [swapNodeF_other app phKey p r n (by rw [(findNode_some hn).2]; exact hnode)]
      exact hx

/-- partition.removeAllocation(app, phKey, PLACEHOLDER_REPLACED) keeps every allocation on its node -/
theorem linked_swapConfirm (s : Core) (app phKey : String) (hw : CoreWF s) (hb : Books s) (hl : Linked s)
    (hok : SwapLinkOK s app phKey) : Linked (s.swapConfirm app phKey) := by
  cases hfind : s.findApp app with
  | none => unfold swapConfirm; simp only [hfind]; exact hl
  | some a =>
    cases hitem : a.items.find? (·.key == phKey) with
    | none => unfold swapConfirm; simp only [hfind, hitem]; exact hl
    | some p =>
      cases hreal : (if (p.bound && p.ph) = true then p.release else none).bind (findReal s a) with
      | none =>
        have : s.swapConfirm app phKey = releaseKeyT s .replaced app phKey := by
          unfold swapConfirm; simp only [hfind, hitem, hreal]
        rw [this]
        exact linked_releaseKeyT s .replaced app phKey hw hb hl
      | some r =>
        have hbp : (p.bound && p.ph) = true := by
          cases h : (p.bound && p.ph) with
          | true => rfl
          | false => rw [h] at hreal; simp at hreal
        rw [hbp] at hreal
        simp only [if_true] at hreal
        have hc : SwapCase s app phKey a p r := ⟨hfind, hitem, hbp, hreal⟩
        rw [swapConfirm_main s app phKey a p r hc]
        exact linked_askRemoveT _ app phKey _ (linked_swapMain s app phKey a p r hw hl hok hc)

end Yk
