/-
  Proofs about the stream set-up model (YkModel/Stream.lean).
  Main result: `stream_ok_of_covered` — on every reachable state, if no event in the local channel is older
  than the oldest history event that was read (or no history is requested), the consumer receives the history
  followed by every later event once and in order.
-/
import YkModel.Stream
namespace Yk

open List

/-! ### strictlyIncreasing as Pairwise -/

theorem strictlyIncreasing_of_pairwise : ∀ (l : List Ev), l.Pairwise (· < ·) → strictlyIncreasing l = true
  | [], _ => rfl
  | [_], _ => rfl
  | a :: b :: t, h => by
    have h1 : a < b := (List.pairwise_cons.1 h).1 b (by simp)
    have h2 : (b :: t).Pairwise (· < ·) := (List.pairwise_cons.1 h).2
    simp [strictlyIncreasing, h1, strictlyIncreasing_of_pairwise (b :: t) h2]

theorem lt_aux (lo m k j x y : Nat) (hk : lo + m ≤ k) (hx : lo ≤ x ∧ x < lo + m)
    (hy : k ≤ y ∧ y < k + j) : x < y := by omega

theorem strictlyIncreasing_range'_append (lo m k j : Nat) (hk : lo + m ≤ k) :
    strictlyIncreasing (range' lo m ++ range' k j) = true := by
  apply strictlyIncreasing_of_pairwise
  rw [List.pairwise_append]
  refine ⟨pairwise_lt_range', pairwise_lt_range', ?_⟩
  intro x hx y hy
  rw [mem_range'_1] at hx hy
  exact lt_aux lo m k j x y hk hx hy

/-! ### the bridge on contiguous runs -/

theorem bridge_nil_seen (q : List Ev) : bridge [] q = q := by
  cases q with
  | nil => rfl
  | cons e t => simp [bridge]

theorem bridge_range' (lo m : Nat) : ∀ (len a : Nat), lo ≤ a →
    bridge (range' lo m) (range' a len) = range' (max a (lo + m)) (a + len - max a (lo + m))
  | 0, a, _ => by
    have : a - max a (lo + m) = 0 := by omega
    simp [bridge, this]
  | len + 1, a, ha => by
    rw [range'_succ]
    by_cases hlt : a < lo + m
    · have hin : (range' lo m).contains a = true := by
        simp only [List.contains_eq_mem, decide_eq_true_eq, mem_range'_1]
        omega
      have ih := bridge_range' lo m len (a + 1) (by omega)
      have e1 : max (a + 1) (lo + m) = max a (lo + m) := by omega
      have e2 : a + 1 + len = a + (len + 1) := by omega
      simp only [bridge, hin, if_true]
      rw [ih, e1, e2]
    · have hin : (range' lo m).contains a = false := by
        simp only [List.contains_eq_mem, decide_eq_false_iff_not, mem_range'_1]
        omega
      have e1 : max a (lo + m) = a := by omega
      have e2 : a + (len + 1) - a = len + 1 := by omega
      simp only [bridge, hin]
      rw [e1, e2, range'_succ]
      simp

theorem lastN_range' (k H : Nat) : lastN k (range' 1 H) = range' (1 + (H - k)) (H - (H - k)) := by
  simp [lastN, drop_range']

/-! ### invariant of reachable states -/

/-- tag of the next event to be published -/
def pubNext (s : SState) : Nat :=
  match s.pending with
  | some e => e
  | none => s.next

structure SInv (count cap : Nat) (s : SState) : Prop where
  next_pos : 1 ≤ s.next
  added_eq : s.added = range' 1 (s.next - 1)
  pend : ∀ e : Nat, s.pending = some e → e + 1 = s.next ∧ 1 ≤ e
  lq : ∃ a len, s.localQ = range' a len ∧ 1 ≤ a ∧ (0 < len → s.registered = true ∧ a + len = pubNext s)
  hist : ∀ h, s.history = some h → h = lastN (min count cap) (range' 1 s.histLen)

theorem sinv_init (count cap : Nat) : SInv count cap {} where
  next_pos := by decide
  added_eq := by rfl
  pend := by intro e h; cases h
  lq := ⟨1, 0, by rfl, by omega, by omega⟩
  hist := by intro h hh; cases hh

theorem sinv_step (count cap : Nat) (s s' : SState) (st : SStep)
    (inv : SInv count cap s) (h : sstep count cap s st = some s') : SInv count cap s' := by
  obtain ⟨np, ae, pe, ⟨a, len, hq, ha, hl⟩, hi⟩ := inv
  cases st with
  | add =>
    cases hp : s.pending with
    | some e => simp [sstep, hp] at h
    | none =>
      simp only [sstep, hp, Option.some.injEq] at h
      subst h
      refine ⟨by simp, ?_, ?_, ⟨a, len, hq, ha, ?_⟩, hi⟩
      · show s.added ++ [s.next] = range' 1 (s.next + 1 - 1)
        have e1 : s.next + 1 - 1 = (s.next - 1) + 1 := by omega
        have e2 : 1 + (s.next - 1) = s.next := by omega
        rw [ae, e1, range'_1_concat, e2]
      · intro e he
        simp only [Option.some.injEq] at he
        subst he
        exact ⟨rfl, np⟩
      · intro hpos
        have := hl hpos
        simp only [pubNext, hp] at this
        simpa [pubNext] using this
  | pub =>
    cases hp : s.pending with
    | none => simp [sstep, hp] at h
    | some e =>
      simp only [sstep, hp, Option.some.injEq] at h
      subst h
      have hpe := pe e hp
      refine ⟨np, ae, (by intro e' he'; cases he'), ?_, hi⟩
      cases hr : s.registered with
      | false =>
        have hlen : len = 0 := by
          cases len with
          | zero => rfl
          | succ n => have := (hl (by omega)).1; rw [hr] at this; cases this
        refine ⟨a, 0, ?_, ha, by omega⟩
        simp [hq, hlen]
      | true =>
        cases len with
        | zero =>
          refine ⟨e, 1, ?_, hpe.2, ?_⟩
          · simp [hq]
          · intro _
            refine ⟨rfl, ?_⟩
            simp only [pubNext]
            omega
        | succ n =>
          have h2 := (hl (by omega)).2
          simp only [pubNext, hp] at h2
          refine ⟨a, n + 1 + 1, ?_, ha, ?_⟩
          · simp only [if_true, hq]
            rw [range'_1_concat (n := n + 1), h2]
          · intro _
            refine ⟨rfl, ?_⟩
            simp only [pubNext]
            omega
  | reg =>
    cases hr : s.registered with
    | true => simp [sstep, hr] at h
    | false =>
      simp only [sstep, hr, Bool.false_eq_true, if_false, Option.some.injEq] at h
      subst h
      refine ⟨np, ae, pe, ⟨a, len, hq, ha, ?_⟩, hi⟩
      intro hpos
      exact ⟨rfl, (hl hpos).2⟩
  | hist =>
    by_cases hc : (s.registered && s.history.isNone) = true
    · simp only [sstep, hc, if_true, Option.some.injEq] at h
      subst h
      refine ⟨np, ae, pe, ⟨a, len, hq, ha, hl⟩, ?_⟩
      intro h' hh'
      simp only [Option.some.injEq] at hh'
      subst hh'
      show lastN (min count cap) s.added = lastN (min count cap) (range' 1 s.added.length)
      rw [ae, length_range']
    · simp [sstep, hc] at h

theorem sinv_run (count cap : Nat) : ∀ (sch : List SStep) (s0 s : SState),
    SInv count cap s0 → srun count cap s0 sch = some s → SInv count cap s
  | [], s0, s, inv, h => by
    simp only [srun, Option.some.injEq] at h
    subst h; exact inv
  | st :: rest, s0, s, inv, h => by
    simp only [srun] at h
    cases hs : sstep count cap s0 st with
    | none => simp [hs] at h
    | some s1 =>
      simp only [hs] at h
      exact sinv_run count cap rest s1 s (sinv_step count cap s0 s1 st inv hs) h

/-! ### the final check on a state satisfying the invariant -/

theorem isPrefixOf_append_self (h t : List Ev) : h.isPrefixOf (h ++ t) = true := by
  induction h with
  | nil => simp
  | cons a l ih => simp [ih]

theorem streamOK_of_range' (s : SState) (lo m a len : Nat) (hh : s.history = some (range' lo m))
    (hq : s.localQ = range' a len) (hlo : lo ≤ a) : streamOK s = true := by
  have hb := bridge_range' lo m len a hlo
  have hmax : lo + m ≤ max a (lo + m) := by omega
  simp only [streamOK, consumerOut, hh, hq, hb, isPrefixOf_append_self,
    strictlyIncreasing_range'_append lo m _ _ hmax, Bool.true_and, List.all_eq_true,
    List.contains_eq_mem, decide_eq_true_eq, List.mem_append, mem_range'_1]
  intro e he
  omega

theorem streamOK_of_inv (count cap : Nat) (s : SState) (inv : SInv count cap s)
    (hc : min count cap = 0 ∨ ∀ e ∈ s.localQ, s.histLen < e + min count cap) :
    streamOK s = true := by
  obtain ⟨_, _, _, ⟨a, len, hq, ha, _⟩, hi⟩ := inv
  cases hh : s.history with
  | none => simp [streamOK, hh]
  | some h =>
    have hhe := hi h hh
    rw [lastN_range'] at hhe
    generalize hk : min count cap = k at hc hhe
    generalize hH : s.histLen = H at hc hhe
    subst hhe
    cases len with
    | zero =>
      exact streamOK_of_range' s _ _ (1 + (H - k)) 0 hh (by simp [hq]) (Nat.le_refl _)
    | succ n =>
      rcases hc with hc | hc
      · subst hc
        have e0 : H - (H - 0) = 0 := by omega
        rw [e0] at hh
        exact streamOK_of_range' s a 0 a (n + 1) (by simpa using hh) hq (Nat.le_refl _)
      · have := hc a (by rw [hq, mem_range'_1]; omega)
        exact streamOK_of_range' s _ _ a (n + 1) hh hq (by omega)

theorem stream_ok_of_covered (count cap : Nat) (sch : List SStep) (s : SState)
    (h : srun count cap {} sch = some s)
    (hc : min count cap = 0 ∨ ∀ e ∈ s.localQ, s.histLen < e + min count cap) :
    streamOK s = true :=
  streamOK_of_inv count cap s (sinv_run count cap sch {} s (sinv_init count cap) h) hc

end Yk
