/- C16, round 4: (A) placement never hands out a draining queue — the rule chain of YkModel/Place.lean on the tree of the
   reload model; (B) a refused update of a partition is the identity on everything the partition shows, the node sorting
   policy included -/
import YkProofs.Reload
import YkProofs.Place
import YkModel.ReloadPlace
namespace Yk.Place

/-! ### (A) PlaceApplication never returns a draining queue -/

/-- the checks of the loop body: a name that passes and names an existing queue names a leaf that is not draining —
    unless it is the recovery queue of a forced application (the `break` before the checks) -/
theorem eligible_not_draining {t : Tree} {a : App} {n : QName} {q : Queue} (he : eligible t a n = some true)
    (hq : getQueue t n = some q) : q.draining = false ∨ (n = recoveryQ ∧ a.forced = true) := by
  unfold eligible at he
  split at he
  · rename_i hfr
    simp only [Bool.and_eq_true, decide_eq_true_eq] at hfr
    exact Or.inr hfr
  · split at he
    · cases he
    · split at he
      · cases he
      · rw [hq] at he
        simp only [Option.some.injEq, Bool.and_eq_true, Bool.not_eq_true'] at he
        exact Or.inl he.2

/-- whatever the rules (the default-queue fall-back of the last rule included): the name PlaceApplication returns does
    not name a draining queue, the forced recovery placement aside -/
theorem place_not_draining (rx : Str → Str → Bool) (t : Tree) (a : App) (rs : List Rule) (n : QName) (q : Queue)
    (h : place rx t a rs = .placed n) (hq : getQueue t n = some q) :
    q.draining = false ∨ (n = recoveryQ ∧ a.forced = true) := by
  obtain ⟨r, hc⟩ := (place_placed_iff rx t a rs n).mp h
  obtain ⟨_, _, _, _, _, hel, _⟩ := choose_first rx t a rs r n hc
  exact eligible_not_draining hel hq

/-- the queue of the reload model that the placement model finds under a name -/
theorem findQ_ofReload (t : Reload.Tree) (p : QName) :
    findQ (ofReload t) p = (t.find? (fun r => decide (splitDot r.path.toList = p))).map ofRQ := by
  unfold findQ ofReload
  rw [List.find?_map]
  rfl

/-- AddApplication on a tree of the reload model: the queue an application (not forced) is accepted into was not
    draining — whatever the rule list in force -/
theorem submit_not_draining (t : Reload.Tree) (rules : List Rule) (a : App) (q : QName) (hnf : a.forced = false)
    (h : submit t rules a = .accepted q) (r : Reload.RQ)
    (hr : t.find? (fun r => decide (splitDot r.path.toList = q)) = some r) : ¬ r.state = .draining := by
  unfold submit at h
  have hadd : addApp (fun _ _ => false) (ofReload t) (buildRules rules) a =
      ((addApp (fun _ _ => false) (ofReload t) (buildRules rules) a).1, .accepted q) := by rw [← h]
  have hf : findQ (ofReload t) q = some (ofRQ r) := by rw [findQ_ofReload, hr]; rfl
  rcases (accepted_leaf_active hadd).2 (ofRQ r) hf with ⟨_, hd | ⟨hforced, _⟩⟩
  · intro hs
    simp [ofRQ, hs] at hd
  · rw [hnf] at hforced; cases hforced

end Yk.Place

namespace Yk.Reload

/-! ### (B) a refused update leaves the partition as it was -/

/-- updatePartitionDetails after a dry run that went through: the only step that can still refuse is the placement rule
    list (UpdateRules), and it comes before the first write — the node sorting policy, the preemption flags, the
    placement rules, the queues and the limits are what they were. -/
theorem updatePartition_refused_id (p p' : Part) (pc : PC) (e : CErr) (hwf : confWF pc.queues = true)
    (pf : Part) (hfresh : pc.fresh = .ok pf) (h : updatePartition p pc = (p', some e)) : p' = p :=
  (updatePartition_after_dryRun p pc pf hwf hfresh p' e h).1

end Yk.Reload
