/-
  Histories of the stepped Core model (`Op`, `Op.apply`, `run`: YkModel/CoreRun.lean): the side condition `Op.ok` of one step (what the per-operation theorems
  need beyond `CoreWF ∧ Books` of the state: freshness of keys in Go maps, allocations listed by their nodes, the size
  guard of a swap, no int64 saturation where a pending total grows), and
  `books_reachable`: along every run whose steps meet their side conditions `Books` (and `CoreWF`) is preserved.
-/
import YkModel.CoreRun
import YkProofs.Core2Old
import YkProofs.Core2Swap
import YkProofs.Core2Timer
import YkProofs.Core2App
import YkProofs.Core2NodeRm
import YkProofs.Core2ResvB
namespace Yk
open Res Core

/-- the node `node` does not list an allocation with key `key` yet (node.allocations is a Go map) -/
def FreshOnNode (s : Core) (node key : String) : Prop :=
  ∀ n, s.findNode node = some n → ∀ x ∈ n.allocs, x.key ≠ key

/-- The side condition of one step.  None of them restates a conclusion: they say that the request is well-formed
    (`wf`), that a key is new in a Go map, that the allocations an operation releases are listed by their nodes with the
    size the application books (`ReleaseOK`, `AppOnNodes`, `SwapOK.rel`), that a confirmed replacement is not larger than
    its placeholder (`SwapOK.notLarger`, the guard of tryPlaceholderAllocate), and that no int64 saturation occurs where a
    pending total grows (`AskOK.noSat`, `NodeRmOK`). -/
def Op.ok (s : Core) : Op → Prop
  | .nodeCreate _ cap _ => wf cap = true
  | .nodeUpdate _ cap => wf cap = true
  | .nodeSchedulable _ _ => True
  | .nodeRemove id order => NodeRemoveOK s id order
  | .foreignAdd key node res => wf res = true ∧ FreshOnNode s node key
  | .foreignRemove _ => True
  | .appAdd _ nq => FreshQueuesOK s nq
  | .appRemove app => AppOnNodes s app
  | .ask app key res _ _ _ => AskOK s app key res
  | .schedAlloc _ key node => FreshOnNode s node key
  | .swapStart _ realKey _ node => FreshOnNode s node realKey
  | .swapConfirm app phKey => SwapOK s app phKey
  | .releaseKey app key => ReleaseOK s app key
  | .release _ app key => ReleaseOK s app key
  | .releaseApp _ app => AppOnNodes s app
  | .markReleased _ _ _ => True
  | .phTimeout _ _ => True
  | .stateTimeout _ => True
  | .cleanup => True
  | .reserve _ _ _ => True
  | .unreserve _ _ _ => True

/-- one step keeps the books and the well-formedness -/
theorem step_props (s : Core) (op : Op) (hw : CoreWF s) (hb : Books s) (hok : op.ok s) :
    Books (op.apply s) ∧ CoreWF (op.apply s) := by
  cases op with
  | nodeCreate id cap b => exact (node_ops_props s id cap b hw hb hok).1
  | nodeUpdate id cap => exact (node_ops_props s id cap true hw hb hok).2.1
  | nodeSchedulable id b => exact (node_ops_props s id [] b hw hb rfl).2.2
  | nodeRemove id order => exact nodeRemove_props s id order hw hb hok
  | foreignAdd key node res => exact (foreign_props s key node res hw hb hok.1 hok.2).1
  | foreignRemove key => exact ⟨books_foreignRemove s key hw hb, wf_foreignRemove s key hw⟩
  | appAdd a nq => exact appAdd_props s a nq hw hb hok
  | appRemove app => exact appRemove_props s app hw hb hok
  | ask app key res ph tg reqNode => exact ask_props s app key res ph tg reqNode hw hb hok
  | schedAlloc app key node =>
    show Books ((s.schedAlloc app key node).getD s) ∧ CoreWF ((s.schedAlloc app key node).getD s)
    cases h : s.schedAlloc app key node with
    | none => exact ⟨hb, hw⟩
    | some s' => exact schedAlloc_props s s' app key node hw hb hok h
  | swapStart app realKey phKey node =>
    show Books ((s.swapStart app realKey phKey node).getD s) ∧ CoreWF ((s.swapStart app realKey phKey node).getD s)
    cases h : s.swapStart app realKey phKey node with
    | none => exact ⟨hb, hw⟩
    | some s' => exact swapStart_props s s' app realKey phKey node hw hb h hok
  | swapConfirm app phKey => exact swapConfirm_props s app phKey hw hb hok
  | releaseKey app key => exact releaseKey_props s app key hw hb hok
  | release tt app key => exact releaseKeyT_props s tt app key hw hb hok
  | releaseApp tt app => exact releaseApp_props s tt app hw hb hok
  | markReleased app key p => exact markReleased_props s app key p hw hb
  | phTimeout app ev => exact phTimeout_props s app ev hw hb
  | stateTimeout app => exact stateTimeout_props s app hw hb
  | cleanup => exact cleanup_props s hw hb
  | reserve app key node => exact reserve_bw s app key node hw hb
  | unreserve app key node => exact unreserve_bw s app key node hw hb

/-- every step of the history meets its side condition in the state it is applied to -/
def RunOK : Core → List Op → Prop
  | _, [] => True
  | s, op :: t => op.ok s ∧ RunOK (op.apply s) t

/-- For every list of stepped operations applied to a state with `CoreWF ∧ Books`, each step meeting its side condition:
    the result satisfies `Books` (and `CoreWF`). -/
theorem books_reachable (s : Core) (ops : List Op) (hw : CoreWF s) (hb : Books s) (hok : RunOK s ops) :
    Books (run s ops) ∧ CoreWF (run s ops) := by
  induction ops generalizing s with
  | nil => exact ⟨hb, hw⟩
  | cons op t ih =>
    obtain ⟨h1, h2⟩ := hok
    obtain ⟨hb', hw'⟩ := step_props s op hw hb h1
    exact ih (op.apply s) hw' hb' h2

end Yk
