/-
  Life-cycle invariants (`LifeInv`, `NoPendInv`: YkProofs/Core2Life.lean) are preserved by the release of one allocation
  (`releaseKeyT` = `relBoundT` then `askRemoveT`), by the start of a placeholder swap (`swapStart`) and by its
  confirmation (`swapConfirm`).
-/
import YkProofs.Core2Life
namespace Yk
open Res Core

namespace LifeB

/-! ### the state machine, for an arbitrary state name -/

theorem ofName_name {st : String} {a : AppState} (h : AppState.ofName st = some a) : a.name = st := by
  unfold AppState.ofName at h
  have := List.find?_some h
  simpa using this

/-- `fireState st e` is `st` itself (not a state name) or the destination the table gives for a state name -/
theorem fireState_ind (P : String → String → Prop) (e : AppEvent) (st : String)
    (h0 : AppState.ofName st = none → P st st) (h1 : ∀ a : AppState, P a.name (handle a e).name) :
    P st (fireState st e) := by
  unfold fireState
  cases h : AppState.ofName st with
  | none => exact h0 h
  | some a =>
    have := ofName_name h
    subst this
    exact h1 a

theorem complete_completing (st : String) (h : fireState st .complete = "Completing") : st = "Accepted" ∨ st = "Running" := by
  refine fireState_ind (fun s t => t = "Completing" → s = "Accepted" ∨ s = "Running") .complete st ?_ ?_ h
  · intro hn hc; subst hc; exact absurd hn (by decide)
  · intro a; cases a <;> decide

theorem complete_completed (st : String) (h : fireState st .complete = "Completed") : st = "Completing" ∨ st = "Completed" := by
  refine fireState_ind (fun s t => t = "Completed" → s = "Completing" ∨ s = "Completed") .complete st ?_ ?_ h
  · intro _ hc; exact Or.inr hc
  · intro a; cases a <;> decide

theorem complete_terminated (st : String) (h : terminated (fireState st .complete) = true) :
    st = "Completing" ∨ terminated st = true := by
  refine fireState_ind (fun s t => terminated t = true → s = "Completing" ∨ terminated s = true) .complete st ?_ ?_ h
  · intro _ hc; exact Or.inr hc
  · intro a; cases a <;> decide

theorem run_ne_completing (st : String) : fireState st .run ≠ "Completing" := by
  refine fireState_ind (fun _ t => t ≠ "Completing") .run st ?_ ?_
  · intro hn hc; subst hc; exact absurd hn (by decide)
  · intro a; cases a <;> decide

theorem run_completed (st : String) (h : fireState st .run = "Completed") : st = "Completed" := by
  refine fireState_ind (fun s t => t = "Completed" → s = "Completed") .run st ?_ ?_ h
  · intro _ hc; exact hc
  · intro a; cases a <;> decide

theorem run_terminated (st : String) (h : terminated (fireState st .run) = true) : terminated st = true := by
  refine fireState_ind (fun s t => terminated t = true → terminated s = true) .run st ?_ ?_ h
  · intro _ hc; exact hc
  · intro a; cases a <;> decide

theorem setState_state (a : CApp) (st : String) : (setState a st).state = st := by
  unfold setState
  split
  · rename_i h; exact (by simpa using h : st = a.state).symm
  · rfl

theorem terminated_completed : terminated "Completed" = true := by decide
theorem terminated_completing : terminated "Completing" = false := by decide

/-! ### the invariants, application by application -/

/-- the clauses of `LifeInv` for one application -/
structure AppLife (a : CApp) : Prop where
  pos : a.live = true → ∀ i ∈ a.items, PosRes i.res
  completingNoReal : a.live = true → a.state = "Completing" → ∀ i ∈ a.items, i.bound = true → i.ph = true
  noPhOrphan : (a.live = false ∨ terminated a.state = true) → ∀ i ∈ a.items, i.bound = true → i.ph = false
  completedNoReal : a.state = "Completed" → ∀ i ∈ a.items, i.bound = true → i.ph = true
  termGone : a.live = true → terminated a.state = false

/-- the clauses of `NoPendInv` for one application -/
structure AppNoPend (a : CApp) : Prop where
  completingNoPending : a.live = true → a.state = "Completing" → ∀ i ∈ a.items, i.outstanding = false
  completedNoAsk : a.state = "Completed" → ∀ i ∈ a.items, i.outstanding = false

def PosNodes (nodes : List CNode) : Prop := ∀ n ∈ nodes, ∀ x ∈ n.allocs, x.foreign = false → PosRes x.res

theorem appLife_of {s : Core} (h : LifeInv s) {a : CApp} (ha : a ∈ s.apps) : AppLife a :=
  ⟨h.pos a ha, h.completingNoReal a ha, h.noPhOrphan a ha, h.completedNoReal a ha, h.termGone a ha⟩

theorem appNoPend_of {s : Core} (h : NoPendInv s) {a : CApp} (ha : a ∈ s.apps) : AppNoPend a :=
  ⟨h.completingNoPending a ha, h.completedNoAsk a ha⟩

theorem lifeInv_of {s : Core} (ha : ∀ a ∈ s.apps, AppLife a) (hn : PosNodes s.nodes) : LifeInv s :=
  { pos := fun a h => (ha a h).pos, posNode := hn, completingNoReal := fun a h => (ha a h).completingNoReal,
    noPhOrphan := fun a h => (ha a h).noPhOrphan, completedNoReal := fun a h => (ha a h).completedNoReal,
    termGone := fun a h => (ha a h).termGone }

theorem noPendInv_of {s : Core} (ha : ∀ a ∈ s.apps, AppNoPend a) : NoPendInv s :=
  ⟨fun a h => (ha a h).completingNoPending, fun a h => (ha a h).completedNoAsk⟩

/-- one live application is replaced by `f` of it -/
theorem life_upd {s t : Core} {id : String} {a : CApp} {f : CApp → CApp} (hw : CoreWF s) (hl : LifeInv s)
    (ham : a ∈ s.apps) (hlv : a.live = true) (hid : a.id = id) (hta : t.apps = updApps s.apps id f)
    (hfa : AppLife (f a)) (hn : PosNodes t.nodes) : LifeInv t := by
  refine lifeInv_of ?_ hn
  intro b hb
  rw [hta] at hb
  rcases mem_updApps hw.appIds ham hlv hid hb with rfl | ⟨hbs, _⟩
  · exact hfa
  · exact appLife_of hl hbs

theorem nopend_upd {s t : Core} {id : String} {a : CApp} {f : CApp → CApp} (hw : CoreWF s) (hp : NoPendInv s)
    (ham : a ∈ s.apps) (hlv : a.live = true) (hid : a.id = id) (hta : t.apps = updApps s.apps id f)
    (hfa : AppNoPend (f a)) : NoPendInv t := by
  refine noPendInv_of ?_
  intro b hb
  rw [hta] at hb
  rcases mem_updApps hw.appIds ham hlv hid hb with rfl | ⟨hbs, _⟩
  · exact hfa
  · exact appNoPend_of hp hbs

theorem posNodes_map_irrel {nodes : List CNode} (g : CNode → CNode) (hg : NodeIrrel g) (h : PosNodes nodes) :
    PosNodes (nodes.map g) := by
  intro n' hn' x hx hf
  obtain ⟨n, hn, rfl⟩ := List.mem_map.mp hn'
  rw [(hg n).2.1] at hx
  exact h n hn x hx hf

theorem posNodes_upd {nodes : List CNode} (id : String) (f : CNode → CNode) (h : PosNodes nodes)
    (hf : ∀ n ∈ nodes, ∀ x ∈ (f n).allocs, x.foreign = false → PosRes x.res) : PosNodes (updNs nodes id f) := by
  intro n' hn' x hx hxf
  obtain ⟨n, hn, rfl⟩ := List.mem_map.mp hn'
  by_cases hd : (n.id == id) = true
  · rw [if_pos hd] at hx; exact hf n hn x hx hxf
  · rw [if_neg hd] at hx; exact h n hn x hx hxf

theorem posNodes_nodeRm {nodes : List CNode} (id key : String) (r : Res) (h : PosNodes nodes) :
    PosNodes (updNs nodes id (nodeRm key r)) :=
  posNodes_upd id _ h (fun n hn x hx hxf => h n hn x (List.mem_filter.mp hx).1 hxf)

/-! ### `relAppT` -/

/-- the state of the application after `relAppT` -/
def relSt (tt : TermType) (i : CItem) (a : CApp) : String :=
  if i.ph = true then
    (if (isZero (some (prune (subX a.allocatedPh i.res))) &&
         ((a.state == "Completing" && !a.stateTimer && !(tt == .replaced && i.release.isSome)) ||
          (a.state == "Failing" && isZero (some a.allocated)) ||
          a.state == "Resuming" ||
          (isZero (some a.pending) && isZero (some a.allocated) && !(tt == .replaced && i.release.isSome) &&
           a.state != "Failing"))) = true then
      (if (a.state == "Failing") = true then fireState a.state .fail
       else if (a.state == "Resuming") = true then fireState a.state .run
       else fireState a.state .complete)
    else a.state)
  else
    (if (isZero (some a.pending) && isZero (some (prune (subX a.allocated i.res)))) = true then
      (if (a.state == "Failing") = true then
        (if isZero (some a.allocatedPh) = true then fireState a.state .fail else a.state)
       else fireState a.state .complete)
     else a.state)

theorem relAppT_state (tt : TermType) (key : String) (i : CItem) (a : CApp) : (relAppT tt key i a).state = relSt tt i a := by
  unfold relAppT relSt
  cases i.ph <;> simp [setState_state]

theorem relAppT_live (tt : TermType) (key : String) (i : CItem) (a : CApp) :
    (relAppT tt key i a).live = !(terminated (relSt tt i a)) := by
  unfold relAppT relSt
  cases i.ph <;> simp

/-- the state becomes Completing only when the pending and the real total are zero -/
theorem relAppT_completing (tt : TermType) (key : String) (i : CItem) (a : CApp)
    (h : (relAppT tt key i a).state = "Completing") :
    a.state = "Completing" ∨
      (isZero (some (relAppT tt key i a).pending) = true ∧ isZero (some (relAppT tt key i a).allocated) = true) := by
  rw [relAppT_state] at h
  rw [relAppT_pending, relAppT_allocated]
  unfold relSt at h
  cases hph : i.ph with
  | true =>
    simp only [hph, if_true] at h ⊢
    split at h
    · rename_i hc
      by_cases hF : a.state = "Failing"
      · rw [hF] at h; exact absurd h (by decide)
      · have hF' : (a.state == "Failing") = false := by simpa using hF
        by_cases hR : a.state = "Resuming"
        · rw [hR] at h; exact absurd h (by decide)
        · have hR' : (a.state == "Resuming") = false := by simpa using hR
          rw [hF', hR'] at h hc
          simp only [Bool.false_eq_true, if_false] at h
          have hs := complete_completing _ h
          have hC : (a.state == "Completing") = false := by rcases hs with e | e <;> rw [e] <;> decide
          rw [hC] at hc
          simp only [Bool.false_and, Bool.false_or, Bool.or_false, Bool.and_eq_true] at hc
          exact Or.inr ⟨hc.2.1.1.1, hc.2.1.1.2⟩
    · exact Or.inl h
  | false =>
    simp only [hph, Bool.false_eq_true, if_false] at h ⊢
    split at h
    · rename_i hc
      simp only [Bool.and_eq_true] at hc
      exact Or.inr hc
    · exact Or.inl h

/-- the application terminates only when its (new) placeholder total is zero — a placeholder that leaves, or (real branch)
    the last real allocation of a Failing application without placeholders — or (real branch) from Completing -/
theorem relAppT_terminated (tt : TermType) (key : String) (i : CItem) (a : CApp) (hnt : terminated a.state = false)
    (h : terminated (relAppT tt key i a).state = true) :
    (i.ph = true ∧ isZero (some (relAppT tt key i a).allocatedPh) = true) ∨ (i.ph = false ∧ a.state = "Completing") ∨
      (i.ph = false ∧ a.state = "Failing" ∧ isZero (some (relAppT tt key i a).pending) = true ∧
        isZero (some (relAppT tt key i a).allocated) = true ∧ isZero (some (relAppT tt key i a).allocatedPh) = true) := by
  rw [relAppT_state] at h
  rw [relAppT_allocatedPh, relAppT_pending, relAppT_allocated]
  unfold relSt at h
  cases hph : i.ph with
  | true =>
    simp only [hph, if_true] at h ⊢
    split at h
    · rename_i hc
      simp only [Bool.and_eq_true] at hc
      exact Or.inl ⟨trivial, hc.1⟩
    · rw [hnt] at h; cases h
  | false =>
    simp only [hph, Bool.false_eq_true, if_false] at h ⊢
    split at h
    · rename_i hc
      simp only [Bool.and_eq_true] at hc
      split at h
      · rename_i hF
        split at h
        · rename_i hz
          exact Or.inr (Or.inr ⟨trivial, by simpa using hF, hc.1, hc.2, hz⟩)
        · rw [hnt] at h; cases h
      · rcases complete_terminated _ h with e | e
        · exact Or.inr (Or.inl ⟨trivial, e⟩)
        · rw [hnt] at e; cases e
    · rw [hnt] at h; cases h

/-- a Failing application whose placeholder leaves: it is Failed exactly when that was the last placeholder and it holds
    no real allocation; otherwise it stays Failing (and live) -/
theorem relAppT_failing_ph (tt : TermType) (key : String) (i : CItem) (a : CApp) (hph : i.ph = true)
    (hF : a.state = "Failing") :
    (relAppT tt key i a).state =
      if (isZero (some (relAppT tt key i a).allocatedPh) && isZero (some a.allocated)) = true then "Failed" else "Failing" := by
  rw [relAppT_state, relAppT_allocatedPh]
  unfold relSt
  simp only [hph, if_true, hF]
  cases isZero (some (prune (subX a.allocatedPh i.res))) <;> cases isZero (some a.allocated) <;> simp <;> decide

/-- with a real allocation left, a Failing application stays Failing and live when a placeholder leaves -/
theorem relAppT_failing_ph_stays (tt : TermType) (key : String) (i : CItem) (a : CApp) (hph : i.ph = true)
    (hF : a.state = "Failing") (hreal : isZero (some a.allocated) = false) :
    (relAppT tt key i a).state = "Failing" ∧ (relAppT tt key i a).live = true := by
  have hs := relAppT_failing_ph tt key i a hph hF
  rw [hreal, Bool.and_false] at hs
  simp only [Bool.false_eq_true, if_false] at hs
  refine ⟨hs, ?_⟩
  rw [relAppT_live, ← relAppT_state tt key, hs]; decide

/-- the last real allocation of a Failing application without placeholders (and without pending asks) makes it Failed and
    not live; otherwise it stays Failing -/
theorem relAppT_failing_real (tt : TermType) (key : String) (i : CItem) (a : CApp) (hph : i.ph = false)
    (hF : a.state = "Failing") :
    (relAppT tt key i a).state =
      if (isZero (some a.pending) && isZero (some (relAppT tt key i a).allocated) && isZero (some a.allocatedPh)) = true
      then "Failed" else "Failing" := by
  rw [relAppT_state, relAppT_allocated]
  unfold relSt
  simp only [hph, Bool.false_eq_true, if_false, hF]
  cases isZero (some a.pending) <;> cases isZero (some (prune (subX a.allocated i.res))) <;>
    cases isZero (some a.allocatedPh) <;> simp <;> decide

theorem relAppT_failing_real_failed (tt : TermType) (key : String) (i : CItem) (a : CApp) (hph : i.ph = false)
    (hF : a.state = "Failing") (hp : isZero (some a.pending) = true)
    (hreal : isZero (some (relAppT tt key i a).allocated) = true) (hz : isZero (some a.allocatedPh) = true) :
    (relAppT tt key i a).state = "Failed" ∧ (relAppT tt key i a).live = false := by
  have hs := relAppT_failing_real tt key i a hph hF
  rw [hp, hreal, hz] at hs
  simp only [Bool.and_self, if_true] at hs
  refine ⟨hs, ?_⟩
  rw [relAppT_live, ← relAppT_state tt key, hs]; decide

/-- Completed is reached from Completing only -/
theorem relAppT_completed (tt : TermType) (key : String) (i : CItem) (a : CApp)
    (h : (relAppT tt key i a).state = "Completed") : a.state = "Completed" ∨ a.state = "Completing" := by
  rw [relAppT_state] at h
  unfold relSt at h
  cases hph : i.ph with
  | true =>
    simp only [hph, if_true] at h
    split at h
    · by_cases hF : a.state = "Failing"
      · rw [hF] at h; exact absurd h (by decide)
      · have hF' : (a.state == "Failing") = false := by simpa using hF
        by_cases hR : a.state = "Resuming"
        · rw [hR] at h; exact absurd h (by decide)
        · have hR' : (a.state == "Resuming") = false := by simpa using hR
          rw [hF', hR'] at h
          simp only [Bool.false_eq_true, if_false] at h
          exact (complete_completed _ h).symm
    · exact Or.inl h
  | false =>
    simp only [hph, Bool.false_eq_true, if_false] at h
    split at h
    · by_cases hF : a.state = "Failing"
      · rw [hF] at h
        simp only [beq_self_eq_true, if_true] at h
        split at h <;> exact absurd h (by decide)
      · have hF' : (a.state == "Failing") = false := by simpa using hF
        rw [hF'] at h
        simp only [Bool.false_eq_true, if_false] at h
        exact (complete_completed _ h).symm
    · exact Or.inl h

/-- the members of the item list after an allocation was unbound, with every flag the invariants read -/
theorem mem_relItems {tt : TermType} {key : String} {i : CItem} {a : CApp} {y : CItem} (hy : y ∈ (relAppT tt key i a).items) :
    ∃ x ∈ a.items, y.res = x.res ∧ y.ph = x.ph ∧ y.outstanding = x.outstanding ∧ (y.bound = true → x.bound = true) := by
  rw [relAppT_items] at hy
  obtain ⟨x, hx, _, hr, hp, hal, hrq, h | h⟩ := mem_unbound hy
  · exact ⟨x, hx, hr, hp, by unfold CItem.outstanding; rw [hal, hrq], fun hb => by rw [h.2] at hb; cases hb⟩
  · exact ⟨x, hx, hr, hp, by unfold CItem.outstanding; rw [hal, hrq], fun hb => by rw [h.2] at hb; exact hb⟩

theorem appLife_relAppT (tt : TermType) (key : String) (i : CItem) (a : CApp) (hba : AppBooks a) (hwa : AppWF a)
    (hla : AppLife a) (hlv : a.live = true) (him : i ∈ a.items) (hkey : i.key = key) (hbd : i.bound = true) :
    AppLife (relAppT tt key i a) := by
  have hb' := appBooks_relAppT tt key i a hba hwa him hkey hbd
  have hw' := appWF_relAppT tt key i a hwa
  have hpos' : ∀ y ∈ (relAppT tt key i a).items, PosRes y.res := by
    intro y hy
    obtain ⟨x, hx, hr, _⟩ := mem_relItems hy
    rw [hr]; exact hla.pos hlv x hx
  obtain ⟨z1, z2, _⟩ := hb'.none_of_zero hw' hpos'
  refine ⟨fun _ => hpos', ?_, ?_, ?_, ?_⟩
  · intro _ hst y hy hyb
    rcases relAppT_completing tt key i a hst with h | ⟨_, h⟩
    · obtain ⟨x, hx, _, hp, _, hb⟩ := mem_relItems hy
      rw [hp]; exact hla.completingNoReal hlv h x hx (hb hyb)
    · exact z1 h y hy hyb
  · intro hor y hy hyb
    have ht : terminated (relAppT tt key i a).state = true := by
      rcases hor with h | h
      · rw [relAppT_live, ← relAppT_state tt key] at h; simpa using h
      · exact h
    rcases relAppT_terminated tt key i a (hla.termGone hlv) ht with ⟨_, h⟩ | ⟨hph, hc⟩ | ⟨_, _, _, _, h⟩
    · exact z2 h y hy hyb
    · have := hla.completingNoReal hlv hc i him hbd
      rw [hph] at this; cases this
    · exact z2 h y hy hyb
  · intro hst y hy hyb
    obtain ⟨x, hx, _, hp, _, hb⟩ := mem_relItems hy
    rw [hp]
    rcases relAppT_completed tt key i a hst with h | h
    · exact hla.completedNoReal h x hx (hb hyb)
    · exact hla.completingNoReal hlv h x hx (hb hyb)
  · intro h
    rw [relAppT_live, ← relAppT_state tt key] at h
    simpa using h

theorem appNoPend_relAppT (tt : TermType) (key : String) (i : CItem) (a : CApp) (hba : AppBooks a) (hwa : AppWF a)
    (hla : AppLife a) (hpa : AppNoPend a) (hlv : a.live = true) : AppNoPend (relAppT tt key i a) := by
  obtain ⟨_, _, z3⟩ := hba.none_of_zero hwa (hla.pos hlv)
  constructor
  · intro _ hst y hy
    obtain ⟨x, hx, _, _, ho, _⟩ := mem_relItems hy
    rw [ho]
    rcases relAppT_completing tt key i a hst with h | ⟨h, _⟩
    · exact hpa.completingNoPending hlv h x hx
    · rw [relAppT_pending] at h; exact z3 h x hx
  · intro hst y hy
    obtain ⟨x, hx, _, _, ho, _⟩ := mem_relItems hy
    rw [ho]
    rcases relAppT_completed tt key i a hst with h | h
    · exact hpa.completedNoAsk h x hx
    · exact hpa.completingNoPending hlv h x hx

/-! ### `askAppT` -/

/-- the state after the ask left: unchanged, or `.complete` fired with everything at zero -/
theorem askAppT_state (key : String) (x : CItem) (a : CApp) :
    (askAppT key x a).state = a.state ∨
    ((askAppT key x a).state = fireState a.state .complete ∧ isZero (some (askAppT key x a).pending) = true ∧
      isZero (some a.allocated) = true ∧ a.state ≠ "Completing") := by
  have hst : (askAppT key x a).state =
      if (isZero (some (askAppT key x a).pending) && isZero (some a.allocated) && a.state != "Failing" && a.state != "Completing" &&
          !((askAppT key x a).items.any (fun y => y.bound && y.ph))) = true
      then fireState a.state .complete else a.state := by
    rw [askAppT_pending, askAppT_items]
    unfold askAppT
    simp [setState_state]
  rw [hst]
  split
  · rename_i hc
    simp only [Bool.and_eq_true, bne_iff_ne, ne_eq] at hc
    exact Or.inr ⟨rfl, hc.1.1.1.1, hc.1.1.1.2, hc.1.2⟩
  · exact Or.inl rfl

theorem mem_askItems' {key : String} {x : CItem} {a : CApp} {y : CItem} (hy : y ∈ (askAppT key x a).items) :
    ∃ z ∈ a.items, y.res = z.res ∧ y.ph = z.ph ∧ y.bound = z.bound ∧ (y.outstanding = true → z.outstanding = true) := by
  rw [askAppT_items] at hy
  obtain ⟨hm, _⟩ := List.mem_filter.mp hy
  obtain ⟨z, hz, h | h⟩ := mem_updItem hm
  · obtain ⟨_, rfl⟩ := h
    exact ⟨z, hz, rfl, rfl, rfl, fun ho => by simp [CItem.outstanding] at ho⟩
  · obtain ⟨_, rfl⟩ := h
    exact ⟨y, hz, rfl, rfl, rfl, fun ho => ho⟩

theorem askAppT_not_terminated (key : String) (x : CItem) (a : CApp) (hnt : terminated a.state = false) :
    terminated (askAppT key x a).state = false := by
  rcases askAppT_state key x a with h | ⟨h, _, _, hnc⟩
  · rw [h]; exact hnt
  · rw [h]
    cases ht : terminated (fireState a.state .complete) with
    | false => rfl
    | true =>
      rcases complete_terminated _ ht with e | e
      · exact absurd e hnc
      · rw [hnt] at e; cases e

theorem appLife_askAppT (key : String) (x : CItem) (a : CApp) (hba : AppBooks a) (hwa : AppWF a)
    (hla : AppLife a) (hlv : a.live = true) : AppLife (askAppT key x a) := by
  obtain ⟨z1, _, _⟩ := hba.none_of_zero hwa (hla.pos hlv)
  have hnt := askAppT_not_terminated key x a (hla.termGone hlv)
  refine ⟨?_, ?_, ?_, ?_, fun _ => hnt⟩
  · intro _ y hy
    obtain ⟨z, hz, hr, _⟩ := mem_askItems' hy
    rw [hr]; exact hla.pos hlv z hz
  · intro _ hst y hy hyb
    obtain ⟨z, hz, _, hp, hb, _⟩ := mem_askItems' hy
    rw [hp]; rw [hb] at hyb
    rcases askAppT_state key x a with h | ⟨_, _, h, _⟩
    · exact hla.completingNoReal hlv (h ▸ hst) z hz hyb
    · exact z1 h z hz hyb
  · intro hor
    rcases hor with h | h
    · rw [askAppT_live, hlv] at h; cases h
    · rw [hnt] at h; cases h
  · intro hst y hy hyb
    obtain ⟨z, hz, _, hp, hb, _⟩ := mem_askItems' hy
    rw [hp]; rw [hb] at hyb
    rcases askAppT_state key x a with h | ⟨h, _, _, hnc⟩
    · exact hla.completedNoReal (h ▸ hst) z hz hyb
    · rw [h] at hst
      rcases complete_completed _ hst with e | e
      · exact absurd e hnc
      · exact hla.completedNoReal e z hz hyb

theorem appNoPend_askAppT (key : String) (x : CItem) (a : CApp) (hba : AppBooks a) (hwa : AppWF a)
    (hla : AppLife a) (hpa : AppNoPend a) (hlv : a.live = true)
    (hxm : x ∈ a.items) (hxk : x.key = key) (hxreq : x.inReq = true) : AppNoPend (askAppT key x a) := by
  have hb' := appBooks_askAppT key x a hba hwa hxm hxk hxreq
  have hw' := appWF_askAppT key x a hwa
  have hpos' : ∀ y ∈ (askAppT key x a).items, PosRes y.res := by
    intro y hy
    obtain ⟨z, hz, hr, _⟩ := mem_askItems' hy
    rw [hr]; exact hla.pos hlv z hz
  obtain ⟨_, _, z3⟩ := hb'.none_of_zero hw' hpos'
  have hold : ∀ y ∈ (askAppT key x a).items, (∀ z ∈ a.items, z.outstanding = false) → y.outstanding = false := by
    intro y hy hall
    obtain ⟨z, hz, _, _, _, ho⟩ := mem_askItems' hy
    cases hyo : y.outstanding with
    | false => rfl
    | true => rw [hall z hz] at ho; exact (ho hyo).symm
  constructor
  · intro _ hst y hy
    rcases askAppT_state key x a with h | ⟨_, h, _, _⟩
    · exact hold y hy (hpa.completingNoPending hlv (h ▸ hst))
    · exact z3 h y hy
  · intro hst y hy
    rcases askAppT_state key x a with h | ⟨h, _, _, hnc⟩
    · exact hold y hy (hpa.completedNoAsk (h ▸ hst))
    · rw [h] at hst
      rcases complete_completed _ hst with e | e
      · exact absurd e hnc
      · exact hold y hy (hpa.completedNoAsk e)

/-! ### `swapStartApp` -/

theorem mem_swapStartItems {realKey phKey node : String} {r : CItem} {a : CApp} {y : CItem}
    (hy : y ∈ (swapStartApp realKey phKey node r a).items) :
    ∃ z ∈ a.items, y.res = z.res ∧ y.ph = z.ph ∧ y.bound = z.bound ∧ (y.outstanding = true → z.outstanding = true) := by
  rw [swapStartApp_items] at hy
  obtain ⟨z, hz, rfl⟩ := List.mem_map.mp hy
  refine ⟨z, hz, ?_⟩
  by_cases h1 : (z.key == realKey) = true
  · by_cases h2 : (z.key == phKey) = true <;> simp [h1, h2, CItem.outstanding]
  · by_cases h2 : (z.key == phKey) = true <;> simp [h1, h2, CItem.outstanding]

theorem appLife_swapStartApp (realKey phKey node : String) (r : CItem) (a : CApp) (hla : AppLife a) :
    AppLife (swapStartApp realKey phKey node r a) := by
  have hlive : (swapStartApp realKey phKey node r a).live = a.live := rfl
  have hstate : (swapStartApp realKey phKey node r a).state = a.state := rfl
  refine ⟨?_, ?_, ?_, ?_, ?_⟩
  · intro hl y hy
    obtain ⟨z, hz, hr, _⟩ := mem_swapStartItems hy
    rw [hr]; exact hla.pos (hlive ▸ hl) z hz
  · intro hl hst y hy hyb
    obtain ⟨z, hz, _, hp, hb, _⟩ := mem_swapStartItems hy
    rw [hp]; exact hla.completingNoReal (hlive ▸ hl) (hstate ▸ hst) z hz (hb ▸ hyb)
  · intro hor y hy hyb
    obtain ⟨z, hz, _, hp, hb, _⟩ := mem_swapStartItems hy
    rw [hp]; exact hla.noPhOrphan (by rw [← hlive, ← hstate]; exact hor) z hz (hb ▸ hyb)
  · intro hst y hy hyb
    obtain ⟨z, hz, _, hp, hb, _⟩ := mem_swapStartItems hy
    rw [hp]; exact hla.completedNoReal (hstate ▸ hst) z hz (hb ▸ hyb)
  · intro hl; exact hla.termGone (hlive ▸ hl)

theorem appNoPend_swapStartApp (realKey phKey node : String) (r : CItem) (a : CApp) (hpa : AppNoPend a) :
    AppNoPend (swapStartApp realKey phKey node r a) := by
  have hold : ∀ y ∈ (swapStartApp realKey phKey node r a).items, (∀ z ∈ a.items, z.outstanding = false) → y.outstanding = false := by
    intro y hy hall
    obtain ⟨z, hz, _, _, _, ho⟩ := mem_swapStartItems hy
    cases hyo : y.outstanding with
    | false => rfl
    | true => rw [hall z hz] at ho; exact (ho hyo).symm
  constructor
  · intro hl hst y hy; exact hold y hy (hpa.completingNoPending hl hst)
  · intro hst y hy; exact hold y hy (hpa.completedNoAsk hst)

/-! ### `replApp` -/

/-- the state after the placeholder left (first half of `replApp`) -/
def replSt1 (p : CItem) (a : CApp) : String :=
  if (isZero (some (prune (subX a.allocatedPh p.res))) &&
      ((a.state == "Failing" && isZero (some a.allocated)) || a.state == "Resuming")) = true then
    (if (a.state == "Failing") = true then fireState a.state .fail else fireState a.state .run)
  else a.state

theorem replApp_live (p r : CItem) (a : CApp) : (replApp p r a).live = !(terminated (replSt1 p a)) := by
  unfold replApp replSt1; simp

theorem replApp_state (p r : CItem) (a : CApp) :
    (replApp p r a).state =
      if (!(isZero (some a.allocated)) || replSt1 p a == "Completing") = true then fireState (replSt1 p a) .run else replSt1 p a := by
  unfold replApp replSt1; simp [setState_state]

theorem replApp_ne_completing (p r : CItem) (a : CApp) : (replApp p r a).state ≠ "Completing" := by
  rw [replApp_state]
  split
  · exact run_ne_completing _
  · rename_i hc
    intro h
    apply hc
    rw [h]; simp

theorem replApp_terminated (p r : CItem) (a : CApp) (h : terminated (replApp p r a).state = true) :
    terminated (replSt1 p a) = true := by
  rw [replApp_state] at h
  split at h
  · exact run_terminated _ h
  · exact h

theorem replSt1_terminated (p r : CItem) (a : CApp) (hnt : terminated a.state = false) (h : terminated (replSt1 p a) = true) :
    isZero (some (replApp p r a).allocatedPh) = true := by
  rw [replApp_allocatedPh]
  unfold replSt1 at h
  split at h
  · rename_i hc
    simp only [Bool.and_eq_true] at hc
    exact hc.1
  · rw [hnt] at h; cases h

/-- a Failing application whose placeholder is replaced: Failed exactly when that was the last placeholder and it holds no
    real allocation (fix 81c5cb7); with a real allocation left it stays Failing, and live -/
theorem replSt1_failing (p : CItem) (a : CApp) (hF : a.state = "Failing") :
    replSt1 p a =
      if (isZero (some (prune (subX a.allocatedPh p.res))) && isZero (some a.allocated)) = true then "Failed" else "Failing" := by
  unfold replSt1
  simp only [hF]
  cases isZero (some (prune (subX a.allocatedPh p.res))) <;> cases isZero (some a.allocated) <;> simp <;> decide

theorem replApp_failing_stays (p r : CItem) (a : CApp) (hF : a.state = "Failing") (hreal : isZero (some a.allocated) = false) :
    replSt1 p a = "Failing" ∧ (replApp p r a).live = true := by
  have hs := replSt1_failing p a hF
  rw [hreal, Bool.and_false] at hs
  simp only [Bool.false_eq_true, if_false] at hs
  refine ⟨hs, ?_⟩
  rw [replApp_live, hs]; decide

theorem replSt1_completed (p : CItem) (a : CApp) (h : replSt1 p a = "Completed") : a.state = "Completed" := by
  unfold replSt1 at h
  split at h
  · rename_i hc
    simp only [Bool.and_eq_true, Bool.or_eq_true, beq_iff_eq] at hc
    rcases hc.2 with ⟨e, _⟩ | e
    · rw [e] at h; exact absurd h (by decide)
    · rw [e] at h; exact absurd h (by decide)
  · exact h

theorem replApp_completed (p r : CItem) (a : CApp) (h : (replApp p r a).state = "Completed") : a.state = "Completed" := by
  rw [replApp_state] at h
  split at h
  · exact replSt1_completed p a (run_completed _ h)
  · exact replSt1_completed p a h

theorem mem_replItems' {p r : CItem} {a : CApp} {y : CItem} (hy : y ∈ (replApp p r a).items) :
    (∃ x ∈ a.items, y.res = x.res) ∨ y.res = r.res := by
  rw [replApp_items] at hy
  rcases mem_replItems hy with ⟨x, hx, _, hr, _⟩ | ⟨h, _⟩
  · exact Or.inl ⟨x, hx, hr⟩
  · exact Or.inr (by rw [h])

theorem appLife_replApp (p r : CItem) (a : CApp) (hba : AppBooks a) (hwa : AppWF a) (hok : ReplOK a p r)
    (hla : AppLife a) (hlv : a.live = true) (hrpos : PosRes r.res) : AppLife (replApp p r a) := by
  have hb' := appBooks_replApp a p r hba hwa hok
  have hw' := appWF_replApp a p r hwa hok
  have hnt := hla.termGone hlv
  have hpos' : ∀ y ∈ (replApp p r a).items, PosRes y.res := by
    intro y hy
    rcases mem_replItems' hy with ⟨x, hx, hr⟩ | hr
    · rw [hr]; exact hla.pos hlv x hx
    · rw [hr]; exact hrpos
  obtain ⟨_, z2, _⟩ := hb'.none_of_zero hw' hpos'
  refine ⟨fun _ => hpos', ?_, ?_, ?_, ?_⟩
  · intro _ hst; exact absurd hst (replApp_ne_completing p r a)
  · intro hor y hy hyb
    have ht : terminated (replSt1 p a) = true := by
      rcases hor with h | h
      · rw [replApp_live] at h; simpa using h
      · exact replApp_terminated p r a h
    exact z2 (replSt1_terminated p r a hnt ht) y hy hyb
  · intro hst
    have := replApp_completed p r a hst
    rw [this] at hnt; exact absurd hnt (by decide)
  · intro hl
    rw [replApp_live] at hl
    cases ht : terminated (replApp p r a).state with
    | false => rfl
    | true => rw [replApp_terminated p r a ht] at hl; cases hl

theorem appNoPend_replApp (p r : CItem) (a : CApp) (hla : AppLife a) (hlv : a.live = true) : AppNoPend (replApp p r a) := by
  constructor
  · intro _ hst; exact absurd hst (replApp_ne_completing p r a)
  · intro hst
    have hnt := hla.termGone hlv
    rw [replApp_completed p r a hst] at hnt; exact absurd hnt (by decide)

/-- the real allocation a placeholder is linked to has a positive size -/
theorem findReal_pos (s : Core) (a : CApp) (rk : String) (r : CItem) (hl : LifeCore s) (ham : a ∈ s.apps) (hlv : a.live = true)
    (h : findReal s a rk = some r) : PosRes r.res := by
  unfold findReal at h
  split at h
  · rename_i r' hr'
    simp only [Option.some.injEq] at h
    subst h
    exact hl.pos a ham hlv r' (List.mem_of_find?_eq_some hr')
  · obtain ⟨n, hn, hx⟩ := List.exists_of_findSome?_eq_some h
    cases hf : n.allocs.find? (fun x => x.key == rk && x.app == a.id && !x.foreign) with
    | none => rw [hf] at hx; cases hx
    | some x =>
      rw [hf] at hx
      simp only [Option.map_some, Option.some.injEq] at hx
      subst hx
      have hp := List.find?_some hf
      simp only [Bool.and_eq_true, Bool.not_eq_true'] at hp
      exact hl.posNode n hn x (List.mem_of_find?_eq_some hf) hp.2

/-! ### the state after `relBoundT`, `askRemoveT`, `swapMain` -/

theorem appsBooks_upd {s t : Core} {id : String} {a : CApp} {f : CApp → CApp} (hw : CoreWF s)
    (hba : ∀ b ∈ s.apps, b.live = true → AppBooks b) (ham : a ∈ s.apps) (hlv : a.live = true) (hid : a.id = id)
    (hta : t.apps = updApps s.apps id f) (hfa : AppBooks (f a)) : ∀ b ∈ t.apps, b.live = true → AppBooks b := by
  intro b hb hbl
  rw [hta] at hb
  rcases mem_updApps hw.appIds ham hlv hid hb with rfl | ⟨hbs, _⟩
  · exact hfa
  · exact hba b hbs hbl

/-- the applications' books after `relBoundT` (no condition on the nodes needed) -/
theorem appsBooks_relBoundT (s : Core) (tt : TermType) (app key : String) (a : CApp) (i : CItem) (hw : CoreWF s)
    (hba : ∀ b ∈ s.apps, b.live = true → AppBooks b)
    (hfind : s.findApp app = some a) (hitem : a.items.find? (·.key == key) = some i) :
    ∀ b ∈ (relBoundT s tt app key a i).apps, b.live = true → AppBooks b := by
  cases hbd : i.bound with
  | false => rw [relBoundT_unbound _ _ _ _ _ _ hbd]; exact hba
  | true =>
    obtain ⟨ham, hlv, hid⟩ := findApp_some hfind
    obtain ⟨him, hkey⟩ := find_key_some hitem
    obtain ⟨hta, _, _⟩ := relBoundT_lists' s tt app key a i hbd
    exact appsBooks_upd hw hba ham hlv hid hta (appBooks_relAppT tt key i a (hba a ham hlv) (hw.app ham hlv) him hkey hbd)

theorem life_relBoundT' (s : Core) (tt : TermType) (app key : String) (a : CApp) (i : CItem) (hw : CoreWF s)
    (hba : ∀ b ∈ s.apps, b.live = true → AppBooks b) (hl : LifeInv s)
    (hfind : s.findApp app = some a) (hitem : a.items.find? (·.key == key) = some i) :
    LifeInv (relBoundT s tt app key a i) := by
  cases hbd : i.bound with
  | false => rw [relBoundT_unbound _ _ _ _ _ _ hbd]; exact hl
  | true =>
    obtain ⟨ham, hlv, hid⟩ := findApp_some hfind
    obtain ⟨him, hkey⟩ := find_key_some hitem
    obtain ⟨hta, htn, _⟩ := relBoundT_lists' s tt app key a i hbd
    refine life_upd hw hl ham hlv hid hta
      (appLife_relAppT tt key i a (hba a ham hlv) (hw.app ham hlv) (appLife_of hl ham) hlv him hkey hbd) ?_
    rw [htn]
    split
    · exact posNodes_nodeRm _ _ _ hl.posNode
    · exact hl.posNode

theorem nopend_relBoundT' (s : Core) (tt : TermType) (app key : String) (a : CApp) (i : CItem) (hw : CoreWF s)
    (hba : ∀ b ∈ s.apps, b.live = true → AppBooks b) (hl : LifeInv s) (hp : NoPendInv s)
    (hfind : s.findApp app = some a) : NoPendInv (relBoundT s tt app key a i) := by
  cases hbd : i.bound with
  | false => rw [relBoundT_unbound _ _ _ _ _ _ hbd]; exact hp
  | true =>
    obtain ⟨ham, hlv, hid⟩ := findApp_some hfind
    obtain ⟨hta, _, _⟩ := relBoundT_lists' s tt app key a i hbd
    exact nopend_upd hw hp ham hlv hid hta
      (appNoPend_relAppT tt key i a (hba a ham hlv) (hw.app ham hlv) (appLife_of hl ham) (appNoPend_of hp ham) hlv)

theorem life_askRemoveT' (s1 : Core) (app key : String) (chain : List String) (hw : CoreWF s1)
    (hba : ∀ b ∈ s1.apps, b.live = true → AppBooks b) (hl : LifeInv s1) : LifeInv (askRemoveT s1 app key chain) := by
  cases hfind : s1.findApp app with
  | none => unfold askRemoveT; simp only [hfind]; exact hl
  | some a1 =>
    cases hitem : a1.items.find? (fun x => x.key == key && x.inReq) with
    | none => unfold askRemoveT; simp only [hfind, hitem]; exact hl
    | some x =>
      obtain ⟨ham, hlv, hid⟩ := findApp_some hfind
      obtain ⟨gq, gn, _, hgn, e1, _, e3⟩ := askRemoveT_eq s1 app key chain a1 x hfind hitem
      obtain ⟨c1, c2, _⟩ := askRemoveCore_lists s1 app key chain x
      refine life_upd hw hl ham hlv hid (e1.trans c1)
        (appLife_askAppT key x a1 (hba a1 ham hlv) (hw.app ham hlv) (appLife_of hl ham) hlv) ?_
      rw [e3, c2]
      exact posNodes_map_irrel gn hgn hl.posNode

theorem nopend_askRemoveT' (s1 : Core) (app key : String) (chain : List String) (hw : CoreWF s1)
    (hba : ∀ b ∈ s1.apps, b.live = true → AppBooks b) (hl : LifeInv s1) (hp : NoPendInv s1) :
    NoPendInv (askRemoveT s1 app key chain) := by
  cases hfind : s1.findApp app with
  | none => unfold askRemoveT; simp only [hfind]; exact hp
  | some a1 =>
    cases hitem : a1.items.find? (fun x => x.key == key && x.inReq) with
    | none => unfold askRemoveT; simp only [hfind, hitem]; exact hp
    | some x =>
      obtain ⟨ham, hlv, hid⟩ := findApp_some hfind
      have hxm : x ∈ a1.items := List.mem_of_find?_eq_some hitem
      have hxp := List.find?_some hitem
      simp only [Bool.and_eq_true, beq_iff_eq] at hxp
      obtain ⟨gq, gn, _, _, e1, _, _⟩ := askRemoveT_eq s1 app key chain a1 x hfind hitem
      obtain ⟨c1, _, _⟩ := askRemoveCore_lists s1 app key chain x
      exact nopend_upd hw hp ham hlv hid (e1.trans c1)
        (appNoPend_askAppT key x a1 (hba a1 ham hlv) (hw.app ham hlv) (appLife_of hl ham) (appNoPend_of hp ham) hlv
          hxm hxp.1 hxp.2)

/-- the real allocation of a confirmed swap has a positive size -/
theorem swapCase_pos {s : Core} {app phKey : String} {a : CApp} {p r : CItem} (hl : LifeInv s)
    (hc : SwapCase s app phKey a p r) : PosRes r.res := by
  obtain ⟨ham, hlv, _⟩ := findApp_some hc.app
  obtain ⟨rk, _, hrk⟩ := Option.bind_eq_some_iff.mp hc.real
  exact findReal_pos s a rk r hl.core ham hlv hrk

theorem life_swapMain (s : Core) (app phKey : String) (a : CApp) (p r : CItem) (hw : CoreWF s) (hb : Books s) (hl : LifeInv s)
    (hok : SwapOK s app phKey) (hc : SwapCase s app phKey a p r) : LifeInv (swapMain s app phKey a p r) := by
  obtain ⟨ham, hlv, hid⟩ := findApp_some hc.app
  obtain ⟨hta, htn, _⟩ := swapMain_lists s app phKey a p r
  have hrpos := swapCase_pos hl hc
  refine life_upd hw hl ham hlv hid hta
    (appLife_replApp p r a (hb.apps a ham hlv) (hw.app ham hlv) (hok.repl a p r hc) (appLife_of hl ham) hlv hrpos) ?_
  rw [htn]
  apply posNodes_upd _ _ hl.posNode
  intro n hn x hx hxf
  split at hx
  · rcases List.mem_append.mp hx with h | h
    · exact hl.posNode n hn x (List.mem_filter.mp h).1 hxf
    · rw [List.mem_singleton] at h; subst h; exact hrpos
  · exact hl.posNode n hn x (List.mem_filter.mp hx).1 hxf

theorem nopend_swapMain (s : Core) (app phKey : String) (a : CApp) (p r : CItem) (hw : CoreWF s) (hl : LifeInv s)
    (hp : NoPendInv s) (hc : SwapCase s app phKey a p r) : NoPendInv (swapMain s app phKey a p r) := by
  obtain ⟨ham, hlv, hid⟩ := findApp_some hc.app
  obtain ⟨hta, _, _⟩ := swapMain_lists s app phKey a p r
  exact nopend_upd hw hp ham hlv hid hta (appNoPend_replApp p r a (appLife_of hl ham) hlv)

end LifeB

open LifeB

/-! ### the two steps of a release -/

theorem life_relBoundT (s : Core) (tt : TermType) (app key : String) (a : CApp) (i : CItem) (hw : CoreWF s) (hb : Books s)
    (hl : LifeInv s) (hfind : s.findApp app = some a) (hitem : a.items.find? (·.key == key) = some i) :
    LifeInv (relBoundT s tt app key a i) :=
  life_relBoundT' s tt app key a i hw hb.apps hl hfind hitem

theorem nopend_relBoundT (s : Core) (tt : TermType) (app key : String) (a : CApp) (i : CItem) (hw : CoreWF s) (hb : Books s)
    (hl : LifeInv s) (hp : NoPendInv s) (hfind : s.findApp app = some a) : NoPendInv (relBoundT s tt app key a i) :=
  nopend_relBoundT' s tt app key a i hw hb.apps hl hp hfind

theorem life_askRemoveT (s1 : Core) (app key : String) (chain : List String) (hw : CoreWF s1) (hb : Books s1)
    (hl : LifeInv s1) : LifeInv (askRemoveT s1 app key chain) :=
  life_askRemoveT' s1 app key chain hw hb.apps hl

theorem nopend_askRemoveT (s1 : Core) (app key : String) (chain : List String) (hw : CoreWF s1) (hb : Books s1)
    (hl : LifeInv s1) (hp : NoPendInv s1) : NoPendInv (askRemoveT s1 app key chain) :=
  nopend_askRemoveT' s1 app key chain hw hb.apps hl hp

/-! ### `releaseKeyT` -/

/-- partition.removeAllocation(app, key, tt) keeps the life-cycle invariant (no side condition: the applications' books of
    the intermediate state do not depend on the node the allocation names) -/
theorem life_releaseKeyT (s : Core) (tt : TermType) (app key : String) (hw : CoreWF s) (hb : Books s) (hl : LifeInv s) :
    LifeInv (s.releaseKeyT tt app key) := by
  cases hfind : s.findApp app with
  | none => unfold releaseKeyT; simp only [hfind]; exact hl
  | some a =>
    cases hitem : a.items.find? (·.key == key) with
    | none => unfold releaseKeyT; simp only [hfind, hitem]; exact hl
    | some i =>
      have hw1 := wf_relBoundT s tt app key a i hw hfind
      have hb1 := appsBooks_relBoundT s tt app key a i hw hb.apps hfind hitem
      have hl1 := life_relBoundT s tt app key a i hw hb hl hfind hitem
      unfold releaseKeyT
      simp only [hfind, hitem]
      split
      · exact hl1
      · exact life_askRemoveT' _ app key _ hw1 hb1 hl1

theorem nopend_releaseKeyT (s : Core) (tt : TermType) (app key : String) (hw : CoreWF s) (hb : Books s) (hl : LifeInv s)
    (hp : NoPendInv s) : NoPendInv (s.releaseKeyT tt app key) := by
  cases hfind : s.findApp app with
  | none => unfold releaseKeyT; simp only [hfind]; exact hp
  | some a =>
    cases hitem : a.items.find? (·.key == key) with
    | none => unfold releaseKeyT; simp only [hfind, hitem]; exact hp
    | some i =>
      have hw1 := wf_relBoundT s tt app key a i hw hfind
      have hb1 := appsBooks_relBoundT s tt app key a i hw hb.apps hfind hitem
      have hl1 := life_relBoundT s tt app key a i hw hb hl hfind hitem
      have hp1 := nopend_relBoundT s tt app key a i hw hb hl hp hfind
      unfold releaseKeyT
      simp only [hfind, hitem]
      split
      · exact hp1
      · exact nopend_askRemoveT' _ app key _ hw1 hb1 hl1 hp1

/-! ### `swapStart` -/

/-- tryPlaceholderAllocate decided a replacement: flags change, the state does not; the node the real half is parked on
    gains an entry of the size of the real ask -/
theorem life_swapStart (s s' : Core) (app realKey phKey node : String) (hw : CoreWF s) (_hb : Books s) (hl : LifeInv s)
    (h : s.swapStart app realKey phKey node = some s') : LifeInv s' := by
  obtain ⟨a, r, p, hfind, hr, _, hta, _, htn⟩ := swapStart_lists s s' app realKey phKey node h
  obtain ⟨ham, hlv, hid⟩ := findApp_some hfind
  obtain ⟨hrm, _, _, _⟩ := swapStart_found hr
  refine life_upd hw hl ham hlv hid hta (appLife_swapStartApp realKey phKey node r a (appLife_of hl ham)) ?_
  rw [htn]
  split
  · apply posNodes_upd _ _ hl.posNode
    intro n hn x hx hxf
    rcases List.mem_append.mp hx with h | h
    · exact hl.posNode n hn x h hxf
    · rw [List.mem_singleton] at h; subst h; exact hl.pos a ham hlv r hrm
  · exact hl.posNode

/-- the real ask stops being outstanding, nothing becomes outstanding -/
theorem nopend_swapStart (s s' : Core) (app realKey phKey node : String) (hw : CoreWF s) (_hb : Books s) (_hl : LifeInv s)
    (hp : NoPendInv s) (h : s.swapStart app realKey phKey node = some s') : NoPendInv s' := by
  obtain ⟨a, r, p, hfind, _, _, hta, _, _⟩ := swapStart_lists s s' app realKey phKey node h
  obtain ⟨ham, hlv, hid⟩ := findApp_some hfind
  exact nopend_upd hw hp ham hlv hid hta (appNoPend_swapStartApp realKey phKey node r a (appNoPend_of hp ham))

/-! ### `swapConfirm` -/

theorem life_swapConfirm (s : Core) (app phKey : String) (hw : CoreWF s) (hb : Books s) (hl : LifeInv s)
    (hok : SwapOK s app phKey) : LifeInv (s.swapConfirm app phKey) := by
  cases hfind : s.findApp app with
  | none => unfold swapConfirm; simp only [hfind]; exact hl
  | some a =>
    cases hitem : a.items.find? (·.key == phKey) with
    | none => unfold swapConfirm; simp only [hfind, hitem]; exact hl
    | some p =>
      cases hreal : (if (p.bound && p.ph) = true then p.release else none).bind (findReal s a) with
      | none =>
        have : s.swapConfirm app phKey = releaseKeyT s .replaced app phKey := by
          unfold swapConfirm; simp only [hfind, hitem, hreal]
        rw [this]
        exact life_releaseKeyT s .replaced app phKey hw hb hl
      | some r =>
        have hbp : (p.bound && p.ph) = true := by
          cases h : (p.bound && p.ph) with
          | true => rfl
          | false => rw [h] at hreal; simp at hreal
        rw [hbp] at hreal
        simp only [if_true] at hreal
        have hc : SwapCase s app phKey a p r := ⟨hfind, hitem, hbp, hreal⟩
        rw [swapConfirm_main s app phKey a p r hc]
        exact life_askRemoveT _ app phKey _ (wf_swapMain s app phKey a p r hw hok hc)
          (books_swapMain s app phKey a p r hw hb hok hc) (life_swapMain s app phKey a p r hw hb hl hok hc)

theorem nopend_swapConfirm (s : Core) (app phKey : String) (hw : CoreWF s) (hb : Books s) (hl : LifeInv s)
    (hp : NoPendInv s) (hok : SwapOK s app phKey) : NoPendInv (s.swapConfirm app phKey) := by
  cases hfind : s.findApp app with
  | none => unfold swapConfirm; simp only [hfind]; exact hp
  | some a =>
    cases hitem : a.items.find? (·.key == phKey) with
    | none => unfold swapConfirm; simp only [hfind, hitem]; exact hp
    | some p =>
      cases hreal : (if (p.bound && p.ph) = true then p.release else none).bind (findReal s a) with
      | none =>
        have : s.swapConfirm app phKey = releaseKeyT s .replaced app phKey := by
          unfold swapConfirm; simp only [hfind, hitem, hreal]
        rw [this]
        exact nopend_releaseKeyT s .replaced app phKey hw hb hl hp
      | some r =>
        have hbp : (p.bound && p.ph) = true := by
          cases h : (p.bound && p.ph) with
          | true => rfl
          | false => rw [h] at hreal; simp at hreal
        rw [hbp] at hreal
        simp only [if_true] at hreal
        have hc : SwapCase s app phKey a p r := ⟨hfind, hitem, hbp, hreal⟩
        rw [swapConfirm_main s app phKey a p r hc]
        exact nopend_askRemoveT _ app phKey _ (wf_swapMain s app phKey a p r hw hok hc)
          (books_swapMain s app phKey a p r hw hb hok hc) (life_swapMain s app phKey a p r hw hb hl hok hc)
          (nopend_swapMain s app phKey a p r hw hl hp hc)

end Yk
