/- C04: what acceptance by the shim-side monitor automaton (`ShimView.step/run`) guarantees. -/
import YkModel.Shim
namespace Yk
open ShimView

/-- the key invariant on the (asks, bound) pair of a view -/
def KInv (asks : List (String × String)) (bound : List (String × String × String)) : Prop :=
  (bound.map (·.1)).Nodup ∧ (asks.map (·.1)).Nodup ∧ ∀ k, k ∈ asks.map (·.1) → k ∉ bound.map (·.1)

theorem nodup_map_filter {α β : Type} (f : α → β) (p : α → Bool) {l : List α} (h : (l.map f).Nodup) :
    ((l.filter p).map f).Nodup :=
  h.sublist (List.Sublist.map f List.filter_sublist)

theorem mem_map_filter {α β : Type} (f : α → β) (p : α → Bool) {l : List α} {k : β}
    (h : k ∈ (l.filter p).map f) : k ∈ l.map f := by
  obtain ⟨x, hx, rfl⟩ := List.mem_map.mp h
  exact List.mem_map.mpr ⟨x, (List.mem_filter.mp hx).1, rfl⟩

theorem not_mem_map_filter_ne {α : Type} (f : α → String) (l : List α) (key : String) :
    key ∉ (l.filter (fun x => f x != key)).map f := by
  intro h
  obtain ⟨x, hx, hk⟩ := List.mem_map.mp h
  have := (List.mem_filter.mp hx).2
  simp [hk] at this

theorem KInv.nil : KInv [] [] := ⟨List.nodup_nil, List.nodup_nil, fun _ h => by cases h⟩

theorem KInv.filter {a : List (String × String)} {b : List (String × String × String)} (h : KInv a b)
    (p : String × String → Bool) (q : String × String × String → Bool) : KInv (a.filter p) (b.filter q) :=
  ⟨nodup_map_filter _ q h.1, nodup_map_filter _ p h.2.1,
   fun k hk hb => h.2.2 k (mem_map_filter _ p hk) (mem_map_filter _ q hb)⟩

theorem KInv.ask {a : List (String × String)} {b : List (String × String × String)} (h : KInv a b)
    (key app : String) (ha : key ∉ a.map (·.1)) (hb : key ∉ b.map (·.1)) : KInv ((key, app) :: a) b := by
  refine ⟨h.1, ?_, ?_⟩
  · rw [List.map_cons, List.nodup_cons]; exact ⟨ha, h.2.1⟩
  · intro k hk
    rw [List.map_cons, List.mem_cons] at hk
    rcases hk with rfl | hk
    · exact hb
    · exact h.2.2 k hk

theorem KInv.alloc {a : List (String × String)} {b : List (String × String × String)} (h : KInv a b)
    (key app node : String) (hb : key ∉ b.map (·.1)) :
    KInv (a.filter (fun x => x.1 != key)) ((key, app, node) :: b) := by
  refine ⟨?_, nodup_map_filter _ _ h.2.1, ?_⟩
  · rw [List.map_cons, List.nodup_cons]; exact ⟨hb, h.1⟩
  · intro k hk hkb
    rw [List.map_cons, List.mem_cons] at hkb
    rcases hkb with rfl | hkb
    · exact not_mem_map_filter_ne (fun x : String × String => x.1) a _ hk
    · exact h.2.2 k (mem_map_filter _ _ hk) hkb

theorem KInv.place {a : List (String × String)} {b : List (String × String × String)} (h : KInv a b)
    (key app node : String) :
    KInv (a.filter (fun x => x.1 != key)) ((key, app, node) :: b.filter (fun x => x.1 != key)) :=
  (h.filter (fun _ => true) (fun x => x.1 != key)).alloc key app node
    (not_mem_map_filter_ne (fun x : String × String × String => x.1) b key) |> fun r => by
      simpa [List.filter_filter] using r

theorem any_fst_eq_false {β : Type} (l : List (String × β)) (key : String)
    (h : l.any (fun x => x.1 == key) = false) : key ∉ l.map (·.1) := by
  intro hm
  obtain ⟨x, hx, hk⟩ := List.mem_map.mp hm
  rw [List.any_eq_false] at h
  exact h x hx (by simp [hk])

theorem any_fst_iff {β : Type} (l : List (String × β)) (key : String) :
    l.any (fun x => x.1 == key) = true ↔ key ∈ l.map (·.1) := by
  simp only [List.any_eq_true, List.mem_map, beq_iff_eq]

theorem keyKnown_iff (v : ShimView) (key : String) :
    v.keyKnown key = true ↔ (key ∈ v.asks.map (·.1) ∨ key ∈ v.bound.map (·.1)) := by
  unfold keyKnown
  rw [Bool.or_eq_true, any_fst_iff, any_fst_iff]

/-- one accepted message preserves the key invariant -/
theorem step_KInv (v v' : ShimView) (m : ShimMsg) (h : KInv v.asks v.bound) (hs : v.step m = some v') :
    KInv v'.asks v'.bound := by
  cases m with
  | nodeCreate id => simp only [step, Option.some.injEq] at hs; subst hs; exact h
  | nodeRemove id => simp only [step, Option.some.injEq] at hs; subst hs; exact h
  | appAdd id => simp only [step, Option.some.injEq] at hs; subst hs; exact h
  | appRemove id => simp only [step, Option.some.injEq] at hs; subst hs; exact h.filter _ _
  | ask key app =>
    simp only [step] at hs
    split at hs
    · simp only [Option.some.injEq] at hs; subst hs; exact h
    · rename_i hk
      simp only [Option.some.injEq] at hs; subst hs
      have hk' : ¬ (key ∈ v.asks.map (·.1) ∨ key ∈ v.bound.map (·.1)) := fun hc => hk ((keyKnown_iff v key).mpr hc)
      exact h.ask key app (fun hc => hk' (Or.inl hc)) (fun hc => hk' (Or.inr hc))
  | place key app node => simp only [step, Option.some.injEq] at hs; subst hs; exact h.place key app node
  | releaseKey key => simp only [step, dropKey, Option.some.injEq] at hs; subst hs; exact h.filter _ _
  | releaseApp app => simp only [step, Option.some.injEq] at hs; subst hs; exact h.filter _ _
  | newAlloc key app node =>
    simp only [step] at hs
    split at hs
    · simp only [Option.some.injEq] at hs; subst hs; exact h
    · split at hs
      · cases hs
      · split at hs
        · cases hs
        · split at hs
          · cases hs
          · split at hs
            · cases hs
            · rename_i hb
              simp only [Option.some.injEq] at hs; subst hs
              exact h.alloc key app node (any_fst_eq_false _ _ (Bool.eq_false_iff.mpr hb))
  | release key c =>
    simp only [step] at hs
    split at hs
    · cases hs
    · split at hs
      · simp only [Option.some.injEq] at hs; subst hs; exact h
      · simp only [dropKey, Option.some.injEq] at hs; subst hs; exact h.filter _ _
  | appAccepted app =>
    simp only [step] at hs
    split at hs
    · cases hs
    · simp only [Option.some.injEq] at hs; subst hs; exact h
  | appRejected app =>
    simp only [step] at hs
    split at hs
    · cases hs
    · simp only [Option.some.injEq] at hs; subst hs; exact h
  | nodeAccepted n =>
    simp only [step] at hs
    split at hs
    · cases hs
    · simp only [Option.some.injEq] at hs; subst hs; exact h
  | nodeRejected n =>
    simp only [step] at hs
    split at hs
    · cases hs
    · simp only [Option.some.injEq] at hs; subst hs; exact h

theorem run_KInv (trace : List ShimMsg) (v0 v : ShimView) (h0 : KInv v0.asks v0.bound) (h : run v0 trace = some v) :
    KInv v.asks v.bound := by
  induction trace generalizing v0 with
  | nil => simp only [run, Option.some.injEq] at h; subst h; exact h0
  | cons m ms ih =>
    simp only [run] at h
    cases hs : v0.step m with
    | none => rw [hs] at h; cases h
    | some v1 => rw [hs] at h; exact ih v1 (step_KInv v0 v1 m h0 hs) h

theorem shim_exactly_once (trace : List ShimMsg) (v : ShimView) (h : run {} trace = some v) :
    (v.bound.map (·.1)).Nodup ∧ (v.asks.map (·.1)).Nodup ∧ ∀ k, k ∈ v.asks.map (·.1) → k ∉ v.bound.map (·.1) :=
  run_KInv trace {} v KInv.nil h

theorem any_ask_iff (l : List (String × String)) (key app : String) :
    l.any (fun a => a.1 == key && a.2 == app) = true ↔ (key, app) ∈ l := by
  rw [List.any_eq_true]
  constructor
  · rintro ⟨⟨a, b⟩, hx, hk⟩
    simp only [Bool.and_eq_true, beq_iff_eq] at hk
    obtain ⟨rfl, rfl⟩ := hk
    exact hx
  · intro h
    exact ⟨(key, app), h, by simp⟩

theorem shim_newAlloc_iff (v : ShimView) (key app node : String) :
    (v.step (.newAlloc key app node)).isSome = true ↔
      ((key, node) ∈ v.reported ∨
       ((key, app) ∈ v.asks ∧ app ∈ v.apps ∧ node ∈ v.nodes ∧ key ∉ v.bound.map (·.1))) := by
  rw [← any_ask_iff, ← any_fst_iff]
  simp only [step]
  by_cases h1 : (key, node) ∈ v.reported
  · simp [h1]
  · by_cases h2 : v.asks.any (fun a => a.1 == key && a.2 == app) = true
    · by_cases h3 : app ∈ v.apps
      · by_cases h4 : node ∈ v.nodes
        · by_cases h5 : v.bound.any (fun x => x.1 == key) = true
          · simp [h1, h2, h3, h4, h5]
          · simp [h1, h2, h3, h4, h5, (any_ask_iff _ _ _).mp h2]
        · simp [h1, h2, h3, h4]
      · simp [h1, h2, h3]
    · have h2' : (key, app) ∉ v.asks := fun hc => h2 ((any_ask_iff _ _ _).mpr hc)
      simp [h1, h2, h2']

theorem shim_release_iff (v : ShimView) (key : String) (c : Bool) :
    (v.step (.release key c)).isSome = true ↔ (key ∈ v.asks.map (·.1) ∨ key ∈ v.bound.map (·.1)) := by
  rw [← keyKnown_iff]
  simp only [step]
  cases hk : v.keyKnown key <;> cases c <;> simp

theorem shim_release_repeat (v v' : ShimView) (key : String) (h : v.step (.release key true) = some v') :
    (v'.step (.release key true)).isSome = true ∧ v'.bound = v.bound ∧ v'.asks = v.asks := by
  have hk : v.keyKnown key = true := by
    have : (v.step (.release key true)).isSome = true := by rw [h]; rfl
    rw [shim_release_iff, ← keyKnown_iff] at this; exact this
  simp only [step, hk, Bool.not_true, Bool.false_eq_true, if_false, if_true, Option.some.injEq] at h
  subst h
  refine ⟨?_, rfl, rfl⟩
  rw [shim_release_iff]
  exact (keyKnown_iff v key).mp hk

theorem shim_one_answer (v v' : ShimView) (app : String) :
    (v.step (.appAccepted app) = some v' ∨ v.step (.appRejected app) = some v') →
      app ∈ v.appsSubmitted ∧ v'.appsSubmitted.length + 1 = v.appsSubmitted.length := by
  intro h
  by_cases hm : app ∈ v.appsSubmitted
  · have hpos : 0 < v.appsSubmitted.length := List.length_pos_of_mem hm
    have hl : (v.appsSubmitted.erase app).length + 1 = v.appsSubmitted.length := by
      rw [List.length_erase_of_mem hm]; omega
    rcases h with h | h
    · simp only [step, List.contains_eq_mem, hm, decide_true, Bool.not_true, Bool.false_eq_true, if_false,
        Option.some.injEq] at h
      subst h; exact ⟨hm, hl⟩
    · simp only [step, List.contains_eq_mem, hm, decide_true, Bool.not_true, Bool.false_eq_true, if_false,
        Option.some.injEq] at h
      subst h; exact ⟨hm, hl⟩
  · rcases h with h | h <;> simp [step, hm] at h

theorem shim_rejected_no_trace (v v' : ShimView) (app : String) (h : v.step (.appRejected app) = some v') :
    v'.apps = v.apps ∧ v'.asks = v.asks ∧ v'.bound = v.bound ∧ v'.nodes = v.nodes := by
  simp only [step] at h
  split at h
  · cases h
  · simp only [Option.some.injEq] at h; subst h; exact ⟨rfl, rfl, rfl, rfl⟩

end Yk
