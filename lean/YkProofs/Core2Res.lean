/-
  C09 on the stepped Core model: the reservation invariant `ResInv` (the clauses R1–R5 of the monitor `Core.resOK`,
  CoreState.lean, in a form that is inductive over the operations), the side conditions of the operations that make
  reservations or allocate asks, and executable checkers for both.
  Preservation proofs: Core2ResA–D.lean; histories: Core2ResRun.lean.
-/
import YkProofs.Core2LifeRun
namespace Yk
open Res Core

/-- the number of reservations the live applications hold -/
def resvTotal (s : Core) : Nat := (s.liveApps.map (·.reservations.length)).sum

/-- The reservation invariant.  `appNode` / `outstanding` are R1 (application ⊆ node) and R5, `nodeApp` is R1 (node ⊆
    application, naming the owner), `queueCount` / `queueApp` are R2, `counter` is R3 (in the stronger form counter ≥
    number of reservations), `nodeExcl` is R4; `onePerAsk`, `nodeKeys`, `queueKeys`, `owner` say that the three views are
    Go maps (keyed by ask key / by application id); `quiet` says that an application that is on its way out (Failing, Completing, or — in the middle
    of a node removal — already terminated) holds no reservation (the scheduler does not reserve for it, and its reservations were released when it got there). -/
structure ResInv (s : Core) : Prop where
  appNode : ∀ a ∈ s.apps, a.live = true → ∀ r ∈ a.reservations, ∃ n, s.findNode r.2 = some n ∧ r.1 ∈ n.reservations
  outstanding : ∀ a ∈ s.apps, a.live = true → ∀ r ∈ a.reservations, ∃ i ∈ a.items, i.key = r.1 ∧ i.outstanding = true
  onePerAsk : ∀ a ∈ s.apps, a.live = true → (a.reservations.map (·.1)).Nodup
  nodeApp : ∀ n ∈ s.nodes, ∀ k ∈ n.reservations, ∃ a ∈ s.apps, a.live = true ∧ (k, n.id) ∈ a.reservations
  nodeKeys : ∀ n ∈ s.nodes, n.reservations.Nodup
  owner : ∀ a ∈ s.apps, ∀ b ∈ s.apps, a.live = true → b.live = true → ∀ r, r ∈ a.reservations → r ∈ b.reservations → a.id = b.id
  queueCount : ∀ a ∈ s.apps, a.live = true →
    match s.findQueue a.queue with
    | none => a.reservations = []
    | some _ => ∀ q ∈ s.queues, q.path = a.queue → (q.reserved.lookup a.id).getD 0 = a.reservations.length
  queueKeys : ∀ q ∈ s.queues, (q.reserved.map (·.1)).Nodup
  queueApp : ∀ q ∈ s.queues, ∀ r ∈ q.reserved, r.2 = 0 ∨ ∃ a ∈ s.apps, a.live = true ∧ a.id = r.1 ∧ a.queue = q.path
  counter : resvTotal s ≤ s.reservations
  nodeExcl : ∀ n ∈ s.nodes, n.reservations.length ≤ 1 ∨
    ∀ k ∈ n.reservations, ∃ a ∈ s.apps, a.live = true ∧ (k, n.id) ∈ a.reservations ∧ ∃ i ∈ a.items, i.key = k ∧ i.reqNode = n.id
  quiet : ∀ a ∈ s.apps, a.live = true → (a.state = "Failing" ∨ a.state = "Completing" ∨ terminated a.state = true) →
    a.reservations = []

/-- partition.reserve is called for an outstanding ask of a schedulable application that has no reservation yet, on a
    registered node that is free or — for an ask that requires this node — shared with other required-node asks only. -/
structure ReserveOK (s : Core) (app key node : String) : Prop where
  appState : ∀ a, s.findApp app = some a → a.state ≠ "Failing" ∧ a.state ≠ "Completing" ∧
    (∃ i ∈ a.items, i.key = key ∧ i.outstanding = true) ∧ (s.findQueue a.queue).isSome = true
  nodeFree : ∀ a, s.findApp app = some a → ∃ n, s.findNode node = some n ∧ key ∉ n.reservations ∧
    (n.reservations = [] ∨
     ((∃ i ∈ a.items, i.key = key ∧ i.reqNode = node) ∧
      ∀ k ∈ n.reservations, ∃ b ∈ s.apps, b.live = true ∧ (k, n.id) ∈ b.reservations ∧ ∃ i ∈ b.items, i.key = k ∧ i.reqNode = n.id))

/-- the ask a scheduling decision allocates holds no reservation (partition.allocate unreserves first) -/
def NotReserved (s : Core) (app key : String) : Prop :=
  ∀ a, s.findApp app = some a → ∀ r ∈ a.reservations, r.1 ≠ key

/-- what a step needs for `ResInv` beyond the other side conditions -/
def Op.okRes (s : Core) : Op → Prop
  | .reserve app key node => ReserveOK s app key node
  | .schedAlloc app key _ => NotReserved s app key
  | .swapStart app realKey _ _ => NotReserved s app realKey
  -- the first-part `releaseKey` (YkModel/CoreOps.lean) does not model reservations: it is the release of an ask without one
  | .releaseKey app key => NotReserved s app key
  -- a new application / a new dynamic queue starts without reservations
  | .appAdd a nq => (∀ x, a = some x → x.reservations = []) ∧ (∀ q ∈ nq, q.reserved = [])
  | _ => True

/-! ### executable checkers -/

def resInvb (s : Core) : Bool :=
  let live := s.liveApps
  live.all (fun a => a.reservations.all (fun r =>
    (s.findNode r.2).any (fun n => n.reservations.contains r.1) && a.items.any (fun i => i.key == r.1 && i.outstanding))) &&
  live.all (fun a => (a.reservations.map (·.1)).eraseDups.length == a.reservations.length) &&
  s.nodes.all (fun n => n.reservations.all (fun k => live.any (fun a => a.reservations.contains (k, n.id))) &&
    n.reservations.eraseDups.length == n.reservations.length) &&
  live.all (fun a => live.all (fun b => a.id == b.id || a.reservations.all (fun r => !(b.reservations.contains r)))) &&
  live.all (fun a => match s.findQueue a.queue with
    | none => a.reservations.isEmpty
    | some _ => s.queues.all (fun q => q.path != a.queue || (q.reserved.lookup a.id).getD 0 == a.reservations.length)) &&
  s.queues.all (fun q => (q.reserved.map (·.1)).eraseDups.length == q.reserved.length &&
    q.reserved.all (fun r => r.2 == 0 || live.any (fun a => a.id == r.1 && a.queue == q.path))) &&
  decide (resvTotal s ≤ s.reservations) &&
  s.nodes.all (fun n => n.reservations.length ≤ 1 || n.reservations.all (fun k =>
    live.any (fun a => a.reservations.contains (k, n.id) && a.items.any (fun i => i.key == k && i.reqNode == n.id)))) &&
  live.all (fun a => !(a.state == "Failing" || a.state == "Completing" || terminated a.state) || a.reservations.isEmpty)

def reserveOKb (s : Core) (app key node : String) : Bool :=
  match s.findApp app with
  | none => true
  | some a =>
    a.state != "Failing" && a.state != "Completing" && a.items.any (fun i => i.key == key && i.outstanding) &&
    (s.findQueue a.queue).isSome &&
    (match s.findNode node with
     | none => false
     | some n => !(n.reservations.contains key) &&
        (n.reservations.isEmpty ||
         (a.items.any (fun i => i.key == key && i.reqNode == node) &&
          n.reservations.all (fun k => s.liveApps.any (fun b => b.reservations.contains (k, n.id) &&
            b.items.any (fun i => i.key == k && i.reqNode == n.id))))))

def notReservedb (s : Core) (app key : String) : Bool :=
  match s.findApp app with
  | none => true
  | some a => a.reservations.all (fun r => r.1 != key)

def Op.okResb (s : Core) : Op → Bool
  | .reserve app key node => reserveOKb s app key node
  | .schedAlloc app key _ => notReservedb s app key
  | .swapStart app realKey _ _ => notReservedb s app realKey
  | .releaseKey app key => notReservedb s app key
  | .appAdd a nq => (match a with | none => true | some x => x.reservations.isEmpty) && nq.all (fun q => q.reserved.isEmpty)
  | _ => true

end Yk
