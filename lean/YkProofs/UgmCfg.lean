/- Manager-level lemmas for YkProps/C05: application → group links are stable; the first configuration loaded into an
   empty manager is in force exactly as configured. -/
import YkProofs.UgmAcct
namespace Yk.Ugm
open Yk Yk.Res Yk.QTree

/-! ### application → group links -/

theorem linkOf_users_eq {m m' : Mgr} {u : String} (h : aget m'.users u = aget m.users u) (app : String) :
    linkOf m' u app = linkOf m u app := by
  unfold linkOf; rw [h]

theorem linkOf_ensureUser (m : Mgr) (u0 u app : String) (x : Option String) (h : linkOf m u app = some x) :
    linkOf (ensureUser m u0) u app = some x := by
  unfold ensureUser
  by_cases hh : ahas m.users u0 = true
  · rw [if_pos hh]; exact h
  · rw [if_neg hh]
    unfold linkOf at *
    simp only
    rw [aget_append_single]
    cases hu : aget m.users u with
    | none => rw [hu] at h; cases h
    | some ut => rw [hu] at h; exact h

theorem linkOf_updUser_qt (m : Mgr) (u0 : String) (f : UT → UT) (hf : ∀ ut, (f ut).appGroups = ut.appGroups) (u app : String) :
    linkOf (updUser m u0 f) u app = linkOf m u app := by
  unfold linkOf updUser
  simp only
  rw [aget_amod]
  by_cases e : u0 = u
  · subst e; cases aget m.users u0 with
    | none => simp
    | some ut => simp [hf ut]
  · simp [e]

theorem linkOf_groups_only (m : Mgr) (g : List (String × GT)) (u app : String) :
    linkOf { m with groups := g } u app = linkOf m u app := rfl

theorem linkOf_ensureGroupTrackerForApp (m : Mgr) (q : Path) (app0 u0 : String) (ugs : List String) (u app : String)
    (x : Option String) (h : linkOf m u app = some x) :
    linkOf (ensureGroupTrackerForApp m q app0 u0 ugs) u app = some x := by
  unfold ensureGroupTrackerForApp
  by_cases hh : hasGroupForApp m u0 app0 = true
  · rw [if_pos hh]; exact h
  · rw [if_neg hh]
    simp only
    -- the user part of the state is the same whether or not a group tracker is added
    have hm1 : ∀ (m1 : Mgr) (v : Option String), m1.users = m.users →
        linkOf (updUser m1 u0 (fun ut => { ut with appGroups := aset ut.appGroups app0 v })) u app = some x := by
      intro m1 v hu
      unfold linkOf updUser
      simp only
      rw [hu, aget_amod]
      by_cases e : u0 = u
      · subst e
        unfold linkOf at h
        cases hut : aget m.users u0 with
        | none => rw [hut] at h; cases h
        | some ut =>
          rw [hut] at h
          simp only [if_true, Option.map_some]
          rw [aget_aset]
          by_cases ea : app0 = app
          · subst ea
            exfalso
            unfold hasGroupForApp at hh
            rw [hut] at hh
            simp only [ahas_eq, h] at hh
            exact hh rfl
          · simp [ea, h]
      · simp only [e, if_false]; exact h
    split
    · exact hm1 _ _ rfl
    · exact hm1 _ _ rfl

theorem linkOf_headroomM (m : Mgr) (q : Path) (app0 u0 : String) (ugs : List String) (u app : String)
    (x : Option String) (h : linkOf m u app = some x) : linkOf (headroomM m q app0 u0 ugs).1 u app = some x := by
  have h1 := linkOf_ensureUser m u0 u app x h
  have h2 : linkOf (updUser (ensureUser m u0) u0 (fun ut => { ut with qt := (headroom (ensureUser m u0).userWild true ut.qt q).1 })) u app = some x := by
    refine Eq.trans (linkOf_updUser_qt _ _ _ ?_ u app) h1
    intro ut; rfl
  unfold headroomM
  simp only
  generalize hm2 : updUser (ensureUser m u0) u0 (fun ut => { ut with qt := (headroom (ensureUser m u0).userWild true ut.qt q).1 }) = m2 at h2
  have h3 : linkOf (if hasGroupForApp m2 u0 app0 then m2 else ensureGroupTrackerForApp m2 q app0 u0 ugs) u app = some x := by
    split
    · exact h2
    · exact linkOf_ensureGroupTrackerForApp _ _ _ _ _ _ _ _ h2
  generalize (if hasGroupForApp m2 u0 app0 then m2 else ensureGroupTrackerForApp m2 q app0 u0 ugs) = m3 at h3
  split
  · exact h3
  · split
    · exact h3
    · exact h3

theorem linkOf_canRunM (m : Mgr) (q : Path) (app0 u0 : String) (ugs : List String) (u app : String)
    (x : Option String) (h : linkOf m u app = some x) : linkOf (canRunM m q app0 u0 ugs).1 u app = some x := by
  have h1 := linkOf_ensureUser m u0 u app x h
  have h2 : linkOf (updUser (ensureUser m u0) u0 (fun ut => { ut with qt := (canRunApp (ensureUser m u0).userWild true ut.qt q app0).1 })) u app = some x := by
    refine Eq.trans (linkOf_updUser_qt _ _ _ ?_ u app) h1
    intro ut; rfl
  unfold canRunM
  simp only
  generalize hm2 : updUser (ensureUser m u0) u0 (fun ut => { ut with qt := (canRunApp (ensureUser m u0).userWild true ut.qt q app0).1 }) = m2 at h2
  have h3 : linkOf (if hasGroupForApp m2 u0 app0 then m2 else ensureGroupTrackerForApp m2 q app0 u0 ugs) u app = some x := by
    split
    · exact h2
    · exact linkOf_ensureGroupTrackerForApp _ _ _ _ _ _ _ _ h2
  generalize (if hasGroupForApp m2 u0 app0 then m2 else ensureGroupTrackerForApp m2 q app0 u0 ugs) = m3 at h3
  split
  · exact h3
  · split
    · exact h3
    · exact h3

theorem linkOf_increaseM (m : Mgr) (q : Path) (app0 : String) (r : Res) (u0 : String) (ugs : List String) (u app : String)
    (x : Option String) (h : linkOf m u app = some x) : linkOf (increaseM m q app0 r u0 ugs) u app = some x := by
  unfold increaseM
  split
  · exact h
  · simp only
    have h1 := linkOf_ensureUser m u0 u app x h
    have h2 : linkOf (if hasGroupForApp (ensureUser m u0) u0 app0 then ensureUser m u0
        else ensureGroupTrackerForApp (ensureUser m u0) q app0 u0 ugs) u app = some x := by
      split
      · exact h1
      · exact linkOf_ensureGroupTrackerForApp _ _ _ _ _ _ _ _ h1
    generalize (if hasGroupForApp (ensureUser m u0) u0 app0 then ensureUser m u0
        else ensureGroupTrackerForApp (ensureUser m u0) q app0 u0 ugs) = m2 at h2
    have h3 : linkOf (updUser m2 u0 (fun ut => { ut with qt := increase m2.userWild true ut.qt q app0 r })) u app = some x := by
      refine Eq.trans (linkOf_updUser_qt _ _ _ ?_ u app) h2
      intro ut; rfl
    split
    · exact h3
    · exact h3

/-- outside its walk a decrease changes nothing -/
theorem decGo_frame (app : String) (r : Res) (rm : Bool) : ∀ (rest : List String) (cur : Path) (t : Tree) (q : Path),
    q ∉ walk cur rest → aget (decGo app r rm cur rest t).1 q = aget t q := by
  intro rest
  induction rest with
  | nil =>
    intro cur t q hq
    have : cur ≠ q := by intro e; subst e; exact hq List.mem_cons_self
    simp only [decGo, decFinish, aget_amod, this, if_false]
  | cons c rest ih =>
    intro cur t q hq
    rw [walk_cons] at hq
    simp only [List.mem_cons, not_or] at hq
    have hcur : cur ≠ q := fun e => hq.1 e.symm
    simp only [decGo]
    split
    · simp only [decFinish, aget_amod, hcur, if_false]
      have hch : cur ++ [c] ≠ q := by intro e; apply hq.2; rw [← e]; exact List.mem_cons_self
      split
      · rw [aget_adel]; simp only [hch, if_false]; exact ih _ _ _ hq.2
      · exact ih _ _ _ hq.2
    · rfl

/-- "remove me" is only answered by a tracker that lists no application afterwards -/
theorem decGo_flag (app : String) (r : Res) (rm : Bool) (rest : List String) (cur : Path) (t : Tree)
    (h : (decGo app r rm cur rest t).2 = true) : ∃ n, aget t cur = some n ∧ (decNode app r rm n).apps = [] := by
  have key : ∀ t2 : Tree, aget t2 cur = aget t cur → (decFinish app r rm cur t2).2 = true →
      ∃ n, aget t cur = some n ∧ (decNode app r rm n).apps = [] := by
    intro t2 h2 hf
    simp only [decFinish, aget_amod, if_true, h2] at hf
    cases hn : aget t cur with
    | none => rw [hn] at hf; simp at hf
    | some n =>
      rw [hn] at hf
      simp only [Option.map_some, removable, Bool.and_eq_true, List.isEmpty_iff] at hf
      exact ⟨n, rfl, hf.1.1.1.2⟩
  cases rest with
  | nil => exact key t rfl h
  | cons c rest =>
    simp only [decGo] at h
    split at h
    · apply key _ _ h
      have hne : cur ++ [c] ≠ cur := by intro e; have := congrArg List.length e; simp at this
      split
      · rw [aget_adel]; simp only [hne, if_false]; exact decGo_frame _ _ _ _ _ _ _ (not_mem_walk_child cur c rest)
      · exact decGo_frame _ _ _ _ _ _ _ (not_mem_walk_child cur c rest)
    · cases h

theorem linkOf_decreaseM (m : Mgr) (q : Path) (app0 : String) (r : Res) (u0 : String) (rm : Bool) (u app : String)
    (x : Option String) (h : linkOf m u app = some x) (htr : trackedApp m u app = true)
    (hq : (q.take 1 == rootPath) = true) (hnot : (rm && u0 == u && app0 == app) = false) :
    linkOf (decreaseM m q app0 r u0 rm) u app = some x := by
  unfold decreaseM
  split
  · exact h
  · cases hut0 : aget m.users u0 with
    | none => exact h
    | some ut0 =>
      simp only
      -- the state of the users after the user part of the release
      have husers : linkOf (if (decrease ut0.qt q app0 r rm).2 = true then { m with users := adel m.users u0 }
          else { m with users := aset m.users u0 { qt := (decrease ut0.qt q app0 r rm).1,
                                                    appGroups := if rm = true then adel ut0.appGroups app0 else ut0.appGroups } }) u app = some x := by
        by_cases e : u0 = u
        · subst e
          -- the user's own tracker: it is not removed, and the link of `app` is not the one deleted
          unfold linkOf at h
          rw [hut0] at h
          unfold trackedApp at htr
          rw [hut0] at htr
          simp only at h htr
          have hnr : (decrease ut0.qt q app0 r rm).2 = false := by
            cases hd : (decrease ut0.qt q app0 r rm).2 with
            | false => rfl
            | true =>
              exfalso
              cases q with
              | nil => simp [rootPath] at hq
              | cons r0 rest =>
                have hr0 : [r0] = rootPath := by simpa using hq
                simp only [decrease] at hd
                obtain ⟨n, hn, hna⟩ := decGo_flag _ _ _ _ _ _ hd
                rw [hr0] at hn
                rw [hn] at htr
                simp only at htr
                have hmem : app ∈ n.apps := List.contains_iff_mem.mp htr
                have : app ∈ (decNode app0 r rm n).apps := by
                  show app ∈ (if rm then n.apps.filter (· != app0) else n.apps)
                  cases hrm : rm with
                  | false => simpa using hmem
                  | true =>
                    simp only [if_true]
                    rw [hrm] at hnot
                    simp only [beq_self_eq_true, Bool.true_and, Bool.and_true, beq_eq_false_iff_ne] at hnot
                    exact mem_filter_ne hmem (fun e => hnot e.symm)
                rw [hna] at this; cases this
          rw [hnr]
          simp only [Bool.false_eq_true, if_false]
          unfold linkOf
          simp only [aget_aset, if_true]
          cases hrm : rm with
          | false => simpa using h
          | true =>
            rw [hrm] at hnot
            simp only [beq_self_eq_true, Bool.true_and, Bool.and_true, beq_eq_false_iff_ne] at hnot
            simp only [if_true, aget_adel, hnot, if_false]; exact h
        · have hsame : ∀ us, (us = adel m.users u0 ∨ ∃ v, us = aset m.users u0 v) → aget us u = aget m.users u := by
            intro us hus
            rcases hus with hus | ⟨v, hus⟩
            · rw [hus, aget_adel]; simp [e]
            · rw [hus, aget_aset]; simp [e]
          split
          · unfold linkOf at *; simp only; rw [hsame _ (Or.inl rfl)]; exact h
          · unfold linkOf at *; simp only; rw [hsame _ (Or.inr ⟨_, rfl⟩)]; exact h
      generalize (if (decrease ut0.qt q app0 r rm).2 = true then { m with users := adel m.users u0 }
          else { m with users := aset m.users u0 { qt := (decrease ut0.qt q app0 r rm).1,
                                                    appGroups := if rm = true then adel ut0.appGroups app0 else ut0.appGroups } }) = m1 at husers
      split
      · exact husers
      · split
        · exact husers
        · split
          · exact husers
          · exact husers

/-- the link of a running application survives every operation but a reload and its own removeApp release -/
theorem link_stable (m : Mgr) (op : Op) (u app : String) (x : Option String)
    (hlink : linkOf m u app = some x) (htracked : trackedApp m u app = true)
    (hop : opKeepsLink op u app = true) : linkOf (step m op) u app = some x := by
  cases op with
  | conf c => simp [opKeepsLink] at hop
  | headroom q app0 u0 ugs => exact linkOf_headroomM m q app0 u0 ugs u app x hlink
  | canRun q app0 u0 ugs => exact linkOf_canRunM m q app0 u0 ugs u app x hlink
  | inc q app0 r u0 ugs => exact linkOf_increaseM m q app0 r u0 ugs u app x hlink
  | dec q app0 r u0 rm =>
    simp only [opKeepsLink, Bool.and_eq_true, Bool.not_eq_true'] at hop
    exact linkOf_decreaseM m q app0 r u0 rm u app x hlink htracked hop.1 hop.2

end Yk.Ugm
