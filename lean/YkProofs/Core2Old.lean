/-
  `CoreWF` (well-formedness of a state: unique ids / keys, `wf` vectors, non-negative item sizes, bound ⇒ allocated,
  int64 range of the queues' pending totals) is preserved by the operations of the first part of the stepped model
  (YkModel/CoreOps.lean): `ask`, `schedAlloc`, `releaseKey`, `nodeCreate`, `nodeUpdate`, `nodeSchedulable`, `setRootMax`,
  `foreignAdd`, `foreignRemove`.  `YkProofs/Core.lean` proves that the same operations preserve `Books`.
-/
import YkProofs.Core2Base
import YkProofs.Core2Rel
namespace Yk
open Res Core

/-! ### one update of the state at a time -/

/-- one live application is updated (it may leave the partition) -/
theorem wf_updApp_step (s : Core) (id : String) (f : CApp → CApp) (a : CApp) (hw : CoreWF s)
    (ha : a ∈ s.apps) (hl : a.live = true) (hid : a.id = id)
    (hfid : ∀ x, (x.live && x.id == id) = true → (f x).id = x.id) (hfa : (f a).live = true → AppWF (f a)) :
    CoreWF (updApp s id f) := by
  obtain ⟨h1, h2⟩ := wf_updApps s.apps id f a hw.appIds ha hl hid (fun x hx hxl => hw.app hx hxl) hfid hfa
  exact CoreWF.of_parts h1 hw.nodeIds h2 (fun q hq => hw.queue hq) (fun n hn => hw.node hn)

/-- the queues named in `ps` are updated -/
theorem wf_updQueues_step (s : Core) (ps : List String) (fq : CQueue → CQueue) (hw : CoreWF s)
    (h : ∀ q ∈ s.queues, ps.contains q.path = true → QWF (fq q)) : CoreWF (updQueues s ps fq) :=
  CoreWF.of_parts hw.appIds hw.nodeIds (fun _ ha hl => hw.app ha hl)
    (wf_updQs s.queues ps fq (fun _ hq => hw.queue hq) h) (fun _ hn => hw.node hn)

/-- one node is updated -/
theorem wf_updNode_step (s : Core) (id : String) (fn : CNode → CNode) (hw : CoreWF s)
    (hid : ∀ n, (fn n).id = n.id) (h : ∀ n ∈ s.nodes, n.id = id → NWF (fn n)) : CoreWF (updNode s id fn) := by
  obtain ⟨h1, h2⟩ := wf_updNs s.nodes id fn hw.nodeIds (fun n hn => hw.node hn) hid h
  exact CoreWF.of_parts hw.appIds h1 (fun a ha hl => hw.app ha hl) (fun q hq => hw.queue hq) h2

/-- the node with id `id`, when `findNode` found it -/
theorem findNode_eq {s : Core} (hw : CoreWF s) {id : String} {n m : CNode} (hn : s.findNode id = some n)
    (hm : m ∈ s.nodes) (hmid : m.id = id) : m = n := by
  obtain ⟨hnm, hnid⟩ := findNode_some hn
  exact nodeIds_eq hw hnm hm (hmid.trans hnid.symm)

theorem findNode_none {s : Core} {id : String} (h : s.findNode id = none) : ∀ n ∈ s.nodes, n.id ≠ id := by
  intro n hn
  unfold findNode at h
  simpa using List.find?_eq_none.mp h n hn

/-- a new entry at the end of a node's allocation list -/
theorem pairwise_allocs_append (l : List CNodeAlloc) (x : CNodeAlloc) (h : l.Pairwise (fun x y => x.key ≠ y.key))
    (hx : ∀ y ∈ l, y.key ≠ x.key) : (l ++ [x]).Pairwise (fun x y => x.key ≠ y.key) := by
  rw [List.pairwise_append]
  refine ⟨h, List.pairwise_singleton _ _, ?_⟩
  intro y hy z hz
  rw [List.mem_singleton] at hz
  rw [hz]; exact hx y hy

/-- a new entry at the end of an application's item list -/
theorem pairwise_items_append (l : List CItem) (x : CItem) (h : l.Pairwise (fun i j => i.key ≠ j.key))
    (hx : ∀ y ∈ l, y.key ≠ x.key) : (l ++ [x]).Pairwise (fun i j => i.key ≠ j.key) := by
  rw [List.pairwise_append]
  refine ⟨h, List.pairwise_singleton _ _, ?_⟩
  intro y hy z hz
  rw [List.mem_singleton] at hz
  rw [hz]; exact hx y hy

/-! ### the scheduler binds an ask: `schedAlloc` -/

/-- node.TryAddAllocation -/
def schedNode (app key : String) (i : CItem) (n : CNode) : CNode :=
  { n with allocs := n.allocs ++ [{ key := key, app := app, res := i.res, foreign := false, ph := i.ph }],
           allocated := addX n.allocated i.res, available := prune (subX n.available i.res) }

/-- queue.TryIncAllocatedResource + decPending on a queue of the chain -/
def schedQ (i : CItem) (q : CQueue) : CQueue :=
  { q with allocated := addX q.allocated i.res, pending := decPendingRes q.pending i.res }

/-- the item of a bound ask -/
def schedItem (node : String) (x : CItem) : CItem := { x with allocated := true, bound := true, node := node }

/-- allocateAsk + addAllocationInternal -/
def schedApp (key node : String) (i : CItem) (a : CApp) : CApp :=
  let items := a.items.map (fun x => if x.key == key then { x with allocated := true, bound := true, node := node } else x)
  let pending := prune (subX a.pending i.res)
  if i.ph then
    let aph := addX a.allocatedPh i.res
    let st := if equals (some aph) (some a.phAsk) false then fireState a.state .run else a.state
    { a with items := items, pending := pending, allocatedPh := aph, state := st,
             log := if st != a.state then a.log ++ [st] else a.log }
  else
    let st := fireState a.state .run
    { a with items := items, pending := pending, allocated := addX a.allocated i.res, state := st,
             log := if st != a.state then a.log ++ [st] else a.log }

/-- what a successful `schedAlloc` found, and the three lists of the new state -/
theorem schedAlloc_lists (s s' : Core) (app key node : String) (h : s.schedAlloc app key node = some s') :
    ∃ a n i, s.findApp app = some a ∧ s.findNode node = some n ∧
      a.items.find? (fun i => i.key == key && i.inReq && !i.allocated) = some i ∧
      s'.apps = updApps s.apps app (schedApp key node i) ∧
      s'.queues = updQs s.queues (pathChain s a.queue) (schedQ i) ∧
      s'.nodes = updNs s.nodes node (schedNode app key i) := by
  unfold schedAlloc at h
  split at h
  · rename_i a n hfind hnode
    split at h
    · cases h
    · rename_i i hitem
      split at h
      · cases h
      · simp only [Option.some.injEq] at h
        subst h
        exact ⟨a, n, i, hfind, hnode, hitem, rfl, rfl, rfl⟩
  · cases h

theorem schedApp_items (key node : String) (i : CItem) (a : CApp) :
    (schedApp key node i a).items = updItem key (schedItem node) a.items := by
  unfold schedApp; cases i.ph <;> rfl
theorem schedApp_id (key node : String) (i : CItem) (a : CApp) : (schedApp key node i a).id = a.id := by
  unfold schedApp; cases i.ph <;> rfl
theorem schedApp_live (key node : String) (i : CItem) (a : CApp) : (schedApp key node i a).live = a.live := by
  unfold schedApp; cases i.ph <;> rfl
theorem schedApp_queue (key node : String) (i : CItem) (a : CApp) : (schedApp key node i a).queue = a.queue := by
  unfold schedApp; cases i.ph <;> rfl
theorem schedApp_pending (key node : String) (i : CItem) (a : CApp) :
    (schedApp key node i a).pending = prune (subX a.pending i.res) := by
  unfold schedApp; cases i.ph <;> rfl
theorem schedApp_allocated (key node : String) (i : CItem) (a : CApp) :
    (schedApp key node i a).allocated = if i.ph = true then a.allocated else addX a.allocated i.res := by
  unfold schedApp; cases i.ph <;> rfl
theorem schedApp_allocatedPh (key node : String) (i : CItem) (a : CApp) :
    (schedApp key node i a).allocatedPh = if i.ph = true then addX a.allocatedPh i.res else a.allocatedPh := by
  unfold schedApp; cases i.ph <;> rfl

theorem appWF_schedApp (key node : String) (i : CItem) (a : CApp) (hwa : AppWF a) : AppWF (schedApp key node i a) := by
  obtain ⟨hwp, hwal, hwh⟩ := hwa.appRes
  refine ⟨?_, ?_, ?_, ?_⟩
  · rw [schedApp_items]; exact pairwise_updItem a.items key (schedItem node) (fun _ => rfl) hwa.itemKeys
  · rw [schedApp_pending, schedApp_allocated, schedApp_allocatedPh]
    refine ⟨prune_wf _ (subX_wf _ _ hwp), ?_, ?_⟩
    · split
      · exact hwal
      · exact addX_wf _ _ hwal
    · split
      · exact addX_wf _ _ hwh
      · exact hwh
  · intro y hy
    rw [schedApp_items] at hy
    obtain ⟨x, hx, h | h⟩ := mem_updItem hy
    · rw [h.2]; exact hwa.itemRes x hx
    · rw [h.2]; exact hwa.itemRes x hx
  · intro y hy hb
    rw [schedApp_items] at hy
    obtain ⟨x, hx, h | h⟩ := mem_updItem hy
    · rw [h.2]; rfl
    · rw [h.2] at hb ⊢; exact hwa.boundAllocated x hx hb

theorem schedQ_wf (i : CItem) (q : CQueue) (hq : QWF q) : QWF (schedQ i q) :=
  ⟨addX_wf _ _ hq.allocated, decPendingRes_wf _ _ hq.pending, decPendingRes_allInR _ _ hq.inR⟩

theorem schedNode_wf (app key : String) (i : CItem) (n : CNode) (hn : NWF n) (hr : wf i.res = true)
    (hnew : ∀ x ∈ n.allocs, x.key ≠ key) : NWF (schedNode app key i n) := by
  obtain ⟨ht, ho, hma, hv⟩ := hn.nodeRes
  refine ⟨pairwise_allocs_append _ _ hn.allocKeys hnew, ⟨ht, ho, addX_wf _ _ hma, prune_wf _ (subX_wf _ _ hv)⟩, ?_⟩
  intro x hx
  rcases List.mem_append.mp hx with h | h
  · exact hn.allocRes x h
  · rw [List.mem_singleton] at h; rw [h]; exact hr

/-- `schedAlloc` keeps the state well-formed.  Side condition `hnew`: the node does not list an allocation with this key
    yet (node.allocations is a map: the new entry would replace the old one, the model appends). -/
theorem wf_schedAlloc (s s' : Core) (app key node : String) (hw : CoreWF s)
    (hnew : ∀ n, s.findNode node = some n → ∀ x ∈ n.allocs, x.key ≠ key)
    (h : s.schedAlloc app key node = some s') : CoreWF s' := by
  obtain ⟨a, n, i, hfind, hnode, hitem, hta, htq, htn⟩ := schedAlloc_lists s s' app key node h
  obtain ⟨ham, hl, hid⟩ := findApp_some hfind
  have him : i ∈ a.items := List.mem_of_find?_eq_some hitem
  obtain ⟨hwr, _⟩ := hw.itemRes a ham hl i him
  obtain ⟨h1, h2⟩ := wf_updApps s.apps app (schedApp key node i) a hw.appIds ham hl hid (fun x hx hxl => hw.app hx hxl)
    (fun x _ => schedApp_id key node i x) (fun _ => appWF_schedApp key node i a (hw.app ham hl))
  have h3 := wf_updQs s.queues (pathChain s a.queue) (schedQ i) (fun q hq => hw.queue hq)
    (fun q hq _ => schedQ_wf i q (hw.queue hq))
  obtain ⟨h4, h5⟩ := wf_updNs s.nodes node (schedNode app key i) hw.nodeIds (fun m hm => hw.node hm) (fun _ => rfl)
    (fun m hm hmid => by
      have : m = n := findNode_eq hw hnode hm hmid
      subst this
      exact schedNode_wf app key i m (hw.node hm) hwr (hnew m hnode))
  exact CoreWF.of_parts (by rw [hta]; exact h1) (by rw [htn]; exact h4) (by rw [hta]; exact h2) (by rw [htq]; exact h3)
    (by rw [htn]; exact h5)

/-! ### a new ask: `ask` -/

/-- the item of a new request -/
def askItem (key : String) (res : Res) (ph : Bool) (tg reqNode : String) : CItem :=
  { key := key, res := res, ph := ph, tg := tg, allocated := false, node := "", bound := false,
    inReq := true, released := false, preempted := false, release := none, reqNode := reqNode }

/-- `ask` either refuses the request (state unchanged) or appends the item to the application, adds its size to the
    pending total of the application and of the queues on its chain -/
theorem ask_lists (s : Core) (app key : String) (res : Res) (ph : Bool) (tg reqNode : String) :
    (s.ask app key res ph tg reqNode).1 = s ∨
    ∃ a, s.findApp app = some a ∧ strictlyGreaterThanZero (some res) = true ∧
      ∃ f : CApp → CApp,
        (s.ask app key res ph tg reqNode).1.apps = updApps s.apps app f ∧
        (s.ask app key res ph tg reqNode).1.queues =
          updQs s.queues (pathChain s a.queue) (fun q => { q with pending := addX q.pending res }) ∧
        (s.ask app key res ph tg reqNode).1.nodes = s.nodes ∧
        (∀ x, (f x).id = x.id ∧ (f x).live = x.live ∧ (f x).queue = x.queue ∧ (f x).allocated = x.allocated ∧
          (f x).allocatedPh = x.allocatedPh ∧ (f x).pending = prune (addX x.pending res) ∧
          (f x).items = x.items ++ [askItem key res ph tg reqNode]) := by
  unfold ask
  split
  · exact Or.inl rfl
  · rename_i a hfind
    split
    · exact Or.inl rfl
    · rename_i hz
      split
      · exact Or.inl rfl
      · right
        have hz' : strictlyGreaterThanZero (some res) = true := by
          cases hs : strictlyGreaterThanZero (some res) with
          | true => rfl
          | false => rw [hs] at hz; simp at hz
        exact ⟨a, hfind, hz', _, rfl, rfl, rfl, fun x => ⟨rfl, rfl, rfl, rfl, rfl, rfl, rfl⟩⟩

/-- a vector that is strictly greater than zero has no negative entry -/
theorem nonNeg_of_sgtz {r : Res} (hz : strictlyGreaterThanZero (some r) = true) : NonNeg r := by
  unfold strictlyGreaterThanZero at hz
  simp only at hz
  split at hz
  · cases hz
  · rename_i hneg
    intro p hp
    have hneg' : ∀ (x : String) (y : Int), (x, y) ∈ r → 0 ≤ y := by simpa using hneg
    exact hneg' p.1 p.2 hp

/-- The side conditions of `ask`. -/
structure AskOK (s : Core) (app key : String) (res : Res) : Prop where
  /-- the requested resource is a Go map (unique keys) -/
  resWf : wf res = true
  /-- no item of the application has the key yet: the model only refuses a key that is still listed as a request
      (`inReq`); an allocation whose ask is gone with the same key is outside the modelled set -/
  newKey : ∀ a, s.findApp app = some a → ∀ i ∈ a.items, i.key ≠ key
  /-- no int64 saturation of the pending totals of the queues on the chain of the application -/
  noSat : ∀ a, s.findApp app = some a → ∀ q ∈ s.queues, under a.queue q.path = true → allInR (addX q.pending res)

/-- `ask` keeps the state well-formed (that the new resource has no negative entry follows from the model's own
    `strictlyGreaterThanZero` guard). -/
theorem wf_ask (s : Core) (app key : String) (res : Res) (ph : Bool) (tg reqNode : String) (hw : CoreWF s)
    (hok : AskOK s app key res) : CoreWF (s.ask app key res ph tg reqNode).1 := by
  rcases ask_lists s app key res ph tg reqNode with h | ⟨a, hfind, hz, f, hta, htq, htn, hf⟩
  · rw [h]; exact hw
  · obtain ⟨ham, hl, hid⟩ := findApp_some hfind
    have hwa := hw.app ham hl
    obtain ⟨hwp, hwal, hwh⟩ := hwa.appRes
    obtain ⟨_, _, _, f4, f5, f6, f7⟩ := hf a
    have hfa : AppWF (f a) := by
      refine ⟨?_, ?_, ?_, ?_⟩
      · rw [f7]; exact pairwise_items_append _ _ hwa.itemKeys (hok.newKey a hfind)
      · rw [f4, f5, f6]; exact ⟨prune_wf _ (addX_wf _ _ hwp), hwal, hwh⟩
      · intro y hy
        rw [f7] at hy
        rcases List.mem_append.mp hy with h | h
        · exact hwa.itemRes y h
        · rw [List.mem_singleton] at h; rw [h]; exact ⟨hok.resWf, nonNeg_of_sgtz hz⟩
      · intro y hy hb
        rw [f7] at hy
        rcases List.mem_append.mp hy with h | h
        · exact hwa.boundAllocated y h hb
        · rw [List.mem_singleton] at h; rw [h] at hb; cases hb
    obtain ⟨h1, h2⟩ := wf_updApps s.apps app f a hw.appIds ham hl hid (fun x hx hxl => hw.app hx hxl)
      (fun x _ => (hf x).1) (fun _ => hfa)
    have h3 := wf_updQs s.queues (pathChain s a.queue) (fun q => { q with pending := addX q.pending res })
      (fun q hq => hw.queue hq) (fun q hq hc =>
        ⟨(hw.queue hq).allocated, addX_wf _ _ (hw.queue hq).pending,
          hok.noSat a hfind q hq ((chain_iff s a.queue q hq).mp hc)⟩)
    exact CoreWF.of_parts (by rw [hta]; exact h1) (by rw [htn]; exact hw.nodeIds) (by rw [hta]; exact h2)
      (by rw [htq]; exact h3) (by rw [htn]; exact fun n hn => hw.node hn)

/-! ### node requests -/

/-- `setRootMax` only changes `max` of the root queue -/
theorem wf_setRootMax (s : Core) (t : Res) (hw : CoreWF s) : CoreWF (setRootMax s t) := by
  refine CoreWF.of_parts hw.appIds hw.nodeIds (fun _ ha hl => hw.app ha hl) ?_ (fun _ hn => hw.node hn)
  intro q' hq'
  obtain ⟨q, hq, rfl⟩ := List.mem_map.mp hq'
  have := hw.queue hq
  split
  · exact ⟨this.allocated, this.pending, this.inR⟩
  · exact this

theorem wf_nil : wf ([] : Res) = true := rfl

/-- `nodeCreate` keeps the state well-formed.  Side condition: the capacity is a Go map (unique keys). -/
theorem wf_nodeCreate (s : Core) (id : String) (cap : Res) (b : Bool) (hw : CoreWF s) (hc : wf cap = true) :
    CoreWF (s.nodeCreate id cap b) := by
  unfold nodeCreate
  split
  · exact hw
  · rename_i hnone
    have hnone' : s.findNode id = none := by
      cases hf : s.findNode id with
      | none => rfl
      | some n => rw [hf] at hnone; simp at hnone
    apply wf_setRootMax
    have hp := prune_wf cap hc
    refine CoreWF.of_parts hw.appIds ?_ (fun _ ha hl => hw.app ha hl) (fun _ hq => hw.queue hq) ?_
    · show (s.nodes ++ [_]).Pairwise _
      rw [List.pairwise_append]
      refine ⟨hw.nodeIds, List.pairwise_singleton _ _, ?_⟩
      intro y hy z hz
      rw [List.mem_singleton] at hz
      rw [hz]; exact findNode_none hnone' y hy
    · intro n hn
      rcases List.mem_append.mp hn with h | h
      · exact hw.node h
      · rw [List.mem_singleton] at h; subst h
        exact ⟨List.Pairwise.nil, ⟨hp, wf_nil, wf_nil, hp⟩, fun x hx => by cases hx⟩

/-- `nodeUpdate` keeps the state well-formed.  Side condition: the new capacity is a Go map. -/
theorem wf_nodeUpdate (s : Core) (id : String) (cap : Res) (hw : CoreWF s) (hc : wf cap = true) :
    CoreWF (s.nodeUpdate id cap) := by
  unfold nodeUpdate
  split
  · exact hw
  · split
    · exact hw
    · apply wf_setRootMax
      refine CoreWF.of_lists (s := updNode s id _) rfl rfl rfl ?_
      refine wf_updNode_step s id _ hw ?_ ?_
      · intro _; rfl
      intro n hn _
      have hnw := hw.node hn
      obtain ⟨_, ho, ha, _⟩ := hnw.nodeRes
      have hp := prune_wf cap hc
      exact ⟨hnw.allocKeys, ⟨hp, ho, ha, prune_wf _ (subX_wf _ _ (subX_wf _ _ hp))⟩, hnw.allocRes⟩

theorem wf_nodeSchedulable (s : Core) (id : String) (b : Bool) (hw : CoreWF s) : CoreWF (s.nodeSchedulable id b) := by
  unfold nodeSchedulable
  refine wf_updNode_step s id _ hw ?_ ?_
  · intro _; rfl
  intro n hn _
  have hnw := hw.node hn
  exact ⟨hnw.allocKeys, hnw.nodeRes, hnw.allocRes⟩

/-! ### foreign allocations -/

/-- `foreignAdd` keeps the state well-formed.  Side conditions: the size is a Go map, and the node does not list an
    allocation with this key yet (the model only looks at the partition's list of foreign keys). -/
theorem wf_foreignAdd (s : Core) (key node : String) (res : Res) (hw : CoreWF s) (hr : wf res = true)
    (hnew : ∀ n, s.findNode node = some n → ∀ x ∈ n.allocs, x.key ≠ key) : CoreWF (s.foreignAdd key node res) := by
  unfold foreignAdd
  split
  · exact hw
  · split
    · exact hw
    · rename_i n0 hnode
      refine CoreWF.of_lists (s := updNode s node _) rfl rfl rfl ?_
      refine wf_updNode_step s node _ hw ?_ ?_
      · intro _; rfl
      intro n hn hnid
      have : n = n0 := findNode_eq hw hnode hn hnid
      subst this
      have hnw := hw.node hn
      obtain ⟨ht, ho, ha, hv⟩ := hnw.nodeRes
      refine ⟨pairwise_allocs_append _ _ hnw.allocKeys (hnew n hnode),
        ⟨ht, addX_wf _ _ ho, ha, prune_wf _ (subX_wf _ _ hv)⟩, ?_⟩
      intro x hx
      rcases List.mem_append.mp hx with h | h
      · exact hnw.allocRes x h
      · rw [List.mem_singleton] at h; rw [h]; exact hr

theorem wf_foreignRemove (s : Core) (key : String) (hw : CoreWF s) : CoreWF (s.foreignRemove key) := by
  unfold foreignRemove
  split
  · exact hw
  · have hw0 : CoreWF { s with foreign := s.foreign.filter (· != key) } := CoreWF.of_lists (s := s) rfl rfl rfl hw
    split
    · exact hw0
    · rename_i n _
      split
      · exact hw0
      · refine wf_updNode_step _ n.id _ hw0 ?_ ?_
        · intro _; rfl
        intro m hm _
        have hmw : NWF m := hw.node hm
        obtain ⟨ht, ho, ha, hv⟩ := hmw.nodeRes
        refine ⟨hmw.allocKeys.filter _, ⟨ht, subX_wf _ _ ho, ha, addX_wf _ _ hv⟩, ?_⟩
        intro x hx
        exact hmw.allocRes x (List.mem_filter.mp hx).1

/-! ### releases: the old `releaseKey` (`rel1` then `rel2`, YkProofs/Core.lean) -/

theorem appWF_relApp (key : String) (i : CItem) (a : CApp) (hwa : AppWF a) : AppWF (relApp key i a) := by
  obtain ⟨hwp, hwal, hwh⟩ := hwa.appRes
  refine ⟨?_, ?_, ?_, ?_⟩
  · rw [relApp_items]
    exact pairwise_updItem a.items key (fun x => { x with bound := false }) (fun _ => rfl) hwa.itemKeys
  · rw [relApp_pending, relApp_allocated, relApp_allocatedPh]
    refine ⟨hwp, ?_, ?_⟩
    · split
      · exact hwal
      · exact prune_wf _ (subX_wf _ _ hwal)
    · split
      · exact prune_wf _ (subX_wf _ _ hwh)
      · exact hwh
  · intro y hy
    rw [relApp_items] at hy
    obtain ⟨x, hx, h | h⟩ := mem_updItem (g := fun x => { x with bound := false }) hy
    · rw [h.2]; exact hwa.itemRes x hx
    · rw [h.2]; exact hwa.itemRes x hx
  · intro y hy hb
    rw [relApp_items] at hy
    obtain ⟨x, hx, h | h⟩ := mem_updItem (g := fun x => { x with bound := false }) hy
    · rw [h.2] at hb; cases hb
    · rw [h.2] at hb ⊢; exact hwa.boundAllocated x hx hb

theorem relNode_wf (key : String) (i : CItem) (n : CNode) (hn : NWF n) : NWF (relNode key i n) := by
  obtain ⟨ht, ho, hma, hv⟩ := hn.nodeRes
  refine ⟨hn.allocKeys.filter _, ⟨ht, ho, prune_wf _ (subX_wf _ _ hma), addX_wf _ _ hv⟩, ?_⟩
  intro x hx
  exact hn.allocRes x (List.mem_filter.mp hx).1

theorem relQ1_wf (i : CItem) (q : CQueue) (hq : QWF q) : QWF (relQ1 i q) :=
  ⟨prune_wf _ (subX_wf _ _ hq.allocated), hq.pending, hq.inR⟩

theorem relQ2_wf (a' : CApp) (q : CQueue) (hq : QWF q) : QWF (relQ2 a' q) :=
  ⟨prune_wf _ (subX_wf _ _ (subX_wf _ _ hq.allocated)), decPendingRes_wf _ _ hq.pending, decPendingRes_allInR _ _ hq.inR⟩

/-- step (1) of `releaseKey` keeps the state well-formed (whether or not the node is registered) -/
theorem wf_rel1 (s : Core) (app key : String) (a : CApp) (i : CItem) (hw : CoreWF s) (hfind : s.findApp app = some a) :
    CoreWF (rel1 s app key a i) := by
  cases hbd : i.bound with
  | false => unfold rel1; simp only [hbd, Bool.false_eq_true, if_false]; exact hw
  | true =>
    obtain ⟨ham, hl, hid⟩ := findApp_some hfind
    have hA : CoreWF (updApp s app (fun _ => relApp key i a)) :=
      wf_updApp_step s app _ a hw ham hl hid (const_id (by rw [relApp_id, hid])) (fun _ => appWF_relApp key i a (hw.app ham hl))
    have hN : CoreWF (match s.findNode i.node with
        | none => updApp s app (fun _ => relApp key i a)
        | some _ => updNode (updApp s app (fun _ => relApp key i a)) i.node (relNode key i)) := by
      split
      · exact hA
      · exact wf_updNode_step _ _ _ hA (fun _ => rfl) (fun n hn _ => relNode_wf key i n (hA.node hn))
    have hQ : ∀ t : Core, CoreWF t → CoreWF (if ((s.findNode i.node).isSome && strictlyGreaterThanZero (some i.res)) = true then
        updQueues t (pathChain s a.queue) (relQ1 i) else t) := by
      intro t ht
      split
      · exact wf_updQueues_step _ _ _ ht (fun q hq _ => relQ1_wf i q (ht.queue hq))
      · exact ht
    have hT : ∀ t : Core, CoreWF t → CoreWF (if (relApp key i a).live = true then t else
        updQueues t (pathChain s a.queue) (relQ2 (relApp key i a))) := by
      intro t ht
      split
      · exact ht
      · exact wf_updQueues_step _ _ _ ht (fun q hq _ => relQ2_wf _ q (ht.queue hq))
    unfold rel1
    simp only [hbd, if_true]
    refine CoreWF.of_lists ?_ ?_ ?_ (hT _ (hQ _ hN)) <;> rfl

theorem appWF_askApp (key : String) (x : CItem) (a : CApp) (hwa : AppWF a) : AppWF (askApp key x a) := by
  obtain ⟨hwp, hwal, hwh⟩ := hwa.appRes
  refine ⟨?_, ?_, ?_, ?_⟩
  · show (a.items.filter _).Pairwise _
    exact hwa.itemKeys.filter _
  · refine ⟨?_, hwal, hwh⟩
    show wf (if x.allocated = true then a.pending else prune (subX a.pending x.res)) = true
    split
    · exact hwp
    · exact prune_wf _ (subX_wf _ _ hwp)
  · intro y hy
    exact hwa.itemRes y (List.mem_filter.mp hy).1
  · intro y hy hb
    exact hwa.boundAllocated y (List.mem_filter.mp hy).1 hb

/-- step (2) of `releaseKey` keeps the state well-formed -/
theorem wf_rel2 (s1 : Core) (app key : String) (chain : List String) (hw : CoreWF s1) : CoreWF (rel2 s1 app key chain) := by
  unfold rel2
  split
  · exact hw
  · rename_i a hfind
    obtain ⟨ham, hl, hid⟩ := findApp_some hfind
    split
    · exact hw
    · rename_i x _
      have h2 : CoreWF (updApp s1 app (askApp key x)) :=
        wf_updApp_step s1 app _ a hw ham hl hid (fun _ _ => rfl) (fun _ => appWF_askApp key x a (hw.app ham hl))
      split
      · exact h2
      · exact wf_updQueues_step _ _ _ h2 (fun q hq _ =>
          ⟨(h2.queue hq).allocated, decPendingRes_wf _ _ (h2.queue hq).pending, decPendingRes_allInR _ _ (h2.queue hq).inR⟩)

/-- The old `releaseKey` keeps the state well-formed: no side condition (neither `ReleaseOK` nor the books are needed:
    every step keeps the vectors maps, only removes entries from the keyed lists and only decreases pending). -/
theorem wf_releaseKey (s : Core) (app key : String) (hw : CoreWF s) : CoreWF (s.releaseKey app key) := by
  cases hfind : s.findApp app with
  | none => unfold releaseKey; simp only [hfind]; exact hw
  | some a =>
    cases hitem : a.items.find? (·.key == key) with
    | none => unfold releaseKey; simp only [hfind, hitem]; exact hw
    | some i =>
      rw [releaseKey_eq s app key a i hfind hitem]
      exact wf_rel2 _ app key _ (wf_rel1 s app key a i hw hfind)

/-! ### books and well-formedness together (the books: YkProofs/Core.lean) -/

theorem ask_props (s : Core) (app key : String) (res : Res) (ph : Bool) (tg reqNode : String) (hw : CoreWF s) (hb : Books s)
    (hok : AskOK s app key res) :
    Books (s.ask app key res ph tg reqNode).1 ∧ CoreWF (s.ask app key res ph tg reqNode).1 :=
  ⟨books_ask s app key res ph tg reqNode hw hok.resWf hb, wf_ask s app key res ph tg reqNode hw hok⟩

theorem schedAlloc_props (s s' : Core) (app key node : String) (hw : CoreWF s) (hb : Books s)
    (hnew : ∀ n, s.findNode node = some n → ∀ x ∈ n.allocs, x.key ≠ key)
    (h : s.schedAlloc app key node = some s') : Books s' ∧ CoreWF s' :=
  ⟨books_schedAlloc s s' app key node hw hb h, wf_schedAlloc s s' app key node hw hnew h⟩

theorem releaseKey_props (s : Core) (app key : String) (hw : CoreWF s) (hb : Books s) (hrel : ReleaseOK s app key) :
    Books (s.releaseKey app key) ∧ CoreWF (s.releaseKey app key) :=
  ⟨books_releaseKey s app key hw hb hrel, wf_releaseKey s app key hw⟩

theorem node_ops_props (s : Core) (id : String) (cap : Res) (b : Bool) (hw : CoreWF s) (hb : Books s) (hc : wf cap = true) :
    (Books (s.nodeCreate id cap b) ∧ CoreWF (s.nodeCreate id cap b)) ∧
    (Books (s.nodeUpdate id cap) ∧ CoreWF (s.nodeUpdate id cap)) ∧
    (Books (s.nodeSchedulable id b) ∧ CoreWF (s.nodeSchedulable id b)) :=
  ⟨⟨books_nodeCreate s id cap b hb, wf_nodeCreate s id cap b hw hc⟩,
   ⟨books_nodeUpdate s id cap hw hc hb, wf_nodeUpdate s id cap hw hc⟩,
   ⟨books_nodeSchedulable s id b hb, wf_nodeSchedulable s id b hw⟩⟩

theorem foreign_props (s : Core) (key node : String) (res : Res) (hw : CoreWF s) (hb : Books s) (hr : wf res = true)
    (hnew : ∀ n, s.findNode node = some n → ∀ x ∈ n.allocs, x.key ≠ key) :
    (Books (s.foreignAdd key node res) ∧ CoreWF (s.foreignAdd key node res)) ∧
    (Books (s.foreignRemove key) ∧ CoreWF (s.foreignRemove key)) :=
  ⟨⟨books_foreignAdd s key node res hw hr hb, wf_foreignAdd s key node res hw hr hnew⟩,
   ⟨books_foreignRemove s key hw hb, wf_foreignRemove s key hw⟩⟩

end Yk
