/-
  C09 on the stepped Core model: the reservation invariant `ResInv` (YkProofs/Core2Res.lean) is preserved by the release
  of one allocation (`releaseKeyT` = `relBoundT` then `askRemoveT`, and the old `releaseKey`), by the start of a
  placeholder swap (`swapStart`) and by its confirmation (`swapConfirm`).
  Two tools: a transport lemma (`res_of_upd`: one application is replaced by a record with the same id, queue and
  reservations whose reserved asks are still outstanding; nodes and queues keep their reservation fields) and the removal
  of one reservation from the three views (`res_dropResv`: what `askRemoveT` does for the reservation of the removed ask).
-/
import YkProofs.Core2Res
namespace Yk
open Res Core
open LifeB

namespace ResB

/-! ### lists -/

theorem nodup_map_eq {α β : Type} {f : α → β} {l : List α} (h : (l.map f).Nodup) {x y : α} (hx : x ∈ l) (hy : y ∈ l)
    (hxy : f x = f y) : x = y := by
  induction l with
  | nil => cases hx
  | cons b t ih =>
    rw [List.map_cons, List.nodup_cons] at h
    cases hx with
    | head =>
      cases hy with
      | head => rfl
      | tail _ hy' => exact absurd (List.mem_map.mpr ⟨y, hy', hxy.symm⟩) h.1
    | tail _ hx' =>
      cases hy with
      | head => exact absurd (List.mem_map.mpr ⟨x, hx', hxy⟩) h.1
      | tail _ hy' => exact ih h.2 hx' hy'

theorem sum_map_le {α : Type} (l : List α) (f g : α → Nat) (h : ∀ x ∈ l, f x ≤ g x) : (l.map f).sum ≤ (l.map g).sum := by
  induction l with
  | nil => exact Nat.le_refl _
  | cons a t ih =>
    rw [List.map_cons, List.map_cons, List.sum_cons, List.sum_cons]
    have := h a List.mem_cons_self
    have := ih (fun x hx => h x (List.mem_cons_of_mem _ hx))
    omega

/-- queue.UnReserve for application `app` on one entry of queue.reservedApps -/
def decE (app : String) (e : String × Nat) : Option (String × Nat) :=
  if e.1 == app then (if e.2 ≤ 1 then none else some (e.1, e.2 - 1)) else some e

theorem lookup_cons_if (a k : String) (v : Nat) (t : List (String × Nat)) :
    List.lookup a ((k, v) :: t) = if (a == k) = true then some v else List.lookup a t := by
  rw [List.lookup_cons]; cases (a == k) <;> rfl

theorem lookup_mem {l : List (String × Nat)} (h : (l.map (·.1)).Nodup) {e : String × Nat} (he : e ∈ l) :
    l.lookup e.1 = some e.2 := by
  induction l with
  | nil => cases he
  | cons b t ih =>
    obtain ⟨k, v⟩ := b
    rw [List.map_cons, List.nodup_cons] at h
    rw [lookup_cons_if]
    cases he with
    | head => simp
    | tail _ he' =>
      have hne : ¬ (e.1 == k) = true := by
        intro hk
        have : e.1 = k := by simpa using hk
        exact h.1 (List.mem_map.mpr ⟨e, he', this⟩)
      rw [if_neg hne]
      exact ih h.2 he'

theorem lookup_none {l : List (String × Nat)} {app : String} (h : ∀ e ∈ l, e.1 ≠ app) : l.lookup app = none := by
  induction l with
  | nil => rfl
  | cons b t ih =>
    obtain ⟨k, v⟩ := b
    rw [lookup_cons_if]
    have hne : ¬ (app == k) = true := by
      intro hk
      have : app = k := by simpa using hk
      exact h (k, v) List.mem_cons_self this.symm
    rw [if_neg hne]
    exact ih (fun e he => h e (List.mem_cons_of_mem _ he))

theorem filterMap_decE_none {l : List (String × Nat)} {app : String} (h : ∀ e ∈ l, e.1 ≠ app) :
    l.filterMap (decE app) = l := by
  induction l with
  | nil => rfl
  | cons b t ih =>
    have hb : decE app b = some b := by
      unfold decE
      have : ¬ (b.1 == app) = true := by simpa using h b List.mem_cons_self
      rw [if_neg this]
    rw [List.filterMap_cons, hb]
    simp only
    rw [ih (fun e he => h e (List.mem_cons_of_mem _ he))]

theorem lookup_decE_ne (l : List (String × Nat)) {app id' : String} (hne : id' ≠ app) :
    (l.filterMap (decE app)).lookup id' = l.lookup id' := by
  induction l with
  | nil => rfl
  | cons b t ih =>
    obtain ⟨k, v⟩ := b
    rw [List.filterMap_cons, lookup_cons_if]
    by_cases hk : (k == app) = true
    · have hka : k = app := by simpa using hk
      have hnk : ¬ (id' == k) = true := by rw [hka]; simpa using hne
      rw [if_neg hnk]
      by_cases hv : v ≤ 1
      · have hb : decE app (k, v) = none := by unfold decE; simp only [hk, if_true]; rw [if_pos hv]
        rw [hb]; exact ih
      · have hb : decE app (k, v) = some (k, v - 1) := by unfold decE; simp only [hk, if_true]; rw [if_neg hv]
        rw [hb]
        show List.lookup id' ((k, v - 1) :: _) = _
        rw [lookup_cons_if, if_neg hnk]; exact ih
    · have hb : decE app (k, v) = some (k, v) := by unfold decE; rw [if_neg hk]
      rw [hb]
      show List.lookup id' ((k, v) :: _) = _
      rw [lookup_cons_if, ih]

theorem lookup_decE (l : List (String × Nat)) (app : String) (h : (l.map (·.1)).Nodup) :
    ((l.filterMap (decE app)).lookup app).getD 0 = (l.lookup app).getD 0 - 1 := by
  induction l with
  | nil => rfl
  | cons b t ih =>
    obtain ⟨k, v⟩ := b
    rw [List.map_cons, List.nodup_cons] at h
    rw [List.filterMap_cons, lookup_cons_if]
    by_cases hk : (k == app) = true
    · have hka : k = app := by simpa using hk
      have hak : (app == k) = true := by simpa using hka.symm
      have hnone : ∀ e ∈ t, e.1 ≠ app := by
        intro e he hea
        exact h.1 (List.mem_map.mpr ⟨e, he, hea.trans hka.symm⟩)
      rw [if_pos hak]
      by_cases hv : v ≤ 1
      · have hb : decE app (k, v) = none := by unfold decE; simp only [hk, if_true]; rw [if_pos hv]
        rw [hb]
        show (List.lookup app (List.filterMap (decE app) t)).getD 0 = _
        rw [filterMap_decE_none hnone, lookup_none hnone]
        simp only [Option.getD_none, Option.getD_some]; omega
      · have hb : decE app (k, v) = some (k, v - 1) := by unfold decE; simp only [hk, if_true]; rw [if_neg hv]
        rw [hb]
        show (List.lookup app ((k, v - 1) :: _)).getD 0 = _
        rw [lookup_cons_if, if_pos hak]
        simp
    · have hb : decE app (k, v) = some (k, v) := by unfold decE; rw [if_neg hk]
      have hnk : ¬ (app == k) = true := by
        intro h'; apply hk
        have : app = k := by simpa using h'
        simp [this]
      rw [hb]
      show (List.lookup app ((k, v) :: _)).getD 0 = _
      rw [lookup_cons_if, if_neg hnk, if_neg hnk]
      exact ih h.2

theorem keys_decE_sublist (l : List (String × Nat)) (app : String) :
    ((l.filterMap (decE app)).map (·.1)).Sublist (l.map (·.1)) := by
  induction l with
  | nil => exact List.Sublist.slnil
  | cons b t ih =>
    rw [List.filterMap_cons]
    cases hb : decE app b with
    | none => simp only [List.map_cons]; exact List.Sublist.cons _ ih
    | some c =>
      have hc : c.1 = b.1 := by
        unfold decE at hb
        split at hb
        · split at hb
          · cases hb
          · simp only [Option.some.injEq] at hb; rw [← hb]
        · simp only [Option.some.injEq] at hb; rw [hb]
      simp only [List.map_cons]
      rw [hc]
      exact List.Sublist.cons_cons _ ih

theorem mem_decE {l : List (String × Nat)} {app : String} {r : String × Nat} (h : r ∈ l.filterMap (decE app)) :
    ∃ e ∈ l, r.1 = e.1 ∧ (e.2 = 0 → r.2 = 0) := by
  obtain ⟨e, he, hd⟩ := List.mem_filterMap.mp h
  refine ⟨e, he, ?_⟩
  unfold decE at hd
  split at hd
  · split at hd
    · cases hd
    · rename_i hv
      simp only [Option.some.injEq] at hd
      rw [← hd]
      exact ⟨rfl, fun h0 => by omega⟩
  · simp only [Option.some.injEq] at hd
    rw [hd]; exact ⟨rfl, id⟩

theorem filter_key_self {l : List (String × String)} {key : String} (h : ∀ e ∈ l, e.1 ≠ key) :
    l.filter (·.1 != key) = l := by
  rw [List.filter_eq_self]
  intro e he
  simpa using h e he

theorem filter_key_length {l : List (String × String)} {key : String} (h : (l.map (·.1)).Nodup) {r : String × String}
    (hr : r ∈ l) (hk : r.1 = key) : (l.filter (·.1 != key)).length = l.length - 1 := by
  induction l with
  | nil => cases hr
  | cons b t ih =>
    rw [List.map_cons, List.nodup_cons] at h
    rw [List.filter_cons]
    cases hr with
    | head =>
      have hnone : ∀ e ∈ t, e.1 ≠ key := by
        intro e he hek
        exact h.1 (List.mem_map.mpr ⟨e, he, hek.trans hk.symm⟩)
      have : ¬ (r.1 != key) = true := by simp [hk]
      rw [if_neg this, filter_key_self hnone]
      simp
    | tail _ hr' =>
      have hb : (b.1 != key) = true := by
        have : b.1 ≠ key := by
          intro hbk
          exact h.1 (List.mem_map.mpr ⟨r, hr', hk.trans hbk.symm⟩)
        simpa using this
      rw [if_pos hb, List.length_cons, ih h.2 hr', List.length_cons]
      have := List.length_pos_of_mem hr'
      omega

/-! ### lookups after a map that keeps the key -/

theorem findNode_map {s t : Core} {g : CNode → CNode} (hg : ∀ n, (g n).id = n.id) (htn : t.nodes = s.nodes.map g)
    (x : String) : t.findNode x = (s.findNode x).map g := by
  unfold findNode
  rw [htn, List.find?_map]
  have : ((fun n : CNode => n.id == x) ∘ g) = fun n => n.id == x := by
    funext n; simp only [Function.comp, hg n]
  rw [this]

theorem findQueue_map {s t : Core} {g : CQueue → CQueue} (hg : ∀ q, (g q).path = q.path) (htq : t.queues = s.queues.map g)
    (x : String) : t.findQueue x = (s.findQueue x).map g := by
  unfold findQueue
  rw [htq, List.find?_map]
  have : ((fun q : CQueue => q.path == x) ∘ g) = fun q => q.path == x := by
    funext q; simp only [Function.comp, hg q]
  rw [this]

theorem findQueue_of_mem {s : Core} {q : CQueue} (hq : q ∈ s.queues) : ∃ q0, s.findQueue q.path = some q0 := by
  unfold findQueue
  cases hf : s.queues.find? (·.path == q.path) with
  | none =>
    have := List.find?_eq_none.mp hf q hq
    simp at this
  | some q0 => exact ⟨q0, rfl⟩

/-! ### the number of reservations of the live applications -/

def rcount (a : CApp) : Nat := if a.live = true then a.reservations.length else 0

theorem resvTotal_eq (s : Core) : resvTotal s = (s.apps.map rcount).sum := by
  unfold resvTotal liveApps
  induction s.apps with
  | nil => rfl
  | cons a t ih =>
    rw [List.filter_cons, List.map_cons, List.sum_cons]
    unfold rcount
    cases hl : a.live with
    | true => simp only [if_true, List.map_cons, List.sum_cons]; rw [ih]; rfl
    | false => simp only [Bool.false_eq_true, if_false]; rw [ih]; simp; rfl

theorem resvTotal_upd_le {s t : Core} {id : String} {f : CApp → CApp} (hta : t.apps = updApps s.apps id f)
    (h : ∀ x ∈ s.apps, (x.live && x.id == id) = true → rcount (f x) ≤ rcount x) : resvTotal t ≤ resvTotal s := by
  rw [resvTotal_eq, resvTotal_eq, hta]
  unfold updApps
  rw [List.map_map]
  apply sum_map_le
  intro x hx
  simp only [Function.comp]
  split
  · rename_i hc; exact h x hx hc
  · exact Nat.le_refl _

/-! ### the transport lemma -/

/-- a node update that keeps id and reservations -/
def NodeResSame (g : CNode → CNode) : Prop := ∀ n, (g n).id = n.id ∧ (g n).reservations = n.reservations

/-- a queue update that keeps path and reservation counts -/
def QueueResSame (g : CQueue → CQueue) : Prop := ∀ q, (g q).path = q.path ∧ (g q).reserved = q.reserved

theorem nodeResSame_id : NodeResSame (fun n => n) := fun _ => ⟨rfl, rfl⟩
theorem queueResSame_id : QueueResSame (fun q => q) := fun _ => ⟨rfl, rfl⟩

theorem nodeResSame_upd (id : String) (f : CNode → CNode) (hf : NodeResSame f) :
    NodeResSame (fun n => if (n.id == id) = true then f n else n) := by
  intro n; dsimp only; split
  · exact hf n
  · exact ⟨rfl, rfl⟩

theorem queueResSame_upd (chain : List String) (f : CQueue → CQueue) (hf : QueueResSame f) :
    QueueResSame (fun q => if chain.contains q.path = true then f q else q) := by
  intro q; dsimp only; split
  · exact hf q
  · exact ⟨rfl, rfl⟩

theorem queueResSame_comp (f g : CQueue → CQueue) (hf : QueueResSame f) (hg : QueueResSame g) :
    QueueResSame (fun q => g (f q)) := by
  intro q
  exact ⟨((hg (f q)).1).trans (hf q).1, ((hg (f q)).2).trans (hf q).2⟩

/-- what the new record `a'` of an application keeps of the old one `a`: identity, queue, reservations; every reserved
    ask is still there and outstanding (same key, same required node); and if `a'` is on its way out, `a` held no
    reservation -/
structure AppResKeep (a a' : CApp) : Prop where
  id : a'.id = a.id
  queue : a'.queue = a.queue
  resv : a'.reservations = a.reservations
  items : ∀ i ∈ a.items, i.outstanding = true → (∃ r ∈ a.reservations, r.1 = i.key) →
    ∃ j ∈ a'.items, j.key = i.key ∧ j.outstanding = true ∧ j.reqNode = i.reqNode
  quiet : (a'.live = false ∨ a'.state = "Failing" ∨ a'.state = "Completing" ∨ terminated a'.state = true) →
    a.reservations = []

theorem AppResKeep.refl {s : Core} (hr : ResInv s) {b : CApp} (hb : b ∈ s.apps) (hbl : b.live = true) : AppResKeep b b := by
  refine ⟨rfl, rfl, rfl, fun i hi ho _ => ⟨i, hi, rfl, ho, rfl⟩, ?_⟩
  intro h
  rcases h with h | h
  · rw [hbl] at h; cases h
  · exact hr.quiet b hb hbl h

/-- the live applications of `t` are the live applications of `s` up to `AppResKeep`; the ones that left held no
    reservation -/
structure ResSim (s t : Core) : Prop where
  back : ∀ b ∈ t.apps, b.live = true → ∃ b0 ∈ s.apps, b0.live = true ∧ AppResKeep b0 b
  forth : ∀ b0 ∈ s.apps, b0.live = true → b0.reservations ≠ [] → ∃ b ∈ t.apps, b.live = true ∧ AppResKeep b0 b
  total : resvTotal t ≤ resvTotal s

theorem res_of_sim {s t : Core} (hw : CoreWF s) (hr : ResInv s) (sim : ResSim s t)
    (gn : CNode → CNode) (hgn : NodeResSame gn) (htn : t.nodes = s.nodes.map gn)
    (gq : CQueue → CQueue) (hgq : QueueResSame gq) (htq : t.queues = s.queues.map gq)
    (hc : s.reservations ≤ t.reservations) : ResInv t := by
  have hfn : ∀ x, t.findNode x = (s.findNode x).map gn := findNode_map (fun n => (hgn n).1) htn
  have hfq : ∀ x, t.findQueue x = (s.findQueue x).map gq := findQueue_map (fun q => (hgq q).1) htq
  refine ⟨?_, ?_, ?_, ?_, ?_, ?_, ?_, ?_, ?_, ?_, ?_, ?_⟩
  · -- appNode
    intro b hb hbl r hrm
    obtain ⟨b0, hb0, hb0l, K⟩ := sim.back b hb hbl
    rw [K.resv] at hrm
    obtain ⟨n, hn, hk⟩ := hr.appNode b0 hb0 hb0l r hrm
    exact ⟨gn n, by rw [hfn, hn]; rfl, by rw [(hgn n).2]; exact hk⟩
  · -- outstanding
    intro b hb hbl r hrm
    obtain ⟨b0, hb0, hb0l, K⟩ := sim.back b hb hbl
    rw [K.resv] at hrm
    obtain ⟨i, hi, hik, hio⟩ := hr.outstanding b0 hb0 hb0l r hrm
    obtain ⟨j, hj, hjk, hjo, _⟩ := K.items i hi hio ⟨r, hrm, hik.symm⟩
    exact ⟨j, hj, hjk.trans hik, hjo⟩
  · -- onePerAsk
    intro b hb hbl
    obtain ⟨b0, hb0, hb0l, K⟩ := sim.back b hb hbl
    rw [K.resv]; exact hr.onePerAsk b0 hb0 hb0l
  · -- nodeApp
    intro n' hn' k hk
    rw [htn] at hn'
    obtain ⟨n, hn, rfl⟩ := List.mem_map.mp hn'
    rw [(hgn n).2] at hk
    obtain ⟨b0, hb0, hb0l, hm⟩ := hr.nodeApp n hn k hk
    obtain ⟨b, hb, hbl, K⟩ := sim.forth b0 hb0 hb0l (List.ne_nil_of_mem hm)
    exact ⟨b, hb, hbl, by rw [K.resv, (hgn n).1]; exact hm⟩
  · -- nodeKeys
    intro n' hn'
    rw [htn] at hn'
    obtain ⟨n, hn, rfl⟩ := List.mem_map.mp hn'
    rw [(hgn n).2]; exact hr.nodeKeys n hn
  · -- owner
    intro b hb c hc' hbl hcl r h1 h2
    obtain ⟨b0, hb0, hb0l, K⟩ := sim.back b hb hbl
    obtain ⟨c0, hc0, hc0l, K'⟩ := sim.back c hc' hcl
    rw [K.resv] at h1; rw [K'.resv] at h2
    rw [K.id, K'.id]; exact hr.owner b0 hb0 c0 hc0 hb0l hc0l r h1 h2
  · -- queueCount
    intro b hb hbl
    obtain ⟨b0, hb0, hb0l, K⟩ := sim.back b hb hbl
    have h0 := hr.queueCount b0 hb0 hb0l
    rw [hfq, K.queue, K.resv, K.id]
    cases hq : s.findQueue b0.queue with
    | none => rw [hq] at h0; exact h0
    | some q0 =>
      rw [hq] at h0
      show ∀ q ∈ t.queues, q.path = b0.queue → (q.reserved.lookup b0.id).getD 0 = b0.reservations.length
      intro q' hq' hp
      rw [htq] at hq'
      obtain ⟨q, hqm, rfl⟩ := List.mem_map.mp hq'
      rw [(hgq q).1] at hp
      rw [(hgq q).2]
      exact h0 q hqm hp
  · -- queueKeys
    intro q' hq'
    rw [htq] at hq'
    obtain ⟨q, hqm, rfl⟩ := List.mem_map.mp hq'
    rw [(hgq q).2]; exact hr.queueKeys q hqm
  · -- queueApp
    intro q' hq' r hrm
    rw [htq] at hq'
    obtain ⟨q, hqm, rfl⟩ := List.mem_map.mp hq'
    rw [(hgq q).2] at hrm
    rw [(hgq q).1]
    rcases hr.queueApp q hqm r hrm with h | ⟨b0, hb0, hb0l, hid, hqu⟩
    · exact Or.inl h
    · by_cases hne : b0.reservations = []
      · left
        have h0 := hr.queueCount b0 hb0 hb0l
        obtain ⟨q0, hq0⟩ := findQueue_of_mem hqm
        rw [hqu, hq0] at h0
        have h1 := h0 q hqm rfl
        rw [hid, lookup_mem (hr.queueKeys q hqm) hrm, hne] at h1
        simpa using h1
      · obtain ⟨b, hb, hbl, K⟩ := sim.forth b0 hb0 hb0l hne
        exact Or.inr ⟨b, hb, hbl, K.id.trans hid, K.queue.trans hqu⟩
  · -- counter
    exact Nat.le_trans sim.total (Nat.le_trans hr.counter hc)
  · -- nodeExcl
    intro n' hn'
    rw [htn] at hn'
    obtain ⟨n, hn, rfl⟩ := List.mem_map.mp hn'
    rw [(hgn n).2, (hgn n).1]
    rcases hr.nodeExcl n hn with h | h
    · exact Or.inl h
    · right
      intro k hk
      obtain ⟨b0, hb0, hb0l, hm, i, hi, hik, hin⟩ := h k hk
      obtain ⟨b, hb, hbl, K⟩ := sim.forth b0 hb0 hb0l (List.ne_nil_of_mem hm)
      obtain ⟨i', hi', hik', hio'⟩ := hr.outstanding b0 hb0 hb0l (k, n.id) hm
      have : i' = i := itemKeys_eq (hw.app hb0 hb0l).itemKeys hi' hi (hik'.trans hik.symm)
      subst this
      obtain ⟨j, hj, hjk, _, hjn⟩ := K.items i' hi' hio' ⟨(k, n.id), hm, hik.symm⟩
      exact ⟨b, hb, hbl, by rw [K.resv]; exact hm, j, hj, hjk.trans hik, hjn.trans hin⟩
  · -- quiet
    intro b hb hbl hst
    obtain ⟨b0, hb0, hb0l, K⟩ := sim.back b hb hbl
    rw [K.resv]; exact K.quiet (Or.inr hst)

/-- one live application `a` is replaced by `f a` -/
theorem resSim_upd {s t : Core} {id : String} {a : CApp} {f : CApp → CApp} (hw : CoreWF s) (hr : ResInv s)
    (ham : a ∈ s.apps) (hlv : a.live = true) (hid : a.id = id) (hta : t.apps = updApps s.apps id f)
    (hk : AppResKeep a (f a)) : ResSim s t := by
  have hmatch : (a.live && a.id == id) = true := by simp [hlv, hid]
  refine ⟨?_, ?_, ?_⟩
  · intro b hb hbl
    rw [hta] at hb
    rcases mem_updApps hw.appIds ham hlv hid hb with rfl | ⟨hbs, _⟩
    · exact ⟨a, ham, hlv, hk⟩
    · exact ⟨b, hbs, hbl, AppResKeep.refl hr hbs hbl⟩
  · intro b0 hb0 hb0l hne
    by_cases hc : (b0.live && b0.id == id) = true
    · have : b0 = a := (appIds_atMostOne id hw.appIds).eq hb0 ham hc hmatch
      subst this
      have hfl : (f b0).live = true := by
        cases h : (f b0).live with
        | true => rfl
        | false => exact absurd (hk.quiet (Or.inl h)) hne
      refine ⟨f b0, ?_, hfl, hk⟩
      rw [hta]
      exact List.mem_map.mpr ⟨b0, hb0, by rw [if_pos hc]⟩
    · refine ⟨b0, ?_, hb0l, AppResKeep.refl hr hb0 hb0l⟩
      rw [hta]
      exact List.mem_map.mpr ⟨b0, hb0, by rw [if_neg hc]⟩
  · apply resvTotal_upd_le hta
    intro x hx hc
    have : x = a := (appIds_atMostOne id hw.appIds).eq hx ham hc hmatch
    subst this
    unfold rcount
    rw [hlv]
    simp only [if_true]
    split
    · rw [hk.resv]; exact Nat.le_refl _
    · exact Nat.zero_le _

/-- The transport lemma: one live application is replaced by a record that keeps identity, queue and reservations and
    whose reserved asks are still outstanding; the nodes keep id and reservations, the queues path and reservation
    counts; the partition counter does not decrease. -/
theorem res_of_upd {s t : Core} {id : String} {a : CApp} {f : CApp → CApp} (hw : CoreWF s) (hr : ResInv s)
    (ham : a ∈ s.apps) (hlv : a.live = true) (hid : a.id = id) (hta : t.apps = updApps s.apps id f)
    (hk : AppResKeep a (f a))
    (gn : CNode → CNode) (hgn : NodeResSame gn) (htn : t.nodes = s.nodes.map gn)
    (gq : CQueue → CQueue) (hgq : QueueResSame gq) (htq : t.queues = s.queues.map gq)
    (hc : s.reservations ≤ t.reservations) : ResInv t :=
  res_of_sim hw hr (resSim_upd hw hr ham hlv hid hta hk) gn hgn htn gq hgq htq hc

/-! ### one reservation leaves the application, its node and its queue -/

/-- the reservation of ask `key` of application `app` on node `node` leaves the application, the node and the queue
    `queue` (unReserveInternal + queue.UnReserve; the partition counter stays as it is) -/
def dropResv (s : Core) (app key node queue : String) : Core :=
  { s with apps := updApps s.apps app (fun a => { a with reservations := a.reservations.filter (·.1 != key) }),
           nodes := updNs s.nodes node (fun n => { n with reservations := n.reservations.filter (· != key) }),
           queues := s.queues.map (fun q => if q.path == queue then { q with reserved := q.reserved.filterMap (decE app) } else q) }

theorem res_dropResv {s : Core} {app key : String} {a : CApp} {r : String × String} (hw : CoreWF s) (hr : ResInv s)
    (ham : a ∈ s.apps) (hlv : a.live = true) (hid : a.id = app) (hrm : r ∈ a.reservations) (hrk : r.1 = key) :
    ResInv (dropResv s app key r.2 a.queue) := by
  let fa : CApp → CApp := fun a => { a with reservations := a.reservations.filter (·.1 != key) }
  let gnode : CNode → CNode := fun n => if (n.id == r.2) = true then { n with reservations := n.reservations.filter (· != key) } else n
  let gqueue : CQueue → CQueue := fun q => if (q.path == a.queue) = true then { q with reserved := q.reserved.filterMap (decE app) } else q
  have hta : (dropResv s app key r.2 a.queue).apps = updApps s.apps app fa := rfl
  have htn : (dropResv s app key r.2 a.queue).nodes = s.nodes.map gnode := rfl
  have htq : (dropResv s app key r.2 a.queue).queues = s.queues.map gqueue := rfl
  have hgid : ∀ n, (gnode n).id = n.id := by intro n; show CNode.id (if _ then _ else _) = _; split <;> rfl
  have hgpath : ∀ q, (gqueue q).path = q.path := by intro q; show CQueue.path (if _ then _ else _) = _; split <;> rfl
  have hfn := findNode_map hgid htn
  have hfq := findQueue_map hgpath htq
  have hmatch : (a.live && a.id == app) = true := by simp [hlv, hid]
  have honly : ∀ x ∈ a.reservations, x.1 = key → x = r :=
    fun x hx hxk => nodup_map_eq (hr.onePerAsk a ham hlv) hx hrm (hxk.trans hrk.symm)
  have hfilt : ∀ x, x ∈ (fa a).reservations ↔ x ∈ a.reservations ∧ x.1 ≠ key := by
    intro x
    show x ∈ a.reservations.filter (·.1 != key) ↔ _
    rw [List.mem_filter]; simp
  -- node lists
  have hmemg : ∀ (n : CNode) (k : String), k ∈ n.reservations → (n.id = r.2 → k ≠ key) → k ∈ (gnode n).reservations := by
    intro n k hk hc
    show k ∈ CNode.reservations (if _ then _ else _)
    split
    · rename_i hd
      exact List.mem_filter.mpr ⟨hk, by simpa using hc (by simpa using hd)⟩
    · exact hk
  have hmemg' : ∀ (n : CNode) (k : String), k ∈ (gnode n).reservations → k ∈ n.reservations ∧ (n.id = r.2 → k ≠ key) := by
    intro n k hk
    have hk' : k ∈ (if (n.id == r.2) = true then { n with reservations := n.reservations.filter (· != key) } else n).reservations := hk
    split at hk'
    · obtain ⟨h1, h2⟩ := List.mem_filter.mp hk'
      exact ⟨h1, fun _ => by simpa using h2⟩
    · rename_i hd
      exact ⟨hk', fun h => absurd (by simpa using h) hd⟩
  -- applications
  have hin' : fa a ∈ (dropResv s app key r.2 a.queue).apps := by
    rw [hta]; exact List.mem_map.mpr ⟨a, ham, by rw [if_pos hmatch]⟩
  have hin : ∀ b ∈ s.apps, ¬ (b.live && b.id == app) = true → b ∈ (dropResv s app key r.2 a.queue).apps := by
    intro b hb hc
    rw [hta]; exact List.mem_map.mpr ⟨b, hb, by rw [if_neg hc]⟩
  have hback : ∀ b ∈ (dropResv s app key r.2 a.queue).apps, b = fa a ∨ (b ∈ s.apps ∧ ¬ (b.live && b.id == app) = true) := by
    intro b hb
    rw [hta] at hb
    exact mem_updApps hw.appIds ham hlv hid hb
  have hisa : ∀ b ∈ s.apps, (b.live && b.id == app) = true → b = a :=
    fun b hb hc => (appIds_atMostOne app hw.appIds).eq hb ham hc hmatch
  have horig : ∀ b ∈ (dropResv s app key r.2 a.queue).apps, b.live = true → ∃ b0 ∈ s.apps, b0.live = true ∧ b0.id = b.id ∧
      b0.queue = b.queue ∧ b0.items = b.items ∧ b0.state = b.state ∧ ∀ x ∈ b.reservations, x ∈ b0.reservations := by
    intro b hb hbl
    rcases hback b hb with rfl | ⟨hbs, _⟩
    · exact ⟨a, ham, hlv, rfl, rfl, rfl, rfl, fun x hx => ((hfilt x).mp hx).1⟩
    · exact ⟨b, hbs, hbl, rfl, rfl, rfl, rfl, fun x hx => hx⟩
  -- a reservation on node r.2 with the key belongs to `a`
  have hkeep : ∀ b0 ∈ s.apps, b0.live = true → ∀ (k : String) (n : CNode), (k, n.id) ∈ b0.reservations →
      (n.id = r.2 → k ≠ key) →
      ∃ b ∈ (dropResv s app key r.2 a.queue).apps, b.live = true ∧ (k, n.id) ∈ b.reservations ∧ b.items = b0.items := by
    intro b0 hb0 hb0l k n hm hc
    by_cases hd : (b0.live && b0.id == app) = true
    · have := hisa b0 hb0 hd
      subst this
      refine ⟨fa b0, hin', hlv, (hfilt _).mpr ⟨hm, ?_⟩, rfl⟩
      intro hk
      have := honly _ hm hk
      exact hc (by rw [← this]) hk
    · exact ⟨b0, hin b0 hb0 hd, hb0l, hm, rfl⟩
  refine ⟨?_, ?_, ?_, ?_, ?_, ?_, ?_, ?_, ?_, ?_, ?_, ?_⟩
  · -- appNode
    intro b hb hbl x hx
    rcases hback b hb with rfl | ⟨hbs, hnm⟩
    · obtain ⟨hxa, hxk⟩ := (hfilt x).mp hx
      obtain ⟨n, hn, hk⟩ := hr.appNode a ham hlv x hxa
      exact ⟨gnode n, by rw [hfn, hn]; rfl, hmemg n _ hk (fun _ => hxk)⟩
    · obtain ⟨n, hn, hk⟩ := hr.appNode b hbs hbl x hx
      refine ⟨gnode n, by rw [hfn, hn]; rfl, hmemg n _ hk ?_⟩
      intro hnid hxk
      have hxr : x = r := Prod.ext (hxk.trans hrk.symm) ((findNode_some hn).2.symm.trans hnid)
      have := hr.owner a ham b hbs hlv hbl r hrm (hxr ▸ hx)
      exact hnm (by simp [hbl, ← this, hid])
  · -- outstanding
    intro b hb hbl x hx
    obtain ⟨b0, hb0, hb0l, _, _, hit, _, hsub⟩ := horig b hb hbl
    rw [← hit]; exact hr.outstanding b0 hb0 hb0l x (hsub x hx)
  · -- onePerAsk
    intro b hb hbl
    rcases hback b hb with rfl | ⟨hbs, _⟩
    · exact List.Nodup.sublist (List.Sublist.map _ List.filter_sublist) (hr.onePerAsk a ham hlv)
    · exact hr.onePerAsk b hbs hbl
  · -- nodeApp
    intro n' hn' k hk
    rw [htn] at hn'
    obtain ⟨n, hn, rfl⟩ := List.mem_map.mp hn'
    obtain ⟨hk0, hc⟩ := hmemg' n k hk
    obtain ⟨b0, hb0, hb0l, hm⟩ := hr.nodeApp n hn k hk0
    obtain ⟨b, hb, hbl, hm', _⟩ := hkeep b0 hb0 hb0l k n hm hc
    exact ⟨b, hb, hbl, by rw [hgid]; exact hm'⟩
  · -- nodeKeys
    intro n' hn'
    rw [htn] at hn'
    obtain ⟨n, hn, rfl⟩ := List.mem_map.mp hn'
    show (CNode.reservations (if _ then _ else _)).Nodup
    split
    · exact List.Nodup.sublist List.filter_sublist (hr.nodeKeys n hn)
    · exact hr.nodeKeys n hn
  · -- owner
    intro b hb c hc hbl hcl x h1 h2
    obtain ⟨b0, hb0, hb0l, hbid, _, _, _, hbsub⟩ := horig b hb hbl
    obtain ⟨c0, hc0, hc0l, hcid, _, _, _, hcsub⟩ := horig c hc hcl
    rw [← hbid, ← hcid]
    exact hr.owner b0 hb0 c0 hc0 hb0l hc0l x (hbsub x h1) (hcsub x h2)
  · -- queueCount
    intro b hb hbl
    rcases hback b hb with rfl | ⟨hbs, hnm⟩
    · have h0 := hr.queueCount a ham hlv
      show match (dropResv s app key r.2 a.queue).findQueue a.queue with
        | none => (fa a).reservations = []
        | some _ => ∀ q ∈ (dropResv s app key r.2 a.queue).queues, q.path = a.queue →
            (q.reserved.lookup a.id).getD 0 = (fa a).reservations.length
      rw [hfq]
      cases hq : s.findQueue a.queue with
      | none =>
        rw [hq] at h0
        rw [h0] at hrm; cases hrm
      | some q0 =>
        rw [hq] at h0
        show ∀ q ∈ (dropResv s app key r.2 a.queue).queues, q.path = a.queue →
            (q.reserved.lookup a.id).getD 0 = (fa a).reservations.length
        intro q' hq' hp
        rw [htq] at hq'
        obtain ⟨q, hqm, rfl⟩ := List.mem_map.mp hq'
        rw [hgpath] at hp
        have hd : (q.path == a.queue) = true := by simpa using hp
        show ((if (q.path == a.queue) = true then { q with reserved := q.reserved.filterMap (decE app) } else q).reserved.lookup a.id).getD 0 = _
        rw [if_pos hd, hid]
        show ((q.reserved.filterMap (decE app)).lookup app).getD 0 = (a.reservations.filter (·.1 != key)).length
        rw [lookup_decE _ _ (hr.queueKeys q hqm), filter_key_length (hr.onePerAsk a ham hlv) hrm hrk, ← h0 q hqm hp, hid]
    · have h0 := hr.queueCount b hbs hbl
      have hne : b.id ≠ app := by
        intro h; exact hnm (by simp [hbl, h])
      rw [hfq]
      cases hq : s.findQueue b.queue with
      | none => rw [hq] at h0; exact h0
      | some q0 =>
        rw [hq] at h0
        show ∀ q ∈ (dropResv s app key r.2 a.queue).queues, q.path = b.queue →
            (q.reserved.lookup b.id).getD 0 = b.reservations.length
        intro q' hq' hp
        rw [htq] at hq'
        obtain ⟨q, hqm, rfl⟩ := List.mem_map.mp hq'
        rw [hgpath] at hp
        show ((if (q.path == a.queue) = true then { q with reserved := q.reserved.filterMap (decE app) } else q).reserved.lookup b.id).getD 0 = _
        split
        · show ((q.reserved.filterMap (decE app)).lookup b.id).getD 0 = _
          rw [lookup_decE_ne _ hne]; exact h0 q hqm hp
        · exact h0 q hqm hp
  · -- queueKeys
    intro q' hq'
    rw [htq] at hq'
    obtain ⟨q, hqm, rfl⟩ := List.mem_map.mp hq'
    show ((CQueue.reserved (if _ then _ else _)).map (·.1)).Nodup
    split
    · exact List.Nodup.sublist (keys_decE_sublist _ _) (hr.queueKeys q hqm)
    · exact hr.queueKeys q hqm
  · -- queueApp
    intro q' hq' x hx
    rw [htq] at hq'
    obtain ⟨q, hqm, rfl⟩ := List.mem_map.mp hq'
    rw [hgpath]
    have hx' : x ∈ (if (q.path == a.queue) = true then { q with reserved := q.reserved.filterMap (decE app) } else q).reserved := hx
    have he : ∃ e ∈ q.reserved, x.1 = e.1 ∧ (e.2 = 0 → x.2 = 0) := by
      split at hx'
      · exact mem_decE hx'
      · exact ⟨x, hx', rfl, id⟩
    obtain ⟨e, hem, hxe, hz⟩ := he
    rcases hr.queueApp q hqm e hem with h | ⟨b0, hb0, hb0l, hbid, hbq⟩
    · exact Or.inl (hz h)
    · right
      by_cases hd : (b0.live && b0.id == app) = true
      · have := hisa b0 hb0 hd
        subst this
        exact ⟨fa b0, hin', hlv, hbid.trans hxe.symm, hbq⟩
      · exact ⟨b0, hin b0 hb0 hd, hb0l, hbid.trans hxe.symm, hbq⟩
  · -- counter
    refine Nat.le_trans (resvTotal_upd_le hta ?_) hr.counter
    intro x hx hc
    unfold rcount
    show (if x.live = true then (x.reservations.filter (·.1 != key)).length else 0) ≤ _
    split
    · exact List.length_filter_le _ _
    · exact Nat.le_refl _
  · -- nodeExcl
    intro n' hn'
    rw [htn] at hn'
    obtain ⟨n, hn, rfl⟩ := List.mem_map.mp hn'
    rw [hgid]
    rcases hr.nodeExcl n hn with h | h
    · left
      refine Nat.le_trans ?_ h
      show (CNode.reservations (if _ then _ else _)).length ≤ _
      split
      · exact List.length_filter_le _ _
      · exact Nat.le_refl _
    · right
      intro k hk
      obtain ⟨hk0, hc⟩ := hmemg' n k hk
      obtain ⟨b0, hb0, hb0l, hm, hitem⟩ := h k hk0
      obtain ⟨b, hb, hbl, hm', hit⟩ := hkeep b0 hb0 hb0l k n hm hc
      exact ⟨b, hb, hbl, hm', by rw [hit]; exact hitem⟩
  · -- quiet
    intro b hb hbl hst
    obtain ⟨b0, hb0, hb0l, _, _, _, hs, hsub⟩ := horig b hb hbl
    have h0 := hr.quiet b0 hb0 hb0l (by rw [hs]; exact hst)
    rw [List.eq_nil_iff_forall_not_mem]
    intro x hx
    have := hsub x hx
    rw [h0] at this; cases this

/-! ### the state machine -/

theorem complete_failing (st : String) (h : fireState st .complete = "Failing") : st = "Failing" := by
  refine fireState_ind (fun s t => t = "Failing" → s = "Failing") .complete st ?_ ?_ h
  · intro _ hc; exact hc
  · intro a; cases a <;> decide

theorem run_failing (st : String) (h : fireState st .run = "Failing") : st = "Failing" := by
  refine fireState_ind (fun s t => t = "Failing" → s = "Failing") .run st ?_ ?_ h
  · intro _ hc; exact hc
  · intro a; cases a <;> decide

/-- what a state that is reached from `st` by one of the events of a release says about `st` -/
structure StepFrom (st st' : String) : Prop where
  failing : st' = "Failing" → st = "Failing"
  term : terminated st' = true → terminated st = false → st = "Failing" ∨ st = "Completing"

theorem StepFrom.same (st : String) : StepFrom st st :=
  ⟨id, fun h h' => by rw [h'] at h; cases h⟩

theorem StepFrom.ofFailing {st st' : String} (h : st = "Failing") : StepFrom st st' :=
  ⟨fun _ => h, fun _ _ => Or.inl h⟩

theorem StepFrom.run (st : String) : StepFrom st (fireState st .run) :=
  ⟨run_failing st, fun h h' => by rw [run_terminated st h] at h'; cases h'⟩

theorem StepFrom.complete (st : String) : StepFrom st (fireState st .complete) :=
  ⟨complete_failing st, fun h h' => by
    rcases complete_terminated st h with e | e
    · exact Or.inr e
    · rw [e] at h'; cases h'⟩

theorem relSt_from (tt : TermType) (i : CItem) (a : CApp) : StepFrom a.state (relSt tt i a) := by
  by_cases hF : a.state = "Failing"
  · exact StepFrom.ofFailing hF
  · have hF' : (a.state == "Failing") = false := by simpa using hF
    unfold relSt
    split
    · split
      · simp only [hF', Bool.false_eq_true, if_false]
        split
        · exact StepFrom.run _
        · exact StepFrom.complete _
      · exact StepFrom.same _
    · split
      · simp only [hF', Bool.false_eq_true, if_false]
        exact StepFrom.complete _
      · exact StepFrom.same _

/-! ### `relAppT` and `askAppT` -/

theorem relAppT_reservations (tt : TermType) (key : String) (i : CItem) (a : CApp) :
    (relAppT tt key i a).reservations = a.reservations := by
  unfold relAppT; cases i.ph <;> simp

theorem askAppT_reservations (key : String) (x : CItem) (a : CApp) :
    (askAppT key x a).reservations = a.reservations.filter (·.1 != key) := by
  unfold askAppT; simp

theorem outstanding_inReq {i : CItem} (h : i.outstanding = true) : i.inReq = true ∧ i.allocated = false := by
  unfold CItem.outstanding at h
  simp only [Bool.and_eq_true, Bool.not_eq_true'] at h
  exact h

/-- an application whose pending total is zero holds no reservation -/
theorem no_resv_of_zero {s : Core} (hr : ResInv s) {a : CApp} (ham : a ∈ s.apps) (hlv : a.live = true)
    (hno : ∀ i ∈ a.items, i.outstanding = false) : a.reservations = [] := by
  rw [List.eq_nil_iff_forall_not_mem]
  intro r hrm
  obtain ⟨i, hi, _, hio⟩ := hr.outstanding a ham hlv r hrm
  rw [hno i hi] at hio; cases hio

/-- the bound allocation `i` (key `key`) leaves application.allocations -/
theorem keep_relAppT {s : Core} (hr : ResInv s) {a : CApp} (ham : a ∈ s.apps) (hlv : a.live = true) (hwa : AppWF a)
    (hbk : AppBooks a) (hpos : ∀ i ∈ a.items, PosRes i.res) (hnt : terminated a.state = false)
    (tt : TermType) {key : String} {i : CItem} (him : i ∈ a.items) (hkey : i.key = key) (hbd : i.bound = true) :
    AppResKeep a (relAppT tt key i a) := by
  have hq := hr.quiet a ham hlv
  have hfrom := relSt_from tt i a
  refine ⟨relAppT_id tt key i a, relAppT_queue tt key i a, relAppT_reservations tt key i a, ?_, ?_⟩
  · intro j hj hjo _
    obtain ⟨hjr, hja⟩ := outstanding_inReq hjo
    have hne : j.key ≠ key := by
      intro hk
      have : j = i := itemKeys_eq hwa.itemKeys hj him (hk.trans hkey.symm)
      rw [this, hwa.boundAllocated i him hbd] at hja; cases hja
    refine ⟨j, ?_, rfl, hjo, rfl⟩
    rw [relAppT_items]
    exact List.mem_filter.mpr ⟨mem_updItem_of_ne hj hne, by simp [hjr]⟩
  · intro h
    have hterm : terminated (relSt tt i a) = true → a.reservations = [] := by
      intro ht
      rcases hfrom.term ht hnt with e | e
      · exact hq (Or.inl e)
      · exact hq (Or.inr (Or.inl e))
    rcases h with h | h | h | h
    · rw [relAppT_live] at h
      exact hterm (by simpa using h)
    · rw [relAppT_state] at h
      exact hq (Or.inl (hfrom.failing h))
    · rcases relAppT_completing tt key i a h with e | ⟨e, _⟩
      · exact hq (Or.inr (Or.inl e))
      · rw [relAppT_pending] at e
        exact no_resv_of_zero hr ham hlv ((hbk.none_of_zero hwa hpos).2.2 e)
    · rw [relAppT_state] at h
      exact hterm h

/-- the ask `x` (key `key`) leaves application.requests; the application holds no reservation for it (any more) -/
theorem keep_askAppT {s : Core} (hr : ResInv s) {a : CApp} (ham : a ∈ s.apps) (hlv : a.live = true) (hwa : AppWF a)
    (hbk : AppBooks a) (hpos : ∀ i ∈ a.items, PosRes i.res)
    {key : String} {x : CItem} (hxm : x ∈ a.items) (hxk : x.key = key) (hxreq : x.inReq = true)
    (hnokey : ∀ r ∈ a.reservations, r.1 ≠ key) : AppResKeep a (askAppT key x a) := by
  have hq := hr.quiet a ham hlv
  have hitems : ∀ j ∈ a.items, j.outstanding = true → (∃ r ∈ a.reservations, r.1 = j.key) →
      ∃ j' ∈ (askAppT key x a).items, j'.key = j.key ∧ j'.outstanding = true ∧ j'.reqNode = j.reqNode := by
    intro j hj hjo hres
    obtain ⟨r, hrm, hrk⟩ := hres
    obtain ⟨hjr, _⟩ := outstanding_inReq hjo
    have hne : j.key ≠ key := fun hk => hnokey r hrm (hrk.trans hk)
    refine ⟨j, ?_, rfl, hjo, rfl⟩
    rw [askAppT_items]
    exact List.mem_filter.mpr ⟨mem_updItem_of_ne hj hne, by simp [hjr]⟩
  refine ⟨askAppT_id key x a, askAppT_queue key x a, ?_, hitems, ?_⟩
  · rw [askAppT_reservations]; exact filter_key_self hnokey
  · intro h
    have hb' := appBooks_askAppT key x a hbk hwa hxm hxk hxreq
    have hw' := appWF_askAppT key x a hwa
    have hpos' : ∀ y ∈ (askAppT key x a).items, PosRes y.res := by
      intro y hy
      obtain ⟨z, hz, hr', _⟩ := LifeB.mem_askItems' hy
      rw [hr']; exact hpos z hz
    rcases askAppT_state key x a with e | ⟨_, hz, _, _⟩
    · rw [e] at h
      rcases h with h | h
      · rw [askAppT_live, hlv] at h; cases h
      · exact hq h
    · have hno := (hb'.none_of_zero hw' hpos').2.2 hz
      rw [List.eq_nil_iff_forall_not_mem]
      intro r hrm
      obtain ⟨j, hj, hjk, hjo⟩ := hr.outstanding a ham hlv r hrm
      obtain ⟨j', hj', _, hjo', _⟩ := hitems j hj hjo ⟨r, hrm, hjk.symm⟩
      rw [hno j' hj'] at hjo'; cases hjo'

/-! ### `relBoundT` -/

theorem nodeRm_resSame (key : String) (r : Res) : NodeResSame (nodeRm key r) := fun _ => ⟨rfl, rfl⟩

theorem relQT_resSame (i : CItem) (a' : CApp) (b : Bool) : QueueResSame (relQT i a' b) := by
  intro q
  unfold relQT qLeave qDecPreempting qDecAlloc
  cases a'.live <;> cases b <;> cases i.preempted <;> cases strictlyGreaterThanZero (some i.res) <;> exact ⟨rfl, rfl⟩

theorem res_relBoundT (s : Core) (tt : TermType) (app key : String) (a : CApp) (i : CItem) (hw : CoreWF s) (hb : Books s)
    (hl : LifeInv s) (hr : ResInv s) (hfind : s.findApp app = some a) (hitem : a.items.find? (·.key == key) = some i) :
    ResInv (relBoundT s tt app key a i) := by
  cases hbd : i.bound with
  | false => rw [relBoundT_unbound _ _ _ _ _ _ hbd]; exact hr
  | true =>
    obtain ⟨ham, hlv, hid⟩ := findApp_some hfind
    obtain ⟨him, hkey⟩ := find_key_some hitem
    obtain ⟨hta, htn, htq⟩ := relBoundT_lists' s tt app key a i hbd
    have hc : (relBoundT s tt app key a i).reservations = s.reservations := by
      unfold relBoundT
      simp only [hbd, if_true]
      cases (s.findNode i.node).isSome <;> rfl
    have hk := keep_relAppT hr ham hlv (hw.app ham hlv) (hb.apps a ham hlv) (hl.pos a ham hlv) (hl.termGone a ham hlv) tt him hkey hbd
    cases hsome : (s.findNode i.node).isSome with
    | true =>
      rw [hsome] at htn
      simp only [if_true] at htn
      exact res_of_upd hw hr ham hlv hid hta hk _ (nodeResSame_upd i.node _ (nodeRm_resSame key i.res)) htn
        _ (queueResSame_upd _ _ (relQT_resSame i _ _)) htq (Nat.le_of_eq hc.symm)
    | false =>
      rw [hsome] at htn
      simp only [Bool.false_eq_true, if_false] at htn
      exact res_of_upd hw hr ham hlv hid hta hk _ nodeResSame_id (by rw [htn]; simp)
        _ (queueResSame_upd _ _ (relQT_resSame i _ _)) htq (Nat.le_of_eq hc.symm)

/-! ### `askRemoveT` -/

theorem updApps_comp (apps : List CApp) (id : String) (f g : CApp → CApp)
    (hf : ∀ x, (x.live && x.id == id) = true → ((f x).live && (f x).id == id) = true) :
    updApps (updApps apps id f) id g = updApps apps id (fun a => g (f a)) := by
  unfold updApps
  rw [List.map_map]
  apply List.map_congr_left
  intro y _
  by_cases hc : (y.live && y.id == id) = true
  · simp only [Function.comp, if_pos hc, if_pos (hf y hc)]
  · simp only [Function.comp, if_neg hc]

theorem askAppT_dropped (key : String) (x : CItem) (a : CApp) :
    askAppT key x { a with reservations := a.reservations.filter (·.1 != key) } = askAppT key x a := by
  unfold askAppT
  simp only [List.filter_filter, Bool.and_self]

theorem askRemoveT_lists_none (s1 : Core) (app key : String) (chain : List String) (a1 : CApp) (x : CItem)
    (hfind : s1.findApp app = some a1) (hitem : a1.items.find? (fun x => x.key == key && x.inReq) = some x)
    (hres : a1.reservations.find? (·.1 == key) = none) :
    (askRemoveT s1 app key chain).apps = updApps s1.apps app (askAppT key x) ∧
    (askRemoveT s1 app key chain).nodes = s1.nodes ∧
    (askRemoveT s1 app key chain).queues = updQs s1.queues chain (fun q => if x.allocated = true then q else qDecPend x.res q) ∧
    (askRemoveT s1 app key chain).reservations = s1.reservations := by
  unfold askRemoveT
  simp only [hfind, hitem, hres]
  cases x.allocated with
  | true => exact ⟨rfl, rfl, (updQs_id _ _).symm, rfl⟩
  | false => exact ⟨rfl, rfl, rfl, rfl⟩

theorem askRemoveT_lists_resv (s1 : Core) (app key : String) (chain : List String) (a1 : CApp) (x : CItem) (r : String × String)
    (hfind : s1.findApp app = some a1) (hitem : a1.items.find? (fun x => x.key == key && x.inReq) = some x)
    (hres : a1.reservations.find? (·.1 == key) = some r) :
    (askRemoveT s1 app key chain).apps = updApps s1.apps app (askAppT key x) ∧
    (askRemoveT s1 app key chain).nodes =
      updNs s1.nodes r.2 (fun n => { n with reservations := n.reservations.filter (· != key) }) ∧
    (askRemoveT s1 app key chain).queues =
      (updQs s1.queues chain (fun q => if x.allocated = true then q else qDecPend x.res q)).map
        (fun q => if q.path == a1.queue then { q with reserved := q.reserved.filterMap (decE app) } else q) ∧
    (askRemoveT s1 app key chain).reservations = s1.reservations := by
  unfold askRemoveT
  simp only [hfind, hitem, hres]
  cases x.allocated with
  | true =>
    refine ⟨rfl, rfl, ?_, rfl⟩
    have e : (updQs s1.queues chain fun q => if true = true then q else qDecPend x.res q) = s1.queues := updQs_id _ _
    rw [e]; rfl
  | false => exact ⟨rfl, rfl, rfl, rfl⟩

/-- an update of the queues on a chain and an update of the queues with a given path commute when the two functions do -/
theorem upd_comm (chain : List String) (queue : String) (f g : CQueue → CQueue) (hf : ∀ q, (f q).path = q.path)
    (hg : ∀ q, (g q).path = q.path) (hfg : ∀ q, g (f q) = f (g q)) (q : CQueue) :
    (fun q : CQueue => if (q.path == queue) = true then g q else q)
        ((fun q : CQueue => if chain.contains q.path = true then f q else q) q) =
      (fun q : CQueue => if chain.contains q.path = true then f q else q)
        ((fun q : CQueue => if (q.path == queue) = true then g q else q) q) := by
  dsimp only
  by_cases h1 : chain.contains q.path = true <;> by_cases h2 : (q.path == queue) = true
  · rw [if_pos h1, if_pos h2, hf, hg, if_pos h2, if_pos h1, hfg]
  · rw [if_pos h1, if_neg h2, hf, if_neg h2, if_pos h1]
  · rw [if_neg h1, if_pos h2, hg, if_neg h1]
  · rw [if_neg h1, if_neg h2, if_neg h1]

theorem res_askRemoveT (s1 : Core) (app key : String) (chain : List String) (hw : CoreWF s1)
    (hba : ∀ b ∈ s1.apps, b.live = true → AppBooks b) (hpos : ∀ b ∈ s1.apps, b.live = true → ∀ i ∈ b.items, PosRes i.res)
    (hr : ResInv s1) : ResInv (askRemoveT s1 app key chain) := by
  cases hfind : s1.findApp app with
  | none => unfold askRemoveT; simp only [hfind]; exact hr
  | some a1 =>
    cases hitem : a1.items.find? (fun x => x.key == key && x.inReq) with
    | none => unfold askRemoveT; simp only [hfind, hitem]; exact hr
    | some x =>
      obtain ⟨ham, hlv, hid⟩ := findApp_some hfind
      have hxm : x ∈ a1.items := List.mem_of_find?_eq_some hitem
      have hxp := List.find?_some hitem
      simp only [Bool.and_eq_true, beq_iff_eq] at hxp
      obtain ⟨hxk, hxreq⟩ := hxp
      have hwa := hw.app ham hlv
      have hbk := hba a1 ham hlv
      have hqs : QueueResSame (fun q => if chain.contains q.path = true then (if x.allocated = true then q else qDecPend x.res q) else q) := by
        apply queueResSame_upd
        intro q; split <;> exact ⟨rfl, rfl⟩
      cases hres : a1.reservations.find? (·.1 == key) with
      | none =>
        obtain ⟨hta, htn, htq, hc⟩ := askRemoveT_lists_none s1 app key chain a1 x hfind hitem hres
        have hnokey : ∀ r ∈ a1.reservations, r.1 ≠ key := by
          intro r hrm
          have := List.find?_eq_none.mp hres r hrm
          simpa using this
        exact res_of_upd hw hr ham hlv hid hta
          (keep_askAppT hr ham hlv hwa hbk (hpos a1 ham hlv) hxm hxk hxreq hnokey)
          _ nodeResSame_id (by rw [htn]; simp) _ hqs htq (Nat.le_of_eq hc.symm)
      | some r =>
        obtain ⟨hta, htn, htq, hc⟩ := askRemoveT_lists_resv s1 app key chain a1 x r hfind hitem hres
        have hrm : r ∈ a1.reservations := List.mem_of_find?_eq_some hres
        have hrk : r.1 = key := by simpa using List.find?_some hres
        -- first the reservation leaves the three views …
        have hr' : ResInv (dropResv s1 app key r.2 a1.queue) := res_dropResv hw hr ham hlv hid hrm hrk
        have hw' : CoreWF (dropResv s1 app key r.2 a1.queue) := by
          refine wf_irrel (s := s1) _ _ _ (appIrrel_upd app (fun a => { a with reservations := a.reservations.filter (·.1 != key) })
            (fun a => ⟨rfl, rfl, rfl, rfl, rfl, rfl, fun x => x, fun _ => ⟨rfl, rfl, rfl, rfl, rfl, rfl⟩, by simp⟩)) ?_
            (nodeIrrel_upd r.2 (fun n => { n with reservations := n.reservations.filter (· != key) })
              (fun _ => ⟨rfl, rfl, rfl, rfl, rfl, rfl⟩)) rfl rfl rfl hw
          intro q; split <;> exact ⟨rfl, rfl, rfl⟩
        have hmatch : (a1.live && a1.id == app) = true := by simp [hlv, hid]
        have ham' : ({ a1 with reservations := a1.reservations.filter (·.1 != key) } : CApp) ∈ (dropResv s1 app key r.2 a1.queue).apps :=
          List.mem_map.mpr ⟨a1, ham, by rw [if_pos hmatch]⟩
        have hnokey : ∀ r' ∈ ({ a1 with reservations := a1.reservations.filter (·.1 != key) } : CApp).reservations, r'.1 ≠ key := by
          intro r' hr'm
          have := (List.mem_filter.mp hr'm).2
          simpa using this
        have hk := keep_askAppT (s := dropResv s1 app key r.2 a1.queue) (key := key) (x := x) hr' ham' hlv
          (AppWF.congr (a := a1) rfl rfl rfl rfl hwa) (AppBooks.congr (a := a1) rfl rfl rfl rfl hbk) (hpos a1 ham hlv) hxm hxk hxreq hnokey
        -- … then the ask leaves the application
        have hta' : (askRemoveT s1 app key chain).apps = updApps (dropResv s1 app key r.2 a1.queue).apps app (askAppT key x) := by
          rw [hta]
          show _ = updApps (updApps s1.apps app _) app _
          rw [updApps_comp s1.apps app (fun a => { a with reservations := a.reservations.filter (·.1 != key) })
            (askAppT key x) (fun y hy => hy)]
          unfold updApps
          apply List.map_congr_left
          intro y _
          split
          · exact (askAppT_dropped key x y).symm
          · rfl
        have htq' : (askRemoveT s1 app key chain).queues = (dropResv s1 app key r.2 a1.queue).queues.map
            (fun q => if chain.contains q.path = true then (if x.allocated = true then q else qDecPend x.res q) else q) := by
          rw [htq]
          show _ = (s1.queues.map _).map _
          unfold updQs
          rw [List.map_map, List.map_map]
          apply List.map_congr_left
          intro q _
          simp only [Function.comp]
          exact upd_comm chain a1.queue (fun q => if x.allocated = true then q else qDecPend x.res q)
            (fun q => { q with reserved := q.reserved.filterMap (decE app) })
            (fun q => by split <;> rfl) (fun _ => rfl) (fun q => by cases x.allocated <;> rfl) q
        exact res_of_upd hw' hr' ham' hlv hid hta' hk _ nodeResSame_id (by rw [htn]; simp [dropResv]) _ hqs htq'
          (Nat.le_of_eq hc.symm)

/-! ### `swapStart` -/

theorem swapStart_reservations (s s' : Core) (app realKey phKey node : String)
    (h : s.swapStart app realKey phKey node = some s') : s'.reservations = s.reservations := by
  unfold swapStart at h
  split at h
  · cases h
  · split at h
    · rename_i r p _ _
      dsimp only at h
      split at h
      · cases h
      · simp only [Option.some.injEq] at h
        subst h
        cases (p.node != node) <;> rfl
    · cases h

theorem swapStartNode_resSame (app realKey : String) (r : CItem) : NodeResSame (swapStartNode app realKey r) :=
  fun _ => ⟨rfl, rfl⟩

theorem qDecPend_resSame (r : Res) : QueueResSame (qDecPend r) := fun _ => ⟨rfl, rfl⟩

theorem keep_swapStartApp {s : Core} (hr : ResInv s) {a : CApp} (ham : a ∈ s.apps) (hlv : a.live = true)
    (realKey phKey node : String) (r : CItem) (hnr : ∀ r0 ∈ a.reservations, r0.1 ≠ realKey) :
    AppResKeep a (swapStartApp realKey phKey node r a) := by
  refine ⟨rfl, rfl, rfl, ?_, ?_⟩
  · intro j hj hjo hres
    obtain ⟨r0, hr0, hr0k⟩ := hres
    have hne : ¬ (j.key == realKey) = true := by
      have : j.key ≠ realKey := fun hk => hnr r0 hr0 (hr0k.trans hk)
      simpa using this
    rw [swapStartApp_items]
    refine ⟨_, List.mem_map.mpr ⟨j, hj, rfl⟩, ?_⟩
    dsimp only
    rw [if_neg hne]
    split
    · exact ⟨rfl, hjo, rfl⟩
    · exact ⟨rfl, hjo, rfl⟩
  · intro h
    rcases h with h | h
    · have : (swapStartApp realKey phKey node r a).live = a.live := rfl
      rw [this, hlv] at h; cases h
    · exact hr.quiet a ham hlv h

/-! ### `replApp` and the main path of `swapConfirm` -/

theorem replApp_reservations (p r : CItem) (a : CApp) : (replApp p r a).reservations = a.reservations := by
  unfold replApp; simp

theorem replSt1_from (p : CItem) (a : CApp) : StepFrom a.state (replSt1 p a) := by
  by_cases hF : a.state = "Failing"
  · exact StepFrom.ofFailing hF
  · have hF' : (a.state == "Failing") = false := by simpa using hF
    unfold replSt1
    split
    · simp only [hF', Bool.false_eq_true, if_false]
      exact StepFrom.run _
    · exact StepFrom.same _

theorem keep_replApp {s : Core} (hr : ResInv s) {a : CApp} (ham : a ∈ s.apps) (hlv : a.live = true) (hwa : AppWF a)
    (hnt : terminated a.state = false) {p r : CItem} (hok : ReplOK a p r) : AppResKeep a (replApp p r a) := by
  have hq := hr.quiet a ham hlv
  have hfrom := replSt1_from p a
  refine ⟨replApp_id p r a, replApp_queue p r a, replApp_reservations p r a, ?_, ?_⟩
  · intro j hj hjo _
    obtain ⟨hjr, hja⟩ := outstanding_inReq hjo
    have hnp : j.key ≠ p.key := by
      intro hk
      have : j = p := itemKeys_eq hwa.itemKeys hj hok.pIn hk
      rw [this, hwa.boundAllocated p hok.pIn hok.pBound] at hja; cases hja
    have hnr : j.key ≠ r.key := by
      intro hk
      rcases hok.rIn with ⟨hrm, _⟩ | ⟨hnone, _⟩
      · have : j = r := itemKeys_eq hwa.itemKeys hj hrm hk
        rw [this, hok.rAllocated] at hja; cases hja
      · exact hnone j hj hk
    have h0 : j ∈ replItems0 p r a.items := by
      unfold replItems0
      exact List.mem_filter.mpr ⟨mem_updItem_of_ne (mem_updItem_of_ne hj hnp) hnr, by simp [hjr]⟩
    refine ⟨j, ?_, rfl, hjo, rfl⟩
    rw [replApp_items]
    unfold replItems
    split
    · exact h0
    · exact List.mem_append_left _ h0
  · intro h
    have hterm : terminated (replSt1 p a) = true → a.reservations = [] := by
      intro ht
      rcases hfrom.term ht hnt with e | e
      · exact hq (Or.inl e)
      · exact hq (Or.inr (Or.inl e))
    rcases h with h | h | h | h
    · rw [replApp_live] at h
      exact hterm (by simpa using h)
    · rw [replApp_state] at h
      split at h
      · exact hq (Or.inl (hfrom.failing (run_failing _ h)))
      · exact hq (Or.inl (hfrom.failing h))
    · exact absurd h (replApp_ne_completing p r a)
    · exact hterm (replApp_terminated p r a h)

theorem nodeSwap_resSame (app : String) (p r : CItem) : NodeResSame (nodeSwap app p r) := fun _ => ⟨rfl, rfl⟩

theorem swapQ0_reserved (p r : CItem) (b : Bool) (q : CQueue) : (swapQ0 p r b q).reserved = q.reserved := by
  unfold swapQ0 qDecPreempting qDecAlloc
  dsimp only
  split <;> (try split) <;> rfl

theorem swapQ_resSame (p r : CItem) (a' : CApp) (b : Bool) : QueueResSame (swapQ p r a' b) := by
  intro q
  rw [swapQ_eq]
  split
  · exact ⟨swapQ0_path p r b q, swapQ0_reserved p r b q⟩
  · exact ⟨swapQ0_path p r b q, swapQ0_reserved p r b q⟩

theorem res_swapMain (s : Core) (app phKey : String) (a : CApp) (p r : CItem) (hw : CoreWF s) (hl : LifeInv s) (hr : ResInv s)
    (hok : SwapOK s app phKey) (hc : SwapCase s app phKey a p r) : ResInv (swapMain s app phKey a p r) := by
  obtain ⟨ham, hlv, hid⟩ := findApp_some hc.app
  obtain ⟨hta, htn, htq⟩ := swapMain_lists s app phKey a p r
  have hcnt : (swapMain s app phKey a p r).reservations = s.reservations := by
    unfold swapMain
    cases (r.node == p.node) <;> rfl
  have hk := keep_replApp hr ham hlv (hw.app ham hlv) (hl.termGone a ham hlv) (hok.repl a p r hc)
  refine res_of_upd hw hr ham hlv hid hta hk _ (nodeResSame_upd p.node _ ?_) htn
    _ (queueResSame_upd _ _ (swapQ_resSame p r _ _)) htq (Nat.le_of_eq hcnt.symm)
  split
  · exact nodeSwap_resSame app p r
  · exact nodeRm_resSame phKey p.res

/-! ### the old `releaseKey` (YkModel/CoreOps.lean): `rel1` then `rel2` -/

/-- the queue list `l'` is `l` mapped by a function that keeps path and reservation counts -/
def QSame (l l' : List CQueue) : Prop := ∃ gq, QueueResSame gq ∧ l' = l.map gq

theorem QSame.refl (l : List CQueue) : QSame l l := ⟨fun q => q, queueResSame_id, by simp⟩

theorem QSame.upd (l : List CQueue) (chain : List String) (f : CQueue → CQueue) (hf : QueueResSame f) :
    QSame l (updQs l chain f) := ⟨_, queueResSame_upd chain f hf, rfl⟩

theorem QSame.trans {l1 l2 l3 : List CQueue} (h1 : QSame l1 l2) (h2 : QSame l2 l3) : QSame l1 l3 := by
  obtain ⟨g1, hg1, e1⟩ := h1
  obtain ⟨g2, hg2, e2⟩ := h2
  exact ⟨fun q => g2 (g1 q), queueResSame_comp g1 g2 hg1 hg2, by rw [e2, e1, List.map_map]; rfl⟩

theorem relQ1_resSame (i : CItem) : QueueResSame (relQ1 i) := fun _ => ⟨rfl, rfl⟩
theorem relQ2_resSame (a' : CApp) : QueueResSame (relQ2 a') := fun _ => ⟨rfl, rfl⟩

theorem rel1_queues (s : Core) (app key : String) (a : CApp) (i : CItem) (hbd : i.bound = true) :
    QSame s.queues (rel1 s app key a i).queues ∧ (rel1 s app key a i).reservations = s.reservations := by
  have h1 := QSame.upd s.queues (pathChain s a.queue) (relQ1 i) (relQ1_resSame i)
  have h2 := QSame.upd s.queues (pathChain s a.queue) (relQ2 (relApp key i a)) (relQ2_resSame _)
  have h3 := QSame.upd (updQs s.queues (pathChain s a.queue) (relQ1 i)) (pathChain s a.queue) (relQ2 (relApp key i a))
    (relQ2_resSame _)
  unfold rel1
  simp only [hbd, if_true]
  cases s.findNode i.node <;> cases (relApp key i a).live <;> cases strictlyGreaterThanZero (some i.res) <;>
    first
    | exact ⟨QSame.refl _, rfl⟩
    | exact ⟨h1, rfl⟩
    | exact ⟨h2, rfl⟩
    | exact ⟨h1.trans h3, rfl⟩

theorem relApp_reservations (key : String) (i : CItem) (a : CApp) : (relApp key i a).reservations = a.reservations := by
  unfold relApp; cases i.ph <;> rfl

theorem phSt_from (a : CApp) (aph : Res) : StepFrom a.state (LifeA.phSt a aph) := by
  by_cases hF : a.state = "Failing"
  · exact StepFrom.ofFailing hF
  · have hF' : (a.state == "Failing") = false := by simpa using hF
    unfold LifeA.phSt
    split
    · simp only [hF', Bool.false_eq_true, if_false]
      split
      · exact StepFrom.run _
      · exact StepFrom.complete _
    · exact StepFrom.same _

theorem realSt_from (a : CApp) (alloc : Res) : StepFrom a.state (LifeA.realSt a alloc) := by
  by_cases hF : a.state = "Failing"
  · exact StepFrom.ofFailing hF
  · have hF' : (a.state == "Failing") = false := by simpa using hF
    unfold LifeA.realSt
    split
    · simp only [hF', Bool.false_eq_true, if_false]
      exact StepFrom.complete _
    · exact StepFrom.same _

theorem relApp_from (key : String) (i : CItem) (a : CApp) :
    StepFrom a.state (relApp key i a).state ∧ (relApp key i a).live = !(terminated (relApp key i a).state) := by
  cases hph : i.ph with
  | true =>
    obtain ⟨e1, e2⟩ := LifeA.relApp_ph key i a hph
    rw [e1] at e2 ⊢
    exact ⟨phSt_from a _, e2⟩
  | false =>
    obtain ⟨e1, e2⟩ := LifeA.relApp_real key i a hph
    rw [e1] at e2 ⊢
    exact ⟨realSt_from a _, e2⟩

theorem keep_relApp {s : Core} (hr : ResInv s) {a : CApp} (ham : a ∈ s.apps) (hlv : a.live = true) (hwa : AppWF a)
    (hbk : AppBooks a) (hpos : ∀ i ∈ a.items, PosRes i.res) (hnt : terminated a.state = false)
    {key : String} {i : CItem} (him : i ∈ a.items) (hkey : i.key = key) (hbd : i.bound = true)
    (hreal : i.ph = false → a.state ≠ "Completing") : AppResKeep a (relApp key i a) := by
  have hq := hr.quiet a ham hlv
  obtain ⟨hfrom, hlive⟩ := relApp_from key i a
  obtain ⟨f1, _, _, _⟩ := LifeA.relApp_facts key i a hnt hreal
  refine ⟨relApp_id key i a, relApp_queue key i a, relApp_reservations key i a, ?_, ?_⟩
  · intro j hj hjo _
    obtain ⟨_, hja⟩ := outstanding_inReq hjo
    have hne : ¬ (j.key == key) = true := by
      intro hk
      have : j = i := itemKeys_eq hwa.itemKeys hj him ((by simpa using hk : j.key = key).trans hkey.symm)
      rw [this, hwa.boundAllocated i him hbd] at hja; cases hja
    refine ⟨j, ?_, rfl, hjo, rfl⟩
    rw [relApp_items]
    exact List.mem_map.mpr ⟨j, hj, by rw [if_neg hne]⟩
  · intro h
    have hterm : terminated (relApp key i a).state = true → a.reservations = [] := by
      intro ht
      rcases hfrom.term ht hnt with e | e
      · exact hq (Or.inl e)
      · exact hq (Or.inr (Or.inl e))
    rcases h with h | h | h | h
    · rw [hlive] at h
      exact hterm (by simpa using h)
    · exact hq (Or.inl (hfrom.failing h))
    · rcases f1 h with e | ⟨e, _⟩
      · exact hq (Or.inr (Or.inl e))
      · rw [relApp_pending] at e
        exact no_resv_of_zero hr ham hlv ((hbk.none_of_zero hwa hpos).2.2 e)
    · exact hterm h

theorem res_rel1 (s : Core) (app key : String) (a : CApp) (i : CItem) (hw : CoreWF s) (hb : Books s) (hl : LifeInv s)
    (hr : ResInv s) (hfind : s.findApp app = some a) (hitem : a.items.find? (·.key == key) = some i) :
    ResInv (rel1 s app key a i) := by
  cases hbd : i.bound with
  | false =>
    have : rel1 s app key a i = s := by unfold rel1; simp only [hbd, Bool.false_eq_true, if_false]
    rw [this]; exact hr
  | true =>
    obtain ⟨ham, hlv, hid⟩ := findApp_some hfind
    obtain ⟨him, hkey⟩ := find_key_some hitem
    obtain ⟨hta, htn⟩ := LifeA.rel1_lists' s app key a i hbd
    obtain ⟨⟨gq, hgq, htq⟩, hc⟩ := rel1_queues s app key a i hbd
    have hreal : i.ph = false → a.state ≠ "Completing" := by
      intro hph hst
      have := hl.completingNoReal a ham hlv hst i him hbd
      rw [hph] at this; cases this
    have hk := keep_relApp hr ham hlv (hw.app ham hlv) (hb.apps a ham hlv) (hl.pos a ham hlv) (hl.termGone a ham hlv)
      him hkey hbd hreal
    rcases htn with htn | htn
    · exact res_of_upd hw hr ham hlv hid hta hk _ nodeResSame_id (by rw [htn]; simp) gq hgq htq (Nat.le_of_eq hc.symm)
    · exact res_of_upd hw hr ham hlv hid hta hk _ (nodeResSame_upd i.node (relNode key i) (fun _ => ⟨rfl, rfl⟩)) htn
        gq hgq htq (Nat.le_of_eq hc.symm)

/-- the application record after step (1) carries the reservations of the record before -/
theorem rel1_findApp (s : Core) (app key : String) (a : CApp) (i : CItem) (hw : CoreWF s)
    (hfind : s.findApp app = some a) (a1 : CApp) (h1 : (rel1 s app key a i).findApp app = some a1) :
    a1.reservations = a.reservations := by
  cases hbd : i.bound with
  | false =>
    have : rel1 s app key a i = s := by unfold rel1; simp only [hbd, Bool.false_eq_true, if_false]
    rw [this, hfind] at h1
    simp only [Option.some.injEq] at h1
    rw [h1]
  | true =>
    obtain ⟨ham, hlv, hid⟩ := findApp_some hfind
    obtain ⟨h1m, h1l, h1id⟩ := findApp_some h1
    rw [(LifeA.rel1_lists' s app key a i hbd).1] at h1m
    rcases mem_updApps hw.appIds ham hlv hid h1m with e | ⟨_, hnd⟩
    · rw [e]; exact relApp_reservations key i a
    · exact absurd (by simp [h1l, h1id]) hnd

theorem rel2_queues (s1 : Core) (app key : String) (chain : List String) :
    QSame s1.queues (rel2 s1 app key chain).queues ∧ (rel2 s1 app key chain).reservations = s1.reservations := by
  unfold rel2
  split
  · exact ⟨QSame.refl _, rfl⟩
  · split
    · exact ⟨QSame.refl _, rfl⟩
    · split
      · exact ⟨QSame.refl _, rfl⟩
      · exact ⟨QSame.upd _ _ _ (fun _ => ⟨rfl, rfl⟩), rfl⟩

theorem askSt_from (a : CApp) (pending : Res) (hasPh : Bool) : StepFrom a.state (LifeA.askSt a pending hasPh) := by
  unfold LifeA.askSt
  split
  · exact StepFrom.complete _
  · exact StepFrom.same _

theorem keep_askApp {s : Core} (hr : ResInv s) {a : CApp} (ham : a ∈ s.apps) (hlv : a.live = true) (hwa : AppWF a)
    (hbk : AppBooks a) (hpos : ∀ i ∈ a.items, PosRes i.res) (hnt : terminated a.state = false)
    {key : String} {x : CItem} (hitem : a.items.find? (fun x => x.key == key && x.inReq) = some x)
    (hnokey : ∀ r ∈ a.reservations, r.1 ≠ key) : AppResKeep a (askApp key x a) := by
  have hq := hr.quiet a ham hlv
  obtain ⟨_, _, g3, g4, g5⟩ := LifeA.askApp_facts key x a hnt
  have e : (askApp key x a).state =
      LifeA.askSt a (askApp key x a).pending ((askApp key x a).items.any (fun y => y.bound && y.ph)) := rfl
  have hfrom : StepFrom a.state (askApp key x a).state := by rw [e]; exact askSt_from a _ _
  have hitems : ∀ j ∈ a.items, j.outstanding = true → (∃ r ∈ a.reservations, r.1 = j.key) →
      ∃ j' ∈ (askApp key x a).items, j'.key = j.key ∧ j'.outstanding = true ∧ j'.reqNode = j.reqNode := by
    intro j hj hjo hres
    obtain ⟨r, hrm, hrk⟩ := hres
    have hne : j.key ≠ key := fun hk => hnokey r hrm (hrk.trans hk)
    refine ⟨j, ?_, rfl, hjo, rfl⟩
    rw [g3]
    exact List.mem_filter.mpr ⟨hj, by simpa using hne⟩
  refine ⟨rfl, rfl, rfl, hitems, ?_⟩
  intro h
  rcases h with h | h | h | h
  · have : (askApp key x a).live = a.live := rfl
    rw [this, hlv] at h; cases h
  · exact hq (Or.inl (hfrom.failing h))
  · rcases g4 h with e' | ⟨hz, _⟩
    · exact hq (Or.inr (Or.inl e'))
    · have hsub : ∀ j ∈ (askApp key x a).items, j ∈ a.items := fun j hj => by
        rw [g3] at hj; exact (List.mem_filter.mp hj).1
      have hno := no_item_of_sum_zero (askApp key x a).items (fun i => i.inReq && !i.allocated)
        (fun y hy => (hwa.itemRes y (hsub y hy)).2) (fun y hy => hpos y (hsub y hy))
        (fun k => by rw [← LifeA.askApp_pending key x a hwa hbk hitem k]; exact getD_zero_of_isZero hz k)
      rw [List.eq_nil_iff_forall_not_mem]
      intro r hrm
      obtain ⟨j, hj, hjk, hjo⟩ := hr.outstanding a ham hlv r hrm
      obtain ⟨j', hj', _, hjo', _⟩ := hitems j hj hjo ⟨r, hrm, hjk.symm⟩
      have := hno j' hj'
      unfold CItem.outstanding at hjo'
      rw [this] at hjo'; cases hjo'
  · rw [g5] at h; cases h

theorem res_rel2 (s1 : Core) (app key : String) (chain : List String) (hw : CoreWF s1)
    (hba : ∀ b ∈ s1.apps, b.live = true → AppBooks b) (hl : LifeInv s1) (hr : ResInv s1)
    (hnr : NotReserved s1 app key) : ResInv (rel2 s1 app key chain) := by
  rcases LifeA.rel2_lists s1 app key chain with he | ⟨a1, x, hfind, hitem, hta, htn⟩
  · rw [he]; exact hr
  · obtain ⟨ham, hlv, hid⟩ := findApp_some hfind
    obtain ⟨⟨gq, hgq, htq⟩, hc⟩ := rel2_queues s1 app key chain
    exact res_of_upd hw hr ham hlv hid hta
      (keep_askApp hr ham hlv (hw.app ham hlv) (hba a1 ham hlv) (hl.pos a1 ham hlv) (hl.termGone a1 ham hlv) hitem
        (hnr a1 hfind))
      _ nodeResSame_id (by rw [htn]; simp) gq hgq htq (Nat.le_of_eq hc.symm)

end ResB

open ResB

/-! ### the main theorems -/

/-- partition.removeAllocation(app, key, tt) keeps the reservation invariant: no side condition (the ask that leaves takes
    its reservation with it: application, node, queue) -/
theorem res_releaseKeyT (s : Core) (tt : TermType) (app key : String) (hi : CoreInv s) (hr : ResInv s) :
    ResInv (s.releaseKeyT tt app key) := by
  obtain ⟨hw, hb, _, hl⟩ := hi
  cases hfind : s.findApp app with
  | none => unfold releaseKeyT; simp only [hfind]; exact hr
  | some a =>
    cases hitem : a.items.find? (·.key == key) with
    | none => unfold releaseKeyT; simp only [hfind, hitem]; exact hr
    | some i =>
      have hw1 := wf_relBoundT s tt app key a i hw hfind
      have hb1 := LifeB.appsBooks_relBoundT s tt app key a i hw hb.apps hfind hitem
      have hl1 := life_relBoundT s tt app key a i hw hb hl hfind hitem
      have hr1 := res_relBoundT s tt app key a i hw hb hl hr hfind hitem
      unfold releaseKeyT
      simp only [hfind, hitem]
      split
      · exact hr1
      · exact res_askRemoveT _ app key _ hw1 hb1 hl1.pos hr1

/-- tryPlaceholderAllocate decided a replacement for a real ask that holds no reservation (`NotReserved`: the scheduler
    unreserves before it allocates): the real ask stops being outstanding, nothing else the invariant reads changes -/
theorem res_swapStart (s s' : Core) (app realKey phKey node : String) (hi : CoreInv s) (hr : ResInv s)
    (hnr : NotReserved s app realKey) (h : s.swapStart app realKey phKey node = some s') : ResInv s' := by
  obtain ⟨hw, _, _, _⟩ := hi
  obtain ⟨a, r, p, hfind, _, _, hta, htq, htn⟩ := swapStart_lists s s' app realKey phKey node h
  obtain ⟨ham, hlv, hid⟩ := findApp_some hfind
  have hc := swapStart_reservations s s' app realKey phKey node h
  have hk := keep_swapStartApp hr ham hlv realKey phKey node r (hnr a hfind)
  cases hx : (p.node != node) with
  | true =>
    rw [hx] at htn
    simp only [if_true] at htn
    exact res_of_upd hw hr ham hlv hid hta hk _ (nodeResSame_upd node _ (swapStartNode_resSame app realKey r)) htn
      _ (queueResSame_upd _ _ (qDecPend_resSame r.res)) htq (Nat.le_of_eq hc.symm)
  | false =>
    rw [hx] at htn
    simp only [Bool.false_eq_true, if_false] at htn
    exact res_of_upd hw hr ham hlv hid hta hk _ nodeResSame_id (by rw [htn]; simp)
      _ (queueResSame_upd _ _ (qDecPend_resSame r.res)) htq (Nat.le_of_eq hc.symm)

/-- partition.removeAllocation(app, phKey, PLACEHOLDER_REPLACED) keeps the reservation invariant (`SwapOK`: from
    `ok_of_ok2`; needed for the well-formedness and the books of the state between the two halves of the step) -/
theorem res_swapConfirm (s : Core) (app phKey : String) (hi : CoreInv s) (hr : ResInv s) (hok : SwapOK s app phKey) :
    ResInv (s.swapConfirm app phKey) := by
  have ⟨hw, hb, _, hl⟩ := hi
  cases hfind : s.findApp app with
  | none => unfold swapConfirm; simp only [hfind]; exact hr
  | some a =>
    cases hitem : a.items.find? (·.key == phKey) with
    | none => unfold swapConfirm; simp only [hfind, hitem]; exact hr
    | some p =>
      cases hreal : (if (p.bound && p.ph) = true then p.release else none).bind (findReal s a) with
      | none =>
        have : s.swapConfirm app phKey = releaseKeyT s .replaced app phKey := by
          unfold swapConfirm; simp only [hfind, hitem, hreal]
        rw [this]
        exact res_releaseKeyT s .replaced app phKey hi hr
      | some r =>
        have hbp : (p.bound && p.ph) = true := by
          cases h : (p.bound && p.ph) with
          | true => rfl
          | false => rw [h] at hreal; simp at hreal
        rw [hbp] at hreal
        simp only [if_true] at hreal
        have hc : SwapCase s app phKey a p r := ⟨hfind, hitem, hbp, hreal⟩
        rw [swapConfirm_main s app phKey a p r hc]
        exact res_askRemoveT _ app phKey _ (wf_swapMain s app phKey a p r hw hok hc)
          (books_swapMain s app phKey a p r hw hb hok hc).apps (LifeB.life_swapMain s app phKey a p r hw hb hl hok hc).pos
          (res_swapMain s app phKey a p r hw hl hr hok hc)

/-- The old `releaseKey` (first part of the model: it does not model reservations) keeps the reservation invariant when
    the ask it removes holds no reservation (`NotReserved`). -/
theorem res_releaseKey (s : Core) (app key : String) (hi : CoreInv s) (hr : ResInv s) (hnr : NotReserved s app key) :
    ResInv (s.releaseKey app key) := by
  obtain ⟨hw, hb, _, hl⟩ := hi
  cases hfind : s.findApp app with
  | none => unfold releaseKey; simp only [hfind]; exact hr
  | some a =>
    cases hitem : a.items.find? (·.key == key) with
    | none => unfold releaseKey; simp only [hfind, hitem]; exact hr
    | some i =>
      rw [releaseKey_eq s app key a i hfind hitem]
      refine res_rel2 _ app key _ (wf_rel1 s app key a i hw hfind) (LifeA.rel1_appBooks s app key a i hw hb hl hfind hitem)
        (LifeA.rel1_life s app key a i hw hb hl hfind hitem) (res_rel1 s app key a i hw hb hl hr hfind hitem) ?_
      intro a1 h1 r hrm
      rw [rel1_findApp s app key a i hw hfind a1 h1] at hrm
      exact hnr a hfind r hrm

end Yk
