/-
  `nodeRemove` (partition.removeNode): the reservations on the node are released, every allocation of the node is
  processed (`nodeRmAlloc`, YkProofs/Core2Node.lean), the applications that terminated meanwhile leave
  (`sweepTerminated`, YkProofs/Core2Timer.lean), the node is dropped and the partition total / root maximum shrink.
-/
import YkProofs.Core2Node
import YkProofs.Core2Timer
namespace Yk
open Res Core

/-- the allocations of the node the implementation did not announce, in the order of the dump -/
def nodeRest (n : CNode) (order : List (String × String)) : List (String × String) :=
  ((n.allocs.filter (!·.foreign)).map (fun na => (na.app, na.key))).filter (fun p => !(order.contains p))

/-- The side condition of a node removal: every round of the loop over the node's allocations meets `NodeRmOK` in the
    state it is applied to (`NodeLoopOK`): a swap that the removal confirms is a proper swap (`ReplOK`, real not larger
    than the placeholder), a reversed replacement does not saturate the pending totals that grow again. -/
def NodeRemoveOK (s : Core) (id : String) (order : List (String × String)) : Prop :=
  ∀ n, s.findNode id = some n →
    NodeLoopOK id (n.reservations.foldl (fun c k => unreserveOn c id k) s) (order ++ nodeRest n order)

theorem nodeRemove_props (s : Core) (id : String) (order : List (String × String)) (hw : CoreWF s) (hb : Books s)
    (hok : NodeRemoveOK s id order) : Books (s.nodeRemove id order) ∧ CoreWF (s.nodeRemove id order) := by
  unfold nodeRemove
  split
  · exact ⟨hb, hw⟩
  · rename_i n hn
    obtain ⟨hb0, hw0, _⟩ := unreserveFold_props id n.reservations s hw hb
    obtain ⟨hb1, hw1, _⟩ := nodeLoop_props id _ _ hw0 hb0 (hok n hn)
    obtain ⟨hb2, hw2⟩ := sweepTerminated_props _ hw1 hb1
    exact dropNode_props _ id n.total hw2 hb2

end Yk
