/-
  Life-cycle invariants (YkProofs/Core2Life.lean) along a node removal (`nodeRemove`): the fold over the reservations of
  the node, the loop over its allocations (`nodeRmAlloc`) and dropping the node.  Inside the loop an application that has
  just terminated is still listed as live, so the invariant of the loop is `LifeCore`; the sweep of the terminated
  applications that turns it into `LifeInv` again is in another file.
-/
import YkProofs.Core2Life
namespace Yk
open Res Core

namespace LifeD

/-! ### the state machine on arbitrary state names -/

theorem ofName_some {st : String} {a : AppState} (h : AppState.ofName st = some a) : a.name = st := by
  unfold AppState.ofName at h
  have := List.find?_some h
  simpa using this

theorem setState_state (a : CApp) (st : String) : (setState a st).state = st := by
  unfold setState
  split
  · rename_i h; exact (beq_iff_eq.mp h).symm
  · rfl

/-- completeApplication: Accepted / Running → Completing, Completing → Completed, nothing else -/
theorem fire_complete (st : String) :
    (fireState st .complete = "Completing" ∧ (st = "Accepted" ∨ st = "Running")) ∨
    (fireState st .complete = "Completed" ∧ st = "Completing") ∨ fireState st .complete = st := by
  unfold fireState
  cases h : AppState.ofName st with
  | none => right; right; rfl
  | some a =>
    have := ofName_some h
    subst this
    cases a <;> decide

/-- runApplication never leads to Completing, Completed or Failed from another state -/
theorem fire_run (st : String) :
    fireState st .run = "Accepted" ∨ fireState st .run = "Running" ∨ fireState st .run = st := by
  unfold fireState
  cases h : AppState.ofName st with
  | none => right; right; rfl
  | some a =>
    have := ofName_some h
    subst this
    cases a <;> decide

theorem relAppT_state_ph (key : String) (i : CItem) (a : CApp) (hph : i.ph = true) :
    (relAppT .unknown key i a).state =
      if (isZero (some (prune (subX a.allocatedPh i.res))) &&
          ((a.state == "Completing" && !a.stateTimer) || (a.state == "Failing" && isZero (some a.allocated)) ||
           a.state == "Resuming" ||
           (isZero (some a.pending) && isZero (some a.allocated) && a.state != "Failing"))) = true then
        (if (a.state == "Failing") = true then fireState a.state .fail
         else if (a.state == "Resuming") = true then fireState a.state .run else fireState a.state .complete)
      else a.state := by
  have h0 : (TermType.unknown == TermType.replaced) = false := by decide
  unfold relAppT
  simp only [hph, if_true, setState_state, h0, Bool.false_and, Bool.not_false, Bool.and_true]

theorem relAppT_state_real (key : String) (i : CItem) (a : CApp) (hph : i.ph = false) :
    (relAppT .unknown key i a).state =
      if (isZero (some a.pending) && isZero (some (prune (subX a.allocated i.res)))) = true then
        (if (a.state == "Failing") = true then
           (if isZero (some a.allocatedPh) = true then fireState a.state .fail else a.state)
         else fireState a.state .complete)
      else a.state := by
  unfold relAppT
  simp only [hph, Bool.false_eq_true, if_false, setState_state]

/-- the state after `relAppT .unknown`: unchanged, or one of the three events fired under its guard -/
theorem relAppT_state_cases (key : String) (i : CItem) (a : CApp) :
    (relAppT .unknown key i a).state = a.state ∨
    (i.ph = true ∧ isZero (some (prune (subX a.allocatedPh i.res))) = true ∧
      ((a.state = "Failing" ∧ isZero (some a.allocated) = true ∧
          (relAppT .unknown key i a).state = fireState a.state .fail) ∨
       (a.state = "Resuming" ∧ (relAppT .unknown key i a).state = fireState a.state .run) ∨
       ((a.state = "Completing" ∨ (isZero (some a.pending) = true ∧ isZero (some a.allocated) = true)) ∧
          (relAppT .unknown key i a).state = fireState a.state .complete))) ∨
    (i.ph = false ∧ isZero (some a.pending) = true ∧ isZero (some (prune (subX a.allocated i.res))) = true ∧
       ((a.state ≠ "Failing" ∧ (relAppT .unknown key i a).state = fireState a.state .complete) ∨
        (a.state = "Failing" ∧ isZero (some a.allocatedPh) = true ∧
          (relAppT .unknown key i a).state = fireState a.state .fail))) := by
  cases hph : i.ph with
  | true =>
    rw [relAppT_state_ph key i a hph]
    split
    · rename_i hc
      simp only [Bool.and_eq_true, Bool.or_eq_true, beq_iff_eq] at hc
      obtain ⟨hz, hc⟩ := hc
      right; left
      refine ⟨rfl, hz, ?_⟩
      by_cases hF : a.state = "Failing"
      · left
        refine ⟨hF, ?_, by simp [hF]⟩
        rcases hc with ((hc | hc) | hc) | hc
        · rw [hF] at hc; exact absurd hc.1 (by decide)
        · exact hc.2
        · rw [hF] at hc; exact absurd hc (by decide)
        · have := hc.2; simp [hF] at this
      · by_cases hR : a.state = "Resuming"
        · right; left; exact ⟨hR, by simp [hR]⟩
        · right; right
          refine ⟨?_, by simp [hF, hR]⟩
          rcases hc with ((hc | hc) | hc) | hc
          · exact Or.inl hc.1
          · exact absurd hc.1 hF
          · exact absurd hc hR
          · exact Or.inr hc.1
    · left; rfl
  | false =>
    rw [relAppT_state_real key i a hph]
    split
    · rename_i hc
      simp only [Bool.and_eq_true] at hc
      by_cases hF : a.state = "Failing"
      · by_cases hzp : isZero (some a.allocatedPh) = true
        · right; right; exact ⟨rfl, hc.1, hc.2, Or.inr ⟨hF, hzp, by simp [hF, hzp]⟩⟩
        · left; simp [hF, hzp]
      · right; right; exact ⟨rfl, hc.1, hc.2, Or.inl ⟨hF, by simp [hF]⟩⟩
    · left; rfl

/-- what the state after a release (termination type UNKNOWN) says about the state before -/
theorem relAppT_state_facts (key : String) (i : CItem) (a : CApp) :
    ((relAppT .unknown key i a).state = "Completing" → a.state = "Completing" ∨
        (isZero (some (relAppT .unknown key i a).allocated) = true ∧ isZero (some a.pending) = true)) ∧
    (terminated (relAppT .unknown key i a).state = true → terminated a.state = true ∨
        isZero (some (relAppT .unknown key i a).allocatedPh) = true ∨ (i.ph = false ∧ a.state = "Completing")) ∧
    ((relAppT .unknown key i a).state = "Completed" → a.state = "Completed" ∨ a.state = "Completing") := by
  have eA := relAppT_allocated .unknown key i a
  have eH := relAppT_allocatedPh .unknown key i a
  rcases relAppT_state_cases key i a with h | ⟨hph, hz, h⟩ | ⟨hph, hp, hz, h⟩
  · rw [h]; exact ⟨Or.inl, Or.inl, Or.inl⟩
  · rw [hph] at eA eH
    simp only [if_true] at eA eH
    rw [eA, eH]
    rcases h with ⟨hF, _, h⟩ | ⟨hR, h⟩ | ⟨hc, h⟩
    · rw [hF] at h
      have : fireState "Failing" .fail = "Failed" := by decide
      rw [this] at h
      rw [h]
      exact ⟨fun e => absurd e (by decide), fun _ => Or.inr (Or.inl hz), fun e => absurd e (by decide)⟩
    · rw [hR] at h
      have : fireState "Resuming" .run = "Accepted" := by decide
      rw [this] at h
      rw [h]
      exact ⟨fun e => absurd e (by decide), fun e => absurd e (by decide), fun e => absurd e (by decide)⟩
    · rw [h]
      rcases fire_complete a.state with ⟨hf, hs⟩ | ⟨hf, hs⟩ | hf
      · rw [hf]
        refine ⟨fun _ => ?_, fun e => absurd e (by decide), fun e => absurd e (by decide)⟩
        rcases hc with hc | hc
        · rcases hs with hs | hs <;> · rw [hs] at hc; exact absurd hc (by decide)
        · exact Or.inr ⟨hc.2, hc.1⟩
      · rw [hf]
        exact ⟨fun _ => Or.inl hs, fun _ => Or.inr (Or.inl hz), fun _ => Or.inr hs⟩
      · rw [hf]; exact ⟨Or.inl, Or.inl, Or.inl⟩
  · rw [hph] at eA eH
    simp only [Bool.false_eq_true, if_false] at eA eH
    rw [eA, eH]
    rcases h with ⟨_, h⟩ | ⟨hF, hzp, h⟩
    · rw [h]
      rcases fire_complete a.state with ⟨hf, hs⟩ | ⟨hf, hs⟩ | hf
      · rw [hf]
        exact ⟨fun _ => Or.inr ⟨hz, hp⟩, fun e => absurd e (by decide), fun e => absurd e (by decide)⟩
      · rw [hf]
        exact ⟨fun _ => Or.inl hs, fun _ => Or.inr (Or.inr ⟨hph, hs⟩), fun _ => Or.inr hs⟩
      · rw [hf]; exact ⟨Or.inl, Or.inl, Or.inl⟩
    · -- the last real allocation of a Failing application without placeholders: Failed, the placeholder total is zero
      rw [hF] at h
      have : fireState "Failing" .fail = "Failed" := by decide
      rw [this] at h
      rw [h]
      exact ⟨fun e => absurd e (by decide), fun _ => Or.inr (Or.inl hzp), fun e => absurd e (by decide)⟩

/-! ### a Failing application (fix 81c5cb7): Failed only when neither placeholders nor real allocations are left -/

/-- a placeholder of a Failing application that still holds a real allocation goes: it stays Failing and live -/
theorem relAppT_failing_ph_stays (tt : TermType) (key : String) (i : CItem) (a : CApp) (hph : i.ph = true)
    (hF : a.state = "Failing") (hreal : isZero (some a.allocated) = false) :
    (relAppT tt key i a).state = "Failing" ∧ (relAppT tt key i a).live = true := by
  have hd : terminated "Failing" = false := by decide
  unfold relAppT
  simp [hph, hF, hreal, setState_state, hd]

/-- the last placeholder of a Failing application without real allocations goes: Failed and not live -/
theorem relAppT_failing_ph_failed (tt : TermType) (key : String) (i : CItem) (a : CApp) (hph : i.ph = true)
    (hF : a.state = "Failing") (hz : isZero (some (prune (subX a.allocatedPh i.res))) = true)
    (hreal : isZero (some a.allocated) = true) :
    (relAppT tt key i a).state = "Failed" ∧ (relAppT tt key i a).live = false := by
  have hf : fireState "Failing" .fail = "Failed" := by decide
  have hd : terminated "Failed" = true := by decide
  unfold relAppT
  simp [hph, hF, hz, hreal, setState_state, hf, hd]

/-- a real allocation of a Failing application that still holds placeholders goes: it stays Failing and live -/
theorem relAppT_failing_real_stays (tt : TermType) (key : String) (i : CItem) (a : CApp) (hph : i.ph = false)
    (hF : a.state = "Failing") (hphs : isZero (some a.allocatedPh) = false) :
    (relAppT tt key i a).state = "Failing" ∧ (relAppT tt key i a).live = true := by
  have hd : terminated "Failing" = false := by decide
  unfold relAppT
  simp only [hph, Bool.false_eq_true, if_false, hF, hphs, beq_self_eq_true, if_true, ite_self, setState_state, hd,
    Bool.not_false, and_self]

/-- the last real allocation of a Failing application without placeholders and without pending asks goes: Failed and
    not live -/
theorem relAppT_failing_real_failed (tt : TermType) (key : String) (i : CItem) (a : CApp) (hph : i.ph = false)
    (hF : a.state = "Failing") (hp : isZero (some a.pending) = true)
    (hz : isZero (some (prune (subX a.allocated i.res))) = true) (hphs : isZero (some a.allocatedPh) = true) :
    (relAppT tt key i a).state = "Failed" ∧ (relAppT tt key i a).live = false := by
  have hf : fireState "Failing" .fail = "Failed" := by decide
  have hd : terminated "Failed" = true := by decide
  unfold relAppT
  simp [hph, hF, hp, hz, hphs, setState_state, hf, hd]

/-! ### the state after `replApp` -/

/-- the state after the placeholder left (first half of `replApp`) -/
def replSt1 (p : CItem) (a : CApp) : String :=
  if (isZero (some (prune (subX a.allocatedPh p.res))) &&
      ((a.state == "Failing" && isZero (some a.allocated)) || a.state == "Resuming")) = true then
    (if (a.state == "Failing") = true then fireState a.state .fail else fireState a.state .run)
  else a.state

theorem replApp_state (p r : CItem) (a : CApp) :
    (replApp p r a).state =
      if (!(isZero (some a.allocated)) || replSt1 p a == "Completing") = true then fireState (replSt1 p a) .run
      else replSt1 p a := by
  unfold replApp replSt1
  simp only [setState_state, setState_allocated]

theorem terminated_fire_run (st : String) (h : terminated (fireState st .run) = true) : terminated st = true := by
  rcases fire_run st with e | e | e
  · rw [e] at h; exact absurd h (by decide)
  · rw [e] at h; exact absurd h (by decide)
  · rw [e] at h; exact h

theorem replSt1_completed (p : CItem) (a : CApp) (h : replSt1 p a = "Completed") : a.state = "Completed" := by
  unfold replSt1 at h
  split at h
  · rename_i hc
    simp only [Bool.and_eq_true, Bool.or_eq_true, beq_iff_eq] at hc
    exfalso
    split at h
    · rename_i hF
      rw [beq_iff_eq.mp hF] at h
      exact absurd h (by decide)
    · rename_i hF
      rcases hc.2 with hc | hc
      · exact hF (by simp [hc.1])
      · rw [hc] at h; exact absurd h (by decide)
  · exact h

theorem replApp_state_facts (p r : CItem) (a : CApp) :
    (replApp p r a).state ≠ "Completing" ∧
    (terminated (replApp p r a).state = true →
      isZero (some (replApp p r a).allocatedPh) = true ∨ terminated a.state = true) ∧
    ((replApp p r a).state = "Completed" → a.state = "Completed") := by
  have h1 : terminated (replSt1 p a) = true →
      isZero (some (prune (subX a.allocatedPh p.res))) = true ∨ terminated a.state = true := by
    unfold replSt1
    split
    · rename_i hc
      simp only [Bool.and_eq_true] at hc
      exact fun _ => Or.inl hc.1
    · exact Or.inr
  rw [replApp_state, replApp_allocatedPh]
  split
  · rename_i hc
    refine ⟨?_, fun h => h1 (terminated_fire_run _ h), ?_⟩
    · by_cases hs : replSt1 p a = "Completing"
      · rw [hs]; decide
      · rcases fire_run (replSt1 p a) with e | e | e
        · rw [e]; decide
        · rw [e]; decide
        · rw [e]; exact hs
    · intro h
      rcases fire_run (replSt1 p a) with e | e | e
      · rw [e] at h; exact absurd h (by decide)
      · rw [e] at h; exact absurd h (by decide)
      · rw [e] at h; exact replSt1_completed p a h
  · rename_i hc
    simp only [Bool.or_eq_true, beq_iff_eq, not_or] at hc
    exact ⟨hc.2, h1, replSt1_completed p a⟩

/-! ### the invariants, application by application -/

/-- the clauses of `LifeCore` about one application -/
structure AppLife (a : CApp) : Prop where
  pos : a.live = true → ∀ i ∈ a.items, PosRes i.res
  completingNoReal : a.live = true → a.state = "Completing" → ∀ i ∈ a.items, i.bound = true → i.ph = true
  noPhOrphan : (a.live = false ∨ terminated a.state = true) → ∀ i ∈ a.items, i.bound = true → i.ph = false
  completedNoReal : a.state = "Completed" → ∀ i ∈ a.items, i.bound = true → i.ph = true

/-- the clauses of `NoPendInv` about one application -/
structure AppNoPend (a : CApp) : Prop where
  completingNoPending : a.live = true → a.state = "Completing" → ∀ i ∈ a.items, i.outstanding = false
  completedNoAsk : a.state = "Completed" → ∀ i ∈ a.items, i.outstanding = false

theorem app_of_lifeCore {s : Core} (h : LifeCore s) {a : CApp} (ha : a ∈ s.apps) : AppLife a :=
  ⟨h.pos a ha, h.completingNoReal a ha, h.noPhOrphan a ha, h.completedNoReal a ha⟩

theorem lifeCore_of_apps {s : Core} (h1 : ∀ a ∈ s.apps, AppLife a)
    (h2 : ∀ n ∈ s.nodes, ∀ x ∈ n.allocs, x.foreign = false → PosRes x.res) : LifeCore s :=
  ⟨fun a ha => (h1 a ha).pos, h2, fun a ha => (h1 a ha).completingNoReal, fun a ha => (h1 a ha).noPhOrphan,
   fun a ha => (h1 a ha).completedNoReal⟩

theorem app_of_noPend {s : Core} (h : NoPendInv s) {a : CApp} (ha : a ∈ s.apps) : AppNoPend a :=
  ⟨h.completingNoPending a ha, h.completedNoAsk a ha⟩

theorem noPend_of_apps {s : Core} (h1 : ∀ a ∈ s.apps, AppNoPend a) : NoPendInv s :=
  ⟨fun a ha => (h1 a ha).completingNoPending, fun a ha => (h1 a ha).completedNoAsk⟩

/-- `AppLife` follows an update that keeps liveness and state and only shrinks the set of bound items -/
theorem AppLife.of_sub {a b : CApp} (hl : b.live = a.live) (hs : b.state = a.state)
    (hi : ∀ y ∈ b.items, ∃ x ∈ a.items, y.res = x.res ∧ y.ph = x.ph ∧ (y.bound = true → x.bound = true))
    (h : AppLife a) : AppLife b := by
  refine ⟨?_, ?_, ?_, ?_⟩
  · intro hlb y hy
    obtain ⟨x, hx, hr, _, _⟩ := hi y hy
    rw [hr]; exact h.pos (hl ▸ hlb) x hx
  · intro hlb hsb y hy hb
    obtain ⟨x, hx, _, hp, hbx⟩ := hi y hy
    rw [hp]; exact h.completingNoReal (hl ▸ hlb) (hs ▸ hsb) x hx (hbx hb)
  · intro ht y hy hb
    obtain ⟨x, hx, _, hp, hbx⟩ := hi y hy
    rw [hp]; exact h.noPhOrphan (by rw [← hl, ← hs]; exact ht) x hx (hbx hb)
  · intro hsb y hy hb
    obtain ⟨x, hx, _, hp, hbx⟩ := hi y hy
    rw [hp]; exact h.completedNoReal (hs ▸ hsb) x hx (hbx hb)

/-- `AppNoPend` follows an update that keeps liveness and state and makes no item outstanding -/
theorem AppNoPend.of_sub {a b : CApp} (hl : b.live = a.live) (hs : b.state = a.state)
    (hi : ∀ y ∈ b.items, ∃ x ∈ a.items, y.outstanding = x.outstanding) (h : AppNoPend a) : AppNoPend b := by
  refine ⟨?_, ?_⟩
  · intro hlb hsb y hy
    obtain ⟨x, hx, ho⟩ := hi y hy
    rw [ho]; exact h.completingNoPending (hl ▸ hlb) (hs ▸ hsb) x hx
  · intro hsb y hy
    obtain ⟨x, hx, ho⟩ := hi y hy
    rw [ho]; exact h.completedNoAsk (hs ▸ hsb) x hx

/-! ### how the states change -/

/-- one live application gets a new record -/
theorem lifeCore_setApp {c t : Core} (hw : CoreWF c) {app : String} {a : CApp} (hfind : c.findApp app = some a)
    (f : CApp → CApp) (hta : t.apps = updApps c.apps app f) (htn : t.nodes = c.nodes) (h : LifeCore c)
    (hf : AppLife (f a)) : LifeCore t := by
  obtain ⟨ham, hl, hid⟩ := findApp_some hfind
  refine lifeCore_of_apps ?_ (by rw [htn]; exact h.posNode)
  intro b hb
  rw [hta] at hb
  rcases mem_updApps hw.appIds ham hl hid hb with rfl | ⟨hbs, _⟩
  · exact hf
  · exact app_of_lifeCore h hbs

theorem noPend_setApp {c t : Core} (hw : CoreWF c) {app : String} {a : CApp} (hfind : c.findApp app = some a)
    (f : CApp → CApp) (hta : t.apps = updApps c.apps app f) (h : NoPendInv c) (hf : AppNoPend (f a)) : NoPendInv t := by
  obtain ⟨ham, hl, hid⟩ := findApp_some hfind
  refine noPend_of_apps ?_
  intro b hb
  rw [hta] at hb
  rcases mem_updApps hw.appIds ham hl hid hb with rfl | ⟨hbs, _⟩
  · exact hf
  · exact app_of_noPend h hbs

/-- every application is replaced by a record with the same liveness, state and items -/
theorem lifeCore_map {c t : Core} (g : CApp → CApp) (hta : t.apps = c.apps.map g) (htn : t.nodes = c.nodes)
    (hg : ∀ x, (g x).live = x.live ∧ (g x).state = x.state ∧ (g x).items = x.items) (h : LifeCore c) : LifeCore t := by
  refine lifeCore_of_apps ?_ (by rw [htn]; exact h.posNode)
  intro b hb
  rw [hta] at hb
  obtain ⟨x, hx, rfl⟩ := List.mem_map.mp hb
  obtain ⟨h1, h2, h3⟩ := hg x
  exact (app_of_lifeCore h hx).of_sub h1 h2 (fun y hy => ⟨y, by rw [← h3]; exact hy, rfl, rfl, id⟩)

theorem noPend_map {c t : Core} (g : CApp → CApp) (hta : t.apps = c.apps.map g)
    (hg : ∀ x, (g x).live = x.live ∧ (g x).state = x.state ∧ (g x).items = x.items) (h : NoPendInv c) : NoPendInv t := by
  refine noPend_of_apps ?_
  intro b hb
  rw [hta] at hb
  obtain ⟨x, hx, rfl⟩ := List.mem_map.mp hb
  obtain ⟨h1, h2, h3⟩ := hg x
  exact (app_of_noPend h hx).of_sub h1 h2 (fun y hy => ⟨y, by rw [← h3]; exact hy, rfl⟩)

theorem termGone_map {c t : Core} (g : CApp → CApp) (hta : t.apps = c.apps.map g)
    (hg : ∀ x, (g x).live = x.live ∧ (g x).state = x.state ∧ (g x).items = x.items)
    (h : ∀ a ∈ c.apps, a.live = true → terminated a.state = false) :
    ∀ a ∈ t.apps, a.live = true → terminated a.state = false := by
  intro b hb hlb
  rw [hta] at hb
  obtain ⟨x, hx, rfl⟩ := List.mem_map.mp hb
  obtain ⟨h1, h2, _⟩ := hg x
  rw [h2]; exact h x hx (h1 ▸ hlb)

/-! ### the item lists of the rounds -/

theorem mem_unbound' {key : String} {l : List CItem} {y : CItem} (hy : y ∈ unbound key l) :
    ∃ x ∈ l, y.res = x.res ∧ y.ph = x.ph ∧ y.allocated = x.allocated ∧ y.inReq = x.inReq ∧ y.release = x.release ∧
      (y.bound = true → x.bound = true) := by
  unfold unbound at hy
  obtain ⟨hm, _⟩ := List.mem_filter.mp hy
  obtain ⟨x, hx, h | h⟩ := mem_updItem hm
  · obtain ⟨_, rfl⟩ := h; exact ⟨x, hx, rfl, rfl, rfl, rfl, rfl, fun hb => by cases hb⟩
  · obtain ⟨_, rfl⟩ := h; exact ⟨y, hx, rfl, rfl, rfl, rfl, rfl, id⟩

/-- an item update that keeps size, kind and the bound flag -/
theorem flags_updItem {k : String} {g : CItem → CItem} {l : List CItem} {y : CItem} (hy : y ∈ updItem k g l)
    (hg : ∀ x, (g x).res = x.res ∧ (g x).ph = x.ph ∧ (g x).bound = x.bound) :
    ∃ x ∈ l, y.res = x.res ∧ y.ph = x.ph ∧ y.bound = x.bound := by
  obtain ⟨x, hx, h | h⟩ := mem_updItem hy
  · obtain ⟨_, rfl⟩ := h; exact ⟨x, hx, hg x⟩
  · obtain ⟨_, rfl⟩ := h; exact ⟨y, hx, rfl, rfl, rfl⟩

theorem flags_updItem2 {k1 k2 : String} {g1 g2 : CItem → CItem} {l : List CItem} {y : CItem}
    (hy : y ∈ updItem k2 g2 (updItem k1 g1 l))
    (hg1 : ∀ x, (g1 x).res = x.res ∧ (g1 x).ph = x.ph ∧ (g1 x).bound = x.bound)
    (hg2 : ∀ x, (g2 x).res = x.res ∧ (g2 x).ph = x.ph ∧ (g2 x).bound = x.bound) :
    ∃ x ∈ l, y.res = x.res ∧ y.ph = x.ph ∧ (y.bound = true → x.bound = true) := by
  obtain ⟨z, hz, a1, a2, a3⟩ := flags_updItem hy hg2
  obtain ⟨x, hx, b1, b2, b3⟩ := flags_updItem hz hg1
  exact ⟨x, hx, a1.trans b1, a2.trans b2, fun hb => by rw [← b3, ← a3]; exact hb⟩

/-- the members of the item list after a swap, with the flags the life-cycle clauses read -/
theorem mem_replItems' {p r : CItem} {l : List CItem} {y : CItem} (hy : y ∈ replItems p r l) :
    (∃ x ∈ l, y.res = x.res ∧ y.ph = x.ph ∧ y.inReq = x.inReq ∧ y.allocated = x.allocated ∧
      (y.bound = true → x.bound = true ∨ x.key = r.key)) ∨
    y = { r with bound := true, release := none } := by
  have h0 : ∀ y ∈ replItems0 p r l, ∃ x ∈ l, y.res = x.res ∧ y.ph = x.ph ∧ y.inReq = x.inReq ∧ y.allocated = x.allocated ∧
      (y.bound = true → x.bound = true ∨ x.key = r.key) := by
    intro y hy
    unfold replItems0 at hy
    obtain ⟨hm, _⟩ := List.mem_filter.mp hy
    obtain ⟨z, hz, h | h⟩ := mem_updItem hm
    · obtain ⟨hzk, rfl⟩ := h
      obtain ⟨x, hx, h' | h'⟩ := mem_updItem hz
      · obtain ⟨_, rfl⟩ := h'; exact ⟨x, hx, rfl, rfl, rfl, rfl, fun _ => Or.inr hzk⟩
      · obtain ⟨_, rfl⟩ := h'; exact ⟨z, hx, rfl, rfl, rfl, rfl, fun _ => Or.inr hzk⟩
    · obtain ⟨_, rfl⟩ := h
      obtain ⟨x, hx, h' | h'⟩ := mem_updItem hz
      · obtain ⟨_, rfl⟩ := h'; exact ⟨x, hx, rfl, rfl, rfl, rfl, fun hb => by cases hb⟩
      · obtain ⟨_, rfl⟩ := h'; exact ⟨y, hx, rfl, rfl, rfl, rfl, fun hb => Or.inl hb⟩
  unfold replItems at hy
  split at hy
  · exact Or.inl (h0 y hy)
  · rcases List.mem_append.mp hy with h | h
    · exact Or.inl (h0 y h)
    · rw [List.mem_singleton] at h
      exact Or.inr h

/-! ### the application records of the rounds -/

/-- `nodeRmApp` (= `relAppT .unknown` kept live): the clauses hold for the record although it may be terminated now -/
theorem appLife_nodeRmApp (key : String) (i : CItem) (a : CApp) (hl : a.live = true) (hba : AppBooks a) (hwa : AppWF a)
    (him : i ∈ a.items) (hkey : i.key = key) (hbd : i.bound = true) (h : AppLife a) : AppLife (nodeRmApp key i a) := by
  have hitems : ∀ y ∈ (nodeRmApp key i a).items, ∃ x ∈ a.items, y.res = x.res ∧ y.ph = x.ph ∧ (y.bound = true → x.bound = true) := by
    intro y hy
    rw [nodeRmApp_items] at hy
    obtain ⟨x, hx, h1, h2, _, _, _, h6⟩ := mem_unbound' hy
    exact ⟨x, hx, h1, h2, h6⟩
  have hba' : AppBooks (nodeRmApp key i a) :=
    AppBooks.congr (a := relAppT .unknown key i a) rfl rfl rfl rfl (appBooks_relAppT .unknown key i a hba hwa him hkey hbd)
  have hwa' : AppWF (nodeRmApp key i a) :=
    AppWF.congr (a := relAppT .unknown key i a) rfl rfl rfl rfl (appWF_relAppT .unknown key i a hwa)
  have hpos' : ∀ y ∈ (nodeRmApp key i a).items, PosRes y.res := by
    intro y hy
    obtain ⟨x, hx, hr, _, _⟩ := hitems y hy
    rw [hr]; exact h.pos hl x hx
  obtain ⟨z1, z2, _⟩ := AppBooks.none_of_zero hba' hwa' hpos'
  obtain ⟨f1, f2, f3⟩ := relAppT_state_facts key i a
  have hlive : (nodeRmApp key i a).live = true := rfl
  refine ⟨fun _ => hpos', ?_, ?_, ?_⟩
  · intro _ hs y hy hb
    rcases f1 hs with h1 | ⟨h1, _⟩
    · obtain ⟨x, hx, _, hp, hbx⟩ := hitems y hy
      rw [hp]; exact h.completingNoReal hl h1 x hx (hbx hb)
    · exact z1 h1 y hy hb
  · intro ht y hy hb
    rcases ht with ht | ht
    · rw [hlive] at ht; cases ht
    · rcases f2 ht with h1 | h1 | ⟨hph, hs⟩
      · obtain ⟨x, hx, _, hp, hbx⟩ := hitems y hy
        rw [hp]; exact h.noPhOrphan (Or.inr h1) x hx (hbx hb)
      · exact z2 h1 y hy hb
      · have := h.completingNoReal hl hs i him hbd
        rw [hph] at this; cases this
  · intro hs y hy hb
    obtain ⟨x, hx, _, hp, hbx⟩ := hitems y hy
    rw [hp]
    rcases f3 hs with h1 | h1
    · exact h.completedNoReal h1 x hx (hbx hb)
    · exact h.completingNoReal hl h1 x hx (hbx hb)

/-- the clause about asks: Completing is entered only with a pending total of zero, Completed only from Completing -/
theorem appNoPend_nodeRmApp (key : String) (i : CItem) (a : CApp) (hl : a.live = true) (hba : AppBooks a) (hwa : AppWF a)
    (hL : AppLife a) (h : AppNoPend a) : AppNoPend (nodeRmApp key i a) := by
  have hitems : ∀ y ∈ (nodeRmApp key i a).items, ∃ x ∈ a.items, y.outstanding = x.outstanding := by
    intro y hy
    rw [nodeRmApp_items] at hy
    obtain ⟨x, hx, _, _, h3, h4, _, _⟩ := mem_unbound' hy
    exact ⟨x, hx, by unfold CItem.outstanding; rw [h3, h4]⟩
  obtain ⟨_, _, z3⟩ := AppBooks.none_of_zero hba hwa (hL.pos hl)
  obtain ⟨f1, _, f3⟩ := relAppT_state_facts key i a
  refine ⟨?_, ?_⟩
  · intro _ hs y hy
    obtain ⟨x, hx, ho⟩ := hitems y hy
    rw [ho]
    rcases f1 hs with h1 | ⟨_, h1⟩
    · exact h.completingNoPending hl h1 x hx
    · exact z3 h1 x hx
  · intro hs y hy
    obtain ⟨x, hx, ho⟩ := hitems y hy
    rw [ho]
    rcases f3 hs with h1 | h1
    · exact h.completedNoAsk h1 x hx
    · exact h.completingNoPending hl h1 x hx

/-- `confirmApp` (= `replApp` kept live): the real allocation `r` becomes bound, its size is positive -/
theorem appLife_confirmApp (i r : CItem) (a : CApp) (hl : a.live = true) (hba : AppBooks a) (hwa : AppWF a)
    (hok : ReplOK a i r) (hr : PosRes r.res) (h : AppLife a) : AppLife (confirmApp i r a) := by
  have hitems : (confirmApp i r a).items = replItems i r a.items := replApp_items i r a
  have hba' : AppBooks (confirmApp i r a) :=
    AppBooks.congr (a := replApp i r a) rfl rfl rfl rfl (appBooks_replApp a i r hba hwa hok)
  have hwa' : AppWF (confirmApp i r a) := AppWF.congr (a := replApp i r a) rfl rfl rfl rfl (appWF_replApp a i r hwa hok)
  have hpos' : ∀ y ∈ (confirmApp i r a).items, PosRes y.res := by
    intro y hy
    rw [hitems] at hy
    rcases mem_replItems' hy with ⟨x, hx, hres, _⟩ | rfl
    · rw [hres]; exact h.pos hl x hx
    · exact hr
  obtain ⟨_, z2, _⟩ := AppBooks.none_of_zero hba' hwa' hpos'
  obtain ⟨f1, f2, f3⟩ := replApp_state_facts i r a
  -- the application is not terminated: it holds the bound placeholder `i`
  have hnt : ¬ terminated a.state = true := by
    intro ht
    have := h.noPhOrphan (Or.inr ht) i hok.pIn hok.pBound
    rw [hok.pPh] at this; cases this
  have hlive : (confirmApp i r a).live = true := rfl
  have hterm : terminated (confirmApp i r a).state = true → ∀ y ∈ (confirmApp i r a).items, y.bound = true → y.ph = false := by
    intro ht y hy hb
    rcases f2 ht with h1 | h1
    · exact z2 h1 y hy hb
    · exact absurd h1 hnt
  refine ⟨fun _ => hpos', ?_, ?_, ?_⟩
  · intro _ hs; exact absurd hs f1
  · intro ht
    rcases ht with ht | ht
    · rw [hlive] at ht; cases ht
    · exact hterm ht
  · intro hs y hy hb
    -- Completed here would have come from a terminated state
    exfalso
    have h1 : a.state = "Completed" := f3 hs
    exact hnt (by rw [h1]; decide)

/-! ### `nodeRmBound` -/

theorem lifeCore_nodeRmBound (c : Core) (app key : String) (hw : CoreWF c) (hb : Books c) (h : LifeCore c) :
    LifeCore (nodeRmBound c app key) := by
  cases hfind : c.findApp app with
  | none => unfold nodeRmBound; simp only [hfind]; exact h
  | some a =>
    cases hitem : a.items.find? (·.key == key) with
    | none => unfold nodeRmBound; simp only [hfind, hitem]; exact h
    | some i =>
      cases hbd : i.bound with
      | false =>
        unfold nodeRmBound
        simp only [hfind, hitem, hbd, Bool.not_false, if_true]
        exact h
      | true =>
        obtain ⟨ham, hl, _⟩ := findApp_some hfind
        obtain ⟨him, hkey⟩ := find_key_some hitem
        obtain ⟨hta, _, htn⟩ := nodeRmBound_lists c app key a i hfind hitem hbd
        exact lifeCore_setApp hw hfind _ hta htn h
          (appLife_nodeRmApp key i a hl (hb.apps a ham hl) (hw.app ham hl) him hkey hbd (app_of_lifeCore h ham))

theorem noPend_nodeRmBound (c : Core) (app key : String) (hw : CoreWF c) (hb : Books c) (hL : LifeCore c)
    (h : NoPendInv c) : NoPendInv (nodeRmBound c app key) := by
  cases hfind : c.findApp app with
  | none => unfold nodeRmBound; simp only [hfind]; exact h
  | some a =>
    cases hitem : a.items.find? (·.key == key) with
    | none => unfold nodeRmBound; simp only [hfind, hitem]; exact h
    | some i =>
      cases hbd : i.bound with
      | false =>
        unfold nodeRmBound
        simp only [hfind, hitem, hbd, Bool.not_false, if_true]
        exact h
      | true =>
        obtain ⟨ham, hl, _⟩ := findApp_some hfind
        obtain ⟨hta, _, _⟩ := nodeRmBound_lists c app key a i hfind hitem hbd
        exact noPend_setApp hw hfind _ hta h
          (appNoPend_nodeRmApp key i a hl (hb.apps a ham hl) (hw.app ham hl) (app_of_lifeCore hL ham) (app_of_noPend h ham))

/-! ### the reversal branches: flags only -/

theorem appLife_unlinkApp (k1 k2 : String) (a : CApp) (h : AppLife a) : AppLife (unlinkApp k1 k2 a) := by
  refine AppLife.of_sub (a := a) (b := unlinkApp k1 k2 a) rfl rfl ?_ h
  intro y hy
  have hy' : y ∈ updItem k2 (fun x => { x with release := none }) (updItem k1 (fun x => { x with release := none }) a.items) := hy
  exact flags_updItem2 hy' (fun _ => ⟨rfl, rfl, rfl⟩) (fun _ => ⟨rfl, rfl, rfl⟩)

theorem appLife_deallocApp (key other : String) (r : CItem) (a : CApp) (h : AppLife a) : AppLife (deallocApp key other r a) := by
  refine AppLife.of_sub (a := a) (b := deallocApp key other r a) rfl rfl ?_ h
  intro y hy
  have hy' : y ∈ updItem other (fun x => { x with release := none })
      (updItem key (fun x => { x with allocated := false, release := none }) a.items) := hy
  exact flags_updItem2 hy' (fun _ => ⟨rfl, rfl, rfl⟩) (fun _ => ⟨rfl, rfl, rfl⟩)

/-- a Completing application runs again: state, log and timer only; Running is neither Completing nor terminated -/
theorem appLife_runAgain (a : CApp) (h : AppLife a) : AppLife (runAgain a) := by
  by_cases hs : a.state = "Completing"
  · have hst : (runAgain a).state = "Running" := by rw [runAgain_state, if_pos hs]
    refine ⟨?_, ?_, ?_, ?_⟩
    · intro hl y hy
      rw [runAgain_items] at hy; rw [runAgain_live] at hl
      exact h.pos hl y hy
    · intro _ hc; rw [hst] at hc; exact absurd hc (by decide)
    · intro ht y hy hb
      rw [runAgain_items] at hy
      rw [runAgain_live, hst] at ht
      rcases ht with ht | ht
      · exact h.noPhOrphan (Or.inl ht) y hy hb
      · exact absurd ht (by decide)
    · intro hc; rw [hst] at hc; exact absurd hc (by decide)
  · rw [runAgain_of_ne a hs]; exact h

theorem appLife_deallocAppRun (key other : String) (r : CItem) (a : CApp) (h : AppLife a) :
    AppLife (deallocAppRun key other r a) := appLife_runAgain _ (appLife_deallocApp key other r a h)

theorem lifeCore_unlink (c : Core) (app k1 k2 : String) (h : LifeCore c) : LifeCore (updApp c app (unlinkApp k1 k2)) := by
  refine lifeCore_of_apps ?_ h.posNode
  intro b hb
  obtain ⟨x, hx, rfl⟩ := List.mem_map.mp hb
  split
  · exact appLife_unlinkApp k1 k2 x (app_of_lifeCore h hx)
  · exact app_of_lifeCore h hx

theorem lifeCore_dealloc (c : Core) (app key other : String) (r : CItem) (chain : List String) (fq : CQueue → CQueue)
    (h : LifeCore c) : LifeCore (updQueues (updApp c app (deallocAppRun key other r)) chain fq) := by
  refine lifeCore_of_apps ?_ h.posNode
  intro b hb
  obtain ⟨x, hx, rfl⟩ := List.mem_map.mp hb
  split
  · exact appLife_deallocAppRun key other r x (app_of_lifeCore h hx)
  · exact app_of_lifeCore h hx

/-! ### the swap confirmed by the removal of the placeholder's node -/

/-- what `findReal` finds has a positive size: an item of the application, or a copy of a node entry -/
theorem findReal_pos {c : Core} {a : CApp} {rk : String} {r : CItem} (h : LifeCore c) (ha : a ∈ c.apps) (hl : a.live = true)
    (hreal : findReal c a rk = some r) : PosRes r.res := by
  unfold findReal at hreal
  split at hreal
  · rename_i r' hf
    have : r' = r := Option.some.inj hreal
    subst this
    exact h.pos a ha hl r' (List.mem_of_find?_eq_some hf)
  · obtain ⟨n, hn, hx⟩ := List.exists_of_findSome?_eq_some hreal
    rw [Option.map_eq_some_iff] at hx
    obtain ⟨x, hfx, rfl⟩ := hx
    have hxm := List.mem_of_find?_eq_some hfx
    have hxp := List.find?_some hfx
    simp only [Bool.and_eq_true, beq_iff_eq, Bool.not_eq_true'] at hxp
    exact h.posNode n hn x hxm hxp.2

theorem lifeCore_confirm (c : Core) (app : String) (a : CApp) (i r : CItem) (chain : List String) (fq : CQueue → CQueue)
    (hw : CoreWF c) (hb : Books c) (h : LifeCore c) (hfind : c.findApp app = some a) (hok : ReplOK a i r)
    (hr : PosRes r.res) :
    LifeCore (updQueues (updApp c app (fun _ => { replApp i r a with live := true })) chain fq) := by
  obtain ⟨ham, hl, _⟩ := findApp_some hfind
  exact lifeCore_setApp hw hfind (fun _ => confirmApp i r a) rfl rfl h
    (appLife_confirmApp i r a hl (hb.apps a ham hl) (hw.app ham hl) hok hr (app_of_lifeCore h ham))

end LifeD

/-! ### one round of the loop of removeNodeAllocations -/

open LifeD in
/-- item 1: one round of the loop keeps `LifeCore` (an application that terminates in the round stays listed as live) -/
theorem lifeCore_nodeRmAlloc (c : Core) (nodeId app key : String) (hw : CoreWF c) (hb : Books c) (h : LifeCore c)
    (hok : NodeRmOK c nodeId app key) : LifeCore (nodeRmAlloc c nodeId app key) := by
  cases hfind : c.findApp app with
  | none => unfold nodeRmAlloc; simp only [hfind]; exact h
  | some a =>
    cases hitem : a.items.find? (·.key == key) with
    | none => unfold nodeRmAlloc; simp only [hfind, hitem]; exact h
    | some i =>
      obtain ⟨ham, hl, _⟩ := findApp_some hfind
      obtain ⟨him, hkey⟩ := find_key_some hitem
      cases hrel : i.release with
      | none => rw [nodeRmAlloc_plain c nodeId app key a i hfind hitem hrel]; exact lifeCore_nodeRmBound c app key hw hb h
      | some rk =>
        cases hph : i.ph with
        | true =>
          cases hreal : findReal c a rk with
          | none =>
            rw [nodeRmAlloc_noReal c nodeId app key a i rk hfind hitem hrel hph hreal]
            obtain ⟨hb1, hw1⟩ := unlink_props c app rk key hw hb
            exact lifeCore_nodeRmBound _ app key hw1 hb1 (lifeCore_unlink c app rk key h)
          | some r =>
            cases hnode : (r.node != nodeId) with
            | true =>
              rw [nodeRmAlloc_other c nodeId app key a i rk r hfind hitem hrel hph hreal hnode]
              cases hbd : i.bound with
              | false => simp only [Bool.not_false, if_true]; exact h
              | true =>
                simp only [Bool.not_true, Bool.false_eq_true, if_false]
                obtain ⟨hrepl, _⟩ := hok.confirm a i rk r hfind hitem hrel hph hreal (by simpa using hnode) hbd
                exact lifeCore_confirm c app a i r _ _ hw hb h hfind hrepl (findReal_pos h ham hl hreal)
            | false =>
              rw [nodeRmAlloc_same c nodeId app key a i rk r hfind hitem hrel hph hreal hnode]
              cases hc : (r.inReq && r.allocated) with
              | true =>
                simp only [if_true]
                simp only [Bool.and_eq_true] at hc
                obtain ⟨hrm, hrk⟩ := find_key_some (findReal_inReq hreal hc.1)
                obtain ⟨hnb, hsat⟩ := hok.sameNode a i rk r hfind hitem hrel hph hreal (by simpa using hnode) hc.1 hc.2
                obtain ⟨hb1, hw1⟩ := dealloc_props c app rk key a r hw hb hfind hrm hrk hc.1 hc.2 hnb hsat
                exact lifeCore_nodeRmBound _ app key hw1 hb1 (lifeCore_dealloc c app rk key r _ _ h)
              | false =>
                simp only [Bool.false_eq_true, if_false]
                obtain ⟨hb1, hw1⟩ := unlink_props c app rk key hw hb
                exact lifeCore_nodeRmBound _ app key hw1 hb1 (lifeCore_unlink c app rk key h)
        | false =>
          rw [nodeRmAlloc_parked c nodeId app key a i rk hfind hitem hrel hph]
          cases hc : (i.inReq && i.allocated) with
          | true =>
            simp only [if_true]
            simp only [Bool.and_eq_true] at hc
            obtain ⟨hnb, hsat⟩ := hok.parked a i rk hfind hitem hrel hph hc.1 hc.2
            obtain ⟨hb1, hw1⟩ := dealloc_props c app key rk a i hw hb hfind him hkey hc.1 hc.2 hnb hsat
            exact lifeCore_nodeRmBound _ app key hw1 hb1 (lifeCore_dealloc c app key rk i _ _ h)
          | false =>
            simp only [Bool.false_eq_true, if_false]
            obtain ⟨hb1, hw1⟩ := unlink_props c app rk key hw hb
            exact lifeCore_nodeRmBound _ app key hw1 hb1 (lifeCore_unlink c app rk key h)

/-- item 2: the loop over the allocations of the node -/
theorem lifeCore_nodeLoop (nodeId : String) (l : List (String × String)) (c : Core) (hw : CoreWF c) (hb : Books c)
    (h : LifeCore c) (hok : NodeLoopOK nodeId c l) : LifeCore (l.foldl (fun c p => nodeRmAlloc c nodeId p.1 p.2) c) := by
  induction l generalizing c with
  | nil => exact h
  | cons p t ih =>
    obtain ⟨h1, h2⟩ := hok
    obtain ⟨hb1, hw1⟩ := nodeRmAlloc_props c nodeId p.1 p.2 hw hb h1
    exact ih (nodeRmAlloc c nodeId p.1 p.2) hw1 hb1 (lifeCore_nodeRmAlloc c nodeId p.1 p.2 hw hb h h1) h2

/-! ### the reservations on the node -/

namespace LifeD

/-- `unreserveOn` only rewrites the reservation lists of the applications -/
theorem unreserveOn_apps (c : Core) (id k : String) :
    ∃ g : CApp → CApp, (unreserveOn c id k).apps = c.apps.map g ∧
      ∀ x, (g x).live = x.live ∧ (g x).id = x.id ∧ (g x).state = x.state ∧ (g x).items = x.items := by
  unfold unreserveOn
  split
  · exact ⟨fun x => x, by simp, fun _ => ⟨rfl, rfl, rfl, rfl⟩⟩
  · rename_i a _
    refine ⟨fun x => if x.live && x.id == a.id then { x with reservations := x.reservations.filter (· != (k, id)) } else x,
      rfl, ?_⟩
    intro x
    dsimp only
    split <;> exact ⟨rfl, rfl, rfl, rfl⟩

end LifeD

open LifeD in
theorem lifeCore_unreserveOn (c : Core) (id k : String) (h : LifeCore c) : LifeCore (unreserveOn c id k) := by
  obtain ⟨g, hta, hg⟩ := unreserveOn_apps c id k
  exact lifeCore_map g hta (unreserveOn_nodes c id k) (fun x => ⟨(hg x).1, (hg x).2.2.1, (hg x).2.2.2⟩) h

open LifeD in
theorem lifeInv_unreserveOn (c : Core) (id k : String) (h : LifeInv c) : LifeInv (unreserveOn c id k) := by
  obtain ⟨g, hta, hg⟩ := unreserveOn_apps c id k
  exact { toLifeCore := lifeCore_unreserveOn c id k h.toLifeCore
          termGone := termGone_map g hta (fun x => ⟨(hg x).1, (hg x).2.2.1, (hg x).2.2.2⟩) h.termGone }

open LifeD in
theorem nopend_unreserveOn (c : Core) (id k : String) (h : NoPendInv c) : NoPendInv (unreserveOn c id k) := by
  obtain ⟨g, hta, hg⟩ := unreserveOn_apps c id k
  exact noPend_map g hta (fun x => ⟨(hg x).1, (hg x).2.2.1, (hg x).2.2.2⟩) h

theorem lifeCore_unreserveFold (id : String) (l : List String) (c : Core) (h : LifeCore c) :
    LifeCore (l.foldl (fun c k => unreserveOn c id k) c) := by
  induction l generalizing c with
  | nil => exact h
  | cons k t ih => exact ih (unreserveOn c id k) (lifeCore_unreserveOn c id k h)

theorem lifeInv_unreserveFold (id : String) (l : List String) (c : Core) (h : LifeInv c) :
    LifeInv (l.foldl (fun c k => unreserveOn c id k) c) := by
  induction l generalizing c with
  | nil => exact h
  | cons k t ih => exact ih (unreserveOn c id k) (lifeInv_unreserveOn c id k h)

theorem nopend_unreserveFold (id : String) (l : List String) (c : Core) (h : NoPendInv c) :
    NoPendInv (l.foldl (fun c k => unreserveOn c id k) c) := by
  induction l generalizing c with
  | nil => exact h
  | cons k t ih => exact ih (unreserveOn c id k) (nopend_unreserveOn c id k h)

/-! ### the node is dropped -/

theorem lifeCore_dropNode (c : Core) (id : String) (t t' : Res) (h : LifeCore c) :
    LifeCore (setRootMax { c with nodes := c.nodes.filter (·.id != id), total := t } t') :=
  ⟨h.pos, fun n hn => h.posNode n (List.mem_filter.mp hn).1, h.completingNoReal, h.noPhOrphan, h.completedNoReal⟩

theorem lifeInv_dropNode (c : Core) (id : String) (t t' : Res) (h : LifeInv c) :
    LifeInv (setRootMax { c with nodes := c.nodes.filter (·.id != id), total := t } t') :=
  { toLifeCore := lifeCore_dropNode c id t t' h.toLifeCore, termGone := h.termGone }

theorem nopend_dropNode (c : Core) (id : String) (t t' : Res) (h : NoPendInv c) :
    NoPendInv (setRootMax { c with nodes := c.nodes.filter (·.id != id), total := t } t') :=
  ⟨h.completingNoPending, h.completedNoAsk⟩

/-! ### the clause about asks -/

/-- No application touched by the removal of node `id` has a placeholder swap in flight: then no round of the loop rolls
    a replacement back, every round is the plain release.  (Before the repair 20ee082 the roll-back was the exception of
    `NoPendInv` and this was the side condition of its preservation; it is no longer needed — `nopendMid_nodeRmAlloc`
    below — and only kept as the hypothesis of the `_partial` form of the C10 theorem.) -/
def NoRollback (s : Core) (id : String) (order : List (String × String)) : Prop :=
  ∀ n, s.findNode id = some n → ∀ p ∈ order ++ nodeRest n order, ∀ a, s.findApp p.1 = some a →
    ∀ i ∈ a.items, i.release = none

/-! ### item updates that keep what `outstanding` reads -/

namespace LifeD

theorem out_updItem {k : String} {g : CItem → CItem} {l : List CItem} {y : CItem} (hy : y ∈ updItem k g l)
    (hg : ∀ x, (g x).inReq = x.inReq ∧ (g x).allocated = x.allocated) : ∃ x ∈ l, y.outstanding = x.outstanding := by
  obtain ⟨x, hx, h | h⟩ := mem_updItem hy
  · obtain ⟨_, rfl⟩ := h
    exact ⟨x, hx, by unfold CItem.outstanding; rw [(hg x).1, (hg x).2]⟩
  · obtain ⟨_, rfl⟩ := h; exact ⟨y, hx, rfl⟩

end LifeD

/-! ### the clause about asks, in full: a round that rolls a replacement back moves a Completing application back to
  Running (`deallocAppRun`, repair 20ee082), so the loop keeps the clause in its mid-removal form `NoPendMid` -/

namespace LifeD

theorem appMid_of_live {a : CApp} (hl : a.live = true)
    (h : a.state = "Completing" → ∀ i ∈ a.items, i.outstanding = false) : AppNoPendMid a :=
  ⟨fun _ => h, fun hf => by rw [hl] at hf; cases hf⟩

theorem appMid_of_sub {a b : CApp} (hl : b.live = a.live) (hs : b.state = a.state)
    (hi : ∀ y ∈ b.items, ∃ x ∈ a.items, y.outstanding = x.outstanding) (h : AppNoPendMid a) : AppNoPendMid b := by
  refine ⟨?_, ?_⟩
  · intro hlb hsb y hy
    obtain ⟨x, hx, ho⟩ := hi y hy
    rw [ho]; exact h.completingNoPending (hl ▸ hlb) (hs ▸ hsb) x hx
  · intro hlb hsb y hy
    obtain ⟨x, hx, ho⟩ := hi y hy
    rw [ho]; exact h.completedNoAsk (hl ▸ hlb) (hs ▸ hsb) x hx

theorem mid_setApp {c t : Core} (hw : CoreWF c) {app : String} {a : CApp} (hfind : c.findApp app = some a)
    (f : CApp → CApp) (hta : t.apps = updApps c.apps app f) (h : NoPendMid c) (hf : AppNoPendMid (f a)) : NoPendMid t := by
  obtain ⟨ham, hl, hid⟩ := findApp_some hfind
  intro b hb
  rw [hta] at hb
  rcases mem_updApps hw.appIds ham hl hid hb with rfl | ⟨hbs, _⟩
  · exact hf
  · exact h b hbs

theorem mid_map {c t : Core} (g : CApp → CApp) (hta : t.apps = c.apps.map g)
    (hg : ∀ x, (g x).live = x.live ∧ (g x).state = x.state ∧ (g x).items = x.items) (h : NoPendMid c) : NoPendMid t := by
  intro b hb
  rw [hta] at hb
  obtain ⟨x, hx, rfl⟩ := List.mem_map.mp hb
  obtain ⟨h1, h2, h3⟩ := hg x
  exact appMid_of_sub h1 h2 (fun y hy => ⟨y, by rw [← h3]; exact hy, rfl⟩) (h x hx)

/-- the released allocation: Completing is entered only with a pending total of zero; the record stays listed as live -/
theorem appMid_nodeRmApp (key : String) (i : CItem) (a : CApp) (hl : a.live = true) (hba : AppBooks a) (hwa : AppWF a)
    (hL : AppLife a) (h : AppNoPendMid a) : AppNoPendMid (nodeRmApp key i a) := by
  have hitems : ∀ y ∈ (nodeRmApp key i a).items, ∃ x ∈ a.items, y.outstanding = x.outstanding := by
    intro y hy
    rw [nodeRmApp_items] at hy
    obtain ⟨x, hx, _, _, h3, h4, _, _⟩ := mem_unbound' hy
    exact ⟨x, hx, by unfold CItem.outstanding; rw [h3, h4]⟩
  obtain ⟨_, _, z3⟩ := AppBooks.none_of_zero hba hwa (hL.pos hl)
  obtain ⟨f1, _, _⟩ := relAppT_state_facts key i a
  refine appMid_of_live rfl ?_
  intro hs y hy
  obtain ⟨x, hx, ho⟩ := hitems y hy
  rw [ho]
  rcases f1 hs with h1 | ⟨_, h1⟩
  · exact h.completingNoPending hl h1 x hx
  · exact z3 h1 x hx

theorem mid_nodeRmBound (c : Core) (app key : String) (hw : CoreWF c) (hb : Books c) (hL : LifeCore c)
    (h : NoPendMid c) : NoPendMid (nodeRmBound c app key) := by
  cases hfind : c.findApp app with
  | none => unfold nodeRmBound; simp only [hfind]; exact h
  | some a =>
    cases hitem : a.items.find? (·.key == key) with
    | none => unfold nodeRmBound; simp only [hfind, hitem]; exact h
    | some i =>
      cases hbd : i.bound with
      | false =>
        unfold nodeRmBound
        simp only [hfind, hitem, hbd, Bool.not_false, if_true]
        exact h
      | true =>
        obtain ⟨ham, hl, _⟩ := findApp_some hfind
        obtain ⟨hta, _, _⟩ := nodeRmBound_lists c app key a i hfind hitem hbd
        exact mid_setApp hw hfind _ hta h
          (appMid_nodeRmApp key i a hl (hb.apps a ham hl) (hw.app ham hl) (app_of_lifeCore hL ham) (h a ham))

theorem appMid_unlinkApp (k1 k2 : String) (a : CApp) (h : AppNoPendMid a) : AppNoPendMid (unlinkApp k1 k2 a) := by
  refine appMid_of_sub (a := a) (b := unlinkApp k1 k2 a) rfl rfl ?_ h
  intro y hy
  have hy' : y ∈ updItem k2 (fun x => { x with release := none }) (updItem k1 (fun x => { x with release := none }) a.items) := hy
  obtain ⟨z, hz, e1⟩ := out_updItem hy' (fun _ => ⟨rfl, rfl⟩)
  obtain ⟨x, hx, e2⟩ := out_updItem hz (fun _ => ⟨rfl, rfl⟩)
  exact ⟨x, hx, e1.trans e2⟩

theorem mid_unlink (c : Core) (app k1 k2 : String) (h : NoPendMid c) : NoPendMid (updApp c app (unlinkApp k1 k2)) := by
  intro b hb
  obtain ⟨x, hx, rfl⟩ := List.mem_map.mp hb
  split
  · exact appMid_unlinkApp k1 k2 x (h x hx)
  · exact h x hx

/-- the replacement rolled back: the ask is outstanding again, and the application is not Completing (`runAgain`) -/
theorem mid_dealloc (c : Core) (app key other : String) (r : CItem) (chain : List String) (fq : CQueue → CQueue)
    (h : NoPendMid c) : NoPendMid (updQueues (updApp c app (deallocAppRun key other r)) chain fq) := by
  intro b hb
  obtain ⟨x, hx, rfl⟩ := List.mem_map.mp hb
  split
  · rename_i hc
    simp only [Bool.and_eq_true] at hc
    exact appMid_of_live ((runAgain_live _).trans hc.1) (fun hs => absurd hs (runAgain_state_ne _))
  · exact h x hx

/-- the confirmed swap: never Completing afterwards; the record stays listed as live -/
theorem appMid_confirmApp (i r : CItem) (a : CApp) : AppNoPendMid (confirmApp i r a) :=
  appMid_of_live rfl (fun hs => absurd hs (replApp_state_facts i r a).1)

end LifeD

open LifeD in
/-- one round of the loop keeps the clause about asks (mid-removal form), whatever the round does -/
theorem nopendMid_nodeRmAlloc (c : Core) (nodeId app key : String) (hw : CoreWF c) (hb : Books c) (hL : LifeCore c)
    (hP : NoPendMid c) (hok : NodeRmOK c nodeId app key) : NoPendMid (nodeRmAlloc c nodeId app key) := by
  cases hfind : c.findApp app with
  | none => unfold nodeRmAlloc; simp only [hfind]; exact hP
  | some a =>
    cases hitem : a.items.find? (·.key == key) with
    | none => unfold nodeRmAlloc; simp only [hfind, hitem]; exact hP
    | some i =>
      obtain ⟨him, hkey⟩ := find_key_some hitem
      cases hrel : i.release with
      | none =>
        rw [nodeRmAlloc_plain c nodeId app key a i hfind hitem hrel]; exact mid_nodeRmBound c app key hw hb hL hP
      | some rk =>
        cases hph : i.ph with
        | true =>
          cases hreal : findReal c a rk with
          | none =>
            rw [nodeRmAlloc_noReal c nodeId app key a i rk hfind hitem hrel hph hreal]
            obtain ⟨hb1, hw1⟩ := unlink_props c app rk key hw hb
            exact mid_nodeRmBound _ app key hw1 hb1 (lifeCore_unlink c app rk key hL) (mid_unlink c app rk key hP)
          | some r =>
            cases hnode : (r.node != nodeId) with
            | true =>
              rw [nodeRmAlloc_other c nodeId app key a i rk r hfind hitem hrel hph hreal hnode]
              cases hbd : i.bound with
              | false => simp only [Bool.not_false, if_true]; exact hP
              | true =>
                simp only [Bool.not_true, Bool.false_eq_true, if_false]
                exact mid_setApp hw hfind (fun _ => confirmApp i r a) rfl hP (appMid_confirmApp i r a)
            | false =>
              rw [nodeRmAlloc_same c nodeId app key a i rk r hfind hitem hrel hph hreal hnode]
              cases hc : (r.inReq && r.allocated) with
              | true =>
                simp only [if_true]
                simp only [Bool.and_eq_true] at hc
                obtain ⟨hrm, hrk⟩ := find_key_some (findReal_inReq hreal hc.1)
                obtain ⟨hnb, hsat⟩ := hok.sameNode a i rk r hfind hitem hrel hph hreal (by simpa using hnode) hc.1 hc.2
                obtain ⟨hb1, hw1⟩ := dealloc_props c app rk key a r hw hb hfind hrm hrk hc.1 hc.2 hnb hsat
                exact mid_nodeRmBound _ app key hw1 hb1 (lifeCore_dealloc c app rk key r _ _ hL)
                  (mid_dealloc c app rk key r _ _ hP)
              | false =>
                simp only [Bool.false_eq_true, if_false]
                obtain ⟨hb1, hw1⟩ := unlink_props c app rk key hw hb
                exact mid_nodeRmBound _ app key hw1 hb1 (lifeCore_unlink c app rk key hL) (mid_unlink c app rk key hP)
        | false =>
          rw [nodeRmAlloc_parked c nodeId app key a i rk hfind hitem hrel hph]
          cases hc : (i.inReq && i.allocated) with
          | true =>
            simp only [if_true]
            simp only [Bool.and_eq_true] at hc
            obtain ⟨hnb, hsat⟩ := hok.parked a i rk hfind hitem hrel hph hc.1 hc.2
            obtain ⟨hb1, hw1⟩ := dealloc_props c app key rk a i hw hb hfind him hkey hc.1 hc.2 hnb hsat
            exact mid_nodeRmBound _ app key hw1 hb1 (lifeCore_dealloc c app key rk i _ _ hL)
              (mid_dealloc c app key rk i _ _ hP)
          | false =>
            simp only [Bool.false_eq_true, if_false]
            obtain ⟨hb1, hw1⟩ := unlink_props c app rk key hw hb
            exact mid_nodeRmBound _ app key hw1 hb1 (lifeCore_unlink c app rk key hL) (mid_unlink c app rk key hP)

theorem nopendMid_nodeLoop (nodeId : String) (l : List (String × String)) (c : Core) (hw : CoreWF c) (hb : Books c)
    (hL : LifeCore c) (hP : NoPendMid c) (hok : NodeLoopOK nodeId c l) :
    NoPendMid (l.foldl (fun c p => nodeRmAlloc c nodeId p.1 p.2) c) := by
  induction l generalizing c with
  | nil => exact hP
  | cons p t ih =>
    obtain ⟨h1, h2⟩ := hok
    obtain ⟨hb1, hw1⟩ := nodeRmAlloc_props c nodeId p.1 p.2 hw hb h1
    exact ih (nodeRmAlloc c nodeId p.1 p.2) hw1 hb1 (lifeCore_nodeRmAlloc c nodeId p.1 p.2 hw hb hL h1)
      (nopendMid_nodeRmAlloc c nodeId p.1 p.2 hw hb hL hP h1) h2

open LifeD in
theorem nopendMid_unreserveFold (id : String) (l : List String) (c : Core) (h : NoPendMid c) :
    NoPendMid (l.foldl (fun c k => unreserveOn c id k) c) := by
  induction l generalizing c with
  | nil => exact h
  | cons k t ih =>
    obtain ⟨g, hta, hg⟩ := unreserveOn_apps c id k
    exact ih (unreserveOn c id k) (mid_map g hta (fun x => ⟨(hg x).1, (hg x).2.2.1, (hg x).2.2.2⟩) h)

/-! ### the body of `nodeRemove` up to the end of the loop -/

/-- `LifeCore` after the loop of `nodeRemove` (the state before `sweepTerminated`) -/
theorem lifeCore_nodeRemove_loop (s : Core) (id : String) (order : List (String × String)) (hw : CoreWF s) (hb : Books s)
    (hl : LifeInv s) (hok : NodeRemoveOK s id order) {n : CNode} (hn : s.findNode id = some n) :
    LifeCore ((order ++ nodeRest n order).foldl (fun c p => nodeRmAlloc c id p.1 p.2)
      (n.reservations.foldl (fun c k => unreserveOn c id k) s)) := by
  obtain ⟨hb0, hw0, _⟩ := unreserveFold_props id n.reservations s hw hb
  exact lifeCore_nodeLoop id _ _ hw0 hb0 (lifeCore_unreserveFold id n.reservations s hl.toLifeCore) (hok n hn)

/-- `NoPendMid` after the loop of `nodeRemove` (the state before `sweepTerminated`): no side condition beyond those of
    the node removal itself -/
theorem nopendMid_nodeRemove_loop (s : Core) (id : String) (order : List (String × String)) (hw : CoreWF s) (hb : Books s)
    (hl : LifeInv s) (hp : NoPendInv s) (hok : NodeRemoveOK s id order) {n : CNode} (hn : s.findNode id = some n) :
    NoPendMid ((order ++ nodeRest n order).foldl (fun c p => nodeRmAlloc c id p.1 p.2)
      (n.reservations.foldl (fun c k => unreserveOn c id k) s)) := by
  obtain ⟨hb0, hw0, _⟩ := unreserveFold_props id n.reservations s hw hb
  exact nopendMid_nodeLoop id _ _ hw0 hb0 (lifeCore_unreserveFold id n.reservations s hl.toLifeCore)
    (nopendMid_unreserveFold id n.reservations s hp.mid) (hok n hn)

end Yk
