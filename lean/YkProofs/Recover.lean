/-
  Proofs for YkProps/C12 (restart recovery): the replay model of YkModel/Recover.lean.
    1. every replayed item keeps the books balanced (`Books`, YkProofs/Core.lean) — whatever the order, the queue tree,
       the quotas;
    2. every per-application and per-node total of the rebuilt state is the total recomputed from the accepted items;
    3. an item whose node / application is registered is accepted: no limit is looked at;
    4. old core against restarted core.
-/
import YkModel.Recover
import YkProofs.Core
namespace Yk
open Res Core

/-! ### well-formedness kept by the replay (the part of `CoreWF` the replay operations need) -/

structure RWF (s : Core) : Prop where
  /-- partition.applications is a map -/
  appIds : s.apps.Pairwise (fun a b => a.live = true → b.live = true → a.id ≠ b.id)
  /-- the vectors are Go maps -/
  appRes : ∀ a ∈ s.apps, a.live = true → wf a.pending = true ∧ wf a.allocated = true ∧ wf a.allocatedPh = true
  nodeRes : ∀ n ∈ s.nodes, wf n.total = true ∧ wf n.occupied = true ∧ wf n.allocated = true ∧ wf n.available = true

theorem CoreWF.rwf {s : Core} (h : CoreWF s) : RWF s := ⟨h.appIds, h.appRes, h.nodeRes⟩

/-- a replayed item carries Go maps as resources -/
def RItem.wfRes : RItem → Prop
  | .node _ cap _ => wf cap = true
  | .app _ => True
  | .alloc x => wf x.res = true
  | .foreign _ _ res => wf res = true
  | .ask x => wf x.res = true
  | .undrain _ => True

theorem forall_updApps {apps : List CApp} {id : String} {f : CApp → CApp} {P : CApp → Prop}
    (h : ∀ a ∈ apps, P a) (hf : ∀ a ∈ apps, P a → P (f a)) : ∀ y ∈ updApps apps id f, P y := by
  intro y hy
  obtain ⟨z, hz, rfl⟩ := List.mem_map.mp hy
  split
  · exact hf z hz (h z hz)
  · exact h z hz

theorem forall_updNs {nodes : List CNode} {id : String} {f : CNode → CNode} {P : CNode → Prop}
    (h : ∀ a ∈ nodes, P a) (hf : ∀ a ∈ nodes, P a → P (f a)) : ∀ y ∈ updNs nodes id f, P y := by
  intro y hy
  obtain ⟨z, hz, rfl⟩ := List.mem_map.mp hy
  split
  · exact hf z hz (h z hz)
  · exact h z hz

/-! ### nodes -/

theorem rwf_nodeCreate (s : Core) (id : String) (cap : Res) (b : Bool) (hc : wf cap = true) (hw : RWF s) :
    RWF (s.nodeCreate id cap b) := by
  unfold nodeCreate
  split
  · exact hw
  · refine ⟨hw.appIds, hw.appRes, ?_⟩
    intro n hn
    rcases List.mem_append.mp hn with h | h
    · exact hw.nodeRes n h
    · rw [List.mem_singleton] at h; subst h
      exact ⟨prune_wf _ hc, rfl, rfl, prune_wf _ hc⟩

theorem rwf_nodeSchedulable (s : Core) (id : String) (b : Bool) (hw : RWF s) : RWF (s.nodeSchedulable id b) := by
  refine ⟨hw.appIds, hw.appRes, ?_⟩
  show ∀ n ∈ updNs s.nodes id _, _
  exact forall_updNs hw.nodeRes (fun n _ h => h)

/-! ### applications -/

theorem appAdd_rejected {s : Core} {a : RApp} (h : (s.appSub a).2 = false) : (s.appSub a).1 = s := by
  unfold appSub at h ⊢
  split
  · rename_i hok; rw [if_pos hok] at h; cases h
  · rfl

theorem appAdd_accepted {s : Core} {a : RApp} (h : (s.appSub a).2 = true) :
    s.appAddOK a = true ∧
    (s.appSub a).1 = { s with apps := s.apps ++ [newApp a],
                              queues := s.queues.map (fun q => if q.path == a.queue then { q with apps := q.apps ++ [a.id] } else q) } := by
  unfold appSub at h ⊢
  split
  · rename_i hok; exact ⟨hok, rfl⟩
  · rename_i hok; rw [if_neg hok] at h; cases h

theorem appAddOK_findApp {s : Core} {a : RApp} (h : s.appAddOK a = true) : s.findApp a.id = none := by
  unfold appAddOK at h
  simp only [Bool.and_eq_true, Bool.not_eq_true'] at h
  cases hf : s.findApp a.id with
  | none => rfl
  | some _ => rw [hf] at h; simp at h

theorem appBooks_newApp (a : RApp) : AppBooks (newApp a) :=
  ⟨fun _ => rfl, fun _ => rfl, fun _ => rfl⟩

theorem qsum_append_zero (apps : List CApp) (x : CApp) (p : String) (g : CApp → Int) (h : g x = 0) :
    qsum (apps ++ [x]) p g = qsum apps p g := by
  unfold qsum
  rw [sumIf_append, sumIf_single, h]; simp

theorem books_appAdd (s : Core) (a : RApp) (hb : Books s) : Books (s.appSub a).1 := by
  cases hacc : (s.appSub a).2 with
  | false => rw [appAdd_rejected hacc]; exact hb
  | true =>
    obtain ⟨_, heq⟩ := appAdd_accepted hacc
    rw [heq]
    refine ⟨?_, ?_, hb.nodes⟩
    · intro x hx hl
      rcases List.mem_append.mp hx with h | h
      · exact hb.apps x h hl
      · rw [List.mem_singleton] at h; subst h; exact appBooks_newApp a
    · intro q' hq'
      obtain ⟨q, hq, rfl⟩ := List.mem_map.mp hq'
      have hqb := hb.queues q hq
      have hpath : (if (q.path == a.queue) = true then { q with apps := q.apps ++ [a.id] } else q).path = q.path := by split <;> rfl
      have halloc : (if (q.path == a.queue) = true then { q with apps := q.apps ++ [a.id] } else q).allocated = q.allocated := by split <;> rfl
      have hpend : (if (q.path == a.queue) = true then { q with apps := q.apps ++ [a.id] } else q).pending = q.pending := by split <;> rfl
      constructor
      · intro k
        show _ = qsum (s.apps ++ [newApp a]) _ _
        rw [halloc, hpath, qsum_append_zero _ _ _ _ (by rfl)]; exact hqb.allocated k
      · intro k
        show _ = qsum (s.apps ++ [newApp a]) _ _
        rw [hpend, hpath, qsum_append_zero _ _ _ _ (by rfl)]; exact hqb.pending k

theorem rwf_appAdd (s : Core) (a : RApp) (hw : RWF s) : RWF (s.appSub a).1 := by
  cases hacc : (s.appSub a).2 with
  | false => rw [appAdd_rejected hacc]; exact hw
  | true =>
    obtain ⟨hok, heq⟩ := appAdd_accepted hacc
    have hnone := appAddOK_findApp hok
    rw [heq]
    refine ⟨?_, ?_, hw.nodeRes⟩
    · show (s.apps ++ [newApp a]).Pairwise _
      rw [List.pairwise_append]
      refine ⟨hw.appIds, List.pairwise_singleton _ _, ?_⟩
      intro x hx y hy hxl _
      rw [List.mem_singleton] at hy; subst hy
      exact findApp_none hnone x hx hxl
    · intro x hx hl
      rcases List.mem_append.mp hx with h | h
      · exact hw.appRes x h hl
      · rw [List.mem_singleton] at h; subst h; exact ⟨rfl, rfl, rfl⟩

/-! ### recovered allocations: the branch "new allocation already assigned" of UpdateAllocation -/

theorem recAlloc_rejected {s : Core} {x : RAlloc} (h : (s.recAlloc x).2 = false) : (s.recAlloc x).1 = s := by
  unfold recAlloc at h ⊢
  cases hf : s.findApp x.app with
  | none => rfl
  | some a =>
    simp only [hf] at h ⊢
    by_cases hok : s.recAllocOK a x = true
    · rw [if_pos hok] at h; cases h
    · rw [if_neg hok]

theorem recAlloc_accepted {s : Core} {x : RAlloc} (h : (s.recAlloc x).2 = true) :
    ∃ a, s.findApp x.app = some a ∧ s.recAllocOK a x = true ∧ (s.recAlloc x).1 = s.recAllocDo a x := by
  unfold recAlloc at h ⊢
  cases hf : s.findApp x.app with
  | none => simp only [hf] at h; cases h
  | some a =>
    simp only [hf] at h ⊢
    by_cases hok : s.recAllocOK a x = true
    · rw [if_pos hok]; exact ⟨a, rfl, hok, rfl⟩
    · rw [if_neg hok] at h; cases h

@[simp] theorem recApp_queue (x : RAlloc) (a : CApp) : (recApp x a).queue = a.queue := rfl
@[simp] theorem recApp_id (x : RAlloc) (a : CApp) : (recApp x a).id = a.id := rfl
@[simp] theorem recApp_live (x : RAlloc) (a : CApp) : (recApp x a).live = a.live := rfl
@[simp] theorem recApp_pending (x : RAlloc) (a : CApp) : (recApp x a).pending = a.pending := rfl
@[simp] theorem recApp_items (x : RAlloc) (a : CApp) : (recApp x a).items = a.items ++ [recItem x] := rfl
theorem recApp_allocated (x : RAlloc) (a : CApp) :
    (recApp x a).allocated = if x.ph = true then a.allocated else addX a.allocated x.res := rfl
theorem recApp_allocatedPh (x : RAlloc) (a : CApp) :
    (recApp x a).allocatedPh = if x.ph = true then addX a.allocatedPh x.res else a.allocatedPh := rfl

/-- the ledgers of an application move by the recovered allocation, in exactly one of the two totals -/
theorem recApp_getD (x : RAlloc) (a : CApp) (hr : wf x.res = true) (k : String) :
    (recApp x a).allocated.getD k = a.allocated.getD k + (if x.ph = true then 0 else x.res.getD k) ∧
    (recApp x a).allocatedPh.getD k = a.allocatedPh.getD k + (if x.ph = true then x.res.getD k else 0) := by
  rw [recApp_allocated, recApp_allocatedPh]
  cases x.ph
  · simp [addX_getD _ _ hr]
  · simp [addX_getD _ _ hr]

theorem appBooks_recApp (x : RAlloc) (a : CApp) (hr : wf x.res = true) (hba : AppBooks a) : AppBooks (recApp x a) := by
  have hg := recApp_getD x a hr
  refine ⟨?_, ?_, ?_⟩
  · intro k
    rw [(hg k).1, recApp_items, itemSum_append, itemSum_single, hba.allocated k]
    cases hph : x.ph <;> simp [recItem, hph]
  · intro k
    rw [(hg k).2, recApp_items, itemSum_append, itemSum_single, hba.allocatedPh k]
    cases hph : x.ph <;> simp [recItem, hph]
  · intro k
    rw [recApp_pending, recApp_items, itemSum_append, itemSum_single, hba.pending k]
    simp [recItem]

theorem recAllocDo_lists (s : Core) (a : CApp) (x : RAlloc) :
    (s.recAllocDo a x).apps = updApps s.apps x.app (recApp x) ∧
    (s.recAllocDo a x).queues = updQs s.queues (pathChain s a.queue) (fun q => { q with allocated := addX q.allocated x.res }) ∧
    (s.recAllocDo a x).nodes = updNs s.nodes x.node (fun n => { n with
        allocs := n.allocs ++ [{ key := x.key, app := x.app, res := x.res, foreign := false, ph := x.ph }],
        allocated := addX n.allocated x.res, available := prune (subX n.available x.res) }) :=
  ⟨rfl, rfl, rfl⟩

theorem books_recAllocDo (s : Core) (a : CApp) (x : RAlloc) (hw : RWF s) (hr : wf x.res = true) (hb : Books s)
    (hfind : s.findApp x.app = some a) : Books (s.recAllocDo a x) := by
  obtain ⟨ham, hl, hid⟩ := findApp_some hfind
  obtain ⟨hta, htq, htn⟩ := recAllocDo_lists s a x
  have hg := recApp_getD x a hr
  refine books_upd s _ x.app a (recApp x) (pathChain s a.queue) _ hta htq ?_ hw.appIds ham hl hid hb.apps hb.queues
    (recApp_queue x a) (fun _ => appBooks_recApp x a hr (hb.apps a ham hl)) (chain_iff s a.queue) (fun _ => rfl) ?_
  · rw [htn]
    apply books_upd_nodes _ _ _ hb.nodes
    intro m hm _ hmb
    obtain ⟨_, _, _, hv⟩ := hw.nodeRes m hm
    constructor
    · intro k
      show (addX m.allocated x.res).getD k = allocSum (m.allocs ++ [_]) k
      rw [addX_getD _ _ hr, allocSum_append, ← hmb.allocated k]; simp [allocSum, sumIf_single]
    · intro k
      show (prune (subX m.available x.res)).getD k = m.total.getD k - (addX m.allocated x.res).getD k - m.occupied.getD k
      rw [prune_subX_getD _ _ hv hr, addX_getD _ _ hr, hmb.available k]; omega
  · intro q _ _ k
    constructor
    · show (addX q.allocated x.res).getD k = _
      rw [addX_getD _ _ hr, (hg k).1, (hg k).2, recApp_live, hl]
      cases x.ph <;> simp <;> omega
    · show q.pending.getD k = _
      rw [recApp_live, recApp_pending, hl]; simp

theorem books_recAlloc (s : Core) (x : RAlloc) (hw : RWF s) (hr : wf x.res = true) (hb : Books s) : Books (s.recAlloc x).1 := by
  cases hacc : (s.recAlloc x).2 with
  | false => rw [recAlloc_rejected hacc]; exact hb
  | true =>
    obtain ⟨a, hfind, _, heq⟩ := recAlloc_accepted hacc
    rw [heq]; exact books_recAllocDo s a x hw hr hb hfind

theorem rwf_recAllocDo (s : Core) (a : CApp) (x : RAlloc) (hw : RWF s) : RWF (s.recAllocDo a x) := by
  obtain ⟨hta, _, htn⟩ := recAllocDo_lists s a x
  refine ⟨?_, ?_, ?_⟩
  · rw [hta]; exact pairwise_updApps _ _ _ (fun z _ => recApp_id x z) hw.appIds
  · rw [hta]
    refine forall_updApps (P := fun a => a.live = true → wf a.pending = true ∧ wf a.allocated = true ∧ wf a.allocatedPh = true)
      hw.appRes ?_
    intro z _ hz hzl
    rw [recApp_live] at hzl
    obtain ⟨h1, h2, h3⟩ := hz hzl
    rw [recApp_pending, recApp_allocated, recApp_allocatedPh]
    refine ⟨h1, ?_, ?_⟩
    · split
      · exact h2
      · exact addX_wf _ _ h2
    · split
      · exact addX_wf _ _ h3
      · exact h3
  · rw [htn]
    refine forall_updNs hw.nodeRes ?_
    intro n _ hn
    obtain ⟨h1, h2, h3, h4⟩ := hn
    exact ⟨h1, h2, addX_wf _ _ h3, prune_wf _ (subX_wf _ _ h4)⟩

theorem rwf_recAlloc (s : Core) (x : RAlloc) (hw : RWF s) : RWF (s.recAlloc x).1 := by
  cases hacc : (s.recAlloc x).2 with
  | false => rw [recAlloc_rejected hacc]; exact hw
  | true =>
    obtain ⟨a, _, _, heq⟩ := recAlloc_accepted hacc
    rw [heq]; exact rwf_recAllocDo s a x hw

/-! ### asks and foreign allocations (the proofs of YkProofs/Core.lean with the lighter hypothesis) -/

/-- what `Core.ask` does to the application -/
def askApp' (a0 : CApp) (key : String) (res : Res) (ph : Bool) (tg reqNode : String) (a : CApp) : CApp :=
  let st := if a0.state == "New" || a0.state == "Completing" then fireState a0.state .run else a0.state
  let item : CItem := { key := key, res := res, ph := ph, tg := tg, allocated := false, node := "", bound := false,
                        inReq := true, released := false, preempted := false, release := none, reqNode := reqNode }
  let phData := if ph then
      (if a0.phData.any (·.1 == tg) then a0.phData.map (fun d => if d.1 == tg then (d.1, d.2.1 + 1, d.2.2.1, d.2.2.2) else d)
       else a0.phData ++ [(tg, 1, 0, 0)])
    else a0.phData
  { a with state := st, items := a.items ++ [item], pending := prune (addX a.pending res),
           phData := phData, log := if st != a.state then a.log ++ [st] else a.log }

theorem ask_cases (s : Core) (app key : String) (res : Res) (ph : Bool) (tg reqNode : String) :
    (s.ask app key res ph tg reqNode = (s, false)) ∨
    (∃ a, s.findApp app = some a ∧ (s.ask app key res ph tg reqNode).2 = true ∧
      (s.ask app key res ph tg reqNode).1 =
        updQueues (updApp s app (askApp' a key res ph tg reqNode)) (pathChain s a.queue) (fun q => { q with pending := addX q.pending res })) := by
  unfold ask
  cases hf : s.findApp app with
  | none => left; rfl
  | some a =>
    simp only
    split
    · left; rfl
    · split
      · left; rfl
      · right; exact ⟨a, rfl, rfl, rfl⟩

theorem books_ask' (s : Core) (app key : String) (res : Res) (ph : Bool) (tg reqNode : String)
    (hw : RWF s) (hr : wf res = true) (hb : Books s) : Books (s.ask app key res ph tg reqNode).1 := by
  rcases ask_cases s app key res ph tg reqNode with h | ⟨a, hfind, _, heq⟩
  · rw [h]; exact hb
  · rw [heq]
    obtain ⟨ham, hl, hid⟩ := findApp_some hfind
    obtain ⟨hwp, _, _⟩ := hw.appRes a ham hl
    have hba := hb.apps a ham hl
    refine books_upd s _ app a _ (pathChain s a.queue) _ rfl rfl hb.nodes hw.appIds ham hl hid hb.apps hb.queues
      rfl ?_ (chain_iff s a.queue) (fun _ => rfl) ?_
    · intro _
      refine ⟨?_, ?_, ?_⟩
      · intro k
        show a.allocated.getD k = itemSum (a.items ++ [_]) _ k
        rw [itemSum_append, itemSum_single, hba.allocated k]; simp
      · intro k
        show a.allocatedPh.getD k = itemSum (a.items ++ [_]) _ k
        rw [itemSum_append, itemSum_single, hba.allocatedPh k]; simp
      · intro k
        show (prune (addX a.pending res)).getD k = itemSum (a.items ++ [_]) _ k
        rw [itemSum_append, itemSum_single, prune_addX_getD _ _ hwp hr, hba.pending k]; simp
    · intro q _ _ k
      constructor
      · show q.allocated.getD k = _
        show _ = q.allocated.getD k - (a.allocated.getD k + a.allocatedPh.getD k) + (if a.live = true then a.allocated.getD k + a.allocatedPh.getD k else 0)
        simp only [hl, if_true]; omega
      · show (addX q.pending res).getD k = _
        rw [addX_getD _ _ hr]
        show _ = q.pending.getD k - a.pending.getD k + (if a.live = true then (prune (addX a.pending res)).getD k else 0)
        rw [prune_addX_getD _ _ hwp hr]
        simp only [hl, if_true]; omega

theorem rwf_ask (s : Core) (app key : String) (res : Res) (ph : Bool) (tg reqNode : String)
    (hw : RWF s) : RWF (s.ask app key res ph tg reqNode).1 := by
  rcases ask_cases s app key res ph tg reqNode with h | ⟨a, _, _, heq⟩
  · rw [h]; exact hw
  · rw [heq]
    refine ⟨?_, ?_, hw.nodeRes⟩
    · show (updApps s.apps app _).Pairwise _
      exact pairwise_updApps _ _ _ (fun _ _ => rfl) hw.appIds
    · show ∀ y ∈ updApps s.apps app _, _
      refine forall_updApps (P := fun a => a.live = true → wf a.pending = true ∧ wf a.allocated = true ∧ wf a.allocatedPh = true)
        hw.appRes ?_
      intro z _ hz hzl
      obtain ⟨h1, h2, h3⟩ := hz hzl
      exact ⟨prune_wf _ (addX_wf _ _ h1), h2, h3⟩

theorem books_foreignAdd' (s : Core) (key node : String) (res : Res) (hw : RWF s) (hr : wf res = true) (hb : Books s) :
    Books (s.foreignAdd key node res) := by
  unfold foreignAdd
  split
  · exact hb
  · split
    · exact hb
    · refine ⟨hb.apps, hb.queues, ?_⟩
      show ∀ n ∈ updNs s.nodes node _, NodeBooks n
      apply books_upd_nodes _ _ _ hb.nodes
      intro n hn _ hnb
      obtain ⟨_, _, _, hv⟩ := hw.nodeRes n hn
      constructor
      · intro k
        show n.allocated.getD k = allocSum (n.allocs ++ [_]) k
        rw [allocSum_append, hnb.allocated k]; simp [allocSum, sumIf_single]
      · intro k
        show (prune (subX n.available res)).getD k = n.total.getD k - n.allocated.getD k - (addX n.occupied res).getD k
        rw [prune_subX_getD _ _ hv hr, addX_getD _ _ hr, hnb.available k]; omega

theorem rwf_foreignAdd (s : Core) (key node : String) (res : Res) (hw : RWF s) : RWF (s.foreignAdd key node res) := by
  unfold foreignAdd
  split
  · exact hw
  · split
    · exact hw
    · refine ⟨hw.appIds, hw.appRes, ?_⟩
      show ∀ n ∈ updNs s.nodes node _, _
      refine forall_updNs hw.nodeRes ?_
      intro n _ hn
      obtain ⟨h1, h2, h3, h4⟩ := hn
      exact ⟨h1, addX_wf _ _ h2, h3, prune_wf _ (subX_wf _ _ h4)⟩

/-! ### one item, a whole replay: the books stay balanced -/

theorem recNode_fst (s : Core) (id : String) (cap : Res) (b : Bool) : (s.recNode id cap b).1 = s.nodeCreate id cap b := by
  unfold recNode
  split
  · rename_i h; unfold nodeCreate; rw [if_pos h]
  · rfl

theorem recForeign_fst (s : Core) (key node : String) (res : Res) : (s.recForeign key node res).1 = s.foreignAdd key node res := by
  unfold recForeign
  split
  · rename_i h; unfold foreignAdd; rw [if_pos h]
  · split
    · rename_i h; unfold foreignAdd; simp [h]
    · rfl

theorem recAsk_fst (s : Core) (x : RAlloc) :
    (s.recAsk x).1 = s ∨ (s.recAsk x) = s.ask x.app x.key x.res x.ph x.tg x.reqNode := by
  unfold recAsk
  split
  · left; rfl
  · split
    · left; rfl
    · right; rfl

theorem rstep_inv (s : Core) (it : RItem) (hi : it.wfRes) (hw : RWF s) (hb : Books s) :
    RWF (s.rstep it).1 ∧ Books (s.rstep it).1 := by
  cases it with
  | node id cap sched =>
    show RWF (s.recNode id cap sched).1 ∧ Books (s.recNode id cap sched).1
    rw [recNode_fst]; exact ⟨rwf_nodeCreate s id cap sched hi hw, books_nodeCreate s id cap sched hb⟩
  | app a => exact ⟨rwf_appAdd s a hw, books_appAdd s a hb⟩
  | alloc x => exact ⟨rwf_recAlloc s x hw, books_recAlloc s x hw hi hb⟩
  | foreign key node res =>
    show RWF (s.recForeign key node res).1 ∧ Books (s.recForeign key node res).1
    rw [recForeign_fst]; exact ⟨rwf_foreignAdd s key node res hw, books_foreignAdd' s key node res hw hi hb⟩
  | ask x =>
    show RWF (s.recAsk x).1 ∧ Books (s.recAsk x).1
    rcases recAsk_fst s x with h | h
    · rw [h]; exact ⟨hw, hb⟩
    · rw [h]; exact ⟨rwf_ask s _ _ _ _ _ _ hw, books_ask' s _ _ _ _ _ _ hw hi hb⟩
  | undrain id => exact ⟨rwf_nodeSchedulable s id true hw, books_nodeSchedulable s id true hb⟩

theorem replay_inv (s : Core) (items : List RItem) (hi : ∀ it ∈ items, it.wfRes) (hw : RWF s) (hb : Books s) :
    RWF (s.replay items).1 ∧ Books (s.replay items).1 := by
  induction items generalizing s with
  | nil => exact ⟨hw, hb⟩
  | cons it rest ih =>
    obtain ⟨hw', hb'⟩ := rstep_inv s it (hi it List.mem_cons_self) hw hb
    exact ih (s.rstep it).1 (fun x hx => hi x (List.mem_cons_of_mem _ hx)) hw' hb'

theorem rwf_fresh (queues : List CQueue) : RWF (Core.fresh queues) := by
  refine ⟨List.Pairwise.nil, ?_, ?_⟩
  · intro a h; change a ∈ [] at h; cases h
  · intro n h; change n ∈ [] at h; cases h

theorem books_fresh (queues : List CQueue) : Books (Core.fresh queues) := by
  refine ⟨?_, ?_, ?_⟩
  · intro a h; change a ∈ [] at h; cases h
  rotate_left
  · intro n h; change n ∈ [] at h; cases h
  intro q' hq'
  obtain ⟨q, _, rfl⟩ := List.mem_map.mp hq'
  exact ⟨fun _ => rfl, fun _ => rfl⟩

/-! ### the totals of the rebuilt state are the totals recomputed from the accepted items -/

/-- Σ res[k] over the accepted real / placeholder allocations of application `id` -/
def SAr (acc : List RItem) (id : String) (k : String) : Int :=
  sumIf (allocsOf acc) (fun x => x.app == id && !x.ph) (fun x => x.res.getD k)
def SAp (acc : List RItem) (id : String) (k : String) : Int :=
  sumIf (allocsOf acc) (fun x => x.app == id && x.ph) (fun x => x.res.getD k)
/-- … over its accepted asks -/
def SQ (acc : List RItem) (id : String) (k : String) : Int :=
  sumIf (asksOf acc) (fun x => x.app == id) (fun x => x.res.getD k)
/-- … over the accepted allocations / foreign allocations on node `id` -/
def SN (acc : List RItem) (id : String) (k : String) : Int :=
  sumIf (allocsOf acc) (fun x => x.node == id) (fun x => x.res.getD k)
def SO (acc : List RItem) (id : String) (k : String) : Int :=
  sumIf (foreignOf acc) (fun f => f.2.1 == id) (fun f => f.2.2.getD k)

theorem allocsOf_append (a b : List RItem) : allocsOf (a ++ b) = allocsOf a ++ allocsOf b := List.filterMap_append
theorem asksOf_append (a b : List RItem) : asksOf (a ++ b) = asksOf a ++ asksOf b := List.filterMap_append
theorem foreignOf_append (a b : List RItem) : foreignOf (a ++ b) = foreignOf a ++ foreignOf b := List.filterMap_append
theorem appsOf_append (a b : List RItem) : appsOf (a ++ b) = appsOf a ++ appsOf b := List.filterMap_append

/-- the five sums after one more accepted item -/
theorem sums_snoc (acc : List RItem) (it : RItem) (id k : String) :
    SAr (acc ++ [it]) id k = SAr acc id k + SAr [it] id k ∧ SAp (acc ++ [it]) id k = SAp acc id k + SAp [it] id k ∧
    SQ (acc ++ [it]) id k = SQ acc id k + SQ [it] id k ∧ SN (acc ++ [it]) id k = SN acc id k + SN [it] id k ∧
    SO (acc ++ [it]) id k = SO acc id k + SO [it] id k := by
  unfold SAr SAp SQ SN SO
  rw [allocsOf_append, asksOf_append, foreignOf_append]
  refine ⟨sumIf_append _ _ _ _, sumIf_append _ _ _ _, sumIf_append _ _ _ _, sumIf_append _ _ _ _, sumIf_append _ _ _ _⟩

/-- every application / node is accounted for: its totals are the sums over the accepted items that name it, and every
    accepted item names a registered application / node -/
structure TotL (apps : List CApp) (nodes : List CNode) (acc : List RItem) : Prop where
  live : ∀ a ∈ apps, a.live = true
  app : ∀ a ∈ apps, ∀ k, a.allocated.getD k = SAr acc a.id k ∧ a.allocatedPh.getD k = SAp acc a.id k ∧
          a.pending.getD k = SQ acc a.id k
  node : ∀ n ∈ nodes, ∀ k, n.allocated.getD k = SN acc n.id k ∧ n.occupied.getD k = SO acc n.id k
  allocApp : ∀ x ∈ allocsOf acc, ∃ a ∈ apps, a.id = x.app
  askApp : ∀ x ∈ asksOf acc, ∃ a ∈ apps, a.id = x.app
  allocNode : ∀ x ∈ allocsOf acc, ∃ n ∈ nodes, n.id = x.node
  foreignNode : ∀ f ∈ foreignOf acc, ∃ n ∈ nodes, n.id = f.2.1

abbrev Tot (s : Core) (acc : List RItem) : Prop := TotL s.apps s.nodes acc

theorem findNode_none {s : Core} {id : String} (h : s.findNode id = none) : ∀ n ∈ s.nodes, n.id ≠ id := by
  intro n hn
  unfold findNode at h
  simpa using List.find?_eq_none.mp h n hn

theorem exists_updApps {apps : List CApp} {id : String} {f : CApp → CApp} (hf : ∀ a, (f a).id = a.id) {i : String}
    (h : ∃ a ∈ apps, a.id = i) : ∃ a ∈ updApps apps id f, a.id = i := by
  obtain ⟨a, ha, hi⟩ := h
  refine ⟨_, List.mem_map.mpr ⟨a, ha, rfl⟩, ?_⟩
  split
  · rw [hf]; exact hi
  · exact hi

theorem exists_updNs {nodes : List CNode} {id : String} {f : CNode → CNode} (hf : ∀ a, (f a).id = a.id) {i : String}
    (h : ∃ a ∈ nodes, a.id = i) : ∃ a ∈ updNs nodes id f, a.id = i := by
  obtain ⟨a, ha, hi⟩ := h
  refine ⟨_, List.mem_map.mpr ⟨a, ha, rfl⟩, ?_⟩
  split
  · rw [hf]; exact hi
  · exact hi

/-- no accepted item names an application / node that is not registered -/
theorem Tot.app_zero {s : Core} {acc : List RItem} (ht : Tot s acc) {id : String} (h : s.findApp id = none) (k : String) :
    SAr acc id k = 0 ∧ SAp acc id k = 0 ∧ SQ acc id k = 0 := by
  have hne := findApp_none h
  refine ⟨?_, ?_, ?_⟩
  · apply sumIf_zero; intro x hx hc
    obtain ⟨a, ha, hid⟩ := ht.allocApp x hx
    simp only [Bool.and_eq_true, beq_iff_eq] at hc
    exact absurd (hid.trans hc.1) (hne a ha (ht.live a ha))
  · apply sumIf_zero; intro x hx hc
    obtain ⟨a, ha, hid⟩ := ht.allocApp x hx
    simp only [Bool.and_eq_true, beq_iff_eq] at hc
    exact absurd (hid.trans hc.1) (hne a ha (ht.live a ha))
  · apply sumIf_zero; intro x hx hc
    obtain ⟨a, ha, hid⟩ := ht.askApp x hx
    simp only [beq_iff_eq] at hc
    exact absurd (hid.trans hc) (hne a ha (ht.live a ha))

theorem Tot.node_zero {s : Core} {acc : List RItem} (ht : Tot s acc) {id : String} (h : s.findNode id = none) (k : String) :
    SN acc id k = 0 ∧ SO acc id k = 0 := by
  have hne := findNode_none h
  refine ⟨?_, ?_⟩
  · apply sumIf_zero; intro x hx hc
    obtain ⟨n, hn, hid⟩ := ht.allocNode x hx
    simp only [beq_iff_eq] at hc
    exact absurd (hid.trans hc) (hne n hn)
  · apply sumIf_zero; intro x hx hc
    obtain ⟨n, hn, hid⟩ := ht.foreignNode x hx
    simp only [beq_iff_eq] at hc
    exact absurd (hid.trans hc) (hne n hn)

theorem tot_fresh (queues : List CQueue) : Tot (Core.fresh queues) [] := by
  refine ⟨?_, ?_, ?_, ?_, ?_, ?_, ?_⟩
  · intro a h; change a ∈ [] at h; cases h
  · intro a h; change a ∈ [] at h; cases h
  · intro a h; change a ∈ [] at h; cases h
  · intro a h; change a ∈ [] at h; cases h
  · intro a h; change a ∈ [] at h; cases h
  · intro a h; change a ∈ [] at h; cases h
  · intro a h; change a ∈ [] at h; cases h

theorem updApps_id (apps : List CApp) (id : String) : updApps apps id (fun a => a) = apps := by
  unfold updApps; simp
theorem updNs_id (nodes : List CNode) (id : String) : updNs nodes id (fun a => a) = nodes := by
  unfold updNs; simp

theorem mem_allocsOf_append {acc : List RItem} {it : RItem} {x : RAlloc} (h : x ∈ allocsOf (acc ++ [it])) :
    x ∈ allocsOf acc ∨ x ∈ allocsOf [it] := by rw [allocsOf_append] at h; exact List.mem_append.mp h
theorem mem_asksOf_append {acc : List RItem} {it : RItem} {x : RAlloc} (h : x ∈ asksOf (acc ++ [it])) :
    x ∈ asksOf acc ∨ x ∈ asksOf [it] := by rw [asksOf_append] at h; exact List.mem_append.mp h
theorem mem_foreignOf_append {acc : List RItem} {it : RItem} {x : String × String × Res} (h : x ∈ foreignOf (acc ++ [it])) :
    x ∈ foreignOf acc ∨ x ∈ foreignOf [it] := by rw [foreignOf_append] at h; exact List.mem_append.mp h

/-- one accepted item that updates registered applications / nodes in place -/
theorem totL_upd (apps : List CApp) (nodes : List CNode) (acc : List RItem) (it : RItem) (ida idn : String)
    (fa : CApp → CApp) (fn : CNode → CNode) (ht : TotL apps nodes acc)
    (hfa_id : ∀ a, (fa a).id = a.id) (hfa_live : ∀ a, (fa a).live = a.live) (hfn_id : ∀ n, (fn n).id = n.id)
    (happ : ∀ a ∈ apps, ∀ k, ∀ b, b = (if (a.live && a.id == ida) = true then fa a else a) →
      b.allocated.getD k = a.allocated.getD k + SAr [it] a.id k ∧ b.allocatedPh.getD k = a.allocatedPh.getD k + SAp [it] a.id k ∧
      b.pending.getD k = a.pending.getD k + SQ [it] a.id k)
    (hnode : ∀ n ∈ nodes, ∀ k, ∀ m, m = (if (n.id == idn) = true then fn n else n) →
      m.allocated.getD k = n.allocated.getD k + SN [it] n.id k ∧ m.occupied.getD k = n.occupied.getD k + SO [it] n.id k)
    (hkA : ∀ x ∈ allocsOf [it], (∃ a ∈ apps, a.id = x.app) ∧ (∃ n ∈ nodes, n.id = x.node))
    (hkQ : ∀ x ∈ asksOf [it], ∃ a ∈ apps, a.id = x.app)
    (hkF : ∀ f ∈ foreignOf [it], ∃ n ∈ nodes, n.id = f.2.1) :
    TotL (updApps apps ida fa) (updNs nodes idn fn) (acc ++ [it]) := by
  have hid : ∀ z : CApp, (if (z.live && z.id == ida) = true then fa z else z).id = z.id := by
    intro z; split
    · exact hfa_id z
    · rfl
  have hnid : ∀ z : CNode, (if (z.id == idn) = true then fn z else z).id = z.id := by
    intro z; split
    · exact hfn_id z
    · rfl
  refine ⟨?_, ?_, ?_, ?_, ?_, ?_, ?_⟩
  · intro y hy
    obtain ⟨z, hz, rfl⟩ := List.mem_map.mp hy
    split
    · rw [hfa_live]; exact ht.live z hz
    · exact ht.live z hz
  · intro y hy k
    obtain ⟨z, hz, rfl⟩ := List.mem_map.mp hy
    obtain ⟨h1, h2, h3⟩ := happ z hz k _ rfl
    obtain ⟨g1, g2, g3⟩ := ht.app z hz k
    obtain ⟨e1, e2, e3, _, _⟩ := sums_snoc acc it z.id k
    rw [hid z, h1, h2, h3, e1, e2, e3, g1, g2, g3]; exact ⟨rfl, rfl, rfl⟩
  · intro y hy k
    obtain ⟨z, hz, rfl⟩ := List.mem_map.mp hy
    obtain ⟨h1, h2⟩ := hnode z hz k _ rfl
    obtain ⟨g1, g2⟩ := ht.node z hz k
    obtain ⟨_, _, _, e4, e5⟩ := sums_snoc acc it z.id k
    rw [hnid z, h1, h2, e4, e5, g1, g2]; exact ⟨rfl, rfl⟩
  · intro x hx
    rcases mem_allocsOf_append hx with h | h
    · exact exists_updApps hfa_id (ht.allocApp x h)
    · exact exists_updApps hfa_id (hkA x h).1
  · intro x hx
    rcases mem_asksOf_append hx with h | h
    · exact exists_updApps hfa_id (ht.askApp x h)
    · exact exists_updApps hfa_id (hkQ x h)
  · intro x hx
    rcases mem_allocsOf_append hx with h | h
    · exact exists_updNs hfn_id (ht.allocNode x h)
    · exact exists_updNs hfn_id (hkA x h).2
  · intro x hx
    rcases mem_foreignOf_append hx with h | h
    · exact exists_updNs hfn_id (ht.foreignNode x h)
    · exact exists_updNs hfn_id (hkF x h)

/-- an item that carries no allocation, ask or foreign allocation leaves every sum alone -/
theorem sums_snoc_plain (acc : List RItem) (it : RItem) (h1 : allocsOf [it] = []) (h2 : asksOf [it] = []) (h3 : foreignOf [it] = [])
    (id k : String) :
    SAr (acc ++ [it]) id k = SAr acc id k ∧ SAp (acc ++ [it]) id k = SAp acc id k ∧ SQ (acc ++ [it]) id k = SQ acc id k ∧
    SN (acc ++ [it]) id k = SN acc id k ∧ SO (acc ++ [it]) id k = SO acc id k := by
  unfold SAr SAp SQ SN SO
  rw [allocsOf_append, asksOf_append, foreignOf_append, h1, h2, h3]
  simp

/-- a new node / a new application is registered -/
theorem totL_append (apps : List CApp) (nodes : List CNode) (acc : List RItem) (it : RItem) (newA : List CApp) (newN : List CNode)
    (ht : TotL apps nodes acc) (h1 : allocsOf [it] = []) (h2 : asksOf [it] = []) (h3 : foreignOf [it] = [])
    (hA : ∀ a ∈ newA, a.live = true ∧ ∀ k, a.allocated.getD k = 0 ∧ a.allocatedPh.getD k = 0 ∧ a.pending.getD k = 0 ∧
          SAr acc a.id k = 0 ∧ SAp acc a.id k = 0 ∧ SQ acc a.id k = 0)
    (hN : ∀ n ∈ newN, ∀ k, n.allocated.getD k = 0 ∧ n.occupied.getD k = 0 ∧ SN acc n.id k = 0 ∧ SO acc n.id k = 0) :
    TotL (apps ++ newA) (nodes ++ newN) (acc ++ [it]) := by
  have hs := sums_snoc_plain acc it h1 h2 h3
  have ea : allocsOf (acc ++ [it]) = allocsOf acc := by rw [allocsOf_append, h1]; simp
  have eq : asksOf (acc ++ [it]) = asksOf acc := by rw [asksOf_append, h2]; simp
  have ef : foreignOf (acc ++ [it]) = foreignOf acc := by rw [foreignOf_append, h3]; simp
  refine ⟨?_, ?_, ?_, ?_, ?_, ?_, ?_⟩
  · intro a ha
    rcases List.mem_append.mp ha with h | h
    · exact ht.live a h
    · exact (hA a h).1
  · intro a ha k
    obtain ⟨e1, e2, e3, _, _⟩ := hs a.id k
    rw [e1, e2, e3]
    rcases List.mem_append.mp ha with h | h
    · exact ht.app a h k
    · obtain ⟨z1, z2, z3, z4, z5, z6⟩ := (hA a h).2 k
      rw [z1, z2, z3, z4, z5, z6]; exact ⟨rfl, rfl, rfl⟩
  · intro n hn k
    obtain ⟨_, _, _, e4, e5⟩ := hs n.id k
    rw [e4, e5]
    rcases List.mem_append.mp hn with h | h
    · exact ht.node n h k
    · obtain ⟨z1, z2, z3, z4⟩ := hN n h k
      rw [z1, z2, z3, z4]; exact ⟨rfl, rfl⟩
  · intro x hx; rw [ea] at hx
    obtain ⟨a, ha, hi⟩ := ht.allocApp x hx; exact ⟨a, List.mem_append_left _ ha, hi⟩
  · intro x hx; rw [eq] at hx
    obtain ⟨a, ha, hi⟩ := ht.askApp x hx; exact ⟨a, List.mem_append_left _ ha, hi⟩
  · intro x hx; rw [ea] at hx
    obtain ⟨a, ha, hi⟩ := ht.allocNode x hx; exact ⟨a, List.mem_append_left _ ha, hi⟩
  · intro x hx; rw [ef] at hx
    obtain ⟨a, ha, hi⟩ := ht.foreignNode x hx; exact ⟨a, List.mem_append_left _ ha, hi⟩

theorem S_alloc (x : RAlloc) (id k : String) :
    SAr [.alloc x] id k = (if (x.app == id && !x.ph) = true then x.res.getD k else 0) ∧
    SAp [.alloc x] id k = (if (x.app == id && x.ph) = true then x.res.getD k else 0) ∧
    SQ [.alloc x] id k = 0 ∧ SN [.alloc x] id k = (if (x.node == id) = true then x.res.getD k else 0) ∧ SO [.alloc x] id k = 0 :=
  ⟨sumIf_single _ _ _, sumIf_single _ _ _, rfl, sumIf_single _ _ _, rfl⟩

theorem S_ask (x : RAlloc) (id k : String) :
    SAr [.ask x] id k = 0 ∧ SAp [.ask x] id k = 0 ∧
    SQ [.ask x] id k = (if (x.app == id) = true then x.res.getD k else 0) ∧ SN [.ask x] id k = 0 ∧ SO [.ask x] id k = 0 :=
  ⟨rfl, rfl, sumIf_single _ _ _, rfl, rfl⟩

theorem S_foreign (key node : String) (res : Res) (id k : String) :
    SAr [.foreign key node res] id k = 0 ∧ SAp [.foreign key node res] id k = 0 ∧ SQ [.foreign key node res] id k = 0 ∧
    SN [.foreign key node res] id k = 0 ∧ SO [.foreign key node res] id k = (if (node == id) = true then res.getD k else 0) :=
  ⟨rfl, rfl, rfl, rfl, sumIf_single _ _ _⟩

theorem tot_recNode (s : Core) (acc : List RItem) (id : String) (cap : Res) (b : Bool) (ht : Tot s acc) :
    Tot (s.recNode id cap b).1 (if (s.recNode id cap b).2 = true then acc ++ [.node id cap b] else acc) := by
  unfold recNode
  cases hf : s.findNode id with
  | some n => simpa using ht
  | none =>
    simp only [Option.isSome_none, Bool.false_eq_true, if_false, if_true]
    unfold nodeCreate
    rw [hf]
    simp only [Option.isSome_none, Bool.false_eq_true, if_false]
    have := totL_append s.apps s.nodes acc (.node id cap b) []
      [{ id := id, total := prune cap, occupied := [], allocated := [], available := prune cap, schedulable := b, allocs := [], reservations := [] }]
      ht rfl rfl rfl (fun a h => nomatch h) (by
        intro n hn k
        rw [List.mem_singleton] at hn; subst hn
        obtain ⟨z1, z2⟩ := Tot.node_zero ht hf k
        exact ⟨rfl, rfl, z1, z2⟩)
    rw [List.append_nil] at this
    exact this

theorem tot_appAdd (s : Core) (acc : List RItem) (a : RApp) (ht : Tot s acc) :
    Tot (s.appSub a).1 (if (s.appSub a).2 = true then acc ++ [.app a] else acc) := by
  cases hacc : (s.appSub a).2 with
  | false => rw [appAdd_rejected hacc]; simpa using ht
  | true =>
    obtain ⟨hok, heq⟩ := appAdd_accepted hacc
    have hnone := appAddOK_findApp hok
    rw [heq]
    simp only [if_true]
    have := totL_append s.apps s.nodes acc (.app a) [newApp a] [] ht rfl rfl rfl (by
        intro x hx
        rw [List.mem_singleton] at hx; subst hx
        refine ⟨rfl, fun k => ?_⟩
        obtain ⟨z1, z2, z3⟩ := Tot.app_zero ht hnone k
        exact ⟨rfl, rfl, rfl, z1, z2, z3⟩) (fun n h => nomatch h)
    rw [List.append_nil] at this
    exact this

theorem recAllocOK_node {s : Core} {a : CApp} {x : RAlloc} (h : s.recAllocOK a x = true) : ∃ n ∈ s.nodes, n.id = x.node := by
  unfold recAllocOK at h
  simp only [Bool.and_eq_true] at h
  obtain ⟨⟨⟨hn, _⟩, _⟩, _⟩ := h
  cases hf : s.findNode x.node with
  | none => rw [hf] at hn; cases hn
  | some n => exact ⟨n, (findNode_some hf).1, (findNode_some hf).2⟩

theorem tot_recAlloc (s : Core) (acc : List RItem) (x : RAlloc) (hr : wf x.res = true) (ht : Tot s acc) :
    Tot (s.recAlloc x).1 (if (s.recAlloc x).2 = true then acc ++ [.alloc x] else acc) := by
  cases hacc : (s.recAlloc x).2 with
  | false => rw [recAlloc_rejected hacc]; simpa using ht
  | true =>
    obtain ⟨a, hfind, hok, heq⟩ := recAlloc_accepted hacc
    obtain ⟨ham, _, hid⟩ := findApp_some hfind
    rw [heq]
    simp only [if_true]
    obtain ⟨hta, _, htn⟩ := recAllocDo_lists s a x
    show TotL (s.recAllocDo a x).apps (s.recAllocDo a x).nodes _
    rw [hta, htn]
    refine totL_upd s.apps s.nodes acc (.alloc x) x.app x.node (recApp x) _ ht (fun _ => rfl) (fun _ => rfl) (fun _ => rfl) ?_ ?_ ?_ ?_ ?_
    · intro z hz k b hb
      obtain ⟨e1, e2, e3, _, _⟩ := S_alloc x z.id k
      have hg := recApp_getD x z hr k
      have hl := ht.live z hz
      rw [e1, e2, e3, hb]
      by_cases hc : z.id = x.app
      · have hc' : (x.app == z.id) = true := by simp [hc]
        rw [if_pos (by simp [hl, hc]), hg.1, hg.2, recApp_pending]
        cases x.ph <;> simp [hc']
      · have hc' : (x.app == z.id) = false := by simp; exact fun h => hc h.symm
        rw [if_neg (by simp [hl, hc])]
        simp [hc']
    · intro n _ k m hm
      obtain ⟨_, _, _, e4, e5⟩ := S_alloc x n.id k
      rw [e4, e5, hm]
      by_cases hc : n.id = x.node
      · have hc' : (x.node == n.id) = true := by simp [hc]
        rw [if_pos (by simp [hc])]
        show (addX n.allocated x.res).getD k = _ ∧ n.occupied.getD k = _
        rw [addX_getD _ _ hr]; simp [hc']
      · have hc' : (x.node == n.id) = false := by simp; exact fun h => hc h.symm
        rw [if_neg (by simp [hc])]
        simp [hc']
    · intro y hy
      have : y = x := by simpa [allocsOf] using hy
      subst this
      exact ⟨⟨a, ham, hid⟩, recAllocOK_node hok⟩
    · intro y hy; simp [asksOf] at hy
    · intro y hy; simp [foreignOf] at hy

theorem tot_recForeign (s : Core) (acc : List RItem) (key node : String) (res : Res) (hr : wf res = true) (ht : Tot s acc) :
    Tot (s.recForeign key node res).1 (if (s.recForeign key node res).2 = true then acc ++ [.foreign key node res] else acc) := by
  unfold recForeign
  by_cases hc : s.foreign.contains key = true
  · rw [if_pos hc]; simpa using ht
  · rw [if_neg hc]
    cases hf : s.findNode node with
    | none => simpa using ht
    | some n0 =>
      simp only [if_true]
      unfold foreignAdd
      rw [if_neg hc, hf]
      show TotL s.apps (updNs s.nodes node _) _
      have := totL_upd s.apps s.nodes acc (.foreign key node res) "" node (fun a => a)
        (fun n => { n with allocs := n.allocs ++ [{ key := key, app := "", res := res, foreign := true, ph := false }],
                           occupied := addX n.occupied res, available := prune (subX n.available res) })
        ht (fun _ => rfl) (fun _ => rfl) (fun _ => rfl) ?_ ?_ ?_ ?_ ?_
      · rw [updApps_id] at this; exact this
      · intro z _ k b hb
        obtain ⟨e1, e2, e3, _, _⟩ := S_foreign key node res z.id k
        have : b = z := by rw [hb]; split <;> rfl
        rw [e1, e2, e3, this]; simp
      · intro n _ k m hm
        obtain ⟨_, _, _, e4, e5⟩ := S_foreign key node res n.id k
        rw [e4, e5, hm]
        by_cases hcn : n.id = node
        · have hc' : (node == n.id) = true := by simp [hcn]
          rw [if_pos (by simp [hcn])]
          show n.allocated.getD k = _ ∧ (addX n.occupied res).getD k = _
          rw [addX_getD _ _ hr]; simp [hc']
        · have hc' : (node == n.id) = false := by simp; exact fun h => hcn h.symm
          rw [if_neg (by simp [hcn])]
          simp [hc']
      · intro y hy; simp [allocsOf] at hy
      · intro y hy; simp [asksOf] at hy
      · intro y hy
        have : y = (key, node, res) := by simpa [foreignOf] using hy
        subst this
        exact ⟨n0, (findNode_some hf).1, (findNode_some hf).2⟩

theorem tot_of_cases {s : Core} {acc : List RItem} {r : Core × Bool} {it : RItem} (ht : Tot s acc)
    (h : r = (s, false) ∨ (r.2 = true ∧ Tot r.1 (acc ++ [it]))) : Tot r.1 (if r.2 = true then acc ++ [it] else acc) := by
  rcases h with h | ⟨h1, h2⟩
  · subst h; simpa using ht
  · rw [h1]; simpa using h2

theorem recAsk_cases (s : Core) (x : RAlloc) :
    s.recAsk x = (s, false) ∨
    (∃ a, s.findApp x.app = some a ∧ (s.recAsk x).2 = true ∧
      (s.recAsk x).1 = updQueues (updApp s x.app (askApp' a x.key x.res x.ph x.tg x.reqNode)) (pathChain s a.queue)
        (fun q => { q with pending := addX q.pending x.res })) := by
  unfold recAsk
  cases hf : s.findApp x.app with
  | none => left; rfl
  | some a =>
    simp only
    cases hany : (a.items.any (·.key == x.key)) with
    | true => left; rfl
    | false =>
      simp only [Bool.false_eq_true, if_false]
      rcases ask_cases s x.app x.key x.res x.ph x.tg x.reqNode with h | ⟨a', hfind, hacc, heq⟩
      · left; exact h
      · right
        rw [hf] at hfind
        cases hfind
        exact ⟨a, rfl, hacc, heq⟩

theorem tot_recAsk (s : Core) (acc : List RItem) (x : RAlloc) (hr : wf x.res = true) (hw : RWF s) (ht : Tot s acc) :
    Tot (s.recAsk x).1 (if (s.recAsk x).2 = true then acc ++ [.ask x] else acc) := by
  apply tot_of_cases ht
  rcases recAsk_cases s x with h | ⟨a', hfind, hacc, heq⟩
  · left; exact h
  · right
    refine ⟨hacc, ?_⟩
    obtain ⟨ham, _, hid⟩ := findApp_some hfind
    rw [heq]
    show TotL (updApps s.apps x.app _) s.nodes _
    have := totL_upd s.apps s.nodes acc (.ask x) x.app "" (askApp' a' x.key x.res x.ph x.tg x.reqNode) (fun n => n)
      ht (fun _ => rfl) (fun _ => rfl) (fun _ => rfl) ?_ ?_ ?_ ?_ ?_
    · rw [updNs_id] at this; exact this
    · intro z hz k b hb
      obtain ⟨e1, e2, e3, _, _⟩ := S_ask x z.id k
      have hl := ht.live z hz
      obtain ⟨hwp, _, _⟩ := hw.appRes z hz hl
      rw [e1, e2, e3, hb]
      by_cases hc : z.id = x.app
      · have hc' : (x.app == z.id) = true := by simp [hc]
        rw [if_pos (by simp [hl, hc])]
        show z.allocated.getD k = _ ∧ z.allocatedPh.getD k = _ ∧ (prune (addX z.pending x.res)).getD k = _
        rw [prune_addX_getD _ _ hwp hr]; simp [hc']
      · have hc' : (x.app == z.id) = false := by simp; exact fun h => hc h.symm
        rw [if_neg (by simp [hl, hc])]
        simp [hc']
    · intro n _ k m hm
      obtain ⟨_, _, _, e4, e5⟩ := S_ask x n.id k
      have : m = n := by rw [hm]; split <;> rfl
      rw [e4, e5, this]; simp
    · intro y hy; simp [allocsOf] at hy
    · intro y hy
      have : y = x := by simpa [asksOf] using hy
      subst this
      exact ⟨a', ham, hid⟩
    · intro y hy; simp [foreignOf] at hy

theorem tot_undrain (s : Core) (acc : List RItem) (id : String) (ht : Tot s acc) :
    Tot (s.nodeSchedulable id true) (acc ++ [.undrain id]) := by
  show TotL s.apps (updNs s.nodes id _) _
  have := totL_upd s.apps s.nodes acc (.undrain id) "" id (fun a => a) (fun n => { n with schedulable := true })
    ht (fun _ => rfl) (fun _ => rfl) (fun _ => rfl) ?_ ?_ ?_ ?_ ?_
  · rw [updApps_id] at this; exact this
  · intro z _ k b hb
    have : b = z := by rw [hb]; split <;> rfl
    rw [this]; exact ⟨by show _ = _ + 0; omega, by show _ = _ + 0; omega, by show _ = _ + 0; omega⟩
  · intro n _ k m hm
    have h1 : m.allocated = n.allocated := by rw [hm]; split <;> rfl
    have h2 : m.occupied = n.occupied := by rw [hm]; split <;> rfl
    rw [h1, h2]; exact ⟨by show _ = _ + 0; omega, by show _ = _ + 0; omega⟩
  · intro y hy; simp [allocsOf] at hy
  · intro y hy; simp [asksOf] at hy
  · intro y hy; simp [foreignOf] at hy

theorem tot_rstep (s : Core) (acc : List RItem) (it : RItem) (hi : it.wfRes) (hw : RWF s) (ht : Tot s acc) :
    Tot (s.rstep it).1 (if (s.rstep it).2 = true then acc ++ [it] else acc) := by
  cases it with
  | node id cap sched => exact tot_recNode s acc id cap sched ht
  | app a => exact tot_appAdd s acc a ht
  | alloc x => exact tot_recAlloc s acc x hi ht
  | foreign key node res => exact tot_recForeign s acc key node res hi ht
  | ask x => exact tot_recAsk s acc x hi hw ht
  | undrain id => exact tot_undrain s acc id ht

/-- the accepted items of a replay that continues an earlier one -/
theorem replay_acc_cons (s : Core) (it : RItem) (rest : List RItem) :
    (s.replay (it :: rest)).1 = ((s.rstep it).1.replay rest).1 ∧
    (s.replay (it :: rest)).2 = (if (s.rstep it).2 = true then it :: ((s.rstep it).1.replay rest).2 else ((s.rstep it).1.replay rest).2) :=
  ⟨rfl, rfl⟩

theorem replay_tot (s : Core) (acc items : List RItem) (hi : ∀ it ∈ items, it.wfRes) (hw : RWF s) (hb : Books s) (ht : Tot s acc) :
    Tot (s.replay items).1 (acc ++ (s.replay items).2) := by
  induction items generalizing s acc with
  | nil => simpa [replay] using ht
  | cons it rest ih =>
    obtain ⟨hw', hb'⟩ := rstep_inv s it (hi it List.mem_cons_self) hw hb
    have ht' := tot_rstep s acc it (hi it List.mem_cons_self) hw ht
    have := ih (s.rstep it).1 _ (fun x hx => hi x (List.mem_cons_of_mem _ hx)) hw' hb' ht'
    obtain ⟨e1, e2⟩ := replay_acc_cons s it rest
    rw [e1, e2]
    cases hacc : (s.rstep it).2 with
    | false => simpa [hacc] using this
    | true => simpa [hacc] using this

/-! ### the accepted items; the recomputed totals as vectors -/

theorem replay_acc_sub (s : Core) (items : List RItem) : ∀ it ∈ (s.replay items).2, it ∈ items := by
  induction items generalizing s with
  | nil => intro it h; cases h
  | cons x rest ih =>
    intro it h
    rw [(replay_acc_cons s x rest).2] at h
    split at h
    · rcases List.mem_cons.mp h with h | h
      · rw [h]; exact List.mem_cons_self
      · exact List.mem_cons_of_mem _ (ih _ it h)
    · exact List.mem_cons_of_mem _ (ih _ it h)

theorem wfRes_allocs {acc : List RItem} (h : ∀ it ∈ acc, it.wfRes) : ∀ x ∈ allocsOf acc, wf x.res = true := by
  intro x hx
  unfold allocsOf at hx
  obtain ⟨it, hit, he⟩ := List.mem_filterMap.mp hx
  cases it with
  | alloc y => simp at he; subst he; exact h _ hit
  | _ => simp at he

theorem wfRes_asks {acc : List RItem} (h : ∀ it ∈ acc, it.wfRes) : ∀ x ∈ asksOf acc, wf x.res = true := by
  intro x hx
  unfold asksOf at hx
  obtain ⟨it, hit, he⟩ := List.mem_filterMap.mp hx
  cases it with
  | ask y => simp at he; subst he; exact h _ hit
  | _ => simp at he

theorem wfRes_foreign {acc : List RItem} (h : ∀ it ∈ acc, it.wfRes) : ∀ f ∈ foreignOf acc, wf f.2.2 = true := by
  intro x hx
  unfold foreignOf at hx
  obtain ⟨it, hit, he⟩ := List.mem_filterMap.mp hx
  cases it with
  | foreign k n r => simp at he; subst he; exact h _ hit
  | _ => simp at he

/-- the recomputed totals (vectors, YkModel/Recover.lean) are the pointwise sums -/
theorem tot_getD (acc : List RItem) (h : ∀ it ∈ acc, it.wfRes) (id k : String) :
    (totAppAllocated acc id).getD k = SAr acc id k ∧ (totAppPlaceholder acc id).getD k = SAp acc id k ∧
    (totAppPending acc id).getD k = SQ acc id k ∧ (totNodeAllocated acc id).getD k = SN acc id k ∧
    (totNodeOccupied acc id).getD k = SO acc id k := by
  have ha := wfRes_allocs h
  have hq := wfRes_asks h
  have hf := wfRes_foreign h
  refine ⟨?_, ?_, ?_, ?_, ?_⟩
  · exact sumRes_map_getD _ _ (fun x hx => ha x (List.mem_filter.mp hx).1) k
  · exact sumRes_map_getD _ _ (fun x hx => ha x (List.mem_filter.mp hx).1) k
  · exact sumRes_map_getD _ _ (fun x hx => hq x (List.mem_filter.mp hx).1) k
  · exact sumRes_map_getD _ _ (fun x hx => ha x (List.mem_filter.mp hx).1) k
  · exact sumRes_map_getD _ _ (fun x hx => hf x (List.mem_filter.mp hx).1) k

/-! ### an item whose node / application is registered is accepted: no limit is looked at -/

theorem recAlloc_accepts (s : Core) (x : RAlloc) (a : CApp) (ha : s.findApp x.app = some a) (hn : (s.findNode x.node).isSome = true)
    (hz : isZero (some x.res) = false) (hp : strictlyGreaterThanZero (some x.res) = true)
    (hk : a.items.any (·.key == x.key) = false) : (s.recAlloc x).2 = true := by
  unfold recAlloc
  simp only [ha]
  have : s.recAllocOK a x = true := by unfold recAllocOK; simp [hn, hz, hp, hk]
  rw [if_pos this]

theorem recForeign_accepts (s : Core) (key node : String) (res : Res) (hn : (s.findNode node).isSome = true)
    (hk : s.foreign.contains key = false) : (s.recForeign key node res).2 = true := by
  unfold recForeign
  rw [if_neg (by rw [hk]; exact Bool.false_ne_true)]
  cases hf : s.findNode node with
  | none => rw [hf] at hn; cases hn
  | some _ => rfl

theorem recAsk_accepts (s : Core) (x : RAlloc) (a : CApp) (ha : s.findApp x.app = some a)
    (hz : isZero (some x.res) = false) (hp : strictlyGreaterThanZero (some x.res) = true)
    (hk : a.items.any (·.key == x.key) = false) : (s.recAsk x).2 = true := by
  unfold recAsk
  simp only [ha, hk, Bool.false_eq_true, if_false]
  unfold ask
  simp only [ha]
  have h1 : (isZero (some x.res) || !strictlyGreaterThanZero (some x.res)) = false := by simp [hz, hp]
  rw [if_neg (by simp [h1])]
  have h2 : (a.items.any (fun i => i.key == x.key && i.inReq)) = false := by
    rw [List.any_eq_false] at hk ⊢
    intro i hi; have := hk i hi; simp at this ⊢; intro h; exact absurd h this
  rw [if_neg (by simp [h2])]

theorem recNode_accepts (s : Core) (id : String) (cap : Res) (b : Bool) (h : s.findNode id = none) : (s.recNode id cap b).2 = true := by
  unfold recNode; simp [h]

theorem appAdd_accepts (s : Core) (a : RApp) (q : CQueue) (hn : s.findApp a.id = none) (hq : s.findQueue a.queue = some q)
    (hl : q.leaf = true) (hg : a.forced = true ∨ isZero (some a.phAsk) = true) : (s.appSub a).2 = true := by
  unfold appSub
  have : s.appAddOK a = true := by
    unfold appAddOK gangFits
    rcases hg with hg | hg <;> simp [hn, hq, hl, hg]
  rw [if_pos this]

/-! ### sums: permutations, flattened lists, unique elements -/

theorem perm_sum_int {l₁ l₂ : List Int} (h : l₁.Perm l₂) : l₁.sum = l₂.sum := by
  induction h with
  | nil => rfl
  | cons x _ ih => simp only [List.sum_cons, ih]
  | swap x y l => simp only [List.sum_cons]; omega
  | trans _ _ ih1 ih2 => exact ih1.trans ih2

theorem perm_sumIf {α : Type} {l₁ l₂ : List α} (h : l₁.Perm l₂) (c : α → Bool) (w : α → Int) : sumIf l₁ c w = sumIf l₂ c w :=
  perm_sum_int ((h.filter c).map w)

theorem sumIf_flatten {α β : Type} (L : List α) (f : α → List β) (c : β → Bool) (w : β → Int) :
    sumIf ((L.map f).flatten) c w = (L.map (fun a => sumIf (f a) c w)).sum := by
  induction L with
  | nil => rfl
  | cons a t ih => rw [List.map_cons, List.flatten_cons, sumIf_append, ih, List.map_cons, List.sum_cons]

theorem sumIf_map {α β : Type} (l : List α) (f : α → β) (c : β → Bool) (w : β → Int) :
    sumIf (l.map f) c w = sumIf l (fun a => c (f a)) (fun a => w (f a)) := by
  induction l with
  | nil => rfl
  | cons a t ih => rw [List.map_cons, sumIf_cons, sumIf_cons, ih]

theorem sumIf_filter {α : Type} (l : List α) (p c : α → Bool) (w : α → Int) :
    sumIf (l.filter p) c w = sumIf l (fun a => p a && c a) w := by
  induction l with
  | nil => rfl
  | cons a t ih =>
    rw [List.filter_cons, sumIf_cons]
    cases hp : p a
    · simp [ih]
    · simp [sumIf_cons, ih]

/-- a sum whose terms vanish outside the unique element satisfying `d` -/
theorem sum_unique {α : Type} (l : List α) (d : α → Bool) (w : α → Int) (a : α) (hu : AtMostOne l d) (ha : a ∈ l) (hd : d a = true)
    (hz : ∀ x ∈ l, d x = false → w x = 0) : (l.map w).sum = w a := by
  have h := sum_filter_rm l d w a hu ha hd
  have h0 : ((l.filter (fun x => !d x)).map w).sum = 0 := by
    have : sumIf l (fun x => !d x) w = 0 := by
      apply sumIf_zero; intro x hx hc; exact hz x hx (by simpa using hc)
    exact this
  omega

theorem sum_all_zero {α : Type} (l : List α) (w : α → Int) (hz : ∀ x ∈ l, w x = 0) : (l.map w).sum = 0 := by
  induction l with
  | nil => rfl
  | cons a t ih => rw [List.map_cons, List.sum_cons, hz a List.mem_cons_self, ih (fun x hx => hz x (List.mem_cons_of_mem _ hx))]; rfl

/-! ### what the shim holds of an old core, summed per application -/

theorem liveApps_atMostOne {A : Core} (hw : CoreWF A) (id : String) : AtMostOne A.liveApps (fun ap => ap.id == id) := by
  unfold AtMostOne liveApps
  rw [List.pairwise_filter]
  refine List.Pairwise.imp ?_ hw.appIds
  intro x y hne hx hy dx dy
  simp only [beq_iff_eq] at dx dy
  exact hne hx hy (dx.trans dy.symm)

/-- Σ over the bound allocations the shim holds for application `a` = Σ over `a`'s items -/
theorem snapAllocs_sum (A : Core) (hw : CoreWF A) (a : CApp) (ha : a ∈ A.liveApps) (p : Bool → Bool) (k : String) :
    sumIf (snapAllocs A) (fun x => x.app == a.id && p x.ph) (fun x => x.res.getD k) =
      itemSum a.items (fun i => i.bound && p i.ph) k := by
  unfold snapAllocs
  rw [sumIf_flatten]
  rw [sum_unique A.liveApps (fun ap => ap.id == a.id) _ a (liveApps_atMostOne hw a.id) ha (by simp)]
  · rw [sumIf_map, sumIf_filter]
    unfold itemSum
    apply sumIf_congr
    intro i _
    simp
  · intro ap _ hd
    rw [sumIf_map, sumIf_filter]
    apply sumIf_zero
    intro i _ hc
    simp only [Bool.and_eq_true, beq_iff_eq] at hc
    simp only [beq_eq_false_iff_ne] at hd
    exact absurd hc.2.1 hd

/-- … and over the asks the shim holds -/
theorem snapAsks_sum (A : Core) (hw : CoreWF A) (a : CApp) (ha : a ∈ A.liveApps) (k : String) :
    sumIf (snapAsks A) (fun x => x.app == a.id) (fun x => x.res.getD k) =
      itemSum a.items (fun i => !i.bound && i.inReq && (!i.allocated || i.inflightReal)) k := by
  unfold snapAsks
  rw [sumIf_flatten]
  rw [sum_unique A.liveApps (fun ap => ap.id == a.id) _ a (liveApps_atMostOne hw a.id) ha (by simp)]
  · rw [sumIf_map, sumIf_filter]
    unfold itemSum
    apply sumIf_congr
    intro i _
    simp
  · intro ap _ hd
    rw [sumIf_map, sumIf_filter]
    apply sumIf_zero
    intro i _ hc
    simp only [Bool.and_eq_true, beq_iff_eq] at hc
    simp only [beq_eq_false_iff_ne] at hd
    exact absurd hc.2 hd

/-- the asks the shim holds = the asks the old core counts as pending + the replacements in flight -/
theorem pending_split (A : Core) (hw : CoreWF A) (a : CApp) (ha : a ∈ A.apps) (hl : a.live = true) (k : String) :
    itemSum a.items (fun i => !i.bound && i.inReq && (!i.allocated || i.inflightReal)) k =
      itemSum a.items (fun i => i.inReq && !i.allocated) k + itemSum a.items (fun i => i.inReq && i.inflightReal) k := by
  unfold itemSum
  rw [sumIf_eq, sumIf_eq, sumIf_eq, ← sum_map_add]
  congr 1
  apply List.map_congr_left
  intro i hi
  have hba := hw.boundAllocated a ha hl i hi
  unfold CItem.inflightReal
  cases hb : i.bound <;> cases hr : i.inReq <;> cases hal : i.allocated <;> cases hph : i.ph <;> cases hrel : i.release.isSome <;>
    simp_all

/-! ### old core against restarted core -/

theorem inflightOfApp_getD (A : Core) (hw : CoreWF A) (a : CApp) (ha : a ∈ A.apps) (hl : a.live = true) (k : String) :
    (inflightOfApp a).getD k = itemSum a.items (fun i => i.inReq && i.inflightReal) k := by
  unfold inflightOfApp
  rw [sumRes_map_getD _ _ (fun i hi => (hw.itemRes a ha hl i (List.mem_filter.mp hi).1).1)]
  rfl

/-- The sums over a snapshot that holds (in any order) exactly the bound allocations and the asks of the old core are the
    old core's own totals — plus, for pending, the replacements in flight. -/
theorem snapshot_sums (A : Core) (hw : CoreWF A) (hb : Books A) (items : List RItem)
    (hallocs : (allocsOf items).Perm (snapAllocs A)) (hasks : (asksOf items).Perm (snapAsks A))
    (a : CApp) (ha : a ∈ A.apps) (hl : a.live = true) (k : String) :
    SAr items a.id k = a.allocated.getD k ∧ SAp items a.id k = a.allocatedPh.getD k ∧
    SQ items a.id k = a.pending.getD k + (inflightOfApp a).getD k := by
  have hlm : a ∈ A.liveApps := mem_liveApps.mpr ⟨ha, hl⟩
  have hba := hb.apps a ha hl
  refine ⟨?_, ?_, ?_⟩
  · unfold SAr
    rw [perm_sumIf hallocs, snapAllocs_sum A hw a hlm (fun b => !b) k, hba.allocated k]
  · unfold SAp
    rw [perm_sumIf hallocs, snapAllocs_sum A hw a hlm (fun b => b) k, hba.allocatedPh k]
  · unfold SQ
    rw [perm_sumIf hasks, snapAsks_sum A hw a hlm k, pending_split A hw a ha hl k, hba.pending k, inflightOfApp_getD A hw a ha hl k]

/-- the list of (application id, queue) pairs of the rebuilt state is the list of the accepted submissions -/
def appSig (a : CApp) : String × String := (a.id, a.queue)
def rappSig (a : RApp) : String × String := (a.id, a.queue)

theorem map_sig_updApps (apps : List CApp) (id : String) (f : CApp → CApp) (hf : ∀ a, appSig (f a) = appSig a) :
    (updApps apps id f).map appSig = apps.map appSig := by
  unfold updApps
  rw [List.map_map]
  apply List.map_congr_left
  intro a _
  show appSig (if _ then f a else a) = appSig a
  split
  · exact hf a
  · rfl

theorem rstep_sig (s : Core) (it : RItem) :
    (s.rstep it).1.apps.map appSig = s.apps.map appSig ++ (if (s.rstep it).2 = true then (appsOf [it]).map rappSig else []) := by
  cases it with
  | node id cap sched =>
    have : (s.recNode id cap sched).1.apps = s.apps := by
      rw [recNode_fst]; unfold nodeCreate; split <;> rfl
    show (s.recNode id cap sched).1.apps.map appSig = _
    rw [this]; show _ = _ ++ (if _ then [] else []); simp
  | app a =>
    cases hacc : (s.appSub a).2 with
    | false =>
      show (s.appSub a).1.apps.map appSig = _ ++ (if (s.appSub a).2 = true then _ else [])
      rw [appAdd_rejected hacc, hacc]; simp
    | true =>
      show (s.appSub a).1.apps.map appSig = _ ++ (if (s.appSub a).2 = true then _ else [])
      rw [(appAdd_accepted hacc).2, hacc]
      show (s.apps ++ [newApp a]).map appSig = _
      rw [List.map_append]; rfl
  | alloc x =>
    cases hacc : (s.recAlloc x).2 with
    | false =>
      show (s.recAlloc x).1.apps.map appSig = _ ++ (if (s.recAlloc x).2 = true then _ else [])
      rw [recAlloc_rejected hacc, hacc]; simp
    | true =>
      obtain ⟨a, _, _, heq⟩ := recAlloc_accepted hacc
      show (s.recAlloc x).1.apps.map appSig = _ ++ (if (s.recAlloc x).2 = true then _ else [])
      rw [heq, hacc, (recAllocDo_lists s a x).1, map_sig_updApps s.apps x.app (recApp x) (fun _ => rfl)]
      show _ = _ ++ []; simp
  | foreign key node res =>
    have : (s.recForeign key node res).1.apps = s.apps := by
      rw [recForeign_fst]; unfold foreignAdd; split
      · rfl
      · split <;> rfl
    show (s.recForeign key node res).1.apps.map appSig = _
    rw [this]; show _ = _ ++ (if _ then [] else []); simp
  | ask x =>
    show (s.recAsk x).1.apps.map appSig = _ ++ (if (s.recAsk x).2 = true then [] else [])
    have : (s.recAsk x).1.apps.map appSig = s.apps.map appSig := by
      rcases recAsk_cases s x with h | ⟨a, _, _, heq⟩
      · rw [h]
      · rw [heq]
        show (updApps s.apps x.app _).map appSig = _
        exact map_sig_updApps _ _ _ (fun _ => rfl)
    rw [this]; simp
  | undrain id => show s.apps.map appSig = _ ++ (if _ then [] else []); simp

theorem replay_sig (s : Core) (items : List RItem) :
    (s.replay items).1.apps.map appSig = s.apps.map appSig ++ (appsOf (s.replay items).2).map rappSig := by
  induction items generalizing s with
  | nil => simp [replay, appsOf]
  | cons it rest ih =>
    obtain ⟨e1, e2⟩ := replay_acc_cons s it rest
    rw [e1, e2, ih, rstep_sig]
    cases hacc : (s.rstep it).2 with
    | false => simp
    | true =>
      simp only [if_true]
      have : appsOf (it :: ((s.rstep it).1.replay rest).2) = appsOf [it] ++ appsOf ((s.rstep it).1.replay rest).2 := by
        rw [← appsOf_append]; rfl
      rw [this, List.map_append, List.append_assoc]

/-- Σ over the live applications at or below `p` of a quantity that only depends on (id, queue) -/
theorem qsum_sig (apps : List CApp) (hl : ∀ a ∈ apps, a.live = true) (p : String) (G : String → Int) :
    qsum apps p (fun a => G a.id) = sumIf (apps.map appSig) (fun s => under s.2 p) (fun s => G s.1) := by
  rw [sumIf_map]
  unfold qsum
  apply sumIf_congr
  intro a ha
  show (if (a.live && under a.queue p) = true then G a.id else 0) = (if under a.queue p = true then G a.id else 0)
  rw [hl a ha, Bool.true_and]

/-- the invariants of a replay that starts from the restarted (empty) core -/
theorem replay_fresh (qs : List CQueue) (items : List RItem) (hi : ∀ it ∈ items, it.wfRes) :
    RWF ((Core.fresh qs).replay items).1 ∧ Books ((Core.fresh qs).replay items).1 ∧
    Tot ((Core.fresh qs).replay items).1 ((Core.fresh qs).replay items).2 := by
  obtain ⟨h1, h2⟩ := replay_inv (Core.fresh qs) items hi (rwf_fresh qs) (books_fresh qs)
  have h3 := replay_tot (Core.fresh qs) [] items hi (rwf_fresh qs) (books_fresh qs) (tot_fresh qs)
  rw [List.nil_append] at h3
  exact ⟨h1, h2, h3⟩

theorem agree_app (A : Core) (qs : List CQueue) (items : List RItem) (hw : CoreWF A) (hb : Books A)
    (hi : ∀ it ∈ items, it.wfRes) (hall : ((Core.fresh qs).replay items).2 = items)
    (hallocs : (allocsOf items).Perm (snapAllocs A)) (hasks : (asksOf items).Perm (snapAsks A))
    (a : CApp) (ha : a ∈ A.apps) (hl : a.live = true) (b : CApp) (hbm : b ∈ ((Core.fresh qs).replay items).1.apps)
    (hid : b.id = a.id) (k : String) :
    b.allocated.getD k = a.allocated.getD k ∧ b.allocatedPh.getD k = a.allocatedPh.getD k ∧
    b.pending.getD k = a.pending.getD k + (inflightOfApp a).getD k := by
  obtain ⟨_, _, ht⟩ := replay_fresh qs items hi
  rw [hall] at ht
  obtain ⟨h1, h2, h3⟩ := ht.app b hbm k
  obtain ⟨g1, g2, g3⟩ := snapshot_sums A hw hb items hallocs hasks a ha hl k
  rw [h1, h2, h3, hid, g1, g2, g3]; exact ⟨rfl, rfl, rfl⟩

theorem agree_queue (A : Core) (qs : List CQueue) (items : List RItem) (hw : CoreWF A) (hb : Books A)
    (hi : ∀ it ∈ items, it.wfRes) (hall : ((Core.fresh qs).replay items).2 = items)
    (hallocs : (allocsOf items).Perm (snapAllocs A)) (hasks : (asksOf items).Perm (snapAsks A))
    (happs : ((appsOf items).map rappSig).Perm (A.liveApps.map appSig))
    (q : CQueue) (hq : q ∈ A.queues) (r : CQueue) (hr : r ∈ ((Core.fresh qs).replay items).1.queues) (hp : r.path = q.path) (k : String) :
    r.allocated.getD k = q.allocated.getD k ∧
    r.pending.getD k = q.pending.getD k + qsum A.apps q.path (fun a => (inflightOfApp a).getD k) := by
  obtain ⟨_, hbB, ht⟩ := replay_fresh qs items hi
  have hsig := replay_sig (Core.fresh qs) items
  rw [hall] at ht hsig
  have hsig' : ((Core.fresh qs).replay items).1.apps.map appSig = (appsOf items).map rappSig := by
    rw [hsig]; show [] ++ _ = _; simp
  have hqB := hbB.queues r hr
  have hqA := hb.queues q hq
  -- sums over B's applications as sums over A's live applications
  have move : ∀ G : String → Int, qsum ((Core.fresh qs).replay items).1.apps r.path (fun b => G b.id) =
      sumIf A.liveApps (fun a => under a.queue q.path) (fun a => G a.id) := by
    intro G
    rw [qsum_sig _ ht.live, hsig', perm_sumIf happs, sumIf_map, hp]
    rfl
  have liveSum : ∀ g : CApp → Int, sumIf A.liveApps (fun a => under a.queue q.path) g = qsum A.apps q.path g := by
    intro g; rw [qsum_liveApps]; rfl
  constructor
  · rw [hqB.allocated k, hqA.allocated k]
    have e1 : qsum ((Core.fresh qs).replay items).1.apps r.path (fun b => b.allocated.getD k + b.allocatedPh.getD k) =
        qsum ((Core.fresh qs).replay items).1.apps r.path (fun b => SAr items b.id k + SAp items b.id k) := by
      unfold qsum; apply sumIf_congr; intro b hbm
      obtain ⟨h1, h2, _⟩ := ht.app b hbm k
      rw [h1, h2]
    rw [e1, move (fun id => SAr items id k + SAp items id k), ← liveSum]
    apply sumIf_congr
    intro a ham
    obtain ⟨ha, hl⟩ := mem_liveApps.mp ham
    obtain ⟨g1, g2, _⟩ := snapshot_sums A hw hb items hallocs hasks a ha hl k
    rw [g1, g2]
  · rw [hqB.pending k, hqA.pending k]
    have e1 : qsum ((Core.fresh qs).replay items).1.apps r.path (fun b => b.pending.getD k) =
        qsum ((Core.fresh qs).replay items).1.apps r.path (fun b => SQ items b.id k) := by
      unfold qsum; apply sumIf_congr; intro b hbm
      obtain ⟨_, _, h3⟩ := ht.app b hbm k
      rw [h3]
    rw [e1, move (fun id => SQ items id k), ← liveSum, ← liveSum]
    have : sumIf A.liveApps (fun a => under a.queue q.path) (fun a => SQ items a.id k) =
        sumIf A.liveApps (fun a => under a.queue q.path) (fun a => a.pending.getD k + (inflightOfApp a).getD k) := by
      apply sumIf_congr
      intro a ham
      obtain ⟨ha, hl⟩ := mem_liveApps.mp ham
      obtain ⟨_, _, g3⟩ := snapshot_sums A hw hb items hallocs hasks a ha hl k
      rw [g3]
    rw [this, sumIf_eq, sumIf_eq, sumIf_eq, ← sum_map_add]
    congr 1
    apply List.map_congr_left
    intro a _
    split <;> simp

theorem agree_node (A : Core) (qs : List CQueue) (items : List RItem)
    (hi : ∀ it ∈ items, it.wfRes) (hall : ((Core.fresh qs).replay items).2 = items)
    (hallocs : (allocsOf items).Perm (snapAllocs A)) (hforeign : (foreignOf items).Perm (snapForeign A))
    (n : CNode) (m : CNode) (hm : m ∈ ((Core.fresh qs).replay items).1.nodes) (hid : m.id = n.id) (k : String)
    (hview : n.allocated.getD k = sumIf (snapAllocs A) (fun x => x.node == n.id) (fun x => x.res.getD k) + (inflightOnNode A n).getD k)
    (hocc : n.occupied.getD k = sumIf (snapForeign A) (fun f => f.2.1 == n.id) (fun f => f.2.2.getD k)) :
    n.allocated.getD k = m.allocated.getD k + (inflightOnNode A n).getD k ∧ n.occupied.getD k = m.occupied.getD k := by
  obtain ⟨_, _, ht⟩ := replay_fresh qs items hi
  rw [hall] at ht
  obtain ⟨h1, h2⟩ := ht.node m hm k
  rw [h1, h2, hid, hview, hocc]
  unfold SN SO
  rw [perm_sumIf hallocs, perm_sumIf hforeign]
  exact ⟨rfl, rfl⟩

/-- the recomputed totals do not depend on the order of the items -/
theorem sums_perm {items items' : List RItem} (h : items.Perm items') (id k : String) :
    SAr items id k = SAr items' id k ∧ SAp items id k = SAp items' id k ∧ SQ items id k = SQ items' id k ∧
    SN items id k = SN items' id k ∧ SO items id k = SO items' id k := by
  unfold SAr SAp SQ SN SO allocsOf asksOf foreignOf
  exact ⟨perm_sumIf (h.filterMap _) _ _, perm_sumIf (h.filterMap _) _ _, perm_sumIf (h.filterMap _) _ _,
         perm_sumIf (h.filterMap _) _ _, perm_sumIf (h.filterMap _) _ _⟩

/-- state-based legality: every item finds its node / application registered and its key unused -/
def Ready (s : Core) : RItem → Prop
  | .node id _ _ => s.findNode id = none
  | .app a => s.appAddOK a = true
  | .alloc x => ∃ a, s.findApp x.app = some a ∧ (s.findNode x.node).isSome = true ∧ isZero (some x.res) = false ∧
      strictlyGreaterThanZero (some x.res) = true ∧ a.items.any (·.key == x.key) = false
  | .foreign key node _ => (s.findNode node).isSome = true ∧ s.foreign.contains key = false
  | .ask x => ∃ a, s.findApp x.app = some a ∧ isZero (some x.res) = false ∧ strictlyGreaterThanZero (some x.res) = true ∧
      a.items.any (·.key == x.key) = false
  | .undrain _ => True

theorem ready_accepted (s : Core) (it : RItem) (h : Ready s it) : (s.rstep it).2 = true := by
  cases it with
  | node id cap sched => exact recNode_accepts s id cap sched h
  | app a =>
    have h' : s.appAddOK a = true := h
    show (s.appSub a).2 = true; unfold appSub; rw [if_pos h']
  | alloc x => obtain ⟨a, h1, h2, h3, h4, h5⟩ := h; exact recAlloc_accepts s x a h1 h2 h3 h4 h5
  | foreign key node res => exact recForeign_accepts s key node res h.1 h.2
  | ask x => obtain ⟨a, h1, h3, h4, h5⟩ := h; exact recAsk_accepts s x a h1 h3 h4 h5
  | undrain id => rfl

def Legal (s : Core) : List RItem → Prop
  | [] => True
  | it :: rest => Ready s it ∧ Legal (s.rstep it).1 rest

theorem legal_all_accepted (s : Core) (items : List RItem) (h : Legal s items) : (s.replay items).2 = items := by
  induction items generalizing s with
  | nil => rfl
  | cons it rest ih =>
    obtain ⟨h1, h2⟩ := h
    rw [(replay_acc_cons s it rest).2, ready_accepted s it h1, ih _ h2]; rfl

/-! ### the order the shim guarantees, stated on the list of items alone -/

def validRes (r : Res) : Prop := isZero (some r) = false ∧ strictlyGreaterThanZero (some r) = true

/-- `LegalFrom qs nodes apps keys items`: with `nodes` / `apps` registered and `keys` used so far, every item of `items`
    comes after its node and its application, ids and keys are not reused, resources are valid, and applications are
    placed in a leaf of the queue tree `qs` and are force-created or carry no task-group request. -/
def LegalFrom (qs : List CQueue) (nodes apps keys : List String) : List RItem → Prop
  | [] => True
  | .node id _ _ :: t => id ∉ nodes ∧ LegalFrom qs (id :: nodes) apps keys t
  | .app a :: t => a.id ∉ apps ∧ (∃ q, qs.find? (·.path == a.queue) = some q ∧ q.leaf = true) ∧
      (a.forced = true ∨ isZero (some a.phAsk) = true) ∧
      LegalFrom qs nodes (a.id :: apps) keys t
  | .alloc x :: t => x.node ∈ nodes ∧ x.app ∈ apps ∧ x.key ∉ keys ∧ validRes x.res ∧ LegalFrom qs nodes apps (x.key :: keys) t
  | .foreign key node _ :: t => node ∈ nodes ∧ key ∉ keys ∧ LegalFrom qs nodes apps (key :: keys) t
  | .ask x :: t => x.app ∈ apps ∧ x.key ∉ keys ∧ validRes x.res ∧ LegalFrom qs nodes apps (x.key :: keys) t
  | .undrain _ :: t => LegalFrom qs nodes apps keys t

/-- the registry the order argument keeps: which nodes / applications the state knows, which keys are in use -/
structure Reg (qs : List CQueue) (s : Core) (nodes apps keys : List String) : Prop where
  hnodes : ∀ id, id ∈ nodes ↔ ∃ n ∈ s.nodes, n.id = id
  happs : ∀ id, id ∈ apps ↔ ∃ a ∈ s.apps, a.id = id
  hlive : ∀ a ∈ s.apps, a.live = true
  hkeys : ∀ a ∈ s.apps, ∀ i ∈ a.items, i.key ∈ keys
  hforeign : ∀ k ∈ s.foreign, k ∈ keys
  hqueues : ∀ p, (s.queues.find? (·.path == p)).map (·.leaf) = (qs.find? (·.path == p)).map (·.leaf)

theorem findNode_isSome {s : Core} {id : String} (h : ∃ n ∈ s.nodes, n.id = id) : (s.findNode id).isSome = true := by
  obtain ⟨n, hn, hid⟩ := h
  unfold findNode
  rw [List.find?_isSome]; exact ⟨n, hn, by simp [hid]⟩

theorem findNode_eq_none {s : Core} {id : String} (h : ¬ ∃ n ∈ s.nodes, n.id = id) : s.findNode id = none := by
  unfold findNode
  rw [List.find?_eq_none]
  intro n hn hp
  exact h ⟨n, hn, by simpa using hp⟩

theorem findApp_exists {s : Core} {id : String} (hl : ∀ a ∈ s.apps, a.live = true) (h : ∃ a ∈ s.apps, a.id = id) :
    ∃ a, s.findApp id = some a := by
  obtain ⟨a, ha, hid⟩ := h
  have : (s.findApp id).isSome = true := by
    unfold findApp
    rw [List.find?_isSome]; exact ⟨a, mem_liveApps.mpr ⟨ha, hl a ha⟩, by simp [hid]⟩
  cases hf : s.findApp id with
  | none => rw [hf] at this; cases this
  | some b => exact ⟨b, rfl⟩

theorem any_key_false {l : List CItem} {key : String} {keys : List String} (h : ∀ i ∈ l, i.key ∈ keys) (hk : key ∉ keys) :
    l.any (·.key == key) = false := by
  rw [List.any_eq_false]
  intro i hi hp
  have : i.key = key := by simpa using hp
  exact hk (this ▸ h i hi)

/-- in a legal position an item is ready -/
theorem ready_of_legal (qs : List CQueue) (s : Core) (nodes apps keys : List String) (it : RItem) (t : List RItem)
    (hr : Reg qs s nodes apps keys) (hl : LegalFrom qs nodes apps keys (it :: t)) : Ready s it := by
  cases it with
  | node id cap sched =>
    obtain ⟨h1, _⟩ := hl
    exact findNode_eq_none (fun h => h1 ((hr.hnodes id).mpr h))
  | app a =>
    obtain ⟨h1, ⟨q, hq, hleaf⟩, hz, _⟩ := hl
    show s.appAddOK a = true
    have hnone : s.findApp a.id = none := findApp_eq_none (fun x hx _ hid => h1 ((hr.happs a.id).mpr ⟨x, hx, hid⟩))
    have hqs := hr.hqueues a.queue
    rw [hq] at hqs
    unfold appAddOK gangFits findQueue
    cases hf : s.queues.find? (·.path == a.queue) with
    | none => rw [hf] at hqs; cases hqs
    | some q' =>
      rw [hf] at hqs
      have : q'.leaf = true := by simpa [hleaf] using hqs
      rcases hz with hz | hz <;> simp [hnone, this, hz]
  | alloc x =>
    obtain ⟨h1, h2, h3, ⟨hv1, hv2⟩, _⟩ := hl
    obtain ⟨a, hfind⟩ := findApp_exists hr.hlive ((hr.happs x.app).mp h2)
    obtain ⟨ham, _, _⟩ := findApp_some hfind
    exact ⟨a, hfind, findNode_isSome ((hr.hnodes x.node).mp h1), hv1, hv2, any_key_false (hr.hkeys a ham) h3⟩
  | foreign key node res =>
    obtain ⟨h1, h2, _⟩ := hl
    refine ⟨findNode_isSome ((hr.hnodes node).mp h1), ?_⟩
    cases hc : s.foreign.contains key with
    | false => rfl
    | true => exact absurd (hr.hforeign key (by simpa using hc)) h2
  | ask x =>
    obtain ⟨h2, h3, ⟨hv1, hv2⟩, _⟩ := hl
    obtain ⟨a, hfind⟩ := findApp_exists hr.hlive ((hr.happs x.app).mp h2)
    obtain ⟨ham, _, _⟩ := findApp_some hfind
    exact ⟨a, hfind, hv1, hv2, any_key_false (hr.hkeys a ham) h3⟩
  | undrain id => trivial

theorem find_leaf_map (l : List CQueue) (f : CQueue → CQueue) (hp : ∀ q, (f q).path = q.path) (hl : ∀ q, (f q).leaf = q.leaf)
    (p : String) : ((l.map f).find? (·.path == p)).map (·.leaf) = (l.find? (·.path == p)).map (·.leaf) := by
  rw [List.find?_map]
  have : ((fun q : CQueue => q.path == p) ∘ f) = (fun q : CQueue => q.path == p) := by
    funext q; show ((f q).path == p) = _; rw [hp]
  rw [this, Option.map_map]
  congr 1
  funext q; exact hl q

theorem exists_updNs_iff {nodes : List CNode} {id : String} {f : CNode → CNode} (hf : ∀ a, (f a).id = a.id) {i : String} :
    (∃ a ∈ updNs nodes id f, a.id = i) ↔ ∃ a ∈ nodes, a.id = i := by
  constructor
  · rintro ⟨y, hy, hi⟩
    obtain ⟨z, hz, rfl⟩ := List.mem_map.mp hy
    refine ⟨z, hz, ?_⟩
    rw [← hi]; split
    · exact (hf z).symm
    · rfl
  · exact exists_updNs hf

theorem exists_updApps_iff {apps : List CApp} {id : String} {f : CApp → CApp} (hf : ∀ a, (f a).id = a.id) {i : String} :
    (∃ a ∈ updApps apps id f, a.id = i) ↔ ∃ a ∈ apps, a.id = i := by
  constructor
  · rintro ⟨y, hy, hi⟩
    obtain ⟨z, hz, rfl⟩ := List.mem_map.mp hy
    refine ⟨z, hz, ?_⟩
    rw [← hi]; split
    · exact (hf z).symm
    · rfl
  · exact exists_updApps hf

/-- the registry after an in-place update of applications, nodes and queues that appends at most one item with key `key`
    to some applications and at most the key `key` to the foreign list -/
theorem reg_upd (qs : List CQueue) (s t : Core) (nodes apps keys : List String) (key : String) (ida idn : String)
    (fa : CApp → CApp) (fn : CNode → CNode) (fq : CQueue → CQueue) (paths : List String)
    (hr : Reg qs s nodes apps keys)
    (hta : t.apps = updApps s.apps ida fa) (htn : t.nodes = updNs s.nodes idn fn) (htq : t.queues = updQs s.queues paths fq)
    (htf : ∀ k ∈ t.foreign, k ∈ s.foreign ∨ k = key)
    (hfa_id : ∀ a, (fa a).id = a.id) (hfa_live : ∀ a, (fa a).live = a.live) (hfn_id : ∀ n, (fn n).id = n.id)
    (hfa_items : ∀ a, ∀ i ∈ (fa a).items, i ∈ a.items ∨ i.key = key)
    (hfq_path : ∀ q, (fq q).path = q.path) (hfq_leaf : ∀ q, (fq q).leaf = q.leaf) :
    Reg qs t nodes apps (key :: keys) := by
  refine ⟨?_, ?_, ?_, ?_, ?_, ?_⟩
  · intro id; rw [htn, exists_updNs_iff hfn_id]; exact hr.hnodes id
  · intro id; rw [hta, exists_updApps_iff hfa_id]; exact hr.happs id
  · rw [hta]
    intro y hy
    obtain ⟨z, hz, rfl⟩ := List.mem_map.mp hy
    split
    · rw [hfa_live]; exact hr.hlive z hz
    · exact hr.hlive z hz
  · rw [hta]
    intro y hy i hi
    obtain ⟨z, hz, rfl⟩ := List.mem_map.mp hy
    split at hi
    · rcases hfa_items z i hi with h | h
      · exact List.mem_cons_of_mem _ (hr.hkeys z hz i h)
      · rw [h]; exact List.mem_cons_self
    · exact List.mem_cons_of_mem _ (hr.hkeys z hz i hi)
  · intro k hk
    rcases htf k hk with h | h
    · exact List.mem_cons_of_mem _ (hr.hforeign k h)
    · rw [h]; exact List.mem_cons_self
  · intro p
    rw [htq]
    have := find_leaf_map s.queues (fun q => if paths.contains q.path = true then fq q else q)
      (by intro q; split; exact hfq_path q; rfl) (by intro q; split; exact hfq_leaf q; rfl) p
    rw [this]; exact hr.hqueues p

theorem reg_weaken_keys {qs : List CQueue} {s : Core} {nodes apps keys : List String} (key : String)
    (hr : Reg qs s nodes apps keys) : Reg qs s nodes apps (key :: keys) :=
  ⟨hr.hnodes, hr.happs, hr.hlive, fun a ha i hi => List.mem_cons_of_mem _ (hr.hkeys a ha i hi),
   fun k hk => List.mem_cons_of_mem _ (hr.hforeign k hk), hr.hqueues⟩

theorem reg_fresh (qs : List CQueue) : Reg qs (Core.fresh qs) [] [] [] := by
  refine ⟨?_, ?_, ?_, ?_, ?_, ?_⟩
  · intro id; constructor
    · intro h; cases h
    · rintro ⟨n, hn, _⟩; change n ∈ [] at hn; cases hn
  · intro id; constructor
    · intro h; cases h
    · rintro ⟨n, hn, _⟩; change n ∈ [] at hn; cases hn
  · intro a h; change a ∈ [] at h; cases h
  · intro a h; change a ∈ [] at h; cases h
  · intro k h; change k ∈ [] at h; cases h
  · intro p
    exact find_leaf_map qs (fun q => { q with allocated := [], pending := [], preempting := [], running := 0, allocating := [],
                                              apps := [], reserved := [] }) (fun _ => rfl) (fun _ => rfl) p

/-- **a legal order is accepted completely**: the syntactic order condition implies the state-based one -/
theorem legal_of_legalFrom (qs : List CQueue) (s : Core) (nodes apps keys : List String) (items : List RItem)
    (hr : Reg qs s nodes apps keys) (hl : LegalFrom qs nodes apps keys items) : Legal s items := by
  induction items generalizing s nodes apps keys with
  | nil => trivial
  | cons it t ih =>
    have hready := ready_of_legal qs s nodes apps keys it t hr hl
    refine ⟨hready, ?_⟩
    have hacc := ready_accepted s it hready
    cases it with
    | node id cap sched =>
      obtain ⟨_, hl'⟩ := hl
      have hnone : s.findNode id = none := hready
      refine ih _ (id :: nodes) apps keys ?_ hl'
      show Reg qs (s.recNode id cap sched).1 _ _ _
      rw [recNode_fst]
      unfold nodeCreate
      rw [hnone]
      simp only [Option.isSome_none, Bool.false_eq_true, if_false]
      refine ⟨?_, hr.happs, hr.hlive, hr.hkeys, hr.hforeign, ?_⟩
      · intro id'
        show id' ∈ id :: nodes ↔ ∃ n ∈ s.nodes ++ [_], n.id = id'
        constructor
        · intro h
          rcases List.mem_cons.mp h with h | h
          · exact ⟨_, List.mem_append_right _ List.mem_cons_self, h.symm⟩
          · obtain ⟨n, hn, hi⟩ := (hr.hnodes id').mp h
            exact ⟨n, List.mem_append_left _ hn, hi⟩
        · rintro ⟨n, hn, hi⟩
          rcases List.mem_append.mp hn with h | h
          · exact List.mem_cons_of_mem _ ((hr.hnodes id').mpr ⟨n, h, hi⟩)
          · rw [List.mem_singleton] at h; subst h; rw [← hi]; exact List.mem_cons_self
      · intro p
        have := find_leaf_map s.queues (fun q => if q.parent.isNone then
            { q with max := if strictlyGreaterThanZero (some (prune (addX s.total (prune cap)))) then some (prune (addX s.total (prune cap))) else none } else q)
          (by intro q; split <;> rfl) (by intro q; split <;> rfl) p
        exact this.trans (hr.hqueues p)
    | app a =>
      obtain ⟨_, _, _, hl'⟩ := hl
      refine ih _ nodes (a.id :: apps) keys ?_ hl'
      show Reg qs (s.appSub a).1 _ _ _
      rw [(appAdd_accepted hacc).2]
      refine ⟨hr.hnodes, ?_, ?_, ?_, hr.hforeign, ?_⟩
      · intro id'
        show id' ∈ a.id :: apps ↔ ∃ x ∈ s.apps ++ [newApp a], x.id = id'
        constructor
        · intro h
          rcases List.mem_cons.mp h with h | h
          · exact ⟨_, List.mem_append_right _ List.mem_cons_self, h.symm⟩
          · obtain ⟨n, hn, hi⟩ := (hr.happs id').mp h
            exact ⟨n, List.mem_append_left _ hn, hi⟩
        · rintro ⟨n, hn, hi⟩
          rcases List.mem_append.mp hn with h | h
          · exact List.mem_cons_of_mem _ ((hr.happs id').mpr ⟨n, h, hi⟩)
          · rw [List.mem_singleton] at h; subst h; rw [← hi]; exact List.mem_cons_self
      · intro x hx
        rcases List.mem_append.mp hx with h | h
        · exact hr.hlive x h
        · rw [List.mem_singleton] at h; subst h; rfl
      · intro x hx i hi
        rcases List.mem_append.mp hx with h | h
        · exact hr.hkeys x h i hi
        · rw [List.mem_singleton] at h; subst h; cases hi
      · intro p
        have := find_leaf_map s.queues (fun q => if q.path == a.queue then { q with apps := q.apps ++ [a.id] } else q)
          (by intro q; split <;> rfl) (by intro q; split <;> rfl) p
        exact this.trans (hr.hqueues p)
    | alloc x =>
      obtain ⟨_, _, _, _, hl'⟩ := hl
      refine ih _ nodes apps (x.key :: keys) ?_ hl'
      obtain ⟨a, _, _, heq⟩ := recAlloc_accepted hacc
      show Reg qs (s.recAlloc x).1 _ _ _
      rw [heq]
      obtain ⟨hta, htq, htn⟩ := recAllocDo_lists s a x
      refine reg_upd qs s _ nodes apps keys x.key x.app x.node (recApp x) _ _ (pathChain s a.queue) hr hta htn htq
        (fun k hk => Or.inl hk) (fun _ => rfl) (fun _ => rfl) (fun _ => rfl) ?_ (fun _ => rfl) (fun _ => rfl)
      intro z i hi
      rw [recApp_items] at hi
      rcases List.mem_append.mp hi with h | h
      · exact Or.inl h
      · rw [List.mem_singleton] at h; subst h; exact Or.inr rfl
    | foreign key node res =>
      obtain ⟨_, _, hl'⟩ := hl
      refine ih _ nodes apps (key :: keys) ?_ hl'
      obtain ⟨hn, hc⟩ : (s.findNode node).isSome = true ∧ s.foreign.contains key = false := hready
      show Reg qs (s.recForeign key node res).1 _ _ _
      rw [recForeign_fst]
      unfold foreignAdd
      rw [if_neg (by rw [hc]; exact Bool.false_ne_true)]
      cases hf : s.findNode node with
      | none => rw [hf] at hn; cases hn
      | some n0 =>
        simp only
        refine reg_upd qs s _ nodes apps keys key "" node (fun a => a) _ (fun q => q) [] hr
          (by rw [updApps_id]; rfl) rfl (by show s.queues = updQs s.queues [] _; unfold updQs; simp) ?_
          (fun _ => rfl) (fun _ => rfl) (fun _ => rfl) (fun _ i hi => Or.inl hi) (fun _ => rfl) (fun _ => rfl)
        intro k hk
        rcases List.mem_append.mp hk with h | h
        · exact Or.inl h
        · rw [List.mem_singleton] at h; exact Or.inr h
    | ask x =>
      obtain ⟨_, _, _, hl'⟩ := hl
      refine ih _ nodes apps (x.key :: keys) ?_ hl'
      show Reg qs (s.recAsk x).1 _ _ _
      rcases recAsk_cases s x with h | ⟨a, _, _, heq⟩
      · have hacc' : (s.recAsk x).2 = true := hacc
        rw [h] at hacc'; cases hacc'
      · rw [heq]
        refine reg_upd qs s _ nodes apps keys x.key x.app "" (askApp' a x.key x.res x.ph x.tg x.reqNode) (fun n => n) _ (pathChain s a.queue) hr
          rfl (by show s.nodes = _; rw [updNs_id]) rfl (fun k hk => Or.inl hk) (fun _ => rfl) (fun _ => rfl) (fun _ => rfl) ?_
          (fun _ => rfl) (fun _ => rfl)
        intro z i hi
        change i ∈ z.items ++ [_] at hi
        rcases List.mem_append.mp hi with h | h
        · exact Or.inl h
        · rw [List.mem_singleton] at h; subst h; exact Or.inr rfl
    | undrain id =>
      refine ih _ nodes apps keys ?_ hl
      show Reg qs (s.nodeSchedulable id true) _ _ _
      refine ⟨?_, hr.happs, hr.hlive, hr.hkeys, hr.hforeign, hr.hqueues⟩
      intro id'
      have e := @exists_updNs_iff s.nodes id (fun n => { n with schedulable := true }) (fun _ => rfl) id'
      exact (hr.hnodes id').trans e.symm

theorem legalFrom_all_accepted (qs : List CQueue) (items : List RItem) (hl : LegalFrom qs [] [] [] items) :
    ((Core.fresh qs).replay items).2 = items :=
  legal_all_accepted _ _ (legal_of_legalFrom qs _ [] [] [] items (reg_fresh qs) hl)

/-! ### the "ask → allocation" transition branch of UpdateAllocation (a key replayed as an ask, reported as bound later) -/

theorem books_bindHeld (s : Core) (x : RAlloc) (hw : CoreWF s) (hb : Books s) : Books (s.bindHeld x).1 := by
  unfold bindHeld
  split
  · rename_i a n hfind hnode
    obtain ⟨ham, hl, hid⟩ := findApp_some hfind
    split
    · exact hb
    · rename_i i hitem
      · have him : i ∈ a.items := List.mem_of_find?_eq_some hitem
        have hip := List.find?_some hitem
        simp only [Bool.and_eq_true, beq_iff_eq, Bool.not_eq_true'] at hip
        obtain ⟨⟨hkey, hreq⟩, hnal⟩ := hip
        have hnb : i.bound = false := by
          cases hbd : i.bound with
          | false => rfl
          | true => rw [hw.boundAllocated a ham hl i him hbd] at hnal; cases hnal
        obtain ⟨hwp, hwa, hwh⟩ := hw.appRes a ham hl
        obtain ⟨hwr, hnn⟩ := hw.itemRes a ham hl i him
        have hba := hb.apps a ham hl
        have hkeys := hw.itemKeys a ham hl
        have hge := fun q hq hun k => pending_ge s.apps (fun y hy hyl j hj => (hw.itemRes y hy hyl j hj).2) hb.apps a ham hl i him
          (by simp [hreq, hnal]) q (hb.queues q hq) hun k
        have hnodes : ∀ phv : Bool, ∀ m ∈ updNs s.nodes x.node (fun n => { n with
            allocs := n.allocs ++ [{ key := x.key, app := x.app, res := i.res, foreign := false, ph := phv }],
            allocated := addX n.allocated i.res, available := prune (subX n.available i.res) }), NodeBooks m := by
          intro phv
          apply books_upd_nodes _ _ _ hb.nodes
          intro m hm _ hmb
          obtain ⟨_, ho, ha, hv⟩ := hw.nodeRes m hm
          constructor
          · intro k
            show (addX m.allocated i.res).getD k = allocSum (m.allocs ++ [_]) k
            rw [addX_getD _ _ hwr, allocSum_append, ← hmb.allocated k]; simp [allocSum, sumIf_single]
          · intro k
            show (prune (subX m.available i.res)).getD k = m.total.getD k - (addX m.allocated i.res).getD k - m.occupied.getD k
            rw [prune_subX_getD _ _ hv hwr, addX_getD _ _ hwr, hmb.available k]; omega
        have hqon : ∀ q ∈ s.queues, under a.queue q.path = true → ∀ k,
            (addX q.allocated i.res).getD k = q.allocated.getD k + i.res.getD k ∧
            (decPendingRes q.pending i.res).getD k = q.pending.getD k - i.res.getD k := by
          intro q hq hun k
          obtain ⟨_, hqp, hqr⟩ := hw.queueRes q hq
          refine ⟨addX_getD _ _ hwr k, decPendingRes_getD _ _ hqp hwr hqr (fun k' => ?_) k⟩
          have := hge q hq hun k'; omega
        cases hph : i.ph with
        | true =>
          refine books_upd s _ x.app a _ (pathChain s a.queue) _ rfl rfl (hnodes _) hw.appIds ham hl hid hb.apps hb.queues
            rfl ?_ (chain_iff s a.queue) (fun _ => rfl) ?_
          · intro _
            refine ⟨?_, ?_, ?_⟩
            · intro k
              show a.allocated.getD k = itemSum (a.items.map _) _ k
              rw [itemSum_upd _ hkeys x.key _ i him hkey, hba.allocated k]; simp [hnb, hph]
            · intro k
              show (addX a.allocatedPh i.res).getD k = itemSum (a.items.map _) _ k
              rw [itemSum_upd _ hkeys x.key _ i him hkey, addX_getD _ _ hwr, hba.allocatedPh k]; simp [hnb, hph]
            · intro k
              show (prune (subX a.pending i.res)).getD k = itemSum (a.items.map _) _ k
              rw [itemSum_upd _ hkeys x.key _ i him hkey, prune_subX_getD _ _ hwp hwr, hba.pending k]; simp [hreq, hnal]
          · intro q hq hun k
            obtain ⟨h1, h2⟩ := hqon q hq hun k
            constructor
            · show (addX q.allocated i.res).getD k = q.allocated.getD k - (a.allocated.getD k + a.allocatedPh.getD k) +
                (if a.live = true then a.allocated.getD k + (addX a.allocatedPh i.res).getD k else 0)
              rw [h1, addX_getD _ _ hwr]; simp only [hl, if_true]; omega
            · show (decPendingRes q.pending i.res).getD k = q.pending.getD k - a.pending.getD k +
                (if a.live = true then (prune (subX a.pending i.res)).getD k else 0)
              rw [h2, prune_subX_getD _ _ hwp hwr]; simp only [hl, if_true]; omega
        | false =>
          refine books_upd s _ x.app a _ (pathChain s a.queue) _ rfl rfl (hnodes _) hw.appIds ham hl hid hb.apps hb.queues
            rfl ?_ (chain_iff s a.queue) (fun _ => rfl) ?_
          · intro _
            refine ⟨?_, ?_, ?_⟩
            · intro k
              show (addX a.allocated i.res).getD k = itemSum (a.items.map _) _ k
              rw [itemSum_upd _ hkeys x.key _ i him hkey, addX_getD _ _ hwr, hba.allocated k]; simp [hnb, hph]
            · intro k
              show a.allocatedPh.getD k = itemSum (a.items.map _) _ k
              rw [itemSum_upd _ hkeys x.key _ i him hkey, hba.allocatedPh k]; simp [hnb, hph]
            · intro k
              show (prune (subX a.pending i.res)).getD k = itemSum (a.items.map _) _ k
              rw [itemSum_upd _ hkeys x.key _ i him hkey, prune_subX_getD _ _ hwp hwr, hba.pending k]; simp [hreq, hnal]
          · intro q hq hun k
            obtain ⟨h1, h2⟩ := hqon q hq hun k
            constructor
            · show (addX q.allocated i.res).getD k = q.allocated.getD k - (a.allocated.getD k + a.allocatedPh.getD k) +
                (if a.live = true then (addX a.allocated i.res).getD k + a.allocatedPh.getD k else 0)
              rw [h1, addX_getD _ _ hwr]; simp only [hl, if_true]; omega
            · show (decPendingRes q.pending i.res).getD k = q.pending.getD k - a.pending.getD k +
                (if a.live = true then (prune (subX a.pending i.res)).getD k else 0)
              rw [h2, prune_subX_getD _ _ hwp hwr]; simp only [hl, if_true]; omega
  · exact hb

/-! ### the resource change of a pending ask that precedes the transition when the shim reports another size -/

/-- no queue's pending total leaves the int64 range when an ask is resized to `res` (the framework's NoSat hypothesis for
    this operation) -/
def NoSatResize (s : Core) (res : Res) : Prop :=
  ∀ q ∈ s.queues, ∀ a ∈ s.apps, ∀ i ∈ a.items, allInR (addX q.pending (prune (subX res i.res)))

theorem resizePending_cases (s : Core) (a : CApp) (i : CItem) (res : Res) :
    s.resizePending a i res = s ∨
    s.resizePending a i res = updQueues (updApp s a.id (fun a => { a with
        items := a.items.map (fun y => if y.key == i.key then { y with res := res } else y),
        pending := prune (addX a.pending (prune (subX res i.res))) })) (pathChain s a.queue)
        (fun q => { q with pending := addX q.pending (prune (subX res i.res)) }) := by
  unfold resizePending
  by_cases hc : (isZero (some (prune (subX res i.res))) || isZero (some res)) = true
  · left; simp only [hc, if_true]
  · right; simp only [hc]; rfl

theorem books_resizePending (s : Core) (a : CApp) (i : CItem) (res : Res) (hw : CoreWF s) (hb : Books s)
    (ham : a ∈ s.apps) (hl : a.live = true) (him : i ∈ a.items) (hreq : i.inReq = true) (hnal : i.allocated = false)
    (hr : wf res = true) : Books (s.resizePending a i res) := by
  rcases resizePending_cases s a i res with h | h
  · rw [h]; exact hb
  · rw [h]
    have hnb : i.bound = false := by
      cases hbd : i.bound with
      | false => rfl
      | true => rw [hw.boundAllocated a ham hl i him hbd] at hnal; cases hnal
    obtain ⟨hwp, _, _⟩ := hw.appRes a ham hl
    obtain ⟨hwr, _⟩ := hw.itemRes a ham hl i him
    have hba := hb.apps a ham hl
    have hkeys := hw.itemKeys a ham hl
    have hD : ∀ k, (prune (subX res i.res)).getD k = res.getD k - i.res.getD k := prune_subX_getD _ _ hr hwr
    have hDw : wf (prune (subX res i.res)) = true := prune_wf _ (subX_wf _ _ hr)
    refine books_upd s _ a.id a _ (pathChain s a.queue) _ rfl rfl hb.nodes hw.appIds ham hl rfl hb.apps hb.queues
      rfl ?_ (chain_iff s a.queue) (fun _ => rfl) ?_
    · intro _
      refine ⟨?_, ?_, ?_⟩
      · intro k
        show a.allocated.getD k = itemSum (a.items.map _) _ k
        rw [itemSum_upd _ hkeys i.key _ i him rfl, hba.allocated k]; simp [hnb]
      · intro k
        show a.allocatedPh.getD k = itemSum (a.items.map _) _ k
        rw [itemSum_upd _ hkeys i.key _ i him rfl, hba.allocatedPh k]; simp [hnb]
      · intro k
        show (prune (addX a.pending (prune (subX res i.res)))).getD k = itemSum (a.items.map _) _ k
        rw [itemSum_upd _ hkeys i.key _ i him rfl, prune_addX_getD _ _ hwp hDw, hD, hba.pending k]
        simp [hreq, hnal]; omega
    · intro q _ _ k
      constructor
      · show q.allocated.getD k = q.allocated.getD k - (a.allocated.getD k + a.allocatedPh.getD k) +
          (if a.live = true then a.allocated.getD k + a.allocatedPh.getD k else 0)
        simp only [hl, if_true]; omega
      · show (addX q.pending (prune (subX res i.res))).getD k = q.pending.getD k - a.pending.getD k +
          (if a.live = true then (prune (addX a.pending (prune (subX res i.res)))).getD k else 0)
        rw [addX_getD _ _ hDw, prune_addX_getD _ _ hwp hDw]
        simp only [hl, if_true]; omega

theorem coreWF_resizePending (s : Core) (a : CApp) (i : CItem) (res : Res) (hw : CoreWF s)
    (hr : wf res = true) (hnn : NonNeg res) (hsat : NoSatResize s res) (ham : a ∈ s.apps) (him : i ∈ a.items) :
    CoreWF (s.resizePending a i res) := by
  rcases resizePending_cases s a i res with h | h
  · rw [h]; exact hw
  · rw [h]
    have hDw : wf (prune (subX res i.res)) = true := prune_wf _ (subX_wf _ _ hr)
    refine ⟨?_, hw.nodeIds, ?_, hw.allocKeys, ?_, ?_, ?_, ?_, hw.nodeRes, hw.allocRes⟩
    · show (updApps s.apps a.id _).Pairwise _
      exact pairwise_updApps _ _ _ (fun _ _ => rfl) hw.appIds
    · show ∀ y ∈ updApps s.apps a.id _, _
      refine forall_updApps (P := fun y => y.live = true → y.items.Pairwise (fun i j => i.key ≠ j.key)) hw.itemKeys ?_
      intro z _ hz hzl
      show (z.items.map _).Pairwise _
      rw [List.pairwise_map]
      refine List.Pairwise.imp ?_ (hz hzl)
      intro u v huv
      have hk : ∀ y : CItem, (if (y.key == i.key) = true then { y with res := res } else y).key = y.key := by
        intro y; split <;> rfl
      rw [hk u, hk v]; exact huv
    · show ∀ y ∈ updApps s.apps a.id _, _
      refine forall_updApps (P := fun y => y.live = true → wf y.pending = true ∧ wf y.allocated = true ∧ wf y.allocatedPh = true) hw.appRes ?_
      intro z _ hz hzl
      obtain ⟨h1, h2, h3⟩ := hz hzl
      exact ⟨prune_wf _ (addX_wf _ _ h1), h2, h3⟩
    · show ∀ y ∈ updApps s.apps a.id _, _
      refine forall_updApps (P := fun y => y.live = true → ∀ j ∈ y.items, wf j.res = true ∧ NonNeg j.res) hw.itemRes ?_
      intro z _ hz hzl j hj
      obtain ⟨u, hu, rfl⟩ := List.mem_map.mp hj
      split
      · exact ⟨hr, hnn⟩
      · exact hz hzl u hu
    · show ∀ y ∈ updApps s.apps a.id _, _
      refine forall_updApps (P := fun y => y.live = true → ∀ j ∈ y.items, j.bound = true → j.allocated = true) hw.boundAllocated ?_
      intro z _ hz hzl j hj hjb
      obtain ⟨u, hu, rfl⟩ := List.mem_map.mp hj
      have hb' : ∀ y : CItem, (if (y.key == i.key) = true then { y with res := res } else y).bound = y.bound := by
        intro y; split <;> rfl
      have ha' : ∀ y : CItem, (if (y.key == i.key) = true then { y with res := res } else y).allocated = y.allocated := by
        intro y; split <;> rfl
      rw [hb'] at hjb; rw [ha']
      exact hz hzl u hu hjb
    · intro q' hq'
      obtain ⟨q, hq, rfl⟩ := List.mem_map.mp hq'
      obtain ⟨h1, h2, h3⟩ := hw.queueRes q hq
      split
      · exact ⟨h1, addX_wf _ _ h2, hsat q hq a ham i him⟩
      · exact ⟨h1, h2, h3⟩

/-- the item after the resize, found again -/
theorem books_recBind (s : Core) (x : RAlloc) (hw : CoreWF s) (hb : Books s) (hr : wf x.res = true) (hnn : NonNeg x.res)
    (hsat : NoSatResize s x.res) : Books (s.recBind x).1 := by
  unfold recBind
  split
  · rename_i a n hfind hnode
    obtain ⟨ham, hl, _⟩ := findApp_some hfind
    split
    · exact hb
    · rename_i i hitem
      split
      · exact hb
      · have him : i ∈ a.items := List.mem_of_find?_eq_some hitem
        have hip := List.find?_some hitem
        simp only [Bool.and_eq_true, beq_iff_eq, Bool.not_eq_true'] at hip
        obtain ⟨⟨_, hreq⟩, hnal⟩ := hip
        exact books_bindHeld _ x (coreWF_resizePending s a i x.res hw hr hnn hsat ham him)
          (books_resizePending s a i x.res hw hb ham hl him hreq hnal hr)
  · exact hb

end Yk
