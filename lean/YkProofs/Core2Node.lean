/-
  Node removal (partition.removeNode / removeNodeAllocations): the steps of `nodeRemove` but the final sweep of the
  terminated applications.  One round of the loop (`nodeRmAlloc`) keeps the books and the well-formedness of the state
  under the side conditions `NodeRmOK`; so does the loop, the reservation fold before it, and dropping the node after it.
-/
import YkProofs.Core2Repl
namespace Yk
open Res Core

/-! ### `nodeRmBound`: a bound allocation of the doomed node leaves application and queue chain -/

theorem nodeRmQ_path (i : CItem) (q : CQueue) : (nodeRmQ i q).path = q.path := by
  unfold nodeRmQ qDecPreempting qDecAlloc; cases i.preempted <;> rfl

theorem nodeRmQ_pending (i : CItem) (q : CQueue) : (nodeRmQ i q).pending = q.pending := by
  unfold nodeRmQ qDecPreempting qDecAlloc; cases i.preempted <;> rfl

theorem nodeRmQ_allocated (i : CItem) (q : CQueue) (hq : QWF q) (hr : wf i.res = true) (k : String) :
    (nodeRmQ i q).allocated.getD k = q.allocated.getD k - i.res.getD k := by
  have : (nodeRmQ i q).allocated = (qDecAlloc i.res q).allocated := by
    unfold nodeRmQ qDecPreempting; cases i.preempted <;> rfl
  rw [this]; exact qDecAlloc_allocated _ _ hq hr k

theorem nodeRmQ_wf (i : CItem) (q : CQueue) (hq : QWF q) : QWF (nodeRmQ i q) := by
  unfold nodeRmQ
  dsimp only
  split
  · exact qDecPreempting_wf _ _ (qDecAlloc_wf _ _ hq)
  · exact qDecAlloc_wf _ _ hq

/-- the application after one of its allocations left with the node: it stays in the partition during the loop -/
def nodeRmApp (key : String) (i : CItem) (a : CApp) : CApp := { relAppT .unknown key i a with live := true }

theorem nodeRmBound_lists (c : Core) (app key : String) (a : CApp) (i : CItem)
    (hfind : c.findApp app = some a) (hitem : a.items.find? (·.key == key) = some i) (hbd : i.bound = true) :
    (nodeRmBound c app key).apps = updApps c.apps app (fun _ => nodeRmApp key i a) ∧
    (nodeRmBound c app key).queues = updQs c.queues (pathChain c a.queue) (nodeRmQ i) ∧
    (nodeRmBound c app key).nodes = c.nodes := by
  unfold nodeRmBound
  simp only [hfind, hitem, hbd, Bool.not_true, Bool.false_eq_true, if_false]
  exact ⟨rfl, rfl, rfl⟩

theorem nodeRmBound_nodes (c : Core) (app key : String) : (nodeRmBound c app key).nodes = c.nodes := by
  unfold nodeRmBound
  split
  · rfl
  · split
    · rfl
    · split <;> rfl

/-- item 1: no node-side condition: the queue chain and the application lose `i.res`, nodes are untouched -/
theorem nodeRmBound_props (c : Core) (app key : String) (hw : CoreWF c) (hb : Books c) :
    Books (nodeRmBound c app key) ∧ CoreWF (nodeRmBound c app key) := by
  cases hfind : c.findApp app with
  | none => unfold nodeRmBound; simp only [hfind]; exact ⟨hb, hw⟩
  | some a =>
    cases hitem : a.items.find? (·.key == key) with
    | none => unfold nodeRmBound; simp only [hfind, hitem]; exact ⟨hb, hw⟩
    | some i =>
      cases hbd : i.bound with
      | false =>
        unfold nodeRmBound
        simp only [hfind, hitem, hbd, Bool.not_false, if_true]
        exact ⟨hb, hw⟩
      | true =>
        obtain ⟨ham, hl, hid⟩ := findApp_some hfind
        obtain ⟨him, hkey⟩ := find_key_some hitem
        have hwa := hw.app ham hl
        obtain ⟨hwp, hwal, hwh⟩ := hwa.appRes
        obtain ⟨hwr, hnn⟩ := hwa.itemRes i him
        have hba := hb.apps a ham hl
        obtain ⟨hta, htq, htn⟩ := nodeRmBound_lists c app key a i hfind hitem hbd
        have hba' : AppBooks (nodeRmApp key i a) :=
          AppBooks.congr (a := relAppT .unknown key i a) rfl rfl rfl rfl (appBooks_relAppT .unknown key i a hba hwa him hkey hbd)
        have hwa' : AppWF (nodeRmApp key i a) := AppWF.congr (a := relAppT .unknown key i a) rfl rfl rfl rfl (appWF_relAppT .unknown key i a hwa)
        have e1 : (nodeRmApp key i a).allocated = if i.ph = true then a.allocated else prune (subX a.allocated i.res) :=
          relAppT_allocated .unknown key i a
        have e2 : (nodeRmApp key i a).allocatedPh = if i.ph = true then prune (subX a.allocatedPh i.res) else a.allocatedPh :=
          relAppT_allocatedPh .unknown key i a
        have e3 : (nodeRmApp key i a).pending = a.pending := relAppT_pending .unknown key i a
        have e4 : (nodeRmApp key i a).live = true := rfl
        constructor
        · refine books_upd c _ app a _ (pathChain c a.queue) _ hta htq (by rw [htn]; exact hb.nodes) hw.appIds ham hl hid
            hb.apps hb.queues (relAppT_queue .unknown key i a) (fun _ => hba') (chain_iff c a.queue) (nodeRmQ_path i) ?_
          intro q hq hun k
          show (nodeRmQ i q).allocated.getD k =
              q.allocated.getD k - (a.allocated.getD k + a.allocatedPh.getD k)
                + (if (nodeRmApp key i a).live = true then (nodeRmApp key i a).allocated.getD k + (nodeRmApp key i a).allocatedPh.getD k else 0) ∧
            (nodeRmQ i q).pending.getD k =
              q.pending.getD k - a.pending.getD k + (if (nodeRmApp key i a).live = true then (nodeRmApp key i a).pending.getD k else 0)
          rw [nodeRmQ_allocated i q (hw.queue hq) hwr k, nodeRmQ_pending, e1, e2, e3, e4]
          cases hph : i.ph <;>
            simp only [Bool.false_eq_true, if_false, if_true, prune_subX_getD _ _ hwh hwr, prune_subX_getD _ _ hwal hwr] <;> omega
        · obtain ⟨h1, h2⟩ := wf_updApps c.apps app (fun _ => nodeRmApp key i a) a hw.appIds ham hl hid
            (fun x hx hxl => hw.app hx hxl) (const_id (by show (relAppT .unknown key i a).id = app; rw [relAppT_id, hid]))
            (fun _ => hwa')
          have h3 := wf_updQs c.queues (pathChain c a.queue) (nodeRmQ i) (fun q hq => hw.queue hq)
            (fun q hq _ => nodeRmQ_wf i q (hw.queue hq))
          exact CoreWF.of_parts (by rw [hta]; exact h1) (by rw [htn]; exact hw.nodeIds) (by rw [hta]; exact h2)
            (by rw [htq]; exact h3) (by rw [htn]; exact fun n hn => hw.node hn)

/-! ### `deallocApp` (DeallocateAsk): an allocated, unbound ask is outstanding again -/

/-- the item list after `deallocApp key other` -/
def deallocItems (key other : String) (l : List CItem) : List CItem :=
  updItem other (fun x => { x with release := none }) (updItem key (fun x => { x with allocated := false, release := none }) l)

theorem deallocApp_items (key other : String) (r : CItem) (a : CApp) :
    (deallocApp key other r a).items = deallocItems key other a.items := rfl

/-- the three sums after the ask `r` (in `requests`, allocated) became outstanding again -/
theorem itemSum_dealloc (l : List CItem) (hk : l.Pairwise (fun i j => i.key ≠ j.key)) (key other : String) (r : CItem)
    (hr : r ∈ l) (hkey : r.key = key) (hreq : r.inReq = true) (hal : r.allocated = true) (k : String) :
    itemSum (deallocItems key other l) (fun i => i.bound && !i.ph) k = itemSum l (fun i => i.bound && !i.ph) k ∧
    itemSum (deallocItems key other l) (fun i => i.bound && i.ph) k = itemSum l (fun i => i.bound && i.ph) k ∧
    itemSum (deallocItems key other l) (fun i => i.inReq && !i.allocated) k =
      itemSum l (fun i => i.inReq && !i.allocated) k + r.res.getD k := by
  unfold deallocItems
  refine ⟨?_, ?_, ?_⟩
  · rw [itemSum_updItem_irrel, itemSum_updItem_irrel]
    · intro x _; exact ⟨rfl, rfl⟩
    · intro x _; exact ⟨rfl, rfl⟩
  · rw [itemSum_updItem_irrel, itemSum_updItem_irrel]
    · intro x _; exact ⟨rfl, rfl⟩
    · intro x _; exact ⟨rfl, rfl⟩
  · rw [itemSum_updItem_irrel, itemSum_updItem _ hk key _ r hr hkey]
    · simp [hreq, hal]
    · intro x _; exact ⟨rfl, rfl⟩

theorem mem_deallocItems {key other : String} {l : List CItem} {y : CItem} (hy : y ∈ deallocItems key other l) :
    ∃ x ∈ l, y.key = x.key ∧ y.res = x.res ∧ y.bound = x.bound ∧ (x.key ≠ key → y.allocated = x.allocated) := by
  unfold deallocItems at hy
  obtain ⟨z, hz, h | h⟩ := mem_updItem hy
  · obtain ⟨_, rfl⟩ := h
    obtain ⟨x, hx, h' | h'⟩ := mem_updItem hz
    · obtain ⟨hxk, rfl⟩ := h'; exact ⟨x, hx, rfl, rfl, rfl, fun hne => absurd hxk hne⟩
    · obtain ⟨_, rfl⟩ := h'; exact ⟨z, hx, rfl, rfl, rfl, fun _ => rfl⟩
  · obtain ⟨_, rfl⟩ := h
    obtain ⟨x, hx, h' | h'⟩ := mem_updItem hz
    · obtain ⟨hxk, rfl⟩ := h'; exact ⟨x, hx, rfl, rfl, rfl, fun hne => absurd hxk hne⟩
    · obtain ⟨_, rfl⟩ := h'; exact ⟨y, hx, rfl, rfl, rfl, fun _ => rfl⟩

theorem appBooks_deallocApp (key other : String) (r : CItem) (a : CApp) (hba : AppBooks a) (hwa : AppWF a)
    (hr : r ∈ a.items) (hkey : r.key = key) (hreq : r.inReq = true) (hal : r.allocated = true) :
    AppBooks (deallocApp key other r a) := by
  obtain ⟨hwr, _⟩ := hwa.itemRes r hr
  refine ⟨?_, ?_, ?_⟩ <;> intro k
  · rw [deallocApp_items, (itemSum_dealloc a.items hwa.itemKeys key other r hr hkey hreq hal k).1]; exact hba.allocated k
  · rw [deallocApp_items, (itemSum_dealloc a.items hwa.itemKeys key other r hr hkey hreq hal k).2.1]; exact hba.allocatedPh k
  · rw [deallocApp_items, (itemSum_dealloc a.items hwa.itemKeys key other r hr hkey hreq hal k).2.2, ← hba.pending k]
    exact addX_getD _ _ hwr k

/-- `boundAllocated` survives because the only item that loses `allocated` is not bound -/
theorem appWF_deallocApp (key other : String) (r : CItem) (a : CApp) (hwa : AppWF a)
    (hr : r ∈ a.items) (hkey : r.key = key) (hnb : r.bound = false) : AppWF (deallocApp key other r a) := by
  obtain ⟨hwp, hwal, hwh⟩ := hwa.appRes
  refine ⟨?_, ⟨addX_wf _ _ hwp, hwal, hwh⟩, ?_, ?_⟩
  · rw [deallocApp_items]
    exact pairwise_updItem _ other _ (fun _ => rfl) (pairwise_updItem _ key _ (fun _ => rfl) hwa.itemKeys)
  · intro y hy
    rw [deallocApp_items] at hy
    obtain ⟨x, hx, _, hres, _⟩ := mem_deallocItems hy
    rw [hres]; exact hwa.itemRes x hx
  · intro y hy hb
    rw [deallocApp_items] at hy
    obtain ⟨x, hx, _, _, hbd, hal⟩ := mem_deallocItems hy
    rw [hbd] at hb
    have hne : x.key ≠ key := by
      intro he
      have : x = r := itemKeys_eq hwa.itemKeys hx hr (he.trans hkey.symm)
      rw [this, hnb] at hb; cases hb
    rw [hal hne]; exact hwa.boundAllocated x hx hb

/-! ### `runAgain`: a Completing application whose ask is outstanding again runs again (state, log and timer only) -/

@[simp] theorem runAgain_items (a : CApp) : (runAgain a).items = a.items := by unfold runAgain setState; split <;> (try split) <;> rfl
@[simp] theorem runAgain_pending (a : CApp) : (runAgain a).pending = a.pending := by unfold runAgain setState; split <;> (try split) <;> rfl
@[simp] theorem runAgain_allocated (a : CApp) : (runAgain a).allocated = a.allocated := by unfold runAgain setState; split <;> (try split) <;> rfl
@[simp] theorem runAgain_allocatedPh (a : CApp) : (runAgain a).allocatedPh = a.allocatedPh := by unfold runAgain setState; split <;> (try split) <;> rfl
@[simp] theorem runAgain_live (a : CApp) : (runAgain a).live = a.live := by unfold runAgain setState; split <;> (try split) <;> rfl
@[simp] theorem runAgain_id (a : CApp) : (runAgain a).id = a.id := by unfold runAgain setState; split <;> (try split) <;> rfl
@[simp] theorem runAgain_queue (a : CApp) : (runAgain a).queue = a.queue := by unfold runAgain setState; split <;> (try split) <;> rfl
@[simp] theorem runAgain_user (a : CApp) : (runAgain a).user = a.user := by unfold runAgain setState; split <;> (try split) <;> rfl
@[simp] theorem runAgain_reservations (a : CApp) : (runAgain a).reservations = a.reservations := by unfold runAgain setState; split <;> (try split) <;> rfl
@[simp] theorem runAgain_phData (a : CApp) : (runAgain a).phData = a.phData := by unfold runAgain setState; split <;> (try split) <;> rfl
@[simp] theorem runAgain_phAsk (a : CApp) : (runAgain a).phAsk = a.phAsk := by unfold runAgain setState; split <;> (try split) <;> rfl

theorem fireState_completing_run : fireState "Completing" .run = "Running" := by decide

/-- the state after `runAgain`: Running when it was Completing, unchanged otherwise -/
theorem runAgain_state (a : CApp) : (runAgain a).state = if a.state = "Completing" then "Running" else a.state := by
  unfold runAgain
  by_cases h : a.state = "Completing"
  · rw [if_pos (by rw [h]; rfl), if_pos h, h, fireState_completing_run]
    unfold setState
    split
    · rename_i h'; rw [h] at h'; exact absurd h' (by decide)
    · rfl
  · rw [if_neg (by simpa using h), if_neg h]

theorem runAgain_state_ne (a : CApp) : (runAgain a).state ≠ "Completing" := by
  rw [runAgain_state]; split
  · decide
  · assumption

theorem runAgain_of_ne (a : CApp) (h : a.state ≠ "Completing") : runAgain a = a := by
  unfold runAgain; rw [if_neg (by simpa using h)]

theorem appBooks_runAgain (a : CApp) (h : AppBooks a) : AppBooks (runAgain a) :=
  AppBooks.congr (runAgain_items a) (runAgain_allocated a) (runAgain_allocatedPh a) (runAgain_pending a) h

theorem appWF_runAgain (a : CApp) (h : AppWF a) : AppWF (runAgain a) :=
  AppWF.congr (runAgain_items a) (runAgain_allocated a) (runAgain_allocatedPh a) (runAgain_pending a) h

theorem deallocAppRun_items (key other : String) (r : CItem) (a : CApp) :
    (deallocAppRun key other r a).items = deallocItems key other a.items := runAgain_items _

theorem appBooks_deallocAppRun (key other : String) (r : CItem) (a : CApp) (hba : AppBooks a) (hwa : AppWF a)
    (hr : r ∈ a.items) (hkey : r.key = key) (hreq : r.inReq = true) (hal : r.allocated = true) :
    AppBooks (deallocAppRun key other r a) :=
  appBooks_runAgain _ (appBooks_deallocApp key other r a hba hwa hr hkey hreq hal)

theorem appWF_deallocAppRun (key other : String) (r : CItem) (a : CApp) (hwa : AppWF a)
    (hr : r ∈ a.items) (hkey : r.key = key) (hnb : r.bound = false) : AppWF (deallocAppRun key other r a) :=
  appWF_runAgain _ (appWF_deallocApp key other r a hwa hr hkey hnb)

/-- item 2: the reversal of a replacement: application and queue chain count `r.res` as pending again.  `hsat`: the
    increased pending totals of the queues still hold int64 values (no saturation). -/
theorem dealloc_props (c : Core) (app key other : String) (a : CApp) (r : CItem) (hw : CoreWF c) (hb : Books c)
    (hfind : c.findApp app = some a) (hr : r ∈ a.items) (hkey : r.key = key) (hreq : r.inReq = true)
    (hal : r.allocated = true) (hnb : r.bound = false)
    (hsat : ∀ q ∈ c.queues, under a.queue q.path = true → allInR (addX q.pending r.res)) :
    Books (updQueues (updApp c app (deallocAppRun key other r)) (pathChain c a.queue) (qIncPend r.res)) ∧
    CoreWF (updQueues (updApp c app (deallocAppRun key other r)) (pathChain c a.queue) (qIncPend r.res)) := by
  obtain ⟨ham, hl, hid⟩ := findApp_some hfind
  have hwa := hw.app ham hl
  obtain ⟨hwr, _⟩ := hwa.itemRes r hr
  have hba := hb.apps a ham hl
  have hlv : (deallocAppRun key other r a).live = true := (runAgain_live _).trans hl
  constructor
  · refine books_upd c _ app a (deallocAppRun key other r) (pathChain c a.queue) (qIncPend r.res) rfl rfl hb.nodes hw.appIds ham hl hid
      hb.apps hb.queues (runAgain_queue _) (fun _ => appBooks_deallocAppRun key other r a hba hwa hr hkey hreq hal) (chain_iff c a.queue)
      (fun _ => rfl) ?_
    intro q hq hun k
    have ea : (deallocAppRun key other r a).allocated = a.allocated := runAgain_allocated _
    have eh : (deallocAppRun key other r a).allocatedPh = a.allocatedPh := runAgain_allocatedPh _
    have ep : (deallocAppRun key other r a).pending = addX a.pending r.res := runAgain_pending _
    rw [ea, eh, ep]
    constructor
    · show q.allocated.getD k = q.allocated.getD k - (a.allocated.getD k + a.allocatedPh.getD k)
        + (if (deallocAppRun key other r a).live = true then a.allocated.getD k + a.allocatedPh.getD k else 0)
      simp only [hlv, if_true]; omega
    · show (addX q.pending r.res).getD k = q.pending.getD k - a.pending.getD k
        + (if (deallocAppRun key other r a).live = true then (addX a.pending r.res).getD k else 0)
      rw [addX_getD _ _ hwr, addX_getD _ _ hwr]
      simp only [hlv, if_true]; omega
  · obtain ⟨h1, h2⟩ := wf_updApps c.apps app (deallocAppRun key other r) a hw.appIds ham hl hid
      (fun x hx hxl => hw.app hx hxl) (fun _ _ => runAgain_id _) (fun _ => appWF_deallocAppRun key other r a hwa hr hkey hnb)
    have h3 := wf_updQs c.queues (pathChain c a.queue) (qIncPend r.res) (fun q hq => hw.queue hq)
      (fun q hq hc => ⟨(hw.queue hq).allocated, addX_wf _ _ (hw.queue hq).pending,
        hsat q hq ((chain_iff c a.queue q hq).mp hc)⟩)
    exact CoreWF.of_parts h1 hw.nodeIds h2 h3 (fun n hn => hw.node hn)

/-! ### `unlinkApp`: only the replacement links are cleared -/

theorem itemIrrel_upd (key : String) (g : CItem → CItem) (hg : ItemIrrel g) :
    ItemIrrel (fun x => if (x.key == key) = true then g x else x) := by
  intro x
  by_cases hd : (x.key == key) = true
  · dsimp only; rw [if_pos hd]; exact hg x
  · dsimp only; rw [if_neg hd]; exact ⟨rfl, rfl, rfl, rfl, rfl, rfl⟩

theorem itemIrrel_comp (g h : CItem → CItem) (hg : ItemIrrel g) (hh : ItemIrrel h) : ItemIrrel (fun x => h (g x)) := by
  intro x
  obtain ⟨a1, a2, a3, a4, a5, a6⟩ := hg x
  obtain ⟨b1, b2, b3, b4, b5, b6⟩ := hh (g x)
  exact ⟨b1.trans a1, b2.trans a2, b3.trans a3, b4.trans a4, b5.trans a5, b6.trans a6⟩

theorem unlinkApp_irrel (k1 k2 : String) : AppIrrel (unlinkApp k1 k2) := by
  intro a
  refine ⟨rfl, rfl, rfl, rfl, rfl, rfl,
    fun x => (fun y : CItem => if (y.key == k2) = true then { y with release := none } else y)
      ((fun y : CItem => if (y.key == k1) = true then { y with release := none } else y) x), ?_, ?_⟩
  · exact itemIrrel_comp _ _ (itemIrrel_upd k1 (fun y => { y with release := none }) (fun _ => ⟨rfl, rfl, rfl, rfl, rfl, rfl⟩))
      (itemIrrel_upd k2 (fun y => { y with release := none }) (fun _ => ⟨rfl, rfl, rfl, rfl, rfl, rfl⟩))
  · show (a.items.map _).map _ = _
    rw [List.map_map]; rfl

theorem unlink_props (c : Core) (app k1 k2 : String) (hw : CoreWF c) (hb : Books c) :
    Books (updApp c app (unlinkApp k1 k2)) ∧ CoreWF (updApp c app (unlinkApp k1 k2)) := by
  have hga := appIrrel_upd app (unlinkApp k1 k2) (unlinkApp_irrel k1 k2)
  have hgq : ∀ q : CQueue, ((fun q : CQueue => q) q).path = q.path ∧ ((fun q : CQueue => q) q).allocated = q.allocated ∧
      ((fun q : CQueue => q) q).pending = q.pending := fun _ => ⟨rfl, rfl, rfl⟩
  have hgn : NodeIrrel (fun n : CNode => n) := fun _ => ⟨rfl, rfl, rfl, rfl, rfl, rfl⟩
  exact ⟨books_irrel _ _ _ hga hgq hgn rfl (by simp) (by simp) hb, wf_irrel _ _ _ hga hgq hgn rfl (by simp) (by simp) hw⟩

/-! ### the swap confirmed by the removal of the placeholder's node (the real half waits on another node) -/

theorem nodeConfirmQ_path (d : Res) (q : CQueue) : (nodeConfirmQ d q).path = q.path := by
  unfold nodeConfirmQ; split <;> rfl

theorem nodeConfirmQ_pending (d : Res) (q : CQueue) : (nodeConfirmQ d q).pending = q.pending := by
  unfold nodeConfirmQ; split <;> rfl

/-- the queue gets the (negative) difference real − placeholder; when no type is negative the two sizes are equal -/
theorem nodeConfirmQ_allocated (i r : CItem) (q : CQueue) (hwi : wf i.res = true) (hwr : wf r.res = true)
    (hle : ∀ k, r.res.getD k ≤ i.res.getD k) (k : String) :
    (nodeConfirmQ (subX r.res i.res) q).allocated.getD k = q.allocated.getD k + r.res.getD k - i.res.getD k := by
  unfold nodeConfirmQ
  cases h : hasNegativeValue (some (subX r.res i.res)) with
  | true =>
    simp only [if_true]
    show (addX q.allocated (subX r.res i.res)).getD k = _
    rw [addX_getD _ _ (subX_wf _ _ hwr), subX_getD _ _ hwi]; omega
  | false =>
    simp only [Bool.false_eq_true, if_false]
    have h0 := hasNeg_false_getD h k
    rw [subX_getD _ _ hwi] at h0
    have := hle k
    omega

theorem nodeConfirmQ_wf (d : Res) (q : CQueue) (hq : QWF q) : QWF (nodeConfirmQ d q) := by
  unfold nodeConfirmQ
  split
  · exact ⟨addX_wf _ _ hq.allocated, hq.pending, hq.inR⟩
  · exact hq

/-- the application after the swap was confirmed inside the loop: it stays in the partition -/
def confirmApp (i r : CItem) (a : CApp) : CApp := { replApp i r a with live := true }

/-- item 3: the placeholder `i` leaves, the real allocation `r` (not larger than `i`) enters; the queue chain gets the
    size difference -/
theorem confirm_props (c : Core) (app : String) (a : CApp) (i r : CItem) (hw : CoreWF c) (hb : Books c)
    (hfind : c.findApp app = some a) (hok : ReplOK a i r) (hle : ∀ k, r.res.getD k ≤ i.res.getD k) :
    Books (updQueues (updApp c app (fun _ => { replApp i r a with live := true })) (pathChain c a.queue)
      (nodeConfirmQ (subX r.res i.res))) ∧
    CoreWF (updQueues (updApp c app (fun _ => { replApp i r a with live := true })) (pathChain c a.queue)
      (nodeConfirmQ (subX r.res i.res))) := by
  obtain ⟨ham, hl, hid⟩ := findApp_some hfind
  have hwa := hw.app ham hl
  obtain ⟨hwp, hwal, hwh⟩ := hwa.appRes
  obtain ⟨hwi, _⟩ := hwa.itemRes i hok.pIn
  have hwr := hok.rRes.1
  have hba := hb.apps a ham hl
  have hba' : AppBooks (confirmApp i r a) :=
    AppBooks.congr (a := replApp i r a) rfl rfl rfl rfl (appBooks_replApp a i r hba hwa hok)
  have hwa' : AppWF (confirmApp i r a) := AppWF.congr (a := replApp i r a) rfl rfl rfl rfl (appWF_replApp a i r hwa hok)
  have e1 : (confirmApp i r a).allocated = addX a.allocated r.res := replApp_allocated i r a
  have e2 : (confirmApp i r a).allocatedPh = prune (subX a.allocatedPh i.res) := replApp_allocatedPh i r a
  have e3 : (confirmApp i r a).pending = a.pending := replApp_pending i r a
  have e4 : (confirmApp i r a).live = true := rfl
  constructor
  · refine books_upd c _ app a (fun _ => confirmApp i r a) (pathChain c a.queue) (nodeConfirmQ (subX r.res i.res)) rfl rfl
      hb.nodes hw.appIds ham hl hid hb.apps hb.queues (replApp_queue i r a) (fun _ => hba') (chain_iff c a.queue)
      (nodeConfirmQ_path _) ?_
    intro q hq hun k
    show (nodeConfirmQ (subX r.res i.res) q).allocated.getD k =
        q.allocated.getD k - (a.allocated.getD k + a.allocatedPh.getD k)
          + (if (confirmApp i r a).live = true then (confirmApp i r a).allocated.getD k + (confirmApp i r a).allocatedPh.getD k else 0) ∧
      (nodeConfirmQ (subX r.res i.res) q).pending.getD k =
        q.pending.getD k - a.pending.getD k + (if (confirmApp i r a).live = true then (confirmApp i r a).pending.getD k else 0)
    rw [nodeConfirmQ_allocated i r q hwi hwr hle k, nodeConfirmQ_pending, e1, e2, e3, e4, addX_getD _ _ hwr,
      prune_subX_getD _ _ hwh hwi]
    simp only [if_true]; constructor <;> omega
  · obtain ⟨h1, h2⟩ := wf_updApps c.apps app (fun _ => confirmApp i r a) a hw.appIds ham hl hid
      (fun x hx hxl => hw.app hx hxl) (const_id (by show (replApp i r a).id = app; rw [replApp_id, hid])) (fun _ => hwa')
    have h3 := wf_updQs c.queues (pathChain c a.queue) (nodeConfirmQ (subX r.res i.res)) (fun q hq => hw.queue hq)
      (fun q hq _ => nodeConfirmQ_wf _ q (hw.queue hq))
    exact CoreWF.of_parts h1 hw.nodeIds h2 h3 (fun n hn => hw.node hn)

/-! ### one round of the loop of removeNodeAllocations -/

/-- a real allocation found by `findReal` that is still listed in application.requests is the application's own item
    (what is resurrected from a node's list has no request) -/
theorem findReal_inReq {c : Core} {a : CApp} {rk : String} {r : CItem} (h : findReal c a rk = some r)
    (hreq : r.inReq = true) : a.items.find? (·.key == rk) = some r := by
  unfold findReal at h
  split at h
  · rename_i r' hf; rw [hf]; exact h
  · exfalso
    obtain ⟨n, _, hn⟩ := List.exists_of_findSome?_eq_some h
    rw [Option.map_eq_some_iff] at hn
    obtain ⟨x, _, rfl⟩ := hn
    cases hreq

/-- What one round `nodeRmAlloc c nodeId app key` needs of the state, branch by branch (`i` = the item `key` of the
    application, `rk` = the far end of its replacement link). A plain allocation (`i.release = none`) needs nothing. -/
structure NodeRmOK (c : Core) (nodeId app key : String) : Prop where
  /-- a bound placeholder whose real half waits on ANOTHER node: the swap is confirmed.  `ReplOK`: what
      `Application.ReplaceAllocation` needs (the real allocation is allocated, not yet bound, not a placeholder, of
      non-negative size, another key); and the real allocation is not larger than the placeholder (the queue only
      ever gets the negative part of the difference). -/
  confirm : ∀ a i rk r, c.findApp app = some a → a.items.find? (·.key == key) = some i → i.release = some rk → i.ph = true →
    findReal c a rk = some r → r.node ≠ nodeId → i.bound = true → ReplOK a i r ∧ ∀ k, r.res.getD k ≤ i.res.getD k
  /-- a placeholder whose real half `r` is on the SAME node and still an allocated ask: the ask becomes outstanding
      again (DeallocateAsk).  `r` must not be bound (only then `boundAllocated` and the allocated totals survive), and
      the pending totals of the queue chain increased by `r.res` still hold int64 values (no saturation). -/
  sameNode : ∀ a i rk r, c.findApp app = some a → a.items.find? (·.key == key) = some i → i.release = some rk → i.ph = true →
    findReal c a rk = some r → r.node = nodeId → r.inReq = true → r.allocated = true →
    r.bound = false ∧ ∀ q ∈ c.queues, under a.queue q.path = true → allInR (addX q.pending r.res)
  /-- the real half `i` of a replacement parked on this node, still an allocated ask: it becomes outstanding again.
      It must not be bound yet, and no saturation of the pending totals of the queue chain. -/
  parked : ∀ a i rk, c.findApp app = some a → a.items.find? (·.key == key) = some i → i.release = some rk → i.ph = false →
    i.inReq = true → i.allocated = true →
    i.bound = false ∧ ∀ q ∈ c.queues, under a.queue q.path = true → allInR (addX q.pending i.res)

theorem nodeRmAlloc_plain (c : Core) (nodeId app key : String) (a : CApp) (i : CItem)
    (hfind : c.findApp app = some a) (hitem : a.items.find? (·.key == key) = some i) (hrel : i.release = none) :
    nodeRmAlloc c nodeId app key = nodeRmBound c app key := by
  unfold nodeRmAlloc; simp only [hfind, hitem, hrel]

theorem nodeRmAlloc_noReal (c : Core) (nodeId app key : String) (a : CApp) (i : CItem) (rk : String)
    (hfind : c.findApp app = some a) (hitem : a.items.find? (·.key == key) = some i) (hrel : i.release = some rk)
    (hph : i.ph = true) (hreal : findReal c a rk = none) :
    nodeRmAlloc c nodeId app key = nodeRmBound (updApp c app (unlinkApp rk key)) app key := by
  unfold nodeRmAlloc; simp only [hfind, hitem, hrel, hph, if_true, hreal]

theorem nodeRmAlloc_other (c : Core) (nodeId app key : String) (a : CApp) (i : CItem) (rk : String) (r : CItem)
    (hfind : c.findApp app = some a) (hitem : a.items.find? (·.key == key) = some i) (hrel : i.release = some rk)
    (hph : i.ph = true) (hreal : findReal c a rk = some r) (hnode : (r.node != nodeId) = true) :
    nodeRmAlloc c nodeId app key = if (!i.bound) = true then c else
      updQueues (updApp c app (fun _ => { replApp i r a with live := true })) (pathChain c a.queue)
        (nodeConfirmQ (subX r.res i.res)) := by
  unfold nodeRmAlloc; simp only [hfind, hitem, hrel, hph, if_true, hreal, hnode]

theorem nodeRmAlloc_same (c : Core) (nodeId app key : String) (a : CApp) (i : CItem) (rk : String) (r : CItem)
    (hfind : c.findApp app = some a) (hitem : a.items.find? (·.key == key) = some i) (hrel : i.release = some rk)
    (hph : i.ph = true) (hreal : findReal c a rk = some r) (hnode : (r.node != nodeId) = false) :
    nodeRmAlloc c nodeId app key = nodeRmBound
      (if (r.inReq && r.allocated) = true then
        updQueues (updApp c app (deallocAppRun rk key r)) (pathChain c a.queue) (qIncPend r.res)
       else updApp c app (unlinkApp rk key)) app key := by
  unfold nodeRmAlloc; simp only [hfind, hitem, hrel, hph, if_true, hreal, hnode, Bool.false_eq_true, if_false]

theorem nodeRmAlloc_parked (c : Core) (nodeId app key : String) (a : CApp) (i : CItem) (rk : String)
    (hfind : c.findApp app = some a) (hitem : a.items.find? (·.key == key) = some i) (hrel : i.release = some rk)
    (hph : i.ph = false) :
    nodeRmAlloc c nodeId app key =
      if (i.inReq && i.allocated) = true then
        nodeRmBound (updQueues (updApp c app (deallocAppRun key rk i)) (pathChain c a.queue) (qIncPend i.res)) app key
      else nodeRmBound (updApp c app (unlinkApp rk key)) app key := by
  unfold nodeRmAlloc; simp only [hfind, hitem, hrel, hph, Bool.false_eq_true, if_false]

/-- item 4: one round of the loop keeps the books and the well-formedness -/
theorem nodeRmAlloc_props (c : Core) (nodeId app key : String) (hw : CoreWF c) (hb : Books c)
    (hok : NodeRmOK c nodeId app key) :
    Books (nodeRmAlloc c nodeId app key) ∧ CoreWF (nodeRmAlloc c nodeId app key) := by
  cases hfind : c.findApp app with
  | none => unfold nodeRmAlloc; simp only [hfind]; exact ⟨hb, hw⟩
  | some a =>
    cases hitem : a.items.find? (·.key == key) with
    | none => unfold nodeRmAlloc; simp only [hfind, hitem]; exact ⟨hb, hw⟩
    | some i =>
      obtain ⟨him, hkey⟩ := find_key_some hitem
      cases hrel : i.release with
      | none => rw [nodeRmAlloc_plain c nodeId app key a i hfind hitem hrel]; exact nodeRmBound_props c app key hw hb
      | some rk =>
        cases hph : i.ph with
        | true =>
          cases hreal : findReal c a rk with
          | none =>
            rw [nodeRmAlloc_noReal c nodeId app key a i rk hfind hitem hrel hph hreal]
            obtain ⟨hb1, hw1⟩ := unlink_props c app rk key hw hb
            exact nodeRmBound_props _ app key hw1 hb1
          | some r =>
            cases hnode : (r.node != nodeId) with
            | true =>
              rw [nodeRmAlloc_other c nodeId app key a i rk r hfind hitem hrel hph hreal hnode]
              cases hbd : i.bound with
              | false => simp only [Bool.not_false, if_true]; exact ⟨hb, hw⟩
              | true =>
                simp only [Bool.not_true, Bool.false_eq_true, if_false]
                obtain ⟨hrepl, hle⟩ := hok.confirm a i rk r hfind hitem hrel hph hreal (by simpa using hnode) hbd
                exact confirm_props c app a i r hw hb hfind hrepl hle
            | false =>
              rw [nodeRmAlloc_same c nodeId app key a i rk r hfind hitem hrel hph hreal hnode]
              cases hc : (r.inReq && r.allocated) with
              | true =>
                simp only [if_true]
                simp only [Bool.and_eq_true] at hc
                obtain ⟨hrm, hrk⟩ := find_key_some (findReal_inReq hreal hc.1)
                obtain ⟨hnb, hsat⟩ := hok.sameNode a i rk r hfind hitem hrel hph hreal (by simpa using hnode) hc.1 hc.2
                obtain ⟨hb1, hw1⟩ := dealloc_props c app rk key a r hw hb hfind hrm hrk hc.1 hc.2 hnb hsat
                exact nodeRmBound_props _ app key hw1 hb1
              | false =>
                simp only [Bool.false_eq_true, if_false]
                obtain ⟨hb1, hw1⟩ := unlink_props c app rk key hw hb
                exact nodeRmBound_props _ app key hw1 hb1
        | false =>
          rw [nodeRmAlloc_parked c nodeId app key a i rk hfind hitem hrel hph]
          cases hc : (i.inReq && i.allocated) with
          | true =>
            simp only [if_true]
            simp only [Bool.and_eq_true] at hc
            obtain ⟨hnb, hsat⟩ := hok.parked a i rk hfind hitem hrel hph hc.1 hc.2
            obtain ⟨hb1, hw1⟩ := dealloc_props c app key rk a i hw hb hfind him hkey hc.1 hc.2 hnb hsat
            exact nodeRmBound_props _ app key hw1 hb1
          | false =>
            simp only [Bool.false_eq_true, if_false]
            obtain ⟨hb1, hw1⟩ := unlink_props c app rk key hw hb
            exact nodeRmBound_props _ app key hw1 hb1

/-- the rounds of the loop never touch the node list: the node is dropped at the end -/
theorem nodeRmAlloc_nodes (c : Core) (nodeId app key : String) : (nodeRmAlloc c nodeId app key).nodes = c.nodes := by
  cases hfind : c.findApp app with
  | none => unfold nodeRmAlloc; simp only [hfind]
  | some a =>
    cases hitem : a.items.find? (·.key == key) with
    | none => unfold nodeRmAlloc; simp only [hfind, hitem]
    | some i =>
      cases hrel : i.release with
      | none => rw [nodeRmAlloc_plain c nodeId app key a i hfind hitem hrel]; exact nodeRmBound_nodes c app key
      | some rk =>
        cases hph : i.ph with
        | true =>
          cases hreal : findReal c a rk with
          | none =>
            rw [nodeRmAlloc_noReal c nodeId app key a i rk hfind hitem hrel hph hreal]
            exact (nodeRmBound_nodes _ app key).trans rfl
          | some r =>
            cases hnode : (r.node != nodeId) with
            | true =>
              rw [nodeRmAlloc_other c nodeId app key a i rk r hfind hitem hrel hph hreal hnode]
              split <;> rfl
            | false =>
              rw [nodeRmAlloc_same c nodeId app key a i rk r hfind hitem hrel hph hreal hnode]
              refine (nodeRmBound_nodes _ app key).trans ?_
              split <;> rfl
        | false =>
          rw [nodeRmAlloc_parked c nodeId app key a i rk hfind hitem hrel hph]
          split
          · exact (nodeRmBound_nodes _ app key).trans rfl
          · exact (nodeRmBound_nodes _ app key).trans rfl

/-! ### the loop over the allocations of the node -/

/-- every round finds its side conditions in the state the previous rounds left -/
def NodeLoopOK (nodeId : String) : Core → List (String × String) → Prop
  | _, [] => True
  | c, p :: t => NodeRmOK c nodeId p.1 p.2 ∧ NodeLoopOK nodeId (nodeRmAlloc c nodeId p.1 p.2) t

/-- item 5: the loop of removeNodeAllocations, from any state `c` (in `nodeRemove`: the state after the reservations of
    the node were dropped) -/
theorem nodeLoop_props (nodeId : String) (l : List (String × String)) (c : Core) (hw : CoreWF c) (hb : Books c)
    (hok : NodeLoopOK nodeId c l) :
    Books (l.foldl (fun c p => nodeRmAlloc c nodeId p.1 p.2) c) ∧
    CoreWF (l.foldl (fun c p => nodeRmAlloc c nodeId p.1 p.2) c) ∧
    (l.foldl (fun c p => nodeRmAlloc c nodeId p.1 p.2) c).nodes = c.nodes := by
  induction l generalizing c with
  | nil => exact ⟨hb, hw, rfl⟩
  | cons p t ih =>
    obtain ⟨h1, h2⟩ := hok
    obtain ⟨hb1, hw1⟩ := nodeRmAlloc_props c nodeId p.1 p.2 hw hb h1
    obtain ⟨hb2, hw2, hn2⟩ := ih (nodeRmAlloc c nodeId p.1 p.2) hw1 hb1 h2
    exact ⟨hb2, hw2, hn2.trans (nodeRmAlloc_nodes c nodeId p.1 p.2)⟩

/-! ### the reservations on the node: not in the books -/

theorem unreserveOn_nodes (c : Core) (id k : String) : (unreserveOn c id k).nodes = c.nodes := by
  unfold unreserveOn; split <;> rfl

theorem unreserveOn_props (c : Core) (id k : String) (hw : CoreWF c) (hb : Books c) :
    Books (unreserveOn c id k) ∧ CoreWF (unreserveOn c id k) := by
  unfold unreserveOn
  split
  · exact ⟨hb, hw⟩
  · rename_i a _
    have hga := appIrrel_upd a.id (fun x : CApp => { x with reservations := x.reservations.filter (· != (k, id)) })
      (fun _ => ⟨rfl, rfl, rfl, rfl, rfl, rfl, fun y => y, fun _ => ⟨rfl, rfl, rfl, rfl, rfl, rfl⟩, by simp⟩)
    have hgq : ∀ q : CQueue,
        ((fun q : CQueue => if q.path == a.queue then { q with reserved := q.reserved.filterMap (fun e =>
          if e.1 == a.id then (if e.2 ≤ 1 then none else some (e.1, e.2 - 1)) else some e) } else q) q).path = q.path ∧
        ((fun q : CQueue => if q.path == a.queue then { q with reserved := q.reserved.filterMap (fun e =>
          if e.1 == a.id then (if e.2 ≤ 1 then none else some (e.1, e.2 - 1)) else some e) } else q) q).allocated = q.allocated ∧
        ((fun q : CQueue => if q.path == a.queue then { q with reserved := q.reserved.filterMap (fun e =>
          if e.1 == a.id then (if e.2 ≤ 1 then none else some (e.1, e.2 - 1)) else some e) } else q) q).pending = q.pending := by
      intro q; dsimp only; split <;> exact ⟨rfl, rfl, rfl⟩
    have hgn : NodeIrrel (fun n : CNode => n) := fun _ => ⟨rfl, rfl, rfl, rfl, rfl, rfl⟩
    exact ⟨books_irrel _ _ _ hga hgq hgn rfl rfl (by simp) hb, wf_irrel _ _ _ hga hgq hgn rfl rfl (by simp) hw⟩

/-- the fold of `nodeRemove` over the reservations of the node -/
theorem unreserveFold_props (id : String) (l : List String) (c : Core) (hw : CoreWF c) (hb : Books c) :
    Books (l.foldl (fun c k => unreserveOn c id k) c) ∧ CoreWF (l.foldl (fun c k => unreserveOn c id k) c) ∧
    (l.foldl (fun c k => unreserveOn c id k) c).nodes = c.nodes := by
  induction l generalizing c with
  | nil => exact ⟨hb, hw, rfl⟩
  | cons k t ih =>
    obtain ⟨hb1, hw1⟩ := unreserveOn_props c id k hw hb
    obtain ⟨hb2, hw2, hn2⟩ := ih (unreserveOn c id k) hw1 hb1
    exact ⟨hb2, hw2, hn2.trans (unreserveOn_nodes c id k)⟩

/-! ### the node is dropped -/

/-- `setRootMax` only changes the maximum of the root -/
theorem wf_setRootMaxN (s : Core) (t : Res) (hw : CoreWF s) : CoreWF (setRootMax s t) := by
  refine CoreWF.of_parts hw.appIds hw.nodeIds (fun a ha hl => hw.app ha hl) ?_ (fun n hn => hw.node hn)
  intro q' hq'
  obtain ⟨q, hq, rfl⟩ := List.mem_map.mp hq'
  have := hw.queue hq
  split
  · exact ⟨this.allocated, this.pending, this.inR⟩
  · exact this

/-- item 6: the node leaves the node list, the partition total and the root maximum shrink (any state `c`, any `cap`) -/
theorem dropNode_props (c : Core) (id : String) (cap : Res) (hw : CoreWF c) (hb : Books c) :
    Books (setRootMax { c with nodes := c.nodes.filter (·.id != id), total := prune (subX c.total cap) }
      (prune (subX c.total cap))) ∧
    CoreWF (setRootMax { c with nodes := c.nodes.filter (·.id != id), total := prune (subX c.total cap) }
      (prune (subX c.total cap))) := by
  have hw0 : CoreWF { c with nodes := c.nodes.filter (·.id != id), total := prune (subX c.total cap) } :=
    CoreWF.of_parts hw.appIds (hw.nodeIds.filter _) (fun a ha hl => hw.app ha hl) (fun q hq => hw.queue hq)
      (fun n hn => hw.node (List.mem_filter.mp hn).1)
  have hb0 : Books { c with nodes := c.nodes.filter (·.id != id), total := prune (subX c.total cap) } :=
    ⟨hb.apps, hb.queues, fun n hn => hb.nodes n (List.mem_filter.mp hn).1⟩
  exact ⟨books_setRootMax _ _ hb0, wf_setRootMaxN _ _ hw0⟩

end Yk
