/- Accounting lemmas for the queue-tracker tree (YkModel/Ugm.lean): tracked usage = sum of the live allocations,
   for every history of increases, releases, walks that create trackers, limit changes and unlinks. -/
import YkProofs.Ugm
namespace Yk.Ugm
open Yk Yk.Res Yk.QTree

/-! ### keys of the flat tree -/

def keys (t : Tree) : List Path := t.map Prod.fst
def KeysNodup (t : Tree) : Prop := (keys t).Nodup
def UsageWf (t : Tree) : Prop := ∀ p n, aget t p = some n → oresWf n.usage = true

theorem keys_amod (t : Tree) (k : Path) (f : Node → Node) : keys (amod t k f) = keys t := by
  induction t with
  | nil => rfl
  | cons e t ih =>
    obtain ⟨a, b⟩ := e
    by_cases h : a = k
    · simp [amod, keys, h]
    · simp only [amod, h, if_false, keys, List.map_cons] at *; rw [ih]

theorem keys_foldl_amod (f : Node → Node) : ∀ (ps : List Path) (t : Tree), keys (ps.foldl (fun t p => amod t p f) t) = keys t := by
  intro ps
  induction ps with
  | nil => intro t; rfl
  | cons a ps ih => intro t; rw [List.foldl_cons, ih, keys_amod]

theorem aget_none_not_mem_keys {t : Tree} {p : Path} (h : aget t p = none) : p ∉ keys t := by
  induction t with
  | nil => simp [keys]
  | cons e t ih =>
    obtain ⟨a, b⟩ := e
    by_cases hk : a = p
    · subst hk; simp [aget] at h
    · simp only [aget, hk, if_false] at h
      simp only [keys, List.map_cons, List.mem_cons, not_or]
      exact ⟨fun e => hk e.symm, ih h⟩

theorem keysNodup_ensureL (w : List (Path × Limit)) (isUser : Bool) : ∀ (ps : List Path) (t : Tree), KeysNodup t →
    KeysNodup (ensureL w isUser t ps) := by
  intro ps
  induction ps with
  | nil => intro t h; exact h
  | cons a ps ih =>
    intro t h
    simp only [ensureL, List.foldl_cons]
    apply ih
    by_cases ha : ahas t a = true
    · rw [if_pos ha]; exact h
    · rw [if_neg ha]
      have hn : aget t a = none := by
        rw [ahas_eq] at ha; cases hh : aget t a with
        | none => rfl
        | some _ => rw [hh] at ha; simp at ha
      unfold KeysNodup keys at *
      rw [List.map_append, List.nodup_append]
      refine ⟨h, by simp, ?_⟩
      intro x hx y hy
      simp at hy; subst hy
      intro e; subst e
      exact aget_none_not_mem_keys hn hx

theorem keysNodup_ensurePath (w : List (Path × Limit)) (isUser : Bool) (t : Tree) (h : Path) (hn : KeysNodup t) :
    KeysNodup (ensurePath w isUser t h) := keysNodup_ensureL w isUser _ t hn

theorem keys_adel_sublist (t : Tree) (k : Path) : (keys (adel t k)).Sublist (keys t) := by
  induction t with
  | nil => exact List.Sublist.slnil
  | cons e t ih =>
    obtain ⟨a, b⟩ := e
    by_cases h : a = k
    · simp only [adel, h, if_true, keys, List.map_cons]; exact List.Sublist.cons _ ih
    · simp only [adel, h, if_false, keys, List.map_cons]; exact List.Sublist.cons₂ _ ih

theorem keysNodup_adel {t : Tree} (h : KeysNodup t) (k : Path) : KeysNodup (adel t k) :=
  List.Nodup.sublist (keys_adel_sublist t k) h

theorem keysNodup_filter {t : Tree} (h : KeysNodup t) (f : Path × Node → Bool) : KeysNodup (t.filter f) :=
  List.Nodup.sublist (List.Sublist.map _ List.filter_sublist) h

/-- lookup in a filtered map with unique keys -/
theorem aget_filter {t : Tree} (h : KeysNodup t) (f : Path × Node → Bool) (p : Path) :
    aget (t.filter f) p = match aget t p with | some n => if f (p, n) then some n else none | none => none := by
  induction t with
  | nil => rfl
  | cons e t ih =>
    obtain ⟨a, b⟩ := e
    have hnd : a ∉ keys t ∧ KeysNodup t := by
      unfold KeysNodup keys at h; rw [List.map_cons, List.nodup_cons] at h; exact h
    by_cases hk : a = p
    · subst hk
      have hnone : aget t a = none := by
        cases hh : aget t a with
        | none => rfl
        | some n => exact absurd (List.mem_map_of_mem (f := Prod.fst) (aget_mem hh)) hnd.1
      by_cases hf : f (a, b) = true
      · simp [List.filter, hf, aget]
      · simp only [List.filter, hf, aget, if_true]
        rw [ih hnd.2, hnone]; simp [hf]
    · by_cases hf : f (a, b) = true
      · simp only [List.filter, hf, aget, hk, if_false]; exact ih hnd.2
      · simp only [List.filter, hf, aget, hk, if_false]; exact ih hnd.2

/-! ### sums over the ledger -/

theorem onPath_iff (p q : Path) : onPath p q = true ↔ p ∈ prefixes q := by
  unfold onPath; exact List.contains_iff_mem

theorem sumLive_nil (p : Path) (k : String) : sumLive [] p k = 0 := rfl

theorem sumLive_cons (a : Alloc) (L : List Alloc) (p : Path) (k : String) :
    sumLive (a :: L) p k = (if onPath p a.q then a.r.getD k else 0) + sumLive L p k := by
  simp [sumLive]

theorem sumLive_append (L : List Alloc) (a : Alloc) (p : Path) (k : String) :
    sumLive (L ++ [a]) p k = sumLive L p k + (if onPath p a.q then a.r.getD k else 0) := by
  induction L with
  | nil => simp [sumLive]
  | cons b L ih => rw [List.cons_append, sumLive_cons, sumLive_cons, ih]; omega

theorem sumLive_erase {L : List Alloc} {a : Alloc} (h : a ∈ L) (p : Path) (k : String) :
    sumLive (L.erase a) p k = sumLive L p k - (if onPath p a.q then a.r.getD k else 0) := by
  induction L with
  | nil => cases h
  | cons b L ih =>
    by_cases e : b = a
    · subst e; rw [List.erase_cons_head, sumLive_cons]; omega
    · have hm : a ∈ L := by
        rcases List.mem_cons.mp h with h | h
        · exact absurd h.symm e
        · exact h
      rw [List.erase_cons_tail (by simpa using e), sumLive_cons, sumLive_cons, ih hm]; omega

/-- nothing live on `p` adds up to nothing -/
theorem sumLive_zero {L : List Alloc} {p : Path} (h : ∀ a ∈ L, p ∉ prefixes a.q) (k : String) : sumLive L p k = 0 := by
  induction L with
  | nil => rfl
  | cons b L ih =>
    rw [sumLive_cons, ih (fun a ha => h a (List.mem_cons_of_mem _ ha))]
    have : onPath p b.q = false := by
      cases hh : onPath p b.q with
      | false => rfl
      | true => exact absurd ((onPath_iff _ _).mp hh) (h b List.mem_cons_self)
    simp [this]

/-! ### usage lookups through the tree operations -/

theorem usageAt_of_aget_eq {t t' : Tree} {p : Path} (h : aget t' p = aget t p) (k : String) : usageAt t' p k = usageAt t p k := by
  unfold usageAt; rw [h]

theorem newNode_usage (w : List (Path × Limit)) (isUser : Bool) (p : Path) :
    (newNode w isUser p).usage = none ∧ (newNode w isUser p).apps = [] := by
  unfold newNode
  cases isUser with
  | false => exact ⟨rfl, rfl⟩
  | true => simp only [if_true]; cases aget w p <;> exact ⟨rfl, rfl⟩

theorem usageAt_ensurePath (w : List (Path × Limit)) (isUser : Bool) (t : Tree) (h p : Path) (k : String) :
    usageAt (ensurePath w isUser t h) p k = usageAt t p k := by
  unfold usageAt
  rw [aget_ensurePath]
  cases aget t p with
  | some n => rfl
  | none =>
    by_cases hp : p ∈ prefixes h
    · simp [hp, (newNode_usage w isUser p).1]
    · simp [hp]

theorem usageWf_ensurePath (w : List (Path × Limit)) (isUser : Bool) {t : Tree} (ht : UsageWf t) (h : Path) :
    UsageWf (ensurePath w isUser t h) := by
  intro p n hn
  rw [aget_ensurePath] at hn
  cases hp : aget t p with
  | some n' => rw [hp] at hn; cases hn; exact ht p _ hp
  | none =>
    rw [hp] at hn
    by_cases hm : p ∈ prefixes h
    · simp [hm] at hn; subst hn; rw [(newNode_usage w isUser p).1]; rfl
    · simp [hm] at hn

theorem usage_getD_wf {n : Node} (h : oresWf n.usage = true) : wf (n.usage.getD []) = true := by
  cases hh : n.usage with
  | none => rfl
  | some u => rw [hh] at h; exact h

theorem incNode_usage' {n : Node} (hn : oresWf n.usage = true) {r : Res} (hr : wf r = true) (app : String) (k : String) :
    ((incNode app r n).usage.getD []).getD k = (n.usage.getD []).getD k + r.getD k := by
  have hu := usage_getD_wf hn
  show (prune (addX (n.usage.getD []) r)).getD k = (n.usage.getD []).getD k + r.getD k
  have hw2 : wf (addX (n.usage.getD []) r) = true := zipFold_wf _ _ _ hu
  rw [prune_getD _ hw2, addX_getD _ _ hr]

theorem incNode_usage_wf {n : Node} (hn : oresWf n.usage = true) (r : Res) (app : String) :
    oresWf (incNode app r n).usage = true := by
  show wf (prune (addX (n.usage.getD []) r)) = true
  exact prune_wf _ (zipFold_wf _ _ _ (usage_getD_wf hn))

theorem mem_incNode_apps (app : String) (r : Res) (n : Node) : app ∈ (incNode app r n).apps := by
  show app ∈ (if n.apps.contains app then n.apps else n.apps ++ [app])
  by_cases h : n.apps.contains app = true
  · rw [if_pos h]; exact List.contains_iff_mem.mp h
  · rw [if_neg h]; simp

theorem incNode_apps_mono (app : String) (r : Res) (n : Node) {x : String} (h : x ∈ n.apps) : x ∈ (incNode app r n).apps := by
  show x ∈ (if n.apps.contains app then n.apps else n.apps ++ [app])
  by_cases hc : n.apps.contains app = true
  · rw [if_pos hc]; exact h
  · rw [if_neg hc]; exact List.mem_append_left _ h

/-! ### decreaseTrackedResource -/

/-- the trackers a decrease starting at `cur` with `rest` below it visits -/
def walk (cur : Path) (rest : List String) : List Path := cur :: prefixesFrom cur rest

theorem walk_cons (cur : Path) (c : String) (rest : List String) : walk cur (c :: rest) = cur :: walk (cur ++ [c]) rest := rfl

theorem mem_walk_length {cur p : Path} {rest : List String} (h : p ∈ walk cur rest) : cur.length ≤ p.length := by
  rcases List.mem_cons.mp h with h | h
  · subst h; exact Nat.le_refl _
  · exact Nat.le_of_lt (mem_prefixesFrom_length _ _ _ h)

theorem not_mem_walk_child (cur : Path) (c : String) (rest : List String) : cur ∉ walk (cur ++ [c]) rest := by
  intro h
  have := mem_walk_length h
  simp at this
  omega

theorem prefixes_eq_walk (r0 : String) (rest : List String) : prefixes (r0 :: rest) = walk [r0] rest := rfl

theorem isZero_getD {u : Res} (h : isZero (some u) = true) (k : String) : u.getD k = 0 := by
  unfold isZero at h
  induction u with
  | nil => rfl
  | cons e t ih =>
    obtain ⟨a, v⟩ := e
    simp only [List.all_cons, Bool.and_eq_true, beq_iff_eq] at h
    rw [getD_cons]
    by_cases hk : k = a
    · simp [hk, h.1]
    · simp only [hk, if_false]; exact ih h.2

theorem isZero_usage_getD {n : Node} (h : isZero n.usage = true) (k : String) : (n.usage.getD []).getD k = 0 := by
  cases hu : n.usage with
  | none => rfl
  | some u => rw [hu] at h; exact isZero_getD h k

theorem decNode_usage {n : Node} (hn : oresWf n.usage = true) (hs : n.usage.isSome = true) {r : Res} (hr : wf r = true)
    (app : String) (rm : Bool) (k : String) :
    ((decNode app r rm n).usage.getD []).getD k = (n.usage.getD []).getD k - r.getD k := by
  cases hu : n.usage with
  | none => rw [hu] at hs; cases hs
  | some u =>
    rw [hu] at hn
    show ((n.usage.map (fun u => prune (subX u r))).getD []).getD k = _
    rw [hu]
    show (prune (subX u r)).getD k = u.getD k - r.getD k
    have hw2 : wf (subX u r) = true := zipFold_wf _ _ _ hn
    rw [prune_getD _ hw2, subX_getD _ _ hr]

theorem decNode_usage_wf {n : Node} (hn : oresWf n.usage = true) (r : Res) (app : String) (rm : Bool) :
    oresWf (decNode app r rm n).usage = true := by
  show oresWf (n.usage.map (fun u => prune (subX u r))) = true
  cases hu : n.usage with
  | none => rfl
  | some u => rw [hu] at hn; exact prune_wf _ (zipFold_wf _ _ _ hn)

theorem decNode_usage_isSome (n : Node) (r : Res) (app : String) (rm : Bool) :
    (decNode app r rm n).usage.isSome = n.usage.isSome := by
  show (n.usage.map _).isSome = _
  cases n.usage <;> rfl

/-- what one level of the decrease does, given the tracker exists -/
theorem decFinish_spec (app : String) (r : Res) (rm : Bool) (cur : Path) (t : Tree) {n : Node} (hn : aget t cur = some n) :
    (∀ q, aget (decFinish app r rm cur t).1 q = if cur = q then some (decNode app r rm n) else aget t q) ∧
    ((decFinish app r rm cur t).2 = true → (decNode app r rm n).apps = [] ∧ isZero (decNode app r rm n).usage = true) ∧
    keys (decFinish app r rm cur t).1 = keys t := by
  have h1 : ∀ q, aget (amod t cur (decNode app r rm)) q = if cur = q then some (decNode app r rm n) else aget t q := by
    intro q; rw [aget_amod]
    by_cases e : cur = q
    · subst e; simp [hn]
    · simp [e]
  refine ⟨h1, ?_, keys_amod _ _ _⟩
  intro h2
  simp only [decFinish] at h2
  rw [h1 cur] at h2
  simp only [if_true, removable, Bool.and_eq_true, List.isEmpty_iff] at h2
  exact ⟨h2.1.1.1.2, h2.1.1.2⟩

/-- the decrease along a completely tracked, counted path -/
theorem decGo_spec (app : String) (r : Res) (rm : Bool) (hr : wf r = true) : ∀ (rest : List String) (cur : Path) (t : Tree),
    (∀ p ∈ walk cur rest, ∃ n, aget t p = some n ∧ n.usage.isSome = true) → UsageWf t →
    (∀ q k, usageAt (decGo app r rm cur rest t).1 q k = usageAt t q k - (if q ∈ walk cur rest then r.getD k else 0)) ∧
    (∀ q, q ∉ walk cur rest → aget (decGo app r rm cur rest t).1 q = aget t q) ∧
    (∀ q n, q ∈ walk cur rest → aget t q = some n →
        aget (decGo app r rm cur rest t).1 q = some (decNode app r rm n) ∨
        (aget (decGo app r rm cur rest t).1 q = none ∧ (decNode app r rm n).apps = [])) ∧
    (∀ n, aget t cur = some n → aget (decGo app r rm cur rest t).1 cur = some (decNode app r rm n)) ∧
    ((decGo app r rm cur rest t).2 = true → ∀ n, aget t cur = some n →
        (decNode app r rm n).apps = [] ∧ isZero (decNode app r rm n).usage = true) ∧
    UsageWf (decGo app r rm cur rest t).1 ∧
    (KeysNodup t → KeysNodup (decGo app r rm cur rest t).1) := by
  intro rest
  induction rest with
  | nil =>
    intro cur t hpre hwf
    obtain ⟨n, hn, hs⟩ := hpre cur List.mem_cons_self
    obtain ⟨h1, h2, h3⟩ := decFinish_spec app r rm cur t hn
    have hw : walk cur [] = [cur] := rfl
    simp only [decGo]
    refine ⟨?_, ?_, ?_, ?_, ?_, ?_, ?_⟩
    · intro q k
      unfold usageAt
      rw [h1 q, hw]
      by_cases e : cur = q
      · subst e; simp only [if_true, List.mem_singleton, hn]
        exact decNode_usage (hwf _ _ hn) hs hr app rm k
      · have : q ∉ [cur] := by simp; exact fun x => e x.symm
        simp [e, this]
    · intro q hq; rw [h1 q]; rw [hw] at hq
      have : cur ≠ q := by intro e; subst e; simp at hq
      simp [this]
    · intro q n' hq hn'
      rw [hw] at hq; simp at hq; subst hq
      rw [hn] at hn'; cases hn'
      left; rw [h1]; simp
    · intro n' hn'; rw [hn] at hn'; cases hn'; rw [h1]; simp
    · intro hb n' hn'; rw [hn] at hn'; cases hn'; exact h2 hb
    · intro p n' hn'
      rw [h1 p] at hn'
      by_cases e : cur = p
      · subst e; simp at hn'; subst hn'; exact decNode_usage_wf (hwf _ _ hn) r app rm
      · simp [e] at hn'; exact hwf _ _ hn'
    · intro hk; unfold KeysNodup; rw [h3]; exact hk
  | cons c rest ih =>
    intro cur t hpre hwf
    have hchildmem : cur ++ [c] ∈ walk cur (c :: rest) := by rw [walk_cons]; exact List.mem_cons_of_mem _ List.mem_cons_self
    obtain ⟨nc, hnc, _⟩ := hpre _ hchildmem
    have hhas : ahas t (cur ++ [c]) = true := by rw [ahas_eq, hnc]; rfl
    obtain ⟨n, hn, hs⟩ := hpre cur List.mem_cons_self
    have hpre' : ∀ p ∈ walk (cur ++ [c]) rest, ∃ n, aget t p = some n ∧ n.usage.isSome = true := by
      intro p hp; apply hpre; rw [walk_cons]; exact List.mem_cons_of_mem _ hp
    obtain ⟨iA, iB, iC, iC0, iD, iE, iF⟩ := ih (cur ++ [c]) t hpre' hwf
    have hne : cur ++ [c] ≠ cur := by intro e; have := congrArg List.length e; simp at this
    have hcur_notin : cur ∉ walk (cur ++ [c]) rest := not_mem_walk_child cur c rest
    -- the tree after the recursion and the possible removal of the child
    generalize hres : decGo app r rm (cur ++ [c]) rest t = res at iA iB iC iC0 iD iE iF
    have hgo : decGo app r rm cur (c :: rest) t =
        decFinish app r rm cur (if res.2 then adel res.1 (cur ++ [c]) else res.1) := by
      simp only [decGo, hhas, if_true, hres]
    rw [hgo]
    generalize ht2 : (if res.2 then adel res.1 (cur ++ [c]) else res.1) = t2
    have h2get : ∀ q, aget t2 q = if res.2 = true ∧ q = cur ++ [c] then none else aget res.1 q := by
      intro q; rw [← ht2]
      by_cases hb : res.2 = true
      · rw [if_pos hb, aget_adel]
        by_cases e : cur ++ [c] = q
        · subst e; simp [hb]
        · have : ¬ q = cur ++ [c] := fun x => e x.symm
          simp [e, this]
      · rw [if_neg hb]; simp [hb]
    have h2cur : aget t2 cur = some n := by
      rw [h2get]
      have : ¬ (res.2 = true ∧ cur = cur ++ [c]) := fun x => hne x.2.symm
      rw [if_neg this, iB cur hcur_notin, hn]
    have h2usage : ∀ q k, usageAt t2 q k = usageAt res.1 q k := by
      intro q k
      unfold usageAt
      rw [h2get]
      by_cases hb : res.2 = true ∧ q = cur ++ [c]
      · rw [if_pos hb]
        obtain ⟨hb1, hb2⟩ := hb
        subst hb2
        obtain ⟨_, hz⟩ := iD hb1 nc hnc
        rw [iC0 nc hnc]
        simp only
        exact (isZero_usage_getD hz k).symm
      · rw [if_neg hb]
    obtain ⟨f1, f2, f3⟩ := decFinish_spec app r rm cur t2 h2cur
    refine ⟨?_, ?_, ?_, ?_, ?_, ?_, ?_⟩
    · intro q k
      by_cases e : cur = q
      · subst e
        unfold usageAt
        rw [f1 cur, hn]
        simp only [if_true, walk_cons, List.mem_cons, true_or]
        exact decNode_usage (hwf _ _ hn) hs hr app rm k
      · have hq : usageAt (decFinish app r rm cur t2).1 q k = usageAt t2 q k := by
          unfold usageAt; rw [f1 q]; simp [e]
        rw [hq, h2usage, iA q k, walk_cons]
        have : (q ∈ cur :: walk (cur ++ [c]) rest) ↔ q ∈ walk (cur ++ [c]) rest := by
          simp only [List.mem_cons]; constructor
          · intro h; rcases h with h | h
            · exact absurd h.symm e
            · exact h
          · intro h; exact Or.inr h
        simp only [this]
    · intro q hq
      rw [walk_cons] at hq
      simp only [List.mem_cons, not_or] at hq
      have e : cur ≠ q := fun x => hq.1 x.symm
      rw [f1 q]; simp only [e, if_false]
      rw [h2get]
      have : ¬ (res.2 = true ∧ q = cur ++ [c]) := by
        intro x; apply hq.2; rw [x.2]; exact List.mem_cons_self
      rw [if_neg this]; exact iB q hq.2
    · intro q n' hq hn'
      rw [walk_cons] at hq
      rcases List.mem_cons.mp hq with e | hq'
      · subst e; rw [hn] at hn'; cases hn'; left; rw [f1]; simp
      · have e : cur ≠ q := by intro x; subst x; exact hcur_notin hq'
        rw [f1 q]; simp only [e, if_false]
        rw [h2get]
        by_cases hb : res.2 = true ∧ q = cur ++ [c]
        · rw [if_pos hb]
          obtain ⟨hb1, hb2⟩ := hb
          subst hb2
          rw [hnc] at hn'; cases hn'
          right; exact ⟨rfl, (iD hb1 nc hnc).1⟩
        · rw [if_neg hb]; exact iC q n' hq' hn'
    · intro n' hn'; rw [hn] at hn'; cases hn'; rw [f1]; simp
    · intro hb n' hn'; rw [hn] at hn'; cases hn'; exact f2 hb
    · intro p n' hn'
      rw [f1 p] at hn'
      by_cases e : cur = p
      · subst e; simp at hn'; subst hn'; exact decNode_usage_wf (hwf _ _ hn) r app rm
      · simp only [e, if_false] at hn'
        rw [h2get] at hn'
        by_cases hb : res.2 = true ∧ p = cur ++ [c]
        · rw [if_pos hb] at hn'; cases hn'
        · rw [if_neg hb] at hn'; exact iE p n' hn'
    · intro hk
      unfold KeysNodup; rw [f3, ← ht2]
      by_cases hb : res.2 = true
      · rw [if_pos hb]; exact keysNodup_adel (iF hk) _
      · rw [if_neg hb]; exact iF hk

/-! ### the accounting invariant -/

/-- tracked usage = sum of the live allocations; the trackers on the path of a live allocation exist, count, and list
    its application -/
structure Inv (t : Tree) (L : List Alloc) : Prop where
  sum : ∀ p k, usageAt t p k = sumLive L p k
  live : ∀ a ∈ L, ∀ p ∈ prefixes a.q, ∃ n, aget t p = some n ∧ n.usage.isSome = true ∧ a.app ∈ n.apps
  uwf : UsageWf t
  rwf : ∀ a ∈ L, wf a.r = true
  nodup : KeysNodup t

theorem inv_new (w : List (Path × Limit)) (isUser : Bool) : Inv (newTree w isUser) [] := by
  refine ⟨?_, ?_, ?_, ?_, ?_⟩
  · intro p k
    unfold usageAt newTree
    rw [aget_cons]
    by_cases e : rootPath = p
    · simp [e, (newNode_usage w isUser p).1, sumLive_nil]
    · simp [e, aget_nil, sumLive_nil]
  · intro a ha; cases ha
  · intro p n hn
    unfold newTree at hn
    rw [aget_cons] at hn
    by_cases e : rootPath = p
    · simp [e] at hn; subst hn; rw [(newNode_usage w isUser _).1]; rfl
    · simp [e, aget_nil] at hn
  · intro a ha; cases ha
  · unfold KeysNodup keys newTree; simp

theorem inv_inc {t : Tree} {L : List Alloc} (h : Inv t L) (w : List (Path × Limit)) (isUser : Bool) (a : Alloc)
    (hr : wf a.r = true) : Inv (increase w isUser t a.q a.app a.r) (L ++ [a]) := by
  have huw := usageWf_ensurePath w isUser h.uwf a.q
  refine ⟨?_, ?_, ?_, ?_, ?_⟩
  · intro p k
    rw [sumLive_append, ← h.sum, ← usageAt_ensurePath w isUser t a.q p k]
    unfold usageAt
    rw [aget_increase]
    by_cases hp : p ∈ prefixes a.q
    · obtain ⟨n, hn⟩ := ensurePath_has w isUser t a.q p hp
      have : onPath p a.q = true := (onPath_iff _ _).mpr hp
      simp only [hp, if_true, hn, Option.map_some, this]
      exact incNode_usage' (huw p n hn) hr a.app k
    · have : onPath p a.q = false := by
        cases hh : onPath p a.q with
        | false => rfl
        | true => exact absurd ((onPath_iff _ _).mp hh) hp
      simp [hp, this]
  · intro b hb p hp
    rw [aget_increase]
    rcases List.mem_append.mp hb with hb | hb
    · obtain ⟨n, hn, hs, hm⟩ := h.live b hb p hp
      have hn' : aget (ensurePath w isUser t a.q) p = some n := by rw [aget_ensurePath, hn]
      by_cases hpa : p ∈ prefixes a.q
      · simp only [hpa, if_true, hn', Option.map_some]
        exact ⟨_, rfl, rfl, incNode_apps_mono _ _ _ hm⟩
      · simp only [hpa, if_false, hn']
        exact ⟨_, rfl, hs, hm⟩
    · simp at hb; subst hb
      obtain ⟨n, hn⟩ := ensurePath_has w isUser t b.q p hp
      simp only [hp, if_true, hn, Option.map_some]
      exact ⟨_, rfl, rfl, mem_incNode_apps _ _ _⟩
  · intro p n hn
    rw [aget_increase] at hn
    by_cases hpa : p ∈ prefixes a.q
    · simp only [hpa, if_true] at hn
      cases hq : aget (ensurePath w isUser t a.q) p with
      | none => rw [hq] at hn; cases hn
      | some n0 => rw [hq] at hn; simp at hn; subst hn; exact incNode_usage_wf (huw p n0 hq) _ _
    · simp only [hpa, if_false] at hn; exact huw p n hn
  · intro b hb
    rcases List.mem_append.mp hb with hb | hb
    · exact h.rwf b hb
    · simp at hb; subst hb; exact hr
  · unfold KeysNodup increase
    rw [keys_foldl_amod]
    exact keysNodup_ensurePath w isUser t a.q h.nodup

theorem mem_filter_ne {l : List String} {x y : String} (h : x ∈ l) (hne : x ≠ y) : x ∈ l.filter (· != y) := by
  rw [List.mem_filter]; exact ⟨h, by simpa using hne⟩

theorem inv_dec {t : Tree} {L : List Alloc} (h : Inv t L) (a : Alloc) (rm : Bool) (ha : a ∈ L)
    (hrm : rm = true → ∀ b ∈ L.erase a, b.app ≠ a.app) : Inv (decrease t a.q a.app a.r rm).1 (L.erase a) := by
  have hr := h.rwf a ha
  cases hq : a.q with
  | nil =>
    simp only [decrease]
    refine ⟨?_, ?_, h.uwf, fun b hb => h.rwf b (List.mem_of_mem_erase hb), h.nodup⟩
    · intro p k
      rw [sumLive_erase ha, h.sum, hq]
      have : onPath p [] = false := rfl
      simp [this]
    · intro b hb; exact h.live b (List.mem_of_mem_erase hb)
  | cons r0 rest =>
    simp only [decrease]
    have hpre : ∀ p ∈ walk [r0] rest, ∃ n, aget t p = some n ∧ n.usage.isSome = true := by
      intro p hp
      rw [← prefixes_eq_walk, ← hq] at hp
      obtain ⟨n, hn, hs, _⟩ := h.live a ha p hp
      exact ⟨n, hn, hs⟩
    obtain ⟨iA, iB, iC, _, _, iE, iF⟩ := decGo_spec a.app a.r rm hr rest [r0] t hpre h.uwf
    refine ⟨?_, ?_, iE, fun b hb => h.rwf b (List.mem_of_mem_erase hb), iF h.nodup⟩
    · intro p k
      rw [iA, sumLive_erase ha, h.sum, hq, ← prefixes_eq_walk]
      by_cases hp : p ∈ prefixes (r0 :: rest)
      · have : onPath p (r0 :: rest) = true := (onPath_iff _ _).mpr hp
        simp [hp, this]
      · have : onPath p (r0 :: rest) = false := by
          cases hh : onPath p (r0 :: rest) with
          | false => rfl
          | true => exact absurd ((onPath_iff _ _).mp hh) hp
        simp [hp, this]
    · intro b hb p hp
      obtain ⟨n, hn, hs, hm⟩ := h.live b (List.mem_of_mem_erase hb) p hp
      by_cases hw : p ∈ walk [r0] rest
      · have happ : b.app ∈ (decNode a.app a.r rm n).apps := by
          show b.app ∈ (if rm then n.apps.filter (· != a.app) else n.apps)
          cases hrmv : rm with
          | false => simpa using hm
          | true => simp only [if_true]; exact mem_filter_ne hm (hrm hrmv b hb)
        rcases iC p n hw hn with hc | ⟨_, hc⟩
        · exact ⟨_, hc, by rw [decNode_usage_isSome]; exact hs, happ⟩
        · rw [hc] at happ; cases happ
      · exact ⟨n, by rw [iB p hw]; exact hn, hs, hm⟩

theorem inv_touch {t : Tree} {L : List Alloc} (h : Inv t L) (w : List (Path × Limit)) (isUser : Bool) (q : Path) :
    Inv (ensurePath w isUser t q) L := by
  refine ⟨?_, ?_, usageWf_ensurePath w isUser h.uwf q, h.rwf, keysNodup_ensurePath w isUser t q h.nodup⟩
  · intro p k; rw [usageAt_ensurePath]; exact h.sum p k
  · intro a ha p hp
    obtain ⟨n, hn, hs, hm⟩ := h.live a ha p hp
    exact ⟨n, by rw [aget_ensurePath, hn], hs, hm⟩

/-- changing only the limit fields of one tracker -/
theorem inv_amod_limits {t : Tree} {L : List Alloc} (h : Inv t L) (q : Path) (f : Node → Node)
    (hf : ∀ n, (f n).usage = n.usage ∧ (f n).apps = n.apps) : Inv (amod t q f) L := by
  refine ⟨?_, ?_, ?_, h.rwf, by unfold KeysNodup; rw [keys_amod]; exact h.nodup⟩
  · intro p k
    rw [← h.sum]; unfold usageAt; rw [aget_amod]
    by_cases e : q = p
    · subst e; cases hh : aget t q with
      | none => simp
      | some n => simp [(hf n).1]
    · simp [e]
  · intro a ha p hp
    obtain ⟨n, hn, hs, hm⟩ := h.live a ha p hp
    rw [aget_amod]
    by_cases e : q = p
    · subst e; rw [hn]; simp only [if_true, Option.map_some]
      exact ⟨_, rfl, by rw [(hf n).1]; exact hs, by rw [(hf n).2]; exact hm⟩
    · simp only [e, if_false]; exact ⟨n, hn, hs, hm⟩
  · intro p n hn
    rw [aget_amod] at hn
    by_cases e : q = p
    · subst e
      cases hh : aget t q with
      | none => rw [hh] at hn; simp at hn
      | some n0 => rw [hh] at hn; simp at hn; subst hn; rw [(hf n0).1]; exact h.uwf _ _ hh
    · simp only [e, if_false] at hn; exact h.uwf _ _ hn

theorem inv_setLimit {t : Tree} {L : List Alloc} (h : Inv t L) (w : List (Path × Limit)) (isUser : Bool) (q : Path)
    (mr : ORes) (ma : Nat) (uw ck : Bool) : Inv (setLimit w isUser t q mr ma uw ck) L := by
  unfold setLimit
  apply inv_amod_limits (inv_touch h w isUser q)
  intro n
  by_cases c : (ck && !n.wild) = true
  · simp [c]
  · simp [c]

/-- dropping trackers that list no application -/
theorem inv_drop {t t' : Tree} {L : List Alloc} (h : Inv t L) (hk : KeysNodup t')
    (hd : ∀ p, aget t' p = aget t p ∨ (aget t' p = none ∧ ∃ n, aget t p = some n ∧ n.apps = [])) : Inv t' L := by
  refine ⟨?_, ?_, ?_, h.rwf, hk⟩
  · intro p k
    rcases hd p with e | ⟨e, n, hn, hna⟩
    · rw [usageAt_of_aget_eq e]; exact h.sum p k
    · have hz : sumLive L p k = 0 := by
        apply sumLive_zero
        intro a ha hp
        obtain ⟨n', hn', _, hm⟩ := h.live a ha p hp
        rw [hn] at hn'; cases hn'; rw [hna] at hm; cases hm
      rw [hz]; unfold usageAt; rw [e]
  · intro a ha p hp
    obtain ⟨n, hn, hs, hm⟩ := h.live a ha p hp
    rcases hd p with e | ⟨_, n', hn', hna⟩
    · exact ⟨n, by rw [e]; exact hn, hs, hm⟩
    · rw [hn] at hn'; cases hn'; rw [hna] at hm; cases hm
  · intro p n hn
    rcases hd p with e | ⟨e, _⟩
    · rw [e] at hn; exact h.uwf p n hn
    · rw [e] at hn; cases hn

theorem isPrefixOf_self (p : Path) : p.isPrefixOf p = true := by
  induction p with
  | nil => rfl
  | cons a p ih => simp [List.isPrefixOf, ih]

theorem subtreeNoApps_self {t : Tree} {p : Path} {n : Node} (hn : aget t p = some n) (h : subtreeNoApps t p = true) : n.apps = [] := by
  have := List.all_eq_true.mp h (p, n) (aget_mem hn)
  simp only [isPrefixOf_self, Bool.not_true, Bool.false_or, List.isEmpty_iff] at this
  exact this

theorem inv_unlink {t : Tree} {L : List Alloc} (h : Inv t L) (q : Path) : Inv (unlink t q) L := by
  unfold unlink
  -- the filtered tree
  have hk1 := keysNodup_filter h.nodup (fun e => !(q.isPrefixOf e.1 && decide (q.length < e.1.length) && subtreeNoApps t e.1))
  have hd1 : ∀ p, aget (t.filter (fun e => !(q.isPrefixOf e.1 && decide (q.length < e.1.length) && subtreeNoApps t e.1))) p = aget t p ∨
      (aget (t.filter (fun e => !(q.isPrefixOf e.1 && decide (q.length < e.1.length) && subtreeNoApps t e.1))) p = none ∧
        ∃ n, aget t p = some n ∧ n.apps = []) := by
    intro p
    rw [aget_filter h.nodup]
    cases hn : aget t p with
    | none => left; rfl
    | some n =>
      simp only
      by_cases c : (!(q.isPrefixOf p && decide (q.length < p.length) && subtreeNoApps t p)) = true
      · left; rw [if_pos c]
      · right; rw [if_neg c]
        refine ⟨rfl, n, rfl, subtreeNoApps_self hn ?_⟩
        simp only [Bool.not_eq_true', Bool.not_eq_false, Bool.and_eq_true] at c
        exact c.2
  have h1 := inv_drop h hk1 hd1
  generalize t.filter (fun e => !(q.isPrefixOf e.1 && decide (q.length < e.1.length) && subtreeNoApps t e.1)) = t1 at h1 ⊢
  show Inv (if (decide (1 < q.length) && (match aget t1 q with | some n => n.apps.isEmpty && !hasChild t1 q | none => false)) = true
            then adel t1 q else t1) L
  by_cases hc : (decide (1 < q.length) && (match aget t1 q with | some n => n.apps.isEmpty && !hasChild t1 q | none => false)) = true
  · rw [if_pos hc]
    apply inv_drop h1 (keysNodup_adel h1.nodup q)
    intro p
    rw [aget_adel]
    by_cases e : q = p
    · subst e
      right
      simp only [Bool.and_eq_true] at hc
      cases hn : aget t1 q with
      | none => rw [hn] at hc; simp at hc
      | some n =>
        rw [hn] at hc
        simp only [Bool.and_eq_true, List.isEmpty_iff] at hc
        exact ⟨by simp, n, rfl, hc.2.1⟩
    · left; simp [e]
  · rw [if_neg hc]; exact h1

/-- the invariant survives every operation made under the callers' contract -/
theorem inv_step (isUser : Bool) {s : Tree × List Alloc} (h : Inv s.1 s.2) (op : TOp) (hok : opOk s.2 op) :
    Inv (tstep isUser s op).1 (tstep isUser s op).2 := by
  cases op with
  | inc w a => exact inv_inc h w isUser a hok
  | dec a rm => exact inv_dec h a rm hok.1 hok.2
  | touch w q => exact inv_touch h w isUser q
  | setLimit w q mr ma uw ck => exact inv_setLimit h w isUser q mr ma uw ck
  | unlink q => exact inv_unlink h q

theorem inv_run (isUser : Bool) : ∀ (ops : List TOp) (s : Tree × List Alloc), Inv s.1 s.2 → histOk isUser s ops →
    Inv (ops.foldl (tstep isUser) s).1 (ops.foldl (tstep isUser) s).2 := by
  intro ops
  induction ops with
  | nil => intro s h _; exact h
  | cons op ops ih =>
    intro s h hok
    rw [List.foldl_cons]
    exact ih _ (inv_step isUser h op hok.1) hok.2

theorem mem_erase_append_self {L : List Alloc} {a b : Alloc} (h : b ∈ (L ++ [a]).erase a) : b ∈ L := by
  by_cases ha : a ∈ L
  · rw [List.erase_append_left _ ha] at h
    rcases List.mem_append.mp h with h | h
    · exact List.mem_of_mem_erase h
    · simp at h; subst h; exact ha
  · rw [List.erase_append_right _ ha] at h
    simpa using h

/-- a release after the increase restores the usage of every queue -/
theorem dec_inc_restores {t : Tree} {L : List Alloc} (h : Inv t L) (w : List (Path × Limit)) (isUser : Bool) (a : Alloc)
    (rm : Bool) (hr : wf a.r = true) (hrm : rm = true → ∀ b ∈ L, b.app ≠ a.app) :
    ∀ p k, usageAt (decrease (increase w isUser t a.q a.app a.r) a.q a.app a.r rm).1 p k = usageAt t p k := by
  intro p k
  have h1 := inv_inc h w isUser a hr
  have ha : a ∈ L ++ [a] := by simp
  have h2 := inv_dec h1 a rm ha (fun hrmv b hb => hrm hrmv b (mem_erase_append_self hb))
  rw [h2.sum, sumLive_erase ha, sumLive_append, h.sum]; omega

end Yk.Ugm
