/- Manager level: Manager.Headroom followed by IncreaseTrackedResource applies `headroom_enforces_tree` to the user's
   tracker tree and to the tree of the group resolved for the application. -/
import YkProofs.UgmLoad
namespace Yk.Ugm
open Yk Yk.Res Yk.QTree

/-- the ask stays within the limits of every tracker on the path (types the limit defines; provided it was within before) -/
def Within (t1 t2 : Tree) (q : Path) (r : Res) : Prop :=
  ∀ p ∈ prefixes q, ∃ n n', aget t1 p = some n ∧ aget t2 p = some n' ∧ n'.maxRes = n.maxRes ∧ n'.maxApps = n.maxApps ∧
    ∀ mx, n.maxRes = some mx → isZero n.maxRes = false → ∀ k, r.has k = true → mx.has k = true →
      (n.usage.getD []).getD k ≤ mx.getD k → (n'.usage.getD []).getD k ≤ mx.getD k

/-- resource vectors of the manager are Go maps -/
structure MgrWf (m : Mgr) : Prop where
  wild : WildWf m.userWild
  users : ∀ u ut, aget m.users u = some ut → TreeWf ut.qt
  groups : ∀ g gt, aget m.groups g = some gt → TreeWf gt.qt

theorem wildWf_nil : WildWf [] := by intro p l h; cases h

theorem newTree_wf {w : List (Path × Limit)} (hw : WildWf w) (isUser : Bool) : TreeWf (newTree w isUser) := by
  intro p n hn
  unfold newTree at hn
  rw [aget_cons] at hn
  by_cases e : rootPath = p
  · simp only [e, if_true, Option.some.injEq] at hn; subst hn; exact newNode_wf hw isUser p
  · simp [e, aget_nil] at hn

theorem headroom_wf {w : List (Path × Limit)} (hw : WildWf w) (isUser : Bool) {t : Tree} (ht : TreeWf t) (q : Path) :
    oresWf (headroom w isUser t q).2 = true :=
  headroom_fold_wf (ensurePath_wf hw isUser ht q) _

theorem aget_updUser (m : Mgr) (u : String) (f : UT → UT) (u' : String) :
    aget (updUser m u f).users u' = if u = u' then (aget m.users u').map f else aget m.users u' := by
  unfold updUser; simp only; rw [aget_amod]

theorem aget_updGroup (m : Mgr) (g : String) (f : GT → GT) (g' : String) :
    aget (updGroup m g f).groups g' = if g = g' then (aget m.groups g').map f else aget m.groups g' := by
  unfold updGroup; simp only; rw [aget_amod]

/-- what ensureGroupTrackerForApp leaves of the user's tracker: the queue trackers are untouched, the application is linked -/
theorem eGTFA_user (m : Mgr) (q : Path) (app u : String) (ugs : List String) {ut : UT} (hut : aget m.users u = some ut) :
    ∃ ut', aget (ensureGroupTrackerForApp m q app u ugs).users u = some ut' ∧ ut'.qt = ut.qt ∧
      hasGroupForApp (ensureGroupTrackerForApp m q app u ugs) u app = true ∧
      (ensureGroupTrackerForApp m q app u ugs).userWild = m.userWild := by
  unfold ensureGroupTrackerForApp
  by_cases hh : hasGroupForApp m u app = true
  · rw [if_pos hh]; exact ⟨ut, hut, rfl, hh, rfl⟩
  · rw [if_neg hh]
    simp only
    have key : ∀ (m1 : Mgr) (v : Option String), m1.users = m.users → m1.userWild = m.userWild →
        ∃ ut', aget (updUser m1 u (fun ut => { ut with appGroups := aset ut.appGroups app v })).users u = some ut' ∧ ut'.qt = ut.qt ∧
          hasGroupForApp (updUser m1 u (fun ut => { ut with appGroups := aset ut.appGroups app v })) u app = true ∧
          (updUser m1 u (fun ut => { ut with appGroups := aset ut.appGroups app v })).userWild = m.userWild := by
      intro m1 v h1 h2
      refine ⟨{ ut with appGroups := aset ut.appGroups app v }, ?_, rfl, ?_, h2⟩
      · rw [aget_updUser, h1, hut]; simp
      · unfold hasGroupForApp; rw [aget_updUser, h1, hut]; simp [ahas_eq, aget_aset]
    split
    · exact key _ _ rfl rfl
    · exact key _ _ rfl rfl

/-- group trackers that existed are untouched by ensureGroupTrackerForApp; a new one is a fresh tree -/
theorem eGTFA_groups (m : Mgr) (q : Path) (app u : String) (ugs : List String) (hg : ∀ g gt, aget m.groups g = some gt → TreeWf gt.qt) :
    ∀ g gt, aget (ensureGroupTrackerForApp m q app u ugs).groups g = some gt → TreeWf gt.qt := by
  intro g gt hgt
  unfold ensureGroupTrackerForApp at hgt
  by_cases hh : hasGroupForApp m u app = true
  · rw [if_pos hh] at hgt; exact hg g gt hgt
  · rw [if_neg hh] at hgt
    simp only at hgt
    split at hgt
    · have : (updUser ({ m with groups := m.groups ++ [(ensureGroup m ugs q, newGT)] } : Mgr) u
          (fun ut => { ut with appGroups := aset ut.appGroups app (if ensureGroup m ugs q == "" then none else some (ensureGroup m ugs q)) })).groups
          = m.groups ++ [(ensureGroup m ugs q, newGT)] := rfl
      rw [this, aget_append_single] at hgt
      cases hm : aget m.groups g with
      | some gt0 => rw [hm] at hgt; cases hgt; exact hg g _ hm
      | none =>
        rw [hm] at hgt
        by_cases e : ensureGroup m ugs q = g
        · simp only [e, if_true, Option.some.injEq] at hgt; subst hgt
          exact newTree_wf wildWf_nil false
        · simp [e] at hgt
    · exact hg g gt hgt

theorem groupForApp_updGroup (m : Mgr) (g : String) (f : GT → GT) (u app : String) :
    groupForApp (updGroup m g f) u app = groupForApp m u app := rfl

theorem groupForApp_updUser_qt (m : Mgr) (u0 : String) (f : UT → UT) (hf : ∀ ut, (f ut).appGroups = ut.appGroups) (u app : String) :
    groupForApp (updUser m u0 f) u app = groupForApp m u app := by
  unfold groupForApp
  rw [aget_updUser]
  by_cases e : u0 = u
  · subst e
    cases aget m.users u0 with
    | none => simp
    | some ut => simp [hf ut]
  · simp [e]

/-- the shape of the state Manager.Headroom leaves and of its answer -/
theorem headroomM_shape (m : Mgr) (q : Path) (app u : String) (ugs : List String) (hm : MgrWf m) :
    ∃ (ut0 ut1 : UT), TreeWf ut0.qt ∧ aget (headroomM m q app u ugs).1.users u = some ut1 ∧
      ut1.qt = (headroom m.userWild true ut0.qt q).1 ∧
      hasGroupForApp (headroomM m q app u ugs).1 u app = true ∧
      (headroomM m q app u ugs).1.userWild = m.userWild ∧
      LeOn (headroomM m q app u ugs).2 (headroom m.userWild true ut0.qt q).2 ∧
      (∀ gt1, groupForApp (headroomM m q app u ugs).1 u app ≠ "" →
        aget (headroomM m q app u ugs).1.groups (groupForApp (headroomM m q app u ugs).1 u app) = some gt1 →
        ∃ gt0 : GT, TreeWf gt0.qt ∧ gt1.qt = (headroom [] false gt0.qt q).1 ∧
          LeOn (headroomM m q app u ugs).2 (headroom [] false gt0.qt q).2) := by
  -- the user's tracker after getUserTracker
  have hu0 : ∃ ut0, aget (ensureUser m u).users u = some ut0 ∧ TreeWf ut0.qt := by
    rw [aget_ensureUser]
    cases hh : aget m.users u with
    | some ut => exact ⟨ut, rfl, hm.users u ut hh⟩
    | none => exact ⟨newUT m, by simp, newTree_wf hm.wild true⟩
  obtain ⟨ut0, hut0, hwf0⟩ := hu0
  have hw0 : (ensureUser m u).userWild = m.userWild := by unfold ensureUser; split <;> rfl
  have hg0 : ∀ g gt, aget (ensureUser m u).groups g = some gt → TreeWf gt.qt := by
    intro g gt h
    have : (ensureUser m u).groups = m.groups := by unfold ensureUser; split <;> rfl
    rw [this] at h; exact hm.groups g gt h
  unfold headroomM
  simp only
  rw [hut0, hw0]
  simp only
  generalize hm2 : updUser (ensureUser m u) u (fun ut => { ut with qt := (headroom m.userWild true ut.qt q).1 }) = m2
  have hut2 : aget m2.users u = some { ut0 with qt := (headroom m.userWild true ut0.qt q).1 } := by
    rw [← hm2, aget_updUser, hut0]; simp
  have hw2 : m2.userWild = m.userWild := by rw [← hm2]; exact hw0
  have hg2 : ∀ g gt, aget m2.groups g = some gt → TreeWf gt.qt := by rw [← hm2]; exact hg0
  -- after the group resolution
  have h3 : ∃ ut3, aget (if hasGroupForApp m2 u app then m2 else ensureGroupTrackerForApp m2 q app u ugs).users u = some ut3 ∧
      ut3.qt = (headroom m.userWild true ut0.qt q).1 ∧
      hasGroupForApp (if hasGroupForApp m2 u app then m2 else ensureGroupTrackerForApp m2 q app u ugs) u app = true ∧
      (if hasGroupForApp m2 u app then m2 else ensureGroupTrackerForApp m2 q app u ugs).userWild = m.userWild ∧
      (∀ g gt, aget (if hasGroupForApp m2 u app then m2 else ensureGroupTrackerForApp m2 q app u ugs).groups g = some gt → TreeWf gt.qt) := by
    by_cases hh : hasGroupForApp m2 u app = true
    · rw [if_pos hh]; exact ⟨_, hut2, rfl, hh, hw2, hg2⟩
    · rw [if_neg hh]
      obtain ⟨ut', h1, h2, h3, h4⟩ := eGTFA_user m2 q app u ugs hut2
      exact ⟨ut', h1, h2, h3, by rw [h4]; exact hw2, eGTFA_groups m2 q app u ugs hg2⟩
  generalize (if hasGroupForApp m2 u app then m2 else ensureGroupTrackerForApp m2 q app u ugs) = m3 at h3
  obtain ⟨ut3, hut3, hqt3, hhas3, hw3, hg3⟩ := h3
  have huh := headroom_wf hm.wild true hwf0 q
  by_cases hgE : (groupForApp m3 u app == "") = true
  · rw [if_pos hgE]
    refine ⟨ut0, ut3, hwf0, hut3, hqt3, hhas3, hw3, LeOn.refl _, ?_⟩
    intro gt1 hne; exact absurd (by simpa using hgE) hne
  · rw [if_neg hgE]
    cases hgt : aget m3.groups (groupForApp m3 u app) with
    | none =>
      simp only
      refine ⟨ut0, ut3, hwf0, hut3, hqt3, hhas3, hw3, LeOn.refl _, ?_⟩
      intro gt1 _ h; rw [hgt] at h; cases h
    | some gt =>
      simp only
      have hgwf := hg3 _ gt hgt
      have hgh := headroom_wf wildWf_nil false hgwf q
      obtain ⟨le1, le2⟩ := cwm_le_both _ _ huh hgh
      refine ⟨ut0, ut3, hwf0, ?_, hqt3, ?_, hw3, le1, ?_⟩
      · show aget (updGroup m3 _ _).users u = some ut3; exact hut3
      · show hasGroupForApp (updGroup m3 _ _) u app = true; exact hhas3
      · intro gt1 _ h
        rw [groupForApp_updGroup, aget_updGroup] at h
        simp only [if_true, hgt, Option.map_some, Option.some.injEq] at h
        exact ⟨gt, hgwf, by rw [← h], le2⟩

/-- the shape of the state IncreaseTrackedResource leaves for an application whose group is resolved -/
theorem increaseM_shape (m1 : Mgr) (q : Path) (app : String) (r : Res) (u : String) (ugs : List String)
    (hq : q ≠ []) (happ : app ≠ "") (hu : u ≠ "") {ut1 : UT} (hut1 : aget m1.users u = some ut1)
    (hhas : hasGroupForApp m1 u app = true) :
    (∃ ut2, aget (increaseM m1 q app r u ugs).users u = some ut2 ∧ ut2.qt = increase m1.userWild true ut1.qt q app r) ∧
    (∀ gt1, groupForApp m1 u app ≠ "" → aget m1.groups (groupForApp m1 u app) = some gt1 →
      ∃ gt2, aget (increaseM m1 q app r u ugs).groups (groupForApp m1 u app) = some gt2 ∧ gt2.qt = increase [] false gt1.qt q app r) := by
  have hguard : (q.isEmpty || app == "" || u == "") = false := by
    have h1 : q.isEmpty = false := by cases q with | nil => exact absurd rfl hq | cons a b => rfl
    have h2 : (app == "") = false := by simpa using happ
    have h3 : (u == "") = false := by simpa using hu
    simp [h1, h2, h3]
  have heu : ensureUser m1 u = m1 := by
    unfold ensureUser
    have : ahas m1.users u = true := by rw [ahas_eq, hut1]; rfl
    rw [if_pos this]
  unfold increaseM
  rw [hguard]
  simp only [Bool.false_eq_true, if_false]
  rw [heu, if_pos hhas]
  generalize hm3 : updUser m1 u (fun ut => { ut with qt := increase m1.userWild true ut.qt q app r }) = m3
  have hut3 : aget m3.users u = some { ut1 with qt := increase m1.userWild true ut1.qt q app r } := by
    rw [← hm3, aget_updUser, hut1]; simp
  have hg3 : groupForApp m3 u app = groupForApp m1 u app := by
    rw [← hm3]; refine groupForApp_updUser_qt _ _ _ ?_ _ _; intro ut; rfl
  have hgr3 : m3.groups = m1.groups := by rw [← hm3]; rfl
  by_cases hgE : (groupForApp m3 u app == "") = true
  · rw [if_pos hgE]
    refine ⟨⟨_, hut3, rfl⟩, ?_⟩
    intro gt1 hne; rw [← hg3] at hne; exact absurd (by simpa using hgE) hne
  · rw [if_neg hgE]
    refine ⟨⟨_, by show aget (updGroup m3 _ _).users u = _; exact hut3, rfl⟩, ?_⟩
    intro gt1 _ hgt1
    rw [hg3, aget_updGroup, hgr3, hgt1]
    simp

/-- ENFORCEMENT at the manager: when the ask fits (FitInMaxUndef) in what Manager.Headroom answered, then after
    IncreaseTrackedResource the usage of the user AND of the group resolved for the application is within every limit on
    the path, on the types of the ask the limit defines, provided it was before. -/
theorem manager_enforces (m : Mgr) (q : Path) (app u : String) (ugs : List String) (r : Res) (hm : MgrWf m)
    (hq : q ≠ []) (happ : app ≠ "") (hu : u ≠ "") (hr : wf r = true)
    (hfit : fitInMaxUndef (headroomM m q app u ugs).2 (some r) = true) :
    (∃ ut1 ut2, aget (headroomM m q app u ugs).1.users u = some ut1 ∧
      aget (increaseM (headroomM m q app u ugs).1 q app r u ugs).users u = some ut2 ∧ Within ut1.qt ut2.qt q r) ∧
    (∀ gt1, groupForApp (headroomM m q app u ugs).1 u app ≠ "" →
      aget (headroomM m q app u ugs).1.groups (groupForApp (headroomM m q app u ugs).1 u app) = some gt1 →
      ∃ gt2, aget (increaseM (headroomM m q app u ugs).1 q app r u ugs).groups (groupForApp (headroomM m q app u ugs).1 u app) = some gt2 ∧
        Within gt1.qt gt2.qt q r) := by
  obtain ⟨ut0, ut1, hwf0, hut1, hqt1, hhas, hw1, hle, hgrp⟩ := headroomM_shape m q app u ugs hm
  obtain ⟨⟨ut2, hut2, hqt2⟩, hg2⟩ := increaseM_shape (headroomM m q app u ugs).1 q app r u ugs hq happ hu hut1 hhas
  constructor
  · refine ⟨ut1, ut2, hut1, hut2, ?_⟩
    rw [hqt2, hqt1, hw1]
    exact headroom_enforces_tree m.userWild true ut0.qt q app r hm.wild hwf0 hr _ hle hfit
  · intro gt1 hne hgt1
    obtain ⟨gt0, hgwf, hgq, hgle⟩ := hgrp gt1 hne hgt1
    obtain ⟨gt2, hgt2, hgq2⟩ := hg2 gt1 hne hgt1
    refine ⟨gt2, hgt2, ?_⟩
    rw [hgq2, hgq]
    exact headroom_enforces_tree [] false gt0.qt q app r wildWf_nil hgwf hr _ hgle hfit

/-! ### the same for CanRunApp -/

/-- every tracker on the path admits at most its maximum number of applications (or the application was already there) -/
def WithinApps (t1 t2 : Tree) (q : Path) (app : String) : Prop :=
  ∀ p ∈ prefixes q, ∃ n n', aget t1 p = some n ∧ aget t2 p = some n' ∧ n'.maxApps = n.maxApps ∧
    (n.apps.contains app = true → n'.apps = n.apps) ∧
    (n.apps.contains app = false → n.maxApps ≠ 0 → n'.apps.length ≤ n.maxApps)

theorem canRunM_shape (m : Mgr) (q : Path) (app u : String) (ugs : List String) :
    ∃ (ut0 ut1 : UT), aget (canRunM m q app u ugs).1.users u = some ut1 ∧
      ut1.qt = (canRunApp m.userWild true ut0.qt q app).1 ∧
      hasGroupForApp (canRunM m q app u ugs).1 u app = true ∧
      (canRunM m q app u ugs).1.userWild = m.userWild ∧
      ((canRunM m q app u ugs).2 = true → (canRunApp m.userWild true ut0.qt q app).2 = true) ∧
      (∀ gt1, groupForApp (canRunM m q app u ugs).1 u app ≠ "" →
        aget (canRunM m q app u ugs).1.groups (groupForApp (canRunM m q app u ugs).1 u app) = some gt1 →
        ∃ gt0 : GT, gt1.qt = (canRunApp [] false gt0.qt q app).1 ∧
          ((canRunM m q app u ugs).2 = true → (canRunApp [] false gt0.qt q app).2 = true)) := by
  have hu0 : ∃ ut0, aget (ensureUser m u).users u = some ut0 := by
    rw [aget_ensureUser]
    cases hh : aget m.users u with
    | some ut => exact ⟨ut, rfl⟩
    | none => exact ⟨newUT m, by simp⟩
  obtain ⟨ut0, hut0⟩ := hu0
  have hw0 : (ensureUser m u).userWild = m.userWild := by unfold ensureUser; split <;> rfl
  unfold canRunM
  simp only
  rw [hut0, hw0]
  simp only
  generalize hm2 : updUser (ensureUser m u) u (fun ut => { ut with qt := (canRunApp m.userWild true ut.qt q app).1 }) = m2
  have hut2 : aget m2.users u = some { ut0 with qt := (canRunApp m.userWild true ut0.qt q app).1 } := by
    rw [← hm2, aget_updUser, hut0]; simp
  have hw2 : m2.userWild = m.userWild := by rw [← hm2]; exact hw0
  have h3 : ∃ ut3, aget (if hasGroupForApp m2 u app then m2 else ensureGroupTrackerForApp m2 q app u ugs).users u = some ut3 ∧
      ut3.qt = (canRunApp m.userWild true ut0.qt q app).1 ∧
      hasGroupForApp (if hasGroupForApp m2 u app then m2 else ensureGroupTrackerForApp m2 q app u ugs) u app = true ∧
      (if hasGroupForApp m2 u app then m2 else ensureGroupTrackerForApp m2 q app u ugs).userWild = m.userWild := by
    by_cases hh : hasGroupForApp m2 u app = true
    · rw [if_pos hh]; exact ⟨_, hut2, rfl, hh, hw2⟩
    · rw [if_neg hh]
      obtain ⟨ut', h1, h2, h3, h4⟩ := eGTFA_user m2 q app u ugs hut2
      exact ⟨ut', h1, h2, h3, by rw [h4]; exact hw2⟩
  generalize (if hasGroupForApp m2 u app then m2 else ensureGroupTrackerForApp m2 q app u ugs) = m3 at h3
  obtain ⟨ut3, hut3, hqt3, hhas3, hw3⟩ := h3
  by_cases hgE : (groupForApp m3 u app == "") = true
  · rw [if_pos hgE]
    refine ⟨ut0, ut3, hut3, hqt3, hhas3, hw3, fun h => h, ?_⟩
    intro gt1 hne; exact absurd (by simpa using hgE) hne
  · rw [if_neg hgE]
    cases hgt : aget m3.groups (groupForApp m3 u app) with
    | none =>
      simp only
      refine ⟨ut0, ut3, hut3, hqt3, hhas3, hw3, fun h => h, ?_⟩
      intro gt1 _ h; rw [hgt] at h; cases h
    | some gt =>
      simp only
      refine ⟨ut0, ut3, ?_, hqt3, ?_, hw3, ?_, ?_⟩
      · show aget (updGroup m3 _ _).users u = some ut3; exact hut3
      · show hasGroupForApp (updGroup m3 _ _) u app = true; exact hhas3
      · intro h; simp only [Bool.and_eq_true] at h; exact h.1
      · intro gt1 _ h
        rw [groupForApp_updGroup, aget_updGroup] at h
        simp only [if_true, hgt, Option.map_some, Option.some.injEq] at h
        refine ⟨gt, by rw [← h], ?_⟩
        intro h2; simp only [Bool.and_eq_true] at h2; exact h2.2

/-- ENFORCEMENT at the manager, applications: when Manager.CanRunApp said yes, after IncreaseTrackedResource every tracker
    on the path of the user's tree and of the resolved group's tree runs at most its maximum number of applications
    (unless the application was already running there). -/
theorem manager_canRun_enforces (m : Mgr) (q : Path) (app u : String) (ugs : List String) (r : Res)
    (hq : q ≠ []) (happ : app ≠ "") (hu : u ≠ "") (hcan : (canRunM m q app u ugs).2 = true) :
    (∃ ut1 ut2, aget (canRunM m q app u ugs).1.users u = some ut1 ∧
      aget (increaseM (canRunM m q app u ugs).1 q app r u ugs).users u = some ut2 ∧ WithinApps ut1.qt ut2.qt q app) ∧
    (∀ gt1, groupForApp (canRunM m q app u ugs).1 u app ≠ "" →
      aget (canRunM m q app u ugs).1.groups (groupForApp (canRunM m q app u ugs).1 u app) = some gt1 →
      ∃ gt2, aget (increaseM (canRunM m q app u ugs).1 q app r u ugs).groups (groupForApp (canRunM m q app u ugs).1 u app) = some gt2 ∧
        WithinApps gt1.qt gt2.qt q app) := by
  obtain ⟨ut0, ut1, hut1, hqt1, hhas, hw1, hc, hgrp⟩ := canRunM_shape m q app u ugs
  obtain ⟨⟨ut2, hut2, hqt2⟩, hg2⟩ := increaseM_shape (canRunM m q app u ugs).1 q app r u ugs hq happ hu hut1 hhas
  constructor
  · refine ⟨ut1, ut2, hut1, hut2, ?_⟩
    rw [hqt2, hqt1, hw1]
    exact canRun_enforces_tree m.userWild true ut0.qt q app r (hc hcan)
  · intro gt1 hne hgt1
    obtain ⟨gt0, hgq, hgc⟩ := hgrp gt1 hne hgt1
    obtain ⟨gt2, hgt2, hgq2⟩ := hg2 gt1 hne hgt1
    refine ⟨gt2, hgt2, ?_⟩
    rw [hgq2, hgq]
    exact canRun_enforces_tree [] false gt0.qt q app r (hgc hcan)

end Yk.Ugm
