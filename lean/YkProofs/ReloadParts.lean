/-
  Several partitions (updateSchedulerConfig walks them in configuration order: dry run, then update or create): what
  holds although a refused later partition does not undo the earlier ones.
-/
import YkProofs.Reload
namespace Yk.Reload
open Yk Yk.Res

/-- one turn of the loop of updateSchedulerConfig -/
def stepPartition (cl : Cluster) (pc : PC) : Cluster × Option CErr :=
  match cl.get pc.name with
  | some p =>
    match pc.fresh with
    | .error e => (cl, some e)
    | .ok _ =>
      match updatePartition p pc with
      | (p', e) => (cl.put pc.name p', e)
  | none =>
    match pc.fresh with
    | .error e => (cl, some e)
    | .ok p => (cl ++ [(pc.name, p)], none)

theorem updateCluster_cons (cl : Cluster) (pc : PC) (rest : List PC) :
    updateCluster cl (pc :: rest) =
      (match stepPartition cl pc with
       | (cl', some e) => (cl', some e)
       | (cl', none) => updateCluster cl' rest) := by
  conv => lhs; unfold updateCluster
  unfold stepPartition
  cases cl.get pc.name with
  | some p =>
    cases pc.fresh with
    | error e => rfl
    | ok p0 =>
      simp only
      cases h : updatePartition p pc with
      | mk p' e' => cases e' <;> rfl
  | none =>
    cases pc.fresh with
    | error e => rfl
    | ok p0 => rfl

theorem updateCluster_append (pre : List PC) : ∀ (cl : Cluster) (rest : List PC),
    updateCluster cl (pre ++ rest) =
      (match updateCluster cl pre with
       | (cl1, some e) => (cl1, some e)
       | (cl1, none) => updateCluster cl1 rest) := by
  induction pre with
  | nil => intro cl rest; simp [updateCluster]
  | cons a r ih =>
    intro cl rest
    rw [List.cons_append, updateCluster_cons, updateCluster_cons]
    cases h : stepPartition cl a with
    | mk cl' e' =>
      cases e' with
      | some e => rfl
      | none => simp only; exact ih cl' rest

/-! ### `get` after `put` / append -/

theorem get_put_other : ∀ (cl : Cluster) (n m : String) (p : Part), ¬ m = n → (cl.put n p).get m = cl.get m := by
  intro cl
  induction cl with
  | nil => intro _ _ _ _; rfl
  | cons e r ih =>
    intro n m p hne
    unfold Cluster.put
    by_cases he : e.1 = n
    · rw [if_pos he]
      unfold Cluster.get
      have h1 : ¬ n = m := fun h => hne h.symm
      have h2 : ¬ e.1 = m := by rw [he]; exact h1
      rw [List.find?_cons_of_neg (by simp [h1]), List.find?_cons_of_neg (by simp [h2])]
    · rw [if_neg he]
      have := ih n m p hne
      unfold Cluster.get at this ⊢
      by_cases hm : e.1 = m
      · rw [List.find?_cons_of_pos (by simp [hm]), List.find?_cons_of_pos (by simp [hm])]
      · rw [List.find?_cons_of_neg (by simp [hm]), List.find?_cons_of_neg (by simp [hm])]
        exact this

theorem get_put_same : ∀ (cl : Cluster) (n : String) (p0 p : Part), cl.get n = some p0 → (cl.put n p).get n = some p := by
  intro cl
  induction cl with
  | nil => intro n p0 p h; simp [Cluster.get] at h
  | cons e r ih =>
    intro n p0 p h
    unfold Cluster.put
    by_cases he : e.1 = n
    · rw [if_pos he]; unfold Cluster.get; rw [List.find?_cons_of_pos (by simp)]; rfl
    · rw [if_neg he]
      unfold Cluster.get at h ⊢
      rw [List.find?_cons_of_neg (by simp [he])] at h ⊢
      exact ih n p0 p h

theorem get_append_other (cl : Cluster) (n m : String) (p : Part) (hne : ¬ m = n) : (cl ++ [(n, p)]).get m = cl.get m := by
  unfold Cluster.get
  rw [List.find?_append]
  have h1 : ¬ n = m := fun h => hne h.symm
  cases List.find? (fun e => decide (e.1 = m)) cl <;> simp [h1]

theorem get_append_new (cl : Cluster) (n : String) (p : Part) (h : cl.get n = none) : (cl ++ [(n, p)]).get n = some p := by
  unfold Cluster.get at h ⊢
  rw [List.find?_append]
  cases hf : List.find? (fun e => decide (e.1 = n)) cl with
  | none => simp
  | some x => rw [hf] at h; simp at h

/-! ### one turn touches one partition, and depends on that partition only -/

theorem step_get_other (cl : Cluster) (pc : PC) (m : String) (hne : ¬ m = pc.name) : (stepPartition cl pc).1.get m = cl.get m := by
  unfold stepPartition
  cases cl.get pc.name with
  | some p =>
    cases pc.fresh with
    | error e => rfl
    | ok p0 => simp only; exact get_put_other cl pc.name m _ hne
  | none =>
    cases pc.fresh with
    | error e => rfl
    | ok p0 => exact get_append_other cl pc.name m p0 hne

theorem step_some (cl : Cluster) (pc : PC) (p : Part) (hg : cl.get pc.name = some p) :
    stepPartition cl pc = (match pc.fresh with
      | .error e => (cl, some e)
      | .ok _ => (cl.put pc.name (updatePartition p pc).1, (updatePartition p pc).2)) := by
  unfold stepPartition
  rw [hg]

theorem step_none (cl : Cluster) (pc : PC) (hg : cl.get pc.name = none) :
    stepPartition cl pc = (match pc.fresh with
      | .error e => (cl, some e)
      | .ok p => (cl ++ [(pc.name, p)], none)) := by
  unfold stepPartition
  rw [hg]

theorem step_depends_on_own (cl cl' : Cluster) (pc : PC) (h : cl.get pc.name = cl'.get pc.name) :
    (stepPartition cl pc).1.get pc.name = (stepPartition cl' pc).1.get pc.name ∧ (stepPartition cl pc).2 = (stepPartition cl' pc).2 := by
  cases hg : cl.get pc.name with
  | some p =>
    have hg' : cl'.get pc.name = some p := by rw [← h]; exact hg
    rw [step_some cl pc p hg, step_some cl' pc p hg']
    cases pc.fresh with
    | error e => exact ⟨by simp only [hg, hg'], rfl⟩
    | ok p0 => exact ⟨by simp only [get_put_same cl pc.name p _ hg, get_put_same cl' pc.name p _ hg'], rfl⟩
  | none =>
    have hg' : cl'.get pc.name = none := by rw [← h]; exact hg
    rw [step_none cl pc hg, step_none cl' pc hg']
    cases pc.fresh with
    | error e => exact ⟨by simp only [hg, hg'], rfl⟩
    | ok p0 => exact ⟨by simp only [get_append_new cl pc.name p0 hg, get_append_new cl' pc.name p0 hg'], rfl⟩

/-- the loop over `conf` leaves every partition it does not name as it was -/
theorem updateCluster_get_other (conf : List PC) : ∀ (cl : Cluster) (m : String), (∀ pc ∈ conf, ¬ m = pc.name) →
    (updateCluster cl conf).1.get m = cl.get m := by
  induction conf with
  | nil => intro cl m _; rfl
  | cons a r ih =>
    intro cl m h
    rw [updateCluster_cons]
    have h1 := step_get_other cl a m (h a (List.mem_cons_self ..))
    cases hs : stepPartition cl a with
    | mk cl' e' =>
      rw [hs] at h1
      cases e' with
      | some e => exact h1
      | none => simp only; rw [ih cl' m (fun pc hpc => h pc (List.mem_cons_of_mem _ hpc))]; exact h1

def namesDistinct : List PC → Prop
  | [] => True
  | a :: r => (∀ pc ∈ r, ¬ pc.name = a.name) ∧ namesDistinct r

/-- **what holds for several partitions (1)**: when the loop gets through a list of partitions, each of them ends exactly as
    the update with that partition alone would leave it -/
theorem updateCluster_each_as_single (conf : List PC) : ∀ (cl cl1 : Cluster), namesDistinct conf → updateCluster cl conf = (cl1, none) →
    ∀ pc ∈ conf, cl1.get pc.name = (updateCluster cl [pc]).1.get pc.name ∧ (updateCluster cl [pc]).2 = none := by
  induction conf with
  | nil => intro _ _ _ _ pc hpc; cases hpc
  | cons a r ih =>
    intro cl cl1 hd h pc hpc
    rw [updateCluster_cons] at h
    cases hs : stepPartition cl a with
    | mk cl' e' =>
      rw [hs] at h
      cases e' with
      | some e => simp at h
      | none =>
        simp only at h
        -- the single-partition update of `cl` with any pc is one turn of the loop
        have single : ∀ (c : Cluster) (x : PC), updateCluster c [x] =
            (match stepPartition c x with | (c', some e) => (c', some e) | (c', none) => (c', none)) := by
          intro c x; rw [updateCluster_cons]; cases stepPartition c x with
          | mk c' e'' => cases e'' <;> rfl
        cases hpc with
        | head =>
          have hrest : (updateCluster cl' r).1.get a.name = cl'.get a.name :=
            updateCluster_get_other r cl' a.name (fun x hx hh => hd.1 x hx hh.symm)
          rw [h] at hrest
          simp only at hrest
          rw [single cl a, hs]
          exact ⟨hrest, rfl⟩
        | tail _ hm =>
          obtain ⟨h1, h2⟩ := ih cl' cl1 hd.2 h pc hm
          have hne : ¬ pc.name = a.name := hd.1 pc hm
          have hown : cl'.get pc.name = cl.get pc.name := by
            have := step_get_other cl a pc.name hne; rw [hs] at this; exact this
          obtain ⟨d1, d2⟩ := step_depends_on_own cl' cl pc hown
          rw [single cl' pc] at h1 h2
          rw [single cl pc]
          cases hs1 : stepPartition cl' pc with
          | mk c1 e1 =>
            cases hs2 : stepPartition cl pc with
            | mk c2 e2 =>
              rw [hs1, hs2] at d1 d2
              simp only at d1 d2
              rw [hs1] at h1 h2
              subst d2
              cases e1 with
              | some e => simp at h2
              | none =>
                simp only at h1 ⊢
                refine ⟨h1.trans d1, ?_⟩
                trivial

/-- **(2)**: when the loop is stopped by a partition, the cluster is exactly what the partitions before it left: the refused
    partition and everything after it are untouched -/
theorem updateCluster_stopped (conf : List PC) : ∀ (cl cl2 : Cluster) (e : CErr), (∀ pc ∈ conf, confWF pc.queues = true) →
    updateCluster cl conf = (cl2, some e) →
    ∃ pre pc rest, conf = pre ++ pc :: rest ∧ updateCluster cl pre = (cl2, none) ∧ (stepPartition cl2 pc).2 = some e := by
  induction conf with
  | nil => intro cl cl2 e _ h; simp [updateCluster] at h
  | cons a r ih =>
    intro cl cl2 e hwf h
    rw [updateCluster_cons] at h
    cases hs : stepPartition cl a with
    | mk cl' e' =>
      rw [hs] at h
      cases e' with
      | some e1 =>
        simp only [Prod.mk.injEq, Option.some.injEq] at h
        -- the refused turn left the cluster as it was
        have hsame : cl' = cl := by
          unfold stepPartition at hs
          cases hg : cl.get a.name with
          | some p =>
            cases hf : a.fresh with
            | error e0 => simp only [hg, hf, Prod.mk.injEq] at hs; exact hs.1.symm
            | ok p0 =>
              simp only [hg, hf] at hs
              cases hu : updatePartition p a with
              | mk p' e'' =>
                rw [hu] at hs
                simp only [Prod.mk.injEq] at hs
                have hp := (updatePartition_after_dryRun p a p0 (hwf a (List.mem_cons_self ..)) hf p' e1 (by rw [hu, hs.2])).1
                rw [← hs.1, hp]; exact put_get_same cl a.name p hg
          | none =>
            cases hf : a.fresh with
            | error e0 => simp only [hg, hf, Prod.mk.injEq] at hs; exact hs.1.symm
            | ok p0 => simp [hg, hf] at hs
        refine ⟨[], a, r, rfl, ?_, ?_⟩
        · rw [← h.1, hsame]; rfl
        · rw [← h.1, hsame, hs, h.2]
      | none =>
        simp only at h
        obtain ⟨pre, pc, rest, hc, hp, hst⟩ := ih cl' cl2 e (fun pc hpc => hwf pc (List.mem_cons_of_mem _ hpc)) h
        refine ⟨a :: pre, pc, rest, by rw [hc]; rfl, ?_, hst⟩
        rw [updateCluster_cons, hs]; exact hp

/-- a refused configuration update, several partitions: nothing changed at all, or the cluster is exactly what the loop over
    the partitions BEFORE the refused one left, and the configuration in force is still the old one -/
theorem configUpdate_rejected_multi (s s' : CState) (ev valid : Bool) (text : String) (conf : List PC) (e : CErr)
    (hwf : ∀ pc ∈ conf, confWF pc.queues = true) (h : configUpdate s ev valid text conf = (s', some e)) :
    s' = s ∨ ∃ pre pc rest, conf = pre ++ pc :: rest ∧ updateCluster s.cluster pre = (s'.cluster, none) ∧
      (stepPartition s'.cluster pc).2 = some e ∧ s'.text = s.text := by
  unfold configUpdate at h
  by_cases hv : valid = true
  · simp only [hv, Bool.not_true, Bool.false_eq_true, if_false] at h
    by_cases hsame : (ev && decide (text = s.text)) = true
    · simp [hsame] at h
    · simp only [hsame, Bool.false_eq_true, if_false] at h
      unfold updateSchedulerConfig at h
      cases hu : updateCluster s.cluster conf with
      | mk cl e' =>
        rw [hu] at h
        cases e' with
        | none => simp at h
        | some e1 =>
          simp only [Prod.mk.injEq, Option.some.injEq] at h
          obtain ⟨pre, pc, rest, hc, hp, hst⟩ := updateCluster_stopped conf s.cluster cl e1 hwf hu
          right
          refine ⟨pre, pc, rest, hc, ?_, ?_, ?_⟩
          · rw [← h.1]; exact hp
          · rw [← h.1, ← h.2]; exact hst
          · rw [← h.1]
  · simp only [hv, Bool.not_false, if_true, Prod.mk.injEq] at h
    exact Or.inl h.1.symm

end Yk.Reload
