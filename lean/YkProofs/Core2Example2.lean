/-
  Non-vacuity of `reachable_linked`: the example histories of YkProofs/Core2Example.lean meet the REDUCED side condition
  (`RunOK2`, evaluated by the checkers of YkProofs/Core2Check2.lean) from the empty partition, which is `Linked`; a third
  history runs a CROSS-NODE replacement — the placeholder is bound on `n1`, the real allocation is parked on `n2` when the
  swap starts (`SwapLinkOK.parked` is exercised by the confirmation), the confirmation empties `n1`.
-/
import YkProofs.Core2Example
import YkProofs.Core2Check2
namespace Yk.Example
open Yk Yk.Res Yk.Core

/-- no applications: nothing to link -/
theorem linked_ex0 : Linked ex0 := fun _ ha => by cases ha

/-! ### the two histories of Core2Example.lean -/

theorem exOps_ok2 : RunOK2 ex0 exOps := runOKb2_sound _ _ (by decide +kernel)

/-- `reachable_linked` applies to the example history -/
theorem example_reachable_linked : Books (run ex0 exOps) ∧ CoreWF (run ex0 exOps) ∧ Linked (run ex0 exOps) :=
  reachable_linked ex0 exOps wf_ex0 books_ex0 linked_ex0 exOps_ok2

theorem exOps2_ok2 : RunOK2 ex0 exOps2 := runOKb2_sound _ _ (by decide +kernel)

theorem example2_reachable_linked : Books (run ex0 exOps2) ∧ CoreWF (run ex0 exOps2) ∧ Linked (run ex0 exOps2) :=
  reachable_linked ex0 exOps2 wf_ex0 books_ex0 linked_ex0 exOps2_ok2

/-! ### a third history: cross-node replacement.  `n1` (cpu 4) is filled by the placeholder, the real allocation (cpu 2)
  is placed on `n2` (cpu 10) -/

def c1 : Op := .nodeCreate "n1" [("cpu", 4)] true
def c2 : Op := .nodeCreate "n2" [("cpu", 10)] true
def c3 : Op := .appAdd (some exApp) []
def c4 : Op := .ask "app" "p1" [("cpu", 4)] true "tg" ""
def c5 : Op := .schedAlloc "app" "p1" "n1"
def c6 : Op := .ask "app" "r1" [("cpu", 2)] false "tg" ""
def c7 : Op := .swapStart "app" "r1" "p1" "n2"
def c8 : Op := .swapConfirm "app" "p1"
def c9 : Op := .release .stopped "app" "r1"

def t1 := c1.apply ex0
def t2 := c2.apply t1
def t3 := c3.apply t2
def t4 := c4.apply t3
def t5 := c5.apply t4
def t6 := c6.apply t5
def t7 := c7.apply t6
def t8 := c8.apply t7
def t9 := c9.apply t8

def exOps3 : List Op := [c1, c2, c3, c4, c5, c6, c7, c8, c9]

theorem exOps3_ok2 : RunOK2 ex0 exOps3 := runOKb2_sound _ _ (by decide +kernel)

theorem example3_reachable_linked : Books (run ex0 exOps3) ∧ CoreWF (run ex0 exOps3) ∧ Linked (run ex0 exOps3) :=
  reachable_linked ex0 exOps3 wf_ex0 books_ex0 linked_ex0 exOps3_ok2

/-- the history also meets the full side conditions (`RunOK`) -/
theorem exOps3_ok : RunOK ex0 exOps3 := runOKb_sound _ _ (by decide +kernel)

theorem run_exOps3 : run ex0 exOps3 = t9 := rfl

/-- the steps are not no-ops: `schedAlloc` and `swapStart` succeed -/
theorem t5_some : (t4.schedAlloc "app" "p1" "n1").isSome = true := by decide +kernel
theorem t7_some : (t6.swapStart "app" "r1" "p1" "n2").isSome = true := by decide +kernel

/-- the placeholder fills `n1` -/
theorem t5_nodes : (t5.nodes.map (·.allocated)) = [[("cpu", 4)], []] ∧
    (t5.nodes.map (·.available)) = [[], [("cpu", 10)]] := by decide +kernel

/-- after the swap is started the real half is parked on `n2` (node-side only), the queues still carry the placeholder -/
theorem t7_nodes : (t7.nodes.map (·.allocated)) = [[("cpu", 4)], [("cpu", 2)]] := by decide +kernel
theorem t7_n2_allocs : (t7.nodes.map (fun n => n.allocs.map (fun x => (x.key, x.app)))) = [[("p1", "app")], [("r1", "app")]] := by
  decide +kernel
theorem t7_queues : (t7.queues.map (·.allocated)) = [[("cpu", 4)], [("cpu", 4)]] ∧
    (t7.queues.map (·.pending)) = [[], []] := by decide +kernel
theorem t7_items : t7.apps.map (fun a => a.items.map (fun i => (i.key, i.node, i.allocated, i.bound))) =
    [[("p1", "n1", true, true), ("r1", "n2", true, false)]] ∧
    t7.apps.map (fun a => a.items.map (·.release)) = [[some "r1", some "p1"]] := by decide +kernel
/-- the side condition of the confirmation is met in the cross-node case because the real half is listed by `n2` -/
theorem t7_parked : (t7.apps.map (fun a => a.items.map (fun i => onNodeAppb t7 a.id i))) = [[true, true]] := by decide +kernel

/-- after the confirmation `n1` is empty, `n2` and the queues carry the (smaller) real allocation -/
theorem t8_nodes : (t8.nodes.map (·.allocated)) = [[], [("cpu", 2)]] := by decide +kernel
theorem t8_queues : (t8.queues.map (·.allocated)) = [[("cpu", 2)], [("cpu", 2)]] := by decide +kernel
theorem t8_items : t8.apps.map (fun a => a.items.map (fun i => (i.key, i.node, i.bound))) = [[("r1", "n2", true)]] := by
  decide +kernel
theorem t8_counters : t8.allocations = 1 ∧ t8.phAllocations = 0 := by decide +kernel
theorem t8_linked : linkedb t8 = true := by decide +kernel

/-- at the end both nodes are empty and all queue totals are empty -/
theorem t9_nodes : (t9.nodes.map (·.allocated)) = [[], []] ∧ (t9.nodes.map (·.allocs.length)) = [0, 0] := by decide +kernel
theorem t9_queues : (t9.queues.map (·.allocated)) = [[], []] ∧ (t9.queues.map (·.pending)) = [[], []] := by decide +kernel

end Yk.Example
