/-
  C15, placement rules: a single fully static rule (`fixed`) that validation accepted does resolve at run time — when the
  spellings agree: rule name and value in lower case, queue names in lower case, the parent flag set on every queue that has
  children, a static path whose first component is root, a value that is not merely prefixed by "root", and not the
  recovery queue.  (Each hypothesis excludes one of the refuted classes
  C15.P1.* of YkProps/C15.lean.)
-/
import YkProofs.ConfMain
namespace Yk.Conf
open Yk Yk.Res

theorem checkStaticPaths_cons {sp : StaticPath} {t : List StaticPath} {queues : List QC}
    (h : checkStaticPaths (sp :: t) queues = .ok ()) :
    hierarchy (splitDots (toLower sp.path)) sp.create sp.dynamic queues none = .ok ∧ checkStaticPaths t queues = .ok () := by
  unfold checkStaticPaths at h
  generalize hierarchy (splitDots (toLower sp.path)) sp.create sp.dynamic queues none = res at h ⊢
  cases res with
  | ok => exact ⟨rfl, h⟩
  | nonExisting => cases h
  | notLeaf => cases h
  | lastLeaf => cases h

/-- every rule of an accepted rule list with a static path inside `root…` passed checkQueueHierarchyForPlacement -/
theorem staticPaths_checked : ∀ (rules : List Rule) (paths : List StaticPath) (queues : List QC),
    longestPaths rules = .ok paths → checkStaticPaths paths queues = .ok () →
    ∀ r ∈ rules, ∀ p dyn, longestStatic r = .ok (p, dyn) → hasPrefix p "root" = true →
      hierarchy (splitDots (toLower p)) ((r.head?.map (·.create)).getD false) dyn queues none = .ok
  | [], _, _, _, _ => by intro r hr; cases hr
  | rule :: t, paths, queues, hl, hc => by
    unfold longestPaths at hl
    simp only [bind_ok] at hl
    obtain ⟨⟨p0, dyn0⟩, h0, rest, hrest, hl⟩ := hl
    intro r hr p dyn hp hpre
    by_cases hpr : hasPrefix p0 "root" = true
    · simp only [hpr, if_true, pure_ok] at hl
      subst hl
      obtain ⟨hh, hc'⟩ := checkStaticPaths_cons hc
      simp only at hh
      cases hr with
      | head =>
        have e := Except.ok.inj (h0.symm.trans hp)
        have e1 : p0 = p := congrArg Prod.fst e
        have e2 : dyn0 = dyn := congrArg Prod.snd e
        rw [← e1, ← e2]
        exact hh
      | tail _ hr => exact staticPaths_checked t rest queues hrest hc' r hr p dyn hp hpre
    · simp only [hpr, Bool.false_eq_true, if_false, pure_ok] at hl
      subst hl
      cases hr with
      | head =>
        have e := Except.ok.inj (h0.symm.trans hp)
        have e1 : p0 = p := congrArg Prod.fst e
        rw [← e1] at hpre
        exact absurd hpre hpr
      | tail _ hr => exact staticPaths_checked t rest queues hrest hc r hr p dyn hp hpre

/-- the static path of a single fixed rule -/
def staticPathOf (d : RuleD) : String := if hasPrefix d.value "root" then d.value else "root" ++ "." ++ d.value

theorem longestStatic_single (d : RuleD) (hn : d.name = "fixed") : longestStatic [d] = .ok (staticPathOf d, false) := by
  unfold longestStatic staticPathOf
  simp only [List.reverse_cons, List.reverse_nil, List.nil_append]
  unfold longestStaticAux
  simp only [Bool.false_eq_true, if_false, hn, bne_self_eq_false]
  by_cases hq : hasPrefix d.value "root" = true
  · simp [hq, longestStaticAux]
  · simp [hq, longestStaticAux]

theorem staticPathOf_prefix (d : RuleD) : hasPrefix (staticPathOf d) "root" = true := by
  unfold staticPathOf
  by_cases hq : hasPrefix d.value "root" = true
  · simp [hq]
  · simp only [hq, Bool.false_eq_true, if_false]
    simp [hasPrefix, String.toList_append]

mutual
/-- spelling agrees between configuration and run time: queue names in lower case, parent flag on every queue with children -/
def CanonTree : QC → Prop
  | .mk d qs => (qs ≠ [] → d.parent = true) ∧ CanonList qs
def CanonList : List QC → Prop
  | [] => True
  | c :: t => toLower c.d.name = c.d.name ∧ CanonTree c ∧ CanonList t
end

theorem canonList_mem : ∀ {qs : List QC}, CanonList qs → ∀ c ∈ qs, toLower c.d.name = c.d.name ∧ CanonTree c
  | [], _, c, hc => by cases hc
  | q :: t, h, c, hc => by
    unfold CanonList at h
    cases hc with
    | head => exact ⟨h.1, h.2.1⟩
    | tail _ hc => exact canonList_mem h.2.2 c hc

theorem find?_congr {α : Type} {p q : α → Bool} : ∀ {l : List α}, (∀ x ∈ l, p x = q x) → l.find? p = l.find? q
  | [], _ => rfl
  | a :: t, h => by
    simp only [List.find?_cons, h a List.mem_cons_self]
    rw [find?_congr (fun x hx => h x (List.mem_cons_of_mem _ hx))]

/-- below a queue with canonical spelling, what checkQueueHierarchyForPlacement accepts for a static path is what the
    run-time lookup finds: the path ends in a leaf, or leaves the configured tree below a parent with create set -/
theorem hierarchy_descend : ∀ (path : List String) (create : Bool) (q : QC), CanonTree q → path ≠ [] →
    hierarchy path create false q.qs (some q.d) = .ok →
    ((descend path q).2 = [] → isLeafLoaded (descend path q).1 = true) ∧
    ((descend path q).2 ≠ [] → isLeafLoaded (descend path q).1 = false ∧ create = true)
  | [], _, _, _, hne, _ => absurd rfl hne
  | n :: rest, create, .mk d qs, hc, _, hh => by
    unfold CanonTree at hc
    obtain ⟨hflag, hlist⟩ := hc
    simp only [QC.qs, QC.d] at hh
    unfold hierarchy at hh
    by_cases hqs : qs.isEmpty = true
    · -- no more queues in the configuration
      have hq : qs = [] := List.isEmpty_iff.mp hqs
      subst hq
      simp only [List.isEmpty_nil, if_true] at hh
      have hp : d.parent = true ∧ create = true := by
        cases hdp : d.parent <;> cases hcr : create <;> simp [hdp, hcr] at hh ⊢
      have hd : descend (n :: rest) (.mk d []) = (.mk d [], n :: rest) := by simp [descend, QC.qs]
      rw [hd]
      exact ⟨(by intro h; cases h), fun _ => ⟨by simp [isLeafLoaded, QC.d, hp.1], hp.2⟩⟩
    · simp only [hqs, Bool.false_eq_true, if_false] at hh
      have hfind : qs.find? (fun c => toLower c.d.name == n) = qs.find? (fun c => c.d.name == n) :=
        find?_congr (fun c hcm => by rw [(canonList_mem hlist c hcm).1])
      cases hf : qs.find? (fun c => c.d.name == n) with
      | none =>
        rw [hf] at hh
        simp only at hh
        have hcr : create = true := by cases hcr : create <;> simp [hcr] at hh ⊢
        have hd : descend (n :: rest) (.mk d qs) = (.mk d qs, n :: rest) := by
          simp only [descend, QC.qs, hfind, hf]
        rw [hd]
        refine ⟨(by intro h; cases h), fun _ => ⟨?_, hcr⟩⟩
        have : qs.isEmpty = false := by simpa using hqs
        simp [isLeafLoaded, QC.qs, this]
      | some c =>
        rw [hf] at hh
        simp only at hh
        have hcm : c ∈ qs := List.mem_of_find?_eq_some hf
        obtain ⟨_, hcc⟩ := canonList_mem hlist c hcm
        have hd : descend (n :: rest) (.mk d qs) = descend rest c := by
          simp only [descend, QC.qs, hfind, hf]
        rw [hd]
        by_cases hr : rest.isEmpty = true
        · have : rest = [] := List.isEmpty_iff.mp hr
          subst this
          simp only [List.isEmpty_nil, if_true, Bool.false_eq_true, if_false] at hh
          have hcp : c.d.parent = false := by cases hcp : c.d.parent <;> simp [hcp] at hh ⊢
          have hd0 : descend [] c = (c, []) := by cases c; simp [descend]
          rw [hd0]
          refine ⟨fun _ => ?_, by intro h; exact absurd rfl h⟩
          have hce : c.qs = [] := by
            cases c with
            | mk cd cqs =>
              unfold CanonTree at hcc
              cases cqs with
              | nil => rfl
              | cons x t => have := hcc.1 (by simp); simp [QC.d] at hcp; rw [hcp] at this; cases this
          simp [isLeafLoaded, hcp, hce]
        · simp only [hr, Bool.false_eq_true, if_false] at hh
          have hne : rest ≠ [] := by intro e; rw [e] at hr; simp at hr
          exact hierarchy_descend rest create c hcc hne hh

theorem root_dot : "root" ++ "." = "root." := by decide

/-- a single fixed rule, spelled canonically, that validation accepted returns nothing or a queue name that resolves -/
theorem single_fixed_rule_resolves {p p' : Part} {root : QC} (h : Accepted p p' root) (d : RuleD) (hr : [d] ∈ p.rules)
    (hn : d.name = "fixed") (hv : toLower d.value = d.value) (hp : toLower (staticPathOf d) = staticPathOf d)
    (hroot : root.d.name = "root") (hc : CanonTree root)
    (hin : ∃ rest, splitDots (staticPathOf d) = "root" :: rest)
    (hq : qualifiedRT d.value = hasPrefix d.value "root") (hrec : staticPathOf d ≠ "root.@recovery@") :
    okStaticRule root [d] = true := by
  -- what validation checked for this rule
  have hrules := h.rules
  unfold checkPlacementRules at hrules
  have hne : p.rules.isEmpty = false := by
    cases hpr : p.rules with
    | nil => rw [hpr] at hr; cases hr
    | cons _ _ => rfl
  simp only [hne, Bool.false_eq_true, if_false, bind_ok] at hrules
  obtain ⟨_, _, paths, hpaths, hchk⟩ := hrules
  have hh := staticPaths_checked p.rules paths [root] hpaths hchk [d] hr (staticPathOf d) false
    (longestStatic_single d hn) (staticPathOf_prefix d)
  rw [hp] at hh
  obtain ⟨rest, hparts⟩ := hin
  rw [hparts] at hh
  simp only [List.head?_cons, Option.map_some, Option.getD_some] at hh
  -- the top level: the root queue is found and is a parent
  obtain ⟨r0, h0, h1⟩ := h.struct
  have hpar : root.d.parent = true := by
    rw [(checkLimitsStructure_ok h1).2.1]; exact (checkQueuesStructure_ok h0).2.1
  unfold hierarchy at hh
  have hfr : [root].find? (fun q => q.d.name == "root") = some root := by simp [hroot]
  simp only [List.isEmpty_cons, Bool.false_eq_true, if_false, hfr] at hh
  have hrest : rest ≠ [] := by
    intro e; subst e
    simp [hpar] at hh
  have hre : rest.isEmpty = false := by cases rest with | nil => exact absurd rfl hrest | cons _ _ => rfl
  simp only [hre, Bool.false_eq_true, if_false] at hh
  have hd := hierarchy_descend rest d.create root hc hrest hh
  -- what the rule returns at run time
  have hname : (if qualifiedRT (toLower d.value) then some (toLower d.value) else some ("root." ++ toLower d.value))
      = some (staticPathOf d) := by
    rw [hv, hq]; unfold staticPathOf
    by_cases hq' : hasPrefix d.value "root" = true
    · simp [hq']
    · simp only [hq', Bool.false_eq_true, if_false, ← root_dot]
  have hres : resolves root (staticPathOf d) = true := by
    unfold resolves
    have hne : (staticPathOf d != "root.@recovery@") = true := by simpa using hrec
    simp only [hne, hparts, List.head?_cons, beq_self_eq_true, List.drop_succ_cons, List.drop_zero, Bool.true_and]
    cases hm : (descend rest root).2 with
    | nil => simp [hm, hd.1 hm]
    | cons x t =>
      have := (hd.2 (by rw [hm]; simp)).1
      simp [hm, this]
  unfold okStaticRule
  simp only [Bool.or_eq_true]
  refine Or.inr ?_
  simp only [List.reverse_cons, List.reverse_nil, List.nil_append, fixedName, hname]
  split
  · rfl
  · rename_i n hn'
    split at hn'
    · cases hn'
    · injection hn' with e; rw [← e]; exact hres

end Yk.Conf
