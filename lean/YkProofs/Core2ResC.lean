/-
  C09 on the stepped Core model: the reservation invariant `ResInv` (Core2Res.lean) is preserved by `releaseApp`,
  `appRemove`, `phTimeout`, `stateTimeout`, and — at the end of a node removal — by `leaveApp` / `sweepTerminated`.
  Two tools: `Keeps.res` (a transport lemma: the reservation views of the new state are the old ones, the applications
  that hold reservations keep them together with their items) and `res_dropRes` (all reservations of one application are
  dropped from the three views).  Helper lemmas live in `Yk.ResC`, the results about the operations in `Yk`.
-/
import YkProofs.Core2Res
namespace Yk
open Res Core

namespace ResC

/-! ### lists -/

theorem lookup_of_mem {β : Type} : ∀ (l : List (String × β)) (k : String) (v : β),
    (l.map (·.1)).Nodup → (k, v) ∈ l → l.lookup k = some v := by
  intro l
  induction l with
  | nil => intro k v _ h; cases h
  | cons p t ih =>
    intro k v hnd hm
    obtain ⟨k', v'⟩ := p
    rw [List.map_cons, List.nodup_cons] at hnd
    rw [List.lookup_cons]
    rcases List.mem_cons.mp hm with e | hmt
    · have e1 : k = k' := congrArg Prod.fst e
      have e2 : v = v' := congrArg Prod.snd e
      subst e1; subst e2
      simp
    · have hne : k ≠ k' := by
        intro e
        subst e
        exact hnd.1 (List.mem_map.mpr ⟨(k, v), hmt, rfl⟩)
      have : (k == k') = false := by simpa using hne
      rw [this]
      exact ih k v hnd.2 hmt

theorem lookup_filter_ne {β : Type} (k k' : String) (h : k ≠ k') : ∀ (l : List (String × β)),
    (l.filter (fun e => e.1 != k')).lookup k = l.lookup k := by
  intro l
  induction l with
  | nil => rfl
  | cons p t ih =>
    obtain ⟨x, v⟩ := p
    rw [List.filter_cons]
    by_cases hx : x = k'
    · subst hx
      have h1 : (k == x) = false := by simpa using h
      simp only [bne_self_eq_false, Bool.false_eq_true, if_false, List.lookup_cons, h1]
      exact ih
    · have h1 : (x != k') = true := by simpa using hx
      simp only [h1, if_true, List.lookup_cons]
      rw [ih]

theorem lookup_filter_self {β : Type} (k : String) : ∀ (l : List (String × β)),
    (l.filter (fun e => e.1 != k)).lookup k = none := by
  intro l
  induction l with
  | nil => rfl
  | cons p t ih =>
    obtain ⟨x, v⟩ := p
    rw [List.filter_cons]
    by_cases hx : x = k
    · subst hx
      simp only [bne_self_eq_false, Bool.false_eq_true, if_false]
      exact ih
    · have h1 : (x != k) = true := by simpa using hx
      have h2 : (k == x) = false := by simpa using (fun e : k = x => hx e.symm)
      simp only [h1, if_true, List.lookup_cons, h2]
      exact ih

/-- two lists with the same signatures: `find?` with a predicate that only reads the signature -/
theorem find?_sig {α β : Type} (sig : α → β) (p : α → Bool) (q : β → Bool) (hp : ∀ x, p x = q (sig x)) :
    ∀ (l1 l2 : List α), l1.map sig = l2.map sig → ∀ n, l1.find? p = some n →
      ∃ m, l2.find? p = some m ∧ sig m = sig n := by
  intro l1
  induction l1 with
  | nil => intro l2 _ n h; cases h
  | cons x t ih =>
    intro l2 hm n hf
    cases l2 with
    | nil => cases hm
    | cons y t' =>
      rw [List.map_cons, List.map_cons, List.cons.injEq] at hm
      rw [List.find?_cons] at hf ⊢
      have hxy : p y = p x := by rw [hp, hp, hm.1]
      cases hpx : p x with
      | true =>
        rw [hpx] at hf hxy
        rw [hxy]
        simp only at hf ⊢
        cases hf
        exact ⟨y, rfl, hm.1.symm⟩
      | false =>
        rw [hpx] at hf hxy
        rw [hxy]
        simp only at hf ⊢
        exact ih t' hm.2 n hf

theorem mem_sig {α β : Type} (sig : α → β) {l1 l2 : List α} (h : l1.map sig = l2.map sig) {x : α} (hx : x ∈ l1) :
    ∃ y ∈ l2, sig y = sig x := by
  have : sig x ∈ l2.map sig := h ▸ List.mem_map.mpr ⟨x, hx, rfl⟩
  obtain ⟨y, hy, e⟩ := List.mem_map.mp this
  exact ⟨y, hy, e⟩

/-- the live records of a mapped list hold at most as many reservations -/
theorem total_map_le (f : CApp → CApp) : ∀ (l : List CApp),
    (∀ b ∈ l, (f b).live = true → b.live = true ∧ (f b).reservations.length ≤ b.reservations.length) →
    (((l.map f).filter (·.live)).map (·.reservations.length)).sum ≤ ((l.filter (·.live)).map (·.reservations.length)).sum := by
  intro l
  induction l with
  | nil => intro _; exact Nat.le_refl _
  | cons b t ih =>
    intro h
    have iht := ih (fun x hx => h x (List.mem_cons_of_mem _ hx))
    have hb := h b List.mem_cons_self
    rw [List.map_cons, List.filter_cons, List.filter_cons]
    cases hfl : (f b).live with
    | false =>
      simp only [Bool.false_eq_true, if_false]
      split
      · rw [List.map_cons, List.sum_cons]; omega
      · exact iht
    | true =>
      obtain ⟨h1, h2⟩ := hb hfl
      simp only [h1, if_true, List.map_cons, List.sum_cons]
      omega

theorem total_filter_le (p : CApp → Bool) : ∀ (l : List CApp),
    (((l.filter p).filter (·.live)).map (·.reservations.length)).sum ≤ ((l.filter (·.live)).map (·.reservations.length)).sum := by
  intro l
  induction l with
  | nil => exact Nat.le_refl _
  | cons b t ih =>
    rw [List.filter_cons]
    cases hp : p b with
    | true =>
      simp only [if_true]
      rw [List.filter_cons, List.filter_cons]
      split
      · simp only [List.map_cons, List.sum_cons]; omega
      · exact ih
    | false =>
      simp only [Bool.false_eq_true, if_false]
      rw [List.filter_cons]
      split
      · simp only [List.map_cons, List.sum_cons]; omega
      · exact ih

/-! ### the reservation views of the nodes and queues -/

/-- what `ResInv` reads of a node -/
def nsig (n : CNode) : String × List String := (n.id, n.reservations)

/-- what `ResInv` reads of a queue -/
def qsig (q : CQueue) : String × List (String × Nat) := (q.path, q.reserved)

theorem nsig_updNs (nodes : List CNode) (id : String) (fn : CNode → CNode) (h : ∀ n, nsig (fn n) = nsig n) :
    (updNs nodes id fn).map nsig = nodes.map nsig := by
  unfold updNs
  rw [List.map_map]
  apply List.map_congr_left
  intro n _
  simp only [Function.comp]
  split
  · exact h n
  · rfl

theorem nsig_rmNs (l : List CItem) : ∀ nodes : List CNode, (rmNs nodes l).map nsig = nodes.map nsig := by
  induction l with
  | nil => intro _; rfl
  | cons i t ih =>
    intro nodes
    rw [rmNs_cons, ih, nsig_updNs]
    intro n; rfl

theorem qsig_updQs (queues : List CQueue) (chain : List String) (fq : CQueue → CQueue) (h : ∀ q, qsig (fq q) = qsig q) :
    (updQs queues chain fq).map qsig = queues.map qsig := by
  unfold updQs
  rw [List.map_map]
  apply List.map_congr_left
  intro q _
  simp only [Function.comp]
  split
  · exact h q
  · rfl

theorem findQueue_none_iff (s : Core) (p : String) : s.findQueue p = none ↔ ∀ q ∈ s.queues, q.path ≠ p := by
  unfold findQueue
  rw [List.find?_eq_none]
  constructor
  · intro h q hq; simpa using h q hq
  · intro h q hq; simpa using h q hq

theorem findQueue_some_mem {s : Core} {p : String} {q : CQueue} (h : s.findQueue p = some q) : q ∈ s.queues ∧ q.path = p := by
  unfold findQueue at h
  exact ⟨List.mem_of_find?_eq_some h, by simpa using List.find?_some h⟩

/-- the clause `queueCount` of `ResInv`, without `findQueue` -/
def QC (s : Core) (a : CApp) : Prop :=
  ((∀ q ∈ s.queues, q.path ≠ a.queue) → a.reservations = []) ∧
  (∀ q ∈ s.queues, q.path = a.queue → (q.reserved.lookup a.id).getD 0 = a.reservations.length)

theorem queueCount_iff (s : Core) (a : CApp) :
    (match s.findQueue a.queue with
      | none => a.reservations = []
      | some _ => ∀ q ∈ s.queues, q.path = a.queue → (q.reserved.lookup a.id).getD 0 = a.reservations.length) ↔ QC s a := by
  unfold QC
  cases hf : s.findQueue a.queue with
  | none =>
    have hno := (findQueue_none_iff s a.queue).mp hf
    constructor
    · intro h; exact ⟨fun _ => h, fun q hq hp => absurd hp (hno q hq)⟩
    · intro h; exact h.1 hno
  | some q0 =>
    obtain ⟨hm, hp⟩ := findQueue_some_mem hf
    constructor
    · intro h; exact ⟨fun hno => absurd hp (hno q0 hm), h⟩
    · intro h; exact h.2

/-! ### the transport lemma -/

/-- the states in which an application holds no reservation (`ResInv.quiet`) -/
def quietSt (st : String) : Prop := st = "Failing" ∨ st = "Completing" ∨ terminated st = true

/-- the record `b'` holds the reservations of `b`, and the items they are for -/
structure AppKeep (b b' : CApp) : Prop where
  id : b'.id = b.id
  queue : b'.queue = b.queue
  res : b'.reservations = b.reservations
  items : ∀ r ∈ b.reservations, ∀ i ∈ b.items, i.key = r.1 →
    ∃ i' ∈ b'.items, i'.key = i.key ∧ i'.reqNode = i.reqNode ∧ i'.outstanding = i.outstanding

theorem AppKeep.refl (b : CApp) : AppKeep b b := ⟨rfl, rfl, rfl, fun _ _ i hi _ => ⟨i, hi, rfl, rfl, rfl⟩⟩

/-- an application without reservations: only id and queue matter -/
theorem AppKeep.of_nil {b b' : CApp} (h1 : b'.id = b.id) (h2 : b'.queue = b.queue) (h3 : b.reservations = [])
    (h4 : b'.reservations = []) : AppKeep b b' :=
  ⟨h1, h2, h4.trans h3.symm, fun r hr => by rw [h3] at hr; cases hr⟩

/-- The reservation views of `t` are those of `s`: same node and queue views, every application of `s` that holds
    reservations is there with them, every live application of `t` comes from one of `s`. -/
structure Keeps (s t : Core) : Prop where
  nodes : t.nodes.map nsig = s.nodes.map nsig
  queues : t.queues.map qsig = s.queues.map qsig
  fwd : ∀ b ∈ s.apps, b.live = true → b.reservations ≠ [] → ∃ b' ∈ t.apps, b'.live = true ∧ AppKeep b b'
  bwd : ∀ b' ∈ t.apps, b'.live = true →
    ∃ b ∈ s.apps, b.live = true ∧ AppKeep b b' ∧ (quietSt b'.state → b.reservations = [])
  counter : resvTotal t ≤ t.reservations

theorem Keeps.res {s t : Core} (k : Keeps s t) (h : ResInv s) : ResInv t := by
  have hN : ∀ m ∈ t.nodes, ∃ n ∈ s.nodes, n.id = m.id ∧ n.reservations = m.reservations := by
    intro m hm
    obtain ⟨n, hn, e⟩ := mem_sig nsig k.nodes hm
    unfold nsig at e
    rw [Prod.mk.injEq] at e
    exact ⟨n, hn, e.1, e.2⟩
  have hQ : ∀ q' ∈ t.queues, ∃ q ∈ s.queues, q.path = q'.path ∧ q.reserved = q'.reserved := by
    intro q' hq'
    obtain ⟨q, hq, e⟩ := mem_sig qsig k.queues hq'
    unfold qsig at e
    rw [Prod.mk.injEq] at e
    exact ⟨q, hq, e.1, e.2⟩
  have hQ' : ∀ q ∈ s.queues, ∃ q' ∈ t.queues, q'.path = q.path ∧ q'.reserved = q.reserved := by
    intro q hq
    obtain ⟨q', hq', e⟩ := mem_sig qsig k.queues.symm hq
    unfold qsig at e
    rw [Prod.mk.injEq] at e
    exact ⟨q', hq', e.1, e.2⟩
  have hF : ∀ id n, s.findNode id = some n → ∃ m, t.findNode id = some m ∧ m.id = n.id ∧ m.reservations = n.reservations := by
    intro id n hf
    obtain ⟨m, hm, e⟩ := find?_sig nsig (fun n => n.id == id) (fun p => p.1 == id) (fun _ => rfl) s.nodes t.nodes k.nodes.symm n hf
    unfold nsig at e
    rw [Prod.mk.injEq] at e
    exact ⟨m, hm, e.1, e.2⟩
  -- an application of `s` named by a queue entry with a positive count holds reservations
  have hpos : ∀ q ∈ s.queues, ∀ r ∈ q.reserved, ∀ b ∈ s.apps, b.live = true → b.id = r.1 → b.queue = q.path →
      b.reservations = [] → r.2 = 0 := by
    intro q hq r hr b hb hbl hid hqp hnil
    have hc := ((queueCount_iff s b).mp (h.queueCount b hb hbl)).2 q hq hqp.symm
    have hl : q.reserved.lookup b.id = some r.2 := lookup_of_mem q.reserved b.id r.2 (h.queueKeys q hq) (by rw [hid]; exact hr)
    rw [hl, hnil] at hc
    exact hc
  refine ⟨?_, ?_, ?_, ?_, ?_, ?_, ?_, ?_, ?_, k.counter, ?_, ?_⟩
  · -- appNode
    intro b' hb' hbl' r hr
    obtain ⟨b, hb, hbl, hk, _⟩ := k.bwd b' hb' hbl'
    rw [hk.res] at hr
    obtain ⟨n, hn, hrn⟩ := h.appNode b hb hbl r hr
    obtain ⟨m, hm, _, e⟩ := hF r.2 n hn
    exact ⟨m, hm, by rw [e]; exact hrn⟩
  · -- outstanding
    intro b' hb' hbl' r hr
    obtain ⟨b, hb, hbl, hk, _⟩ := k.bwd b' hb' hbl'
    rw [hk.res] at hr
    obtain ⟨i, hi, hik, hio⟩ := h.outstanding b hb hbl r hr
    obtain ⟨i', hi', e1, _, e3⟩ := hk.items r hr i hi hik
    exact ⟨i', hi', e1.trans hik, e3.trans hio⟩
  · -- onePerAsk
    intro b' hb' hbl'
    obtain ⟨b, hb, hbl, hk, _⟩ := k.bwd b' hb' hbl'
    rw [hk.res]; exact h.onePerAsk b hb hbl
  · -- nodeApp
    intro m hm key hkey
    obtain ⟨n, hn, e1, e2⟩ := hN m hm
    rw [← e2] at hkey
    obtain ⟨b, hb, hbl, hbr⟩ := h.nodeApp n hn key hkey
    obtain ⟨b', hb', hbl', hk⟩ := k.fwd b hb hbl (fun e => by rw [e] at hbr; cases hbr)
    exact ⟨b', hb', hbl', by rw [hk.res, ← e1]; exact hbr⟩
  · -- nodeKeys
    intro m hm
    obtain ⟨n, hn, _, e2⟩ := hN m hm
    rw [← e2]; exact h.nodeKeys n hn
  · -- owner
    intro a' ha' b' hb' hal' hbl' r hra hrb
    obtain ⟨a, ha, hal, hka, _⟩ := k.bwd a' ha' hal'
    obtain ⟨b, hb, hbl, hkb, _⟩ := k.bwd b' hb' hbl'
    rw [hka.res] at hra
    rw [hkb.res] at hrb
    rw [hka.id, hkb.id]
    exact h.owner a ha b hb hal hbl r hra hrb
  · -- queueCount
    intro b' hb' hbl'
    obtain ⟨b, hb, hbl, hk, _⟩ := k.bwd b' hb' hbl'
    obtain ⟨c1, c2⟩ := (queueCount_iff s b).mp (h.queueCount b hb hbl)
    apply (queueCount_iff t b').mpr
    constructor
    · intro hno
      rw [hk.res]
      apply c1
      intro q hq hp
      obtain ⟨q', hq', e1, _⟩ := hQ' q hq
      exact hno q' hq' (by rw [e1, hp, hk.queue])
    · intro q' hq' hp
      obtain ⟨q, hq, e1, e2⟩ := hQ q' hq'
      rw [← e2, hk.id, hk.res]
      exact c2 q hq (by rw [e1, hp, hk.queue])
  · -- queueKeys
    intro q' hq'
    obtain ⟨q, hq, _, e2⟩ := hQ q' hq'
    rw [← e2]; exact h.queueKeys q hq
  · -- queueApp
    intro q' hq' r hr
    obtain ⟨q, hq, e1, e2⟩ := hQ q' hq'
    rw [← e2] at hr
    rcases h.queueApp q hq r hr with h0 | ⟨b, hb, hbl, hid, hqp⟩
    · exact Or.inl h0
    · by_cases hnil : b.reservations = []
      · exact Or.inl (hpos q hq r hr b hb hbl hid hqp hnil)
      · obtain ⟨b', hb', hbl', hk⟩ := k.fwd b hb hbl hnil
        exact Or.inr ⟨b', hb', hbl', by rw [hk.id]; exact hid, by rw [hk.queue, hqp, e1]⟩
  · -- nodeExcl
    intro m hm
    obtain ⟨n, hn, e1, e2⟩ := hN m hm
    rcases h.nodeExcl n hn with hle | hall
    · exact Or.inl (by rw [← e2]; exact hle)
    · right
      intro key hkey
      rw [← e2] at hkey
      obtain ⟨b, hb, hbl, hbr, i, hi, hik, hin⟩ := hall key hkey
      obtain ⟨b', hb', hbl', hk⟩ := k.fwd b hb hbl (fun e => by rw [e] at hbr; cases hbr)
      obtain ⟨i', hi', f1, f2, _⟩ := hk.items (key, n.id) hbr i hi hik
      exact ⟨b', hb', hbl', by rw [hk.res, ← e1]; exact hbr, i', hi', f1.trans hik, by rw [f2, hin, e1]⟩
  · -- quiet
    intro b' hb' hbl' hst
    obtain ⟨b, _, _, hk, hq⟩ := k.bwd b' hb' hbl'
    rw [hk.res]; exact hq hst

/-- the live application `a` is replaced by `f a`, which keeps its reservations and the items they are for; the node
    and queue views and the counter are unchanged -/
theorem keeps_upd {s t : Core} {app : String} {f : CApp → CApp} {a : CApp}
    (hu : s.apps.Pairwise (fun a b => a.live = true → b.live = true → a.id ≠ b.id))
    (ham : a ∈ s.apps) (hl : a.live = true) (hid : a.id = app)
    (hta : t.apps = updApps s.apps app f)
    (hn : t.nodes.map nsig = s.nodes.map nsig) (hq : t.queues.map qsig = s.queues.map qsig)
    (hc : t.reservations = s.reservations)
    (hk : AppKeep a (f a))
    (hquiet : ((f a).live = false ∨ quietSt (f a).state) → a.reservations = [])
    (h : ResInv s) : Keeps s t := by
  have hda : (a.live && a.id == app) = true := by simp [hl, hid]
  refine ⟨hn, hq, ?_, ?_, ?_⟩
  · intro b hb hbl hne
    by_cases hd : (b.live && b.id == app) = true
    · have e : b = a := (appIds_atMostOne app hu).eq hb ham hd hda
      rw [e] at hne ⊢
      refine ⟨f a, ?_, ?_, hk⟩
      · rw [hta]; exact List.mem_map.mpr ⟨a, ham, by rw [if_pos hda]⟩
      · cases hfl : (f a).live with
        | true => rfl
        | false => exact absurd (hquiet (Or.inl hfl)) hne
    · refine ⟨b, ?_, hbl, AppKeep.refl b⟩
      rw [hta]; exact List.mem_map.mpr ⟨b, hb, by rw [if_neg hd]⟩
  · intro b' hb' hbl'
    rw [hta] at hb'
    rcases mem_updApps hu ham hl hid hb' with rfl | ⟨hbs, _⟩
    · exact ⟨a, ham, hl, hk, fun hst => hquiet (Or.inr hst)⟩
    · exact ⟨b', hbs, hbl', AppKeep.refl b', fun hst => h.quiet b' hbs hbl' hst⟩
  · rw [hc]
    refine Nat.le_trans ?_ h.counter
    unfold resvTotal liveApps
    rw [hta]
    apply total_map_le
    intro b hb hfl
    by_cases hd : (b.live && b.id == app) = true
    · have e : b = a := (appIds_atMostOne app hu).eq hb ham hd hda
      rw [e] at hfl ⊢
      rw [if_pos hda] at hfl ⊢
      exact ⟨hl, by rw [hk.res]; exact Nat.le_refl _⟩
    · rw [if_neg hd] at hfl ⊢
      exact ⟨hfl, Nat.le_refl _⟩

/-- … for an application that holds no reservation, before or after -/
theorem keeps_upd_nil {s t : Core} {app : String} {f : CApp → CApp} {a : CApp}
    (hu : s.apps.Pairwise (fun a b => a.live = true → b.live = true → a.id ≠ b.id))
    (ham : a ∈ s.apps) (hl : a.live = true) (hid : a.id = app)
    (hta : t.apps = updApps s.apps app f)
    (hn : t.nodes.map nsig = s.nodes.map nsig) (hq : t.queues.map qsig = s.queues.map qsig)
    (hc : t.reservations = s.reservations)
    (h1 : (f a).id = a.id) (h2 : (f a).queue = a.queue) (h3 : a.reservations = []) (h4 : (f a).reservations = [])
    (h : ResInv s) : Keeps s t :=
  keeps_upd hu ham hl hid hta hn hq hc (AppKeep.of_nil h1 h2 h3 h4) (fun _ => h3) h

/-! ### all reservations of one application are dropped -/

/-- the node after `unreserveApp` -/
def unresN (a : CApp) (n : CNode) : CNode :=
  { n with reservations := n.reservations.filter (fun k => !(a.reservations.contains (k, n.id))) }

/-- the queue after `unreserveApp` -/
def unresQ (a : CApp) (q : CQueue) : CQueue :=
  if q.path == a.queue then { q with reserved := q.reserved.filter (·.1 != a.id) } else q

theorem unreserveApp_nil (s : Core) (a : CApp) (c : Bool) (h : a.reservations = []) : unreserveApp s a c = s := by
  unfold unreserveApp; simp [h]

theorem unreserveApp_lists (s : Core) (a : CApp) (h : a.reservations.isEmpty = false) :
    (unreserveApp s a false).nodes = s.nodes.map (unresN a) ∧ (unreserveApp s a false).queues = s.queues.map (unresQ a) ∧
    (unreserveApp s a false).reservations = s.reservations ∧ (unreserveApp s a false).apps = s.apps := by
  unfold unreserveApp
  rw [h]
  exact ⟨rfl, rfl, rfl, rfl⟩

theorem unreserveApp_counter (s : Core) (a : CApp) : (unreserveApp s a false).reservations = s.reservations := by
  unfold unreserveApp; split <;> rfl

theorem mem_unres {A : List (String × String)} {l : List String} {id k : String} :
    k ∈ l.filter (fun k => !(A.contains (k, id))) ↔ k ∈ l ∧ (k, id) ∉ A := by
  rw [List.mem_filter]; simp

theorem unresQ_path (a : CApp) (q : CQueue) : (unresQ a q).path = q.path := by
  unfold unresQ; split <;> rfl

theorem unresQ_mem {a : CApp} {q : CQueue} {r : String × Nat} (h : r ∈ (unresQ a q).reserved) : r ∈ q.reserved := by
  unfold unresQ at h
  split at h
  · exact (List.mem_filter.mp h).1
  · exact h

theorem unresQ_lookup (a : CApp) (q : CQueue) (k : String) (h : k ≠ a.id) :
    (unresQ a q).reserved.lookup k = q.reserved.lookup k := by
  unfold unresQ
  split
  · exact lookup_filter_ne k a.id h q.reserved
  · rfl

theorem unresQ_keys (a : CApp) (q : CQueue) (h : (q.reserved.map (·.1)).Nodup) : ((unresQ a q).reserved.map (·.1)).Nodup := by
  unfold unresQ
  split
  · exact List.Nodup.sublist (List.Sublist.map _ List.filter_sublist) h
  · exact h

/-- the state in which the live application `a` holds no reservation any more (`unreserveApp` on the nodes and queues) -/
def dropRes (s : Core) (a : CApp) : Core :=
  { unreserveApp s a false with apps := updApps s.apps a.id (fun x => { x with reservations := [] }) }

theorem res_dropRes {s : Core} {a : CApp}
    (hu : s.apps.Pairwise (fun a b => a.live = true → b.live = true → a.id ≠ b.id))
    (ham : a ∈ s.apps) (hl : a.live = true) (h : ResInv s) : ResInv (dropRes s a) := by
  cases he : a.reservations.isEmpty with
  | true =>
    have hnil : a.reservations = [] := List.isEmpty_iff.mp he
    have e : unreserveApp s a false = s := unreserveApp_nil s a false hnil
    refine (keeps_upd_nil (t := dropRes s a) (f := fun x => { x with reservations := [] }) hu ham hl rfl rfl ?_ ?_ ?_
      rfl rfl hnil rfl h).res h
    · show (unreserveApp s a false).nodes.map nsig = _; rw [e]
    · show (unreserveApp s a false).queues.map qsig = _; rw [e]
    · show (unreserveApp s a false).reservations = _; rw [e]
  | false =>
    obtain ⟨en0, eq0, ec0, _⟩ := unreserveApp_lists s a he
    have en : (dropRes s a).nodes = s.nodes.map (unresN a) := en0
    have eq : (dropRes s a).queues = s.queues.map (unresQ a) := eq0
    have ec : (dropRes s a).reservations = s.reservations := ec0
    have ea : (dropRes s a).apps = updApps s.apps a.id (fun x => { x with reservations := [] }) := rfl
    have hda : (a.live && a.id == a.id) = true := by simp [hl]
    have hmem : ∀ b' ∈ (dropRes s a).apps, (b'.reservations = [] ∧ b'.id = a.id ∧ b'.queue = a.queue) ∨
        (b' ∈ s.apps ∧ (b'.live = true → b'.id ≠ a.id)) := by
      intro b' hb'
      rw [ea] at hb'
      rcases mem_updApps hu ham hl rfl hb' with rfl | ⟨hbs, hnd⟩
      · exact Or.inl ⟨rfl, rfl, rfl⟩
      · exact Or.inr ⟨hbs, fun hbl e => hnd (by simp [hbl, e])⟩
    have hstay : ∀ b ∈ s.apps, b.live = true → b.id ≠ a.id → b ∈ (dropRes s a).apps := by
      intro b hb hbl hne
      rw [ea]
      refine List.mem_map.mpr ⟨b, hb, ?_⟩
      have : ¬ (b.live && b.id == a.id) = true := by simp [hbl, hne]
      rw [if_neg this]
    have hother : ∀ b ∈ s.apps, b.live = true → ∀ r ∈ b.reservations, r ∉ a.reservations → b.id ≠ a.id := by
      intro b hb hbl r hr hnr e
      have : b = a := (appIds_atMostOne a.id hu).eq hb ham (by simp [hbl, e]) hda
      rw [this] at hr; exact hnr hr
    have himg : ∀ b ∈ s.apps, b.live = true →
        ∃ b' ∈ (dropRes s a).apps, b'.live = true ∧ b'.id = b.id ∧ b'.queue = b.queue := by
      intro b hb hbl
      rw [ea]
      refine ⟨_, List.mem_map.mpr ⟨b, hb, rfl⟩, ?_⟩
      split
      · exact ⟨hbl, rfl, rfl⟩
      · exact ⟨hbl, rfl, rfl⟩
    refine ⟨?_, ?_, ?_, ?_, ?_, ?_, ?_, ?_, ?_, ?_, ?_, ?_⟩
    · -- appNode
      intro b' hb' hbl' r hr
      rcases hmem b' hb' with ⟨hnil, _⟩ | ⟨hbs, hne⟩
      · rw [hnil] at hr; cases hr
      · obtain ⟨n, hn, hrn⟩ := h.appNode b' hbs hbl' r hr
        have hra : r ∉ a.reservations := fun hra => hne hbl' (h.owner b' hbs a ham hbl' hl r hr hra)
        refine ⟨unresN a n, by rw [findNode_of_map (unresN a) (fun _ => rfl) en, hn]; rfl, ?_⟩
        show r.1 ∈ n.reservations.filter _
        rw [mem_unres]
        refine ⟨hrn, ?_⟩
        rw [(findNode_some hn).2]; exact hra
    · -- outstanding
      intro b' hb' hbl' r hr
      rcases hmem b' hb' with ⟨hnil, _⟩ | ⟨hbs, _⟩
      · rw [hnil] at hr; cases hr
      · exact h.outstanding b' hbs hbl' r hr
    · -- onePerAsk
      intro b' hb' hbl'
      rcases hmem b' hb' with ⟨hnil, _⟩ | ⟨hbs, _⟩
      · rw [hnil]; exact List.Pairwise.nil
      · exact h.onePerAsk b' hbs hbl'
    · -- nodeApp
      intro m hm key hkey
      rw [en] at hm
      obtain ⟨n, hn, rfl⟩ := List.mem_map.mp hm
      have hk' : key ∈ n.reservations ∧ (key, n.id) ∉ a.reservations := mem_unres.mp hkey
      obtain ⟨b, hb, hbl, hbr⟩ := h.nodeApp n hn key hk'.1
      exact ⟨b, hstay b hb hbl (hother b hb hbl _ hbr hk'.2), hbl, hbr⟩
    · -- nodeKeys
      intro m hm
      rw [en] at hm
      obtain ⟨n, hn, rfl⟩ := List.mem_map.mp hm
      exact List.Pairwise.filter _ (h.nodeKeys n hn)
    · -- owner
      intro x hx y hy hxl hyl r hrx hry
      rcases hmem x hx with ⟨hnil, _⟩ | ⟨hxs, _⟩
      · rw [hnil] at hrx; cases hrx
      · rcases hmem y hy with ⟨hnil, _⟩ | ⟨hys, _⟩
        · rw [hnil] at hry; cases hry
        · exact h.owner x hxs y hys hxl hyl r hrx hry
    · -- queueCount
      intro b' hb' hbl'
      apply (queueCount_iff _ b').mpr
      rcases hmem b' hb' with ⟨hnil, hid, hqp⟩ | ⟨hbs, hne⟩
      · refine ⟨fun _ => hnil, ?_⟩
        intro q' hq' hp
        rw [eq] at hq'
        obtain ⟨q, hq, rfl⟩ := List.mem_map.mp hq'
        rw [unresQ_path, hqp] at hp
        have hc : (q.path == a.queue) = true := by simpa using hp
        unfold unresQ
        rw [if_pos hc, hid, hnil]
        show (List.lookup a.id (q.reserved.filter _)).getD 0 = 0
        rw [lookup_filter_self]; rfl
      · obtain ⟨c1, c2⟩ := (queueCount_iff s b').mp (h.queueCount b' hbs hbl')
        constructor
        · intro hno
          apply c1
          intro q hq hp
          exact hno (unresQ a q) (by rw [eq]; exact List.mem_map.mpr ⟨q, hq, rfl⟩) (by rw [unresQ_path]; exact hp)
        · intro q' hq' hp
          rw [eq] at hq'
          obtain ⟨q, hq, rfl⟩ := List.mem_map.mp hq'
          rw [unresQ_path] at hp
          rw [unresQ_lookup a q b'.id (hne hbl')]
          exact c2 q hq hp
    · -- queueKeys
      intro q' hq'
      rw [eq] at hq'
      obtain ⟨q, hq, rfl⟩ := List.mem_map.mp hq'
      exact unresQ_keys a q (h.queueKeys q hq)
    · -- queueApp
      intro q' hq' r hr
      rw [eq] at hq'
      obtain ⟨q, hq, rfl⟩ := List.mem_map.mp hq'
      rcases h.queueApp q hq r (unresQ_mem hr) with h0 | ⟨b, hb, hbl, hid, hqp⟩
      · exact Or.inl h0
      · obtain ⟨b', hb', hbl', e1, e2⟩ := himg b hb hbl
        exact Or.inr ⟨b', hb', hbl', e1.trans hid, by rw [e2, hqp, unresQ_path]⟩
    · -- counter
      rw [ec]
      refine Nat.le_trans ?_ h.counter
      unfold resvTotal liveApps
      rw [ea]
      apply total_map_le
      intro b hb hfl
      by_cases hd : (b.live && b.id == a.id) = true
      · rw [if_pos hd] at hfl ⊢
        exact ⟨hfl, Nat.zero_le _⟩
      · rw [if_neg hd] at hfl ⊢
        exact ⟨hfl, Nat.le_refl _⟩
    · -- nodeExcl
      intro m hm
      rw [en] at hm
      obtain ⟨n, hn, rfl⟩ := List.mem_map.mp hm
      rcases h.nodeExcl n hn with hle | hall
      · exact Or.inl (Nat.le_trans (List.length_filter_le _ _) hle)
      · right
        intro key hkey
        have hk' : key ∈ n.reservations ∧ (key, n.id) ∉ a.reservations := mem_unres.mp hkey
        obtain ⟨b, hb, hbl, hbr, hi⟩ := hall key hk'.1
        exact ⟨b, hstay b hb hbl (hother b hb hbl _ hbr hk'.2), hbl, hbr, hi⟩
    · -- quiet
      intro b' hb' hbl' hst
      rcases hmem b' hb' with ⟨hnil, _⟩ | ⟨hbs, _⟩
      · exact hnil
      · exact h.quiet b' hbs hbl' hst

/-- the views of `unreserveApp` only depend on the views of the state -/
theorem unreserveApp_nsig (c : Core) (a : CApp) :
    (unreserveApp c a false).nodes.map nsig =
      if a.reservations.isEmpty = true then c.nodes.map nsig
      else (c.nodes.map nsig).map (fun p => (p.1, p.2.filter (fun k => !(a.reservations.contains (k, p.1))))) := by
  unfold unreserveApp
  split
  · rfl
  · show (c.nodes.map _).map nsig = _
    rw [List.map_map, List.map_map]
    apply List.map_congr_left
    intro n _; rfl

theorem unreserveApp_qsig (c : Core) (a : CApp) :
    (unreserveApp c a false).queues.map qsig =
      if a.reservations.isEmpty = true then c.queues.map qsig
      else (c.queues.map qsig).map (fun p => if p.1 == a.queue then (p.1, p.2.filter (·.1 != a.id)) else p) := by
  unfold unreserveApp
  split
  · rfl
  · show (c.queues.map _).map qsig = _
    rw [List.map_map, List.map_map]
    apply List.map_congr_left
    intro q _
    simp only [Function.comp]
    show qsig (if (q.path == a.queue) = true then _ else q) = if (q.path == a.queue) = true then _ else qsig q
    split <;> rfl

theorem unres_views {s c : Core} (a : CApp) (hcn : c.nodes.map nsig = s.nodes.map nsig)
    (hcq : c.queues.map qsig = s.queues.map qsig) :
    (unreserveApp c a false).nodes.map nsig = (dropRes s a).nodes.map nsig ∧
    (unreserveApp c a false).queues.map qsig = (dropRes s a).queues.map qsig := by
  constructor
  · show _ = (unreserveApp s a false).nodes.map nsig
    rw [unreserveApp_nsig, unreserveApp_nsig, hcn]
  · show _ = (unreserveApp s a false).queues.map qsig
    rw [unreserveApp_qsig, unreserveApp_qsig, hcq]

theorem updApps_const_comp (l : List CApp) (id : String) (f : CApp → CApp) (a' : CApp)
    (hf : ∀ x, (f x).live = x.live ∧ (f x).id = x.id) :
    updApps (updApps l id f) id (fun _ => a') = updApps l id (fun _ => a') := by
  unfold updApps
  rw [List.map_map]
  apply List.map_congr_left
  intro x _
  simp only [Function.comp]
  by_cases hd : (x.live && x.id == id) = true
  · have hd' : ((f x).live && (f x).id == id) = true := by rw [(hf x).1, (hf x).2]; exact hd
    simp only [if_pos hd, if_pos hd']
  · simp only [if_neg hd]

/-- The live application `a` is replaced by a record without reservations; the node and queue views are those of
    `unreserveApp` on a state `c` with the views of `s`; the counter is untouched. -/
theorem res_drop_upd {s t c : Core} {app : String} {a a' : CApp}
    (hu : s.apps.Pairwise (fun a b => a.live = true → b.live = true → a.id ≠ b.id))
    (ham : a ∈ s.apps) (hl : a.live = true) (hid : a.id = app)
    (hta : t.apps = updApps s.apps app (fun _ => a'))
    (hcn : c.nodes.map nsig = s.nodes.map nsig) (hcq : c.queues.map qsig = s.queues.map qsig)
    (htn : t.nodes = (unreserveApp c a false).nodes) (htq : t.queues = (unreserveApp c a false).queues)
    (hc : t.reservations = s.reservations)
    (h1 : a'.id = a.id) (h2 : a'.queue = a.queue) (h4 : a'.reservations = [])
    (h : ResInv s) : ResInv t := by
  have hs1 := res_dropRes hu ham hl h
  obtain ⟨v1, v2⟩ := unres_views a hcn hcq
  have hda : (a.live && a.id == a.id) = true := by simp [hl]
  have hu1 : (dropRes s a).apps.Pairwise (fun a b => a.live = true → b.live = true → a.id ≠ b.id) :=
    pairwise_updApps s.apps a.id _ (fun _ _ => rfl) hu
  have ham1 : ({ a with reservations := [] } : CApp) ∈ (dropRes s a).apps :=
    List.mem_map.mpr ⟨a, ham, by rw [if_pos hda]⟩
  have hta1 : t.apps = updApps (dropRes s a).apps app (fun _ => a') := by
    rw [hta]
    show _ = updApps (updApps s.apps a.id _) app _
    rw [hid]
    exact (updApps_const_comp s.apps app (fun x => { x with reservations := [] }) a' (fun _ => ⟨rfl, rfl⟩)).symm
  exact (keeps_upd_nil (f := fun _ => a') hu1 ham1 hl hid hta1 (by rw [htn]; exact v1) (by rw [htq]; exact v2)
    (by rw [hc]; exact (unreserveApp_counter s a).symm) h1 h2 rfl h4 hs1).res hs1

/-- The live application `a` leaves the list; the node and queue views are those of `unreserveApp`. -/
theorem res_drop_rm {s t c : Core} {app : String} {a : CApp}
    (hu : s.apps.Pairwise (fun a b => a.live = true → b.live = true → a.id ≠ b.id))
    (ham : a ∈ s.apps) (hl : a.live = true) (hid : a.id = app)
    (hta : t.apps = s.apps.filter (fun x => !(x.live && x.id == app)))
    (hcn : c.nodes.map nsig = s.nodes.map nsig) (hcq : c.queues.map qsig = s.queues.map qsig)
    (htn : t.nodes = (unreserveApp c a false).nodes) (htq : t.queues = (unreserveApp c a false).queues)
    (hc : t.reservations = s.reservations)
    (h : ResInv s) : ResInv t := by
  have hs1 := res_dropRes hu ham hl h
  obtain ⟨v1, v2⟩ := unres_views a hcn hcq
  have ea : (dropRes s a).apps = updApps s.apps a.id (fun x => { x with reservations := [] }) := rfl
  refine Keeps.res ⟨by rw [htn]; exact v1, by rw [htq]; exact v2, ?_, ?_, ?_⟩ hs1
  · intro b hb hbl hne
    rw [ea] at hb
    rcases mem_updApps hu ham hl rfl hb with rfl | ⟨hbs, hnd⟩
    · exact absurd rfl hne
    · refine ⟨b, ?_, hbl, AppKeep.refl b⟩
      rw [hta]
      refine List.mem_filter.mpr ⟨hbs, ?_⟩
      rw [← hid, Bool.not_eq_true']
      exact (Bool.not_eq_true _).mp hnd
  · intro b' hb' hbl'
    rw [hta] at hb'
    obtain ⟨hbs, hnd⟩ := List.mem_filter.mp hb'
    have hnd' : ¬ (b'.live && b'.id == a.id) = true := by
      rw [hid]; intro hx; rw [hx] at hnd; cases hnd
    refine ⟨b', ?_, hbl', AppKeep.refl b', fun hst => h.quiet b' hbs hbl' hst⟩
    rw [ea]
    exact List.mem_map.mpr ⟨b', hbs, by rw [if_neg hnd']⟩
  · rw [hc]
    refine Nat.le_trans ?_ h.counter
    unfold resvTotal liveApps
    rw [hta]
    exact total_filter_le _ _

/-! ### the queue functions keep path and `reserved` -/

theorem qsig_qLeave (a : CApp) (q : CQueue) : qsig (qLeave a q) = qsig q := rfl
theorem qsig_qDecPend (r : Res) (q : CQueue) : qsig (qDecPend r q) = qsig q := rfl
theorem qsig_qDecAlloc (r : Res) (q : CQueue) : qsig (qDecAlloc r q) = qsig q := rfl
theorem qsig_qDecPreempting (r : Res) (q : CQueue) : qsig (qDecPreempting r q) = qsig q := rfl

theorem qsig_relAllQ0 (total pre : Res) (q : CQueue) : qsig (relAllQ0 total pre q) = qsig q := by
  unfold relAllQ0
  dsimp only
  split <;> split <;> rfl

theorem qsig_relAllQ1 (total pre : Res) (a1 : CApp) (asks : Bool) (q : CQueue) :
    qsig (relAllQ1 total pre a1 asks q) = qsig q := by
  unfold relAllQ1
  split
  · rw [qsig_qDecPend, qsig_relAllQ0]
  · exact qsig_relAllQ0 total pre q

theorem qsig_relAllQ (total pre : Res) (a1 a2 : CApp) (asks : Bool) (q : CQueue) :
    qsig (relAllQ total pre a1 a2 asks q) = qsig q := by
  rw [relAllQ_eq]
  split
  · exact qsig_relAllQ1 total pre a1 asks q
  · rw [qsig_qLeave, qsig_relAllQ1]

theorem qsig_rmQ (a : CApp) (q : CQueue) : qsig (rmQ a q) = qsig q := by
  have h0 : qsig (rmQ0 a q) = qsig q := by unfold rmQ0; split <;> rfl
  have h1 : qsig (rmQ1 a q) = qsig q := by unfold rmQ1; rw [qsig_qLeave, h0]
  rw [rmQ_eq]
  split
  · exact h1
  · rw [qsig_qDecPreempting, h1]

theorem rmFromNodes_counter (l : List CItem) : ∀ c : Core, (rmFromNodes c l).reservations = c.reservations := by
  induction l with
  | nil => intro c; rfl
  | cons i t ih =>
    intro c
    have e : rmFromNodes c (i :: t) = rmFromNodes (updNode c i.node (nodeRm i.key i.res)) t := rfl
    rw [e, ih]; rfl

/-- an application none of whose items is outstanding holds no reservation -/
theorem nores_of_none {s : Core} (h : ResInv s) {a : CApp} (ham : a ∈ s.apps) (hl : a.live = true)
    (hno : ∀ i ∈ a.items, i.outstanding = false) : a.reservations = [] := by
  cases hr : a.reservations with
  | nil => rfl
  | cons r t =>
    obtain ⟨i, hi, _, hio⟩ := h.outstanding a ham hl r (by rw [hr]; exact List.mem_cons_self)
    rw [hno i hi] at hio; cases hio

/-! ### `releaseApp` -/

theorem relAllApp_reservations (a : CApp) : (relAllApp a).reservations = a.reservations := by
  unfold relAllApp; simp

theorem relAllApp_live (a : CApp) :
    (relAllApp a).live = !(terminated (if isZero (some a.pending) = true then fireState a.state .complete else a.state)) := by
  unfold relAllApp; rfl

theorem dropAsksApp_res_req (b : CApp) (h : b.items.any (·.inReq) = true) : (dropAsksApp b).reservations = [] := by
  unfold dropAsksApp
  simp only [h, Bool.not_true, Bool.false_eq_true, if_false, setState_reservations]

theorem relAll2_reservations (tt : TermType) (a : CApp) :
    (relAll2 tt a).reservations = if relAsks tt a = true then [] else a.reservations := by
  unfold relAll2; dsimp only; split
  · rename_i h; exact dropAsksApp_res_req _ (relAsks_any h)
  · exact relAllApp_reservations a

theorem relAll2_live (tt : TermType) (a : CApp) :
    (relAll2 tt a).live = ((relAllApp a).live && !(terminated (relAll2 tt a).state)) := by
  unfold relAll2; rfl

theorem releaseAppCore_counter (s : Core) (tt : TermType) (app : String) (a : CApp) :
    (releaseAppCore s tt app a).reservations = s.reservations := by
  unfold releaseAppCore
  show (rmFromNodes _ _).reservations = _
  rw [rmFromNodes_counter]; rfl

theorem releaseApp_counter (s : Core) (tt : TermType) (app : String) (a : CApp) (hfind : s.findApp app = some a) :
    (s.releaseApp tt app).reservations = s.reservations := by
  have e : (s.releaseApp tt app).reservations =
      (if relAsks tt a = true then unreserveApp (releaseAppCore s tt app a) a false else releaseAppCore s tt app a).reservations := by
    unfold releaseApp; simp only [hfind]; rfl
  rw [e]
  split
  · rw [unreserveApp_counter, releaseAppCore_counter]
  · exact releaseAppCore_counter s tt app a

theorem appRemoveCore_counter (s : Core) (app : String) (a : CApp) : (appRemoveCore s app a).reservations = s.reservations := by
  unfold appRemoveCore
  show (rmFromNodes _ _).reservations = _
  rw [rmFromNodes_counter]

theorem appRemove_counter (s : Core) (app : String) (a : CApp) (hfind : s.findApp app = some a) :
    (s.appRemove app).reservations = s.reservations := by
  have e : (s.appRemove app).reservations = (unreserveApp (appRemoveCore s app a) a false).reservations := by
    unfold appRemove; simp only [hfind]; rfl
  rw [e, unreserveApp_counter, appRemoveCore_counter]

/-! ### the timers -/

theorem relPh_keep (x : CItem) :
    (LifeC.relPh x).key = x.key ∧ (LifeC.relPh x).reqNode = x.reqNode ∧ (LifeC.relPh x).outstanding = x.outstanding := by
  unfold LifeC.relPh
  split <;> exact ⟨rfl, rfl, rfl⟩

/-- a flag update of the items of one application -/
theorem res_flag {s : Core} (app : String) (f : CApp → CApp)
    (hf : ∀ a, (f a).id = a.id ∧ (f a).queue = a.queue ∧ (f a).reservations = a.reservations ∧ (f a).live = a.live ∧
      (f a).state = a.state ∧ (f a).items = a.items.map LifeC.relPh)
    (hw : CoreWF s) (h : ResInv s) : ResInv (updApp s app f) := by
  cases hfind : s.findApp app with
  | none =>
    have e : updApp s app f = s := by
      unfold updApp
      have : s.apps.map (fun a => if (a.live && a.id == app) = true then f a else a) = s.apps :=
        map_upd_none s.apps (fun a => a.live && a.id == app) f (fun x hx => by
          cases hxl : x.live with
          | false => rfl
          | true => simpa [hxl] using findApp_none hfind x hx hxl)
      rw [this]
    rw [e]; exact h
  | some a =>
    obtain ⟨ham, hl, hid⟩ := findApp_some hfind
    obtain ⟨f1, f2, f3, f4, f5, f6⟩ := hf a
    refine (keeps_upd hw.appIds ham hl hid (t := updApp s app f) rfl rfl rfl rfl ⟨f1, f2, f3, ?_⟩ ?_ h).res h
    · intro r _ i hi _
      obtain ⟨k1, k2, k3⟩ := relPh_keep i
      exact ⟨LifeC.relPh i, by rw [f6]; exact List.mem_map.mpr ⟨i, hi, rfl⟩, k1, k2, k3⟩
    · intro hor
      rcases hor with hd | hq
      · rw [f4, hl] at hd; cases hd
      · rw [f5] at hq; exact h.quiet a ham hl hq

theorem phApp1_reservations (a : CApp) (ev : Option String) : (Timer.phApp1 a ev).reservations = a.reservations := by
  unfold Timer.phApp1
  cases ev with
  | none => rfl
  | some st => simp only [setState_reservations]

theorem phCore2_views (s : Core) (app : String) (ev : Option String) (a : CApp) :
    (Timer.phCore2 s app ev a).nodes = s.nodes ∧ (Timer.phCore2 s app ev a).queues.map qsig = s.queues.map qsig ∧
    (Timer.phCore2 s app ev a).reservations = s.reservations := by
  unfold Timer.phCore2
  dsimp only
  split
  · refine ⟨rfl, ?_, rfl⟩
    show (updQs s.queues _ _).map qsig = _
    exact qsig_updQs _ _ _ (fun _ => rfl)
  · exact ⟨rfl, rfl, rfl⟩

theorem leaveApp_cases (c : Core) (app : String) :
    (c.findApp app = none ∧ c.leaveApp app = c) ∨
    ∃ a, c.findApp app = some a ∧ c.leaveApp app =
      updQueues (updApp c app (fun _ => LifeC.leftApp a)) (pathChain c a.queue) (qLeave (LifeC.leftApp a)) := by
  cases hfind : c.findApp app with
  | none => left; refine ⟨rfl, ?_⟩; unfold leaveApp; simp only [hfind]
  | some a => right; refine ⟨a, rfl, ?_⟩; unfold leaveApp; simp only [hfind]; rfl

/-- moveTerminatedApp for an application that holds no reservation (only the uniqueness of the ids is needed) -/
theorem res_leaveApp' (c : Core) (app : String)
    (hu : c.apps.Pairwise (fun a b => a.live = true → b.live = true → a.id ≠ b.id)) (h : ResInv c)
    (hterm : ∀ a, c.findApp app = some a → terminated a.state = true) : ResInv (c.leaveApp app) := by
  rcases leaveApp_cases c app with ⟨_, e⟩ | ⟨a, hfind, e⟩
  · rw [e]; exact h
  · obtain ⟨ham, hl, hid⟩ := findApp_some hfind
    have hnil : a.reservations = [] := h.quiet a ham hl (Or.inr (Or.inr (hterm a hfind)))
    rw [e]
    refine Keeps.res (keeps_upd_nil (f := fun _ => LifeC.leftApp a) hu ham hl hid rfl rfl ?_ rfl rfl rfl hnil hnil h) h
    show (updQs c.queues _ _).map qsig = _
    exact qsig_updQs _ _ _ (fun _ => rfl)

theorem leaveApp_appIds (c : Core) (app : String)
    (hu : c.apps.Pairwise (fun a b => a.live = true → b.live = true → a.id ≠ b.id)) :
    (c.leaveApp app).apps.Pairwise (fun a b => a.live = true → b.live = true → a.id ≠ b.id) := by
  rcases leaveApp_cases c app with ⟨_, e⟩ | ⟨a, hfind, e⟩
  · rw [e]; exact hu
  · rw [e]
    exact pairwise_updApps c.apps app _ (const_id (findApp_some hfind).2.2) hu

/-- the live applications after `leaveApp` are live applications of the old state -/
theorem leaveApp_live_sub (c : Core) (app : String)
    (hu : c.apps.Pairwise (fun a b => a.live = true → b.live = true → a.id ≠ b.id)) :
    ∀ b ∈ (c.leaveApp app).apps, b.live = true → b ∈ c.apps := by
  intro b hb hbl
  rcases leaveApp_cases c app with ⟨_, e⟩ | ⟨a, hfind, e⟩
  · rw [e] at hb; exact hb
  · obtain ⟨ham, hl, hid⟩ := findApp_some hfind
    rw [e] at hb
    rcases mem_updApps hu ham hl hid hb with rfl | ⟨hbs, _⟩
    · have : (LifeC.leftApp a).live = false := rfl
      rw [this] at hbl; cases hbl
    · exact hbs

theorem sweep_fold_res (l : List CApp) : ∀ (c : Core),
    c.apps.Pairwise (fun a b => a.live = true → b.live = true → a.id ≠ b.id) → ResInv c →
    (∀ a ∈ l, (a.live && terminated a.state) = true →
      ∀ b ∈ c.apps, b.live = true → b.id = a.id → terminated b.state = true) →
    ResInv (l.foldl (fun c a => if a.live && terminated a.state then leaveApp c a.id else c) c) := by
  induction l with
  | nil => intro c _ h _; exact h
  | cons a t ih =>
    intro c hu h h1
    rw [List.foldl_cons]
    by_cases hc : (a.live && terminated a.state) = true
    · rw [if_pos hc]
      refine ih _ (leaveApp_appIds c a.id hu) (res_leaveApp' c a.id hu h ?_) ?_
      · intro a2 hf
        obtain ⟨m, l', i⟩ := findApp_some hf
        exact h1 a List.mem_cons_self hc a2 m l' i
      · intro a' ha' hc' b hbm hbl hbid
        exact h1 a' (List.mem_cons_of_mem _ ha') hc' b (leaveApp_live_sub c a.id hu b hbm hbl) hbl hbid
    · rw [if_neg hc]
      exact ih c hu h (fun a' ha' hc' => h1 a' (List.mem_cons_of_mem _ ha') hc')

end ResC

/-! ### the results -/

/-- partition.removeAllocation(app, "", tt) keeps the reservation invariant -/
theorem res_releaseApp (s : Core) (tt : TermType) (app : String) (hi : CoreInv s) (h : ResInv s) :
    ResInv (s.releaseApp tt app) := by
  cases hfind : s.findApp app with
  | none =>
    have : s.releaseApp tt app = s := by unfold releaseApp; simp only [hfind]
    rw [this]; exact h
  | some a =>
    obtain ⟨ham, hl, hid⟩ := findApp_some hfind
    have hw := hi.wf
    obtain ⟨e1, e2, e3⟩ := releaseApp_lists s tt app a hfind
    obtain ⟨c1, c2, c3⟩ := releaseAppCore_lists s tt app a
    have ec := ResC.releaseApp_counter s tt app a hfind
    have hcn : (releaseAppCore s tt app a).nodes.map ResC.nsig = s.nodes.map ResC.nsig := by
      rw [c2]; exact ResC.nsig_rmNs _ _
    have hcq : (releaseAppCore s tt app a).queues.map ResC.qsig = s.queues.map ResC.qsig := by
      rw [c3]; exact ResC.qsig_updQs _ _ _ (ResC.qsig_relAllQ _ _ _ _ _)
    cases hA : relAsks tt a with
    | true =>
      rw [hA] at e1 e2 e3
      simp only [if_true] at e1 e2 e3
      refine ResC.res_drop_upd (c := releaseAppCore s tt app a) (a' := relAll2 tt a) hw.appIds ham hl hid ?_ hcn hcq e3 e2 ec
        (relAll2_id tt a) (relAll2_queue tt a) ?_ h
      · rw [e1, LinkA.unreserveApp_apps, c1]
      · rw [ResC.relAll2_reservations, hA]; rfl
    | false =>
      rw [hA] at e1 e2 e3
      simp only [Bool.false_eq_true, if_false] at e1 e2 e3
      have hres : (relAll2 tt a).reservations = a.reservations := by
        rw [ResC.relAll2_reservations, hA]; rfl
      refine (ResC.keeps_upd (f := fun _ => relAll2 tt a) hw.appIds ham hl hid (e1.trans c1) (by rw [e3]; exact hcn)
        (by rw [e2]; exact hcq) ec ⟨relAll2_id tt a, relAll2_queue tt a, hres, ?_⟩ ?_ h).res h
      · -- the requests survive
        intro r hr i him hik
        obtain ⟨j, hj, hjk, hjo⟩ := h.outstanding a ham hl r hr
        have hij : i = j := itemKeys_eq (hw.app ham hl).itemKeys him hj (hik.trans hjk.symm)
        have hreq : i.inReq = true := by
          rw [hij]
          unfold CItem.outstanding at hjo
          simp only [Bool.and_eq_true] at hjo
          exact hjo.1
        refine ⟨{ i with bound := false }, ?_, rfl, rfl, rfl⟩
        show _ ∈ (relAll2 tt a).items
        rw [relAll2_items, hA]
        simp only [Bool.false_eq_true, if_false]
        exact List.mem_filter.mpr ⟨List.mem_map.mpr ⟨i, him, rfl⟩, hreq⟩
      · -- on its way out: nothing was outstanding
        intro hor
        cases hz : isZero (some a.pending) with
        | true =>
          exact ResC.nores_of_none h ham hl
            ((AppBooks.none_of_zero (hi.books.apps a ham hl) (hw.app ham hl) (hi.life.pos a ham hl)).2.2 hz)
        | false =>
          have hst : (relAll2 tt a).state = a.state := by
            rw [LifeC.relAll2_state_noasks hA, LifeC.relAllApp_state, hz]; rfl
          have hnt : terminated a.state = false := hi.life.termGone a ham hl
          rcases hor with hd | hq
          · rw [ResC.relAll2_live, ResC.relAllApp_live, hst, hz] at hd
            simp only [Bool.false_eq_true, if_false, hnt, Bool.not_false, Bool.and_self] at hd
            cases hd
          · rw [hst] at hq
            exact h.quiet a ham hl hq

/-- partition.removeApplication keeps the reservation invariant -/
theorem res_appRemove (s : Core) (app : String) (hi : CoreInv s) (h : ResInv s) : ResInv (s.appRemove app) := by
  cases hfind : s.findApp app with
  | none =>
    have : s.appRemove app = s := by unfold appRemove; simp only [hfind]
    rw [this]; exact h
  | some a =>
    obtain ⟨ham, hl, hid⟩ := findApp_some hfind
    obtain ⟨e1, e2, e3⟩ := appRemove_lists s app a hfind
    obtain ⟨c1, c2, c3⟩ := appRemoveCore_lists s app a
    refine ResC.res_drop_rm (c := appRemoveCore s app a) hi.wf.appIds ham hl hid ?_ ?_ ?_ e3 e2
      (ResC.appRemove_counter s app a hfind) h
    · rw [e1, LinkA.unreserveApp_apps, c1]
    · rw [c2]; exact ResC.nsig_rmNs _ _
    · rw [c3]; exact ResC.qsig_updQs _ _ _ (ResC.qsig_rmQ a)

/-- timeoutPlaceholderProcessing keeps the reservation invariant (whatever state it announces) -/
theorem res_phTimeout (s : Core) (app : String) (ev : Option String) (hi : CoreInv s) (h : ResInv s) :
    ResInv (s.phTimeout app ev) := by
  cases hfind : s.findApp app with
  | none =>
    have : s.phTimeout app ev = s := by unfold phTimeout; simp only [hfind]
    rw [this]; exact h
  | some a =>
    obtain ⟨ham, hl, hid⟩ := findApp_some hfind
    have hw := hi.wf
    cases hc : ((a.state == "Running" || a.state == "Completing") && !(isZero (some a.allocatedPh))) with
    | true =>
      have e : s.phTimeout app ev = updApp s app (fun a => { a with items := a.items.map LifeC.relPh }) := by
        unfold phTimeout; simp only [hfind, hc, if_true]
      rw [e]
      exact ResC.res_flag app _ (fun _ => ⟨rfl, rfl, rfl, rfl, rfl, rfl⟩) hw h
    | false =>
      have e : s.phTimeout app ev =
          if a.items.any (·.inReq) = true then unreserveApp (Timer.phCore2 s app ev a) a false else Timer.phCore2 s app ev a := by
        unfold phTimeout; simp only [hfind, hc, Bool.false_eq_true, if_false]; rfl
      obtain ⟨l1, _⟩ := LinkA.phCore2_lists s app ev a
      obtain ⟨v1, v2, v3⟩ := ResC.phCore2_views s app ev a
      obtain ⟨f1, f2, _⟩ := Timer.phApp2_fields a ev
      rw [e]
      cases hreq : a.items.any (·.inReq) with
      | true =>
        simp only [if_true]
        refine ResC.res_drop_upd (c := Timer.phCore2 s app ev a) (a' := Timer.phApp2 a ev) hw.appIds ham hl hid
          (by rw [LinkA.unreserveApp_apps, l1]) (by rw [v1]) v2 rfl rfl (by rw [ResC.unreserveApp_counter, v3]) f1 f2 ?_ h
        unfold Timer.phApp2
        exact ResC.dropAsksApp_res_req _ (by rw [Timer.phApp1_anyReq]; exact hreq)
      | false =>
        simp only [Bool.false_eq_true, if_false]
        have hnil : a.reservations = [] := by
          apply ResC.nores_of_none h ham hl
          intro i him
          have := List.any_eq_false.mp hreq i him
          exact LifeC.outstanding_of_noReq (by simpa using this)
        refine (ResC.keeps_upd_nil (f := fun _ => Timer.phApp2 a ev) hw.appIds ham hl hid l1 (by rw [v1]) v2 v3 f1 f2 hnil ?_ h).res h
        show (Timer.phApp2 a ev).reservations = []
        unfold Timer.phApp2
        rw [Timer.dropAsksApp_noreq _ (by rw [Timer.phApp1_anyReq]; exact hreq), ResC.phApp1_reservations, hnil]

/-- timeoutStateTimer keeps the reservation invariant -/
theorem res_stateTimeout (s : Core) (app : String) (hi : CoreInv s) (h : ResInv s) : ResInv (s.stateTimeout app) := by
  cases hfind : s.findApp app with
  | none =>
    have : s.stateTimeout app = s := by unfold stateTimeout; simp only [hfind]
    rw [this]; exact h
  | some a =>
    obtain ⟨ham, hl, hid⟩ := findApp_some hfind
    have hw := hi.wf
    cases hst : (a.state != "Completing") with
    | true =>
      have : s.stateTimeout app = s := by unfold stateTimeout; simp only [hfind, hst, if_true]
      rw [this]; exact h
    | false =>
      have hstate : a.state = "Completing" := by simpa using hst
      cases hph : (!(isZero (some a.allocatedPh))) with
      | true =>
        have e : s.stateTimeout app =
            updApp s app (fun a => { a with stateTimer := false, items := a.items.map LifeC.relPh }) := by
          unfold stateTimeout; simp only [hfind, hst, hph, Bool.false_eq_true, if_false, if_true]
        rw [e]
        exact ResC.res_flag app _ (fun _ => ⟨rfl, rfl, rfl, rfl, rfl, rfl⟩) hw h
      | false =>
        have e : s.stateTimeout app =
            updQueues (updApp s app (fun _ => LifeC.doneApp a)) (pathChain s a.queue) (Core.qLeave (LifeC.doneApp a)) := by
          unfold stateTimeout LifeC.doneApp
          simp only [hfind, hph, Bool.false_eq_true, if_false, hstate, Timer.fire_completing]
          rfl
        have hnil : a.reservations = [] := h.quiet a ham hl (Or.inr (Or.inl hstate))
        have hres : (LifeC.doneApp a).reservations = [] := by
          show (setState a "Completed").reservations = []
          rw [setState_reservations]; exact hnil
        rw [e]
        refine ResC.Keeps.res (ResC.keeps_upd_nil (f := fun _ => LifeC.doneApp a) hw.appIds ham hl hid rfl rfl ?_ rfl
          (setState_id a _) (setState_queue a _) hnil hres h) h
        show (updQs s.queues _ _).map ResC.qsig = _
        exact ResC.qsig_updQs _ _ _ (fun _ => rfl)

/-- moveTerminatedApp for an application that has terminated: it holds no reservation (`ResInv.quiet`) -/
theorem res_leaveApp (c : Core) (app : String) (hw : CoreWF c) (h : ResInv c)
    (hterm : ∀ a, c.findApp app = some a → terminated a.state = true) : ResInv (c.leaveApp app) :=
  ResC.res_leaveApp' c app hw.appIds h hterm

/-- at the end of a node removal: the terminated applications leave -/
theorem res_sweepTerminated (c : Core) (hw : CoreWF c) (h : ResInv c) : ResInv c.sweepTerminated := by
  refine ResC.sweep_fold_res c.apps c hw.appIds h ?_
  intro a ha hc b hbm hbl hid
  simp only [Bool.and_eq_true] at hc
  have : b = a := (appIds_atMostOne a.id hw.appIds).eq hbm ha (by simp [hbl, hid]) (by simp [hc.1])
  rw [this]; exact hc.2

end Yk
