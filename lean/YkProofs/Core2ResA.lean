/-
  The reservation invariant `ResInv` (Core2Res.lean), part A: a generic transport lemma (`ResA.res_of_keep`) and the
  operations `nodeCreate`, `nodeUpdate`, `nodeSchedulable`, `foreignAdd`, `foreignRemove`, `cleanup`, `markReleased`,
  `ask`, `schedAlloc`, `appAdd`, and the two operations that make / cancel reservations: `reserve`, `unreserve`.
-/
import YkProofs.Core2Res
namespace Yk
open Res Core

namespace ResA

/-- the states in which an application holds no reservation -/
def Quiet (st : String) : Prop := st = "Failing" ∨ st = "Completing" ∨ terminated st = true

/-- application `b` is application `a` as far as `ResInv` is concerned: same id, queue, reservations; the item of every
    reserved ask survives with its key, required node, and outstanding if it was; `b` is on its way out only if `a` was
    (or `a` holds no reservation) -/
structure AppKeep (a b : CApp) : Prop where
  id : b.id = a.id
  queue : b.queue = a.queue
  resv : b.reservations = a.reservations
  items : ∀ r ∈ a.reservations, ∀ i ∈ a.items, i.key = r.1 →
    ∃ j ∈ b.items, j.key = i.key ∧ j.reqNode = i.reqNode ∧ (i.outstanding = true → j.outstanding = true)
  quiet : Quiet b.state → Quiet a.state ∨ a.reservations = []

theorem AppKeep.refl (a : CApp) : AppKeep a a :=
  ⟨rfl, rfl, rfl, fun _ _ i hi _ => ⟨i, hi, rfl, rfl, fun h => h⟩, fun h => Or.inl h⟩

/-! ### the `queueCount` clause without the `match` -/

theorem qc_iff (s : Core) (a : CApp) :
    (match s.findQueue a.queue with
     | none => a.reservations = []
     | some _ => ∀ q ∈ s.queues, q.path = a.queue → (q.reserved.lookup a.id).getD 0 = a.reservations.length) ↔
    ((s.findQueue a.queue = none → a.reservations = []) ∧
     ((s.findQueue a.queue).isSome = true →
        ∀ q ∈ s.queues, q.path = a.queue → (q.reserved.lookup a.id).getD 0 = a.reservations.length)) := by
  cases s.findQueue a.queue with
  | none => simp
  | some q => simp

theorem qc_none {s : Core} (h : ResInv s) {a : CApp} (ha : a ∈ s.apps) (hl : a.live = true)
    (hq : s.findQueue a.queue = none) : a.reservations = [] :=
  ((qc_iff s a).mp (h.queueCount a ha hl)).1 hq

theorem qc_some {s : Core} (h : ResInv s) {a : CApp} (ha : a ∈ s.apps) (hl : a.live = true)
    (hq : (s.findQueue a.queue).isSome = true) :
    ∀ q ∈ s.queues, q.path = a.queue → (q.reserved.lookup a.id).getD 0 = a.reservations.length :=
  ((qc_iff s a).mp (h.queueCount a ha hl)).2 hq

theorem findQueue_none {s : Core} {p : String} (h : s.findQueue p = none) : ∀ q ∈ s.queues, q.path ≠ p := by
  intro q hq
  unfold findQueue at h
  simpa using List.find?_eq_none.mp h q hq

theorem findQueue_isSome {s : Core} {p : String} {q : CQueue} (hq : q ∈ s.queues) (hp : q.path = p) :
    (s.findQueue p).isSome = true := by
  cases h : s.findQueue p with
  | none => exact absurd hp (findQueue_none h q hq)
  | some _ => rfl

/-- a list in which every entry for `k` is zero -/
theorem lookup_zero (l : List (String × Nat)) (k : String) (h : ∀ r ∈ l, r.1 = k → r.2 = 0) :
    (l.lookup k).getD 0 = 0 := by
  induction l with
  | nil => rfl
  | cons e t ih =>
    obtain ⟨e1, e2⟩ := e
    rw [List.lookup_cons]
    by_cases hk : (k == e1) = true
    · rw [hk]
      have : e2 = 0 := h (e1, e2) (List.mem_cons_self ..) (by simpa using Eq.symm (by simpa using hk))
      simp [this]
    · have hk' : (k == e1) = false := by simpa using hk
      rw [hk']
      exact ih (fun r hr => h r (List.mem_cons_of_mem _ hr))

/-! ### the transport lemma -/

/-- `ResInv` only looks at the live applications' `id`, `queue`, `reservations`, `state`, the items of reserved asks, the
    nodes' `id` and `reservations`, the queues' `path` and `reserved`, and the counter.  New applications come without
    reservations, new nodes and queues too. -/
theorem res_of_keep {s t : Core} (h : ResInv s)
    (hfw : ∀ a ∈ s.apps, a.live = true → ∃ b ∈ t.apps, b.live = true ∧ AppKeep a b)
    (hbw : ∀ b ∈ t.apps, b.live = true →
      (∃ a ∈ s.apps, a.live = true ∧ AppKeep a b) ∨ (b.reservations = [] ∧ s.findApp b.id = none))
    (hnf : ∀ id n, s.findNode id = some n → ∃ m, t.findNode id = some m ∧ m.reservations = n.reservations)
    (hnb : ∀ m ∈ t.nodes, (∃ n ∈ s.nodes, n.id = m.id ∧ n.reservations = m.reservations) ∨ m.reservations = [])
    (hqf : ∀ p, (s.findQueue p).isSome = true → (t.findQueue p).isSome = true)
    (hqb : ∀ q' ∈ t.queues, (∃ q ∈ s.queues, q.path = q'.path ∧ q.reserved = q'.reserved) ∨
      (q'.reserved = [] ∧ s.findQueue q'.path = none))
    (hc : resvTotal t ≤ resvTotal s) (hr : s.reservations ≤ t.reservations) : ResInv t := by
  refine { appNode := ?_, outstanding := ?_, onePerAsk := ?_, nodeApp := ?_, nodeKeys := ?_, owner := ?_,
           queueCount := ?_, queueKeys := ?_, queueApp := ?_, counter := ?_, nodeExcl := ?_, quiet := ?_ }
  · intro b hb hl r hrm
    rcases hbw b hb hl with ⟨a, ha, hal, hk⟩ | ⟨he, _⟩
    · rw [hk.resv] at hrm
      obtain ⟨n, hn, hrn⟩ := h.appNode a ha hal r hrm
      obtain ⟨m, hm, hmr⟩ := hnf _ _ hn
      exact ⟨m, hm, hmr ▸ hrn⟩
    · rw [he] at hrm; cases hrm
  · intro b hb hl r hrm
    rcases hbw b hb hl with ⟨a, ha, hal, hk⟩ | ⟨he, _⟩
    · rw [hk.resv] at hrm
      obtain ⟨i, hi, hik, hio⟩ := h.outstanding a ha hal r hrm
      obtain ⟨j, hj, hjk, _, hjo⟩ := hk.items r hrm i hi hik
      exact ⟨j, hj, hjk.trans hik, hjo hio⟩
    · rw [he] at hrm; cases hrm
  · intro b hb hl
    rcases hbw b hb hl with ⟨a, ha, hal, hk⟩ | ⟨he, _⟩
    · rw [hk.resv]; exact h.onePerAsk a ha hal
    · rw [he]; exact List.nodup_nil
  · intro m hm k hkm
    rcases hnb m hm with ⟨n, hn, hid, hres⟩ | he
    · rw [← hres] at hkm
      obtain ⟨a, ha, hal, har⟩ := h.nodeApp n hn k hkm
      obtain ⟨b, hb, hbl, hk⟩ := hfw a ha hal
      exact ⟨b, hb, hbl, by rw [hk.resv, ← hid]; exact har⟩
    · rw [he] at hkm; cases hkm
  · intro m hm
    rcases hnb m hm with ⟨n, hn, _, hres⟩ | he
    · rw [← hres]; exact h.nodeKeys n hn
    · rw [he]; exact List.nodup_nil
  · intro b1 hb1 b2 hb2 hl1 hl2 r hr1 hr2
    rcases hbw b1 hb1 hl1 with ⟨a1, ha1, hal1, hk1⟩ | ⟨he, _⟩
    · rcases hbw b2 hb2 hl2 with ⟨a2, ha2, hal2, hk2⟩ | ⟨he, _⟩
      · rw [hk1.resv] at hr1; rw [hk2.resv] at hr2
        rw [hk1.id, hk2.id]; exact h.owner a1 ha1 a2 ha2 hal1 hal2 r hr1 hr2
      · rw [he] at hr2; cases hr2
    · rw [he] at hr1; cases hr1
  · intro b hb hl
    refine (qc_iff t b).mpr ?_
    rcases hbw b hb hl with ⟨a, ha, hal, hk⟩ | ⟨he, hnone⟩
    · refine ⟨?_, ?_⟩
      · intro hnq
        rw [hk.resv]
        cases hs : s.findQueue a.queue with
        | none => exact qc_none h ha hal hs
        | some q0 =>
          have := hqf a.queue (by rw [hs]; rfl)
          rw [← hk.queue, hnq] at this; cases this
      · intro _ q' hq' hp
        rw [hk.resv, hk.id]
        rcases hqb q' hq' with ⟨q, hq, hqp, hqr⟩ | ⟨hqe, hqn⟩
        · rw [← hqr]
          exact qc_some h ha hal (findQueue_isSome hq (hqp.trans (hp.trans hk.queue))) q hq (hqp.trans (hp.trans hk.queue))
        · rw [hqe, qc_none h ha hal (by rw [← hk.queue, ← hp]; exact hqn)]; rfl
    · refine ⟨fun _ => he, ?_⟩
      intro _ q' hq' hp
      rw [he]
      rcases hqb q' hq' with ⟨q, hq, _, hqr⟩ | ⟨hqe, _⟩
      · rw [← hqr]
        refine lookup_zero _ _ ?_
        intro r hrm hrk
        rcases h.queueApp q hq r hrm with h0 | ⟨a, ha, hal, hid, _⟩
        · exact h0
        · exact absurd (hid.trans hrk) (findApp_none hnone a ha hal)
      · rw [hqe]; rfl
  · intro q' hq'
    rcases hqb q' hq' with ⟨q, hq, _, hqr⟩ | ⟨hqe, _⟩
    · rw [← hqr]; exact h.queueKeys q hq
    · rw [hqe]; exact List.nodup_nil
  · intro q' hq' r hrm
    rcases hqb q' hq' with ⟨q, hq, hqp, hqr⟩ | ⟨hqe, _⟩
    · rw [← hqr] at hrm
      rcases h.queueApp q hq r hrm with h0 | ⟨a, ha, hal, hid, haq⟩
      · exact Or.inl h0
      · obtain ⟨b, hb, hbl, hk⟩ := hfw a ha hal
        exact Or.inr ⟨b, hb, hbl, hk.id.trans hid, hk.queue.trans (haq.trans hqp)⟩
    · rw [hqe] at hrm; cases hrm
  · exact Nat.le_trans hc (Nat.le_trans h.counter hr)
  · intro m hm
    rcases hnb m hm with ⟨n, hn, hid, hres⟩ | he
    · rw [← hres]
      rcases h.nodeExcl n hn with h1 | h2
      · exact Or.inl h1
      · right
        intro k hkm
        obtain ⟨a, ha, hal, har, i, hi, hik, hin⟩ := h2 k hkm
        obtain ⟨b, hb, hbl, hk⟩ := hfw a ha hal
        obtain ⟨j, hj, hjk, hjn, _⟩ := hk.items (k, n.id) har i hi hik
        exact ⟨b, hb, hbl, by rw [hk.resv, ← hid]; exact har, j, hj, hjk.trans hik, by rw [hjn, hin, hid]⟩
    · rw [he]; exact Or.inl (Nat.zero_le _)
  · intro b hb hl hst
    rcases hbw b hb hl with ⟨a, ha, hal, hk⟩ | ⟨he, _⟩
    · rw [hk.resv]
      rcases hk.quiet hst with hq | hq
      · exact h.quiet a ha hal hq
      · exact hq
    · exact he

/-! ### how to meet the hypotheses of the transport lemma -/

/-- the hypotheses about the applications -/
def AppsKeep (s t : Core) : Prop :=
  (∀ a ∈ s.apps, a.live = true → ∃ b ∈ t.apps, b.live = true ∧ AppKeep a b) ∧
  (∀ b ∈ t.apps, b.live = true →
    (∃ a ∈ s.apps, a.live = true ∧ AppKeep a b) ∨ (b.reservations = [] ∧ s.findApp b.id = none))

/-- … about the nodes -/
def NodesKeepR (s t : Core) : Prop :=
  (∀ id n, s.findNode id = some n → ∃ m, t.findNode id = some m ∧ m.reservations = n.reservations) ∧
  (∀ m ∈ t.nodes, (∃ n ∈ s.nodes, n.id = m.id ∧ n.reservations = m.reservations) ∨ m.reservations = [])

/-- … about the queues -/
def QueuesKeep (s t : Core) : Prop :=
  (∀ p, (s.findQueue p).isSome = true → (t.findQueue p).isSome = true) ∧
  (∀ q' ∈ t.queues, (∃ q ∈ s.queues, q.path = q'.path ∧ q.reserved = q'.reserved) ∨
    (q'.reserved = [] ∧ s.findQueue q'.path = none))

theorem res_of_keep' {s t : Core} (h : ResInv s) (ha : AppsKeep s t) (hn : NodesKeepR s t) (hq : QueuesKeep s t)
    (hc : resvTotal t ≤ resvTotal s) (hr : s.reservations ≤ t.reservations) : ResInv t :=
  res_of_keep h ha.1 ha.2 hn.1 hn.2 hq.1 hq.2 hc hr

theorem AppsKeep.of_eq {s t : Core} (ht : t.apps = s.apps) : AppsKeep s t := by
  unfold AppsKeep; rw [ht]
  exact ⟨fun a ha hl => ⟨a, ha, hl, AppKeep.refl a⟩, fun b hb hl => Or.inl ⟨b, hb, hl, AppKeep.refl b⟩⟩

/-- one live application is updated -/
theorem AppsKeep.of_upd {s t : Core} (hw : CoreWF s) {app : String} {a : CApp} (f : CApp → CApp)
    (ham : a ∈ s.apps) (hl : a.live = true) (hid : a.id = app) (ht : t.apps = updApps s.apps app f)
    (hfl : (f a).live = true) (hk : AppKeep a (f a)) : AppsKeep s t := by
  refine ⟨?_, ?_⟩
  · intro x hx hxl
    by_cases hd : (x.live && x.id == app) = true
    · have : x = a := (appIds_atMostOne app hw.appIds).eq hx ham hd (by simp [hl, hid])
      subst this
      refine ⟨f x, ?_, hfl, hk⟩
      rw [ht]; exact List.mem_map.mpr ⟨x, hx, if_pos hd⟩
    · refine ⟨x, ?_, hxl, AppKeep.refl x⟩
      rw [ht]; exact List.mem_map.mpr ⟨x, hx, if_neg hd⟩
  · intro y hy hyl
    rw [ht] at hy
    rcases mem_updApps hw.appIds ham hl hid hy with h1 | ⟨h1, _⟩
    · subst h1; exact Or.inl ⟨a, ham, hl, hk⟩
    · exact Or.inl ⟨y, h1, hyl, AppKeep.refl y⟩

theorem NodesKeepR.of_map {s t : Core} (g : CNode → CNode) (ht : t.nodes = s.nodes.map g)
    (hg : ∀ n, (g n).id = n.id ∧ (g n).reservations = n.reservations) : NodesKeepR s t := by
  refine ⟨?_, ?_⟩
  · intro id n hn
    refine ⟨g n, ?_, (hg n).2⟩
    unfold findNode at hn ⊢
    rw [ht, LinkA.find_map_id _ g (fun n => (hg n).1), hn]; rfl
  · intro m hm
    rw [ht] at hm
    obtain ⟨n, hn, rfl⟩ := List.mem_map.mp hm
    exact Or.inl ⟨n, hn, (hg n).1.symm, (hg n).2.symm⟩

theorem NodesKeepR.of_eq {s t : Core} (ht : t.nodes = s.nodes) : NodesKeepR s t :=
  NodesKeepR.of_map (fun n => n) (by rw [ht, List.map_id']) (fun _ => ⟨rfl, rfl⟩)

theorem NodesKeepR.of_upd {s t : Core} (id : String) (f : CNode → CNode) (ht : t.nodes = updNs s.nodes id f)
    (hf : ∀ n, (f n).id = n.id ∧ (f n).reservations = n.reservations) : NodesKeepR s t := by
  refine NodesKeepR.of_map _ ht ?_
  intro n; split
  · exact hf n
  · exact ⟨rfl, rfl⟩

theorem QueuesKeep.of_map {s t : Core} (g : CQueue → CQueue) (ht : t.queues = s.queues.map g)
    (hg : ∀ q, (g q).path = q.path ∧ (g q).reserved = q.reserved) : QueuesKeep s t := by
  refine ⟨?_, ?_⟩
  · intro p hp
    unfold findQueue at hp ⊢
    rw [ht, List.find?_map]
    have : ((fun q : CQueue => q.path == p) ∘ g) = (fun q : CQueue => q.path == p) := by
      funext q; simp [(hg q).1]
    rw [this]
    cases hf : s.queues.find? (fun q => q.path == p) with
    | none => rw [hf] at hp; cases hp
    | some _ => rfl
  · intro q' hq'
    rw [ht] at hq'
    obtain ⟨q, hq, rfl⟩ := List.mem_map.mp hq'
    exact Or.inl ⟨q, hq, (hg q).1.symm, (hg q).2.symm⟩

theorem QueuesKeep.of_eq {s t : Core} (ht : t.queues = s.queues) : QueuesKeep s t :=
  QueuesKeep.of_map (fun q => q) (by rw [ht, List.map_id']) (fun _ => ⟨rfl, rfl⟩)

theorem QueuesKeep.of_upd {s t : Core} (ps : List String) (f : CQueue → CQueue) (ht : t.queues = updQs s.queues ps f)
    (hf : ∀ q, (f q).path = q.path ∧ (f q).reserved = q.reserved) : QueuesKeep s t := by
  refine QueuesKeep.of_map _ ht ?_
  intro q; split
  · exact hf q
  · exact ⟨rfl, rfl⟩

/-! ### the number of reservations -/

theorem resvTotal_of_apps {s t : Core} (ht : t.apps = s.apps) : resvTotal t = resvTotal s := by
  unfold resvTotal liveApps; rw [ht]

theorem filter_live_map (l : List CApp) (g : CApp → CApp) (hg : ∀ x, (g x).live = x.live) :
    (l.map g).filter (·.live) = (l.filter (·.live)).map g := by
  induction l with
  | nil => rfl
  | cons x t ih =>
    simp only [List.map_cons, List.filter_cons, hg x]
    cases x.live
    · simpa using ih
    · simpa using ih

/-- a sum over a list in which the one element that satisfies `c` is replaced -/
theorem sum_upd (l : List CApp) (c : CApp → Bool) (f : CApp → CApp) (w : CApp → Nat) (a : CApp)
    (hu : AtMostOne l c) (ha : a ∈ l) (hc : c a = true) :
    ((l.map (fun x => if c x = true then f x else x)).map w).sum + w a = (l.map w).sum + w (f a) := by
  induction l with
  | nil => cases ha
  | cons x t ih =>
    obtain ⟨hx, ht⟩ := List.pairwise_cons.mp hu
    rcases List.mem_cons.mp ha with rfl | hat
    · have hnone : ∀ y ∈ t, c y = false := by
        intro y hy
        cases hcy : c y with
        | false => rfl
        | true => exact (hx y hy hc hcy).elim
      rw [List.map_cons, if_pos hc, map_upd_none t c f hnone]
      simp only [List.map_cons, List.sum_cons]
      omega
    · have hcx : c x = false := by
        cases hcx : c x with
        | false => rfl
        | true => exact (hx a hat hcx hc).elim
      have := ih ht hat
      rw [List.map_cons, if_neg (by rw [hcx]; exact Bool.false_ne_true)]
      simp only [List.map_cons, List.sum_cons]
      omega

/-- the number of reservations after one live application is updated -/
theorem resvTotal_upd {s t : Core} (hw : CoreWF s) {app : String} {a : CApp} (f : CApp → CApp)
    (ham : a ∈ s.apps) (hl : a.live = true) (hid : a.id = app) (ht : t.apps = updApps s.apps app f)
    (hfl : ∀ x, (f x).live = x.live) :
    resvTotal t + a.reservations.length = resvTotal s + (f a).reservations.length := by
  unfold resvTotal liveApps
  rw [ht, filter_live_map]
  · have hu : AtMostOne (s.apps.filter (·.live)) (fun x => x.live && x.id == app) :=
      List.Pairwise.sublist List.filter_sublist (appIds_atMostOne app hw.appIds)
    exact sum_upd _ (fun x => x.live && x.id == app) f (fun x => x.reservations.length) a hu
      (List.mem_filter.mpr ⟨ham, by simpa using hl⟩) (by simp [hl, hid])
  · intro x; split
    · exact hfl x
    · rfl

end ResA
open ResA

/-! ### node requests, foreign allocations -/

theorem ResA.setRootMax_queues (s : Core) (t : Res) : QueuesKeep s (setRootMax s t) := by
  refine QueuesKeep.of_map _ rfl ?_
  intro q; split
  · exact ⟨rfl, rfl⟩
  · exact ⟨rfl, rfl⟩

theorem res_nodeCreate (s : Core) (id : String) (cap : Res) (b : Bool) (h : ResInv s) : ResInv (s.nodeCreate id cap b) := by
  unfold nodeCreate
  split
  · exact h
  · rename_i hnew
    refine res_of_keep' h (AppsKeep.of_eq rfl) ⟨?_, ?_⟩ (setRootMax_queues _ _) (Nat.le_of_eq (resvTotal_of_apps rfl))
      (Nat.le_refl _)
    · intro id' n hn
      exact ⟨n, by unfold findNode at hn ⊢; exact LinkA.find_append_new _ _ _ hn, rfl⟩
    · intro m hm
      have hm' : m ∈ s.nodes ++ [_] := hm
      rcases List.mem_append.mp hm' with hm1 | hm1
      · exact Or.inl ⟨m, hm1, rfl, rfl⟩
      · rw [List.mem_singleton] at hm1; subst hm1; exact Or.inr rfl

theorem res_nodeUpdate (s : Core) (id : String) (cap : Res) (h : ResInv s) : ResInv (s.nodeUpdate id cap) := by
  unfold nodeUpdate
  split
  · exact h
  · split
    · exact h
    · exact res_of_keep' h (AppsKeep.of_eq rfl) (NodesKeepR.of_upd id _ rfl (fun _ => ⟨rfl, rfl⟩)) (setRootMax_queues _ _)
        (Nat.le_of_eq (resvTotal_of_apps rfl)) (Nat.le_refl _)

theorem res_nodeSchedulable (s : Core) (id : String) (b : Bool) (h : ResInv s) : ResInv (s.nodeSchedulable id b) :=
  res_of_keep' h (AppsKeep.of_eq rfl) (NodesKeepR.of_upd id _ rfl (fun _ => ⟨rfl, rfl⟩)) (QueuesKeep.of_eq rfl)
    (Nat.le_of_eq (resvTotal_of_apps rfl)) (Nat.le_refl _)

theorem res_foreignAdd (s : Core) (key node : String) (res : Res) (h : ResInv s) : ResInv (s.foreignAdd key node res) := by
  unfold foreignAdd
  split
  · exact h
  · split
    · exact h
    · exact res_of_keep' h (AppsKeep.of_eq rfl) (NodesKeepR.of_upd node _ rfl (fun _ => ⟨rfl, rfl⟩)) (QueuesKeep.of_eq rfl)
        (Nat.le_of_eq (resvTotal_of_apps rfl)) (Nat.le_refl _)

theorem res_foreignRemove (s : Core) (key : String) (h : ResInv s) : ResInv (s.foreignRemove key) := by
  unfold foreignRemove
  split
  · exact h
  · split
    · exact res_of_keep' h (AppsKeep.of_eq rfl) (NodesKeepR.of_eq rfl) (QueuesKeep.of_eq rfl)
        (Nat.le_of_eq (resvTotal_of_apps rfl)) (Nat.le_refl _)
    · split
      · exact res_of_keep' h (AppsKeep.of_eq rfl) (NodesKeepR.of_eq rfl) (QueuesKeep.of_eq rfl)
          (Nat.le_of_eq (resvTotal_of_apps rfl)) (Nat.le_refl _)
      · exact res_of_keep' h (AppsKeep.of_eq rfl) (NodesKeepR.of_upd _ _ rfl (fun _ => ⟨rfl, rfl⟩)) (QueuesKeep.of_eq rfl)
          (Nat.le_of_eq (resvTotal_of_apps rfl)) (Nat.le_refl _)

/-! ### `cleanup`, `markReleased` -/

theorem res_cleanup (s : Core) (h : ResInv s) : ResInv s.cleanup := by
  have hlive : s.cleanup.liveApps = s.liveApps := by
    unfold cleanup liveApps
    rw [List.filter_filter]
    apply List.filter_congr
    intro x _
    cases x.live <;> simp
  refine res_of_keep' h ⟨?_, ?_⟩ (NodesKeepR.of_eq rfl) (QueuesKeep.of_eq rfl) ?_ (Nat.le_refl _)
  · intro a ha hl
    exact ⟨a, List.mem_filter.mpr ⟨ha, by simp [hl]⟩, hl, AppKeep.refl a⟩
  · intro b hb hl
    exact Or.inl ⟨b, (List.mem_filter.mp hb).1, hl, AppKeep.refl b⟩
  · unfold resvTotal; rw [hlive]; exact Nat.le_refl _

theorem res_markReleased (c : Core) (app key : String) (preempted : Bool) (hw : CoreWF c) (h : ResInv c) :
    ResInv (c.markReleased app key preempted) := by
  unfold markReleased
  split
  · exact h
  · rename_i a hfind
    obtain ⟨ham, hl, hid⟩ := findApp_some hfind
    split
    · exact h
    · have hk : AppKeep a { a with items := a.items.map (fun x =>
          if x.key == key then (if preempted then { x with preempted := true } else { x with released := true }) else x) } := by
        refine ⟨rfl, rfl, rfl, ?_, fun hq => Or.inl hq⟩
        intro r _ i hi _
        refine ⟨_, List.mem_map.mpr ⟨i, hi, rfl⟩, ?_⟩
        split
        · split <;> exact ⟨rfl, rfl, fun h => h⟩
        · exact ⟨rfl, rfl, fun h => h⟩
      have hc : ∀ t : Core, t.apps = updApps c.apps app (fun a => { a with items := a.items.map (fun x =>
          if x.key == key then (if preempted then { x with preempted := true } else { x with released := true }) else x) }) →
          resvTotal t ≤ resvTotal c := by
        intro t ht
        have := resvTotal_upd hw _ ham hl hid ht (fun _ => rfl)
        exact Nat.le_of_eq (Nat.add_right_cancel this)
      dsimp only
      split
      · exact res_of_keep' h (AppsKeep.of_upd hw _ ham hl hid rfl hl hk) (NodesKeepR.of_eq rfl)
          (QueuesKeep.of_upd _ _ rfl (fun _ => ⟨rfl, rfl⟩)) (hc _ rfl) (Nat.le_refl _)
      · exact res_of_keep' h (AppsKeep.of_upd hw _ ham hl hid rfl hl hk) (NodesKeepR.of_eq rfl)
          (QueuesKeep.of_eq rfl) (hc _ rfl) (Nat.le_refl _)

/-! ### a new ask -/

/-- the lists of the state after `ask`, the record of the application with everything `ResInv` looks at -/
theorem ResA.ask_shape (s : Core) (app key : String) (res : Res) (ph : Bool) (tg reqNode : String) :
    (s.ask app key res ph tg reqNode).1 = s ∨
    ∃ a, s.findApp app = some a ∧
      ∃ f : CApp → CApp,
        (s.ask app key res ph tg reqNode).1.apps = updApps s.apps app f ∧
        (s.ask app key res ph tg reqNode).1.queues =
          updQs s.queues (pathChain s a.queue) (fun q => { q with pending := addX q.pending res }) ∧
        (s.ask app key res ph tg reqNode).1.nodes = s.nodes ∧
        (s.ask app key res ph tg reqNode).1.reservations = s.reservations ∧
        (∀ x, (f x).id = x.id ∧ (f x).live = x.live ∧ (f x).queue = x.queue ∧ (f x).reservations = x.reservations ∧
          (f x).state = LifeA.askState a.state ∧ (f x).items = x.items ++ [askItem key res ph tg reqNode]) := by
  unfold ask
  split
  · exact Or.inl rfl
  · rename_i a hfind
    split
    · exact Or.inl rfl
    · split
      · exact Or.inl rfl
      · right
        exact ⟨a, hfind, _, rfl, rfl, rfl, rfl, fun x => ⟨rfl, rfl, rfl, rfl, rfl, rfl⟩⟩

theorem ResA.askState_quiet {st : String} (h : Quiet (LifeA.askState st)) : Quiet st := by
  obtain ⟨h1, h2⟩ := LifeA.askState_props st
  rcases h with h | h | h
  · left
    unfold LifeA.askState at h
    by_cases hc : (st == "New" || st == "Completing") = true
    · rw [if_pos hc] at h
      rcases LifeA.fire_run_cases st with e | e | e
      · rw [e] at h; exact h
      · rw [e] at h; exact absurd h (by decide)
      · rw [e] at h; exact absurd h (by decide)
    · rw [if_neg hc] at h; exact h
  · exact absurd h h1
  · exact Or.inr (Or.inr (h2 h))

theorem res_ask (s : Core) (app key : String) (res : Res) (ph : Bool) (tg reqNode : String) (hw : CoreWF s)
    (h : ResInv s) : ResInv (s.ask app key res ph tg reqNode).1 := by
  rcases ask_shape s app key res ph tg reqNode with he | ⟨a, hfind, f, hta, htq, htn, htr, hf⟩
  · rw [he]; exact h
  · obtain ⟨ham, hl, hid⟩ := findApp_some hfind
    obtain ⟨f1, f2, f3, f4, f5, f6⟩ := hf a
    have hk : AppKeep a (f a) := by
      refine ⟨f1, f3, f4, ?_, ?_⟩
      · intro r _ i hi _
        exact ⟨i, by rw [f6]; exact List.mem_append_left _ hi, rfl, rfl, fun h => h⟩
      · intro hq; rw [f5] at hq; exact Or.inl (askState_quiet hq)
    have hc := resvTotal_upd hw f ham hl hid hta (fun x => (hf x).2.1)
    rw [f4] at hc
    exact res_of_keep' h (AppsKeep.of_upd hw f ham hl hid hta (f2.trans hl) hk) (NodesKeepR.of_eq htn)
      (QueuesKeep.of_upd _ _ htq (fun _ => ⟨rfl, rfl⟩)) (Nat.le_of_eq (Nat.add_right_cancel hc)) (Nat.le_of_eq htr.symm)

/-! ### the scheduler binds an ask -/

theorem ResA.schedAlloc_resv (s s' : Core) (app key node : String) (h : s.schedAlloc app key node = some s') :
    s'.reservations = s.reservations := by
  unfold schedAlloc at h
  split at h
  · split at h
    · cases h
    · split at h
      · cases h
      · simp only [Option.some.injEq] at h
        subst h
        rfl
  · cases h

theorem ResA.schedApp_reservations (key node : String) (i : CItem) (a : CApp) :
    (schedApp key node i a).reservations = a.reservations := by
  unfold schedApp; cases i.ph <;> rfl

theorem ResA.schedApp_quiet {key node : String} {i : CItem} {a : CApp} (h : Quiet (schedApp key node i a).state) :
    Quiet a.state := by
  rcases h with h | h | h
  · left
    rcases LifeA.schedApp_state key node i a with ⟨e, _⟩ | e
    · rw [← e]; exact h
    · rw [e] at h
      rcases LifeA.fire_run_cases a.state with e' | e' | e'
      · rw [e'] at h; exact h
      · rw [e'] at h; exact absurd h (by decide)
      · rw [e'] at h; exact absurd h (by decide)
  · exact Or.inr (Or.inl (LifeA.schedApp_completing h).1)
  · exact Or.inr (Or.inr (LifeA.schedApp_terminated h))

/-- Side condition `NotReserved`: the ask that is allocated holds no reservation (partition.allocate unreserves first). -/
theorem res_schedAlloc (s s' : Core) (app key node : String) (hw : CoreWF s) (h : ResInv s)
    (hnr : NotReserved s app key) (hs : s.schedAlloc app key node = some s') : ResInv s' := by
  obtain ⟨a, n, i, hfind, _, _, hta, htq, htn⟩ := schedAlloc_lists s s' app key node hs
  obtain ⟨ham, hl, hid⟩ := findApp_some hfind
  have hk : AppKeep a (schedApp key node i a) := by
    refine ⟨schedApp_id .., schedApp_queue .., schedApp_reservations .., ?_, fun hq => Or.inl (schedApp_quiet hq)⟩
    intro r hr j hj hjk
    refine ⟨j, ?_, rfl, rfl, fun h => h⟩
    rw [schedApp_items]
    exact mem_updItem_of_ne hj (by rw [hjk]; exact hnr a hfind r hr)
  have hc := resvTotal_upd hw (schedApp key node i) ham hl hid hta (fun x => schedApp_live key node i x)
  rw [schedApp_reservations] at hc
  exact res_of_keep' h (AppsKeep.of_upd hw _ ham hl hid hta ((schedApp_live ..).trans hl) hk)
    (NodesKeepR.of_upd _ _ htn (fun _ => ⟨rfl, rfl⟩)) (QueuesKeep.of_upd _ _ htq (fun _ => ⟨rfl, rfl⟩))
    (Nat.le_of_eq (Nat.add_right_cancel hc)) (Nat.le_of_eq (schedAlloc_resv s s' app key node hs).symm)

/-! ### `appAdd` -/

theorem ResA.queuesAdd_queues (s : Core) (nq : List CQueue) (hq : ∀ q ∈ nq, q.reserved = []) :
    QueuesKeep s (s.queuesAdd nq) := by
  refine ⟨?_, ?_⟩
  · intro p hp
    unfold findQueue at hp ⊢
    unfold queuesAdd
    dsimp only
    rw [List.find?_append]
    cases hf : s.queues.find? (fun q => q.path == p) with
    | none => rw [hf] at hp; cases hp
    | some _ => rfl
  · intro q' hq'
    unfold queuesAdd at hq'
    dsimp only at hq'
    rcases List.mem_append.mp hq' with h1 | h1
    · exact Or.inl ⟨q', h1, rfl, rfl⟩
    · obtain ⟨q, hqm, rfl⟩ := List.mem_map.mp h1
      obtain ⟨hqn, hqf⟩ := List.mem_filter.mp hqm
      refine Or.inr ⟨hq q hqn, ?_⟩
      cases hf : s.findQueue q.path with
      | none => rfl
      | some _ => rw [hf] at hqf; cases hqf

/-- Side condition (`Op.okRes`): the new application and the new dynamic queues come without reservations. -/
theorem res_appAdd (s : Core) (a : Option CApp) (nq : List CQueue) (h : ResInv s)
    (hok : (∀ x, a = some x → x.reservations = []) ∧ (∀ q ∈ nq, q.reserved = [])) : ResInv (s.appAdd a nq) := by
  have hq := queuesAdd_queues s nq hok.2
  have h1 : ResInv (s.queuesAdd nq) :=
    res_of_keep' h (AppsKeep.of_eq rfl) (NodesKeepR.of_eq rfl) hq (Nat.le_of_eq (resvTotal_of_apps rfl)) (Nat.le_refl _)
  unfold appAdd
  dsimp only
  split
  · exact h1
  · rename_i x
    split
    · exact h1
    · rename_i hnew
      have hnone : s.findApp x.id = none := by
        cases hf : s.findApp x.id with
        | none => rfl
        | some _ => rw [hf] at hnew; simp at hnew
      refine res_of_keep' h ⟨?_, ?_⟩ (NodesKeepR.of_eq rfl) hq ?_ (Nat.le_refl _)
      · intro b hb hl
        exact ⟨b, List.mem_append_left _ hb, hl, AppKeep.refl b⟩
      · intro b hb hl
        have hb' : b ∈ s.apps ++ [_] := hb
        rcases List.mem_append.mp hb' with hb1 | hb1
        · exact Or.inl ⟨b, hb1, hl, AppKeep.refl b⟩
        · rw [List.mem_singleton] at hb1; subst hb1
          exact Or.inr ⟨hok.1 x rfl, hnone⟩
      · unfold resvTotal liveApps
        show (((s.apps ++ [_]).filter (fun a : CApp => a.live)).map (fun a : CApp => a.reservations.length)).sum ≤ _
        rw [List.filter_append, List.map_append, List.sum_append]
        simp [hok.1 x rfl]

/-! ### list lemmas for the queue view (`reserved`: application id ↦ count) -/

namespace ResA

/-- queue.UnReserve: the count of `app` goes down, the entry is dropped at zero -/
def decEntry (app : String) (e : String × Nat) : Option (String × Nat) :=
  if e.1 == app then (if e.2 ≤ 1 then none else some (e.1, e.2 - 1)) else some e

/-- queue.Reserve: the count of `app` goes up, a new entry starts at one -/
def bump (app : String) (l : List (String × Nat)) : List (String × Nat) :=
  if l.any (·.1 == app) then l.map (fun e => if e.1 == app then (e.1, e.2 + 1) else e) else l ++ [(app, 1)]

theorem lookup_none_of_not_mem (l : List (String × Nat)) (k : String) (h : k ∉ l.map (·.1)) : l.lookup k = none := by
  induction l with
  | nil => rfl
  | cons e t ih =>
    obtain ⟨e1, e2⟩ := e
    rw [List.map_cons, List.mem_cons, not_or] at h
    have hk : (k == e1) = false := by simpa using h.1
    rw [List.lookup_cons, hk]
    exact ih h.2

theorem decEntry_some {app : String} {e r : String × Nat} (h : decEntry app e = some r) :
    r.1 = e.1 ∧ (e.2 = 0 → r.2 = 0) := by
  unfold decEntry at h
  split at h
  · split at h
    · cases h
    · rename_i h2
      simp only [Option.some.injEq] at h; subst h
      exact ⟨rfl, fun h0 => absurd h0 (by omega)⟩
  · simp only [Option.some.injEq] at h; subst h
    exact ⟨rfl, fun h => h⟩

theorem keys_dec_sublist (app : String) (l : List (String × Nat)) :
    ((l.filterMap (decEntry app)).map (·.1)).Sublist (l.map (·.1)) := by
  induction l with
  | nil => exact List.Sublist.refl _
  | cons e t ih =>
    rw [List.filterMap_cons]
    cases hd : decEntry app e with
    | none => exact List.Sublist.cons _ ih
    | some r =>
      simp only [List.map_cons]
      rw [(decEntry_some hd).1]
      exact List.Sublist.cons_cons _ ih

theorem lookup_dec_other (app k : String) (l : List (String × Nat)) (hk : k ≠ app) :
    (l.filterMap (decEntry app)).lookup k = l.lookup k := by
  induction l with
  | nil => rfl
  | cons e t ih =>
    obtain ⟨e1, e2⟩ := e
    rw [List.filterMap_cons]
    by_cases he : (e1 == app) = true
    · have he' : e1 = app := by simpa using he
      have hke : (k == e1) = false := by rw [he']; simpa using hk
      by_cases h2 : e2 ≤ 1
      · have : decEntry app (e1, e2) = none := by unfold decEntry; rw [if_pos he, if_pos h2]
        rw [this, List.lookup_cons, hke]; exact ih
      · have : decEntry app (e1, e2) = some (e1, e2 - 1) := by unfold decEntry; rw [if_pos he, if_neg h2]
        rw [this]; dsimp only
        rw [List.lookup_cons, List.lookup_cons, hke]; exact ih
    · have : decEntry app (e1, e2) = some (e1, e2) := by unfold decEntry; rw [if_neg he]
      rw [this]
      dsimp only
      rw [List.lookup_cons, List.lookup_cons, ih]

theorem lookup_dec_self (app : String) (l : List (String × Nat)) (hn : (l.map (·.1)).Nodup) :
    ((l.filterMap (decEntry app)).lookup app).getD 0 = (l.lookup app).getD 0 - 1 := by
  induction l with
  | nil => rfl
  | cons e t ih =>
    obtain ⟨e1, e2⟩ := e
    rw [List.map_cons, List.nodup_cons] at hn
    rw [List.filterMap_cons]
    by_cases he : (e1 == app) = true
    · have he' : e1 = app := by simpa using he
      have hae : (app == e1) = true := by rw [he']; simp
      have hnot : app ∉ (t.filterMap (decEntry app)).map (·.1) := by
        intro hm
        exact hn.1 (he' ▸ (keys_dec_sublist app t).subset hm)
      by_cases h2 : e2 ≤ 1
      · have : decEntry app (e1, e2) = none := by unfold decEntry; rw [if_pos he, if_pos h2]
        rw [this, List.lookup_cons, hae]; dsimp only
        rw [lookup_none_of_not_mem _ _ hnot]
        show (0 : Nat) = e2 - 1
        omega
      · have : decEntry app (e1, e2) = some (e1, e2 - 1) := by unfold decEntry; rw [if_pos he, if_neg h2]
        rw [this]; dsimp only
        rw [List.lookup_cons, List.lookup_cons, hae]; rfl
    · have he' : e1 ≠ app := by simpa using he
      have hae : (app == e1) = false := by simpa using Ne.symm he'
      have : decEntry app (e1, e2) = some (e1, e2) := by unfold decEntry; rw [if_neg he]
      rw [this]
      dsimp only
      rw [List.lookup_cons, List.lookup_cons, hae]
      exact ih hn.2

theorem lookup_inc_other (app k : String) (l : List (String × Nat)) (hk : k ≠ app) :
    (l.map (fun e : String × Nat => if e.1 == app then (e.1, e.2 + 1) else e)).lookup k = l.lookup k := by
  induction l with
  | nil => rfl
  | cons e t ih =>
    obtain ⟨e1, e2⟩ := e
    rw [List.map_cons]
    by_cases he : (e1 == app) = true
    · have he' : e1 = app := by simpa using he
      have hke : (k == e1) = false := by rw [he']; simpa using hk
      rw [if_pos he, List.lookup_cons, List.lookup_cons, hke]; exact ih
    · rw [if_neg he, List.lookup_cons, List.lookup_cons, ih]

theorem keys_bump (app : String) (l : List (String × Nat)) (hn : (l.map (·.1)).Nodup) : ((bump app l).map (·.1)).Nodup := by
  unfold bump
  split
  · have : (l.map (fun e : String × Nat => if e.1 == app then (e.1, e.2 + 1) else e)).map (·.1) = l.map (·.1) := by
      rw [List.map_map]
      apply List.map_congr_left
      intro e _
      dsimp only [Function.comp]
      split <;> rfl
    rw [this]; exact hn
  · rename_i hany
    rw [List.map_append, List.nodup_append]
    refine ⟨hn, by simp, ?_⟩
    intro x hx y hy
    simp only [List.map_cons, List.map_nil, List.mem_singleton] at hy
    subst hy
    intro hxy; subst hxy
    apply hany
    obtain ⟨e, he, rfl⟩ := List.mem_map.mp hx
    exact List.any_eq_true.mpr ⟨e, he, by simp⟩

theorem lookup_bump_other (app k : String) (l : List (String × Nat)) (hk : k ≠ app) :
    (bump app l).lookup k = l.lookup k := by
  unfold bump
  split
  · exact lookup_inc_other app k l hk
  · rw [List.lookup_append]
    have : (k == app) = false := by simpa using hk
    rw [show [(app, 1)].lookup k = none by rw [List.lookup_cons, this]; rfl]
    cases l.lookup k <;> rfl

theorem lookup_bump_self (app : String) (l : List (String × Nat)) :
    ((bump app l).lookup app).getD 0 = (l.lookup app).getD 0 + 1 := by
  unfold bump
  split
  · rename_i hany
    induction l with
    | nil => simp at hany
    | cons e t ih =>
      obtain ⟨e1, e2⟩ := e
      rw [List.map_cons]
      by_cases he : (e1 == app) = true
      · have he' : e1 = app := by simpa using he
        have hae : (app == e1) = true := by rw [he']; simp
        rw [if_pos he, List.lookup_cons, List.lookup_cons, hae]; rfl
      · have he' : e1 ≠ app := by simpa using he
        have hae : (app == e1) = false := by simpa using Ne.symm he'
        rw [if_neg he, List.lookup_cons, List.lookup_cons, hae]
        apply ih
        rw [List.any_cons] at hany
        have he2 : (e1 == app) = false := by simpa using he
        simpa [he2] using hany
  · rename_i hany
    have hnot : app ∉ l.map (·.1) := by
      intro hm
      apply hany
      obtain ⟨e, he, rfl⟩ := List.mem_map.mp hm
      exact List.any_eq_true.mpr ⟨e, he, by simp⟩
    rw [List.lookup_append, lookup_none_of_not_mem _ _ hnot]
    simp

/-- one element less -/
theorem length_filter_ne {α : Type} [BEq α] [LawfulBEq α] (l : List α) (r : α) (hn : l.Nodup) (hr : r ∈ l) :
    (l.filter (· != r)).length + 1 = l.length := by
  induction l with
  | nil => cases hr
  | cons x t ih =>
    rw [List.nodup_cons] at hn
    rw [List.filter_cons]
    rcases List.mem_cons.mp hr with rfl | hrt
    · have : t.filter (· != r) = t := by
        rw [List.filter_eq_self]
        intro y hy
        have : y ≠ r := fun e => hn.1 (e ▸ hy)
        simpa using this
      simp [this]
    · have hx : x ≠ r := fun e => hn.1 (e ▸ hrt)
      have : (x != r) = true := by simpa using hx
      rw [if_pos this, List.length_cons, List.length_cons, ih hn.2 hrt]

end ResA

/-! ### `unreserve` -/

namespace ResA

/-- the application after unReserveInternal -/
def unresApp (key node : String) (x : CApp) : CApp := { x with reservations := x.reservations.filter (· != (key, node)) }
/-- the node after node.unReserve -/
def unresNode (key : String) (n : CNode) : CNode := { n with reservations := n.reservations.filter (· != key) }
/-- the queue after queue.UnReserve -/
def unresQ (app : String) (q : CQueue) : CQueue := { q with reserved := q.reserved.filterMap (decEntry app) }

theorem unreserve_shape (s : Core) (app key node : String) :
    s.unreserve app key node = s ∨
    ∃ a, s.findApp app = some a ∧ (key, node) ∈ a.reservations ∧
      (s.unreserve app key node).apps = s.apps.map (fun x => if (x.live && x.id == app) = true then unresApp key node x else x) ∧
      (s.unreserve app key node).nodes = s.nodes.map (fun n => if (n.id == node) = true then unresNode key n else n) ∧
      (s.unreserve app key node).queues = s.queues.map (fun q => if (q.path == a.queue) = true then unresQ app q else q) ∧
      (s.unreserve app key node).reservations = s.reservations - 1 := by
  unfold unreserve
  split
  · exact Or.inl rfl
  · rename_i a hfind
    split
    · exact Or.inl rfl
    · rename_i hc
      right
      refine ⟨a, hfind, ?_, rfl, rfl, rfl, rfl⟩
      simpa using hc

/-- `find?` by path after a map that keeps the paths -/
theorem findQueue_map {s t : Core} (g : CQueue → CQueue) (ht : t.queues = s.queues.map g) (hg : ∀ q, (g q).path = q.path)
    (p : String) : t.findQueue p = (s.findQueue p).map g := by
  unfold findQueue
  rw [ht, List.find?_map]
  have : ((fun q : CQueue => q.path == p) ∘ g) = (fun q : CQueue => q.path == p) := by
    funext q; simp [hg q]
  rw [this]

theorem findNode_map {s t : Core} (g : CNode → CNode) (ht : t.nodes = s.nodes.map g) (hg : ∀ n, (g n).id = n.id)
    (id : String) : t.findNode id = (s.findNode id).map g := by
  unfold findNode
  rw [ht, LinkA.find_map_id _ g hg]

theorem nodup_of_keys {l : List (String × String)} (h : (l.map (·.1)).Nodup) : l.Nodup :=
  List.Pairwise.of_map (·.1) (fun _ _ hab e => hab (e ▸ rfl)) h

end ResA

theorem res_unreserve (s : Core) (app key node : String) (hw : CoreWF s) (h : ResInv s) :
    ResInv (s.unreserve app key node) := by
  rcases unreserve_shape s app key node with he | ⟨a, hfind, hres, hta, htn, htq, htr⟩
  · rw [he]; exact h
  obtain ⟨ham, hl, hid⟩ := findApp_some hfind
  generalize s.unreserve app key node = t at hta htn htq htr ⊢
  -- the three maps
  let gA : CApp → CApp := fun x => if (x.live && x.id == app) = true then unresApp key node x else x
  let gN : CNode → CNode := fun n => if (n.id == node) = true then unresNode key n else n
  let gQ : CQueue → CQueue := fun q => if (q.path == a.queue) = true then unresQ app q else q
  have gA_live : ∀ x, (gA x).live = x.live := by intro x; show (if _ then _ else _ : CApp).live = _; split <;> rfl
  have gA_id : ∀ x, (gA x).id = x.id := by intro x; show (if _ then _ else _ : CApp).id = _; split <;> rfl
  have gA_queue : ∀ x, (gA x).queue = x.queue := by intro x; show (if _ then _ else _ : CApp).queue = _; split <;> rfl
  have gA_items : ∀ x, (gA x).items = x.items := by intro x; show (if _ then _ else _ : CApp).items = _; split <;> rfl
  have gA_state : ∀ x, (gA x).state = x.state := by intro x; show (if _ then _ else _ : CApp).state = _; split <;> rfl
  have gA_sub : ∀ x, (gA x).reservations.Sublist x.reservations := by
    intro x; show (if _ then _ else _ : CApp).reservations.Sublist _
    split
    · exact List.filter_sublist
    · exact List.Sublist.refl _
  have gA_keep : ∀ x, ∀ r ∈ x.reservations, r ≠ (key, node) → r ∈ (gA x).reservations := by
    intro x r hr hne; show r ∈ (if _ then _ else _ : CApp).reservations
    split
    · exact List.mem_filter.mpr ⟨hr, by simpa using hne⟩
    · exact hr
  have gA_other : ∀ x, ¬ (x.live && x.id == app) = true → gA x = x := fun x hc => if_neg hc
  have gA_self : ∀ x, (x.live && x.id == app) = true → gA x = unresApp key node x := fun x hc => if_pos hc
  have hcond_eq : ∀ x ∈ s.apps, (x.live && x.id == app) = true → x = a := fun x hx hc =>
    (appIds_atMostOne app hw.appIds).eq hx ham hc (by simp [hl, hid])
  -- the reservation that goes away is in no application of the new state
  have hexcl : ∀ x ∈ s.apps, x.live = true → (key, node) ∉ (gA x).reservations := by
    intro x hx hxl hm
    by_cases hc : (x.live && x.id == app) = true
    · rw [gA_self x hc] at hm
      have := (List.mem_filter.mp hm).2
      simp at this
    · rw [gA_other x hc] at hm
      have := h.owner x hx a ham hxl hl _ hm hres
      exact hc (by simp [hxl, this, hid])
  have gN_id : ∀ n, (gN n).id = n.id := by intro n; show (if _ then _ else _ : CNode).id = _; split <;> rfl
  have gN_sub : ∀ n, (gN n).reservations.Sublist n.reservations := by
    intro n; show (if _ then _ else _ : CNode).reservations.Sublist _
    split
    · exact List.filter_sublist
    · exact List.Sublist.refl _
  have gN_keep : ∀ n, ∀ k ∈ n.reservations, (n.id = node → k ≠ key) → k ∈ (gN n).reservations := by
    intro n k hk hne; show k ∈ (if _ then _ else _ : CNode).reservations
    split
    · rename_i hc
      exact List.mem_filter.mpr ⟨hk, by simpa using hne (by simpa using hc)⟩
    · exact hk
  have gN_ne : ∀ n, ∀ k ∈ (gN n).reservations, (k, n.id) ≠ (key, node) := by
    intro n k hk he
    simp only [Prod.mk.injEq] at he
    have hc : (n.id == node) = true := by simp [he.2]
    have : k ∈ (unresNode key n).reservations := by
      have e : gN n = unresNode key n := if_pos hc
      rw [← e]; exact hk
    have := (List.mem_filter.mp this).2
    simp [he.1] at this
  have gQ_path : ∀ q, (gQ q).path = q.path := by intro q; show (if _ then _ else _ : CQueue).path = _; split <;> rfl
  have hfq := findQueue_map gQ htq gQ_path
  have hfn := findNode_map gN htn gN_id
  have himg : ∀ x ∈ s.apps, gA x ∈ t.apps := fun x hx => by rw [hta]; exact List.mem_map.mpr ⟨x, hx, rfl⟩
  have hpre : ∀ b ∈ t.apps, ∃ x ∈ s.apps, b = gA x := by
    intro b hb; rw [hta] at hb
    obtain ⟨x, hx, e⟩ := List.mem_map.mp hb
    exact ⟨x, hx, e.symm⟩
  have hpreN : ∀ m ∈ t.nodes, ∃ n ∈ s.nodes, m = gN n := by
    intro m hm; rw [htn] at hm
    obtain ⟨n, hn, e⟩ := List.mem_map.mp hm
    exact ⟨n, hn, e.symm⟩
  have hpreQ : ∀ q' ∈ t.queues, ∃ q ∈ s.queues, q' = gQ q := by
    intro q' hq'; rw [htq] at hq'
    obtain ⟨q, hq, e⟩ := List.mem_map.mp hq'
    exact ⟨q, hq, e.symm⟩
  refine { appNode := ?_, outstanding := ?_, onePerAsk := ?_, nodeApp := ?_, nodeKeys := ?_, owner := ?_,
           queueCount := ?_, queueKeys := ?_, queueApp := ?_, counter := ?_, nodeExcl := ?_, quiet := ?_ }
  · -- appNode
    intro b hb hbl r hr
    obtain ⟨x, hx, rfl⟩ := hpre b hb
    rw [gA_live] at hbl
    obtain ⟨n0, hn0, hrn⟩ := h.appNode x hx hbl r ((gA_sub x).subset hr)
    refine ⟨gN n0, by rw [hfn, hn0]; rfl, gN_keep n0 _ hrn ?_⟩
    intro hnode hkey
    apply hexcl x hx hbl
    have : r = (key, node) := by
      rw [← hkey, ← hnode, (findNode_some hn0).2]
    rw [← this]; exact hr
  · -- outstanding
    intro b hb hbl r hr
    obtain ⟨x, hx, rfl⟩ := hpre b hb
    rw [gA_live] at hbl
    rw [gA_items]
    exact h.outstanding x hx hbl r ((gA_sub x).subset hr)
  · -- onePerAsk
    intro b hb hbl
    obtain ⟨x, hx, rfl⟩ := hpre b hb
    rw [gA_live] at hbl
    exact List.Nodup.sublist ((gA_sub x).map _) (h.onePerAsk x hx hbl)
  · -- nodeApp
    intro m hm k hk
    obtain ⟨n0, hn0, rfl⟩ := hpreN m hm
    obtain ⟨a0, ha0, hal0, har0⟩ := h.nodeApp n0 hn0 k ((gN_sub n0).subset hk)
    refine ⟨gA a0, himg a0 ha0, (gA_live a0).trans hal0, ?_⟩
    rw [gN_id]
    exact gA_keep a0 _ har0 (gN_ne n0 k hk)
  · -- nodeKeys
    intro m hm
    obtain ⟨n0, hn0, rfl⟩ := hpreN m hm
    exact List.Nodup.sublist (gN_sub n0) (h.nodeKeys n0 hn0)
  · -- owner
    intro b1 hb1 b2 hb2 hl1 hl2 r hr1 hr2
    obtain ⟨x1, hx1, rfl⟩ := hpre b1 hb1
    obtain ⟨x2, hx2, rfl⟩ := hpre b2 hb2
    rw [gA_live] at hl1 hl2
    rw [gA_id, gA_id]
    exact h.owner x1 hx1 x2 hx2 hl1 hl2 r ((gA_sub x1).subset hr1) ((gA_sub x2).subset hr2)
  · -- queueCount
    intro b hb hbl
    obtain ⟨x, hx, rfl⟩ := hpre b hb
    rw [gA_live] at hbl
    refine (qc_iff t (gA x)).mpr ⟨?_, ?_⟩
    · intro hnq
      rw [gA_queue, hfq] at hnq
      have hsn : s.findQueue x.queue = none := by
        cases hf : s.findQueue x.queue with
        | none => rfl
        | some _ => rw [hf] at hnq; cases hnq
      have := qc_none h hx hbl hsn
      exact List.eq_nil_iff_forall_not_mem.mpr (fun r hr => by
        have := (gA_sub x).subset hr
        rw [qc_none h hx hbl hsn] at this; cases this)
    · intro _ q' hq' hp
      obtain ⟨q0, hq0, rfl⟩ := hpreQ q' hq'
      rw [gQ_path, gA_queue] at hp
      have hold := qc_some h hx hbl (findQueue_isSome hq0 hp) q0 hq0 hp
      rw [gA_id]
      by_cases hc : (x.live && x.id == app) = true
      · have hxa := hcond_eq x hx hc
        subst hxa
        have hq : (q0.path == x.queue) = true := by simp [hp]
        have e1 : gQ q0 = unresQ app q0 := if_pos hq
        rw [e1, gA_self x hc]
        show ((q0.reserved.filterMap (decEntry app)).lookup x.id).getD 0 = (x.reservations.filter (· != (key, node))).length
        rw [hid, lookup_dec_self app _ (h.queueKeys q0 hq0), ← hid, hold]
        have := length_filter_ne x.reservations (key, node) (nodup_of_keys (h.onePerAsk x hx hbl)) hres
        omega
      · rw [gA_other x hc]
        have hne : x.id ≠ app := by
          intro e; exact hc (by simp [hbl, e])
        by_cases hq : (q0.path == a.queue) = true
        · have e1 : gQ q0 = unresQ app q0 := if_pos hq
          rw [e1]
          show ((q0.reserved.filterMap (decEntry app)).lookup x.id).getD 0 = _
          rw [lookup_dec_other app x.id _ hne]; exact hold
        · have e1 : gQ q0 = q0 := if_neg hq
          rw [e1]; exact hold
  · -- queueKeys
    intro q' hq'
    obtain ⟨q0, hq0, rfl⟩ := hpreQ q' hq'
    by_cases hq : (q0.path == a.queue) = true
    · have e1 : gQ q0 = unresQ app q0 := if_pos hq
      rw [e1]
      exact List.Nodup.sublist (keys_dec_sublist app q0.reserved) (h.queueKeys q0 hq0)
    · have e1 : gQ q0 = q0 := if_neg hq
      rw [e1]; exact h.queueKeys q0 hq0
  · -- queueApp
    intro q' hq' r hr
    obtain ⟨q0, hq0, rfl⟩ := hpreQ q' hq'
    rw [gQ_path]
    have hfrom : ∀ e ∈ q0.reserved, r.1 = e.1 → (e.2 = 0 → r.2 = 0) →
        r.2 = 0 ∨ ∃ b ∈ t.apps, b.live = true ∧ b.id = r.1 ∧ b.queue = q0.path := by
      intro e he h1 h2
      rcases h.queueApp q0 hq0 e he with h0 | ⟨a0, ha0, hal0, hid0, hq0'⟩
      · exact Or.inl (h2 h0)
      · exact Or.inr ⟨gA a0, himg a0 ha0, (gA_live a0).trans hal0, (gA_id a0).trans (hid0.trans h1.symm),
          (gA_queue a0).trans hq0'⟩
    by_cases hq : (q0.path == a.queue) = true
    · have e1 : gQ q0 = unresQ app q0 := if_pos hq
      rw [e1] at hr
      obtain ⟨e, he, hde⟩ := List.mem_filterMap.mp hr
      obtain ⟨h1, h2⟩ := decEntry_some hde
      exact hfrom e he h1 h2
    · have e1 : gQ q0 = q0 := if_neg hq
      rw [e1] at hr
      exact hfrom r hr rfl (fun h0 => h0)
  · -- counter
    have hc := resvTotal_upd (t := t) hw (unresApp key node) ham hl hid hta (fun _ => rfl)
    have hlen := length_filter_ne a.reservations (key, node) (nodup_of_keys (h.onePerAsk a ham hl)) hres
    have hlen' : (unresApp key node a).reservations.length + 1 = a.reservations.length := hlen
    have := h.counter
    rw [htr]; omega
  · -- nodeExcl
    intro m hm
    obtain ⟨n0, hn0, rfl⟩ := hpreN m hm
    rcases h.nodeExcl n0 hn0 with h1 | h2
    · exact Or.inl (Nat.le_trans (gN_sub n0).length_le h1)
    · right
      intro k hk
      obtain ⟨a0, ha0, hal0, har0, hitem⟩ := h2 k ((gN_sub n0).subset hk)
      refine ⟨gA a0, himg a0 ha0, (gA_live a0).trans hal0, ?_, ?_⟩
      · rw [gN_id]; exact gA_keep a0 _ har0 (gN_ne n0 k hk)
      · rw [gA_items, gN_id]; exact hitem
  · -- quiet
    intro b hb hbl hst
    obtain ⟨x, hx, rfl⟩ := hpre b hb
    rw [gA_live] at hbl
    rw [gA_state] at hst
    have := h.quiet x hx hbl hst
    exact List.eq_nil_iff_forall_not_mem.mpr (fun r hr => by
      have hr' := (gA_sub x).subset hr
      rw [this] at hr'; cases hr')

/-! ### `reserve` -/

namespace ResA

/-- the application after application.Reserve -/
def resApp (key node : String) (x : CApp) : CApp := { x with reservations := x.reservations ++ [(key, node)] }
/-- the node after node.Reserve -/
def resNode (key : String) (n : CNode) : CNode := { n with reservations := n.reservations ++ [key] }
/-- the queue after queue.Reserve -/
def resQ (app : String) (q : CQueue) : CQueue := { q with reserved := bump app q.reserved }

theorem reserve_shape (s : Core) (app key node : String) :
    s.reserve app key node = s ∨
    ∃ a, s.findApp app = some a ∧ (∀ r ∈ a.reservations, r.1 ≠ key) ∧
      (s.reserve app key node).apps = s.apps.map (fun x => if (x.live && x.id == app) = true then resApp key node x else x) ∧
      (s.reserve app key node).nodes = s.nodes.map (fun n => if (n.id == node) = true then resNode key n else n) ∧
      (s.reserve app key node).queues = s.queues.map (fun q => if (q.path == a.queue) = true then resQ app q else q) ∧
      (s.reserve app key node).reservations = s.reservations + 1 := by
  unfold reserve
  split
  · exact Or.inl rfl
  · rename_i a hfind
    split
    · exact Or.inl rfl
    · rename_i hc
      right
      refine ⟨a, hfind, ?_, rfl, rfl, rfl, rfl⟩
      intro r hr he
      apply hc
      exact List.any_eq_true.mpr ⟨r, hr, by simp [he]⟩

theorem mem_bump {app : String} {l : List (String × Nat)} {r : String × Nat} (h : r ∈ bump app l) : r.1 = app ∨ r ∈ l := by
  unfold bump at h
  split at h
  · obtain ⟨e, he, rfl⟩ := List.mem_map.mp h
    by_cases hc : (e.1 == app) = true
    · rw [if_pos hc]; left; simpa using hc
    · rw [if_neg hc]; exact Or.inr he
  · rcases List.mem_append.mp h with h1 | h1
    · exact Or.inr h1
    · rw [List.mem_singleton] at h1; subst h1; exact Or.inl rfl

end ResA

/-- Side condition `ReserveOK` (Core2Res.lean): the ask is outstanding, its application is neither Failing nor Completing
    and has its queue, the node is registered, does not list the ask yet, and is free or shared by required-node asks. -/
theorem res_reserve (s : Core) (app key node : String) (hw : CoreWF s) (hlife : LifeInv s) (h : ResInv s)
    (hok : ReserveOK s app key node) : ResInv (s.reserve app key node) := by
  rcases reserve_shape s app key node with he | ⟨a, hfind, hnot, hta, htn, htq, htr⟩
  · rw [he]; exact h
  obtain ⟨ham, hl, hid⟩ := findApp_some hfind
  obtain ⟨hnf, hnc, ⟨i0, hi0, hi0k, hi0o⟩, hqs⟩ := hok.appState a hfind
  obtain ⟨n, hn, hkn, hfree⟩ := hok.nodeFree a hfind
  obtain ⟨hnm, hnid⟩ := findNode_some hn
  generalize s.reserve app key node = t at hta htn htq htr ⊢
  let gA : CApp → CApp := fun x => if (x.live && x.id == app) = true then resApp key node x else x
  let gN : CNode → CNode := fun n => if (n.id == node) = true then resNode key n else n
  let gQ : CQueue → CQueue := fun q => if (q.path == a.queue) = true then resQ app q else q
  have gA_live : ∀ x, (gA x).live = x.live := by intro x; show (if _ then _ else _ : CApp).live = _; split <;> rfl
  have gA_id : ∀ x, (gA x).id = x.id := by intro x; show (if _ then _ else _ : CApp).id = _; split <;> rfl
  have gA_queue : ∀ x, (gA x).queue = x.queue := by intro x; show (if _ then _ else _ : CApp).queue = _; split <;> rfl
  have gA_items : ∀ x, (gA x).items = x.items := by intro x; show (if _ then _ else _ : CApp).items = _; split <;> rfl
  have gA_state : ∀ x, (gA x).state = x.state := by intro x; show (if _ then _ else _ : CApp).state = _; split <;> rfl
  have gA_other : ∀ x, ¬ (x.live && x.id == app) = true → gA x = x := fun x hc => if_neg hc
  have gA_self : ∀ x, (x.live && x.id == app) = true → gA x = resApp key node x := fun x hc => if_pos hc
  have hca : (a.live && a.id == app) = true := by simp [hl, hid]
  have hcond_eq : ∀ x ∈ s.apps, (x.live && x.id == app) = true → x = a := fun x hx hc =>
    (appIds_atMostOne app hw.appIds).eq hx ham hc hca
  have gA_sup : ∀ x, ∀ r ∈ x.reservations, r ∈ (gA x).reservations := by
    intro x r hr; show r ∈ (if _ then _ else _ : CApp).reservations
    split
    · exact List.mem_append_left _ hr
    · exact hr
  have gA_cases : ∀ x, ∀ r ∈ (gA x).reservations, r ∈ x.reservations ∨ ((x.live && x.id == app) = true ∧ r = (key, node)) := by
    intro x r hr
    by_cases hc : (x.live && x.id == app) = true
    · rw [gA_self x hc] at hr
      rcases List.mem_append.mp hr with h1 | h1
      · exact Or.inl h1
      · rw [List.mem_singleton] at h1; exact Or.inr ⟨hc, h1⟩
    · rw [gA_other x hc] at hr; exact Or.inl hr
  have gA_new : (key, node) ∈ (gA a).reservations := by
    rw [gA_self a hca]; exact List.mem_append_right _ (List.mem_singleton.mpr rfl)
  have gN_id : ∀ n, (gN n).id = n.id := by intro n; show (if _ then _ else _ : CNode).id = _; split <;> rfl
  have gN_other : ∀ m, ¬ (m.id == node) = true → gN m = m := fun m hc => if_neg hc
  have gN_self : ∀ m, (m.id == node) = true → gN m = resNode key m := fun m hc => if_pos hc
  have gN_sup : ∀ m, ∀ k ∈ m.reservations, k ∈ (gN m).reservations := by
    intro m k hk; show k ∈ (if _ then _ else _ : CNode).reservations
    split
    · exact List.mem_append_left _ hk
    · exact hk
  have gN_cases : ∀ m, ∀ k ∈ (gN m).reservations, k ∈ m.reservations ∨ (m.id = node ∧ k = key) := by
    intro m k hk
    by_cases hc : (m.id == node) = true
    · rw [gN_self m hc] at hk
      rcases List.mem_append.mp hk with h1 | h1
      · exact Or.inl h1
      · rw [List.mem_singleton] at h1; exact Or.inr ⟨by simpa using hc, h1⟩
    · rw [gN_other m hc] at hk; exact Or.inl hk
  have hcn : (n.id == node) = true := by simp [hnid]
  have gN_new : key ∈ (gN n).reservations := by
    rw [gN_self n hcn]; exact List.mem_append_right _ (List.mem_singleton.mpr rfl)
  have hnode_eq : ∀ m ∈ s.nodes, m.id = node → m = n := fun m hm hmid => findNode_eq hw hn hm hmid
  -- nobody holds the new reservation yet
  have hfresh : ∀ x ∈ s.apps, x.live = true → (key, node) ∉ x.reservations := by
    intro x hx hxl hm
    obtain ⟨n', hn', hk'⟩ := h.appNode x hx hxl _ hm
    rw [hn] at hn'
    simp only [Option.some.injEq] at hn'
    subst hn'
    exact hkn hk'
  have gQ_path : ∀ q, (gQ q).path = q.path := by intro q; show (if _ then _ else _ : CQueue).path = _; split <;> rfl
  have hfq := findQueue_map gQ htq gQ_path
  have hfn := findNode_map gN htn gN_id
  have himg : ∀ x ∈ s.apps, gA x ∈ t.apps := fun x hx => by rw [hta]; exact List.mem_map.mpr ⟨x, hx, rfl⟩
  have hpre : ∀ b ∈ t.apps, ∃ x ∈ s.apps, b = gA x := by
    intro b hb; rw [hta] at hb
    obtain ⟨x, hx, e⟩ := List.mem_map.mp hb
    exact ⟨x, hx, e.symm⟩
  have hpreN : ∀ m ∈ t.nodes, ∃ n ∈ s.nodes, m = gN n := by
    intro m hm; rw [htn] at hm
    obtain ⟨n, hn, e⟩ := List.mem_map.mp hm
    exact ⟨n, hn, e.symm⟩
  have hpreQ : ∀ q' ∈ t.queues, ∃ q ∈ s.queues, q' = gQ q := by
    intro q' hq'; rw [htq] at hq'
    obtain ⟨q, hq, e⟩ := List.mem_map.mp hq'
    exact ⟨q, hq, e.symm⟩
  refine { appNode := ?_, outstanding := ?_, onePerAsk := ?_, nodeApp := ?_, nodeKeys := ?_, owner := ?_,
           queueCount := ?_, queueKeys := ?_, queueApp := ?_, counter := ?_, nodeExcl := ?_, quiet := ?_ }
  · -- appNode
    intro b hb hbl r hr
    obtain ⟨x, hx, rfl⟩ := hpre b hb
    rw [gA_live] at hbl
    rcases gA_cases x r hr with h1 | ⟨_, h1⟩
    · obtain ⟨n0, hn0, hrn⟩ := h.appNode x hx hbl r h1
      exact ⟨gN n0, by rw [hfn, hn0]; rfl, gN_sup n0 _ hrn⟩
    · subst h1
      exact ⟨gN n, by rw [hfn, hn]; rfl, gN_new⟩
  · -- outstanding
    intro b hb hbl r hr
    obtain ⟨x, hx, rfl⟩ := hpre b hb
    rw [gA_live] at hbl
    rw [gA_items]
    rcases gA_cases x r hr with h1 | ⟨hc, h1⟩
    · exact h.outstanding x hx hbl r h1
    · subst h1
      rw [hcond_eq x hx hc]
      exact ⟨i0, hi0, hi0k, hi0o⟩
  · -- onePerAsk
    intro b hb hbl
    obtain ⟨x, hx, rfl⟩ := hpre b hb
    rw [gA_live] at hbl
    by_cases hc : (x.live && x.id == app) = true
    · rw [gA_self x hc, hcond_eq x hx hc]
      show ((a.reservations ++ [(key, node)]).map (·.1)).Nodup
      rw [List.map_append, List.nodup_append]
      refine ⟨h.onePerAsk a ham hl, by simp, ?_⟩
      intro k1 hk1 k2 hk2
      simp only [List.map_cons, List.map_nil, List.mem_singleton] at hk2
      subst hk2
      obtain ⟨r, hr, rfl⟩ := List.mem_map.mp hk1
      exact hnot r hr
    · rw [gA_other x hc]; exact h.onePerAsk x hx hbl
  · -- nodeApp
    intro m hm k hk
    obtain ⟨n0, hn0, rfl⟩ := hpreN m hm
    rw [gN_id]
    rcases gN_cases n0 k hk with h1 | ⟨h1, h2⟩
    · obtain ⟨a0, ha0, hal0, har0⟩ := h.nodeApp n0 hn0 k h1
      exact ⟨gA a0, himg a0 ha0, (gA_live a0).trans hal0, gA_sup a0 _ har0⟩
    · subst h2; rw [h1]
      exact ⟨gA a, himg a ham, (gA_live a).trans hl, gA_new⟩
  · -- nodeKeys
    intro m hm
    obtain ⟨n0, hn0, rfl⟩ := hpreN m hm
    by_cases hc : (n0.id == node) = true
    · rw [gN_self n0 hc, hnode_eq n0 hn0 (by simpa using hc)]
      show (n.reservations ++ [key]).Nodup
      rw [List.nodup_append]
      refine ⟨h.nodeKeys n hnm, by simp, ?_⟩
      intro k1 hk1 k2 hk2
      rw [List.mem_singleton] at hk2
      subst hk2
      intro e; subst e; exact hkn hk1
    · rw [gN_other n0 hc]; exact h.nodeKeys n0 hn0
  · -- owner
    intro b1 hb1 b2 hb2 hl1 hl2 r hr1 hr2
    obtain ⟨x1, hx1, rfl⟩ := hpre b1 hb1
    obtain ⟨x2, hx2, rfl⟩ := hpre b2 hb2
    rw [gA_live] at hl1 hl2
    rw [gA_id, gA_id]
    rcases gA_cases x1 r hr1 with h1 | ⟨hc1, h1⟩
    · rcases gA_cases x2 r hr2 with h2 | ⟨_, h2⟩
      · exact h.owner x1 hx1 x2 hx2 hl1 hl2 r h1 h2
      · subst h2; exact absurd h1 (hfresh x1 hx1 hl1)
    · rcases gA_cases x2 r hr2 with h2 | ⟨hc2, _⟩
      · subst h1; exact absurd h2 (hfresh x2 hx2 hl2)
      · rw [hcond_eq x1 hx1 hc1, hcond_eq x2 hx2 hc2]
  · -- queueCount
    intro b hb hbl
    obtain ⟨x, hx, rfl⟩ := hpre b hb
    rw [gA_live] at hbl
    refine (qc_iff t (gA x)).mpr ⟨?_, ?_⟩
    · intro hnq
      rw [gA_queue, hfq] at hnq
      have hsn : s.findQueue x.queue = none := by
        cases hf : s.findQueue x.queue with
        | none => rfl
        | some _ => rw [hf] at hnq; cases hnq
      by_cases hc : (x.live && x.id == app) = true
      · rw [hcond_eq x hx hc] at hsn; rw [hsn] at hqs; cases hqs
      · rw [gA_other x hc]; exact qc_none h hx hbl hsn
    · intro _ q' hq' hp
      obtain ⟨q0, hq0, rfl⟩ := hpreQ q' hq'
      rw [gQ_path, gA_queue] at hp
      have hold := qc_some h hx hbl (findQueue_isSome hq0 hp) q0 hq0 hp
      rw [gA_id]
      by_cases hc : (x.live && x.id == app) = true
      · have hxa := hcond_eq x hx hc
        subst hxa
        have hq : (q0.path == x.queue) = true := by simp [hp]
        have e1 : gQ q0 = resQ app q0 := if_pos hq
        rw [e1, gA_self x hc]
        show ((bump app q0.reserved).lookup x.id).getD 0 = (x.reservations ++ [(key, node)]).length
        rw [hid, lookup_bump_self app, ← hid, hold, List.length_append]; rfl
      · rw [gA_other x hc]
        have hne : x.id ≠ app := by
          intro e; exact hc (by simp [hbl, e])
        by_cases hq : (q0.path == a.queue) = true
        · have e1 : gQ q0 = resQ app q0 := if_pos hq
          rw [e1]
          show ((bump app q0.reserved).lookup x.id).getD 0 = _
          rw [lookup_bump_other app x.id _ hne]; exact hold
        · have e1 : gQ q0 = q0 := if_neg hq
          rw [e1]; exact hold
  · -- queueKeys
    intro q' hq'
    obtain ⟨q0, hq0, rfl⟩ := hpreQ q' hq'
    by_cases hq : (q0.path == a.queue) = true
    · have e1 : gQ q0 = resQ app q0 := if_pos hq
      rw [e1]
      exact keys_bump app q0.reserved (h.queueKeys q0 hq0)
    · have e1 : gQ q0 = q0 := if_neg hq
      rw [e1]; exact h.queueKeys q0 hq0
  · -- queueApp
    intro q' hq' r hr
    obtain ⟨q0, hq0, rfl⟩ := hpreQ q' hq'
    rw [gQ_path]
    have hfrom : r ∈ q0.reserved → r.2 = 0 ∨ ∃ b ∈ t.apps, b.live = true ∧ b.id = r.1 ∧ b.queue = q0.path := by
      intro he
      rcases h.queueApp q0 hq0 r he with h0 | ⟨a0, ha0, hal0, hid0, hq0'⟩
      · exact Or.inl h0
      · exact Or.inr ⟨gA a0, himg a0 ha0, (gA_live a0).trans hal0, (gA_id a0).trans hid0, (gA_queue a0).trans hq0'⟩
    by_cases hq : (q0.path == a.queue) = true
    · have e1 : gQ q0 = resQ app q0 := if_pos hq
      rw [e1] at hr
      rcases mem_bump hr with h1 | h1
      · right
        exact ⟨gA a, himg a ham, (gA_live a).trans hl, (gA_id a).trans (hid.trans h1.symm),
          (gA_queue a).trans (by simpa using Eq.symm (by simpa using hq))⟩
      · exact hfrom h1
    · have e1 : gQ q0 = q0 := if_neg hq
      rw [e1] at hr
      exact hfrom hr
  · -- counter
    have hc := resvTotal_upd (t := t) hw (resApp key node) ham hl hid hta (fun _ => rfl)
    have hlen : (resApp key node a).reservations.length = a.reservations.length + 1 := by
      show (a.reservations ++ [(key, node)]).length = _
      rw [List.length_append]; rfl
    have := h.counter
    rw [htr]; omega
  · -- nodeExcl
    intro m hm
    obtain ⟨n0, hn0, rfl⟩ := hpreN m hm
    have hold : (∀ k ∈ n0.reservations, ∃ a ∈ s.apps, a.live = true ∧ (k, n0.id) ∈ a.reservations ∧
          ∃ i ∈ a.items, i.key = k ∧ i.reqNode = n0.id) →
        ∀ k ∈ n0.reservations, ∃ b ∈ t.apps, b.live = true ∧ (k, n0.id) ∈ b.reservations ∧
          ∃ i ∈ b.items, i.key = k ∧ i.reqNode = n0.id := by
      intro h2 k hk
      obtain ⟨a0, ha0, hal0, har0, hitem⟩ := h2 k hk
      exact ⟨gA a0, himg a0 ha0, (gA_live a0).trans hal0, gA_sup a0 _ har0, by rw [gA_items]; exact hitem⟩
    by_cases hc : (n0.id == node) = true
    · have hn0n := hnode_eq n0 hn0 (by simpa using hc)
      subst hn0n
      rw [gN_self n0 hc]
      rcases hfree with h1 | ⟨⟨i, hi, hik, hin⟩, hall⟩
      · left
        show (n0.reservations ++ [key]).length ≤ 1
        rw [h1]; exact Nat.le_refl _
      · right
        intro k hk
        show ∃ b ∈ t.apps, b.live = true ∧ (k, n0.id) ∈ b.reservations ∧ ∃ i ∈ b.items, i.key = k ∧ i.reqNode = n0.id
        have hk' : k ∈ n0.reservations ++ [key] := hk
        rcases List.mem_append.mp hk' with h1 | h1
        · exact hold hall k h1
        · rw [List.mem_singleton] at h1; subst h1
          refine ⟨gA a, himg a ham, (gA_live a).trans hl, by rw [hnid]; exact gA_new, i, by rw [gA_items]; exact hi, hik, ?_⟩
          rw [hin, hnid]
    · rw [gN_other n0 hc]
      rcases h.nodeExcl n0 hn0 with h1 | h2
      · exact Or.inl h1
      · exact Or.inr (hold h2)
  · -- quiet
    intro b hb hbl hst
    obtain ⟨x, hx, rfl⟩ := hpre b hb
    rw [gA_live] at hbl
    rw [gA_state] at hst
    by_cases hc : (x.live && x.id == app) = true
    · rw [hcond_eq x hx hc] at hst
      rcases hst with h1 | h1 | h1
      · exact absurd h1 hnf
      · exact absurd h1 hnc
      · rw [hlife.termGone a ham hl] at h1; cases h1
    · rw [gA_other x hc]; exact h.quiet x hx hbl hst

end Yk
